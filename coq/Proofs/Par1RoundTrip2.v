(* PAR1 round trip with lost input files AND lost parity volumes (Model/Par1.v over Model/FS.v):
   RT3. par1_create_lose_files_and_volumes: after Create, remove any input files `lost` and any
        volumes `lostv` (numbers in 1 .. min nv 99, distinct) with
        length lost <= min nv 99 - length lostv.  Repair then either returns Ok, reports exactly
        the lost files and has every input file back BYTE FOR BYTE, or it returns Err ESingular
        (the PAR1 matrix is flawed: some surviving sub-matrices are singular) with nothing
        written and nothing reported.  No other outcome exists.
   RT4. par1_create_lose_too_many: when more input files are lost than volumes remain, Repair
        returns Err ENotEnoughParity with nothing written.
   Both are corollaries of par1_lose_general.  par1_singular_instance shows that the singular
   outcome does occur (3 files, 4 volumes, the 3 files and volume 3 lost). *)
From Coq Require Import Lia.
From Coq Require Import ZifyN ZifyNat ZifyBool.
From Gopar Require Import Model.Base Model.Matrix Model.RS16 Model.GF8 Model.CRC Model.GoPath Model.FS Model.Par1
     Proofs.LinAlg Proofs.LinAlgSingular Proofs.RS16Facts
     Proofs.GoPathFacts Proofs.Par2Create Proofs.Par2Facts Proofs.Par2Verify Proofs.Par2Faults Proofs.Par2Clean
     Proofs.GF8Facts Proofs.Par1Facts Proofs.Par1Safety Proofs.Utf16Facts Proofs.Par1Clean Proofs.Par1RoundTrip.
Open Scope N_scope.
Set Default Timeout 120.

(** * list helpers *)

Notation idb := (fun b : bool => b).

Lemma lsi_app_nones : forall (l : list (option bytes)) m i acc,
  last_some_index (l ++ repeat None m) i acc = last_some_index l i acc.
Proof.
  induction l as [|[x|] l IH]; intros m i acc; cbn [app last_some_index].
  - apply last_some_index_nones.
  - apply IH.
  - apply IH.
Qed.

(* the index found is that of the last filled slot: cutting after it loses no filled slot *)
Lemma lsi_spec : forall (l : list (option bytes)) i acc,
  (count_present l = 0%nat /\ last_some_index l i acc = acc) \/
  (exists j, (j < length l)%nat /\ last_some_index l i acc = (i + j)%nat /\
             count_present (firstn (S j) l) = count_present l).
Proof.
  induction l as [|[x|] l IH]; intros i acc; cbn [last_some_index].
  - left. split; reflexivity.
  - right. destruct (IH (S i) i) as [[Hc E]|(j & Hj & E & Hc)].
    + exists 0%nat. cbn [length]. split; [lia|]. split; [rewrite E; lia|].
      cbn [firstn]. rewrite !count_present_cons_some, Hc. reflexivity.
    + exists (S j). cbn [length]. split; [lia|]. split; [rewrite E; lia|].
      change (firstn (S (S j)) (Some x :: l)) with (Some x :: firstn (S j) l).
      rewrite !count_present_cons_some, Hc. reflexivity.
  - destruct (IH (S i) acc) as [[Hc E]|(j & Hj & E & Hc)].
    + left. split; [rewrite count_present_cons_none; exact Hc|exact E].
    + right. exists (S j). cbn [length]. split; [lia|]. split; [rewrite E; lia|].
      change (firstn (S (S j)) (@None bytes :: l)) with (@None bytes :: firstn (S j) l).
      rewrite !count_present_cons_none, Hc. reflexivity.
Qed.

Lemma firstn_erase {A} : forall n (keep : list bool) (l : list A),
  firstn n (erase keep l) = erase (firstn n keep) (firstn n l).
Proof.
  induction n as [|n IH]; intros keep l; [reflexivity|].
  destruct keep as [|b keep]; [reflexivity|]. destruct l as [|x l]; [reflexivity|].
  rewrite erase_cons. cbn [firstn]. rewrite erase_cons, IH. reflexivity.
Qed.

Lemma existsb_filter_pos : forall k : list bool, existsb idb k = true -> (0 < length (filter idb k))%nat.
Proof.
  induction k as [|b k IH]; intros H; [discriminate H|]. cbn [existsb] in H. destruct b; cbn [filter length]; [lia|].
  apply IH. exact H.
Qed.

Lemma existsb_filter_zero : forall k : list bool, existsb idb k = false -> length (filter idb k) = 0%nat.
Proof.
  induction k as [|b k IH]; intros H; [reflexivity|]. cbn [existsb] in H. destruct b; [discriminate H|].
  cbn [filter]. apply IH. exact H.
Qed.

Lemma count_none1_erase {A} : forall (k : list bool) (l : list A), length k = length l ->
  count_none1 (erase k l) = length (filter negb k).
Proof.
  unfold count_none1.
  induction k as [|b k IH]; intros [|x l] H; cbn [length] in H; try lia; [reflexivity|].
  rewrite erase_cons. destruct b; cbn [filter negb length]; rewrite IH by lia; reflexivity.
Qed.

Lemma filter_negb_map {A} (Q : A -> bool) (l : list A) :
  length (filter negb (map Q l)) = length (filter (fun x => negb (Q x)) l).
Proof.
  pose proof (filter_map_split Q l) as H1. pose proof (filter_bool_split (map Q l)) as H2.
  rewrite map_length in H2. lia.
Qed.

(* the slots kept by the loader: everything up to the last loaded volume *)
Lemma parity_slots_shape (kv : list bool) (vs : list bytes) m :
  length kv = length vs -> existsb idb kv = true ->
  exists q, (0 < q <= length kv)%nat /\
    firstn (S (last_some_index (erase kv vs ++ repeat None m) 0 0)) (erase kv vs ++ repeat None m)
      = erase (firstn q kv) (firstn q vs) /\
    length (filter idb (firstn q kv)) = length (filter idb kv).
Proof.
  intros Hl Hex. rewrite lsi_app_nones.
  pose proof (erase_length kv vs Hl) as Hel.
  destruct (lsi_spec (erase kv vs) 0 0) as [[Hc _]|(j & Hj & E & Hc)].
  - exfalso. rewrite (count_present_erase kv vs Hl) in Hc. pose proof (existsb_filter_pos kv Hex). lia.
  - exists (S j). rewrite Hel in Hj. split; [lia|]. rewrite E. cbn [Nat.add]. split.
    + rewrite firstn_app. replace (S j - length (erase kv vs))%nat with 0%nat by lia.
      rewrite firstn_O, app_nil_r. apply firstn_erase.
    + rewrite firstn_erase in Hc.
      rewrite (count_present_erase (firstn (S j) kv) (firstn (S j) vs)) in Hc by (rewrite !firstn_length; lia).
      rewrite (count_present_erase kv vs Hl) in Hc. exact Hc.
Qed.

(** * which volumes are kept *)

Definition vol_kept (lostv : list nat) (j : nat) : bool := negb (existsb (Nat.eqb (S j)) lostv).
Definition vmask (lostv : list nat) (np : nat) : list bool := map (vol_kept lostv) (seq 0 np).
Definition lostv_paths (ix : list N) (lostv : list nat) : list (list N) :=
  map (fun k => volume_path ix (N.of_nat k)) lostv.

Lemma existsb_nat_in k l : existsb (Nat.eqb k) l = true <-> In k l.
Proof.
  rewrite existsb_exists. split.
  - intros (x & Hin & E). apply Nat.eqb_eq in E. subst x. exact Hin.
  - intros Hin. exists k. split; [exact Hin|apply Nat.eqb_refl].
Qed.

Lemma vmask_length lostv np : length (vmask lostv np) = np.
Proof. unfold vmask. rewrite map_length, seq_length. reflexivity. Qed.

Lemma vmask_nth lostv np j : (j < np)%nat -> nth j (vmask lostv np) false = vol_kept lostv j.
Proof. intros H. unfold vmask. apply (nth_map_seq (vol_kept lostv) false np j H). Qed.

Lemma vol_kept_true lostv j : vol_kept lostv j = true -> ~ In (S j) lostv.
Proof.
  unfold vol_kept. intros H Hin. apply existsb_nat_in in Hin. rewrite Hin in H. discriminate H.
Qed.

Lemma vol_kept_false lostv j : vol_kept lostv j = false -> In (S j) lostv.
Proof. unfold vol_kept. intros H. apply negb_false_iff in H. apply existsb_nat_in. exact H. Qed.

(* exactly the lost volumes are masked out *)
Lemma vmask_false_count lostv np : NoDup lostv -> (forall k, In k lostv -> (1 <= k <= np)%nat) ->
  length (filter negb (vmask lostv np)) = length lostv.
Proof.
  intros Hnd Hr. unfold vmask. rewrite filter_negb_map.
  set (B := filter (fun j => negb (vol_kept lostv j)) (seq 0 np)).
  assert (HB : NoDup (map S B)).
  { apply FinFun.Injective_map_NoDup; [intros a b E; lia|]. unfold B. apply NoDup_filter. apply seq_NoDup. }
  rewrite <- (map_length S B). apply Nat.le_antisymm.
  - apply NoDup_incl_length; [exact HB|]. intros k Hk. apply in_map_iff in Hk. destruct Hk as (j & <- & Hj).
    unfold B in Hj. apply filter_In in Hj. destruct Hj as [_ Hj]. apply negb_true_iff in Hj.
    apply vol_kept_false. exact Hj.
  - apply NoDup_incl_length; [exact Hnd|]. intros k Hk. pose proof (Hr k Hk) as Hkr.
    apply in_map_iff. exists (k - 1)%nat. split; [lia|]. unfold B. apply filter_In. split; [apply in_seq; lia|].
    apply negb_true_iff. unfold vol_kept. apply negb_false_iff. apply existsb_nat_in.
    replace (S (k - 1)) with k by lia. exact Hk.
Qed.

(** * loading a volume set with gaps *)

Section VolsLoad2.
  Variable md5 : bytes -> bytes.
  Hypothesis md5_len : forall x, length (md5 x) = 16%nat.
  Variable ix : list N.
  Variable sethash : bytes.
  Variable entries : list p1entry.
  Hypothesis Hsh : length sethash = 16%nat.
  Hypothesis Hes : Forall (fun e => e_status e < 2^64 /\ e_len e < 2^64 /\ length (e_hash e) = 16%nat /\ length (e_h16 e) = 16%nat
                     /\ e_name e <> [] /\ decode_utf16le (encode_utf16le (e_name e)) = e_name e
                     /\ encode_utf16le (e_name e) <> []) entries.
  Hypothesis Hsz : Forall (fun e => N.of_nat (length (encode_utf16le (e_name e))) < 2^64) entries.
  Hypothesis Hcnt : N.of_nat (length entries) < 2^32.

  (* volume i+j+1 is the one Create wrote when kv[j], and is absent otherwise *)
  Lemma load_vols_mask L : L <> 0%nat -> forall (vs : list bytes) (kv : list bool) m i size acc st,
    io_sched st = [] -> (size = 0 \/ size = L)%nat -> Forall (fun x : bytes => length x = L) vs ->
    length kv = length vs -> N.of_nat (i + length vs) < 2^64 ->
    (forall j, (j < length vs)%nat ->
       if nth j kv false
       then fs_lookup (io_fs st) (volume_path ix (N.of_nat (S (i + j)))) =
            Some (write_volume md5 sethash (N.of_nat (S (i + j))) entries (nth j vs []))
       else read_res (io_fs st) (volume_path ix (N.of_nat (S (i + j)))) = Err ENotExist) ->
    exists st1, io_sched st1 = [] /\ io_fs st1 = io_fs st /\
      load_vols md5 ix sethash i (length vs + m) size acc st =
      load_vols md5 ix sethash (i + length vs) m (if existsb idb kv then L else size) (acc ++ erase kv vs) st1.
  Proof.
    intros HL. induction vs as [|x vs IH]; intros kv m i size acc st Hs Hsize HF Hkv Hb Hlk.
    - destruct kv as [|b kv]; [|discriminate Hkv]. exists st. cbn [length Nat.add existsb].
      unfold erase. cbn [combine map]. rewrite Nat.add_0_r, app_nil_r.
      split; [exact Hs|split; reflexivity].
    - destruct kv as [|b kv]; [discriminate Hkv|]. cbn [length] in *.
      pose proof (Forall_inv HF) as Hx. pose proof (Forall_inv_tail HF) as HF'. cbv beta in Hx.
      pose proof (Hlk 0%nat ltac:(lia)) as H0. rewrite Nat.add_0_r in H0. cbn [nth] in H0.
      rewrite erase_cons.
      destruct b.
      + destruct (io_read_some _ st _ Hs H0) as (st1 & ER & Hs1 & Hf1).
        destruct (written_volume_read md5 md5_len sethash entries Hsh Hes Hsz Hcnt (N.of_nat (S i)) x ltac:(lia))
          as (v & EV & F1 & F2 & F3 & F4 & _).
        cbn [Nat.add load_vols]. rewrite ER, EV, F1, F2, F4, bytes_eqb_refl, N.eqb_refl. cbn [negb].
        rewrite Hx.
        destruct (Nat.eqb_spec L 0) as [E0|_]; [lia|].
        assert (Ec : negb (Nat.eqb size 0) && negb (Nat.eqb L size) = false).
        { destruct Hsize as [-> | ->]; [reflexivity|]. rewrite Nat.eqb_refl. apply andb_false_r. }
        rewrite Ec.
        destruct (IH kv m (S i) L (acc ++ [Some x]) st1 Hs1 (or_intror eq_refl) HF' ltac:(lia) ltac:(lia))
          as (st2 & Hs2 & Hf2 & E2).
        { intros j Hj. rewrite Hf1. specialize (Hlk (S j) ltac:(lia)). cbn [nth] in Hlk.
          replace (S i + j)%nat with (i + S j)%nat by lia. exact Hlk. }
        exists st2. split; [exact Hs2|]. split; [congruence|]. rewrite E2.
        replace (S i + length vs)%nat with (i + S (length vs))%nat by lia.
        rewrite <- app_assoc. cbn [app existsb orb]. destruct (existsb idb kv); reflexivity.
      + destruct (io_read_nosched (volume_path ix (N.of_nat (S i))) st Hs) as (st1 & ER & Hs1 & Hf1).
        cbn [Nat.add load_vols]. rewrite ER, H0.
        destruct (IH kv m (S i) size (acc ++ [None]) st1 Hs1 Hsize HF' ltac:(lia) ltac:(lia))
          as (st2 & Hs2 & Hf2 & E2).
        { intros j Hj. rewrite Hf1. specialize (Hlk (S j) ltac:(lia)). cbn [nth] in Hlk.
          replace (S i + j)%nat with (i + S j)%nat by lia. exact Hlk. }
        exists st2. split; [exact Hs2|]. split; [congruence|]. rewrite E2.
        replace (S i + length vs)%nat with (i + S (length vs))%nat by lia.
        rewrite <- app_assoc. cbn [app existsb orb]. reflexivity.
  Qed.
End VolsLoad2.

(** * the loading phase after Create with files and volumes lost *)

Section Created2.
  Variable md5 : bytes -> bytes.
  Hypothesis md5_len : forall x, length (md5 x) = 16%nat.

  (* As p1_load_created, but each of the first min nv 99 volumes is either the one Create wrote
     (kv[j] = true) or absent (kv[j] = false). *)
  Lemma p1_load_created_mask ix (names datas : list bytes) (nv : nat) (fs2 : list (list N * bytes)) (keep kv : list bool) :
    str_eqb (ext ix) EXT_PAR = true -> length names = length datas -> datas <> [] ->
    (length datas + nv <= 256)%nat -> (0 < nv)%nat -> max_len datas <> 0%nat ->
    Forall name_ok names -> Forall (fun d : bytes => N.of_nat (length d) < 2^64) datas ->
    length keep = length datas ->
    let entries := mk_entries md5 names datas in
    let sethash := set_hash md5 entries in
    let size := max_len datas in
    let D := map (pad size) datas in
    let P := par1_encode (length datas) nv D in
    let np := Nat.min nv 99 in
    let vs := par1_encode (length datas) np D in
    let slots := erase kv vs ++ repeat None (N.to_nat (N.min (256 - N.of_nat (length datas)) 99) - np) in
    length kv = np ->
    fs_lookup fs2 ix = Some (write_volume md5 sethash 0 entries []) ->
    (forall j, (j < np)%nat ->
       if nth j kv false
       then fs_lookup fs2 (volume_path ix (N.of_nat (S j))) =
            Some (write_volume md5 sethash (N.of_nat (S j)) entries (nth j P []))
       else read_res fs2 (volume_path ix (N.of_nat (S j))) = Err ENotExist) ->
    (forall k, (np < k <= N.to_nat (N.min (256 - N.of_nat (length datas)) 99))%nat ->
               read_res fs2 (volume_path ix (N.of_nat k)) = Err ENotExist) ->
    Forall (fun t : bytes * (bytes * bool) =>
              if snd (snd t) then fs_lookup fs2 (join2 (dir ix) (fst t)) = Some (fst (snd t))
              else read_res fs2 (join2 (dir ix) (fst t)) = Err ENotExist) (combine names (combine datas keep)) ->
    exists v st1,
      p1_load md5 ix (io_init fs2 []) =
        (Ok {| s_index := ix; s_vol := v; s_saved := entries; s_data := erase keep datas;
               s_size := if existsb idb kv then size else 0%nat;
               s_parity := firstn (S (last_some_index slots 0 0)) slots |}, st1) /\
      v_count v = N.of_nat (length datas) /\ io_sched st1 = [] /\ io_fs st1 = fs2.
  Proof.
    intros He Hlen Hne Hcap Hnv Hsz0 Hnames Hdl Hkeep entries sethash size D P np vs slots Hkvl C1 C2 C3 C4.
    destruct (mk_entries_ok md5 md5_len names datas Hnames Hdl) as [Hes Hsz]. fold entries in Hes, Hsz.
    assert (Hel : length entries = length datas) by (apply mk_entries_length; exact Hlen).
    assert (Hcnt : N.of_nat (length entries) < 2^32).
    { rewrite Hel. apply N.lt_trans with 257; [lia|reflexivity]. }
    assert (Hsh : length sethash = 16%nat) by apply md5_len.
    (* the index *)
    destruct (io_read_some ix (io_init fs2 []) _ eq_refl C1) as (sa & ER & Hsa & Hfa). cbn [io_init io_fs] in Hfa.
    destruct (written_volume_read md5 md5_len sethash entries Hsh Hes Hsz Hcnt 0 [] ltac:(reflexivity))
      as (v & EV & F1 & F2 & F3 & F4 & F5).
    rewrite Hel in F5.
    (* the files *)
    destruct (zip3_facts md5 md5_len names datas keep Hlen Hkeep) as [Z1 Z2]. fold entries in Z1, Z2.
    destruct (load_data_keep md5 ix (combine entries (combine datas keep)) sa Hsa) as (sb & EL & Hsb & Hfb).
    { rewrite Hfa. apply zip3_forall; assumption. }
    rewrite Z1, Z2 in EL.
    assert (Hds : erase keep datas <> []).
    { intros E0. apply (f_equal (@length (option bytes))) in E0. rewrite erase_length in E0 by exact Hkeep.
      destruct datas; [congruence|discriminate E0]. }
    (* the volumes *)
    assert (HD : Forall (fun x : bytes => length x = size) D).
    { unfold D. apply Forall_forall. intros x Hx. apply in_map_iff in Hx. destruct Hx as (d & <- & Hd).
      apply pad_length. pose proof (max_len_ge datas) as G. rewrite Forall_forall in G. exact (G d Hd). }
    assert (HDne : D <> []) by (unfold D; destruct datas; [congruence|discriminate]).
    assert (Hnp : (np <= nv)%nat) by (unfold np; lia).
    assert (Hnp1 : (0 < np)%nat) by (unfold np; lia).
    destruct (par1_encode_shape (length datas) np D size HDne HD) as [Lvs Fvs]. fold vs in Lvs, Fvs.
    assert (Evs : vs = firstn np P).
    { unfold vs, P. symmetry. apply (par1_encode_firstn _ _ _ _ size); assumption. }
    set (maxv := N.to_nat (N.min (256 - N.of_nat (length datas)) 99)) in *.
    assert (Hmax : (np <= maxv)%nat) by (unfold maxv, np; lia).
    destruct (load_vols_mask md5 md5_len ix sethash entries Hsh Hes Hsz Hcnt size Hsz0 vs kv (maxv - np) 0 0 [] sb Hsb
                (or_introl eq_refl) Fvs ltac:(lia)) as (sc & Hsc & Hfc & ELV1).
    { rewrite Lvs. apply N.lt_trans with 257; [unfold np; lia|reflexivity]. }
    { intros j Hj. rewrite Lvs in Hj. rewrite Hfb, Hfa. cbn [Nat.add]. rewrite Evs, nth_firstn_lt by exact Hj.
      apply C2. exact Hj. }
    destruct (load_vols_absent md5 ix sethash (maxv - np) (0 + length vs) (if existsb idb kv then size else 0%nat)
                ([] ++ erase kv vs) sc Hsc) as (sd & ELV2).
    { intros j Hj. rewrite Hfc, Hfb, Hfa. apply C3. rewrite Lvs in Hj. lia. }
    rewrite ELV2 in ELV1. rewrite Lvs in ELV1. replace (np + (maxv - np))%nat with maxv in ELV1 by lia.
    cbn [app] in ELV1. fold slots in ELV1.
    (* assemble *)
    pose proof (p1_load_ok md5 ix (io_init fs2 []) _ sa v (erase keep datas) sb
                  slots (if existsb idb kv then size else 0%nat) sd He ER EV) as PL.
    unfold nsaved in PL. rewrite F2, F3, F1 in PL.
    assert (Efs : filter saved entries = entries) by apply filter_saved_mk.
    rewrite Efs, Hel in PL.
    specialize (PL eq_refl EL Hds).
    assert (EC : (256 <=? N.of_nat (length datas)) = false) by (apply N.leb_gt; lia).
    specialize (PL EC ELV1).
    exists v, sd. split; [exact PL|]. split; [exact F5|].
    pose proof (p1_load_pres md5 ix (io_init fs2 [])) as Pp.
    rewrite PL in Pp. cbn [snd] in Pp. destruct Pp as (Pf & Ps & _). cbn [io_init io_fs io_sched] in Pf, Ps.
    split; assumption.
  Qed.
End Created2.

(** * RT3/RT4. CREATE, LOSE FILES AND VOLUMES, REPAIR *)

(* Every outcome of Repair after Create with input files and volumes removed, by the number of
   input files actually missing against the number of volumes that remain. *)
Theorem par1_lose_general : forall md5, (forall x, length (md5 x) = 16%nat) ->
  forall parPath files nvol fs st' lost lostv dbl r rp st3,
  par1_create md5 parPath files nvol (io_init fs []) = (Ok tt, st') ->
  let nv := if (nvol <=? 0)%Z then 3%nat else Z.to_nat nvol in
  Forall (fun f => input_name_ok (base f)) files ->
  Forall (fun f => join2 (dir parPath) (base f) = f) files ->
  (forall f d, In f files -> fs_lookup fs f = Some d -> N.of_nat (length d) < 2^64 /\ wf_bytes d) ->
  Forall (fun f => f <> parPath /\ forall k, (1 <= k <= nv)%nat -> f <> volume_path parPath (N.of_nat k)) files ->
  (forall k, (nv < k <= Nat.min (256 - length files) 99)%nat ->
     fs_lookup fs (volume_path parPath (N.of_nat k)) = None /\ is_dir fs (volume_path parPath (N.of_nat k)) = false) ->
  incl lost files ->
  NoDup lostv -> (forall k, In k lostv -> (1 <= k <= Nat.min nv 99)%nat) ->
  let gone := lost ++ lostv_paths parPath lostv in
  (forall f, In f gone -> is_dir (io_fs st') f = false) ->
  par1_repair md5 parPath dbl (io_init (fs_remove gone (io_fs st')) []) = ((r, rp), st3) ->
  let missing := length (filter (fun f => existsb (str_eqb f) lost) files) in
  let remaining := (Nat.min nv 99 - length lostv)%nat in
  ((missing <= remaining)%nat ->
     (r = Ok tt /\
      (forall f d, In f files -> fs_lookup fs f = Some d -> fs_lookup (io_fs st3) f = Some d) /\
      rp = filter (fun f => existsb (str_eqb f) lost) files)
     \/ (r = Err ESingular /\ io_fs st3 = fs_remove gone (io_fs st') /\ rp = [])) /\
  ((remaining < missing)%nat ->
     r = Err ENotEnoughParity /\ io_fs st3 = fs_remove gone (io_fs st') /\ rp = []).
Proof.
  intros md5 md5_len parPath files nvol fs st' lost lostv dbl r rp st3 HC nv Hnames Hjoin Hlens Hdisj Hstale Hincl
         Hndv Hrange gone Hnodir HR missing remaining.
  destruct (create_setup md5 parPath files nvol fs st' HC Hnames (fun f d Hin Hl => proj1 (Hlens f d Hin Hl)))
    as (datas & HF & He & Hlen & Hne & Hcap & Hnv & Hsz & Hnok & Hdl & Hndf & HL & Hfs).
  fold nv in Hcap, Hnv, Hfs.
  rewrite Forall_forall in Hdisj.
  set (Q := fun f : list N => negb (existsb (str_eqb f) lost)).
  assert (Qt : forall f, Q f = true -> ~ In f lost).
  { intros f H Hin. apply existsb_str_in in Hin. unfold Q in H. rewrite Hin in H. discriminate H. }
  assert (Qf : forall f, Q f = false -> In f lost).
  { intros f H. apply existsb_str_in. unfold Q in H. apply negb_false_iff in H. exact H. }
  set (keep := map Q files).
  set (np := Nat.min nv 99) in *.
  set (kv := vmask lostv np).
  set (fs2 := fs_remove gone (io_fs st')) in *.
  assert (Hrem : remaining = (np - length lostv)%nat) by reflexivity.
  assert (Hkl : length keep = length datas) by (unfold keep; rewrite map_length; exact HL).
  assert (Hkvl : length kv = np) by apply vmask_length.
  assert (Hgone_ix : ~ In parPath gone).
  { unfold gone. intros Hin. apply in_app_or in Hin. destruct Hin as [Hin|Hin].
    - destruct (Hdisj _ (Hincl _ Hin)) as [D1 _]. apply D1. reflexivity.
    - unfold lostv_paths in Hin. apply in_map_iff in Hin. destruct Hin as (k & E & _).
      exact (volume_path_ne_index parPath _ He E). }
  assert (Hgone_vol : forall j, (j < nv)%nat -> In (volume_path parPath (N.of_nat (S j))) gone -> In (S j) lostv).
  { intros j Hj Hin. unfold gone in Hin. apply in_app_or in Hin. destruct Hin as [Hin|Hin].
    - exfalso. destruct (Hdisj _ (Hincl _ Hin)) as [_ D2]. apply (D2 (S j)); [lia|reflexivity].
    - unfold lostv_paths in Hin. apply in_map_iff in Hin. destruct Hin as (k & E & Hk).
      apply volume_path_inj in E. apply Nat2N.inj in E. subst k. exact Hk. }
  assert (Hgone_file : forall f, In f files -> Q f = true -> ~ In f gone).
  { intros f Hin HQ Hg. unfold gone in Hg. apply in_app_or in Hg. destruct Hg as [Hg|Hg]; [exact (Qt f HQ Hg)|].
    unfold lostv_paths in Hg. apply in_map_iff in Hg. destruct Hg as (k & E & Hk).
    destruct (Hdisj f Hin) as [_ D2]. pose proof (Hrange k Hk) as Hkr.
    apply (D2 k); [unfold np in Hkr; lia|symmetry; exact E]. }
  assert (Hfile_kept : forall f d, In f files -> Q f = true -> fs_lookup fs f = Some d -> fs_lookup fs2 f = Some d).
  { intros f d Hin HQ Hl. unfold fs2. rewrite remove_lookup_other by (apply Hgone_file; assumption). rewrite Hfs.
    destruct (Hdisj f Hin) as [D1 D2].
    rewrite created_other_lookup; [exact Hl|..]; try exact He; try exact D1. intros j Hj. apply D2. lia. }
  assert (Hgone_absent : forall p, In p gone -> read_res fs2 p = Err ENotExist).
  { intros p Hp. unfold read_res, fs2.
    rewrite (remove_lookup_in gone _ _ Hp), (remove_is_dir gone _ _ (Hnodir p Hp)). reflexivity. }
  destruct (p1_load_created_mask md5 md5_len parPath (map base files) datas nv fs2 keep kv He Hlen Hne Hcap Hnv Hsz Hnok Hdl
              Hkl Hkvl) as (v & st1 & PL & _ & Hs1 & Hf1).
  - unfold fs2. rewrite remove_lookup_other by exact Hgone_ix. rewrite Hfs. apply created_index. exact He.
  - intros j Hj. fold np in Hj. unfold kv. rewrite vmask_nth by exact Hj. destruct (vol_kept lostv j) eqn:Ek.
    + unfold fs2. rewrite remove_lookup_other.
      * rewrite Hfs. apply created_volume; [exact He|unfold np in Hj; lia].
      * intros Hin. apply (vol_kept_true lostv j Ek). apply Hgone_vol; [unfold np in Hj; lia|exact Hin].
    + apply Hgone_absent. unfold gone. apply in_or_app. right. unfold lostv_paths. apply in_map_iff.
      exists (S j). split; [reflexivity|apply vol_kept_false; exact Ek].
  - intros k Hk. fold np in Hk.
    assert (R : read_res (io_fs st') (volume_path parPath (N.of_nat k)) = Err ENotExist).
    { rewrite Hfs, created_volume_absent by (try exact He; unfold np in Hk; lia).
      destruct (Hstale k ltac:(unfold np in Hk; lia)) as [H1 H2]. unfold read_res. rewrite H1, H2. reflexivity. }
    unfold read_res in R.
    destruct (fs_lookup (io_fs st') (volume_path parPath (N.of_nat k))) eqn:E1; [discriminate R|].
    destruct (is_dir (io_fs st') (volume_path parPath (N.of_nat k))) eqn:E2; [discriminate R|].
    unfold read_res, fs2. rewrite (remove_is_dir gone _ _ E2).
    destruct (existsb (str_eqb (volume_path parPath (N.of_nat k))) gone) eqn:E3.
    + apply existsb_str_in in E3. rewrite (remove_lookup_in gone _ _ E3). reflexivity.
    + rewrite remove_lookup_other, E1; [reflexivity|]. intros Hin. apply existsb_str_in in Hin. congruence.
  - apply (c4_of_forall2 parPath fs2 Q); [|exact Hjoin].
    apply (Forall2_impl_in _ _ _ _ HF). intros f d Hin Hl. destruct (Q f) eqn:EQ.
    + apply Hfile_kept; assumption.
    + apply Hgone_absent. unfold gone. apply in_or_app. left. apply Qf. exact EQ.
  - (* the repair *)
    change (Nat.min nv 99) with np in PL.
    set (size := max_len datas) in *. set (D := map (pad size) datas) in *.
    set (nd := length datas) in *.
    set (vs := par1_encode nd np D) in *.
    set (entries := mk_entries md5 (map base files) datas) in *.
    set (m := (N.to_nat (N.min (256 - N.of_nat nd) 99) - np)%nat) in *.
    assert (Hge : Forall (fun d : bytes => (length d <= size)%nat) datas) by apply max_len_ge.
    assert (HD : Forall (fun x : bytes => length x = size) D).
    { unfold D. apply Forall_forall. intros x Hx. apply in_map_iff in Hx. destruct Hx as (d & <- & Hd).
      apply pad_length. rewrite Forall_forall in Hge. exact (Hge d Hd). }
    assert (HDl : length D = nd) by (unfold D; apply map_length).
    assert (HDne : D <> []) by (unfold D; destruct datas; [congruence|discriminate]).
    destruct (par1_encode_shape nd np D size HDne HD) as [Lvs _]. fold vs in Lvs.
    assert (Hnp : (0 < np <= nv)%nat) by (unfold np; lia).
    assert (Hnd : (0 < nd)%nat) by (unfold nd; destruct datas; [congruence|cbn [length]; lia]).
    assert (HwfD : wfm8 nd size D).
    { split; [exact HDl|]. apply Forall_forall. intros x Hx. split.
      - rewrite Forall_forall in HD. exact (HD x Hx).
      - unfold D in Hx. apply in_map_iff in Hx. destruct Hx as (d & <- & Hd). apply pad_wf.
        assert (W : Forall wf_bytes datas).
        { apply (Forall2_Forall_r _ _ _ _ HF). intros f d' Hin Hl. exact (proj2 (Hlens f d' Hin Hl)). }
        rewrite Forall_forall in W. exact (W d Hd). }
    (* counting *)
    pose proof (filter_bool_split keep) as Hsk. rewrite Hkl in Hsk. fold nd in Hsk.
    assert (Hfk : length (filter negb keep) = missing).
    { unfold keep. rewrite filter_negb_map. unfold missing. f_equal. apply filter_ext. intros f. unfold Q.
      apply negb_involutive. }
    pose proof (filter_bool_split kv) as Hsv. rewrite Hkvl in Hsv.
    assert (Hfv : length (filter negb kv) = length lostv) by (apply vmask_false_count; assumption).
    assert (Hrp0 : missing = 0%nat -> filter (fun f => existsb (str_eqb f) lost) files = []).
    { intros H0. apply length_zero_iff_nil. exact H0. }
    assert (Hfiles0 : missing = 0%nat -> forall f d, In f files -> fs_lookup fs f = Some d -> fs_lookup fs2 f = Some d).
    { intros H0 f d Hin Hl. apply Hfile_kept; try assumption. destruct (Q f) eqn:EQ; [reflexivity|]. exfalso.
      assert (Hin' : In f (filter (fun f => existsb (str_eqb f) lost) files)).
      { apply filter_In. split; [exact Hin|]. unfold Q in EQ. apply negb_false_iff in EQ. exact EQ. }
      rewrite (Hrp0 H0) in Hin'. destruct Hin'. }
    destruct (existsb idb kv) eqn:Ekv.
    + (* some volume is left *)
      try rewrite Ekv in PL.
      destruct (parity_slots_shape kv vs m ltac:(lia) Ekv) as (q & Hq & Eslots & Hcq).
      rewrite Eslots in PL.
      assert (Evq : firstn q vs = par1_encode nd q D).
      { unfold vs. apply (par1_encode_firstn nd np q D size HDne HD). lia. }
      rewrite Evq in PL. set (kq := firstn q kv) in *. set (vq := par1_encode nd q D) in *.
      destruct (par1_encode_shape nd q D size HDne HD) as [LP HP]. fold vq in LP, HP.
      assert (Lkq : length kq = q) by (unfold kq; rewrite firstn_length; lia).
      match type of PL with _ = (Ok ?s0, _) => set (s := s0) in * end.
      assert (Ld : length (s_data s) = nd) by (cbn [s s_data]; rewrite erase_length by exact Hkl; reflexivity).
      assert (Lp : length (s_parity s) = q) by (cbn [s s_parity]; rewrite erase_length by lia; exact LP).
      assert (Es : s_size s = size) by reflexivity.
      unfold par1_repair in HR. rewrite PL in HR. cbv zeta in HR. rewrite Ld, Lp, Es in HR.
      destruct (Nat.eqb_spec size 0) as [E0|_]; [contradiction|].
      destruct (Nat.ltb_spec 256 (nd + q)) as [Lt|_]; [unfold nd in Lt; lia|].
      destruct (build_shards_total md5 s) as (sh & EB & Esh).
      { cbn [s s_data s_size]. apply Forall_forall. intros o Hin d ->. unfold erase in Hin.
        apply in_map_iff in Hin. destruct Hin as ([k x] & E & Hin). cbn [fst snd] in E.
        destruct k; [|discriminate E]. injection E as ->. apply in_combine_r in Hin.
        rewrite Forall_forall in Hge. exact (Hge d Hin). }
      rewrite EB in HR.
      assert (Esh' : sh = erase (keep ++ kq) (D ++ vq)).
      { rewrite Esh. cbn [s s_data s_size s_parity].
        rewrite (map_erase_opt (fun d : bytes => d ++ zeros (size - length d)) keep datas).
        change (map (fun d : bytes => d ++ zeros (size - length d)) datas) with D.
        symmetry. apply erase_app. rewrite HDl. exact Hkl. }
      assert (Hkl' : length (keep ++ kq) = (nd + q)%nat) by (rewrite app_length, Lkq, Hkl; reflexivity).
      assert (Hsl : length sh = (nd + q)%nat)         by (rewrite Esh', erase_length;
              [rewrite app_length, HDl, LP; reflexivity|rewrite Hkl', app_length, HDl, LP; reflexivity]).
      assert (Hcp : count_present sh = (length (filter idb keep) + length (filter idb kv))%nat).
      { rewrite Esh', count_present_erase by (rewrite Hkl', app_length, HDl, LP; reflexivity).
        rewrite filter_app, app_length, Hcq. reflexivity. }
      pose proof (par1_reconstruct_too_few nd q sh Hsl) as TF.
      pose proof (par1_reconstruct_sound nd q D size (keep ++ kq) Hnd ltac:(lia) ltac:(unfold nd; lia) HwfD ltac:(lia) Hkl') as S0.
      assert (S : match par1_reconstruct nd q sh with
                  | Ok full => full = D ++ vq
                  | Err e => e = ENotEnoughParity \/ e = ESingular
                  | Panic _ => False
                  end) by (rewrite Esh'; exact S0).
      clear S0.
      remember (par1_reconstruct nd q sh) as rec eqn:ER. clear ER.
      split.
      * intros Hle. destruct rec as [full|e|pq]; [left|right|contradiction].
        -- subst full.
           assert (Edbl : (if dbl then match rs_verify nd q (map Some (D ++ vq)) with Ok b => Ok b | Err x => Err x | Panic pq => Panic pq end
                           else Ok true) = Ok true).
           { destruct dbl; [|reflexivity]. unfold vq. rewrite (rs_verify_consistent nd q D size HDne HDl HD Hsz). reflexivity. }
           rewrite Edbl in HR. rewrite (firstn_app_len D vq nd HDl) in HR.
           change (s_saved s) with (mk_entries md5 (map base files) datas) in HR.
           change (s_data s) with (erase (map Q files) datas) in HR.
           destruct (write_repaired_exact md5 parPath size Q files datas [] st1 Hs1 HL) as (rp' & st'' & EW & Hfs3 & Hrp).
           { apply Forall_forall. intros f Hin. rewrite Forall_forall in Hjoin. split; [apply base_base|exact (Hjoin f Hin)]. }
           { exact Hge. }
           fold D in EW. rewrite EW in HR. injection HR as <- <- <-.
           split; [reflexivity|]. split.
           2:{ rewrite Hrp. cbn [app]. rewrite (map_fst_filter_combine (fun f => negb (Q f)) files datas HL).
               apply filter_ext. intros f. unfold Q. apply negb_involutive. }
           intros f d Hin Hl. rewrite Hfs3, Hf1.
           destruct (Forall2_in_l _ _ _ HF f Hin) as (d' & Hin' & Hl'). rewrite Hl in Hl'. injection Hl' as <-.
           destruct (Q f) eqn:EQ.
           ++ rewrite apply_writes_lookup_other; [apply Hfile_kept; assumption|].
              intros Hm. apply in_map_iff in Hm. destruct Hm as ([f2 d2] & E & Hm). cbn [fst] in E. subst f2.
              apply filter_In in Hm. destruct Hm as [_ Hq']. cbn [fst] in Hq'. rewrite EQ in Hq'. discriminate Hq'.
           ++ apply apply_writes_lookup.
              { apply NoDup_map_filter. rewrite (map_fst_combine_eq files datas HL). exact Hndf. }
              apply filter_In. split; [exact Hin'|]. cbn [fst]. rewrite EQ. reflexivity.
        -- destruct S as [-> | ->].
           ++ exfalso. pose proof (proj1 TF eq_refl) as Hlt. lia.
           ++ injection HR as <- <- <-. split; [reflexivity|]. split; [exact Hf1|reflexivity].
      * intros Hlt. assert (Erec : rec = Err ENotEnoughParity) by (apply TF; lia). subst rec.
        injection HR as <- <- <-. split; [reflexivity|]. split; [exact Hf1|reflexivity].
    + (* no volume is left: nothing can be reconstructed *)
      try rewrite Ekv in PL.
      assert (Htv : length (filter idb kv) = 0%nat) by (apply existsb_filter_zero; exact Ekv).
      match type of PL with _ = (Ok ?s0, _) => set (s := s0) in * end.
      unfold par1_repair in HR. rewrite PL in HR. cbv zeta in HR.
      change (s_size s) with 0%nat in HR. cbn [Nat.eqb] in HR.
      change (s_data s) with (erase keep datas) in HR.
      rewrite (count_none1_erase keep datas Hkl), Hfk in HR.
      split.
      * intros Hle. assert (H0 : missing = 0%nat) by lia. rewrite H0 in HR. cbn [Nat.eqb] in HR.
        injection HR as <- <- <-. left. split; [reflexivity|]. split; [|symmetry; apply Hrp0; exact H0].
        intros f d Hin Hl. rewrite Hf1. apply Hfiles0; assumption.
      * intros Hlt. destruct (Nat.eqb_spec missing 0) as [E0|_]; [lia|].
        injection HR as <- <- <-. split; [reflexivity|]. split; [exact Hf1|reflexivity].
Qed.

(* RT3.  Lost input files and lost volumes, with at least as many volumes left as files lost:
   Repair restores every file byte for byte, or fails with the singular error and writes nothing. *)
Theorem par1_create_lose_files_and_volumes : forall md5, (forall x, length (md5 x) = 16%nat) ->
  forall parPath files nvol fs st' lost lostv dbl r rp st3,
  par1_create md5 parPath files nvol (io_init fs []) = (Ok tt, st') ->
  let nv := if (nvol <=? 0)%Z then 3%nat else Z.to_nat nvol in
  Forall (fun f => input_name_ok (base f)) files ->
  Forall (fun f => join2 (dir parPath) (base f) = f) files ->
  (forall f d, In f files -> fs_lookup fs f = Some d -> N.of_nat (length d) < 2^64 /\ wf_bytes d) ->
  Forall (fun f => f <> parPath /\ forall k, (1 <= k <= nv)%nat -> f <> volume_path parPath (N.of_nat k)) files ->
  (forall k, (nv < k <= Nat.min (256 - length files) 99)%nat ->
     fs_lookup fs (volume_path parPath (N.of_nat k)) = None /\ is_dir fs (volume_path parPath (N.of_nat k)) = false) ->
  incl lost files ->
  NoDup lostv -> (forall k, In k lostv -> (1 <= k <= Nat.min nv 99)%nat) ->
  (length lost <= Nat.min nv 99 - length lostv)%nat ->
  let gone := lost ++ map (fun k => volume_path parPath (N.of_nat k)) lostv in
  (forall f, In f gone -> is_dir (io_fs st') f = false) ->
  par1_repair md5 parPath dbl (io_init (fs_remove gone (io_fs st')) []) = ((r, rp), st3) ->
  (r = Ok tt /\
   (forall f d, In f files -> fs_lookup fs f = Some d -> fs_lookup (io_fs st3) f = Some d) /\
   rp = filter (fun f => existsb (str_eqb f) lost) files)
  \/ (r = Err ESingular /\ io_fs st3 = fs_remove gone (io_fs st') /\ rp = []).
Proof.
  intros md5 md5_len parPath files nvol fs st' lost lostv dbl r rp st3 HC nv Hnames Hjoin Hlens Hdisj Hstale Hincl
         Hndv Hrange Hcount gone Hnodir HR.
  destruct (create_setup md5 parPath files nvol fs st' HC Hnames (fun f d Hin Hl => proj1 (Hlens f d Hin Hl)))
    as (datas & _ & _ & _ & _ & _ & _ & _ & _ & _ & Hndf & _ & _).
  destruct (par1_lose_general md5 md5_len parPath files nvol fs st' lost lostv dbl r rp st3 HC Hnames Hjoin Hlens Hdisj
              Hstale Hincl Hndv Hrange Hnodir HR) as [G _].
  apply G. fold nv.
  apply Nat.le_trans with (length lost); [|exact Hcount].
  apply NoDup_incl_length; [apply NoDup_filter; exact Hndf|].
  intros f Hf. apply filter_In in Hf. destruct Hf as [_ Hq]. apply existsb_str_in. exact Hq.
Qed.

(* RT4.  More (distinct) input files lost than volumes left: the not-enough error, nothing written. *)
Theorem par1_create_lose_too_many : forall md5, (forall x, length (md5 x) = 16%nat) ->
  forall parPath files nvol fs st' lost lostv dbl r rp st3,
  par1_create md5 parPath files nvol (io_init fs []) = (Ok tt, st') ->
  let nv := if (nvol <=? 0)%Z then 3%nat else Z.to_nat nvol in
  Forall (fun f => input_name_ok (base f)) files ->
  Forall (fun f => join2 (dir parPath) (base f) = f) files ->
  (forall f d, In f files -> fs_lookup fs f = Some d -> N.of_nat (length d) < 2^64 /\ wf_bytes d) ->
  Forall (fun f => f <> parPath /\ forall k, (1 <= k <= nv)%nat -> f <> volume_path parPath (N.of_nat k)) files ->
  (forall k, (nv < k <= Nat.min (256 - length files) 99)%nat ->
     fs_lookup fs (volume_path parPath (N.of_nat k)) = None /\ is_dir fs (volume_path parPath (N.of_nat k)) = false) ->
  incl lost files -> NoDup lost ->
  NoDup lostv -> (forall k, In k lostv -> (1 <= k <= Nat.min nv 99)%nat) ->
  (Nat.min nv 99 - length lostv < length lost)%nat ->
  let gone := lost ++ map (fun k => volume_path parPath (N.of_nat k)) lostv in
  (forall f, In f gone -> is_dir (io_fs st') f = false) ->
  par1_repair md5 parPath dbl (io_init (fs_remove gone (io_fs st')) []) = ((r, rp), st3) ->
  r = Err ENotEnoughParity /\ io_fs st3 = fs_remove gone (io_fs st') /\ rp = [].
Proof.
  intros md5 md5_len parPath files nvol fs st' lost lostv dbl r rp st3 HC nv Hnames Hjoin Hlens Hdisj Hstale Hincl Hndl
         Hndv Hrange Hcount gone Hnodir HR.
  destruct (par1_lose_general md5 md5_len parPath files nvol fs st' lost lostv dbl r rp st3 HC Hnames Hjoin Hlens Hdisj
              Hstale Hincl Hndv Hrange Hnodir HR) as [_ G].
  apply G. fold nv.
  apply Nat.lt_le_trans with (length lost); [exact Hcount|].
  apply NoDup_incl_length; [exact Hndl|].
  intros f Hf. apply filter_In. split; [exact (Hincl f Hf)|apply existsb_str_in; exact Hf].
Qed.

Print Assumptions par1_lose_general.
Print Assumptions par1_create_lose_files_and_volumes.
Print Assumptions par1_create_lose_too_many.

(** * the singular outcome occurs *)

(* Three files "x", "y", "z" beside "a.par", four volumes; the three files and volume 3 are lost.
   The decoder solves for the unknowns at the points 1, 2, 3 with the parity rows of exponents
   0, 1, 3; that generalised Vandermonde determinant is the ordinary one times (1 + 2 + 3) = 0 in
   GF(2^8): singular.  Three volumes remain for three lost files, so the premises of RT3 hold. *)
Definition sg_fs0 : list (list N * bytes) := [([120], [1; 2; 3]); ([121], [4; 5; 6; 7]); ([122], [9])].
Definition sg_files : list (list N) := [[120]; [121]; [122]].
Definition sg_lostv : list nat := [3%nat].
Definition sg_gone : list (list N) := sg_files ++ map (fun k => volume_path ex_ix (N.of_nat k)) sg_lostv.

Example par1_singular_instance :
  let fs' := io_fs (snd (par1_create toy_hash ex_ix sg_files 4%Z (io_init sg_fs0 []))) in
  let res := par1_repair toy_hash ex_ix true (io_init (fs_remove sg_gone fs') []) in
  fst (par1_create toy_hash ex_ix sg_files 4%Z (io_init sg_fs0 [])) = Ok tt /\
  fst res = (Err ESingular, []) /\ io_fs (snd res) = fs_remove sg_gone fs' /\
  fst (par1_repair toy_hash ex_ix false (io_init (fs_remove sg_gone fs') [])) = (Err ESingular, []).
Proof. repeat split; vm_compute; reflexivity. Qed.

(* with the same files lost and any other single volume lost instead, Repair succeeds *)
Example par1_singular_instance_neighbours : forall k, In k [1%nat; 2%nat; 4%nat] ->
  let fs' := io_fs (snd (par1_create toy_hash ex_ix sg_files 4%Z (io_init sg_fs0 []))) in
  let gone := sg_files ++ map (fun k => volume_path ex_ix (N.of_nat k)) [k] in
  fst (par1_repair toy_hash ex_ix true (io_init (fs_remove gone fs') [])) = (Ok tt, sg_files).
Proof. intros k [<-|[<-|[<-|[]]]]; vm_compute; reflexivity. Qed.

(* the premises of RT3 hold for that instance: the second disjunct of RT3 is inhabited *)
Lemma sg_premises :
  Forall (fun f => input_name_ok (base f)) sg_files /\
  Forall (fun f => join2 (dir ex_ix) (base f) = f) sg_files /\
  (forall f d, In f sg_files -> fs_lookup sg_fs0 f = Some d -> N.of_nat (length d) < 2^64 /\ wf_bytes d) /\
  Forall (fun f => f <> ex_ix /\ forall k, (1 <= k <= 4)%nat -> f <> volume_path ex_ix (N.of_nat k)) sg_files /\
  (forall k, (4 < k <= Nat.min (256 - length sg_files) 99)%nat ->
     fs_lookup sg_fs0 (volume_path ex_ix (N.of_nat k)) = None /\ is_dir sg_fs0 (volume_path ex_ix (N.of_nat k)) = false).
Proof.
  assert (Hne : forall c n, [c] <> volume_path ex_ix n).
  { intros c n E. apply (f_equal (@length N)) in E. pose proof (volume_path_len ex_ix n). cbn [length] in E. lia. }
  split; [|split; [|split; [|split]]].
  - repeat constructor.
    + exists [120]. split; [discriminate|]. split; [repeat constructor; unfold scalar; lia|]. split; vm_compute; reflexivity.
    + exists [121]. split; [discriminate|]. split; [repeat constructor; unfold scalar; lia|]. split; vm_compute; reflexivity.
    + exists [122]. split; [discriminate|]. split; [repeat constructor; unfold scalar; lia|]. split; vm_compute; reflexivity.
  - repeat constructor; vm_compute; reflexivity.
  - intros f d [<-|[<-|[<-|[]]]] H; vm_compute in H; injection H as <-;
      (split; [vm_compute; reflexivity|repeat constructor; unfold wf_byte; lia]).
  - repeat constructor; try discriminate; intros k _; apply Hne.
  - intros k _. split.
    + cbn [sg_fs0 fs_lookup]. rewrite !str_eqb_neq by apply Hne. reflexivity.
    + unfold is_dir. cbn [sg_fs0 existsb fst].
      rewrite !starts_with_short by (rewrite app_length; pose proof (volume_path_len ex_ix (N.of_nat k)); cbn [length]; lia).
      reflexivity.
Qed.

Example par1_rt3_singular_disjunct_inhabited :
  exists st' r rp st3,
    par1_create toy_hash ex_ix sg_files 4%Z (io_init sg_fs0 []) = (Ok tt, st') /\
    incl sg_files sg_files /\ NoDup sg_lostv /\ (forall k, In k sg_lostv -> (1 <= k <= Nat.min 4 99)%nat) /\
    (length sg_files <= Nat.min 4 99 - length sg_lostv)%nat /\
    (forall f, In f sg_gone -> is_dir (io_fs st') f = false) /\
    par1_repair toy_hash ex_ix true (io_init (fs_remove sg_gone (io_fs st')) []) = ((r, rp), st3) /\
    r = Err ESingular /\ io_fs st3 = fs_remove sg_gone (io_fs st') /\ rp = [].
Proof.
  destruct (par1_create toy_hash ex_ix sg_files 4%Z (io_init sg_fs0 [])) as [o st'] eqn:HC.
  assert (Ho : o = Ok tt) by (apply (f_equal fst) in HC; vm_compute in HC; symmetry; exact HC). subst o.
  assert (Hst : io_fs st' = io_fs (snd (par1_create toy_hash ex_ix sg_files 4%Z (io_init sg_fs0 []))))
    by (rewrite HC; reflexivity).
  destruct (par1_repair toy_hash ex_ix true (io_init (fs_remove sg_gone (io_fs st')) [])) as [[r rp] st3] eqn:HR.
  exists st', r, rp, st3. split; [reflexivity|]. split; [apply incl_refl|].
  split; [repeat constructor; intros []|].
  split; [intros k [<-|[]]; cbv; lia|]. split; [cbv; lia|].
  split.
  { intros f Hin. rewrite Hst. unfold sg_gone, sg_files, sg_lostv in Hin. cbn [app map In] in Hin.
    repeat (destruct Hin as [<-|Hin]; [vm_compute; reflexivity|]). destruct Hin. }
  split; [exact HR|].
  destruct par1_singular_instance as (_ & E1 & E2 & _). cbv zeta in E1, E2. rewrite <- Hst in E1, E2.
  rewrite HR in E1, E2. cbn [fst snd] in E1, E2. injection E1 as -> ->.
  split; [reflexivity|]. split; [exact E2|reflexivity].
Qed.

(* RT4 on the instance: the three files and volumes 3 and 4 lost *)
Example par1_too_many_instance :
  let fs' := io_fs (snd (par1_create toy_hash ex_ix sg_files 4%Z (io_init sg_fs0 []))) in
  let gone := sg_files ++ map (fun k => volume_path ex_ix (N.of_nat k)) [3%nat; 4%nat] in
  let res := par1_repair toy_hash ex_ix true (io_init (fs_remove gone fs') []) in
  fst res = (Err ENotEnoughParity, []) /\ io_fs (snd res) = fs_remove gone fs'.
Proof. split; vm_compute; reflexivity. Qed.

(* every volume lost and no file lost: Ok, nothing to do; every volume and one file lost: not enough *)
Example par1_all_volumes_lost_instance :
  let fs' := io_fs (snd (par1_create toy_hash ex_ix sg_files 4%Z (io_init sg_fs0 []))) in
  let vols := map (fun k => volume_path ex_ix (N.of_nat k)) [1%nat; 2%nat; 3%nat; 4%nat] in
  fst (par1_repair toy_hash ex_ix true (io_init (fs_remove vols fs') [])) = (Ok tt, []) /\
  fst (par1_repair toy_hash ex_ix true (io_init (fs_remove ([120] :: vols) fs') [])) = (Err ENotEnoughParity, []).
Proof. split; vm_compute; reflexivity. Qed.

(* LIMIT.  The premise "a lost path is not also a directory" is needed for the lost volumes too: io_write does not
   refuse a path below which files lie, so with "a.p01/z" in the file map Create still writes "a.p01"; once
   "a.p01" is deleted the path names a directory, the loader's read fails with an I/O error (not "does not
   exist"), and Repair returns that error - neither Ok nor the singular error. *)
Example par1_lost_volume_is_dir_refuted :
  let fs0 := sg_fs0 ++ [([97; 46; 112; 48; 49; 47; 122], [9])] in
  let fs' := io_fs (snd (par1_create toy_hash ex_ix sg_files 4%Z (io_init fs0 []))) in
  fst (par1_create toy_hash ex_ix sg_files 4%Z (io_init fs0 [])) = Ok tt /\
  volume_path ex_ix 1 = [97; 46; 112; 48; 49] /\
  is_dir fs' (volume_path ex_ix 1) = true /\
  fst (par1_repair toy_hash ex_ix false (io_init (fs_remove [volume_path ex_ix 1] fs') [])) = (Err EIO, []).
Proof. repeat split; vm_compute; reflexivity. Qed.
