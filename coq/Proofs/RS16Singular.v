(* C07, the singular half: ReconstructData (any well-formed parity matrix, hence also the
   PAR2-Vandermonde coder) returns the singular-matrix error EXACTLY when the square system it
   selects is singular, and restores the data otherwise.

   The system: the model's `reconstruct` (Model/RS16.v) takes the rows of the parity matrix that
   belong to the FIRST (lowest-numbered) available parity shards, as many as there are missing data
   shards, restricts them to the columns of the missing data shards, and row-reduces exactly this
   square matrix (augmented by a right-hand side which does not influence the outcome).  No larger
   [I | ...] system is involved: `reconstruct_system` below shows that the first operand of
   RowReduce16 IS M_sel. *)
From Coq Require Import Lia Sorted.
From Gopar Require Import Model.Base Model.GF16 Model.Matrix Model.RS16
     Proofs.GF16Facts Proofs.GF16Tables Proofs.LinAlg Proofs.Matrix16 Proofs.LinAlgSingular
     Proofs.RS16Facts Proofs.CauchyMDS Proofs.Matrix16Singular.
Open Scope N_scope.
Set Default Timeout 120.

(* C11's matrix-times-column-vector (Proofs/Matrix16Singular.v) *)
Notation mvec16 := Matrix16Singular.mvec16.

(** * the selected system, defined from the availability masks alone *)

(* the positions i, i+1, ... of the entries of l equal to b *)
Fixpoint positions (b : bool) (i : nat) (l : list bool) : list nat :=
  match l with
  | [] => []
  | x :: r => if Bool.eqb x b then i :: positions b (S i) r else positions b (S i) r
  end.

(* kd / kp : true = the data / parity shard is available *)
Definition missing_cols (kd : list bool) : list nat := positions false 0 kd.
Definition available_rows (kp : list bool) : list nat := positions true 0 kp.
(* the lowest-numbered available parity shards, as many as data shards are missing *)
Definition selected_rows (kd kp : list bool) : list nat := firstn (count_false kd) (available_rows kp).
(* M_sel[t][u] = pm[selected_rows[t]][missing_cols[u]] *)
Definition M_sel (pm : list (list N)) (kd kp : list bool) : list (list N) :=
  minor pm (selected_rows kd kp) (missing_cols kd).

(* the availability mask of a list of optional shards *)
Definition present {A} (l : list (option A)) : list bool :=
  map (fun o => match o with Some _ => true | None => false end) l.

(* x is a non-trivial kernel vector of the q-column matrix M *)
Definition kernel_vector (q : nat) (M : list (list N)) (x : list N) : Prop :=
  wfv16 q x /\ x <> zeros q /\ mvec16 M x = zeros q.
Definition singular (q : nat) (M : list (list N)) : Prop := exists x, kernel_vector q M x.
Definition nonsingular (q : nat) (M : list (list N)) : Prop :=
  forall x, wfv16 q x -> mvec16 M x = zeros q -> x = zeros q.

Lemma nonsingular_iff_not_singular q M : nonsingular q M <-> ~ singular q M.
Proof.
  split.
  - intros Hn (x & Wx & Nz & Kx). apply Nz. apply Hn; assumption.
  - intros Hs x Wx Kx. destruct (list_eq_dec N.eq_dec x (zeros q)) as [E|Ne]; [exact E|].
    exfalso. apply Hs. exists x. split; [|split]; assumption.
Qed.

(** * positions vs the model's selection functions *)

Lemma positions_shift b : forall l i, positions b (S i) l = map S (positions b i l).
Proof.
  induction l as [|x l IH]; intros i; cbn [positions map]; [reflexivity|].
  destruct (Bool.eqb x b); cbn [map]; rewrite IH; reflexivity.
Qed.

Lemma positions_length_false : forall l i, length (positions false i l) = count_false l.
Proof.
  unfold count_false. induction l as [|[|] l IH]; intros i; cbn [positions Bool.eqb filter negb length];
    [reflexivity|apply IH|f_equal; apply IH].
Qed.
Lemma positions_length_true : forall l i, length (positions true i l) = count_true l.
Proof.
  unfold count_true. induction l as [|[|] l IH]; intros i; cbn [positions Bool.eqb filter length];
    [reflexivity|f_equal; apply IH|apply IH].
Qed.

Lemma positions_bounds b : forall l i k, In k (positions b i l) -> (i <= k < i + length l)%nat.
Proof.
  induction l as [|x l IH]; intros i k Hk; cbn [positions] in Hk; [destruct Hk|].
  cbn [length]. destruct (Bool.eqb x b).
  - destruct Hk as [<-|Hk]; [lia|]. specialize (IH _ _ Hk). lia.
  - specialize (IH _ _ Hk). lia.
Qed.

(* the listed positions are exactly those carrying b, in increasing order *)
Lemma positions_spec b : forall l i k, In k (positions b i l) <-> (i <= k)%nat /\ nth_error l (k - i) = Some b.
Proof.
  induction l as [|x l IH]; intros i k; cbn [positions].
  - split; [intros []|]. intros [_ H]. destruct (k - i)%nat; discriminate.
  - assert (Step : In k (positions b (S i) l) <-> (i < k)%nat /\ nth_error (x :: l) (k - i) = Some b).
    { rewrite IH. split; intros [H1 H2]; (split; [lia|]).
      - replace (k - i)%nat with (S (k - S i)) by lia. exact H2.
      - replace (k - i)%nat with (S (k - S i)) in H2 by lia. exact H2. }
    destruct (Bool.eqb x b) eqn:E.
    + apply Bool.eqb_prop in E. subst x. cbn [In]. rewrite Step. split.
      * intros [<-|[H1 H2]]; [split; [lia|rewrite Nat.sub_diag; reflexivity]|split; [lia|exact H2]].
      * intros [H1 H2]. destruct (Nat.eq_dec i k) as [->|Ne]; [left; reflexivity|right; split; [lia|exact H2]].
    + rewrite Step. split.
      * intros [H1 H2]. split; [lia|exact H2].
      * intros [H1 H2]. split; [|exact H2].
        destruct (Nat.eq_dec i k) as [->|Ne]; [|lia]. exfalso. rewrite Nat.sub_diag in H2. cbn in H2.
        injection H2 as ->. destruct b; discriminate.
Qed.

Lemma present_length {A} (l : list (option A)) : length (present l) = length l.
Proof. apply map_length. Qed.

Lemma present_erase {A} : forall (keep : list bool) (l : list A), length keep = length l ->
  present (erase keep l) = keep.
Proof.
  induction keep as [|b keep IH]; intros [|x l] H; try discriminate; [reflexivity|].
  rewrite erase_cons. unfold present in *. cbn [map]. rewrite IH by (cbn in H; lia). destruct b; reflexivity.
Qed.

Lemma count_none_present {A} : forall (m : list (option A)), count_none m = count_false (present m).
Proof.
  unfold count_false, present. induction m as [|[x|] m IH]; cbn [count_none map filter negb length]; lia.
Qed.
Lemma somes_present {A} : forall (m : list (option A)), length (somes m) = count_true (present m).
Proof.
  unfold count_true, present. induction m as [|[x|] m IH]; cbn [somes map filter length]; lia.
Qed.

(* the columns the model keeps (pick_none) are the missing data positions *)
Lemma none_pos_positions {A} : forall (mask : list (option A)), none_pos mask = missing_cols (present mask).
Proof.
  unfold missing_cols, present.
  induction mask as [|[x|] mask IH]; cbn [none_pos map positions Bool.eqb]; [reflexivity| |];
    rewrite positions_shift, <- IH; reflexivity.
Qed.

(* the rows the model uses (used_parity) are the first `need` available parity positions *)
Lemma used_parity_positions {A} : forall (par : list (option A)) need i,
  map fst (used_parity need i par) = firstn need (positions true i (present par)).
Proof.
  unfold present.
  induction par as [|[s|] par IH]; intros [|need] i; cbn [used_parity map fst positions Bool.eqb firstn];
    try reflexivity.
  - f_equal. apply IH.
  - apply IH.
Qed.

Lemma selected_rows_length kd kp : (count_false kd <= count_true kp)%nat ->
  length (selected_rows kd kp) = count_false kd.
Proof.
  intros H. unfold selected_rows, available_rows. rewrite firstn_length, positions_length_true. lia.
Qed.

(* "lowest-numbered": the selection is increasing, consists of available shards only, and never skips an
   available shard *)
Lemma positions_sorted b : forall l i, Sorted.StronglySorted lt (positions b i l).
Proof.
  induction l as [|x l IH]; intros i; cbn [positions]; [constructor|].
  destruct (Bool.eqb x b); [|apply IH]. constructor; [apply IH|].
  apply Forall_forall. intros k Hk. apply positions_bounds in Hk. lia.
Qed.

Lemma firstn_sorted_closed : forall (l : list nat) n x y, Sorted.StronglySorted lt l ->
  In x (firstn n l) -> In y l -> (y < x)%nat -> In y (firstn n l).
Proof.
  induction l as [|a l IH]; intros [|n] x y HS Hx Hy Lt; cbn [firstn In] in *; try contradiction.
  inversion HS as [|a' l' HS' Fa]; subst.
  destruct Hy as [<-|Hy]; [left; reflexivity|]. right.
  destruct Hx as [<-|Hx].
  - eapply Forall_forall in Fa; [|exact Hy]. lia.
  - apply (IH n x y); assumption.
Qed.

Lemma firstn_sorted : forall (l : list nat) n, Sorted.StronglySorted lt l -> Sorted.StronglySorted lt (firstn n l).
Proof.
  induction l as [|a l IH]; intros [|n] HS; cbn [firstn]; try constructor.
  - apply IH. inversion HS; assumption.
  - inversion HS as [|a' l' HS' Fa]; subst. apply Forall_forall. intros k Hk. apply In_firstn_l in Hk.
    eapply Forall_forall in Fa; [exact Fa|exact Hk].
Qed.

Theorem selected_rows_lowest kd kp :
  Sorted.StronglySorted lt (selected_rows kd kp) /\
  (forall r, In r (selected_rows kd kp) -> nth_error kp r = Some true) /\
  (forall r r', In r (selected_rows kd kp) -> (r' < r)%nat -> nth_error kp r' = Some true ->
                In r' (selected_rows kd kp)).
Proof.
  unfold selected_rows, available_rows. split; [|split].
  - apply firstn_sorted. apply positions_sorted.
  - intros r Hr. apply In_firstn_l in Hr. apply positions_spec in Hr. rewrite Nat.sub_0_r in Hr. apply Hr.
  - intros r r' Hr Lt Hr'. apply (firstn_sorted_closed _ _ r r'); [apply positions_sorted|exact Hr| |exact Lt].
    apply positions_spec. rewrite Nat.sub_0_r. split; [lia|exact Hr'].
Qed.

Theorem missing_cols_spec kd :
  Sorted.StronglySorted lt (missing_cols kd) /\
  (forall j, In j (missing_cols kd) <-> nth_error kd j = Some false).
Proof.
  unfold missing_cols. split; [apply positions_sorted|].
  intros j. rewrite positions_spec, Nat.sub_0_r. split; [intros [_ H]; exact H|intros H; split; [lia|exact H]].
Qed.

Lemma M_sel_wf p d pm kd kp : wfm16 p d pm -> (count_false kd <= count_true kp)%nat ->
  wfm16 (count_false kd) (count_false kd) (M_sel pm kd kp).
Proof.
  intros Hpm Hc. unfold M_sel, minor. split; [rewrite map_length; apply selected_rows_length; exact Hc|].
  apply Forall_forall. intros row Hrow. apply in_map_iff in Hrow. destruct Hrow as [r [<- Hr]].
  split; [rewrite map_length; apply positions_length_false|]. apply Forall_forall. intros x Hx.
  apply in_map_iff in Hx. destruct Hx as [c0 [<- Hc0]]. apply (ent_wf 65536 one_lt_B p d). exact Hpm.
Qed.

(** * what reconstruct row-reduces *)

(* the right-hand side of the model's system: [ parity rows at the present data columns | I ] *)
Definition reconstruct_rhs (c : coder) (data parity : list (option (list N))) : list (list N) :=
  let used := used_parity (count_none data) 0 parity in
  map (fun iks : nat * (nat * list N) =>
         pick_some data (nth (fst (snd iks)) (c_pm c) []) ++ unit_row (length used) (fst iks))
      (combine (seq 0 (length used)) used).

(* With something missing and enough parity, reconstruct is: row-reduce [ M_sel | rhs ], then multiply and fill in.
   The matrix handed to RowReduce16 IS M_sel (no identity block on the left). *)
Lemma reconstruct_system c data parity :
  wfm16 (c_parity c) (c_data c) (c_pm c) -> length data = c_data c -> length parity = c_parity c ->
  (0 < count_none data <= length (somes parity))%nat ->
  let q := count_none data in
  let M := M_sel (c_pm c) (present data) (present parity) in
  let used := used_parity q 0 parity in
  let input := somes data ++ map (fun ks : nat * list N => snd ks) used in
  wfm16 q q M /\ wfm16 q (c_data c) (reconstruct_rhs c data parity) /\
  reconstruct c data parity =
    (do R <- RowReduce16 M (reconstruct_rhs c data parity);
     Ok (fill data (apply_matrix (shard_len input) R input))).
Proof.
  intros Hpm Hdl Hpl [Hq0 Hav] q M used input.
  set (d := c_data c) in *. set (p := c_parity c) in *. set (pm := c_pm c) in *.
  assert (Hul : length used = q) by (unfold used; rewrite used_parity_count; lia).
  pose proof (somes_count data) as Hsc. fold q in Hsc.
  set (rows := map fst used).
  assert (Erows : rows = selected_rows (present data) (present parity)).
  { unfold rows, used, selected_rows, available_rows, q. rewrite <- count_none_present. apply used_parity_positions. }
  destruct (used_rows parity q 0) as [_ Brows]. fold used rows in Brows.
  assert (Hrows : forall r, In r rows -> (r < p)%nat) by (intros r Hr; specialize (Brows r Hr); lia).
  assert (Hrow : forall k, (k < p)%nat -> wfv16 d (nth k pm [])).
  { intros k Hk. apply (wfm_nth16 p d); assumption. }
  assert (Em : map (fun ks : nat * list N => pick_none data (nth (fst ks) pm [])) used = M).
  { unfold M, M_sel. rewrite <- Erows, <- none_pos_positions. unfold minor, rows. rewrite map_map.
    apply map_ext_in. intros ks Hks.
    assert (Hr : (fst ks < p)%nat) by (apply Hrows; unfold rows; apply in_map; exact Hks).
    destruct (Hrow (fst ks) Hr) as [Lr _]. rewrite pick_none_map by lia. reflexivity. }
  assert (HM : wfm16 q q M).
  { unfold M, q. rewrite count_none_present. apply (M_sel_wf p d); [exact Hpm|].
    rewrite <- count_none_present, <- somes_present. exact Hav. }
  assert (Hn : wfm16 q d (reconstruct_rhs c data parity)).
  { unfold reconstruct_rhs. fold q used pm. rewrite Hul.
    split; [rewrite map_length, combine_length, seq_length; lia|]. apply Forall_forall. intros v Hv.
    apply in_map_iff in Hv. destruct Hv as [[i ks] [<- Hiks]]. apply in_combine_r in Hiks.
    assert (Hr : (fst ks < p)%nat) by (apply Hrows; unfold rows; apply in_map; exact Hiks).
    cbn [fst snd]. replace d with (length (somes data) + q)%nat by lia.
    apply wfv_app; [|apply unit_row_wf].
    apply (pick_some_wfv16 d); [exact Hdl|apply Hrow; exact Hr]. }
  split; [exact HM|]. split; [exact Hn|].
  unfold reconstruct. cbv zeta. fold q.
  destruct (Nat.eqb_spec q 0) as [Z|_]; [lia|].
  fold used. fold d.
  destruct (Nat.ltb_spec (length (somes data) + length used) d) as [Lt|_]; [lia|].
  fold pm. rewrite Em. reflexivity.
Qed.

(** * SG1 / SG2 for arbitrary optional shard lists *)

(* The outcome depends on the masks only: the shards' contents play no role. *)
Theorem reconstruct_singular_iff_gen c data parity :
  wfm16 (c_parity c) (c_data c) (c_pm c) -> length data = c_data c -> length parity = c_parity c ->
  (count_none data <= length (somes parity))%nat ->
  (reconstruct c data parity = Err ESingular <->
   singular (count_none data) (M_sel (c_pm c) (present data) (present parity))).
Proof.
  intros Hpm Hdl Hpl Hav.
  destruct (Nat.eq_dec (count_none data) 0) as [Z|NZ].
  - rewrite reconstruct_nothing_missing by exact Z. rewrite Z. split; [discriminate|].
    intros (x & [Lx _] & Nz & _). exfalso. apply Nz. destruct x; [reflexivity|discriminate].
  - destruct (reconstruct_system c data parity Hpm Hdl Hpl ltac:(lia)) as (HM & Hn & ->).
    rewrite <- (row_reduce16_singular_iff (count_none data) (c_data c) _ _ ltac:(lia) HM Hn).
    destruct (RowReduce16 _ _) as [R|e|pp]; cbn [obind]; split; intros E; try discriminate; exact E.
Qed.

Theorem reconstruct_ok_iff_gen c data parity :
  wfm16 (c_parity c) (c_data c) (c_pm c) -> length data = c_data c -> length parity = c_parity c ->
  (count_none data <= length (somes parity))%nat ->
  (is_ok (reconstruct c data parity) = true <->
   nonsingular (count_none data) (M_sel (c_pm c) (present data) (present parity))).
Proof.
  intros Hpm Hdl Hpl Hav.
  destruct (Nat.eq_dec (count_none data) 0) as [Z|NZ].
  - rewrite reconstruct_nothing_missing by exact Z. rewrite Z. split; [|reflexivity].
    intros _ x [Lx _] _. destruct x; [reflexivity|discriminate].
  - destruct (reconstruct_system c data parity Hpm Hdl Hpl ltac:(lia)) as (HM & Hn & ->).
    unfold nonsingular. rewrite <- (row_reduce16_ok_iff_injective (count_none data) (c_data c) _ _ ltac:(lia) HM Hn).
    destruct (RowReduce16 _ _) as [R|e|pp]; cbn [obind is_ok]; reflexivity.
Qed.

(* never a panic, never another error: with enough parity the outcome is Ok or the singular error *)
Theorem reconstruct_enough_outcome c data parity :
  wfm16 (c_parity c) (c_data c) (c_pm c) -> length data = c_data c -> length parity = c_parity c ->
  (count_none data <= length (somes parity))%nat ->
  (exists r, reconstruct c data parity = Ok r) \/ reconstruct c data parity = Err ESingular.
Proof.
  intros Hpm Hdl Hpl Hav.
  destruct (Nat.eq_dec (count_none data) 0) as [Z|NZ].
  - left. eexists. apply reconstruct_nothing_missing. exact Z.
  - destruct (reconstruct_system c data parity Hpm Hdl Hpl ltac:(lia)) as (HM & Hn & ->).
    pose proof (RowReduce16_spec _ _ _ _ HM Hn) as Sp.
    destruct (RowReduce16 _ _) as [R|e|pp]; cbn [obind]; [left; eexists; reflexivity|right; subst e; reflexivity|destruct Sp].
Qed.

(** * SG1 / SG2 in the setting of C07_sound: erased data and erased generated parity *)

Section Erased.
  Variables (c : coder) (D : list (list N)) (kd kp : list bool) (L : nat).
  Hypothesis Hd0 : (0 < c_data c)%nat.
  Hypothesis Hpm : wfm16 (c_parity c) (c_data c) (c_pm c).
  Hypothesis HD : wfm16 (c_data c) L D.
  Hypothesis Hkd : length kd = c_data c.
  Hypothesis Hkp : length kp = c_parity c.
  (* missing data <= available parity *)
  Hypothesis Hav : (count_false kd <= count_true kp)%nat.

  Let data := erase kd D.
  Let parity := erase kp (gen_parity c D).

  Local Lemma gp_length : length (gen_parity c D) = c_parity c.
  Proof using Hpm. unfold gen_parity, apply_matrix, mmul16, mmul. rewrite map_length. apply Hpm. Qed.
  Local Lemma data_facts : length data = c_data c /\ present data = kd /\ count_none data = count_false kd.
  Proof using HD Hkd.
    clear Hd0 Hav Hkp. destruct HD as [HDl _]. unfold data.
    split; [rewrite erase_length; lia|]. split; [apply present_erase; lia|apply count_none_erase; lia].
  Qed.
  Local Lemma parity_facts :
    length parity = c_parity c /\ present parity = kp /\ length (somes parity) = count_true kp.
  Proof using Hpm Hkp.
    clear Hd0 Hav Hkd. pose proof gp_length as G. unfold parity.
    split; [rewrite erase_length; lia|]. split; [apply present_erase; lia|apply somes_erase_length; lia].
  Qed.

  (* SG1 *)
  Theorem reconstruct_singular_iff :
    reconstruct c (erase kd D) (erase kp (gen_parity c D)) = Err ESingular <->
    exists x, wfv16 (count_false kd) x /\ x <> zeros (count_false kd) /\
              mvec16 (M_sel (c_pm c) kd kp) x = zeros (count_false kd).
  Proof using Hpm HD Hkd Hkp Hav.
    clear Hd0. destruct data_facts as (Dl & Dp & Dc). destruct parity_facts as (Pl & Pp & Pc).
    pose proof (reconstruct_singular_iff_gen c data parity Hpm Dl Pl ltac:(lia)) as S.
    rewrite Dp, Pp, Dc in S. exact S.
  Qed.

  (* SG2 *)
  Theorem reconstruct_ok_iff :
    reconstruct c (erase kd D) (erase kp (gen_parity c D)) = Ok D <->
    forall x, wfv16 (count_false kd) x ->
              mvec16 (M_sel (c_pm c) kd kp) x = zeros (count_false kd) -> x = zeros (count_false kd).
  Proof.
    destruct data_facts as (Dl & Dp & Dc). destruct parity_facts as (Pl & Pp & Pc).
    pose proof (reconstruct_ok_iff_gen c data parity Hpm Dl Pl ltac:(lia)) as S.
    rewrite Dp, Pp, Dc in S. unfold nonsingular in S. rewrite <- S. fold data parity.
    pose proof (reconstruct_spec c D kd kp L Hd0 Hpm HD Hkd Hkp) as Sp. fold data parity in Sp.
    destruct (reconstruct c data parity) as [r|e|pp]; cbn [is_ok]; split; intros E; try discriminate.
    - reflexivity.
    - subst r. reflexivity.
  Qed.

  (* any Ok at all is Ok D *)
  Corollary reconstruct_ok_is_original r :
    reconstruct c (erase kd D) (erase kp (gen_parity c D)) = Ok r -> r = D.
  Proof. apply (reconstruct_sound c D kd kp L); assumption. Qed.

  (* the dichotomy: the data is restored, or the singular error is returned; which one is decided by M_sel *)
  Corollary reconstruct_enough_dichotomy :
    (reconstruct c (erase kd D) (erase kp (gen_parity c D)) = Ok D /\ nonsingular (count_false kd) (M_sel (c_pm c) kd kp))
    \/ (reconstruct c (erase kd D) (erase kp (gen_parity c D)) = Err ESingular /\ singular (count_false kd) (M_sel (c_pm c) kd kp)).
  Proof.
    destruct data_facts as (Dl & Dp & Dc). destruct parity_facts as (Pl & Pp & Pc).
    destruct (reconstruct_enough_outcome c data parity Hpm Dl Pl ltac:(lia)) as [[r E]|E]; fold data parity.
    - left. pose proof (reconstruct_ok_is_original r E) as ->. split; [exact E|]. exact (proj1 reconstruct_ok_iff E).
    - right. split; [exact E|]. exact (proj1 reconstruct_singular_iff E).
  Qed.
End Erased.

(* the complete outcome of ReconstructData on erased data, by counting and by the selected system *)
Theorem reconstruct_outcome c D kd kp L :
  (0 < c_data c)%nat -> wfm16 (c_parity c) (c_data c) (c_pm c) -> wfm16 (c_data c) L D ->
  length kd = c_data c -> length kp = c_parity c ->
  let res := reconstruct c (erase kd D) (erase kp (gen_parity c D)) in
  let q := count_false kd in
  ((count_true kp < q)%nat -> res = Err ENotEnoughParity) /\
  ((q <= count_true kp)%nat -> singular q (M_sel (c_pm c) kd kp) -> res = Err ESingular) /\
  ((q <= count_true kp)%nat -> nonsingular q (M_sel (c_pm c) kd kp) -> res = Ok D).
Proof.
  intros Hd0 Hpm HD Hkd Hkp res q. split; [|split].
  - intros Lt. destruct HD as [HDl _].
    assert (G : length (gen_parity c D) = c_parity c).
    { unfold gen_parity, apply_matrix, mmul16, mmul. rewrite map_length. apply Hpm. }
    apply reconstruct_not_enough.
    + rewrite erase_length; lia.
    + rewrite count_none_erase by lia. fold q. lia.
    + rewrite count_none_erase, somes_erase_length by lia. exact Lt.
  - intros Le S. unfold res. apply <- (reconstruct_singular_iff c D kd kp L); try assumption.
  - intros Le S. unfold res. apply <- (reconstruct_ok_iff c D kd kp L); try assumption.
Qed.

(** * SG3: the PAR2-Vandermonde coder *)

Definition par2_coder (nd np : nat) : coder := {| c_data := nd; c_parity := np; c_pm := vandermonde_pm nd np |}.

Lemma new_coder_par2 d p g c : new_coder PAR2Vandermonde d p g = Ok c ->
  c = par2_coder (c_data c) (c_parity c) /\ (0 < c_data c)%nat /\
  N.of_nat (c_data c) <= 32768 /\ N.of_nat (c_parity c) <= 65535.
Proof.
  unfold new_coder, GENERATOR_COUNT. intros E.
  destruct (Z.leb_spec d 0); [discriminate|]. destruct (Z.leb_spec p 0); [discriminate|].
  destruct (Z.leb_spec g 0); [discriminate|].
  destruct (Z.ltb_spec 32768 d); [discriminate|]. destruct (Z.ltb_spec 65535 p); [discriminate|].
  injection E as <-. cbn [c_data c_parity]. split; [reflexivity|]. lia.
Qed.

Section Par2.
  Variables (nd np : nat) (D : list (list N)) (kd kp : list bool) (L : nat).
  Hypothesis Hnd0 : (0 < nd)%nat.
  Hypothesis Hnd : N.of_nat nd <= 32768.
  Hypothesis Hnp : N.of_nat np <= 65535.
  Hypothesis HD : wfm16 nd L D.
  Hypothesis Hkd : length kd = nd.
  Hypothesis Hkp : length kp = np.
  Hypothesis Hav : (count_false kd <= count_true kp)%nat.
  Let c := par2_coder nd np.

  Theorem par2_reconstruct_singular_iff :
    reconstruct c (erase kd D) (erase kp (gen_parity c D)) = Err ESingular <->
    exists x, wfv16 (count_false kd) x /\ x <> zeros (count_false kd) /\
              mvec16 (M_sel (vandermonde_pm nd np) kd kp) x = zeros (count_false kd).
  Proof.
    apply (reconstruct_singular_iff c D kd kp L); try assumption. apply vandermonde_pm_wf; assumption.
  Qed.

  Theorem par2_reconstruct_ok_iff :
    reconstruct c (erase kd D) (erase kp (gen_parity c D)) = Ok D <->
    forall x, wfv16 (count_false kd) x ->
              mvec16 (M_sel (vandermonde_pm nd np) kd kp) x = zeros (count_false kd) -> x = zeros (count_false kd).
  Proof.
    apply (reconstruct_ok_iff c D kd kp L); try assumption. apply vandermonde_pm_wf; assumption.
  Qed.

  (* "succeeds whenever the linear system implied by the lowest-numbered available parity shards is
     non-singular, and otherwise an error is returned" *)
  Theorem par2_reconstruct_dichotomy :
    (reconstruct c (erase kd D) (erase kp (gen_parity c D)) = Ok D
       /\ nonsingular (count_false kd) (M_sel (vandermonde_pm nd np) kd kp))
    \/ (reconstruct c (erase kd D) (erase kp (gen_parity c D)) = Err ESingular
       /\ singular (count_false kd) (M_sel (vandermonde_pm nd np) kd kp)).
  Proof.
    apply (reconstruct_enough_dichotomy c D kd kp L); try assumption. apply vandermonde_pm_wf; assumption.
  Qed.
End Par2.

(* the same for a coder obtained from the constructor *)
Corollary new_coder_par2_reconstruct d p g c D kd kp L :
  new_coder PAR2Vandermonde d p g = Ok c ->
  wfm16 (c_data c) L D -> length kd = c_data c -> length kp = c_parity c ->
  (count_false kd <= count_true kp)%nat ->
  (reconstruct c (erase kd D) (erase kp (gen_parity c D)) = Err ESingular
     <-> singular (count_false kd) (M_sel (c_pm c) kd kp)) /\
  (reconstruct c (erase kd D) (erase kp (gen_parity c D)) = Ok D
     <-> nonsingular (count_false kd) (M_sel (c_pm c) kd kp)).
Proof.
  intros E HD Hkd Hkp Hav. destruct (new_coder_par2 d p g c E) as (Ec & H0 & H1 & H2).
  assert (Hpm : wfm16 (c_parity c) (c_data c) (c_pm c)).
  { rewrite Ec. cbn [par2_coder c_data c_parity c_pm]. apply vandermonde_pm_wf; assumption. }
  split.
  - apply (reconstruct_singular_iff c D kd kp L); assumption.
  - apply (reconstruct_ok_iff c D kd kp L); assumption.
Qed.

Print Assumptions selected_rows_lowest.
Print Assumptions missing_cols_spec.
Print Assumptions reconstruct_system.
Print Assumptions reconstruct_singular_iff_gen.
Print Assumptions reconstruct_ok_iff_gen.
Print Assumptions reconstruct_singular_iff.
Print Assumptions reconstruct_ok_iff.
Print Assumptions reconstruct_enough_dichotomy.
Print Assumptions reconstruct_outcome.
Print Assumptions par2_reconstruct_singular_iff.
Print Assumptions par2_reconstruct_ok_iff.
Print Assumptions par2_reconstruct_dichotomy.
Print Assumptions new_coder_par2_reconstruct.

(** * Examples: the hypotheses are satisfiable, and both outcomes occur *)

Module SingularExamples.
  Ltac wf_small := split; [reflexivity|repeat (constructor; try (split; [reflexivity|]); try reflexivity)].

  (** ** a toy (non-Vandermonde) 3+3 parity matrix whose first two rows are dependent on columns 0,1 *)
  Definition toy : coder := {| c_data := 3; c_parity := 3; c_pm := [[1; 2; 3]; [2; 4; 5]; [1; 1; 1]] |}.
  Definition D3 : list (list N) := [[10; 11]; [20; 21]; [30; 31]].
  Definition kd3 : list bool := [false; false; true].      (* data shards 0 and 1 are missing *)

  Example toy_premises :
    (0 < c_data toy)%nat /\ wfm16 (c_parity toy) (c_data toy) (c_pm toy) /\ wfm16 (c_data toy) 2 D3 /\
    length kd3 = c_data toy.
  Proof. split; [cbn; lia|]. split; [|split]; [wf_small|wf_small|reflexivity]. Qed.

  (* all three parity shards available: rows 0 and 1 are selected (not 0 and 2, which would do), the system is
     singular with kernel vector (2,1), and the singular error is returned *)
  Example toy_singular :
    let kp := [true; true; true] in
    (count_false kd3 <= count_true kp)%nat /\
    selected_rows kd3 kp = [0; 1]%nat /\ missing_cols kd3 = [0; 1]%nat /\
    M_sel (c_pm toy) kd3 kp = [[1; 2]; [2; 4]] /\
    kernel_vector 2 (M_sel (c_pm toy) kd3 kp) [2; 1] /\
    reconstruct toy (erase kd3 D3) (erase kp (gen_parity toy D3)) = Err ESingular.
  Proof.
    cbv zeta. split; [cbn; lia|]. split; [reflexivity|]. split; [reflexivity|]. split; [vm_compute; reflexivity|].
    split; [|vm_compute; reflexivity].
    split; [wf_small|]. split; [discriminate|vm_compute; reflexivity].
  Qed.

  (* parity shard 1 unavailable: rows 0 and 2 are selected, the system is non-singular, the data is restored *)
  Example toy_nonsingular :
    let kp := [true; false; true] in
    (count_false kd3 <= count_true kp)%nat /\
    selected_rows kd3 kp = [0; 2]%nat /\
    M_sel (c_pm toy) kd3 kp = [[1; 2]; [1; 1]] /\
    reconstruct toy (erase kd3 D3) (erase kp (gen_parity toy D3)) = Ok D3 /\
    nonsingular 2 (M_sel (c_pm toy) kd3 kp).
  Proof.
    cbv zeta. split; [cbn; lia|]. split; [reflexivity|]. split; [vm_compute; reflexivity|].
    assert (E : reconstruct toy (erase kd3 D3) (erase [true; false; true] (gen_parity toy D3)) = Ok D3)
      by (vm_compute; reflexivity).
    split; [exact E|].
    destruct toy_premises as (P0 & P1 & P2 & P3).
    exact (proj1 (reconstruct_ok_iff toy D3 kd3 [true; false; true] 2 P0 P1 P2 P3 eq_refl ltac:(cbn; lia)) E).
  Qed.

  (* SG1 used in the other direction: from the kernel vector to the error, without running the coder *)
  Example toy_singular_by_theorem :
    reconstruct toy (erase kd3 D3) (erase [true; true; true] (gen_parity toy D3)) = Err ESingular.
  Proof.
    destruct toy_premises as (P0 & P1 & P2 & P3).
    apply (proj2 (reconstruct_singular_iff toy D3 kd3 [true; true; true] 2 P1 P2 P3 eq_refl ltac:(cbn; lia))).
    exists [2; 1]. apply toy_singular.
  Qed.

  (** ** the PAR2-Vandermonde coder: the known singular selection.
      generators 1 and 129 are 2^2 and 2^259; (2^259 / 2^2)^255 = 2^65535 = 1, so the rows 0 and 255 of the
      Vandermonde matrix agree up to a factor on the columns 1 and 129 *)
  Definition kd130 : list bool := true :: false :: repeat true 127 ++ [false].   (* data shards 1 and 129 missing *)
  Definition kp_0_255 : list bool := true :: repeat false 254 ++ [true].          (* only parity shards 0 and 255 *)
  Definition kp_0_1 : list bool := true :: true :: repeat false 254.              (* only parity shards 0 and 1 *)
  Definition D130 : list (list N) := map (fun i => [N.of_nat i + 7]) (seq 0 130).

  Example par2_premises :
    (0 < 130)%nat /\ N.of_nat 130 <= 32768 /\ N.of_nat 256 <= 65535 /\ wfm16 130 1 D130 /\
    length kd130 = 130%nat /\ length kp_0_255 = 256%nat /\ length kp_0_1 = 256%nat /\
    (count_false kd130 <= count_true kp_0_255)%nat /\ (count_false kd130 <= count_true kp_0_1)%nat.
  Proof.
    split; [lia|]. split; [cbn; lia|]. split; [cbn; lia|]. split.
    - split; [reflexivity|]. apply Forall_forall. intros v Hv. unfold D130 in Hv. apply in_map_iff in Hv.
      destruct Hv as [i [<- Hi]]. apply in_seq in Hi. split; [reflexivity|].
      constructor; [unfold wfe; lia|constructor].
    - repeat split; vm_compute; try reflexivity; lia.
  Qed.

  Example par2_singular :
    nth 1 (generators_first 130) 0 = T_Pow 2 2 /\ nth 129 (generators_first 130) 0 = T_Pow 2 259 /\
    selected_rows kd130 kp_0_255 = [0; 255]%nat /\ missing_cols kd130 = [1; 129]%nat /\
    M_sel (vandermonde_pm 130 256) kd130 kp_0_255 = [[1; 1]; [36258; 36258]] /\
    kernel_vector 2 (M_sel (vandermonde_pm 130 256) kd130 kp_0_255) [1; 1] /\
    reconstruct (par2_coder 130 256) (erase kd130 D130) (erase kp_0_255 (gen_parity (par2_coder 130 256) D130))
      = Err ESingular.
  Proof.
    assert (EM : M_sel (vandermonde_pm 130 256) kd130 kp_0_255 = [[1; 1]; [36258; 36258]]) by (vm_compute; reflexivity).
    split; [vm_compute; reflexivity|]. split; [vm_compute; reflexivity|].
    split; [vm_compute; reflexivity|]. split; [vm_compute; reflexivity|]. split; [exact EM|].
    split; [|vm_compute; reflexivity].
    rewrite EM. split; [wf_small|]. split; [discriminate|vm_compute; reflexivity].
  Qed.

  (* the same erased data shards, but parity shards 0 and 1 available: non-singular, restored *)
  Example par2_nonsingular :
    selected_rows kd130 kp_0_1 = [0; 1]%nat /\
    M_sel (vandermonde_pm 130 256) kd130 kp_0_1 = [[1; 1]; [4; 22904]] /\
    reconstruct (par2_coder 130 256) (erase kd130 D130) (erase kp_0_1 (gen_parity (par2_coder 130 256) D130))
      = Ok D130 /\
    nonsingular 2 (M_sel (vandermonde_pm 130 256) kd130 kp_0_1).
  Proof.
    split; [vm_compute; reflexivity|]. split; [vm_compute; reflexivity|].
    assert (E : reconstruct (par2_coder 130 256) (erase kd130 D130)
                  (erase kp_0_1 (gen_parity (par2_coder 130 256) D130)) = Ok D130) by (vm_compute; reflexivity).
    split; [exact E|].
    destruct par2_premises as (P0 & P1 & P2 & P3 & P4 & P5 & P6 & P7 & P8).
    exact (proj1 (par2_reconstruct_ok_iff 130 256 D130 kd130 kp_0_1 1 P0 P1 P2 P3 P4 P6 P8) E).
  Qed.

  (* the constructor accepts these parameters *)
  Example par2_new_coder : new_coder PAR2Vandermonde 130 256 1 = Ok (par2_coder 130 256).
  Proof. reflexivity. Qed.
End SingularExamples.
