(* (R2) The second sentence of property C10 on the set level: a PAR 1.0 set that is valid in the sense of the
   specification-side validator (Model/Par1Spec.v: s1_set_valid) - written by ANY conformant writer, with a
   comment in the index file, with entries that are NOT saved in the parity set anywhere in the file list,
   with further status bits, with surrogate-pair names, with any generating-client field - in the contiguous
   layout gopar's reader accepts, is verified by gopar: with every saved file present and intact Verify
   reports no unusable file and no unusable volume, and (all = true) that the parity data is consistent;
   Repair then writes nothing. *)
From Coq Require Import Lia ZifyN ZifyNat ZifyBool.
From Gopar Require Import Model.Base Model.Matrix Model.RS16 Model.GF8 Model.CRC Model.GoPath Model.FS Model.Par1 Model.Par1Spec Proofs.RS16Facts
     Proofs.LinAlg Proofs.GF8Facts Proofs.GoPathFacts Proofs.Par2Facts Proofs.Par2Create Proofs.Par2Clean Proofs.Par1Facts
     Proofs.Utf16Facts Proofs.Par1Clean Proofs.Par1RoundTrip Proofs.Par1SpecFacts.
Open Scope N_scope.
Set Default Timeout 120.

(** * list helpers *)
Lemma forallb_combine_seq {T} (f : nat * T -> bool) (d : T) : forall (outs : list T) s,
  forallb f (combine (seq s (length outs)) outs) = true ->
  forall j, (j < length outs)%nat -> f ((s + j)%nat, nth j outs d) = true.
Proof.
  induction outs as [|o outs IH]; intros s H j Hj; cbn [length] in *; [lia|].
  cbn [seq combine forallb] in H. apply andb_prop in H. destruct H as [H0 H1].
  destruct j as [|j]; [rewrite Nat.add_0_r; exact H0|].
  cbn [nth]. replace (s + S j)%nat with (S s + j)%nat by lia. apply IH; [exact H1|lia].
Qed.

Lemma filter_len_le {T} (g : T -> bool) : forall l : list T, (length (filter g l) <= length l)%nat.
Proof. induction l as [|x l IH]; [cbn [filter length]; lia|]. cbn [filter]. destruct (g x); cbn [length]; lia. Qed.

Lemma forallb_nth {T} (f : T -> bool) (d : T) (l : list T) j : forallb f l = true -> (j < length l)%nat -> f (nth j l d) = true.
Proof. intros H Hj. rewrite forallb_forall in H. apply H. apply nth_In. exact Hj. Qed.

Section SpecSet.
  Variable md5 : bytes -> bytes.
  Hypothesis md5_len : forall x, length (md5 x) = 16%nat.

  (** * A. loading volumes that gopar's reader parses (load_vols_present for arbitrary volume files) *)
  Lemma load_vols_parsed ix sethash L (volb vold : nat -> bytes) : L <> 0%nat ->
    forall n m i size acc st, io_sched st = [] -> (size = 0 \/ size = L)%nat ->
    (forall k, (i < k <= i + n)%nat ->
       fs_lookup (io_fs st) (volume_path ix (N.of_nat k)) = Some (volb k) /\
       exists v, read_volume md5 (volb k) = Ok v /\ v_sethash_stored v = sethash /\ v_number v = N.of_nat k /\
                 v_data v = vold k /\ length (vold k) = L) ->
    exists st1, io_sched st1 = [] /\ io_fs st1 = io_fs st /\
      load_vols md5 ix sethash i (n + m) size acc st =
      load_vols md5 ix sethash (i + n) m (match n with O => size | _ => L end)
                (acc ++ map (fun k => Some (vold k)) (seq (S i) n)) st1.
  Proof.
    intros HL. induction n as [|n IH]; intros m i size acc st Hs Hsize Hk.
    - exists st. cbn [seq map Nat.add]. rewrite Nat.add_0_r, app_nil_r. split; [exact Hs|split; reflexivity].
    - destruct (Hk (S i) ltac:(lia)) as (Hlk & v & EV & F1 & F2 & F3 & F4).
      destruct (io_read_some _ st _ Hs Hlk) as (st1 & ER & Hs1 & Hf1).
      cbn [Nat.add load_vols]. rewrite ER, EV, F1, F2, F3, F4, bytes_eqb_refl, N.eqb_refl. cbn [negb].
      destruct (Nat.eqb_spec L 0) as [E0|_]; [contradiction|].
      assert (Ec : negb (Nat.eqb size 0) && negb (Nat.eqb L size) = false).
      { destruct Hsize as [-> | ->]; [reflexivity|]. rewrite Nat.eqb_refl. apply andb_false_r. }
      rewrite Ec.
      destruct (IH m (S i) L (acc ++ [Some (vold (S i))]) st1 Hs1 (or_intror eq_refl)) as (st2 & Hs2 & Hf2 & E2).
      { intros k Hk'. rewrite Hf1. apply Hk. lia. }
      exists st2. split; [exact Hs2|]. split; [congruence|]. rewrite E2.
      replace (S i + n)%nat with (i + S n)%nat by lia.
      rewrite <- app_assoc. cbn [seq map app]. destruct n; reflexivity.
  Qed.

  (** * B. the reader's view of the files of a valid set *)

  (* the entry gopar reads for a file of the set *)
  Definition entry_for (f : s1file) : p1entry :=
    {| e_status := sf_status f; e_len := N.of_nat (length (sf_data f)); e_hash := md5 (sf_data f);
       e_h16 := hash16k md5 (sf_data f); e_name := sf_name f |}.

  Lemma s1_name_is_decode raw name : s1_name_is raw name = true ->
    decode_utf16le raw = name /\ N.of_nat (length raw) mod 2 = 0 /\ (name <> [] -> raw <> []).
  Proof.
    unfold s1_name_is. destruct (s1_utf16le_scalars raw) as [rs|] eqn:E; [|discriminate]. intros H.
    apply s1_beq_eq in H. split; [rewrite (decode_utf16le_strict raw rs E); exact H|].
    split; [exact (s1_strict_even raw rs E)|].
    intros Hn ->. apply Hn. rewrite <- H. vm_compute in E. injection E as <-. reflexivity.
  Qed.

  Lemma entry_valid_reader f e : s1_entry_valid md5 f e = true ->
    entry_of_spec e = entry_for f /\ (sf_name f <> [] -> name16_ok (se_name16 e)).
  Proof.
    unfold s1_entry_valid. intros H.
    apply andb_prop in H. destruct H as [H H5]. apply andb_prop in H. destruct H as [H H4].
    apply andb_prop in H. destruct H as [H H3]. apply andb_prop in H. destruct H as [H1 H2].
    apply N.eqb_eq in H1, H2. apply s1_beq_eq in H3, H4.
    destruct (s1_name_is_decode _ _ H5) as (Hn & Hev & Hne).
    split.
    - unfold entry_of_spec, entry_for, hash16k. rewrite H1, H2, H3, H4, Hn. reflexivity.
    - intros Hf. split; [apply Hne; exact Hf|exact Hev].
  Qed.

  Lemma entries_valid_reader : forall files es, s1_entries_valid md5 files es = true ->
    map entry_of_spec es = map entry_for files /\
    (Forall (fun f => sf_name f <> []) files -> Forall (fun e => name16_ok (se_name16 e)) es).
  Proof.
    induction files as [|f files IH]; intros [|e es] H; cbn [s1_entries_valid] in H; try discriminate.
    - split; [reflexivity|constructor].
    - apply andb_prop in H. destruct H as [H1 H2].
      destruct (entry_valid_reader f e H1) as [E1 N1]. destruct (IH es H2) as [E2 N2].
      split; [cbn [map]; rewrite E1, E2; reflexivity|].
      intros HF. inversion HF; subst. constructor; [apply N1; assumption|apply N2; assumption].
  Qed.

  Lemma filter_saved_entry_for : forall files,
    filter saved (map entry_for files) = map entry_for (filter sf_saved files).
  Proof.
    induction files as [|f files IH]; [reflexivity|].
    cbn [map filter]. unfold saved at 1, sf_saved at 1. cbn [entry_for e_status].
    destruct (N.odd (sf_status f)); cbn [map]; rewrite IH; reflexivity.
  Qed.

  (* ONE file of a valid set, in the layout the reader accepts: what gopar's reader returns *)
  Lemma valid_file_read files comment v o :
    s1_file_valid md5 files comment v o = true -> s1_contiguous md5 o = true ->
    N.of_nat (length o) < 2^64 -> Forall (fun f => sf_name f <> []) files ->
    exists vol, read_volume md5 o = Ok vol /\ v_number vol = N.of_nat v /\ v_count vol = N.of_nat (length files) /\
      v_entries vol = map entry_for files /\
      v_data vol = (match v with O => comment | _ => s1_parity (s1_saved_datas files) v end) /\
      v_sethash_stored vol = md5 (concat (map (fun f => md5 (sf_data f)) (filter sf_saved files))).
  Proof.
    unfold s1_file_valid, s1_contiguous. destruct (s1_parse md5 o) as [sv|] eqn:EP; [|discriminate].
    intros H HC Hlen Hnames.
    apply andb_prop in H. destruct H as [H H5]. apply andb_prop in H. destruct H as [H H4].
    apply andb_prop in H. destruct H as [H H3]. apply andb_prop in H. destruct H as [H1 H2].
    apply N.eqb_eq in H1, H2. apply s1_beq_eq in H4, H5.
    apply andb_prop in HC. destruct HC as [HC C3]. apply andb_prop in HC. destruct HC as [C1 C2].
    apply N.eqb_eq in C1, C2, C3.
    destruct (entries_valid_reader files (sv_entries sv) H3) as [EE NN].
    destruct (par1_reader_accepts_conformant md5 o sv EP Hlen C1 C2 C3 (NN Hnames))
      as (vol & ER & F1 & F2 & F3 & F4 & F5 & _).
    exists vol. split; [exact ER|].
    rewrite F1, F2, F3, F4, F5, H1, H2, EE, H4, H5. repeat split; reflexivity.
  Qed.

  (** * C. the parity list *)
  Lemma parity_list (sd : list bytes) nv : sd <> [] -> (length sd <= 255)%nat -> Forall wf_bytes sd ->
    par1_encode (length sd) nv (map (pad (max_len sd)) sd) = map (fun k => s1_parity sd k) (seq 1 nv).
  Proof.
    intros Hne Hd Hwf.
    set (D := map (pad (max_len sd)) sd).
    assert (HD : Forall (fun x : bytes => length x = max_len sd) D).
    { unfold D. apply Forall_forall. intros x Hx. apply in_map_iff in Hx. destruct Hx as (d & <- & Hd').
      apply pad_length. pose proof (max_len_ge sd) as G. rewrite Forall_forall in G. exact (G d Hd'). }
    assert (HDne : D <> []) by (unfold D; destruct sd; [congruence|discriminate]).
    destruct (par1_encode_shape (length sd) nv D (max_len sd) HDne HD) as [LP _].
    apply (nth_ext _ _ [] []).
    - transitivity nv; [exact LP|]. rewrite map_length, seq_length. reflexivity.
    - intros j Hj0.
      assert (Hj : (j < nv)%nat) by (apply (Nat.lt_le_trans _ _ _ Hj0); apply Nat.eq_le_incl; exact LP).
      transitivity (s1_parity sd (S j)); [exact (parity_is_spec sd nv j Hne Hd Hwf Hj)|]. symmetry.
      rewrite <- seq_shift, map_map.
      rewrite (nth_indep _ [] (s1_parity sd (S 0))) by (rewrite map_length, seq_length; exact Hj).
      rewrite (map_nth (fun x => s1_parity sd (S x))), seq_nth by exact Hj. reflexivity.
  Qed.

  (** * D. loading a valid set; each saved file is either present and intact (kept) or missing *)
  (* the volume numbers the loader looks at: only the SAVED entries are shards and count against the limit of 256 *)
  Definition maxvol (files : list s1file) : nat := N.to_nat (N.min (256 - N.of_nat (length (filter sf_saved files))) 99).
  Definition fpath (ix : list N) (f : s1file) : list N := join2 (dir ix) (sf_name f).

  Lemma erase_kept (kept : s1file -> bool) : forall sfiles : list s1file,
    map (fun f => if kept f then Some (sf_data f) else None) sfiles = erase (map kept sfiles) (map sf_data sfiles).
  Proof. induction sfiles as [|f l IH]; [reflexivity|]. cbn [map]. rewrite erase_cons, IH. reflexivity. Qed.

  Lemma erase_all_kept : forall sfiles : list s1file,
    erase (map (fun _ : s1file => true) sfiles) (map sf_data sfiles) = map Some (map sf_data sfiles).
  Proof. induction sfiles as [|f l IH]; [reflexivity|]. cbn [map]. rewrite erase_cons, IH. reflexivity. Qed.

  Lemma p1_load_conformant ix files comment nvol outs fs (kept : s1file -> bool) :
    str_eqb (ext ix) EXT_PAR = true ->
    s1_set_valid md5 files comment nvol outs = true ->
    forallb (s1_contiguous md5) outs = true ->
    Forall (fun o : bytes => N.of_nat (length o) < 2^64) outs ->
    Forall (fun f => sf_name f <> []) files ->
    let sfiles := filter sf_saved files in
    let sd := s1_saved_datas files in
    Forall wf_bytes sd -> max_len sd <> 0%nat ->
    (1 <= nvol <= maxvol files)%nat ->
    fs_lookup fs ix = Some (nth 0 outs []) ->
    (forall k, (1 <= k <= nvol)%nat -> fs_lookup fs (volume_path ix (N.of_nat k)) = Some (nth k outs [])) ->
    (forall k, (nvol < k <= maxvol files)%nat -> read_res fs (volume_path ix (N.of_nat k)) = Err ENotExist) ->
    (forall f, In f files -> sf_saved f = true ->
       base (sf_name f) = sf_name f /\
       if kept f then fs_lookup fs (fpath ix f) = Some (sf_data f) else read_res fs (fpath ix f) = Err ENotExist) ->
    exists v st1,
      p1_load md5 ix (io_init fs []) =
        (Ok {| s_index := ix; s_vol := v; s_saved := map entry_for sfiles;
               s_data := erase (map kept sfiles) sd; s_size := max_len sd;
               s_parity := map Some (par1_encode (length sd) nvol (map (pad (max_len sd)) sd)) |}, st1) /\
      v_data v = comment /\ v_entries v = map entry_for files /\ io_sched st1 = [] /\ io_fs st1 = fs /\
      (length sd <= 255)%nat /\ sd <> [].
  Proof.
    intros He HV HC Hlens Hnames sfiles sd Hwf Hsz Hnv C1 C2 C3 C4.
    unfold s1_set_valid in HV.
    apply andb_prop in HV. destruct HV as [HV V4]. apply andb_prop in HV. destruct HV as [HV _].
    apply andb_prop in HV. destruct HV as [V1 V2]. apply Nat.eqb_eq in V1.
    assert (Hfile : forall k, (k <= nvol)%nat ->
              exists vol, read_volume md5 (nth k outs []) = Ok vol /\ v_number vol = N.of_nat k /\
                v_count vol = N.of_nat (length files) /\ v_entries vol = map entry_for files /\
                v_data vol = (match k with O => comment | _ => s1_parity sd k end) /\
                v_sethash_stored vol = md5 (concat (map (fun f => md5 (sf_data f)) (filter sf_saved files)))).
    { intros k Hk.
      assert (Hk' : (k < length outs)%nat) by (rewrite V1; lia).
      apply valid_file_read; [| | |exact Hnames].
      - rewrite <- V1 in V2. pose proof (forallb_combine_seq _ [] outs 0 V2 k Hk') as G. cbn [fst snd Nat.add] in G. exact G.
      - apply forallb_nth; [exact HC|exact Hk'].
      - rewrite Forall_forall in Hlens. apply Hlens. apply nth_In. exact Hk'. }
    set (H := md5 (concat (map (fun f => md5 (sf_data f)) (filter sf_saved files)))) in *.
    assert (Hcount : N.of_nat (length (filter sf_saved files)) < 256) by (unfold maxvol in Hnv; lia).
    assert (Hsdne : sd <> []) by (intros E; apply Hsz; rewrite E; reflexivity).
    assert (Hsd255 : (length sd <= 255)%nat).
    { destruct (Nat.eqb_spec nvol 0) as [E0|_]; [lia|]. cbn [orb] in V4. apply Nat.leb_le in V4.
      unfold sd, s1_saved_datas. rewrite map_length. exact V4. }
    (* the index *)
    destruct (Hfile 0%nat ltac:(lia)) as (v0 & EV0 & N0 & CN0 & EN0 & D0 & SH0).
    destruct (io_read_some ix (io_init fs []) _ eq_refl C1) as (sa & ER & Hsa & Hfa). cbn [io_init io_fs] in Hfa.
    (* the files *)
    set (es := map entry_for sfiles).
    assert (Efilt : filter saved (v_entries v0) = es) by (rewrite EN0; apply filter_saved_entry_for).
    set (l := map (fun f => (entry_for f, (sf_data f, kept f))) sfiles).
    destruct (load_data_keep md5 ix l sa Hsa) as (sb & EL & Hsb & Hfb).
    { apply Forall_forall. intros t Hin. unfold l in Hin. apply in_map_iff in Hin. destruct Hin as (f & <- & Hf).
      apply filter_In in Hf. destruct Hf as [Hf1 Hf2]. destruct (C4 f Hf1 Hf2) as [Hb Hl].
      cbn [fst snd entry_for e_name e_hash e_h16]. unfold epath. cbn [entry_for e_name].
      split; [exact Hb|]. split; [reflexivity|]. split; [reflexivity|]. rewrite Hfa. exact Hl. }
    assert (El1 : map fst l = es) by (unfold l, es; rewrite map_map; reflexivity).
    assert (El2 : map (fun t : p1entry * (bytes * bool) => if snd (snd t) then Some (fst (snd t)) else None) l
                  = erase (map kept sfiles) sd).
    { unfold l. rewrite map_map. cbn [fst snd]. apply erase_kept. }
    rewrite El1, El2 in EL.
    assert (Hds : erase (map kept sfiles) sd <> []).
    { intros E0. apply (f_equal (@length (option bytes))) in E0.
      rewrite erase_length in E0 by (unfold sd, s1_saved_datas; rewrite !map_length; reflexivity).
      destruct sd; [congruence|discriminate E0]. }
    (* the volumes *)
    set (L := max_len sd) in *.
    set (vold := fun k : nat => s1_parity sd k).
    set (maxv := maxvol files) in *.
    destruct (load_vols_parsed ix H L (fun k => nth k outs []) vold Hsz nvol (maxv - nvol) 0 0 [] sb Hsb (or_introl eq_refl))
      as (sc & Hsc & Hfc & ELV1).
    { intros k Hk. rewrite Hfb, Hfa. split; [apply C2; lia|].
      destruct (Hfile k ltac:(lia)) as (vk & EVk & Nk & _ & _ & Dk & SHk).
      exists vk. split; [exact EVk|]. split; [exact SHk|]. split; [exact Nk|].
      split; [rewrite Dk; destruct k; [lia|reflexivity]|].
      unfold vold, s1_parity. rewrite map_length, seq_length. apply s1_longest_max_len. }
    destruct (load_vols_absent md5 ix H (maxv - nvol) (0 + nvol) (match nvol with O => 0%nat | _ => L end)
                ([] ++ map (fun k => Some (vold k)) (seq 1 nvol)) sc Hsc) as (sd' & ELV2).
    { intros j Hj. rewrite Hfc, Hfb, Hfa. apply C3. lia. }
    rewrite ELV2 in ELV1. replace (nvol + (maxv - nvol))%nat with maxv in ELV1 by lia.
    assert (Esz : match nvol with O => 0%nat | _ => L end = L) by (destruct nvol; [lia|reflexivity]).
    rewrite Esz in ELV1. cbn [app] in ELV1.
    assert (Evs : map (fun k => Some (vold k)) (seq 1 nvol) = map Some (par1_encode (length sd) nvol (map (pad L) sd))).
    { unfold L. rewrite (parity_list sd nvol Hsdne Hsd255 Hwf), map_map. reflexivity. }
    rewrite Evs in ELV1.
    (* assemble *)
    pose proof (p1_load_ok md5 ix (io_init fs []) _ sa v0 (erase (map kept sfiles) sd) sb
                  (map Some (par1_encode (length sd) nvol (map (pad L) sd)) ++ repeat None (maxv - nvol)) L sd' He ER EV0) as PL.
    unfold nsaved in PL. rewrite N0, Efilt, SH0 in PL. fold H in PL.
    assert (Hles : length es = length (filter sf_saved files)) by (unfold es, sfiles; apply map_length).
    rewrite Hles in PL.
    specialize (PL eq_refl EL Hds).
    assert (EC : (256 <=? N.of_nat (length (filter sf_saved files))) = false) by (apply N.leb_gt; exact Hcount).
    specialize (PL EC). fold maxv in PL. unfold maxvol in maxv. specialize (PL ELV1).
    rewrite firstn_last_some in PL.
    2:{ intros E0. apply (f_equal (@length bytes)) in E0.
        assert (HDne : map (pad L) sd <> []) by (destruct sd; [congruence|discriminate]).
        assert (HD : Forall (fun x : bytes => length x = L) (map (pad L) sd)).
        { apply Forall_forall. intros x Hx. apply in_map_iff in Hx. destruct Hx as (d & <- & Hd').
          apply pad_length. pose proof (max_len_ge sd) as G. rewrite Forall_forall in G. exact (G d Hd'). }
        destruct (par1_encode_shape (length sd) nvol (map (pad L) sd) L HDne HD) as [LP _].
        rewrite LP in E0. cbn [length] in E0. lia. }
    exists v0, sd'. split; [exact PL|]. split; [exact D0|]. split; [exact EN0|].
    pose proof (p1_load_pres md5 ix (io_init fs [])) as Pp.
    rewrite PL in Pp. cbn [snd] in Pp. destruct Pp as (Pf & Ps & _). cbn [io_init io_fs io_sched] in Pf, Ps.
    split; [exact Ps|]. split; [exact Pf|]. split; [exact Hsd255|exact Hsdne].
  Qed.

  (** * E. (R2) Verify and Repair on an intact conformant set *)
  Theorem par1_verify_conformant_set : forall ix files comment nvol outs fs all,
    str_eqb (ext ix) EXT_PAR = true ->
    s1_set_valid md5 files comment nvol outs = true ->
    forallb (s1_contiguous md5) outs = true ->
    Forall (fun o : bytes => N.of_nat (length o) < 2^64) outs ->
    Forall (fun f => sf_name f <> []) files ->
    let sd := s1_saved_datas files in
    Forall wf_bytes sd -> max_len sd <> 0%nat ->
    (1 <= nvol <= maxvol files)%nat ->
    fs_lookup fs ix = Some (nth 0 outs []) ->
    (forall k, (1 <= k <= nvol)%nat -> fs_lookup fs (volume_path ix (N.of_nat k)) = Some (nth k outs [])) ->
    (forall k, (nvol < k <= maxvol files)%nat -> read_res fs (volume_path ix (N.of_nat k)) = Err ENotExist) ->
    (forall f, In f files -> sf_saved f = true ->
       base (sf_name f) = sf_name f /\ fs_lookup fs (join2 (dir ix) (sf_name f)) = Some (sf_data f)) ->
    (exists c st, par1_verify md5 ix all (io_init fs []) = (Ok (c, all), st) /\
       fc_unusable c = 0%nat /\ fc_punusable c = 0%nat /\ fc_usable c = length sd /\ fc_pusable c = nvol) /\
    (forall dbl r rp st', par1_repair md5 ix dbl (io_init fs []) = ((r, rp), st') -> rp = [] /\ io_fs st' = fs).
  Proof.
    intros ix files comment nvol outs fs all He HV HC Hlens Hnames sd Hwf Hsz Hnv C1 C2 C3 C4.
    destruct (p1_load_conformant ix files comment nvol outs fs (fun _ => true) He HV HC Hlens Hnames Hwf Hsz Hnv C1 C2 C3 C4)
      as (v & st1 & PL & _ & _ & _ & _ & _ & Hsdne).
    fold sd in PL, Hsdne. unfold sd at 2, s1_saved_datas in PL. rewrite erase_all_kept in PL.
    fold (s1_saved_datas files) in PL. fold sd in PL.
    match type of PL with _ = (Ok ?s0, _) => set (s := s0) in * end.
    destruct (verify_on_created_state md5 s sd nvol all Hsdne Hsz eq_refl eq_refl eq_refl)
      as (EV & K1 & K2 & K3 & K4).
    split.
    - exists (file_counts s), st1. split; [|repeat split; assumption].
      unfold par1_verify. rewrite PL. cbv zeta.
      destruct (all && Nat.eqb (fc_unusable (file_counts s)) 0 && Nat.eqb (fc_punusable (file_counts s)) 0).
      + destruct (build_shards s) as [sh|x|q]; try discriminate EV.
        destruct (rs_verify (length (s_data s)) (length (s_parity s)) sh) as [b|x|q]; try discriminate EV.
        apply Ok_inj in EV. rewrite EV. reflexivity.
      + apply Ok_inj in EV. rewrite EV. reflexivity.
    - intros dbl r rp st' HR. exact (par1_idle_on_clean md5 ix dbl fs s st1 r rp st' PL K1 HR).
  Qed.

  (** * F. Repair of a conformant set with saved files missing *)

  (* the write-out phase on exactly reconstructed shards *)
  Lemma write_repaired_conformant ix size (kept : s1file -> bool) : forall (sfiles : list s1file) done st,
    io_sched st = [] ->
    Forall (fun f => base (sf_name f) = sf_name f /\ (length (sf_data f) <= size)%nat) sfiles ->
    let ws := map (fun f => (fpath ix f, sf_data f)) (filter (fun f => negb (kept f)) sfiles) in
    exists st',
      p1_write_repaired md5 ix
        (combine (map entry_for sfiles)
                 (combine (erase (map kept sfiles) (map sf_data sfiles)) (map (pad size) (map sf_data sfiles))))
        done st = ((Ok tt, done ++ map fst ws), st') /\
      io_fs st' = apply_writes ws (io_fs st).
  Proof.
    induction sfiles as [|f sfiles IH]; intros done st Hs HF ws.
    - exists st. cbn [map combine p1_write_repaired]. unfold ws. cbn [filter map]. rewrite app_nil_r. split; reflexivity.
    - inversion HF as [|? ? [Hb Hl] HF']; subst.
      unfold ws. cbn [map filter]. rewrite erase_cons. cbn [combine]. destruct (kept f) eqn:EK; cbn [negb].
      + cbn [p1_write_repaired]. apply IH; assumption.
      + cbn [p1_write_repaired entry_for e_len e_hash e_h16 map fst snd].
        rewrite (pad_length size (sf_data f) Hl).
        destruct (N.ltb_spec (N.of_nat size) (N.of_nat (length (sf_data f)))) as [Lt|_]; [lia|].
        rewrite Nat2N.id, pad_firstn, !bytes_eqb_refl. cbn [negb].
        match goal with |- context [entry_path ix ?e] => rewrite (entry_path_bare ix e Hb) end.
        unfold epath. change (join2 (dir ix) (e_name (entry_for f))) with (fpath ix f).
        rewrite (io_write_nosched (fpath ix f) (sf_data f) st Hs).
        destruct (IH (done ++ [fpath ix f]) (tick st (EvWrite (fpath ix f) (sf_data f) true) (fs_set (io_fs st) (fpath ix f) (sf_data f)))
                     Hs HF') as (st' & E & Hfs).
        exists st'. split; [rewrite E, <- app_assoc; reflexivity|]. rewrite Hfs. reflexivity.
  Qed.

  (* With at most nvol of the saved files missing (all volumes present), Repair succeeds and writes exactly
     the missing files, each with the bytes the set was computed from.  The vandermonde system on the
     distinct points 1..n is never singular (par1_reconstruct_parity_kept). *)
  Theorem par1_repair_conformant_set : forall ix files comment nvol outs fs (kept : s1file -> bool) dbl r rp st',
    str_eqb (ext ix) EXT_PAR = true ->
    s1_set_valid md5 files comment nvol outs = true ->
    forallb (s1_contiguous md5) outs = true ->
    Forall (fun o : bytes => N.of_nat (length o) < 2^64) outs ->
    Forall (fun f => sf_name f <> []) files ->
    let sfiles := filter sf_saved files in
    let sd := s1_saved_datas files in
    Forall wf_bytes sd -> max_len sd <> 0%nat ->
    (1 <= nvol <= maxvol files)%nat ->
    fs_lookup fs ix = Some (nth 0 outs []) ->
    (forall k, (1 <= k <= nvol)%nat -> fs_lookup fs (volume_path ix (N.of_nat k)) = Some (nth k outs [])) ->
    (forall k, (nvol < k <= maxvol files)%nat -> read_res fs (volume_path ix (N.of_nat k)) = Err ENotExist) ->
    (forall f, In f files -> sf_saved f = true ->
       base (sf_name f) = sf_name f /\
       if kept f then fs_lookup fs (fpath ix f) = Some (sf_data f) else read_res fs (fpath ix f) = Err ENotExist) ->
    let lost := filter (fun f => negb (kept f)) sfiles in
    (length lost <= nvol)%nat ->
    par1_repair md5 ix dbl (io_init fs []) = ((r, rp), st') ->
    let ws := map (fun f => (fpath ix f, sf_data f)) lost in
    r = Ok tt /\ rp = map fst ws /\ io_fs st' = apply_writes ws fs.
  Proof.
    intros ix files comment nvol outs fs kept dbl r rp st' He HV HC Hlens Hnames sfiles sd Hwf Hsz Hnv C1 C2 C3 C4 lost Hlost HR ws.
    destruct (p1_load_conformant ix files comment nvol outs fs kept He HV HC Hlens Hnames Hwf Hsz Hnv C1 C2 C3 C4)
      as (v & st1 & PL & _ & _ & Hs1 & Hf1 & Hsd255 & Hsdne).
    fold sd sfiles in PL, Hsd255, Hsdne.
    set (size := max_len sd) in *. set (D := map (pad size) sd) in *.
    set (nd := length sd) in *. set (np := nvol) in *.
    set (vs := par1_encode nd np D) in *.
    set (keep := map kept sfiles) in *.
    assert (Esd : sd = map sf_data sfiles) by reflexivity.
    assert (Hkl : length keep = nd) by (unfold keep, nd; rewrite Esd, !map_length; reflexivity).
    assert (Hge : Forall (fun d : bytes => (length d <= size)%nat) sd) by apply max_len_ge.
    assert (HD : Forall (fun x : bytes => length x = size) D).
    { unfold D. apply Forall_forall. intros x Hx. apply in_map_iff in Hx. destruct Hx as (d & <- & Hd).
      apply pad_length. rewrite Forall_forall in Hge. exact (Hge d Hd). }
    assert (HDl : length D = nd) by (unfold D; apply map_length).
    assert (HDne : D <> []) by (unfold D; destruct sd; [congruence|discriminate]).
    destruct (par1_encode_shape nd np D size HDne HD) as [LP HP]. fold vs in LP, HP.
    assert (Hnd : (0 < nd)%nat) by (unfold nd; destruct sd; [congruence|cbn [length]; lia]).
    assert (Hcap : (nd + np <= 256)%nat).
    { unfold nd, np. rewrite Esd, map_length. unfold sfiles.
      pose proof (filter_len_le sf_saved files). unfold maxvol in Hnv. lia. }
    assert (HwfD : wfm8 nd size D).
    { split; [exact HDl|]. apply Forall_forall. intros x Hx. split.
      - rewrite Forall_forall in HD. exact (HD x Hx).
      - unfold D in Hx. apply in_map_iff in Hx. destruct Hx as (d & <- & Hd). apply pad_wf.
        rewrite Forall_forall in Hwf. exact (Hwf d Hd). }
    match type of PL with _ = (Ok ?s0, _) => set (s := s0) in * end.
    assert (Ld : length (s_data s) = nd) by (cbn [s s_data]; rewrite erase_length by exact Hkl; reflexivity).
    assert (Lp : length (s_parity s) = np) by (cbn [s s_parity]; rewrite map_length; exact LP).
    assert (Es : s_size s = size) by reflexivity.
    unfold par1_repair in HR. rewrite PL in HR. cbv zeta in HR. rewrite Ld, Lp, Es in HR.
    destruct (Nat.eqb_spec size 0) as [E0|_]; [contradiction|].
    destruct (Nat.ltb_spec 256 (nd + np)) as [Lt|_]; [lia|].
    destruct (build_shards_total md5 s) as (sh & EB & Esh).
    { cbn [s s_data s_size]. apply Forall_forall. intros o Hin d ->. unfold erase in Hin.
      apply in_map_iff in Hin. destruct Hin as ([k x] & E & Hin). cbn [fst snd] in E.
      destruct k; [|discriminate E]. injection E as ->. apply in_combine_r in Hin.
      rewrite Forall_forall in Hge. exact (Hge d Hin). }
    rewrite EB in HR.
    assert (Esh' : sh = erase (keep ++ repeat true np) (D ++ vs)).
    { rewrite Esh. cbn [s s_data s_size s_parity].
      rewrite (map_erase_opt (fun d : bytes => d ++ zeros (size - length d)) keep sd).
      change (map (fun d : bytes => d ++ zeros (size - length d)) sd) with D.
      rewrite <- (erase_all_true vs), LP. symmetry. apply erase_app. rewrite HDl. exact Hkl. }
    assert (Hmiss : (length (filter negb keep) <= np)%nat).
    { unfold keep. clear - Hlost. unfold lost in Hlost. revert Hlost. generalize np.
      induction sfiles as [|f l IH]; intros n Hl; cbn [map filter length] in *; [lia|].
      destruct (kept f); cbn [negb length] in *; [apply IH; exact Hl|].
      destruct n as [|n]; [lia|]. specialize (IH n ltac:(lia)). lia. }
    assert (S : par1_reconstruct nd np sh = Ok (D ++ vs)).
    { rewrite Esh'. apply (par1_reconstruct_parity_kept nd np D size keep Hnd ltac:(unfold np; lia) Hcap
                             HwfD ltac:(lia) Hkl Hmiss). }
    rewrite S in HR.
    assert (Edbl : (if dbl then match rs_verify nd np (map Some (D ++ vs)) with Ok b => Ok b | Err x => Err x | Panic q => Panic q end
                    else Ok true) = Ok true).
    { destruct dbl; [|reflexivity]. unfold vs. rewrite (rs_verify_consistent nd np D size HDne HDl HD Hsz). reflexivity. }
    rewrite Edbl in HR. rewrite (firstn_app_len D vs nd HDl) in HR.
    change (s_saved s) with (map entry_for sfiles) in HR.
    change (s_data s) with (erase (map kept sfiles) sd) in HR.
    destruct (write_repaired_conformant ix size kept sfiles [] st1 Hs1) as (st'' & EW & Hfs3).
    { apply Forall_forall. intros f Hf. pose proof Hf as Hf0. apply filter_In in Hf. destruct Hf as [Hfa Hfb].
      destruct (C4 f Hfa Hfb) as [Hb _]. split; [exact Hb|].
      rewrite Forall_forall in Hge. apply Hge. rewrite Esd. apply in_map. exact Hf0. }
    unfold D in HR. rewrite Esd in HR. rewrite EW in HR. injection HR as <- <- <-.
    split; [reflexivity|]. split; [reflexivity|]. rewrite Hfs3, Hf1. reflexivity.
  Qed.
End SpecSet.

Print Assumptions par1_verify_conformant_set.
Print Assumptions par1_repair_conformant_set.

(** * Non-vacuity: a hand-made conformant set (independent writer hm_build of Par1SpecFacts.Par1SpecExamples,
      stand-in digest toy_md5): comment "hi", three entries of which the middle one is NOT saved and has a
      surrogate-pair name and the last one has a further status bit set; two parity volumes computed by the
      specification's double sum.  The file system holds the set and the two saved files only. *)
From Gopar Require Import Proofs.Par2CreatePaths.
Module Par1SpecSetExample.
  Import Par1SpecExamples.

  Definition cs_files : list s1file :=
    [ {| sf_name := [120]; sf_data := hm_d1; sf_status := 1 |};
      {| sf_name := [240; 157; 132; 158; 46; 109]; sf_data := hm_d2; sf_status := 0 |};
      {| sf_name := [195; 169; 121]; sf_data := hm_d3; sf_status := 3 |} ].
  Definition cs_vol (v : nat) : bytes :=
    let p := s1_parity [hm_d1; hm_d3] v in
    hm_build (N.of_nat v) 3 96 hm_flb (96 + hm_flb) (N.of_nat (length p)) hm_sethash (hm_list ++ p).
  Definition cs_outs : list bytes := [hm_index; cs_vol 1; cs_vol 2].
  Definition cs_ix : list N := [97; 46; 112; 97; 114].                                            (* "a.par" *)
  Definition cs_fs : list (list N * bytes) :=
    [ (cs_ix, hm_index); ([97; 46; 112; 48; 49], cs_vol 1); ([97; 46; 112; 48; 50], cs_vol 2);
      ([120], hm_d1); ([195; 169; 121], hm_d3) ].

  Lemma cs_premises :
    str_eqb (ext cs_ix) EXT_PAR = true /\
    s1_set_valid toy_md5 cs_files hm_comment 2 cs_outs = true /\
    forallb (s1_contiguous toy_md5) cs_outs = true /\
    Forall (fun o : bytes => N.of_nat (length o) < 2^64) cs_outs /\
    Forall (fun f => sf_name f <> []) cs_files /\
    Forall wf_bytes (s1_saved_datas cs_files) /\ max_len (s1_saved_datas cs_files) <> 0%nat /\
    (1 <= 2 <= maxvol cs_files)%nat /\
    fs_lookup cs_fs cs_ix = Some (nth 0 cs_outs []) /\
    (forall k, (1 <= k <= 2)%nat -> fs_lookup cs_fs (volume_path cs_ix (N.of_nat k)) = Some (nth k cs_outs [])) /\
    (forall k, (2 < k <= maxvol cs_files)%nat -> read_res cs_fs (volume_path cs_ix (N.of_nat k)) = Err ENotExist) /\
    (forall f, In f cs_files -> sf_saved f = true ->
       base (sf_name f) = sf_name f /\ fs_lookup cs_fs (join2 (dir cs_ix) (sf_name f)) = Some (sf_data f)).
  Proof.
    assert (Emax : maxvol cs_files = 99%nat) by (vm_compute; reflexivity).
    split; [vm_compute; reflexivity|]. split; [vm_compute; reflexivity|]. split; [vm_compute; reflexivity|].
    split; [repeat constructor|]. split; [repeat constructor; discriminate|].
    split; [vm_compute; repeat constructor|]. split; [vm_compute; discriminate|].
    split; [rewrite Emax; lia|]. split; [vm_compute; reflexivity|].
    split; [|split].
    - intros k Hk. assert (E : k = 1%nat \/ k = 2%nat) by lia. destruct E as [-> | ->]; vm_compute; reflexivity.
    - rewrite Emax. intros k Hk.
      assert (G : forallb (fun j => match read_res cs_fs (volume_path cs_ix (N.of_nat j)) with
                                    | Err ENotExist => true | _ => false end) (seq 3 97) = true)
        by (vm_compute; reflexivity).
      rewrite forallb_forall in G. specialize (G k ltac:(apply in_seq; lia)).
      destruct (read_res cs_fs (volume_path cs_ix (N.of_nat k))) as [d|[]|q]; try discriminate G. reflexivity.
    - intros f [<-|[<-|[<-|[]]]] Hs; try discriminate Hs; split; vm_compute; reflexivity.
  Qed.

  Example par1_verify_conformant_set_example : forall all,
    (exists c st, par1_verify toy_md5 cs_ix all (io_init cs_fs []) = (Ok (c, all), st) /\
       fc_unusable c = 0%nat /\ fc_punusable c = 0%nat /\ fc_usable c = 2%nat /\ fc_pusable c = 2%nat) /\
    (forall dbl r rp st', par1_repair toy_md5 cs_ix dbl (io_init cs_fs []) = ((r, rp), st') -> rp = [] /\ io_fs st' = cs_fs).
  Proof.
    intros all. destruct cs_premises as (P1 & P2 & P3 & P4 & P5 & P6 & P7 & P8 & P9 & P10 & P11 & P12).
    exact (par1_verify_conformant_set toy_md5 toy_len cs_ix cs_files hm_comment 2 cs_outs cs_fs all
             P1 P2 P3 P4 P5 P6 P7 P8 P9 P10 P11 P12).
  Qed.

  (* the same by evaluating the model; and with the saved file "x" deleted Repair restores it from the
     conformant volumes (the non-saved entry's file is absent throughout) *)
  Example cs_computed :
    fst (par1_verify toy_md5 cs_ix true (io_init cs_fs [])) =
      Ok ({| fc_usable := 2; fc_unusable := 0; fc_pusable := 2; fc_punusable := 0 |}, true) /\
    (let fs' := filter (fun kv : list N * bytes => negb (str_eqb (fst kv) [120])) cs_fs in
     fs_lookup fs' [120] = None /\
     let r := par1_repair toy_md5 cs_ix true (io_init fs' []) in
     fst r = (Ok tt, [[120]]) /\ fs_lookup (io_fs (snd r)) [120] = Some hm_d1).
  Proof. vm_compute. repeat split; reflexivity. Qed.

  (* Repair with the saved file "x" missing (the non-saved entry's file is absent throughout) *)
  Definition cs_kept (f : s1file) : bool := negb (str_eqb (sf_name f) [120]).
  Definition cs_fs_lost : list (list N * bytes) :=
    filter (fun kv : list N * bytes => negb (str_eqb (fst kv) [120])) cs_fs.

  Example par1_repair_conformant_set_example : forall dbl r rp st',
    par1_repair toy_md5 cs_ix dbl (io_init cs_fs_lost []) = ((r, rp), st') ->
    r = Ok tt /\ rp = [[120]] /\ io_fs st' = apply_writes [([120], hm_d1)] cs_fs_lost /\
    fs_lookup (io_fs st') [120] = Some hm_d1.
  Proof.
    intros dbl r rp st' HR.
    assert (Emax : maxvol cs_files = 99%nat) by (vm_compute; reflexivity).
    destruct cs_premises as (P1 & P2 & P3 & P4 & P5 & P6 & P7 & P8 & _ & _ & _ & _).
    destruct (par1_repair_conformant_set toy_md5 toy_len cs_ix cs_files hm_comment 2 cs_outs cs_fs_lost cs_kept dbl r rp st'
                P1 P2 P3 P4 P5 P6 P7 P8) as (R1 & R2 & R3); try exact HR.
    - vm_compute; reflexivity.
    - intros k Hk. assert (E : k = 1%nat \/ k = 2%nat) by lia. destruct E as [-> | ->]; vm_compute; reflexivity.
    - rewrite Emax. intros k Hk.
      assert (G : forallb (fun j => match read_res cs_fs_lost (volume_path cs_ix (N.of_nat j)) with
                                    | Err ENotExist => true | _ => false end) (seq 3 97) = true)
        by (vm_compute; reflexivity).
      rewrite forallb_forall in G. specialize (G k ltac:(apply in_seq; lia)).
      destruct (read_res cs_fs_lost (volume_path cs_ix (N.of_nat k))) as [d|[]|q]; try discriminate G. reflexivity.
    - intros f [<-|[<-|[<-|[]]]] Hs; try discriminate Hs; split; vm_compute; reflexivity.
    - vm_compute. lia.
    - split; [exact R1|]. split; [rewrite R2; vm_compute; reflexivity|].
      split; [rewrite R3; reflexivity|]. rewrite R3. vm_compute. reflexivity.
  Qed.
End Par1SpecSetExample.

Print Assumptions Par1SpecSetExample.par1_verify_conformant_set_example.
Print Assumptions Par1SpecSetExample.par1_repair_conformant_set_example.

(** * ONLY THE SAVED ENTRIES COUNT AGAINST THE LIMIT OF 256.  A hand-made conformant set (the independent writer hm_build, over a linear-time stand-in digest) whose file
      list has 256 entries: two saved files ("x", "y") and, between them, 254 entries that are NOT saved in the parity
      set (name "z", no data); one parity volume.  It satisfies the premises of par1_verify_conformant_set: the
      loader looks at volumes 1 .. min (256 - 2) 99.  (Counting all 256 entries, as the loader did before the fix,
      Verify and Repair failed with "too many files".) *)
Module Par1SpecManyUnsaved.
  Import Par1SpecExamples.

  (* a stand-in digest that is linear in the input (toy_md5 recomputes the length per byte; the files here are 15 KB):
     the length and the first 16 bytes *)
  Definition mu_md5 (b : bytes) : bytes :=
    let n := N.of_nat (length b) in firstn 16 (map (fun x => (x * 7 + n) mod 256) (firstn 16 b) ++ zeros 16).
  Lemma mu_len x : length (mu_md5 x) = 16%nat.
  Proof.
    unfold mu_md5. cbv zeta. rewrite firstn_length, app_length. unfold zeros. rewrite repeat_length. lia.
  Qed.
  (* the independent writer of Par1SpecExamples (hm_build, hm_entry) over that digest *)
  Definition mu_build (number count flo flb dof db : N) (sethash body : bytes) : bytes :=
    let tail := sethash ++ le_encode 8 number ++ le_encode 8 count ++ le_encode 8 flo ++ le_encode 8 flb
                ++ le_encode 8 dof ++ le_encode 8 db ++ body in
    [80; 65; 82; 0; 0; 0; 0; 0] ++ le_encode 4 0x00010000 ++ le_encode 4 0xBEEF ++ mu_md5 tail ++ tail.
  Definition mu_entry (status : N) (data name16 : bytes) : bytes :=
    le_encode 8 (56 + N.of_nat (length name16)) ++ le_encode 8 status ++ le_encode 8 (N.of_nat (length data))
      ++ mu_md5 data ++ mu_md5 (firstn (N.to_nat 16384) data) ++ name16.

  Definition mu_n : nat := 254.
  Definition mu_d1 : bytes := [1; 2; 3].
  Definition mu_d2 : bytes := [4].
  Definition mu_unsaved : s1file := {| sf_name := [122]; sf_data := []; sf_status := 0 |}.
  Definition mu_files : list s1file :=
    {| sf_name := [120]; sf_data := mu_d1; sf_status := 1 |} :: repeat mu_unsaved mu_n
      ++ [{| sf_name := [121]; sf_data := mu_d2; sf_status := 1 |}].
  Definition mu_list : bytes :=
    mu_entry 1 mu_d1 [120; 0] ++ concat (repeat (mu_entry 0 [] [122; 0]) mu_n) ++ mu_entry 1 mu_d2 [121; 0].
  Definition mu_sethash : bytes := mu_md5 (mu_md5 mu_d1 ++ mu_md5 mu_d2).
  Definition mu_flb : N := N.of_nat (length mu_list).
  Definition mu_count : N := N.of_nat (S (S mu_n)).
  Definition mu_index : bytes := mu_build 0 mu_count 96 mu_flb (96 + mu_flb) 0 mu_sethash mu_list.
  Definition mu_vol (v : nat) : bytes :=
    let p := s1_parity [mu_d1; mu_d2] v in
    mu_build (N.of_nat v) mu_count 96 mu_flb (96 + mu_flb) (N.of_nat (length p)) mu_sethash (mu_list ++ p).
  Definition mu_outs : list bytes := [mu_index; mu_vol 1].
  Definition mu_ix : list N := [97; 46; 112; 97; 114].                                            (* "a.par" *)
  Definition mu_fs : list (list N * bytes) :=
    [ (mu_ix, mu_index); ([97; 46; 112; 48; 49], mu_vol 1); ([120], mu_d1); ([121], mu_d2) ].

  Example mu_counts :
    length mu_files = 256%nat /\ length (filter sf_saved mu_files) = 2%nat /\ maxvol mu_files = 99%nat.
  Proof. vm_compute. repeat split; reflexivity. Qed.

  Lemma mu_premises :
    str_eqb (ext mu_ix) EXT_PAR = true /\
    s1_set_valid mu_md5 mu_files [] 1 mu_outs = true /\
    forallb (s1_contiguous mu_md5) mu_outs = true /\
    Forall (fun o : bytes => N.of_nat (length o) < 2^64) mu_outs /\
    Forall (fun f => sf_name f <> []) mu_files /\
    Forall wf_bytes (s1_saved_datas mu_files) /\ max_len (s1_saved_datas mu_files) <> 0%nat /\
    (1 <= 1 <= maxvol mu_files)%nat /\
    fs_lookup mu_fs mu_ix = Some (nth 0 mu_outs []) /\
    (forall k, (1 <= k <= 1)%nat -> fs_lookup mu_fs (volume_path mu_ix (N.of_nat k)) = Some (nth k mu_outs [])) /\
    (forall k, (1 < k <= maxvol mu_files)%nat -> read_res mu_fs (volume_path mu_ix (N.of_nat k)) = Err ENotExist) /\
    (forall f, In f mu_files -> sf_saved f = true ->
       base (sf_name f) = sf_name f /\ fs_lookup mu_fs (join2 (dir mu_ix) (sf_name f)) = Some (sf_data f)).
  Proof.
    assert (Emax : maxvol mu_files = 99%nat) by (vm_compute; reflexivity).
    split; [vm_compute; reflexivity|]. split; [vm_compute; reflexivity|]. split; [vm_compute; reflexivity|].
    split; [repeat (constructor; [vm_compute; reflexivity|]); constructor|].
    split.
    { apply Forall_forall. intros f Hf. unfold mu_files in Hf. cbn [In] in Hf.
      destruct Hf as [<-|Hf]; [discriminate|]. apply in_app_or in Hf.
      destruct Hf as [Hf|[<-|[]]]; [apply repeat_spec in Hf; subst f|]; discriminate. }
    split; [vm_compute; repeat constructor|]. split; [vm_compute; discriminate|].
    split; [rewrite Emax; lia|]. split; [vm_compute; reflexivity|].
    split; [|split].
    - intros k Hk. assert (E : k = 1%nat) by lia. subst k. vm_compute. reflexivity.
    - rewrite Emax. intros k Hk.
      assert (G : forallb (fun j => match read_res mu_fs (volume_path mu_ix (N.of_nat j)) with
                                    | Err ENotExist => true | _ => false end) (seq 2 98) = true)
        by (vm_compute; reflexivity).
      rewrite forallb_forall in G. specialize (G k ltac:(apply in_seq; lia)).
      destruct (read_res mu_fs (volume_path mu_ix (N.of_nat k))) as [d|[]|q]; try discriminate G. reflexivity.
    - intros f Hf Hs. unfold mu_files in Hf. cbn [In] in Hf.
      destruct Hf as [<-|Hf]; [split; vm_compute; reflexivity|]. apply in_app_or in Hf.
      destruct Hf as [Hf|[<-|[]]]; [apply repeat_spec in Hf; subst f; discriminate Hs|split; vm_compute; reflexivity].
  Qed.

  Example par1_verify_many_unsaved_entries : forall all,
    (exists c st, par1_verify mu_md5 mu_ix all (io_init mu_fs []) = (Ok (c, all), st) /\
       fc_unusable c = 0%nat /\ fc_punusable c = 0%nat /\ fc_usable c = 2%nat /\ fc_pusable c = 1%nat) /\
    (forall dbl r rp st', par1_repair mu_md5 mu_ix dbl (io_init mu_fs []) = ((r, rp), st') -> rp = [] /\ io_fs st' = mu_fs).
  Proof.
    intros all. destruct mu_premises as (P1 & P2 & P3 & P4 & P5 & P6 & P7 & P8 & P9 & P10 & P11 & P12).
    exact (par1_verify_conformant_set mu_md5 mu_len mu_ix mu_files [] 1 mu_outs mu_fs all
             P1 P2 P3 P4 P5 P6 P7 P8 P9 P10 P11 P12).
  Qed.

  Example many_unsaved_entries_example : forall all,
    (length mu_files = 256%nat /\ length (filter sf_saved mu_files) = 2%nat) /\
    (exists c st, par1_verify mu_md5 mu_ix all (io_init mu_fs []) = (Ok (c, all), st) /\
       fc_unusable c = 0%nat /\ fc_punusable c = 0%nat /\ fc_usable c = 2%nat /\ fc_pusable c = 1%nat) /\
    (forall dbl r rp st', par1_repair mu_md5 mu_ix dbl (io_init mu_fs []) = ((r, rp), st') -> rp = [] /\ io_fs st' = mu_fs).
  Proof.
    intros all. destruct mu_counts as (C1 & C2 & _). split; [split; assumption|].
    exact (par1_verify_many_unsaved_entries all).
  Qed.

  (* the same by evaluating the model; and with the saved file "x" deleted Repair restores it *)
  Example mu_computed :
    fst (par1_verify mu_md5 mu_ix true (io_init mu_fs [])) =
      Ok ({| fc_usable := 2; fc_unusable := 0; fc_pusable := 1; fc_punusable := 0 |}, true) /\
    (let fs' := filter (fun kv : list N * bytes => negb (str_eqb (fst kv) [120])) mu_fs in
     fs_lookup fs' [120] = None /\
     let r := par1_repair mu_md5 mu_ix true (io_init fs' []) in
     fst r = (Ok tt, [[120]]) /\ fs_lookup (io_fs (snd r)) [120] = Some mu_d1).
  Proof. vm_compute. repeat split; reflexivity. Qed.
End Par1SpecManyUnsaved.

Print Assumptions Par1SpecManyUnsaved.par1_verify_many_unsaved_entries.
Print Assumptions Par1SpecManyUnsaved.mu_computed.
