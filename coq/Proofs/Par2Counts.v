(* The slice scan connected to Verify's counts (C16 / C01 / C13).

   CN1  load_all_credits_present_slice : a registered slice that occurs, unshadowed, anywhere in a
        surviving protected file is counted usable (its slot of the shard table is Some).
   CN2  unusable_bounded_by_absent     : hence the number of unusable slices is at most the number of
        slots without such an occurrence.
   CN3  usable_slices_genuine          : every slot counted usable holds slice-sized byte data whose
        (MD5, CRC-32) is the registered pair of that slot (hence, under the local collision premise,
        the original slice: usable_slices_original).

   The scan facts come from Proofs/ScanFacts.v (scan_found, scan_eq_spec), the shard-table algebra
   from Proofs/Par2Clean.v, the data invariant from Proofs/Par2RepairComplete.v / Par2EndToEnd.v. *)
From Coq Require Import Lia.
From Gopar Require Import Model.Base Model.CRC Model.GoPath Model.FS Model.Par2
     Proofs.CRCFacts Proofs.ScanFacts Proofs.Par2Facts Proofs.Par2Verify Proofs.Par2Faults
     Proofs.Par2Clean Proofs.Par2RepairComplete Proofs.Par2EndToEnd.
Open Scope nat_scope.
Set Default Timeout 120.

(** * list helpers: the positions of the None entries of a nested list *)

Lemma NoDup_app_disj {A} : forall l1 l2 : list A,
  NoDup l1 -> NoDup l2 -> (forall x, In x l1 -> ~ In x l2) -> NoDup (l1 ++ l2).
Proof.
  induction l1 as [|a l1 IH]; intros l2 H1 H2 Hd; cbn [app]; [exact H2|].
  apply NoDup_cons_iff in H1. destruct H1 as [Ha H1].
  apply NoDup_cons_iff. split.
  - intros Hin. apply in_app_or in Hin. destruct Hin as [Hin|Hin]; [exact (Ha Hin)|].
    apply (Hd a); [left; reflexivity|exact Hin].
  - apply IH; [exact H1|exact H2|]. intros x Hx. apply Hd. right. exact Hx.
Qed.

(* the indices (shifted by b) of the None entries of a row *)
Fixpoint none_idx {A} (l : list (option A)) (b : nat) : list nat :=
  match l with
  | [] => []
  | None :: r => b :: none_idx r (S b)
  | Some _ :: r => none_idx r (S b)
  end.

Lemma none_idx_length {A} : forall (l : list (option A)) b, length (none_idx l b) = count_nones l.
Proof.
  unfold count_nones. induction l as [|[x|] l IH]; intros b; cbn [none_idx filter length].
  - reflexivity.
  - apply IH.
  - f_equal. apply IH.
Qed.

Lemma none_idx_in {A} : forall (l : list (option A)) b x, In x (none_idx l b) ->
  b <= x /\ x - b < length l /\ nth (x - b) l None = None.
Proof.
  induction l as [|[y|] l IH]; intros b x Hin; cbn [none_idx] in Hin.
  - destruct Hin.
  - destruct (IH _ _ Hin) as (H1 & H2 & H3). cbn [length].
    replace (x - b) with (S (x - S b)) by lia. cbn [nth]. split; [lia|]. split; [lia|exact H3].
  - destruct Hin as [<-|Hin].
    + rewrite Nat.sub_diag. cbn [length nth]. split; [lia|]. split; [lia|reflexivity].
    + destruct (IH _ _ Hin) as (H1 & H2 & H3). cbn [length].
      replace (x - b) with (S (x - S b)) by lia. cbn [nth]. split; [lia|]. split; [lia|exact H3].
Qed.

Lemma none_idx_nodup {A} : forall (l : list (option A)) b, NoDup (none_idx l b).
Proof.
  induction l as [|[y|] l IH]; intros b; cbn [none_idx].
  - constructor.
  - apply IH.
  - constructor; [|apply IH]. intros Hin. apply none_idx_in in Hin. lia.
Qed.

(* the slots (row index shifted by a, column index) holding None *)
Fixpoint none_slots {A} (rows : list (list (option A))) (a : nat) : list (nat * nat) :=
  match rows with
  | [] => []
  | r :: rs => map (pair a) (none_idx r 0) ++ none_slots rs (S a)
  end.

Lemma none_slots_length {A} : forall (rows : list (list (option A))) a,
  length (none_slots rows a) = count_nones (concat rows).
Proof.
  induction rows as [|r rows IH]; intros a; cbn [none_slots concat]; [reflexivity|].
  rewrite app_length, map_length, none_idx_length, count_nones_app, IH. reflexivity.
Qed.

Lemma none_slots_in {A} : forall (rows : list (list (option A))) a i k, In (i, k) (none_slots rows a) ->
  a <= i /\ i - a < length rows /\ k < length (nth (i - a) rows []) /\ nth k (nth (i - a) rows []) None = None.
Proof.
  induction rows as [|r rows IH]; intros a i k Hin; cbn [none_slots] in Hin; [destruct Hin|].
  apply in_app_or in Hin. destruct Hin as [Hin|Hin].
  - apply in_map_iff in Hin. destruct Hin as (x & Heq & Hx). injection Heq as <- <-.
    apply none_idx_in in Hx. rewrite Nat.sub_0_r in Hx. destruct Hx as (_ & H2 & H3).
    rewrite Nat.sub_diag. cbn [length nth]. split; [lia|]. split; [lia|]. split; [exact H2|exact H3].
  - destruct (IH _ _ _ Hin) as (H1 & H2 & H3 & H4). cbn [length].
    replace (i - a) with (S (i - S a)) by lia. cbn [nth].
    split; [lia|]. split; [lia|]. split; [exact H3|exact H4].
Qed.

Lemma none_slots_nodup {A} : forall (rows : list (list (option A))) a, NoDup (none_slots rows a).
Proof.
  induction rows as [|r rows IH]; intros a; cbn [none_slots]; [constructor|].
  apply NoDup_app_disj.
  - apply FinFun.Injective_map_NoDup; [|apply none_idx_nodup].
    intros x y E. injection E as E. exact E.
  - apply IH.
  - intros [i k] H1 H2. apply in_map_iff in H1. destruct H1 as (x & Heq & _). injection Heq as <- _.
    apply none_slots_in in H2. lia.
Qed.

(* a duplicate-free list that contains every None slot is at least as long as the number of None slots *)
Lemma count_nones_slots_bound {A} (rows : list (list (option A))) (L : list (nat * nat)) :
  (forall i k, i < length rows -> k < length (nth i rows []) -> nth k (nth i rows []) None = None -> In (i, k) L) ->
  count_nones (concat rows) <= length L.
Proof.
  intros HL. rewrite <- (none_slots_length rows 0).
  apply NoDup_incl_length; [apply none_slots_nodup|].
  intros [i k] Hin. apply none_slots_in in Hin. rewrite Nat.sub_0_r in Hin.
  destruct Hin as (_ & H2 & H3 & H4). apply HL; assumption.
Qed.

Section Par2Counts.
  Variable md5 : bytes -> bytes.

  (** * the registered pairs, explicitly *)

  (* (h, c) is the k-th checksum pair of the i-th entry of the recovery set *)
  Definition pair_at (infos : list dinfo) (i k : nat) (hc : bytes * N) : Prop :=
    nth_error (di_pairs (nth i infos dinfo0)) k = Some hc.

  Lemma pair_at_bounds infos i k hc : pair_at infos i k hc -> i < length infos /\ k < length (di_pairs (nth i infos dinfo0)).
  Proof.
    unfold pair_at. intros H.
    assert (Hk : k < length (di_pairs (nth i infos dinfo0))) by (apply nth_error_Some; rewrite H; discriminate).
    split; [|exact Hk].
    destruct (lt_dec i (length infos)) as [Hi|Hi]; [exact Hi|].
    rewrite nth_overflow in Hk by lia. cbn [dinfo0 di_pairs length] in Hk. lia.
  Qed.

  (* the windows the checksum table answers for are exactly those carrying a registered pair *)
  Lemma matches_registered_iff (infos : list dinfo) (win : bytes) :
    matches md5 (make_cstable infos) win <-> exists i k, pair_at infos i k (md5 win, crc32 win).
  Proof.
    unfold matches. split.
    - intros Hm. unfold cs_get in Hm.
      destruct (crc_present (make_cstable infos) (crc32 win)); [|exfalso; apply Hm; reflexivity].
      destruct (cs_lookup_key (make_cstable infos) (crc32 win) (md5 win)) as [|l ls] eqn:E;
        [exfalso; apply Hm; reflexivity|].
      assert (Hin : In l (cs_lookup_key (make_cstable infos) (crc32 win) (md5 win))) by (rewrite E; left; reflexivity).
      apply make_cstable_sound in Hin. destruct Hin as (i & info & k & p & Hi & Hk & Hc & Hh & _).
      destruct (in_combine_seq_inv dinfo0 _ _ _ _ Hi) as (i' & Ei & Hi' & Hn). cbn [Nat.add] in Ei. subst i'.
      destruct (in_combine_seq_inv ([], 0%N) _ _ _ _ Hk) as (k' & Ek & Hk' & Hp). cbn [Nat.add] in Ek. subst k'.
      exists i, k. unfold pair_at. rewrite Hn. destruct p as [ph pc]. cbn [fst snd] in Hc, Hh. subst ph pc.
      rewrite <- Hp. apply nth_error_nth'. exact Hk'.
    - intros (i & k & Hp). destruct (pair_at_bounds _ _ _ _ Hp) as [Hi Hk]. unfold pair_at in Hp.
      pose proof (in_combine_seq_nth dinfo0 infos 0 i Hi) as Hin. cbn [Nat.add] in Hin.
      pose proof (in_combine_seq_nth (md5 win, crc32 win) (di_pairs (nth i infos dinfo0)) 0 k Hk) as Hkp.
      cbn [Nat.add] in Hkp. rewrite (nth_error_nth _ _ _ Hp) in Hkp.
      pose proof (make_cstable_registered infos i _ k _ Hin Hkp) as R. cbn [fst snd] in R.
      apply registered_get in R. intros E. rewrite E in R. destruct R.
  Qed.

  (** * CN1: the loading invariant *)

  (* a window of a file still to be read that carries a location (i, k) and is not shadowed
     ends up among the places slot (i, k) was seen at *)
  Lemma load_files_present d w t sz :
    sz = N.to_nat (d_slice d) -> 4 <= sz -> win_new (Z.of_nat sz) = Ok w ->
    forall todo fis st fis' st',
      io_sched st = [] ->
      load_files md5 d w t todo fis st = (Ok fis', st') ->
      (forall i k l, PS (shs fis) i k l -> PS (shs fis') i k l) /\
      (forall j info data p i k,
         In (j, info) todo ->
         fs_lookup (io_fs st) (file_path (d_index d) (di_name info)) = Some data -> wf_bytes data ->
         p < length data ->
         In (i, k) (cs_get md5 t (crc32 (window_at sz data p)) (window_at sz data p)) ->
         (forall q, q < p -> p < q + sz -> ~ matches md5 t (window_at sz data q)) ->
         i < length (shs fis) -> k < nth i (lens (shs fis)) 0 ->
         PS (shs fis') i k (j, p)).
  Proof.
    intros Esz Hsz Hw.
    induction todo as [|[i0 info0] r IH]; intros fis st fis' st' Hs H; cbn [load_files] in H.
    - injection H as <- _. split; [intros i k l Hp; exact Hp|intros j info data p i k []].
    - pose proof (io_read_pres (file_path (d_index d) (di_name info0)) st) as Pr.
      destruct (io_read (file_path (d_index d) (di_name info0)) st) as [[data0|e|q] st1] eqn:ER;
        cbn [snd] in Pr; destruct Pr as (Pf & Ps & _).
      + assert (Hs1 : io_sched st1 = []) by congruence.
        cbv beta iota zeta in H. rewrite <- Esz in H.
        set (hits := fst (scan md5 sz w t data0)) in *.
        apply IH in H; [|exact Hs1]. destruct H as (A & B).
        rewrite shs_set_flags, shs_credits in A, B.
        split.
        * intros i k l Hp. apply A. apply PS_credits_mono. exact Hp.
        * intros j info data p i k [Heq|Hin] Hlk Hwf Hp Hloc Hsh Hi Hk.
          -- injection Heq as <- <-.
             apply io_read_ok_lookup in ER; [|exact Hs].
             assert (Ed : data0 = data) by congruence. subst data0.
             apply A.
             set (h := {| h_pos := p;
                          h_locs := cs_get md5 t (crc32 (window_at sz data p)) (window_at sz data p);
                          h_data := window_at sz data p |}).
             change (i0, p) with (i0, h_pos h).
             apply PS_credits_est with (h := h); [exact Hi|exact Hk| |exact Hloc].
             unfold hits. rewrite (scan_eq_spec md5 sz w t data Hsz Hw Hwf).
             apply scan_found; [lia|exact Hp| |exact Hsh].
             unfold matches. intros E. rewrite E in Hloc. destruct Hloc.
          -- apply (B j info data p i k Hin); try assumption.
             ++ rewrite Pf. exact Hlk.
             ++ rewrite (lens_length (shs fis) _) by apply lens_credits. exact Hi.
             ++ rewrite lens_credits. exact Hk.
      + destruct e; try discriminate H.
        assert (Hs1 : io_sched st1 = []) by congruence.
        apply IH in H; [|exact Hs1]. destruct H as (A & B).
        rewrite shs_set_flags in A, B.
        split; [exact A|].
        intros j info data p i k [Heq|Hin] Hlk Hwf Hp Hloc Hsh Hi Hk.
        * exfalso. injection Heq as <- <-.
          unfold io_read in ER. rewrite Hs in ER. cbn [sched_lookup] in ER. rewrite Hlk in ER. discriminate ER.
        * apply (B j info data p i k Hin); try assumption. rewrite Pf. exact Hlk.
      + discriminate H.
  Qed.

  (* an unshadowed occurrence, in the surviving protected file j, of the k-th slice of file i *)
  Definition occurs_unshadowed (ix : list N) (fs : list (list N * bytes)) (ds : dstate) (i k : nat) : Prop :=
    let infos := d_rec (ds_dec ds) in
    let S := N.to_nat (d_slice (ds_dec ds)) in
    exists j data p,
      j < length infos /\
      fs_lookup fs (file_path ix (di_name (nth j infos dinfo0))) = Some data /\ wf_bytes data /\
      p < length data /\
      pair_at infos i k (md5 (window_at S data p), crc32 (window_at S data p)) /\
      (forall q, q < p -> p < q + S -> ~ matches md5 (ds_tbl ds) (window_at S data q)).

  (* CN1 with the place of the occurrence recorded *)
  Theorem load_all_credits_present_slice_loc : forall ix fs ds st1,
    load_all md5 ix (io_init fs []) = (Ok ds, st1) ->
    NoDup (map di_id (d_rec (ds_dec ds))) ->
    let infos := d_rec (ds_dec ds) in
    let S := N.to_nat (d_slice (ds_dec ds)) in
    forall i k j data p,
      (* some protected file j is present with byte-valued content *)
      j < length infos ->
      fs_lookup fs (file_path ix (di_name (nth j infos dinfo0))) = Some data -> wf_bytes data ->
      (* its window at offset p (zero padding only past the end of the file) has the k-th pair of file i *)
      p < length data ->
      pair_at infos i k (md5 (window_at S data p), crc32 (window_at S data p)) ->
      (* and no window starting in (p - S, p) matches a registered pair *)
      (forall q, q < p -> p < q + S -> ~ matches md5 (ds_tbl ds) (window_at S data q)) ->
      exists s, nth k (fi_shards (nth i (ds_fis ds) dfi)) None = Some s /\ In (j, p) (si_locs s).
  Proof.
    intros ix fs ds st1 HL Hnd infos sz i k j data p Hj Hlk Hwf Hp Hpair Hsh.
    destruct (load_all_shape md5 _ _ _ _ HL) as (H4 & _ & _ & Hshape & _ & _).
    destruct (load_all_inv md5 _ _ _ _ HL) as (d & s1 & w & fis & s2 & acc & Hdec & Hw & Hlf & ->).
    cbn [ds_dec ds_fis ds_tbl] in *.
    destruct (new_decoder_ok md5 _ _ _ _ Hdec) as [Hix _].
    pose proof (new_decoder_pres md5 ix (io_init fs [])) as Pr. rewrite Hdec in Pr. cbn [snd] in Pr.
    destruct Pr as (Pf & Ps & _). cbn [io_init io_fs io_sched] in Pf, Ps.
    assert (Hsz : 4 <= sz) by (unfold sz; lia).
    assert (Hw' : win_new (Z.of_nat sz) = Ok w) by (unfold sz; rewrite N_nat_Z; exact Hw).
    destruct (pair_at_bounds _ _ _ _ Hpair) as [Hi Hk]. fold infos in Hi, Hk.
    assert (Hsh0 : map shlen (fis0 d) = map (fun info => length (di_pairs info)) infos).
    { unfold fis0. rewrite map_map. apply map_ext. intros info. unfold shlen. cbn [fi_shards]. apply map_length. }
    pose proof (in_combine_seq_nth dinfo0 infos 0 i Hi) as Hini. cbn [Nat.add] in Hini.
    pose proof (in_combine_seq_nth dinfo0 infos 0 j Hj) as Hinj. cbn [Nat.add] in Hinj.
    destruct (bounds_of infos (fis0 d) i _ Hsh0 Hini) as [Bi Bk].
    (* the location (i, k) is registered for the window *)
    assert (Hloc : In (i, k) (cs_get md5 (make_cstable infos) (crc32 (window_at sz data p)) (window_at sz data p))).
    { apply registered_get. unfold pair_at in Hpair.
      pose proof (in_combine_seq_nth (md5 (window_at sz data p), crc32 (window_at sz data p))
                    (di_pairs (nth i infos dinfo0)) 0 k Hk) as Hkp.
      cbn [Nat.add] in Hkp. rewrite (nth_error_nth _ _ _ Hpair) in Hkp.
      pose proof (make_cstable_registered infos i _ k _ Hini Hkp) as R. cbn [fst snd] in R.
      rewrite (last_index_nodup infos i _ Hnd Hini) in R. exact R. }
    destruct (load_files_present d w (make_cstable infos) sz eq_refl Hsz Hw' _ _ _ _ _ Ps Hlf) as (_ & B).
    destruct (B j (nth j infos dinfo0) data p i k Hinj) as (s & Es & Hl); try assumption.
    - rewrite Pf, Hix. exact Hlk.
    - unfold shs. rewrite map_length. exact Bi.
    - rewrite lens_shs_nth, Bk. exact Hk.
    - rewrite get2_shs in Es. exists s. split; [exact Es|exact Hl].
  Qed.

  (** * CN1 *)
  Theorem load_all_credits_present_slice : forall ix fs ds st1,
    load_all md5 ix (io_init fs []) = (Ok ds, st1) ->
    NoDup (map di_id (d_rec (ds_dec ds))) ->
    let infos := d_rec (ds_dec ds) in
    let S := N.to_nat (d_slice (ds_dec ds)) in
    forall i k j data p,
      j < length infos ->
      fs_lookup fs (file_path ix (di_name (nth j infos dinfo0))) = Some data -> wf_bytes data ->
      p < length data ->
      pair_at infos i k (md5 (window_at S data p), crc32 (window_at S data p)) ->
      (forall q, q < p -> p < q + S -> ~ matches md5 (ds_tbl ds) (window_at S data q)) ->
      nth k (fi_shards (nth i (ds_fis ds) dfi)) None <> None.
  Proof.
    intros ix fs ds st1 HL Hnd infos sz i k j data p Hj Hlk Hwf Hp Hpair Hsh.
    destruct (load_all_credits_present_slice_loc ix fs ds st1 HL Hnd i k j data p Hj Hlk Hwf Hp Hpair Hsh)
      as (s & Es & _).
    rewrite Es. discriminate.
  Qed.

  (* the same, with the occurrence packaged *)
  Corollary occurs_unshadowed_counted : forall ix fs ds st1,
    load_all md5 ix (io_init fs []) = (Ok ds, st1) ->
    NoDup (map di_id (d_rec (ds_dec ds))) ->
    forall i k, occurs_unshadowed ix fs ds i k ->
      nth k (fi_shards (nth i (ds_fis ds) dfi)) None <> None.
  Proof.
    intros ix fs ds st1 HL Hnd i k (j & data & p & Hj & Hlk & Hwf & Hp & Hpair & Hsh).
    exact (load_all_credits_present_slice ix fs ds st1 HL Hnd i k j data p Hj Hlk Hwf Hp Hpair Hsh).
  Qed.

  (* the table of the loaded state is the table of its recovery set: "matches" in the shadowing
     condition means "carries some registered pair" *)
  Lemma load_all_tbl ix st ds st1 : load_all md5 ix st = (Ok ds, st1) -> ds_tbl ds = make_cstable (d_rec (ds_dec ds)).
  Proof.
    intros HL. destruct (load_all_inv md5 _ _ _ _ HL) as (d & s1 & w & fis & s2 & acc & _ & _ & _ & ->).
    reflexivity.
  Qed.

  (** * CN2 *)
  Theorem unusable_bounded_by_absent : forall ix fs ds st1,
    load_all md5 ix (io_init fs []) = (Ok ds, st1) ->
    NoDup (map di_id (d_rec (ds_dec ds))) ->
    forall L : list (nat * nat),
      (* L contains every slot for which no unshadowed occurrence exists in a surviving protected file
         (L need not even be duplicate-free: duplicates only weaken the bound) *)
      (forall i k, i < length (d_rec (ds_dec ds)) -> k < length (di_pairs (nth i (d_rec (ds_dec ds)) dinfo0)) ->
         ~ occurs_unshadowed ix fs ds i k -> In (i, k) L) ->
      c_unusable (shard_counts ds) <= length L.
  Proof.
    intros ix fs ds st1 HL Hnd L HLin.
    destruct (load_all_shape md5 _ _ _ _ HL) as (_ & _ & _ & Hshape & _ & _).
    unfold shard_counts. cbn [c_unusable]. rewrite flat_map_concat_map. fold (shs (ds_fis ds)).
    apply count_nones_slots_bound.
    intros i k Hi Hk Hnone. unfold shs in Hi. rewrite map_length in Hi.
    change (nth i (shs (ds_fis ds)) []) with (nth i (map fi_shards (ds_fis ds)) (fi_shards dfi)) in Hk, Hnone.
    rewrite map_nth in Hk, Hnone.
    assert (Hlen : length (ds_fis ds) = length (d_rec (ds_dec ds))).
    { apply (f_equal (@length nat)) in Hshape. rewrite !map_length in Hshape. exact Hshape. }
    assert (Hrow : length (fi_shards (nth i (ds_fis ds) dfi)) = length (di_pairs (nth i (d_rec (ds_dec ds)) dinfo0))).
    { transitivity (nth i (map shlen (ds_fis ds)) 0); [symmetry; exact (map_nth shlen (ds_fis ds) dfi i)|].
      rewrite Hshape. exact (map_nth (fun info => length (di_pairs info)) (d_rec (ds_dec ds)) dinfo0 i). }
    apply HLin; [lia|lia|].
    intros Hocc. exact (occurs_unshadowed_counted ix fs ds st1 HL Hnd i k Hocc Hnone).
  Qed.

  (** * CN3 *)
  Theorem usable_slices_genuine : forall ix fs ds st1,
    load_all md5 ix (io_init fs []) = (Ok ds, st1) ->
    (* the content found at the protected paths is byte-valued *)
    (forall info dat, In info (d_rec (ds_dec ds)) ->
       fs_lookup fs (file_path ix (di_name info)) = Some dat -> wf_bytes dat) ->
    NoDup (map di_id (d_rec (ds_dec ds))) ->
    forall i k s, nth k (fi_shards (nth i (ds_fis ds) dfi)) None = Some s ->
      length (si_data s) = N.to_nat (d_slice (ds_dec ds)) /\ wf_bytes (si_data s) /\
      pair_at (d_rec (ds_dec ds)) i k (md5 (si_data s), crc32 (si_data s)).
  Proof.
    intros ix fs ds st1 HL Hwf Hnd i k s Hs.
    destruct (load_all_shape md5 _ _ _ _ HL) as (H4 & _ & _ & Hshape & _ & _).
    destruct (load_all_inv md5 _ _ _ _ HL) as (d & s1 & w & fis & s2 & acc & Hnew & Hw & Hlf & ->).
    cbn [ds_dec ds_fis] in *.
    destruct (new_decoder_ok md5 _ _ _ _ Hnew) as [Hdix _].
    pose proof (new_decoder_pres md5 ix (io_init fs [])) as P. rewrite Hnew in P. cbn [snd] in P.
    destruct P as (Pf & Ps & _). cbn [io_init io_fs io_sched] in Pf, Ps.
    assert (HD : DS (QT md5 (N.to_nat (d_slice d)) (make_cstable (d_rec d))) (shs fis)).
    { apply (load_files_DS_protected md5 d w (make_cstable (d_rec d)) (combine (seq 0 (length (d_rec d))) (d_rec d))
               (fis0 d) s1 fis s2 Ps); [|lia| | |exact Hlf].
      - intros i' info dat Hin. rewrite Pf, Hdix. apply Hwf. exact (in_combine_r _ _ _ _ Hin).
      - rewrite N_nat_Z. exact Hw.
      - intros i' k' s0 Hs0. rewrite fis0_none in Hs0. discriminate Hs0. }
    assert (Hget : get2 (shs fis) i k = Some s) by (rewrite get2_shs; exact Hs).
    destruct (HD i k s Hget) as (Hlen & Hwfs & Hin).
    split; [exact Hlen|]. split; [exact Hwfs|].
    unfold cs_get in Hin. destruct (crc_present (make_cstable (d_rec d)) (crc32 (si_data s))); [|destruct Hin].
    apply make_cstable_sound in Hin. destruct Hin as (i0 & info & k0 & p & Hi0 & Hk0 & Hc & Hh & Hl).
    rewrite (last_index_nodup (d_rec d) i0 info Hnd Hi0) in Hl. injection Hl as <- <-.
    destruct (in_combine_seq_inv dinfo0 _ _ _ _ Hi0) as (i' & Ei & Hi' & Hn). cbn [Nat.add] in Ei. subst i'.
    destruct (in_combine_seq_inv ([], 0%N) _ _ _ _ Hk0) as (k' & Ek & Hk' & Hp). cbn [Nat.add] in Ek. subst k'.
    unfold pair_at. rewrite Hn.
    destruct p as [ph pc]. cbn [fst snd] in Hc, Hh. subst ph pc.
    rewrite <- Hp. apply nth_error_nth'. exact Hk'.
  Qed.

  (* ... hence, under the local collision premise, a usable slice IS the original slice *)
  Corollary usable_slices_original : forall ix fs ds st1 (orig : nat -> nat -> bytes),
    load_all md5 ix (io_init fs []) = (Ok ds, st1) ->
    (forall info dat, In info (d_rec (ds_dec ds)) ->
       fs_lookup fs (file_path ix (di_name info)) = Some dat -> wf_bytes dat) ->
    NoDup (map di_id (d_rec (ds_dec ds))) ->
    (* LOCAL COLLISION-FREENESS: a slice-sized byte window with the registered pair of slot (i, k)
       is the original slice of that slot *)
    (forall i k wd, length wd = N.to_nat (d_slice (ds_dec ds)) -> wf_bytes wd ->
        pair_at (d_rec (ds_dec ds)) i k (md5 wd, crc32 wd) -> wd = orig i k) ->
    forall i k s, nth k (fi_shards (nth i (ds_fis ds) dfi)) None = Some s -> si_data s = orig i k.
  Proof.
    intros ix fs ds st1 orig HL Hwf Hnd HC i k s Hs.
    destruct (usable_slices_genuine ix fs ds st1 HL Hwf Hnd i k s Hs) as (Hl & Hw & Hp).
    apply HC; assumption.
  Qed.

  (* the number of slices counted usable is the number of Some slots: with CN3 each of them is genuine *)
  Lemma usable_is_some_slots (ds : dstate) :
    c_usable (shard_counts ds) = count_some (concat (shs (ds_fis ds))) /\
    c_unusable (shard_counts ds) = count_nones (concat (shs (ds_fis ds))).
  Proof. unfold shard_counts, shs. cbn [c_usable c_unusable]. rewrite flat_map_concat_map. split; reflexivity. Qed.
End Par2Counts.

Print Assumptions load_all_credits_present_slice_loc.
Print Assumptions load_all_credits_present_slice.
Print Assumptions unusable_bounded_by_absent.
Print Assumptions usable_slices_genuine.
Print Assumptions usable_slices_original.
Print Assumptions matches_registered_iff.

(** * Non-vacuity: a created set; the file "a" is deleted, and the file "b" is overwritten by
      content that holds the first slice of "a" at the unaligned offset 2 *)
From Coq Require Import String.
From Coq Require Import List.
From Gopar Require Import Proofs.Par2CreatePaths.   (* bs, toy_md5 *)
Open Scope nat_scope.

Module CNExample.
  Definition fs0 : list (list N * bytes) := [(bs "/w/a", [1; 2; 3; 4; 5]%N); (bs "/w/b", [6; 7; 8; 9]%N)].
  Definition ix := bs "/w/o.par2".
  Definition created := par2_create toy_md5 (bs "/w") ix [bs "a"; bs "b"] {| cp_slice := 4; cp_parity := 2 |} (io_init fs0 []).
  Definition data_b : bytes := [9; 9; 1; 2; 3; 4; 7]%N.
  Definition fs2 := fs_set (filter (fun e : list N * bytes => negb (str_eqb (fst e) (bs "/w/a"))) (io_fs (snd created)))
                           (bs "/w/b") data_b.
  Definition loaded : dstate :=
    match fst (load_all toy_md5 ix (io_init fs2 [])) with Ok ds => ds
    | _ => {| ds_dec := {| d_index := []; d_setid := []; d_slice := 0; d_rec := []; d_nonrec := [] |}; ds_fis := []; ds_tbl := []; ds_parity := [] |} end.

  (* the recovery set lists "b" (index 0, one slice) then "a" (index 1, two slices) *)
  Example cn_example_loaded : fst created = Ok tt /\ fs_lookup fs2 (bs "/w/a") = None /\
    fst (load_all toy_md5 ix (io_init fs2 [])) = Ok loaded /\
    map di_name (d_rec (ds_dec loaded)) = [bs "b"; bs "a"] /\
    map (fun info => length (di_pairs info)) (d_rec (ds_dec loaded)) = [1; 2] /\
    shard_counts loaded = {| c_usable := 1; c_unusable := 2; c_pusable := 2; c_punusable := 0; c_misplaced := 0 |}.
  Proof. vm_compute. repeat split; reflexivity. Qed.

  Lemma loaded_eq : load_all toy_md5 ix (io_init fs2 []) = (Ok loaded, snd (load_all toy_md5 ix (io_init fs2 []))).
  Proof. destruct cn_example_loaded as (_ & _ & HL & _). rewrite <- HL. apply surjective_pairing. Qed.

  Example cn_example_ids_distinct : NoDup (map di_id (d_rec (ds_dec loaded))).
  Proof. vm_compute. constructor; [intros [H|[]]; discriminate H|]. constructor; [intros []|constructor]. Qed.

  Lemma E4 : N.to_nat (d_slice (ds_dec loaded)) = 4.
  Proof. vm_compute. reflexivity. Qed.

  (* the premises of CN1 at slot (1, 0) (first slice of "a"), found in file 0 ("b") at offset 2 *)
  Example cn1_example_premises :
    let infos := d_rec (ds_dec loaded) in
    let S := N.to_nat (d_slice (ds_dec loaded)) in
    0 < length infos /\
    fs_lookup fs2 (file_path ix (di_name (nth 0 infos dinfo0))) = Some data_b /\ wf_bytes data_b /\
    2 < length data_b /\
    window_at S data_b 2 = [1; 2; 3; 4]%N /\
    pair_at infos 1 0 (toy_md5 (window_at S data_b 2), crc32 (window_at S data_b 2)) /\
    (forall q, q < 2 -> 2 < q + S -> ~ matches toy_md5 (ds_tbl loaded) (window_at S data_b q)).
  Proof.
    cbv zeta. rewrite E4.
    split; [vm_compute; lia|]. split; [vm_compute; reflexivity|].
    split; [unfold data_b, wf_bytes, wf_byte; repeat constructor|].
    split; [vm_compute; lia|]. split; [vm_compute; reflexivity|].
    split; [unfold pair_at; vm_compute; reflexivity|].
    intros q Hq1 Hq2. destruct q as [|[|q]]; [| |lia]; vm_compute; intros H; apply H; reflexivity.
  Qed.

  Example cn1_example_occurs : occurs_unshadowed toy_md5 ix fs2 loaded 1 0.
  Proof.
    destruct cn1_example_premises as (P1 & P2 & P3 & P4 & _ & P5 & P6).
    exists 0, data_b, 2. repeat split; assumption.
  Qed.

  (* CN1 applies: the slot is Some, without looking at the loaded table *)
  Example cn1_example_by_theorem : nth 0 (fi_shards (nth 1 (ds_fis loaded) dfi)) None <> None.
  Proof.
    destruct cn1_example_premises as (P1 & P2 & P3 & P4 & _ & P5 & P6).
    exact (load_all_credits_present_slice toy_md5 ix fs2 loaded _ loaded_eq cn_example_ids_distinct
             1 0 0 data_b 2 P1 P2 P3 P4 P5 P6).
  Qed.

  (* ... and indeed it holds that slice, seen in file 0 at offset 2 *)
  Example cn1_example_slot :
    nth 0 (fi_shards (nth 1 (ds_fis loaded) dfi)) None = Some {| si_data := [1; 2; 3; 4]%N; si_locs := [(0, 2)] |}.
  Proof. vm_compute. reflexivity. Qed.

  (* the premise of CN2 for L = the other two slots; the bound is tight here *)
  Definition absent : list (nat * nat) := [(0, 0); (1, 1)].
  Example cn2_example_premise :
    forall i k, i < length (d_rec (ds_dec loaded)) -> k < length (di_pairs (nth i (d_rec (ds_dec loaded)) dinfo0)) ->
      ~ occurs_unshadowed toy_md5 ix fs2 loaded i k -> In (i, k) absent.
  Proof.
    assert (El : length (d_rec (ds_dec loaded)) = 2) by (vm_compute; reflexivity).
    assert (E0 : length (di_pairs (nth 0 (d_rec (ds_dec loaded)) dinfo0)) = 1) by (vm_compute; reflexivity).
    assert (E1 : length (di_pairs (nth 1 (d_rec (ds_dec loaded)) dinfo0)) = 2) by (vm_compute; reflexivity).
    intros i k Hi Hk Hn. rewrite El in Hi. unfold absent.
    destruct i as [|[|i]]; [| |lia].
    - rewrite E0 in Hk. destruct k; [left; reflexivity|lia].
    - rewrite E1 in Hk. destruct k as [|[|k]]; [|right; left; reflexivity|lia].
      exfalso. apply Hn. exact cn1_example_occurs.
  Qed.

  Example cn2_example_by_theorem : c_unusable (shard_counts loaded) <= 2.
  Proof.
    exact (unusable_bounded_by_absent toy_md5 ix fs2 loaded _ loaded_eq cn_example_ids_distinct absent cn2_example_premise).
  Qed.

  Example cn2_example_tight : c_unusable (shard_counts loaded) = length absent.
  Proof. vm_compute. reflexivity. Qed.

  (* the premises of CN3 *)
  Example cn3_example_bytes : forall info dat, In info (d_rec (ds_dec loaded)) ->
    fs_lookup fs2 (file_path ix (di_name info)) = Some dat -> wf_bytes dat.
  Proof.
    assert (H : forallb (fun e : list N * bytes => forallb (fun b => (b <? 256)%N) (snd e)) fs2 = true)
      by (vm_compute; reflexivity).
    intros info dat _ Hl. destruct (RCExample.fs_lookup_in _ _ _ Hl) as [q Hq].
    rewrite forallb_forall in H. specialize (H _ Hq). cbn [snd] in H. rewrite forallb_forall in H.
    apply Forall_forall. intros b Hb. apply N.ltb_lt. exact (H b Hb).
  Qed.

  Example cn3_example_by_theorem : forall i k s, nth k (fi_shards (nth i (ds_fis loaded) dfi)) None = Some s ->
    length (si_data s) = 4 /\ wf_bytes (si_data s) /\
    pair_at (d_rec (ds_dec loaded)) i k (toy_md5 (si_data s), crc32 (si_data s)).
  Proof.
    intros i k s Hs. rewrite <- E4.
    exact (usable_slices_genuine toy_md5 ix fs2 loaded _ loaded_eq cn3_example_bytes cn_example_ids_distinct i k s Hs).
  Qed.

  (* the local collision premise of usable_slices_original holds for the stand-in digest *)
  Definition orig (i k : nat) : bytes := nth k (nth i [[[6; 7; 8; 9]]; [[1; 2; 3; 4]; [5; 0; 0; 0]]]%N []) [].

  Example cn3_example_collision_free : forall i k wd,
    length wd = N.to_nat (d_slice (ds_dec loaded)) -> wf_bytes wd ->
    pair_at (d_rec (ds_dec loaded)) i k (toy_md5 wd, crc32 wd) -> wd = orig i k.
  Proof.
    assert (E : map di_pairs (d_rec (ds_dec loaded)) =
                [[([46; 53; 60; 67; 0; 0; 0; 0; 0; 0; 0; 0; 0; 0; 0; 0], 2959451369)];
                 [([11; 18; 25; 32; 0; 0; 0; 0; 0; 0; 0; 0; 0; 0; 0; 0], 3057449933);
                  ([39; 4; 4; 4; 0; 0; 0; 0; 0; 0; 0; 0; 0; 0; 0; 0], 379203374)]]%N) by (vm_compute; reflexivity).
    intros i k wd Hl Hw H. rewrite E4 in Hl. unfold pair_at in H.
    rewrite <- (map_nth di_pairs) in H.
    rewrite E in H. clear E.
    destruct wd as [|a [|b [|c [|d [|x wd]]]]]; try discriminate Hl.
    inversion Hw as [|? ? Ha Hw1]; subst. inversion Hw1 as [|? ? Hb Hw2]; subst.
    inversion Hw2 as [|? ? Hc Hw3]; subst. inversion Hw3 as [|? ? Hd _]; subst.
    unfold wf_byte in Ha, Hb, Hc, Hd.
    unfold toy_md5 in H. cbn [map length app firstn zeros repeat] in H.
    destruct i as [|[|i]]; cbn [nth di_pairs dinfo0] in H.
    - destruct k as [|k]; cbn [nth_error] in H; [|destruct k; discriminate H].
      injection H as Ea Eb Ec Ed _. unfold orig. cbn [nth]. repeat f_equal; lia.
    - destruct k as [|[|k]]; cbn [nth_error] in H; [| |destruct k; discriminate H];
        injection H as Ea Eb Ec Ed _; unfold orig; cbn [nth]; repeat f_equal; lia.
    - destruct i; destruct k; discriminate H.
  Qed.

  Example cn3_example_original : forall i k s,
    nth k (fi_shards (nth i (ds_fis loaded) dfi)) None = Some s -> si_data s = orig i k.
  Proof.
    exact (usable_slices_original toy_md5 ix fs2 loaded _ orig loaded_eq cn3_example_bytes cn_example_ids_distinct
             cn3_example_collision_free).
  Qed.
End CNExample.

(** * The shadowing premise of CN1 is necessary: a registered slice that is present in a surviving
      protected file, but starts inside a window that matched, is NOT counted usable *)
Module CNShadow.
  (* the first slice of "a" is [8;9;1;2]; the only slice of "b" is [6;7;8;9] *)
  Definition fs0 : list (list N * bytes) := [(bs "/w/a", [8; 9; 1; 2; 5]%N); (bs "/w/b", [6; 7; 8; 9]%N)].
  Definition ix := bs "/w/o.par2".
  Definition created := par2_create toy_md5 (bs "/w") ix [bs "a"; bs "b"] {| cp_slice := 4; cp_parity := 2 |} (io_init fs0 []).
  (* "a" is deleted; "b" now holds its own slice at 0 and the first slice of "a" at offset 2 *)
  Definition data_b : bytes := [6; 7; 8; 9; 1; 2]%N.
  Definition fs2 := fs_set (filter (fun e : list N * bytes => negb (str_eqb (fst e) (bs "/w/a"))) (io_fs (snd created)))
                           (bs "/w/b") data_b.
  Definition loaded : dstate :=
    match fst (load_all toy_md5 ix (io_init fs2 [])) with Ok ds => ds
    | _ => {| ds_dec := {| d_index := []; d_setid := []; d_slice := 0; d_rec := []; d_nonrec := [] |}; ds_fis := []; ds_tbl := []; ds_parity := [] |} end.

  (* every premise of CN1 except the shadowing one holds at slot (1, 0), file 0, offset 2;
     the window at offset 0 matches (it is the slice of "b"), and the slot stays None *)
  Example cn1_without_unshadowed_refuted :
    let infos := d_rec (ds_dec loaded) in
    let S := N.to_nat (d_slice (ds_dec loaded)) in
    fst created = Ok tt /\
    fst (load_all toy_md5 ix (io_init fs2 [])) = Ok loaded /\
    NoDup (map di_id infos) /\
    0 < length infos /\
    fs_lookup fs2 (file_path ix (di_name (nth 0 infos dinfo0))) = Some data_b /\ wf_bytes data_b /\
    2 < length data_b /\
    pair_at infos 1 0 (toy_md5 (window_at S data_b 2), crc32 (window_at S data_b 2)) /\
    matches toy_md5 (ds_tbl loaded) (window_at S data_b 0) /\
    nth 0 (fi_shards (nth 1 (ds_fis loaded) dfi)) None = None /\
    c_unusable (shard_counts loaded) = 2.
  Proof.
    cbv zeta.
    split; [vm_compute; reflexivity|]. split; [vm_compute; reflexivity|].
    split; [vm_compute; constructor; [intros [H|[]]; discriminate H|]; constructor; [intros []|constructor]|].
    split; [vm_compute; lia|]. split; [vm_compute; reflexivity|].
    split; [unfold data_b, wf_bytes, wf_byte; repeat constructor|].
    split; [vm_compute; lia|].
    split; [unfold pair_at; vm_compute; reflexivity|].
    split; [vm_compute; discriminate|].
    split; vm_compute; reflexivity.
  Qed.
End CNShadow.

Print Assumptions CNExample.cn_example_loaded.
Print Assumptions CNExample.cn1_example_premises.
Print Assumptions CNExample.cn1_example_by_theorem.
Print Assumptions CNExample.cn2_example_premise.
Print Assumptions CNExample.cn2_example_by_theorem.
Print Assumptions CNExample.cn3_example_by_theorem.
Print Assumptions CNExample.cn3_example_collision_free.
Print Assumptions CNExample.cn3_example_original.
Print Assumptions CNShadow.cn1_without_unshadowed_refuted.
