(* PAR1 end to end with ARBITRARY CONTENT AT THE DATA PATHS (Model/Par1.v over Model/FS.v): property C04 with
   damaged - not only removed - data files.
   After Create (state st'), the state before Verify / Repair is ANY file map fs2 such that
     - the index path holds what Create wrote;
     - every volume path k in 1 .. min nv 99 that is not in `lostv` holds what Create wrote;
     - every other volume path the loader probes (k in lostv, or min nv 99 < k <= min (256 - #files) 99) is
       SKIPPED by the loader: nothing there (and no directory), or a file read_volume rejects, or a volume that
       parses but carries another set hash or another number (Par1Facts.vol_skipped);
     - each data path holds ANYTHING: the original bytes, nothing (then it is no directory), or arbitrary other
       bytes (flipped, truncated, extended, garbage, another file's content);
     - the local hash premise (as C01 has it for PAR2): the bytes ACTUALLY PRESENT at a data path, if they have the
       MD5 and the 16k-MD5 of that file's original, ARE the original.  (The PAR1 loader compares the two hashes and
       not the length: Truthful.F1_length_not_checked.)
   `bad` = the data paths whose content is not the original (orig_at = false), in the order of `files`.
   RT7. par1_damage_any_general: every outcome of Repair by #bad against the number of kept volumes.
   T1.  par1_create_damage_any_repair (C04_create_damage_repair_restores): #bad <= kept volumes: Repair returns Ok,
        reports exactly `bad`, EVERY data path holds its original bytes afterwards and no other path changed - or it
        returns Err ESingular with nothing written.
   T2.  par1_create_damage_any_verify: Verify returns Ok with fc_unusable = #bad, fc_usable = #files - #bad,
        fc_pusable = kept volumes, writes nothing, and its verdict is `all && #bad = 0 && fc_punusable = 0`.
   T3.  par1_create_damage_any_too_many: #bad > kept volumes: Err ENotEnoughParity, nothing written.
   The hash premise is NEEDED: par1_damage_any_without_hash_premise_refuted (toy hash: a different content with the
   same hashes is accepted, Repair returns Ok and the file is NOT the original). *)
From Coq Require Import Lia.
From Coq Require Import ZifyN ZifyNat ZifyBool.
From Gopar Require Import Model.Base Model.Matrix Model.RS16 Model.GF8 Model.CRC Model.GoPath Model.FS Model.Par1
     Proofs.LinAlg Proofs.LinAlgSingular Proofs.RS16Facts
     Proofs.GoPathFacts Proofs.Par2Create Proofs.Par2Facts Proofs.Par2Verify Proofs.Par2Faults Proofs.Par2Clean
     Proofs.GF8Facts Proofs.Par1Facts Proofs.Par1Safety Proofs.Utf16Facts Proofs.Par1Clean Proofs.Par1RoundTrip
     Proofs.Par1Volumes Proofs.Par1RoundTrip2 Proofs.Par1RoundTrip3.
Open Scope N_scope.
Set Default Timeout 120.

(** * an unusable data path: nothing there, or a file one of whose two hashes is not the recorded one *)

Definition file_unusable (md5 : bytes -> bytes) (fs : list (list N * bytes)) (p : list N) (h h16 : bytes) : Prop :=
  read_res fs p = Err ENotExist \/
  exists b, fs_lookup fs p = Some b /\ (bytes_eqb (hash16k md5 b) h16 && bytes_eqb (md5 b) h) = false.

(* the data path f holds, in fs2, the bytes it held in fs *)
Definition orig_at (fs fs2 : list (list N * bytes)) (f : list N) : bool :=
  match fs_lookup fs2 f, fs_lookup fs f with
  | Some b, Some d => bytes_eqb b d
  | _, _ => false
  end.

(** * list helpers *)

Lemma erase_all_false {A} : forall (k : list bool) (l : list A), length k = length l -> existsb idb k = false ->
  erase k l = repeat None (length l).
Proof.
  induction k as [|b k IH]; intros [|x l] H E; cbn [length] in H; try lia; [reflexivity|].
  cbn [existsb] in E. destruct b; [discriminate E|]. rewrite erase_cons. cbn [length repeat].
  rewrite IH by (try lia; exact E). reflexivity.
Qed.

Lemma erase_no_none {A} : forall (k : list bool) (l : list A), length k = length l -> count_none1 (erase k l) = 0%nat ->
  erase k l = map Some l.
Proof.
  unfold count_none1.
  induction k as [|b k IH]; intros [|x l] H E; cbn [length] in H; try lia; [reflexivity|].
  rewrite erase_cons in *. destruct b.
  - cbn [filter] in E. cbn [map]. rewrite IH by (try lia; exact E). reflexivity.
  - cbn [filter length] in E. discriminate E.
Qed.

(** * loading the data files: kept, absent, or present with other hashes *)

Section Load4.
  Variable md5 : bytes -> bytes.

  (* load_data_keep of Par1RoundTrip.v, with an unusable file absent OR present with a hash that does not match *)
  Lemma load_data_keep_any ix : forall (l : list (p1entry * (bytes * bool))) st, io_sched st = [] ->
    Forall (fun t : p1entry * (bytes * bool) =>
        base (e_name (fst t)) = e_name (fst t) /\
        if snd (snd t)
        then md5 (fst (snd t)) = e_hash (fst t) /\ hash16k md5 (fst (snd t)) = e_h16 (fst t) /\
             fs_lookup (io_fs st) (epath ix (fst t)) = Some (fst (snd t))
        else file_unusable md5 (io_fs st) (epath ix (fst t)) (e_hash (fst t)) (e_h16 (fst t))) l ->
    exists st', load_data md5 ix (map fst l) st =
                  (Ok (map (fun t : p1entry * (bytes * bool) => if snd (snd t) then Some (fst (snd t)) else None) l), st') /\
                io_sched st' = [] /\ io_fs st' = io_fs st.
  Proof.
    induction l as [|[e [d k]] l IH]; intros st Hs H; cbn [map load_data fst snd].
    - exists st. split; [reflexivity|split; [exact Hs|reflexivity]].
    - inversion H as [|? ? (Eb & Hk) Hr]; subst. cbn [fst snd] in *.
      rewrite (entry_path_bare ix e Eb).
      destruct (io_read_nosched (epath ix e) st Hs) as (st1 & ER & Hs1 & Hf1). rewrite ER.
      destruct (IH st1 Hs1) as (st2 & EL & Hs2 & Hf2).
      { rewrite Hf1. exact Hr. }
      destruct k.
      + destruct Hk as (H1 & H2 & Hk).
        unfold read_res. rewrite Hk, EL, H1, H2, !bytes_eqb_refl. cbn [andb].
        exists st2. split; [reflexivity|split; [exact Hs2|congruence]].
      + destruct Hk as [Hk|(b & Hk & Hb)].
        * rewrite Hk, EL. exists st2. split; [reflexivity|split; [exact Hs2|congruence]].
        * unfold read_res. rewrite Hk, EL, Hb.
          exists st2. split; [reflexivity|split; [exact Hs2|congruence]].
  Qed.

  Lemma zip3_forall_any ix (fs2 : list (list N * bytes)) : forall (names datas : list bytes) (keep : list bool),
    length names = length datas -> length keep = length datas -> Forall name_ok names ->
    Forall (fun t : bytes * (bytes * bool) =>
              if snd (snd t) then fs_lookup fs2 (join2 (dir ix) (fst t)) = Some (fst (snd t))
              else file_unusable md5 fs2 (join2 (dir ix) (fst t)) (md5 (fst (snd t))) (hash16k md5 (fst (snd t))))
           (combine names (combine datas keep)) ->
    Forall (fun t : p1entry * (bytes * bool) =>
        base (e_name (fst t)) = e_name (fst t) /\
        if snd (snd t)
        then md5 (fst (snd t)) = e_hash (fst t) /\ hash16k md5 (fst (snd t)) = e_h16 (fst t) /\
             fs_lookup fs2 (epath ix (fst t)) = Some (fst (snd t))
        else file_unusable md5 fs2 (epath ix (fst t)) (e_hash (fst t)) (e_h16 (fst t)))
      (combine (mk_entries md5 names datas) (combine datas keep)).
  Proof.
    unfold mk_entries.
    induction names as [|n names IH]; intros [|d datas] [|k keep] H1 H2 Hn H; cbn [length] in *; try lia;
      [constructor|].
    inversion Hn as [|? ? (Nb & _) Hn']; subst.
    cbn [combine] in H. inversion H as [|? ? Hk Hr]; subst. cbn [fst snd] in Hk.
    cbn [combine map]. constructor; [|apply IH; try lia; assumption].
    cbn [fst snd mk_entry e_name e_hash e_h16]. unfold epath. cbn [e_name].
    split; [exact Nb|]. destruct k; [|exact Hk]. split; [reflexivity|]. split; [reflexivity|exact Hk].
  Qed.
End Load4.

(** * loading a volume set with gaps, damaged and foreign volumes *)

Section VolsLoad4.
  Variable md5 : bytes -> bytes.
  Hypothesis md5_len : forall x, length (md5 x) = 16%nat.
  Variable ix : list N.
  Variable sethash : bytes.
  Variable entries : list p1entry.
  Hypothesis Hsh : length sethash = 16%nat.
  Hypothesis Hes : Forall (fun e => e_status e < 2^64 /\ e_len e < 2^64 /\ length (e_hash e) = 16%nat /\ length (e_h16 e) = 16%nat
                     /\ e_name e <> [] /\ decode_utf16le (encode_utf16le (e_name e)) = e_name e
                     /\ encode_utf16le (e_name e) <> []) entries.
  Hypothesis Hsz : Forall (fun e => N.of_nat (length (encode_utf16le (e_name e))) < 2^64) entries.
  Hypothesis Hcnt : N.of_nat (length entries) < 2^32.

  (* volume i+j+1 is the one Create wrote when kv[j], and is skipped by the loader otherwise: absent, unparsable, or a
     volume of another set / with another number *)
  Lemma load_vols_mask_skip L : L <> 0%nat -> forall (vs : list bytes) (kv : list bool) m i size acc st,
    io_sched st = [] -> (size = 0 \/ size = L)%nat -> Forall (fun x : bytes => length x = L) vs ->
    length kv = length vs -> N.of_nat (i + length vs) < 2^64 ->
    (forall j, (j < length vs)%nat ->
       if nth j kv false
       then fs_lookup (io_fs st) (volume_path ix (N.of_nat (S (i + j)))) =
            Some (write_volume md5 sethash (N.of_nat (S (i + j))) entries (nth j vs []))
       else vol_skipped md5 sethash (N.of_nat (S (i + j))) (read_res (io_fs st) (volume_path ix (N.of_nat (S (i + j)))))) ->
    exists st1, io_sched st1 = [] /\ io_fs st1 = io_fs st /\
      load_vols md5 ix sethash i (length vs + m) size acc st =
      load_vols md5 ix sethash (i + length vs) m (if existsb idb kv then L else size) (acc ++ erase kv vs) st1.
  Proof.
    intros HL. induction vs as [|x vs IH]; intros kv m i size acc st Hs Hsize HF Hkv Hb Hlk.
    - destruct kv as [|b kv]; [|discriminate Hkv]. exists st. cbn [length Nat.add existsb].
      unfold erase. cbn [combine map]. rewrite Nat.add_0_r, app_nil_r.
      split; [exact Hs|split; reflexivity].
    - destruct kv as [|b kv]; [discriminate Hkv|]. cbn [length] in *.
      pose proof (Forall_inv HF) as Hx. pose proof (Forall_inv_tail HF) as HF'. cbv beta in Hx.
      pose proof (Hlk 0%nat ltac:(lia)) as H0. rewrite Nat.add_0_r in H0. cbn [nth] in H0.
      rewrite erase_cons.
      destruct b.
      + destruct (io_read_some _ st _ Hs H0) as (st1 & ER & Hs1 & Hf1).
        destruct (written_volume_read md5 md5_len sethash entries Hsh Hes Hsz Hcnt (N.of_nat (S i)) x ltac:(lia))
          as (v & EV & F1 & F2 & F3 & F4 & _).
        cbn [Nat.add load_vols]. rewrite ER, EV, F1, F2, F4, bytes_eqb_refl, N.eqb_refl. cbn [negb].
        rewrite Hx.
        destruct (Nat.eqb_spec L 0) as [E0|_]; [lia|].
        assert (Ec : negb (Nat.eqb size 0) && negb (Nat.eqb L size) = false).
        { destruct Hsize as [-> | ->]; [reflexivity|]. rewrite Nat.eqb_refl. apply andb_false_r. }
        rewrite Ec.
        destruct (IH kv m (S i) L (acc ++ [Some x]) st1 Hs1 (or_intror eq_refl) HF' ltac:(lia) ltac:(lia))
          as (st2 & Hs2 & Hf2 & E2).
        { intros j Hj. rewrite Hf1. specialize (Hlk (S j) ltac:(lia)). cbn [nth] in Hlk.
          replace (S i + j)%nat with (i + S j)%nat by lia. exact Hlk. }
        exists st2. split; [exact Hs2|]. split; [congruence|]. rewrite E2.
        replace (S i + length vs)%nat with (i + S (length vs))%nat by lia.
        rewrite <- app_assoc. cbn [app existsb orb]. destruct (existsb idb kv); reflexivity.
      + assert (Hstep : exists st1, io_sched st1 = [] /\ io_fs st1 = io_fs st /\
                  load_vols md5 ix sethash i (S (length vs) + m) size acc st =
                  load_vols md5 ix sethash (S i) (length vs + m) size (acc ++ [None]) st1).
        { destruct (io_read_nosched (volume_path ix (N.of_nat (S i))) st Hs) as (st1 & ER & Hs1 & Hf1).
          exists st1. split; [exact Hs1|]. split; [exact Hf1|].
          destruct H0 as [H0|(b & H0 & Hnm)]; rewrite H0 in ER.
          - cbn [Nat.add load_vols]. rewrite ER. reflexivity.
          - cbn [Nat.add]. exact (load_vols_not_member_step md5 ix sethash i (length vs + m) size acc st b st1 ER Hnm). }
        destruct Hstep as (st1 & Hs1 & Hf1 & Estep). rewrite Estep.
        destruct (IH kv m (S i) size (acc ++ [None]) st1 Hs1 Hsize HF' ltac:(lia) ltac:(lia))
          as (st2 & Hs2 & Hf2 & E2).
        { intros j Hj. rewrite Hf1. specialize (Hlk (S j) ltac:(lia)). cbn [nth] in Hlk.
          replace (S i + j)%nat with (i + S j)%nat by lia. exact Hlk. }
        exists st2. split; [exact Hs2|]. split; [congruence|]. rewrite E2.
        replace (S i + length vs)%nat with (i + S (length vs))%nat by lia.
        rewrite <- app_assoc. cbn [app existsb orb]. reflexivity.
  Qed.
End VolsLoad4.

(** * the loading phase after Create on an arbitrarily damaged state *)

Section Created4.
  Variable md5 : bytes -> bytes.
  Hypothesis md5_len : forall x, length (md5 x) = 16%nat.

  (* As p1_load_created_mask_dmg, but a masked-out volume and every later volume path is SKIPPED (absent, unparsable,
     foreign), and a masked-out data file is absent OR present with other hashes. *)
  Lemma p1_load_created_any ix (names datas : list bytes) (nv : nat) (fs2 : list (list N * bytes)) (keep kv : list bool) :
    str_eqb (ext ix) EXT_PAR = true -> length names = length datas -> datas <> [] ->
    (length datas + nv <= 256)%nat -> (0 < nv)%nat -> max_len datas <> 0%nat ->
    Forall name_ok names -> Forall (fun d : bytes => N.of_nat (length d) < 2^64) datas ->
    length keep = length datas ->
    let entries := mk_entries md5 names datas in
    let sethash := set_hash md5 entries in
    let size := max_len datas in
    let D := map (pad size) datas in
    let P := par1_encode (length datas) nv D in
    let np := Nat.min nv 99 in
    let vs := par1_encode (length datas) np D in
    let slots := erase kv vs ++ repeat None (N.to_nat (N.min (256 - N.of_nat (length datas)) 99) - np) in
    length kv = np ->
    fs_lookup fs2 ix = Some (write_volume md5 sethash 0 entries []) ->
    (forall j, (j < np)%nat ->
       if nth j kv false
       then fs_lookup fs2 (volume_path ix (N.of_nat (S j))) =
            Some (write_volume md5 sethash (N.of_nat (S j)) entries (nth j P []))
       else vol_skipped md5 sethash (N.of_nat (S j)) (read_res fs2 (volume_path ix (N.of_nat (S j))))) ->
    (forall k, (np < k <= N.to_nat (N.min (256 - N.of_nat (length datas)) 99))%nat ->
               vol_skipped md5 sethash (N.of_nat k) (read_res fs2 (volume_path ix (N.of_nat k)))) ->
    Forall (fun t : bytes * (bytes * bool) =>
              if snd (snd t) then fs_lookup fs2 (join2 (dir ix) (fst t)) = Some (fst (snd t))
              else file_unusable md5 fs2 (join2 (dir ix) (fst t)) (md5 (fst (snd t))) (hash16k md5 (fst (snd t))))
           (combine names (combine datas keep)) ->
    exists v st1,
      p1_load md5 ix (io_init fs2 []) =
        (Ok {| s_index := ix; s_vol := v; s_saved := entries; s_data := erase keep datas;
               s_size := if existsb idb kv then size else 0%nat;
               s_parity := firstn (S (last_some_index slots 0 0)) slots |}, st1) /\
      v_count v = N.of_nat (length datas) /\ io_sched st1 = [] /\ io_fs st1 = fs2.
  Proof.
    intros He Hlen Hne Hcap Hnv Hsz0 Hnames Hdl Hkeep entries sethash size D P np vs slots Hkvl C1 C2 C3 C4.
    destruct (mk_entries_ok md5 md5_len names datas Hnames Hdl) as [Hes Hsz]. fold entries in Hes, Hsz.
    assert (Hel : length entries = length datas) by (apply mk_entries_length; exact Hlen).
    assert (Hcnt : N.of_nat (length entries) < 2^32).
    { rewrite Hel. apply N.lt_trans with 257; [lia|reflexivity]. }
    assert (Hsh : length sethash = 16%nat) by apply md5_len.
    (* the index *)
    destruct (io_read_some ix (io_init fs2 []) _ eq_refl C1) as (sa & ER & Hsa & Hfa). cbn [io_init io_fs] in Hfa.
    destruct (written_volume_read md5 md5_len sethash entries Hsh Hes Hsz Hcnt 0 [] ltac:(reflexivity))
      as (v & EV & F1 & F2 & F3 & F4 & F5).
    rewrite Hel in F5.
    (* the files *)
    destruct (zip3_facts md5 md5_len names datas keep Hlen Hkeep) as [Z1 Z2]. fold entries in Z1, Z2.
    destruct (load_data_keep_any md5 ix (combine entries (combine datas keep)) sa Hsa) as (sb & EL & Hsb & Hfb).
    { rewrite Hfa. apply zip3_forall_any; assumption. }
    rewrite Z1, Z2 in EL.
    assert (Hds : erase keep datas <> []).
    { intros E0. apply (f_equal (@length (option bytes))) in E0. rewrite erase_length in E0 by exact Hkeep.
      destruct datas; [congruence|discriminate E0]. }
    (* the volumes *)
    assert (HD : Forall (fun x : bytes => length x = size) D).
    { unfold D. apply Forall_forall. intros x Hx. apply in_map_iff in Hx. destruct Hx as (d & <- & Hd).
      apply pad_length. pose proof (max_len_ge datas) as G. rewrite Forall_forall in G. exact (G d Hd). }
    assert (HDne : D <> []) by (unfold D; destruct datas; [congruence|discriminate]).
    assert (Hnp : (np <= nv)%nat) by (unfold np; lia).
    assert (Hnp1 : (0 < np)%nat) by (unfold np; lia).
    destruct (par1_encode_shape (length datas) np D size HDne HD) as [Lvs Fvs]. fold vs in Lvs, Fvs.
    assert (Evs : vs = firstn np P).
    { unfold vs, P. symmetry. apply (par1_encode_firstn _ _ _ _ size); assumption. }
    set (maxv := N.to_nat (N.min (256 - N.of_nat (length datas)) 99)) in *.
    assert (Hmax : (np <= maxv)%nat) by (unfold maxv, np; lia).
    destruct (load_vols_mask_skip md5 md5_len ix sethash entries Hsh Hes Hsz Hcnt size Hsz0 vs kv (maxv - np) 0 0 [] sb Hsb
                (or_introl eq_refl) Fvs ltac:(lia)) as (sc & Hsc & Hfc & ELV1).
    { rewrite Lvs. apply N.lt_trans with 257; [unfold np; lia|reflexivity]. }
    { intros j Hj. rewrite Lvs in Hj. rewrite Hfb, Hfa. cbn [Nat.add]. rewrite Evs, nth_firstn_lt by exact Hj.
      apply C2. exact Hj. }
    destruct (load_vols_skipped md5 ix sethash (maxv - np) (0 + length vs) (if existsb idb kv then size else 0%nat)
                ([] ++ erase kv vs) sc Hsc) as (sd & ELV2).
    { intros j Hj. rewrite Hfc, Hfb, Hfa. apply C3. rewrite Lvs in Hj. lia. }
    rewrite ELV2 in ELV1. rewrite Lvs in ELV1. replace (np + (maxv - np))%nat with maxv in ELV1 by lia.
    cbn [app] in ELV1. fold slots in ELV1.
    (* assemble *)
    pose proof (p1_load_ok md5 ix (io_init fs2 []) _ sa v (erase keep datas) sb
                  slots (if existsb idb kv then size else 0%nat) sd He ER EV) as PL.
    unfold nsaved in PL. rewrite F2, F3, F1 in PL.
    assert (Efs : filter saved entries = entries) by apply filter_saved_mk.
    rewrite Efs, Hel in PL.
    specialize (PL eq_refl EL Hds).
    assert (EC : (256 <=? N.of_nat (length datas)) = false) by (apply N.leb_gt; lia).
    specialize (PL EC ELV1).
    exists v, sd. split; [exact PL|]. split; [exact F5|].
    pose proof (p1_load_pres md5 ix (io_init fs2 [])) as Pp.
    rewrite PL in Pp. cbn [snd] in Pp. destruct Pp as (Pf & Ps & _). cbn [io_init io_fs io_sched] in Pf, Ps.
    split; assumption.
  Qed.
End Created4.

(** * the damaged state *)

(* The state fs2 before Verify / Repair, against the file map fs before Create and Create's result fs1:
   lostv = the volume numbers (in 1 .. min nv 99) that are NOT kept. *)
Definition par1_damage_shape (md5 : bytes -> bytes) (parPath : list N) (files : list (list N)) (nv : nat)
    (fs fs1 : list (list N * bytes)) (lostv : list nat) (fs2 : list (list N * bytes)) : Prop :=
  let np := Nat.min nv 99 in
  let vp := fun k : nat => volume_path parPath (N.of_nat k) in
  NoDup lostv /\ (forall k, In k lostv -> (1 <= k <= np)%nat) /\
  (* the index and the kept volumes are as Create wrote them *)
  fs_lookup fs2 parPath = fs_lookup fs1 parPath /\
  (forall k, (1 <= k <= np)%nat -> ~ In k lostv -> fs_lookup fs2 (vp k) = fs_lookup fs1 (vp k)) /\
  (* every other volume path the loader probes: nothing (and no directory), a file that does not parse, or a volume
     of another set / with another number *)
  (forall k, (1 <= k <= Nat.min (256 - length files) 99)%nat -> In k lostv \/ (np < k)%nat ->
     vol_skipped md5 (input_set_hash md5 fs files) (N.of_nat k) (read_res fs2 (vp k))) /\
  (* a data path may hold ANYTHING; one that holds no file is no directory *)
  (forall f, In f files -> fs_lookup fs2 f = None -> is_dir fs2 f = false).

(* local collision-freeness: the bytes PRESENT at a data path, if they have both hashes of the original, ARE the original *)
Definition par1_hash_local (md5 : bytes -> bytes) (files : list (list N)) (fs fs2 : list (list N * bytes)) : Prop :=
  forall f d b, In f files -> fs_lookup fs f = Some d -> fs_lookup fs2 f = Some b ->
    md5 b = md5 d -> hash16k md5 b = hash16k md5 d -> b = d.

Definition par1_any_damage (md5 : bytes -> bytes) (parPath : list N) (files : list (list N)) (nv : nat)
    (fs fs1 : list (list N * bytes)) (lostv : list nat) (fs2 : list (list N * bytes)) : Prop :=
  par1_damage_shape md5 parPath files nv fs fs1 lostv fs2 /\ par1_hash_local md5 files fs fs2.

Lemma orig_at_true fs fs2 f d : orig_at fs fs2 f = true -> fs_lookup fs f = Some d -> fs_lookup fs2 f = Some d.
Proof.
  unfold orig_at. intros H Hl. rewrite Hl in H. destruct (fs_lookup fs2 f) as [b|]; [|discriminate H].
  apply bytes_eqb_eq in H. rewrite H. reflexivity.
Qed.

Lemma orig_at_spec fs fs2 f d : fs_lookup fs f = Some d -> (orig_at fs fs2 f = true <-> fs_lookup fs2 f = Some d).
Proof.
  intros Hl. split; [intros H; exact (orig_at_true fs fs2 f d H Hl)|].
  intros H. unfold orig_at. rewrite H, Hl. apply bytes_eqb_refl.
Qed.

Lemma c4_of_forall2_any md5 ix (fs2 : list (list N * bytes)) (Q : list N -> bool) : forall (files : list (list N)) (datas : list bytes),
  Forall2 (fun f d => if Q f then fs_lookup fs2 f = Some d
                      else file_unusable md5 fs2 f (md5 d) (hash16k md5 d)) files datas ->
  Forall (fun f => join2 (dir ix) (base f) = f) files ->
  Forall (fun t : bytes * (bytes * bool) =>
            if snd (snd t) then fs_lookup fs2 (join2 (dir ix) (fst t)) = Some (fst (snd t))
            else file_unusable md5 fs2 (join2 (dir ix) (fst t)) (md5 (fst (snd t))) (hash16k md5 (fst (snd t))))
         (combine (map base files) (combine datas (map Q files))).
Proof.
  intros files datas F. induction F as [|f d files datas Hr F IH]; intros Hj; [constructor|].
  inversion Hj as [|? ? Hf Hj']; subst. cbn [map combine]. constructor; [|apply IH; exact Hj'].
  cbn [fst snd]. rewrite Hf. exact Hr.
Qed.

(* the loading phase on the damaged state *)
Lemma par1_damage_any_load : forall md5, (forall x, length (md5 x) = 16%nat) ->
  forall parPath files nvol fs st' lostv fs2,
  par1_create md5 parPath files nvol (io_init fs []) = (Ok tt, st') ->
  let nv := if (nvol <=? 0)%Z then 3%nat else Z.to_nat nvol in
  let np := Nat.min nv 99 in
  Forall (fun f => input_name_ok (base f)) files ->
  Forall (fun f => join2 (dir parPath) (base f) = f) files ->
  (forall f d, In f files -> fs_lookup fs f = Some d -> N.of_nat (length d) < 2^64) ->
  par1_any_damage md5 parPath files nv fs (io_fs st') lostv fs2 ->
  exists datas v st1,
    Forall2 (fun f d => fs_lookup fs f = Some d) files datas /\ length files = length datas /\ datas <> [] /\
    max_len datas <> 0%nat /\ (length datas + nv <= 256)%nat /\ (0 < nv)%nat /\ NoDup files /\
    let kv := vmask lostv np in
    let slots := erase kv (par1_encode (length datas) np (map (pad (max_len datas)) datas)) ++
                 repeat None (N.to_nat (N.min (256 - N.of_nat (length datas)) 99) - np) in
    p1_load md5 parPath (io_init fs2 []) =
      (Ok {| s_index := parPath; s_vol := v; s_saved := mk_entries md5 (map base files) datas;
             s_data := erase (map (orig_at fs fs2) files) datas;
             s_size := if existsb idb kv then max_len datas else 0%nat;
             s_parity := firstn (S (last_some_index slots 0 0)) slots |}, st1) /\
    io_sched st1 = [] /\ io_fs st1 = fs2.
Proof.
  intros md5 md5_len parPath files nvol fs st' lostv fs2 HC nv np Hnames Hjoin Hlens
         ((Hndv & Hrange & Hix & Hkeptv & Hskip & Hnodir) & Hhash).
  destruct (create_setup md5 parPath files nvol fs st' HC Hnames Hlens)
    as (datas & HF & He & Hlen & Hne & Hcap & Hnv & Hsz & Hnok & Hdl & Hndf & HL & Hfs).
  fold nv in Hcap, Hnv, Hfs. fold np in Hrange, Hkeptv, Hskip.
  set (Q := orig_at fs fs2).
  set (keep := map Q files).
  set (kv := vmask lostv np).
  assert (Hkl : length keep = length datas) by (unfold keep; rewrite map_length; exact HL).
  assert (Hkvl : length kv = np) by apply vmask_length.
  assert (Hsh : set_hash md5 (mk_entries md5 (map base files) datas) = input_set_hash md5 fs files)
    by (apply input_set_hash_created; exact HF).
  assert (Hfile_bad : forall f d, In f files -> Q f = false -> fs_lookup fs f = Some d ->
            file_unusable md5 fs2 f (md5 d) (hash16k md5 d)).
  { intros f d Hin HQ Hl. destruct (fs_lookup fs2 f) as [b|] eqn:E2.
    - right. exists b. split; [exact E2|].
      destruct (bytes_eqb (hash16k md5 b) (hash16k md5 d) && bytes_eqb (md5 b) (md5 d)) eqn:EA; [|reflexivity].
      exfalso. apply andb_prop in EA. destruct EA as [EA1 EA2]. apply bytes_eqb_eq in EA1, EA2.
      pose proof (Hhash f d b Hin Hl E2 EA2 EA1) as Eb. subst b.
      unfold Q in HQ. rewrite (proj2 (orig_at_spec fs fs2 f d Hl) E2) in HQ. discriminate HQ.
    - left. unfold read_res. rewrite E2, (Hnodir f Hin E2). reflexivity. }
  destruct (p1_load_created_any md5 md5_len parPath (map base files) datas nv fs2 keep kv He Hlen Hne Hcap Hnv Hsz Hnok Hdl
              Hkl Hkvl) as (v & st1 & PL & _ & Hs1 & Hf1).
  - rewrite Hix, Hfs. apply created_index. exact He.
  - intros j Hj. fold np in Hj. unfold kv. rewrite vmask_nth by exact Hj. destruct (vol_kept lostv j) eqn:Ek.
    + rewrite (Hkeptv (S j) ltac:(lia) (vol_kept_true lostv j Ek)). rewrite Hfs.
      apply created_volume; [exact He|unfold np in Hj; lia].
    + rewrite Hsh. apply Hskip; [unfold np in Hj; lia|left; apply vol_kept_false; exact Ek].
  - intros k Hk. fold np in Hk. rewrite Hsh. apply Hskip; [lia|right; lia].
  - apply (c4_of_forall2_any md5 parPath fs2 Q); [|exact Hjoin].
    apply (Forall2_impl_in _ _ _ _ HF). intros f d Hin Hl. destruct (Q f) eqn:EQ.
    + exact (orig_at_true fs fs2 f d EQ Hl).
    + apply Hfile_bad; assumption.
  - exists datas, v, st1. split; [exact HF|]. split; [exact HL|]. split; [exact Hne|]. split; [exact Hsz|].
    split; [exact Hcap|]. split; [exact Hnv|]. split; [exact Hndf|]. cbv zeta.
    split; [exact PL|]. split; [exact Hs1|exact Hf1].
Qed.

(** * RT7. CREATE, DAMAGE ANYTHING, REPAIR *)

(* Every outcome of Repair after Create on an arbitrarily damaged state, by the number of data paths that do not hold
   the original bytes against the number of kept volumes. *)
Theorem par1_damage_any_general : forall md5, (forall x, length (md5 x) = 16%nat) ->
  forall parPath files nvol fs st' lostv fs2 dbl r rp st3,
  par1_create md5 parPath files nvol (io_init fs []) = (Ok tt, st') ->
  let nv := if (nvol <=? 0)%Z then 3%nat else Z.to_nat nvol in
  Forall (fun f => input_name_ok (base f)) files ->
  Forall (fun f => join2 (dir parPath) (base f) = f) files ->
  (forall f d, In f files -> fs_lookup fs f = Some d -> N.of_nat (length d) < 2^64 /\ wf_bytes d) ->
  par1_any_damage md5 parPath files nv fs (io_fs st') lostv fs2 ->
  par1_repair md5 parPath dbl (io_init fs2 []) = ((r, rp), st3) ->
  let bad := filter (fun f => negb (orig_at fs fs2 f)) files in
  let kept := (Nat.min nv 99 - length lostv)%nat in
  ((length bad <= kept)%nat ->
     (r = Ok tt /\
      (forall f d, In f files -> fs_lookup fs f = Some d -> fs_lookup (io_fs st3) f = Some d) /\
      rp = bad /\
      (forall p, ~ In p rp -> fs_lookup (io_fs st3) p = fs_lookup fs2 p))
     \/ (r = Err ESingular /\ io_fs st3 = fs2 /\ rp = [])) /\
  ((kept < length bad)%nat ->
     r = Err ENotEnoughParity /\ io_fs st3 = fs2 /\ rp = []).
Proof.
  intros md5 md5_len parPath files nvol fs st' lostv fs2 dbl r rp st3 HC nv Hnames Hjoin Hlens Hdmg HR bad kept.
  destruct (par1_damage_any_load md5 md5_len parPath files nvol fs st' lostv fs2 HC Hnames Hjoin
              (fun f d Hin Hl => proj1 (Hlens f d Hin Hl)) Hdmg)
    as (datas & v & st1 & HF & HL & Hne & Hsz & Hcap & Hnv & Hndf & PL & Hs1 & Hf1).
  fold nv in Hcap, Hnv, PL.
  destruct Hdmg as ((Hndv & Hrange & _) & _).
  set (np := Nat.min nv 99) in *.
  set (Q := orig_at fs fs2) in *.
  set (keep := map Q files) in *.
  set (kv := vmask lostv np) in *.
  assert (Hkept : kept = (np - length lostv)%nat) by reflexivity.
  assert (Hkl : length keep = length datas) by (unfold keep; rewrite map_length; exact HL).
  assert (Hkvl : length kv = np) by apply vmask_length.
  rewrite Forall_forall in Hjoin.
  set (size := max_len datas) in *. set (D := map (pad size) datas) in *.
  set (nd := length datas) in *.
  set (vs := par1_encode nd np D) in *.
  set (entries := mk_entries md5 (map base files) datas) in *.
  set (m := (N.to_nat (N.min (256 - N.of_nat nd) 99) - np)%nat) in *.
  assert (Hge : Forall (fun d : bytes => (length d <= size)%nat) datas) by apply max_len_ge.
  assert (HD : Forall (fun x : bytes => length x = size) D).
  { unfold D. apply Forall_forall. intros x Hx. apply in_map_iff in Hx. destruct Hx as (d & <- & Hd).
    apply pad_length. rewrite Forall_forall in Hge. exact (Hge d Hd). }
  assert (HDl : length D = nd) by (unfold D; apply map_length).
  assert (HDne : D <> []) by (unfold D; destruct datas; [congruence|discriminate]).
  destruct (par1_encode_shape nd np D size HDne HD) as [Lvs _]. fold vs in Lvs.
  assert (Hnp : (0 < np <= nv)%nat) by (unfold np; lia).
  assert (Hnd : (0 < nd)%nat) by (unfold nd; destruct datas; [congruence|cbn [length]; lia]).
  assert (HwfD : wfm8 nd size D).
  { split; [exact HDl|]. apply Forall_forall. intros x Hx. split.
    - rewrite Forall_forall in HD. exact (HD x Hx).
    - unfold D in Hx. apply in_map_iff in Hx. destruct Hx as (d & <- & Hd). apply pad_wf.
      assert (W : Forall wf_bytes datas).
      { apply (Forall2_Forall_r _ _ _ _ HF). intros f d' Hin Hl. exact (proj2 (Hlens f d' Hin Hl)). }
      rewrite Forall_forall in W. exact (W d Hd). }
  (* counting *)
  pose proof (filter_bool_split keep) as Hsk. rewrite Hkl in Hsk. fold nd in Hsk.
  assert (Hfk : length (filter negb keep) = length bad).
  { unfold keep. rewrite filter_negb_map. reflexivity. }
  pose proof (filter_bool_split kv) as Hsv. rewrite Hkvl in Hsv.
  assert (Hfv : length (filter negb kv) = length lostv) by (apply vmask_false_count; assumption).
  assert (Hrp0 : length bad = 0%nat -> bad = []).
  { intros H0. apply length_zero_iff_nil. exact H0. }
  assert (Hfiles0 : length bad = 0%nat -> forall f d, In f files -> fs_lookup fs f = Some d -> fs_lookup fs2 f = Some d).
  { intros H0 f d Hin Hl. apply (orig_at_true fs fs2 f d); [|exact Hl]. fold Q. destruct (Q f) eqn:EQ; [reflexivity|]. exfalso.
    assert (Hin' : In f bad).
    { apply filter_In. split; [exact Hin|]. fold Q. rewrite EQ. reflexivity. }
    rewrite (Hrp0 H0) in Hin'. destruct Hin'. }
  destruct (existsb idb kv) eqn:Ekv.
  + (* some volume is left *)
    try rewrite Ekv in PL.
    destruct (parity_slots_shape kv vs m ltac:(lia) Ekv) as (q & Hq & Eslots & Hcq).
    rewrite Eslots in PL.
    assert (Evq : firstn q vs = par1_encode nd q D).
    { unfold vs. apply (par1_encode_firstn nd np q D size HDne HD). lia. }
    rewrite Evq in PL. set (kq := firstn q kv) in *. set (vq := par1_encode nd q D) in *.
    destruct (par1_encode_shape nd q D size HDne HD) as [LP HP]. fold vq in LP, HP.
    assert (Lkq : length kq = q) by (unfold kq; rewrite firstn_length; lia).
    match type of PL with _ = (Ok ?s0, _) => set (s := s0) in * end.
    assert (Ld : length (s_data s) = nd) by (cbn [s s_data]; rewrite erase_length by exact Hkl; reflexivity).
    assert (Lp : length (s_parity s) = q) by (cbn [s s_parity]; rewrite erase_length by lia; exact LP).
    assert (Es : s_size s = size) by reflexivity.
    unfold par1_repair in HR. rewrite PL in HR. cbv zeta in HR. rewrite Ld, Lp, Es in HR.
    destruct (Nat.eqb_spec size 0) as [E0|_]; [contradiction|].
    destruct (Nat.ltb_spec 256 (nd + q)) as [Lt|_]; [unfold nd in Lt; lia|].
    destruct (build_shards_total md5 s) as (sh & EB & Esh).
    { cbn [s s_data s_size]. apply Forall_forall. intros o Hin d ->. unfold erase in Hin.
      apply in_map_iff in Hin. destruct Hin as ([k x] & E & Hin). cbn [fst snd] in E.
      destruct k; [|discriminate E]. injection E as ->. apply in_combine_r in Hin.
      rewrite Forall_forall in Hge. exact (Hge d Hin). }
    rewrite EB in HR.
    assert (Esh' : sh = erase (keep ++ kq) (D ++ vq)).
    { rewrite Esh. cbn [s s_data s_size s_parity].
      rewrite (map_erase_opt (fun d : bytes => d ++ zeros (size - length d)) keep datas).
      change (map (fun d : bytes => d ++ zeros (size - length d)) datas) with D.
      symmetry. apply erase_app. rewrite HDl. exact Hkl. }
    assert (Hkl' : length (keep ++ kq) = (nd + q)%nat) by (rewrite app_length, Lkq, Hkl; reflexivity).
    assert (Hsl : length sh = (nd + q)%nat)         by (rewrite Esh', erase_length;
            [rewrite app_length, HDl, LP; reflexivity|rewrite Hkl', app_length, HDl, LP; reflexivity]).
    assert (Hcp : count_present sh = (length (filter idb keep) + length (filter idb kv))%nat).
    { rewrite Esh', count_present_erase by (rewrite Hkl', app_length, HDl, LP; reflexivity).
      rewrite filter_app, app_length, Hcq. reflexivity. }
    pose proof (par1_reconstruct_too_few nd q sh Hsl) as TF.
    pose proof (par1_reconstruct_sound nd q D size (keep ++ kq) Hnd ltac:(lia) ltac:(unfold nd; lia) HwfD ltac:(lia) Hkl') as S0.
    assert (S : match par1_reconstruct nd q sh with
                | Ok full => full = D ++ vq
                | Err e => e = ENotEnoughParity \/ e = ESingular
                | Panic _ => False
                end) by (rewrite Esh'; exact S0).
    clear S0.
    remember (par1_reconstruct nd q sh) as rec eqn:ER. clear ER.
    split.
    * intros Hle. destruct rec as [full|e|pq]; [left|right|contradiction].
      -- subst full.
         assert (Edbl : (if dbl then match rs_verify nd q (map Some (D ++ vq)) with Ok b => Ok b | Err x => Err x | Panic pq => Panic pq end
                         else Ok true) = Ok true).
         { destruct dbl; [|reflexivity]. unfold vq. rewrite (rs_verify_consistent nd q D size HDne HDl HD Hsz). reflexivity. }
         rewrite Edbl in HR. rewrite (firstn_app_len D vq nd HDl) in HR.
         change (s_saved s) with (mk_entries md5 (map base files) datas) in HR.
         change (s_data s) with (erase (map Q files) datas) in HR.
         destruct (write_repaired_exact md5 parPath size Q files datas [] st1 Hs1 HL) as (rp' & st'' & EW & Hfs3 & Hrp).
         { apply Forall_forall. intros f Hin. split; [apply base_base|exact (Hjoin f Hin)]. }
         { exact Hge. }
         fold D in EW. rewrite EW in HR. injection HR as <- <- <-.
         split; [reflexivity|]. split; [|split].
         2:{ rewrite Hrp. cbn [app]. exact (map_fst_filter_combine (fun f => negb (Q f)) files datas HL). }
         2:{ intros p Hp. rewrite Hfs3, Hf1. apply apply_writes_lookup_other. rewrite Hrp in Hp. exact Hp. }
         intros f d Hin Hl. rewrite Hfs3, Hf1.
         destruct (Forall2_in_l _ _ _ HF f Hin) as (d' & Hin' & Hl'). rewrite Hl in Hl'. injection Hl' as <-.
         destruct (Q f) eqn:EQ.
         ++ rewrite apply_writes_lookup_other; [exact (orig_at_true fs fs2 f d EQ Hl)|].
            intros Hm. apply in_map_iff in Hm. destruct Hm as ([f2 d2] & E & Hm). cbn [fst] in E. subst f2.
            apply filter_In in Hm. destruct Hm as [_ Hq']. cbn [fst] in Hq'. rewrite EQ in Hq'. discriminate Hq'.
         ++ apply apply_writes_lookup.
            { apply NoDup_map_filter. rewrite (map_fst_combine_eq files datas HL). exact Hndf. }
            apply filter_In. split; [exact Hin'|]. cbn [fst]. rewrite EQ. reflexivity.
      -- destruct S as [-> | ->].
         ++ exfalso. pose proof (proj1 TF eq_refl) as Hlt. lia.
         ++ injection HR as <- <- <-. split; [reflexivity|]. split; [exact Hf1|reflexivity].
    * intros Hlt. assert (Erec : rec = Err ENotEnoughParity) by (apply TF; lia). subst rec.
      injection HR as <- <- <-. split; [reflexivity|]. split; [exact Hf1|reflexivity].
  + (* no volume is left: nothing can be reconstructed *)
    try rewrite Ekv in PL.
    assert (Htv : length (filter idb kv) = 0%nat) by (apply existsb_filter_zero; exact Ekv).
    match type of PL with _ = (Ok ?s0, _) => set (s := s0) in * end.
    unfold par1_repair in HR. rewrite PL in HR. cbv zeta in HR.
    change (s_size s) with 0%nat in HR. cbn [Nat.eqb] in HR.
    change (s_data s) with (erase keep datas) in HR.
    rewrite (count_none1_erase keep datas Hkl), Hfk in HR.
    split.
    * intros Hle. assert (H0 : length bad = 0%nat) by lia. rewrite H0 in HR. cbn [Nat.eqb] in HR.
      injection HR as <- <- <-. left. split; [reflexivity|]. split; [|split; [symmetry; apply Hrp0; exact H0|]].
      -- intros f d Hin Hl. rewrite Hf1. apply Hfiles0; assumption.
      -- intros p _. rewrite Hf1. reflexivity.
    * intros Hlt. destruct (Nat.eqb_spec (length bad) 0) as [E0|_]; [lia|].
      injection HR as <- <- <-. split; [reflexivity|]. split; [exact Hf1|reflexivity].
Qed.

Print Assumptions par1_damage_any_general.

(* T1.  At most as many data paths without the original bytes as volumes kept: Repair restores EVERY data file byte for
   byte, reports exactly the paths that did not hold the original, changes no other path - or fails with the singular
   error and writes nothing. *)
Theorem par1_create_damage_any_repair : forall md5, (forall x, length (md5 x) = 16%nat) ->
  forall parPath files nvol fs st' lostv fs2 dbl r rp st3,
  par1_create md5 parPath files nvol (io_init fs []) = (Ok tt, st') ->
  let nv := if (nvol <=? 0)%Z then 3%nat else Z.to_nat nvol in
  Forall (fun f => input_name_ok (base f)) files ->
  Forall (fun f => join2 (dir parPath) (base f) = f) files ->
  (forall f d, In f files -> fs_lookup fs f = Some d -> N.of_nat (length d) < 2^64 /\ wf_bytes d) ->
  par1_any_damage md5 parPath files nv fs (io_fs st') lostv fs2 ->
  let bad := filter (fun f => negb (orig_at fs fs2 f)) files in
  (length bad <= Nat.min nv 99 - length lostv)%nat ->
  par1_repair md5 parPath dbl (io_init fs2 []) = ((r, rp), st3) ->
  (r = Ok tt /\
   (forall f d, In f files -> fs_lookup fs f = Some d -> fs_lookup (io_fs st3) f = Some d) /\
   rp = bad /\
   (forall p, ~ In p rp -> fs_lookup (io_fs st3) p = fs_lookup fs2 p))
  \/ (r = Err ESingular /\ io_fs st3 = fs2 /\ rp = []).
Proof.
  intros md5 md5_len parPath files nvol fs st' lostv fs2 dbl r rp st3 HC nv Hnames Hjoin Hlens Hdmg bad Hcount HR.
  destruct (par1_damage_any_general md5 md5_len parPath files nvol fs st' lostv fs2 dbl r rp st3 HC Hnames Hjoin Hlens
              Hdmg HR) as [G _].
  exact (G Hcount).
Qed.

(* T3.  More data paths without the original bytes than volumes kept: the not-enough error, nothing written. *)
Theorem par1_create_damage_any_too_many : forall md5, (forall x, length (md5 x) = 16%nat) ->
  forall parPath files nvol fs st' lostv fs2 dbl r rp st3,
  par1_create md5 parPath files nvol (io_init fs []) = (Ok tt, st') ->
  let nv := if (nvol <=? 0)%Z then 3%nat else Z.to_nat nvol in
  Forall (fun f => input_name_ok (base f)) files ->
  Forall (fun f => join2 (dir parPath) (base f) = f) files ->
  (forall f d, In f files -> fs_lookup fs f = Some d -> N.of_nat (length d) < 2^64 /\ wf_bytes d) ->
  par1_any_damage md5 parPath files nv fs (io_fs st') lostv fs2 ->
  let bad := filter (fun f => negb (orig_at fs fs2 f)) files in
  (Nat.min nv 99 - length lostv < length bad)%nat ->
  par1_repair md5 parPath dbl (io_init fs2 []) = ((r, rp), st3) ->
  r = Err ENotEnoughParity /\ io_fs st3 = fs2 /\ rp = [].
Proof.
  intros md5 md5_len parPath files nvol fs st' lostv fs2 dbl r rp st3 HC nv Hnames Hjoin Hlens Hdmg bad Hcount HR.
  destruct (par1_damage_any_general md5 md5_len parPath files nvol fs st' lostv fs2 dbl r rp st3 HC Hnames Hjoin Hlens
              Hdmg HR) as [_ G].
  exact (G Hcount).
Qed.

Print Assumptions par1_create_damage_any_repair.
Print Assumptions par1_create_damage_any_too_many.

(** * T2. CREATE, DAMAGE ANYTHING, VERIFY *)

(* Verify on the damaged state returns Ok and counts truthfully: unusable = the data paths that do not hold the original
   bytes, usable = the rest, usable volumes = the volumes kept; it writes nothing; the verdict is `all` exactly when
   nothing is unusable (and false without the full check). *)
Theorem par1_create_damage_any_verify : forall md5, (forall x, length (md5 x) = 16%nat) ->
  forall parPath files nvol fs st' lostv fs2 all,
  par1_create md5 parPath files nvol (io_init fs []) = (Ok tt, st') ->
  let nv := if (nvol <=? 0)%Z then 3%nat else Z.to_nat nvol in
  Forall (fun f => input_name_ok (base f)) files ->
  Forall (fun f => join2 (dir parPath) (base f) = f) files ->
  (forall f d, In f files -> fs_lookup fs f = Some d -> N.of_nat (length d) < 2^64) ->
  par1_any_damage md5 parPath files nv fs (io_fs st') lostv fs2 ->
  let bad := filter (fun f => negb (orig_at fs fs2 f)) files in
  exists c ok st2, par1_verify md5 parPath all (io_init fs2 []) = (Ok (c, ok), st2) /\
    fc_unusable c = length bad /\ fc_usable c = (length files - length bad)%nat /\
    fc_pusable c = (Nat.min nv 99 - length lostv)%nat /\
    io_fs st2 = fs2 /\
    ok = all && Nat.eqb (length bad) 0 && Nat.eqb (fc_punusable c) 0.
Proof.
  intros md5 md5_len parPath files nvol fs st' lostv fs2 all HC nv Hnames Hjoin Hlens Hdmg bad.
  destruct (par1_damage_any_load md5 md5_len parPath files nvol fs st' lostv fs2 HC Hnames Hjoin Hlens Hdmg)
    as (datas & v & st1 & HF & HL & Hne & Hsz & Hcap & Hnv & Hndf & PL & Hs1 & Hf1).
  fold nv in Hcap, Hnv, PL.
  destruct Hdmg as ((Hndv & Hrange & _) & _).
  set (np := Nat.min nv 99) in *.
  set (Q := orig_at fs fs2) in *.
  set (keep := map Q files) in *.
  set (kv := vmask lostv np) in *.
  assert (Hkl : length keep = length datas) by (unfold keep; rewrite map_length; exact HL).
  assert (Hkvl : length kv = np) by apply vmask_length.
  set (size := max_len datas) in *. set (D := map (pad size) datas) in *.
  set (nd := length datas) in *.
  set (vs := par1_encode nd np D) in *.
  set (m := (N.to_nat (N.min (256 - N.of_nat nd) 99) - np)%nat) in *.
  assert (HD : Forall (fun x : bytes => length x = size) D).
  { unfold D. apply Forall_forall. intros x Hx. apply in_map_iff in Hx. destruct Hx as (d & <- & Hd).
    apply pad_length. pose proof (max_len_ge datas) as G. rewrite Forall_forall in G. exact (G d Hd). }
  assert (HDne : D <> []) by (unfold D; destruct datas; [congruence|discriminate]).
  destruct (par1_encode_shape nd np D size HDne HD) as [Lvs _]. fold vs in Lvs.
  assert (Hnp : (0 < np <= nv)%nat) by (unfold np; lia).
  pose proof (filter_bool_split keep) as Hsk. rewrite Hkl in Hsk. fold nd in Hsk.
  assert (Hfk : length (filter negb keep) = length bad).
  { unfold keep. rewrite filter_negb_map. reflexivity. }
  pose proof (filter_bool_split kv) as Hsv. rewrite Hkvl in Hsv.
  assert (Hfv : length (filter negb kv) = length lostv) by (apply vmask_false_count; assumption).
  assert (U1 : count_none1 (erase keep datas) = length bad).
  { rewrite (count_none1_erase keep datas Hkl). exact Hfk. }
  assert (U3 : count_present (erase keep datas) = (length files - length bad)%nat).
  { rewrite (count_present_erase keep datas Hkl). unfold nd in Hsk. lia. }
  destruct (existsb idb kv) eqn:Ekv.
  - (* some volume is left *)
    try rewrite Ekv in PL.
    destruct (parity_slots_shape kv vs m ltac:(lia) Ekv) as (q & Hq & Eslots & Hcq).
    rewrite Eslots in PL.
    assert (Evq : firstn q vs = par1_encode nd q D).
    { unfold vs. apply (par1_encode_firstn nd np q D size HDne HD). lia. }
    rewrite Evq in PL. set (kq := firstn q kv) in *. set (vq := par1_encode nd q D) in *.
    destruct (par1_encode_shape nd q D size HDne HD) as [LP HP]. fold vq in LP, HP.
    assert (Lkq : length kq = q) by (unfold kq; rewrite firstn_length; lia).
    match type of PL with _ = (Ok ?s0, _) => set (s := s0) in * end.
    assert (C1 : fc_unusable (file_counts s) = length bad) by exact U1.
    assert (C3 : fc_usable (file_counts s) = (length files - length bad)%nat) by exact U3.
    assert (C4 : fc_pusable (file_counts s) = (np - length lostv)%nat).
    { change (fc_pusable (file_counts s)) with (count_present (erase kq vq)).
      rewrite count_present_erase by lia. rewrite Hcq. lia. }
    unfold par1_verify. rewrite PL. cbv zeta.
    destruct (all && Nat.eqb (fc_unusable (file_counts s)) 0 && Nat.eqb (fc_punusable (file_counts s)) 0) eqn:Econd.
    + (* nothing is unusable: the state is the clean one *)
      apply andb_prop in Econd. destruct Econd as [Econd E3]. apply andb_prop in Econd. destruct Econd as [E1 E2].
      apply Nat.eqb_eq in E2, E3.
      assert (Ed : s_data s = map Some datas).
      { change (s_data s) with (erase keep datas). apply erase_no_none; [exact Hkl|exact E2]. }
      assert (Ep : s_parity s = map Some vq).
      { change (s_parity s) with (erase kq vq). apply erase_no_none; [lia|exact E3]. }
      destruct (verify_on_created_state md5 s datas q all Hne Hsz Ed eq_refl Ep) as (EV & _).
      rewrite E1, E2, E3 in EV. cbn [Nat.eqb andb] in EV.
      exists (file_counts s).
      destruct (build_shards s) as [sh|x|pq]; try discriminate EV.
      destruct (rs_verify (length (s_data s)) (length (s_parity s)) sh) as [b|x|pq]; try discriminate EV.
      apply Ok_inj in EV. exists b, st1. split; [reflexivity|].
      split; [exact C1|]. split; [exact C3|]. split; [exact C4|]. split; [exact Hf1|].
      injection EV as ->. rewrite <- C1, E2, E3. subst all. reflexivity.
    + exists (file_counts s), false, st1. split; [reflexivity|].
      split; [exact C1|]. split; [exact C3|]. split; [exact C4|]. split; [exact Hf1|].
      rewrite <- C1. symmetry. exact Econd.
  - (* no volume is left: the volume table is one empty slot *)
    try rewrite Ekv in PL.
    assert (Htv : length (filter idb kv) = 0%nat) by (apply existsb_filter_zero; exact Ekv).
    assert (Eslots : firstn (S (last_some_index (erase kv vs ++ repeat None m) 0 0)) (erase kv vs ++ repeat None m) = [None]).
    { rewrite (erase_all_false kv vs ltac:(lia) Ekv), <- repeat_app, last_some_index_nones.
      replace (length vs + m)%nat with (S (np - 1 + m)) by lia. reflexivity. }
    rewrite Eslots in PL.
    match type of PL with _ = (Ok ?s0, _) => set (s := s0) in * end.
    assert (C1 : fc_unusable (file_counts s) = length bad) by exact U1.
    assert (C3 : fc_usable (file_counts s) = (length files - length bad)%nat) by exact U3.
    assert (C4 : fc_pusable (file_counts s) = (np - length lostv)%nat).
    { change (fc_pusable (file_counts s)) with 0%nat. lia. }
    assert (C5 : fc_punusable (file_counts s) = 1%nat) by reflexivity.
    unfold par1_verify. rewrite PL. cbv zeta. rewrite C5. cbn [Nat.eqb]. rewrite andb_false_r.
    exists (file_counts s), false, st1. split; [reflexivity|].
    split; [exact C1|]. split; [exact C3|]. split; [exact C4|]. split; [exact Hf1|].
    rewrite C5. cbn [Nat.eqb]. rewrite andb_false_r. reflexivity.
Qed.

Print Assumptions par1_create_damage_any_verify.

(** * instances (toy hash) *)

(* Three files "x" = [1;2;3], "y" = [4;5;6;7], "z" = [9] beside "a.par", four volumes (the example set of
   Par1RoundTrip2/3.v).
   State A: "x" has a byte flipped ([1;2;4]), "y" holds ANOTHER FILE'S content (that of "z"), "z" is intact; "a.p02" is
   garbage; a stale volume of ANOTHER set lies at "a.p05".  Two data paths are not original, three volumes are kept.
   State B: as A, and "z" is deleted, "a.p03" is replaced by the foreign volume, "a.p04" is deleted: three data paths
   are not original, one volume is kept. *)
Definition d4_st' : io := snd (par1_create toy_hash ex_ix sg_files 4%Z (io_init sg_fs0 [])).
Definition d4_stateA (fs' : list (list N * bytes)) : list (list N * bytes) :=
  fs_set (fs_set (fs_set (fs_set fs' [120] [1; 2; 4]) [121] [9]) (volume_path ex_ix 2) dm_garbage) (volume_path ex_ix 5) ex_stale.
Definition d4_stateB (fs' : list (list N * bytes)) : list (list N * bytes) :=
  fs_remove [[122]; volume_path ex_ix 4] (fs_set (d4_stateA fs') (volume_path ex_ix 3) ex_stale).

Lemma d4_create : par1_create toy_hash ex_ix sg_files 4%Z (io_init sg_fs0 []) = (Ok tt, d4_st').
Proof.
  unfold d4_st'. destruct (par1_create toy_hash ex_ix sg_files 4%Z (io_init sg_fs0 [])) as [o st'] eqn:HC.
  cbn [snd]. f_equal. apply (f_equal fst) in HC. vm_compute in HC. symmetry. exact HC.
Qed.

(* the loader skips a path that holds nothing and is no directory *)
Definition absent_chk (fs : list (list N * bytes)) (k : nat) : bool :=
  match fs_lookup fs (volume_path ex_ix (N.of_nat k)) with
  | None => negb (is_dir fs (volume_path ex_ix (N.of_nat k)))
  | Some _ => false
  end.

Lemma absent_chk_skipped fs sh lo n k : forallb (absent_chk fs) (seq lo n) = true -> (lo <= k < lo + n)%nat ->
  vol_skipped toy_hash sh (N.of_nat k) (read_res fs (volume_path ex_ix (N.of_nat k))).
Proof.
  intros T Hk. rewrite forallb_forall in T. specialize (T k (proj2 (in_seq n lo k) Hk)).
  unfold absent_chk in T. left. unfold read_res.
  destruct (fs_lookup fs (volume_path ex_ix (N.of_nat k))); [discriminate T|].
  destruct (is_dir fs (volume_path ex_ix (N.of_nat k))); [discriminate T|reflexivity].
Qed.

Lemma d4_garbage_skipped fs sh k : fs_lookup fs (volume_path ex_ix (N.of_nat k)) = Some dm_garbage ->
  vol_skipped toy_hash sh (N.of_nat k) (read_res fs (volume_path ex_ix (N.of_nat k))).
Proof.
  intros H. right. exists dm_garbage. unfold read_res. rewrite H. split; [reflexivity|].
  unfold not_member. replace (read_volume toy_hash dm_garbage) with (@Err p1vol EMalformed) by (vm_compute; reflexivity).
  exact I.
Qed.

Lemma d4_stale_skipped fs k : fs_lookup fs (volume_path ex_ix (N.of_nat k)) = Some ex_stale ->
  vol_skipped toy_hash (input_set_hash toy_hash sg_fs0 sg_files) (N.of_nat k) (read_res fs (volume_path ex_ix (N.of_nat k))).
Proof.
  intros H. right. exists ex_stale. unfold read_res. rewrite H. split; [reflexivity|].
  assert (EV : exists v, read_volume toy_hash ex_stale = Ok v /\
                 bytes_eqb (v_sethash_stored v) (input_set_hash toy_hash sg_fs0 sg_files) = false)
    by (eexists; split; vm_compute; reflexivity).
  destruct EV as (v & EV & Hb). unfold not_member. rewrite EV. left. intros E.
  rewrite E, bytes_eqb_refl in Hb. discriminate Hb.
Qed.

(* the premises on the damaged state hold for A (volume 2 not kept) and for B (volumes 2, 3, 4 not kept) *)
Lemma d4_damage_A : par1_any_damage toy_hash ex_ix sg_files 4 sg_fs0 (io_fs d4_st') [2%nat] (d4_stateA (io_fs d4_st')).
Proof.
  split; [split; [|split; [|split; [|split; [|split]]]]|].
  - repeat constructor. intros [].
  - intros k [<-|[]]. cbv. lia.
  - vm_compute. reflexivity.
  - intros k Hk Hn. change (Nat.min 4 99) with 4%nat in Hk. cbn [In] in Hn.
    assert (Hc : (k = 1 \/ k = 3 \/ k = 4)%nat) by lia.
    destruct Hc as [->|[->| ->]]; vm_compute; reflexivity.
  - intros k Hk Hc. change (Nat.min (256 - length sg_files) 99) with 99%nat in Hk. change (Nat.min 4 99) with 4%nat in Hc.
    cbn [In] in Hc.
    assert (Hc' : (k = 2 \/ k = 5 \/ 6 <= k < 6 + 94)%nat) by lia.
    destruct Hc' as [->|[->|Hr]].
    + apply d4_garbage_skipped. vm_compute. reflexivity.
    + apply d4_stale_skipped. vm_compute. reflexivity.
    + apply (absent_chk_skipped _ _ 6 94); [vm_compute; reflexivity|exact Hr].
  - intros f [<-|[<-|[<-|[]]]] H; vm_compute in H; discriminate H.
  - intros f d b [<-|[<-|[<-|[]]]] Hd Hb H1 H2; vm_compute in Hd, Hb; injection Hd as <-; injection Hb as <-;
      first [reflexivity | vm_compute in H1; discriminate H1].
Qed.

Lemma d4_damage_B : par1_any_damage toy_hash ex_ix sg_files 4 sg_fs0 (io_fs d4_st') [2%nat; 3%nat; 4%nat] (d4_stateB (io_fs d4_st')).
Proof.
  split; [split; [|split; [|split; [|split; [|split]]]]|].
  - repeat constructor; cbn [In]; lia.
  - intros k Hk. cbn [In] in Hk. change (Nat.min 4 99) with 4%nat. lia.
  - vm_compute. reflexivity.
  - intros k Hk Hn. change (Nat.min 4 99) with 4%nat in Hk. cbn [In] in Hn.
    assert (Hc : k = 1%nat) by lia. subst k. vm_compute. reflexivity.
  - intros k Hk Hc. change (Nat.min (256 - length sg_files) 99) with 99%nat in Hk. change (Nat.min 4 99) with 4%nat in Hc.
    cbn [In] in Hc.
    assert (Hc' : (k = 2 \/ k = 3 \/ k = 4 \/ k = 5 \/ 6 <= k < 6 + 94)%nat) by lia.
    destruct Hc' as [->|[->|[->|[->|Hr]]]].
    + apply d4_garbage_skipped. vm_compute. reflexivity.
    + apply d4_stale_skipped. vm_compute. reflexivity.
    + apply (absent_chk_skipped _ _ 4 1); [vm_compute; reflexivity|lia].
    + apply d4_stale_skipped. vm_compute. reflexivity.
    + apply (absent_chk_skipped _ _ 6 94); [vm_compute; reflexivity|exact Hr].
  - intros f [<-|[<-|[<-|[]]]] H; vm_compute in H; try discriminate H. vm_compute. reflexivity.
  - intros f d b [<-|[<-|[<-|[]]]] Hd Hb H1 H2; vm_compute in Hd, Hb; try discriminate Hb;
      injection Hd as <-; injection Hb as <-; first [reflexivity | vm_compute in H1; discriminate H1].
Qed.

(* T1 on state A: every hypothesis holds, the theorem applies, and the computed run is its first disjunct:
   Repair (with the double check) returns Ok, reports "x" and "y", and all three files hold their original bytes;
   the garbage and the foreign volume are still where they were *)
Example par1_create_damage_any_repair_instance :
  let fs2 := d4_stateA (io_fs d4_st') in
  filter (fun f => negb (orig_at sg_fs0 fs2 f)) sg_files = [[120]; [121]] /\
  (forall dbl r rp st3, par1_repair toy_hash ex_ix dbl (io_init fs2 []) = ((r, rp), st3) ->
     (r = Ok tt /\
      (forall f d, In f sg_files -> fs_lookup sg_fs0 f = Some d -> fs_lookup (io_fs st3) f = Some d) /\
      rp = [[120]; [121]] /\
      (forall p, ~ In p rp -> fs_lookup (io_fs st3) p = fs_lookup fs2 p))
     \/ (r = Err ESingular /\ io_fs st3 = fs2 /\ rp = [])) /\
  let res := par1_repair toy_hash ex_ix true (io_init fs2 []) in
  fst res = (Ok tt, [[120]; [121]]) /\
  map (fs_lookup (io_fs (snd res))) sg_files = [Some [1; 2; 3]; Some [4; 5; 6; 7]; Some [9]] /\
  fs_lookup (io_fs (snd res)) (volume_path ex_ix 2) = Some dm_garbage /\
  fs_lookup (io_fs (snd res)) (volume_path ex_ix 5) = Some ex_stale.
Proof.
  cbv zeta.
  assert (Hbad : filter (fun f => negb (orig_at sg_fs0 (d4_stateA (io_fs d4_st')) f)) sg_files = [[120]; [121]])
    by (vm_compute; reflexivity).
  split; [exact Hbad|]. split.
  - intros dbl r rp st3 HR. destruct sg_premises as (S1 & S2 & S3 & _).
    pose proof (par1_create_damage_any_repair toy_hash toy_hash_len ex_ix sg_files 4%Z sg_fs0 d4_st' [2%nat]
                  (d4_stateA (io_fs d4_st')) dbl r rp st3 d4_create S1 S2 S3 d4_damage_A) as T.
    cbv zeta in T. rewrite Hbad in T. apply T; [cbv; lia|exact HR].
  - repeat split; vm_compute; reflexivity.
Qed.

(* T2 on states A and B: the theorem applies; the computed counts *)
Example par1_create_damage_any_verify_instance :
  let fsA := d4_stateA (io_fs d4_st') in
  let fsB := d4_stateB (io_fs d4_st') in
  (forall all, exists c ok st2, par1_verify toy_hash ex_ix all (io_init fsA []) = (Ok (c, ok), st2) /\
     fc_unusable c = 2%nat /\ fc_usable c = 1%nat /\ fc_pusable c = 3%nat /\ io_fs st2 = fsA /\ ok = false) /\
  (forall all, exists c ok st2, par1_verify toy_hash ex_ix all (io_init fsB []) = (Ok (c, ok), st2) /\
     fc_unusable c = 3%nat /\ fc_usable c = 0%nat /\ fc_pusable c = 1%nat /\ io_fs st2 = fsB /\ ok = false) /\
  fst (par1_verify toy_hash ex_ix true (io_init fsA [])) =
    Ok ({| fc_usable := 1; fc_unusable := 2; fc_pusable := 3; fc_punusable := 1 |}, false) /\
  fst (par1_verify toy_hash ex_ix true (io_init fsB [])) =
    Ok ({| fc_usable := 0; fc_unusable := 3; fc_pusable := 1; fc_punusable := 0 |}, false).
Proof.
  cbv zeta. destruct sg_premises as (S1 & S2 & S3 & _).
  assert (S3' : forall f d, In f sg_files -> fs_lookup sg_fs0 f = Some d -> N.of_nat (length d) < 2^64)
    by (intros f d Hin Hl; exact (proj1 (S3 f d Hin Hl))).
  assert (HbadA : filter (fun f => negb (orig_at sg_fs0 (d4_stateA (io_fs d4_st')) f)) sg_files = [[120]; [121]])
    by (vm_compute; reflexivity).
  assert (HbadB : filter (fun f => negb (orig_at sg_fs0 (d4_stateB (io_fs d4_st')) f)) sg_files = sg_files)
    by (vm_compute; reflexivity).
  split; [|split; [|split; vm_compute; reflexivity]].
  - intros all.
    destruct (par1_create_damage_any_verify toy_hash toy_hash_len ex_ix sg_files 4%Z sg_fs0 d4_st' [2%nat]
                (d4_stateA (io_fs d4_st')) all d4_create S1 S2 S3' d4_damage_A) as (c & ok & st2 & EV & C1 & C2 & C3 & C4 & C5).
    rewrite HbadA in C1, C2, C5. exists c, ok, st2. repeat (split; [assumption|]).
    rewrite C5. cbn [length Nat.eqb]. rewrite andb_false_r. reflexivity.
  - intros all.
    destruct (par1_create_damage_any_verify toy_hash toy_hash_len ex_ix sg_files 4%Z sg_fs0 d4_st' [2%nat; 3%nat; 4%nat]
                (d4_stateB (io_fs d4_st')) all d4_create S1 S2 S3' d4_damage_B) as (c & ok & st2 & EV & C1 & C2 & C3 & C4 & C5).
    rewrite HbadB in C1, C2, C5. exists c, ok, st2. repeat (split; [assumption|]).
    rewrite C5. cbn [length Nat.eqb sg_files]. rewrite andb_false_r. reflexivity.
Qed.

(* T3 on state B: three data paths are not original, one volume is kept: the not-enough error, nothing written *)
Example par1_create_damage_any_too_many_instance :
  let fs2 := d4_stateB (io_fs d4_st') in
  filter (fun f => negb (orig_at sg_fs0 fs2 f)) sg_files = sg_files /\
  (forall dbl r rp st3, par1_repair toy_hash ex_ix dbl (io_init fs2 []) = ((r, rp), st3) ->
     r = Err ENotEnoughParity /\ io_fs st3 = fs2 /\ rp = []) /\
  fst (par1_repair toy_hash ex_ix true (io_init fs2 [])) = (Err ENotEnoughParity, []).
Proof.
  cbv zeta.
  assert (Hbad : filter (fun f => negb (orig_at sg_fs0 (d4_stateB (io_fs d4_st')) f)) sg_files = sg_files)
    by (vm_compute; reflexivity).
  split; [exact Hbad|]. split; [|vm_compute; reflexivity].
  intros dbl r rp st3 HR. destruct sg_premises as (S1 & S2 & S3 & _).
  pose proof (par1_create_damage_any_too_many toy_hash toy_hash_len ex_ix sg_files 4%Z sg_fs0 d4_st' [2%nat; 3%nat; 4%nat]
                (d4_stateB (io_fs d4_st')) dbl r rp st3 d4_create S1 S2 S3 d4_damage_B) as T.
  cbv zeta in T. rewrite Hbad in T. apply T; [cbv; lia|exact HR].
Qed.

(** * the hash premise is needed *)

(* Without par1_hash_local the statements are FALSE of the model (and of the format: PAR 1.0 identifies a file by its
   MD5 and 16k-MD5 only).  With the toy hash, "x" = [1;2;3] replaced by [1;2;3;0] - other bytes, another length, the same
   two hashes: every other premise holds with one data path not original and four volumes kept, but Verify counts the
   file usable (and its full check says ok), and Repair returns Ok, reports nothing and leaves the other bytes. *)
Example par1_damage_any_without_hash_premise_refuted :
  let fs' := io_fs d4_st' in
  let fs2 := fs_set fs' [120] [1; 2; 3; 0] in
  par1_damage_shape toy_hash ex_ix sg_files 4 sg_fs0 fs' [] fs2 /\
  ~ par1_hash_local toy_hash sg_files sg_fs0 fs2 /\
  filter (fun f => negb (orig_at sg_fs0 fs2 f)) sg_files = [[120]] /\
  fst (par1_verify toy_hash ex_ix true (io_init fs2 [])) =
    Ok ({| fc_usable := 3; fc_unusable := 0; fc_pusable := 4; fc_punusable := 0 |}, true) /\
  fst (par1_repair toy_hash ex_ix true (io_init fs2 [])) = (Ok tt, []) /\
  fs_lookup (io_fs (snd (par1_repair toy_hash ex_ix true (io_init fs2 [])))) [120] = Some [1; 2; 3; 0].
Proof.
  cbv zeta. split; [|split; [|repeat split; vm_compute; reflexivity]].
  - split; [|split; [|split; [|split; [|split]]]].
    + constructor.
    + intros k [].
    + vm_compute. reflexivity.
    + intros k Hk _. change (Nat.min 4 99) with 4%nat in Hk.
      assert (Hc : (k = 1 \/ k = 2 \/ k = 3 \/ k = 4)%nat) by lia.
      destruct Hc as [->|[->|[->| ->]]]; vm_compute; reflexivity.
    + intros k Hk Hc. change (Nat.min (256 - length sg_files) 99) with 99%nat in Hk. change (Nat.min 4 99) with 4%nat in Hc.
      cbn [In] in Hc. apply (absent_chk_skipped _ _ 5 95); [vm_compute; reflexivity|lia].
    + intros f [<-|[<-|[<-|[]]]] H; vm_compute in H; discriminate H.
  - intros H. specialize (H [120] [1; 2; 3] [1; 2; 3; 0] ltac:(left; reflexivity) ltac:(vm_compute; reflexivity)
                           ltac:(vm_compute; reflexivity) ltac:(vm_compute; reflexivity) ltac:(vm_compute; reflexivity)).
    discriminate H.
Qed.

Print Assumptions par1_create_damage_any_repair_instance.
Print Assumptions par1_create_damage_any_verify_instance.
Print Assumptions par1_create_damage_any_too_many_instance.
Print Assumptions par1_damage_any_without_hash_premise_refuted.

(** * the statements for Props/C04.v, with every premise spelled out *)

(* T1.  After Create, ANY later state fs2 with the index and the kept volumes as written, every other probed volume
   path skipped by the loader (gone, unparsable, foreign), and ANYTHING at the data paths (the original, nothing, other
   bytes) - under the local hash premise: if the data paths that do not hold the original do not outnumber the kept
   volumes, Repair returns Ok with EVERY data file byte for byte, reports exactly those paths and changes no other path;
   or it returns the singular error and writes nothing. *)
Theorem C04_create_damage_repair_restores : forall md5, (forall x, length (md5 x) = 16%nat) ->
  forall parPath files nvol fs st' lostv fs2 dbl r rp st3,
  par1_create md5 parPath files nvol (io_init fs []) = (Ok tt, st') ->
  let nv := if (nvol <=? 0)%Z then 3%nat else Z.to_nat nvol in
  let np := Nat.min nv 99 in
  let vp := fun k : nat => volume_path parPath (N.of_nat k) in
  Forall (fun f => input_name_ok (base f)) files ->
  Forall (fun f => join2 (dir parPath) (base f) = f) files ->
  (forall f d, In f files -> fs_lookup fs f = Some d -> N.of_nat (length d) < 2^64 /\ wf_bytes d) ->
  (* the volumes not kept *)
  NoDup lostv -> (forall k, In k lostv -> (1 <= k <= np)%nat) ->
  (* the state before Repair: index and kept volumes as Create wrote them *)
  fs_lookup fs2 parPath = fs_lookup (io_fs st') parPath ->
  (forall k, (1 <= k <= np)%nat -> ~ In k lostv -> fs_lookup fs2 (vp k) = fs_lookup (io_fs st') (vp k)) ->
  (* every other volume path the loader probes: nothing there, or a file that is not a volume of this set *)
  (forall k, (1 <= k <= Nat.min (256 - length files) 99)%nat -> In k lostv \/ (np < k)%nat ->
     read_res fs2 (vp k) = Err ENotExist \/
     exists b, read_res fs2 (vp k) = Ok b /\
       match read_volume md5 b with
       | Ok v => v_sethash_stored v <> input_set_hash md5 fs files \/ v_number v <> N.of_nat k
       | Err _ => True
       | Panic _ => False
       end) ->
  (* the data paths hold anything; an empty one is no directory *)
  (forall f, In f files -> fs_lookup fs2 f = None -> is_dir fs2 f = false) ->
  (* local collision-freeness for the bytes actually present *)
  (forall f d b, In f files -> fs_lookup fs f = Some d -> fs_lookup fs2 f = Some b ->
     md5 b = md5 d -> hash16k md5 b = hash16k md5 d -> b = d) ->
  let bad := filter (fun f => negb (orig_at fs fs2 f)) files in
  (length bad <= np - length lostv)%nat ->
  par1_repair md5 parPath dbl (io_init fs2 []) = ((r, rp), st3) ->
  (r = Ok tt /\
   (forall f d, In f files -> fs_lookup fs f = Some d -> fs_lookup (io_fs st3) f = Some d) /\
   rp = bad /\
   (forall p, ~ In p rp -> fs_lookup (io_fs st3) p = fs_lookup fs2 p))
  \/ (r = Err ESingular /\ io_fs st3 = fs2 /\ rp = []).
Proof.
  intros md5 md5_len parPath files nvol fs st' lostv fs2 dbl r rp st3 HC nv np vp Hnames Hjoin Hlens H1 H2 H3 H4 H5 H6 H7
         bad Hcount HR.
  apply (par1_create_damage_any_repair md5 md5_len parPath files nvol fs st' lostv fs2 dbl r rp st3 HC Hnames Hjoin Hlens);
    [|exact Hcount|exact HR].
  split; [|exact H7]. repeat (split; [assumption|]). exact H6.
Qed.

(* T2.  Verify in such a state counts truthfully. *)
Theorem C04_create_damage_verify_counts : forall md5, (forall x, length (md5 x) = 16%nat) ->
  forall parPath files nvol fs st' lostv fs2 all,
  par1_create md5 parPath files nvol (io_init fs []) = (Ok tt, st') ->
  let nv := if (nvol <=? 0)%Z then 3%nat else Z.to_nat nvol in
  let np := Nat.min nv 99 in
  let vp := fun k : nat => volume_path parPath (N.of_nat k) in
  Forall (fun f => input_name_ok (base f)) files ->
  Forall (fun f => join2 (dir parPath) (base f) = f) files ->
  (forall f d, In f files -> fs_lookup fs f = Some d -> N.of_nat (length d) < 2^64) ->
  NoDup lostv -> (forall k, In k lostv -> (1 <= k <= np)%nat) ->
  fs_lookup fs2 parPath = fs_lookup (io_fs st') parPath ->
  (forall k, (1 <= k <= np)%nat -> ~ In k lostv -> fs_lookup fs2 (vp k) = fs_lookup (io_fs st') (vp k)) ->
  (forall k, (1 <= k <= Nat.min (256 - length files) 99)%nat -> In k lostv \/ (np < k)%nat ->
     read_res fs2 (vp k) = Err ENotExist \/
     exists b, read_res fs2 (vp k) = Ok b /\
       match read_volume md5 b with
       | Ok v => v_sethash_stored v <> input_set_hash md5 fs files \/ v_number v <> N.of_nat k
       | Err _ => True
       | Panic _ => False
       end) ->
  (forall f, In f files -> fs_lookup fs2 f = None -> is_dir fs2 f = false) ->
  (forall f d b, In f files -> fs_lookup fs f = Some d -> fs_lookup fs2 f = Some b ->
     md5 b = md5 d -> hash16k md5 b = hash16k md5 d -> b = d) ->
  let bad := filter (fun f => negb (orig_at fs fs2 f)) files in
  exists c ok st2, par1_verify md5 parPath all (io_init fs2 []) = (Ok (c, ok), st2) /\
    fc_unusable c = length bad /\ fc_usable c = (length files - length bad)%nat /\
    fc_pusable c = (np - length lostv)%nat /\
    io_fs st2 = fs2 /\
    ok = all && Nat.eqb (length bad) 0 && Nat.eqb (fc_punusable c) 0.
Proof.
  intros md5 md5_len parPath files nvol fs st' lostv fs2 all HC nv np vp Hnames Hjoin Hlens H1 H2 H3 H4 H5 H6 H7 bad.
  apply (par1_create_damage_any_verify md5 md5_len parPath files nvol fs st' lostv fs2 all HC Hnames Hjoin Hlens).
  split; [|exact H7]. repeat (split; [assumption|]). exact H6.
Qed.

(* T3.  Beyond capacity: the not-enough error, nothing written. *)
Theorem C04_create_damage_too_many : forall md5, (forall x, length (md5 x) = 16%nat) ->
  forall parPath files nvol fs st' lostv fs2 dbl r rp st3,
  par1_create md5 parPath files nvol (io_init fs []) = (Ok tt, st') ->
  let nv := if (nvol <=? 0)%Z then 3%nat else Z.to_nat nvol in
  let np := Nat.min nv 99 in
  let vp := fun k : nat => volume_path parPath (N.of_nat k) in
  Forall (fun f => input_name_ok (base f)) files ->
  Forall (fun f => join2 (dir parPath) (base f) = f) files ->
  (forall f d, In f files -> fs_lookup fs f = Some d -> N.of_nat (length d) < 2^64 /\ wf_bytes d) ->
  NoDup lostv -> (forall k, In k lostv -> (1 <= k <= np)%nat) ->
  fs_lookup fs2 parPath = fs_lookup (io_fs st') parPath ->
  (forall k, (1 <= k <= np)%nat -> ~ In k lostv -> fs_lookup fs2 (vp k) = fs_lookup (io_fs st') (vp k)) ->
  (forall k, (1 <= k <= Nat.min (256 - length files) 99)%nat -> In k lostv \/ (np < k)%nat ->
     read_res fs2 (vp k) = Err ENotExist \/
     exists b, read_res fs2 (vp k) = Ok b /\
       match read_volume md5 b with
       | Ok v => v_sethash_stored v <> input_set_hash md5 fs files \/ v_number v <> N.of_nat k
       | Err _ => True
       | Panic _ => False
       end) ->
  (forall f, In f files -> fs_lookup fs2 f = None -> is_dir fs2 f = false) ->
  (forall f d b, In f files -> fs_lookup fs f = Some d -> fs_lookup fs2 f = Some b ->
     md5 b = md5 d -> hash16k md5 b = hash16k md5 d -> b = d) ->
  let bad := filter (fun f => negb (orig_at fs fs2 f)) files in
  (np - length lostv < length bad)%nat ->
  par1_repair md5 parPath dbl (io_init fs2 []) = ((r, rp), st3) ->
  r = Err ENotEnoughParity /\ io_fs st3 = fs2 /\ rp = [].
Proof.
  intros md5 md5_len parPath files nvol fs st' lostv fs2 dbl r rp st3 HC nv np vp Hnames Hjoin Hlens H1 H2 H3 H4 H5 H6 H7
         bad Hcount HR.
  apply (par1_create_damage_any_too_many md5 md5_len parPath files nvol fs st' lostv fs2 dbl r rp st3 HC Hnames Hjoin Hlens);
    [|exact Hcount|exact HR].
  split; [|exact H7]. repeat (split; [assumption|]). exact H6.
Qed.

Print Assumptions C04_create_damage_repair_restores.
Print Assumptions C04_create_damage_verify_counts.
Print Assumptions C04_create_damage_too_many.
