(* The independent specification-side PAR2 validator (Model/Par2Spec.v, valid_set) accepts
   everything the writer model (Model/Par2.v, create_outputs) emits.
   1. s_parse_frames: the independent parser reads what the writer frames;
   2. file ids: file_id_of (spec) = fi_id (data_file_info ...) (writer);
   3. the recovery-set order: numeric little-endian order = fileIDLess on 16-byte ids;
   4. slices, FileDesc and IFSC bodies;
   5. constants: s_consts = generators_first;
   6. recovery blocks: s_block = row of gen_parity;
   7. the exponent union;
   8. valid_file for the index and every volume, then valid_set. *)
From Coq Require Import Lia ZifyN ZifyNat Permutation.
From Gopar Require Import Model.Base Model.GF16 Model.Matrix Model.RS16 Model.CRC Model.GoPath Model.FS Model.Par2
     Model.Par2Spec
     Proofs.GF16Facts Proofs.GF16Tables Proofs.LinAlg Proofs.Matrix16 Proofs.RS16Facts
     Proofs.ParallelFacts Proofs.ParallelLink Proofs.GoPathFacts Proofs.CRCFacts Proofs.ScanFacts
     Proofs.Par2Facts Proofs.Par2Verify Proofs.Par2Faults Proofs.Par2Create Proofs.Par2Layout
     Proofs.CreatePerm Proofs.Par2Clean.
Open Scope N_scope.
Set Default Timeout 300.

(** * small helpers *)

Lemma beq_refl : forall a, beq a a = true.
Proof. induction a as [|x a IH]; [reflexivity|]. cbn [beq]. rewrite N.eqb_refl, IH. reflexivity. Qed.

Lemma beq_eq : forall a b, beq a b = true -> a = b.
Proof.
  induction a as [|x a IH]; intros [|y b] H; cbn [beq] in H; try discriminate; [reflexivity|].
  apply andb_true_iff in H. destruct H as [H1 H2]. apply N.eqb_eq in H1. subst y. f_equal. apply IH. exact H2.
Qed.

Lemma beq_neq a b : a <> b -> beq a b = false.
Proof. intros H. destruct (beq a b) eqn:E; [|reflexivity]. apply beq_eq in E. contradiction. Qed.

Lemma beq_words_refl : forall a, beq_words a a = true.
Proof. induction a as [|x a IH]; [reflexivity|]. cbn [beq_words]. rewrite N.eqb_refl, IH. reflexivity. Qed.

Lemma words_le_eq : forall b, words_le b = le_words b.
Proof. reflexivity. Qed.

Lemma mod4_of_nat n : (n mod 4 = 0)%nat -> N.of_nat n mod 4 = 0.
Proof.
  intros H. change 4 with (N.of_nat 4). rewrite <- Nat2N.inj_mod. rewrite H. reflexivity.
Qed.

(** * 1. the independent parser reads what the writer frames *)
Definition to_sp (p : apkt) : spacket := {| sp_set := pk_set p; sp_type := pk_type p; sp_body := pk_body p |}.

Section Parse.
  Variable md5 : bytes -> bytes.
  Hypothesis md5_len : forall x, length (md5 x) = 16%nat.

  Lemma s_parse_S fuel b : b <> [] ->
    s_parse md5 (S fuel) b =
      if Nat.ltb (length b) 64 then None
      else
        let len := le_decode (firstn 8 (skipn 8 b)) in
        if negb (beq (firstn 8 b) s_magic) || (len <? 64) || negb (len mod 4 =? 0) || (N.of_nat (length b) <? len) then None
        else
          let pkt := firstn (N.to_nat len) b in
          let body := skipn 64 pkt in
          let sid := firstn 16 (skipn 32 pkt) in
          let ty := firstn 16 (skipn 48 pkt) in
          if negb (beq (md5 (skipn 32 pkt)) (firstn 16 (skipn 16 pkt))) then None
          else match s_parse md5 fuel (skipn (N.to_nat len) b) with
               | Some r => Some ({| sp_set := sid; sp_type := ty; sp_body := body |} :: r)
               | None => None
               end.
  Proof. intros H. destruct b as [|x b]; [congruence|reflexivity]. Qed.

  Lemma s_parse_packet fuel setid ptype body rest :
    length setid = 16%nat -> length ptype = 16%nat -> (length body mod 4 = 0)%nat ->
    64 + N.of_nat (length body) < 2 ^ 64 ->
    s_parse md5 (S fuel) (write_packet md5 setid ptype body ++ rest) =
      match s_parse md5 fuel rest with
      | Some r => Some ({| sp_set := setid; sp_type := ptype; sp_body := body |} :: r)
      | None => None
      end.
  Proof.
    intros Hs Ht Hb Hv.
    pose proof (write_packet_length md5 md5_len setid ptype body Hs Ht) as Hwl.
    set (wp := write_packet md5 setid ptype body) in *.
    assert (Hne : wp ++ rest <> []).
    { intros E. apply (f_equal (@length N)) in E. rewrite app_length, Hwl in E. cbn [length] in E. lia. }
    rewrite (s_parse_S fuel _ Hne).
    assert (EL : Nat.ltb (length (wp ++ rest)) 64 = false).
    { apply Nat.ltb_ge. rewrite app_length, Hwl. lia. }
    rewrite EL.
    set (v := 64 + N.of_nat (length body)) in *.
    set (h := md5 (setid ++ ptype ++ body)).
    assert (Hh : length h = 16%nat) by apply md5_len.
    assert (Ewp : wp = MAGIC ++ le_encode 8 v ++ h ++ setid ++ ptype ++ body) by reflexivity.
    assert (EB : wp ++ rest = MAGIC ++ le_encode 8 v ++ h ++ setid ++ ptype ++ (body ++ rest)).
    { rewrite Ewp. rewrite <- !app_assoc. reflexivity. }
    destruct (frame_fields MAGIC (le_encode 8 v) h setid ptype (body ++ rest)
                eq_refl (le_encode_length 8 v) Hh Hs Ht) as (F1 & F2 & _).
    cbv zeta in F1, F2. rewrite <- EB in F1, F2.
    destruct (frame_fields MAGIC (le_encode 8 v) h setid ptype body
                eq_refl (le_encode_length 8 v) Hh Hs Ht) as (_ & _ & G3 & G4 & G5 & G6).
    cbv zeta in G3, G4, G5, G6. rewrite <- Ewp in G3, G4, G5, G6.
    assert (G32 : skipn 32 wp = setid ++ ptype ++ body).
    { rewrite Ewp.
      replace (MAGIC ++ le_encode 8 v ++ h ++ setid ++ ptype ++ body)
        with ((MAGIC ++ le_encode 8 v ++ h) ++ setid ++ ptype ++ body) by (rewrite <- !app_assoc; reflexivity).
      apply skipn_app_len. rewrite !app_length, le_encode_length, Hh. reflexivity. }
    cbv zeta. rewrite F1, F2.
    rewrite (le_decode_encode8 v Hv).
    assert (E0 : beq MAGIC s_magic = true) by reflexivity.
    assert (E1 : (v <? 64) = false) by (apply N.ltb_ge; unfold v; lia).
    assert (E2 : (v mod 4 =? 0) = true).
    { apply N.eqb_eq. unfold v.
      assert (Hq : length body = (4 * (length body / 4))%nat).
      { pose proof (Nat.div_mod (length body) 4). lia. }
      rewrite Hq. rewrite Nat2N.inj_mul. change (N.of_nat 4) with 4.
      replace (64 + 4 * N.of_nat (length body / 4)) with ((16 + N.of_nat (length body / 4)) * 4) by lia.
      apply N.mod_mul. discriminate. }
    assert (E3 : (N.of_nat (length (wp ++ rest)) <? v) = false).
    { apply N.ltb_ge. rewrite app_length, Hwl. unfold v. lia. }
    rewrite E0, E1, E2, E3. cbn [negb orb].
    assert (Hvn : N.to_nat v = length wp) by (rewrite Hwl; unfold v; lia).
    rewrite Hvn.
    rewrite (firstn_app_len wp rest (length wp) eq_refl).
    rewrite (skipn_app_len wp rest (length wp) eq_refl).
    rewrite G3, G4, G5, G6, G32. fold h. rewrite beq_refl. cbn [negb]. reflexivity.
  Qed.

  Lemma s_parse_frames_gen : forall l fuel, Forall wf_pkt l -> (length l < fuel)%nat ->
    s_parse md5 fuel (frames md5 l) = Some (map to_sp l).
  Proof.
    induction l as [|p l IH]; intros fuel Hwf Hfuel.
    - destruct fuel as [|fuel]; [cbn [length] in Hfuel; lia|]. reflexivity.
    - destruct fuel as [|fuel]; [cbn [length] in Hfuel; lia|].
      inversion Hwf as [|p' l' Hp Hl]; subst p' l'.
      destruct Hp as (Hs & Ht & Hb & Hv).
      rewrite frames_cons, (s_parse_packet fuel _ _ _ _ Hs Ht Hb Hv).
      rewrite IH by (try assumption; cbn [length] in Hfuel; lia).
      reflexivity.
  Qed.

  Theorem s_parse_frames : forall l, Forall wf_pkt l ->
    s_parse md5 (S (length (frames md5 l))) (frames md5 l) =
      Some (map (fun p => {| sp_set := pk_set p; sp_type := pk_type p; sp_body := pk_body p |}) l).
  Proof.
    intros l Hwf. apply s_parse_frames_gen; [exact Hwf|].
    pose proof (frames_length md5 md5_len l Hwf). lia.
  Qed.
End Parse.

(** * 2. file ids *)
Definition mk_in (nd : bytes * bytes) : sinput := {| in_name := fst nd; in_data := snd nd |}.

Lemma file_id_of_info md5 sz name data :
  file_id_of md5 {| in_name := name; in_data := data |} = fi_id (data_file_info md5 sz name data).
Proof. reflexivity. Qed.

Lemma file_ids_infos md5 sz (l : list (bytes * bytes)) :
  map (file_id_of md5) (map mk_in l) = map fi_id (map (fun nd : bytes * bytes => data_file_info md5 sz (fst nd) (snd nd)) l).
Proof. rewrite !map_map. apply map_ext. intros [n d]. reflexivity. Qed.

(** * 3. the recovery-set order *)
Lemma str_ltb_app : forall p q s t, length p = length q ->
  str_ltb (p ++ s) (q ++ t) = if str_ltb p q then true else if str_ltb q p then false else str_ltb s t.
Proof.
  induction p as [|x p IH]; intros [|y q] s t Hl; cbn [length] in Hl; try discriminate.
  - cbn [app str_ltb]. reflexivity.
  - cbn [app str_ltb].
    destruct (x <? y) eqn:E1; [reflexivity|].
    destruct (y <? x) eqn:E2; [reflexivity|].
    apply IH. lia.
Qed.

(* numeric little-endian order = lexicographic order of the reversed strings *)
Lemma le_decode_ltb_rev2 : forall a b : bytes, length a = length b -> wf_bytes a -> wf_bytes b ->
  (le_decode a <? le_decode b) = str_ltb (rev a) (rev b) /\ (le_decode b <? le_decode a) = str_ltb (rev b) (rev a).
Proof.
  induction a as [|x a IH]; intros [|y b] Hl Ha Hb; cbn [length] in Hl; try discriminate.
  - split; reflexivity.
  - inversion Ha as [|? ? Hx Ha']; subst. inversion Hb as [|? ? Hy Hb']; subst.
    unfold wf_byte in Hx, Hy.
    destruct (IH b ltac:(lia) Ha' Hb') as [I1 I2].
    cbn [rev le_decode]. rewrite !str_ltb_app by (rewrite !rev_length; lia).
    rewrite <- I1, <- I2. cbn [str_ltb].
    set (da := le_decode a) in *. set (db := le_decode b) in *.
    destruct (N.ltb_spec da db) as [L1|L1]; destruct (N.ltb_spec db da) as [L2|L2]; try lia.
    + split; [apply N.ltb_lt; lia|apply N.ltb_ge; lia].
    + split; [apply N.ltb_ge; lia|apply N.ltb_lt; lia].
    + assert (da = db) by lia.
      destruct (N.ltb_spec x y) as [L3|L3]; destruct (N.ltb_spec y x) as [L4|L4]; try lia.
      * split; [apply N.ltb_lt; lia|apply N.ltb_ge; lia].
      * split; [apply N.ltb_ge; lia|apply N.ltb_lt; lia].
      * split; apply N.ltb_ge; lia.
Qed.

Lemma le_decode_ltb_rev (a b : bytes) : length a = length b -> wf_bytes a -> wf_bytes b ->
  (le_decode a <? le_decode b) = str_ltb (rev a) (rev b).
Proof. intros H1 H2 H3. apply (le_decode_ltb_rev2 a b H1 H2 H3). Qed.

Theorem le_decode_lt_iff (a b : bytes) : length a = length b -> wf_bytes a -> wf_bytes b ->
  (le_decode a < le_decode b <-> str_ltb (rev a) (rev b) = true).
Proof. intros H1 H2 H3. rewrite <- (le_decode_ltb_rev a b H1 H2 H3). symmetry. apply N.ltb_lt. Qed.

Lemma id_num_ltb (a b : bytes) : length a = length b -> wf_bytes a -> wf_bytes b ->
  (id_num a <? id_num b) = id_ltb a b.
Proof. apply le_decode_ltb_rev. Qed.

Section Order.
  Variable md5 : bytes -> bytes.
  Hypothesis md5_len : forall x, length (md5 x) = 16%nat.
  Hypothesis md5_bytes : forall x, wf_bytes (md5 x).

  Lemma file_id_cmp x y : (id_num (file_id_of md5 x) <? id_num (file_id_of md5 y)) = id_ltb (file_id_of md5 x) (file_id_of md5 y).
  Proof. apply id_num_ltb; unfold file_id_of; [rewrite !md5_len; reflexivity|apply md5_bytes|apply md5_bytes]. Qed.

  Lemma s_insert_map x : forall l,
    map (file_id_of md5) (s_insert md5 x l) = insert_id (file_id_of md5 x) (map (file_id_of md5) l).
  Proof.
    induction l as [|y r IH]; [reflexivity|].
    cbn [s_insert map insert_id]. rewrite file_id_cmp.
    destruct (id_ltb (file_id_of md5 x) (file_id_of md5 y)); cbn [map]; [reflexivity|]. rewrite IH. reflexivity.
  Qed.

  Theorem s_sorted_ids : forall ins,
    map (file_id_of md5) (s_sorted_inputs md5 ins) = sort_ids (map (file_id_of md5) ins).
  Proof.
    induction ins as [|x ins IH]; [reflexivity|].
    unfold s_sorted_inputs, sort_ids in *. cbn [fold_right map]. rewrite s_insert_map, IH. reflexivity.
  Qed.

  (* the specification's recovery-set order is the writer's *)
  Corollary recovery_set_order sz (l : list (bytes * bytes)) :
    map (file_id_of md5) (s_sorted_inputs md5 (map mk_in l))
    = sort_ids (map fi_id (map (fun nd : bytes * bytes => data_file_info md5 sz (fst nd) (snd nd)) l)).
  Proof. rewrite s_sorted_ids. f_equal. apply file_ids_infos. Qed.

  Lemma s_insert_perm x : forall l, Permutation (x :: l) (s_insert md5 x l).
  Proof.
    induction l as [|y r IH]; [apply Permutation_refl|].
    cbn [s_insert]. destruct (id_num (file_id_of md5 x) <? id_num (file_id_of md5 y)); [apply Permutation_refl|].
    eapply perm_trans; [apply perm_swap|apply perm_skip; exact IH].
  Qed.

  Lemma s_sorted_perm : forall ins, Permutation ins (s_sorted_inputs md5 ins).
  Proof.
    induction ins as [|x ins IH]; [constructor|].
    unfold s_sorted_inputs in *. cbn [fold_right].
    eapply perm_trans; [apply perm_skip; exact IH|apply s_insert_perm].
  Qed.

  (* strictly ascending numeric order of a sorted list of distinct 16-byte ids *)
  Theorem ascending_sorted : forall l : list bytes,
    Forall (fun id : bytes => length id = 16%nat /\ wf_bytes id) l ->
    ids_sorted l = true -> NoDup l -> ascending (map id_num l) = true.
  Proof.
    induction l as [|a r IH]; intros Hf Hs Hnd; [reflexivity|].
    destruct r as [|b r']; [reflexivity|].
    rewrite ids_sorted_cons2 in Hs. apply andb_true_iff in Hs. destruct Hs as [Hba Hs]. apply negb_true_iff in Hba.
    inversion Hf as [|? ? [La Wa] Hf']; subst. inversion Hf' as [|? ? [Lb Wb] _]; subst.
    inversion Hnd as [|? ? Hni Hnd']; subst.
    change (ascending (map id_num (a :: b :: r'))) with ((id_num a <? id_num b) && ascending (map id_num (b :: r'))).
    rewrite (IH Hf' Hs Hnd'), andb_true_r.
    rewrite id_num_ltb by (try assumption; congruence).
    destruct (id_ltb a b) eqn:E; [reflexivity|].
    exfalso. apply Hni. left. symmetry. apply id_ltb_tri; assumption.
  Qed.
End Order.

(** * 4. slices and bodies *)
Lemma s_slices_eq S d : s_slices S d = slices_of S d.
Proof. reflexivity. Qed.

Lemma pad4_pad_mult4 b : pad4 b = pad_mult4 b.
Proof.
  unfold pad4, pad_mult4. pose proof (Nat.mod_upper_bound (length b) 4 ltac:(discriminate)) as U.
  destruct (Nat.eqb (length b mod 4) 0) eqn:E.
  - apply Nat.eqb_eq in E. rewrite E. cbn. symmetry. apply app_nil_r.
  - apply Nat.eqb_neq in E. rewrite (Nat.mod_small (4 - length b mod 4) 4) by lia. reflexivity.
Qed.

Lemma pad4_app_prefix p b : (length p mod 4 = 0)%nat -> pad4 (p ++ b) = p ++ pad4 b.
Proof.
  intros Hp. unfold pad4. rewrite app_length.
  assert (E : ((length p + length b) mod 4 = length b mod 4)%nat).
  { pose proof (Nat.div_mod (length p) 4 ltac:(discriminate)) as D. rewrite Hp in D.
    rewrite D at 1. replace (4 * (length p / 4) + 0 + length b)%nat with (length b + (length p / 4) * 4)%nat by lia.
    apply Nat.mod_add. discriminate. }
  rewrite E. destruct (Nat.eqb (length b mod 4) 0); [reflexivity|]. rewrite app_assoc. reflexivity.
Qed.

Lemma flat_map_pairs (md5 : bytes -> bytes) (sl : list bytes) :
  flat_map (fun p : bytes * N => fst p ++ le_encode 4 (snd p)) (map (fun s => (md5 s, crc32 s)) sl)
  = flat_map (fun s => md5 s ++ le_encode 4 (crc32 s)) sl.
Proof. induction sl as [|s sl IH]; [reflexivity|]. cbn [map flat_map fst snd]. rewrite IH. reflexivity. Qed.

(** * 5. the constants *)
Lemma s_consts_gens : forall fuel i count, i + N.of_nat fuel <= 65536 ->
  s_consts fuel i count = gens fuel i count.
Proof.
  induction fuel as [|f IH]; intros i count Hi.
  - destruct count; reflexivity.
  - destruct count as [|c]; [reflexivity|].
    cbn [s_consts gens]. unfold bad_exp.
    destruct ((i mod 3 =? 0) || (i mod 5 =? 0) || (i mod 17 =? 0) || (i mod 257 =? 0)).
    + apply IH. lia.
    + rewrite T_Pow_spec; [|reflexivity|change (2 ^ 32) with 4294967296; lia].
      f_equal. apply IH. lia.
Qed.

Lemma gens_firstn : forall fuel i n m, (n <= m)%nat -> gens fuel i n = firstn n (gens fuel i m).
Proof.
  induction fuel as [|f IH]; intros i n m Hnm.
  - destruct n, m; reflexivity.
  - destruct n as [|n]; [reflexivity|]. destruct m as [|m]; [lia|].
    cbn [gens]. destruct (bad_exp i).
    + apply IH. lia.
    + cbn [firstn]. f_equal. apply IH. lia.
Qed.

Theorem s_consts_generators n : N.of_nat n <= 65536 ->
  s_consts (N.to_nat 65536) 0 n = generators_first n.
Proof.
  intros Hn. rewrite s_consts_gens by (rewrite N2Nat.id; reflexivity).
  unfold generators_first, all_generators. apply gens_firstn. lia.
Qed.


(** * 6. recovery blocks *)
Lemma xor_words_length : forall a b, length (xor_words a b) = Nat.min (length a) (length b).
Proof.
  induction a as [|x a IH]; intros [|y b]; cbn [xor_words length Nat.min]; try reflexivity.
  rewrite IH. reflexivity.
Qed.

Lemma xor_words_nth : forall a b w, length a = length b ->
  nth w (xor_words a b) 0 = N.lxor (nth w a 0) (nth w b 0).
Proof.
  induction a as [|x a IH]; intros [|y b] w Hl; cbn [length] in Hl; try discriminate.
  - destruct w; reflexivity.
  - destruct w as [|w]; cbn [xor_words nth]; [reflexivity|]. apply IH. lia.
Qed.

Lemma map_fmul_nth c ws w : nth w (map (fmul c) ws) 0 = fmul c (nth w ws 0).
Proof. change 0 with (fmul c 0) at 1. apply map_nth. Qed.

Section Block.
  Variables (e : N) (L : nat).
  Let F := fun (acc : list N) (cs : N * bytes) => xor_words acc (map (fmul (fpow (fst cs) e)) (words_le (snd cs))).

  Lemma fold_F_length : forall (l : list (N * bytes)) acc,
    (forall cs, In cs l -> length (words_le (snd cs)) = L) -> length acc = L ->
    length (fold_left F l acc) = L.
  Proof.
    induction l as [|cs l IH]; intros acc Hl Ha; [exact Ha|].
    cbn [fold_left]. apply IH; [intros cs' H; apply Hl; right; exact H|].
    unfold F. rewrite xor_words_length, map_length, (Hl cs (or_introl eq_refl)), Ha. apply Nat.min_id.
  Qed.

  Lemma fold_F_nth w : forall (l : list (N * bytes)) acc,
    (forall cs, In cs l -> length (words_le (snd cs)) = L) -> length acc = L ->
    nth w (fold_left F l acc) 0 =
    fold_left N.lxor (map (fun cs : N * bytes => fmul (fpow (fst cs) e) (nth w (words_le (snd cs)) 0)) l) (nth w acc 0).
  Proof.
    induction l as [|cs l IH]; intros acc Hl Ha; [reflexivity|].
    cbn [fold_left map].
    assert (Hcs : length (words_le (snd cs)) = L) by (apply Hl; left; reflexivity).
    rewrite IH.
    - unfold F. rewrite xor_words_nth by (rewrite map_length; congruence).
      rewrite map_fmul_nth. reflexivity.
    - intros cs' H; apply Hl; right; exact H.
    - unfold F. rewrite xor_words_length, map_length, Hcs, Ha. apply Nat.min_id.
  Qed.
End Block.

Lemma combine_as_seq {A B} (da : A) (db : B) : forall (a : list A) (b : list B), length a = length b ->
  combine a b = map (fun j => (nth j a da, nth j b db)) (seq 0 (length a)).
Proof.
  induction a as [|x a IH]; intros [|y b] Hl; cbn [length] in Hl; try discriminate; [reflexivity|].
  cbn [combine length seq map nth]. f_equal.
  rewrite <- seq_shift, map_map. apply IH. lia.
Qed.

Lemma fold_right_map_lxor {A} (g : A -> N) : forall l,
  fold_right N.lxor 0 (map g l) = fold_right (fun j acc => N.lxor (g j) acc) 0 l.
Proof. induction l as [|x l IH]; [reflexivity|]. cbn [map fold_right]. rewrite IH. reflexivity. Qed.

Lemma repeat_nth0 n w : nth w (repeat 0 n) 0 = 0.
Proof. revert w. induction n as [|n IH]; intros [|w]; cbn [repeat nth]; try reflexivity. apply IH. Qed.

(* recovery block e of the specification = row e of the coder's parity *)
Theorem s_block_parity : forall d p (shards : list bytes) L e,
  (0 < d)%nat -> length shards = d -> N.of_nat d <= 32768 -> N.of_nat p <= 65535 ->
  Forall (fun s : bytes => length s = (2 * L)%nat /\ wf_bytes s) shards -> (e < p)%nat ->
  s_block (generators_first d) shards L e =
  nth e (gen_parity {| c_data := d; c_parity := p; c_pm := vandermonde_pm d p |} (map le_words shards)) [].
Proof.
  intros d p shards L e Hd0 Hsl Hd Hp Hsh He.
  set (D := map le_words shards).
  assert (HD : wfm16 d L D).
  { split; [unfold D; rewrite map_length; exact Hsl|].
    apply Forall_forall. intros v Hv. unfold D in Hv. apply in_map_iff in Hv. destruct Hv as (s & <- & Hs).
    rewrite Forall_forall in Hsh. destruct (Hsh s Hs) as [H1 H2]. apply le_words_wfv; assumption. }
  pose proof (generators_first_length d Hd) as Lg.
  assert (Hrows : forall cs, In cs (combine (generators_first d) shards) -> length (words_le (snd cs)) = L).
  { intros [c s] Hin. apply in_combine_r in Hin. cbn [snd]. rewrite Forall_forall in Hsh.
    destruct (Hsh s Hin) as [H1 _]. rewrite words_le_eq. apply le_words_length. exact H1. }
  assert (HL : shard_len D = L).
  { unfold shard_len. destruct d as [|d']; [lia|]. apply (wfm_hd d' L D HD). }
  assert (Hrow : length (nth e (gen_parity {| c_data := d; c_parity := p; c_pm := vandermonde_pm d p |} D) []) = L).
  { unfold gen_parity, apply_matrix. cbn [c_pm]. rewrite HL.
    pose proof (mmul_wf16 p d L (vandermonde_pm d p) D (vandermonde_pm_wf d p Hd Hp) HD) as Hm.
    destruct (wfm_nth16 p L _ e Hm He) as [Hlen _]. exact Hlen. }
  apply (nth_ext _ _ 0 0).
  - unfold s_block. rewrite (fold_F_length (N.of_nat e) L) by (try exact Hrows; apply repeat_length).
    symmetry. exact Hrow.
  - intros w Hw. unfold s_block in Hw |- *.
    rewrite (fold_F_length (N.of_nat e) L) in Hw by (try exact Hrows; apply repeat_length).
    rewrite (fold_F_nth (N.of_nat e) L w) by (try exact Hrows; apply repeat_length).
    rewrite repeat_nth0.
    rewrite (parity_is_spec_sum d p D L e w Hd0 Hd Hp HD He Hw).
    rewrite (combine_as_seq 0 (@nil N)) by (rewrite Lg; symmetry; exact Hsl).
    rewrite Lg, map_map. cbn [fst snd].
    rewrite (fold_symmetric N.lxor (fun x y z => eq_sym (N.lxor_assoc x y z)) 0 (fun y => N.lxor_comm 0 y)).
    rewrite fold_right_map_lxor.
    apply fold_xor_ext. intros j Hj. apply in_seq in Hj.
    unfold D. rewrite (nth_map' le_words shards j [] []) by lia. reflexivity.
Qed.

(** * 7. exponents: sorted lists are fixed by the insertion sorts *)
Lemma ascending_cons a b r : ascending (a :: b :: r) = (a <? b) && ascending (b :: r).
Proof. reflexivity. Qed.

Lemma insert_n_sorted : forall l, ascending l = true -> fold_right insert_n [] l = l.
Proof.
  induction l as [|a r IH]; intros H; [reflexivity|].
  cbn [fold_right]. destruct r as [|b r'].
  - reflexivity.
  - rewrite ascending_cons in H. apply andb_true_iff in H. destruct H as [Hab Hr].
    rewrite (IH Hr). cbn [insert_n]. rewrite Hab. reflexivity.
Qed.

Lemma ascending_seq : forall n i, ascending (map N.of_nat (seq i n)) = true.
Proof.
  induction n as [|n IH]; intros i; [reflexivity|].
  destruct n as [|n']; [reflexivity|].
  change (map N.of_nat (seq i (S (S n')))) with (N.of_nat i :: N.of_nat (S i) :: map N.of_nat (seq (S (S i)) n')).
  rewrite ascending_cons. apply andb_true_iff. split; [apply N.ltb_lt; lia|]. apply (IH (S i)).
Qed.

Lemma sort_exps_sorted : forall l : list (N * bytes), ascending (map fst l) = true -> sort_exps l = l.
Proof.
  induction l as [|a r IH]; intros H; [reflexivity|].
  unfold sort_exps in *. cbn [fold_right]. destruct r as [|b r'].
  - reflexivity.
  - cbn [map] in H. rewrite ascending_cons in H. apply andb_true_iff in H. destruct H as [Hab Hr].
    rewrite (IH Hr). cbn [insert_exp].
    apply N.ltb_lt in Hab. assert (E : (fst b <? fst a) = false) by (apply N.ltb_ge; lia). rewrite E. reflexivity.
Qed.

Theorem exponent_union n :
  fold_right insert_n [] (concat (map (fun ic : nat * nat => map N.of_nat (seq (fst ic) (snd ic))) (volume_layout (S n) 0 1 n)))
  = map N.of_nat (seq 0 n).
Proof.
  assert (E : concat (map (fun ic : nat * nat => map N.of_nat (seq (fst ic) (snd ic))) (volume_layout (S n) 0 1 n))
              = map N.of_nat (seq 0 n)).
  { rewrite <- (volume_layout_covers n), concat_map, map_map. reflexivity. }
  rewrite E. apply insert_n_sorted. apply ascending_seq.
Qed.

(** * 8. assembly: one written file *)
Definition tyb (t : bytes) (p : apkt) : bool := beq (pk_type p) t.

Lemma of_type_map t : forall l, of_type t (map to_sp l) = map to_sp (filter (tyb t) l).
Proof.
  induction l as [|p l IH]; [reflexivity|].
  unfold of_type in *. cbn [map filter]. unfold tyb at 1. cbn [to_sp sp_type].
  destruct (beq (pk_type p) t); cbn [map]; rewrite IH; reflexivity.
Qed.

Ltac beq_consts :=
  repeat match goal with
         | |- context [beq ?a ?b] =>
             let v := eval vm_compute in (beq a b) in
             match v with true => idtac | false => idtac end;
             change (beq a b) with v
         end.

Section Filters.
  Variable md5 : bytes -> bytes.
  Variables (fds : list (bytes * fdesc)) (ifs : list (bytes * list (bytes * N))).

  Lemma filter_file_pkts t sid : forall ids,
    filter (tyb t) (file_pkts md5 sid fds ifs ids) =
      if beq TYPE_FDESC t
      then (if beq TYPE_IFSC t then file_pkts md5 sid fds ifs ids else map (fun id => (sid, TYPE_FDESC, fbody md5 fds id)) ids)
      else (if beq TYPE_IFSC t then map (fun id => (sid, TYPE_IFSC, ibody ifs id)) ids else []).
  Proof.
    induction ids as [|id ids IH].
    - destruct (beq TYPE_FDESC t), (beq TYPE_IFSC t); reflexivity.
    - unfold file_pkts, tyb in *. cbn [flat_map app filter]. cbn [pk_type fst snd].
      rewrite IH. destruct (beq TYPE_FDESC t), (beq TYPE_IFSC t); reflexivity.
  Qed.

  Lemma filter_recv_pkts t sid : forall l,
    filter (tyb t) (recv_pkts sid l) = if beq TYPE_RECV t then recv_pkts sid l else [].
  Proof.
    induction l as [|ed l IH].
    - destruct (beq TYPE_RECV t); reflexivity.
    - unfold recv_pkts, tyb in *. cbn [map filter]. cbn [pk_type fst snd].
      rewrite IH. destruct (beq TYPE_RECV t); reflexivity.
  Qed.

  Variables (client : bytes) (m : mainpkt) (recv : list (N * bytes)).
  Let sid := md5 (mbody m).
  Let ids := mp_rec m ++ mp_nonrec m.

  Lemma filter_all_pkts t :
    filter (tyb t) (all_pkts md5 client m fds ifs recv) =
      (if beq TYPE_CREATOR t then [(sid, TYPE_CREATOR, pad4 client)] else []) ++
      (if beq TYPE_MAIN t then [(sid, TYPE_MAIN, mbody m)] else []) ++
      filter (tyb t) (file_pkts md5 sid fds ifs ids) ++ filter (tyb t) (recv_pkts sid (sort_exps recv)).
  Proof.
    unfold all_pkts. cbv zeta. fold sid ids. cbn [filter]. rewrite filter_app.
    change (tyb t (sid, TYPE_CREATOR, pad4 client)) with (beq TYPE_CREATOR t).
    change (tyb t (sid, TYPE_MAIN, mbody m)) with (beq TYPE_MAIN t).
    destruct (beq TYPE_CREATOR t), (beq TYPE_MAIN t); reflexivity.
  Qed.

  Lemma filter_mains : filter (tyb sT_main) (all_pkts md5 client m fds ifs recv) = [(sid, TYPE_MAIN, mbody m)].
  Proof. rewrite filter_all_pkts, filter_file_pkts, filter_recv_pkts. beq_consts. reflexivity. Qed.

  Lemma filter_creators : filter (tyb sT_creator) (all_pkts md5 client m fds ifs recv) = [(sid, TYPE_CREATOR, pad4 client)].
  Proof. rewrite filter_all_pkts, filter_file_pkts, filter_recv_pkts. beq_consts. reflexivity. Qed.

  Lemma filter_fdescs : filter (tyb sT_fdesc) (all_pkts md5 client m fds ifs recv) = map (fun id => (sid, TYPE_FDESC, fbody md5 fds id)) ids.
  Proof. rewrite filter_all_pkts, filter_file_pkts, filter_recv_pkts. beq_consts. cbn [app]. apply app_nil_r. Qed.

  Lemma filter_ifscs : filter (tyb sT_ifsc) (all_pkts md5 client m fds ifs recv) = map (fun id => (sid, TYPE_IFSC, ibody ifs id)) ids.
  Proof. rewrite filter_all_pkts, filter_file_pkts, filter_recv_pkts. beq_consts. cbn [app]. apply app_nil_r. Qed.

  Lemma filter_recvs : filter (tyb sT_recv) (all_pkts md5 client m fds ifs recv) = recv_pkts sid (sort_exps recv).
  Proof. rewrite filter_all_pkts, filter_file_pkts, filter_recv_pkts. beq_consts. reflexivity. Qed.
End Filters.

Lemma write_recv_form e data rb : write_recv e data = Ok rb -> rb = le_encode 4 e ++ data.
Proof.
  unfold write_recv. intros H.
  destruct (Nat.eqb (length data) 0 || negb (Nat.eqb (length data mod 4) 0)); [discriminate H|]. congruence.
Qed.

Lemma write_ifsc_form id ps ib : write_ifsc id ps = Ok ib ->
  ib = id ++ flat_map (fun p : bytes * N => fst p ++ le_encode 4 (snd p)) ps.
Proof. unfold write_ifsc. intros H. destruct ps; [discriminate H|]. congruence. Qed.

Lemma write_main_form m mb : write_main m = Ok mb ->
  mb = le_encode 8 (mp_slice m) ++ le_encode 4 (N.of_nat (length (mp_rec m))) ++ concat (mp_rec m) ++ concat (mp_nonrec m)
  /\ mp_slice m <> 0 /\ mp_slice m mod 4 = 0.
Proof.
  unfold write_main. intros H.
  destruct ((mp_slice m =? 0) || negb (mp_slice m mod 4 =? 0)) eqn:E1; [discriminate H|].
  destruct (Nat.eqb (length (mp_rec m)) 0); [discriminate H|].
  destruct (negb (ids_ok (mp_rec m)) || negb (ids_ok (mp_nonrec m))); [discriminate H|].
  apply orb_false_iff in E1. destruct E1 as [E1 E2]. apply N.eqb_neq in E1. apply negb_false_iff in E2. apply N.eqb_eq in E2.
  split; [congruence|]. split; assumption.
Qed.

Section FdescForm.
  Variable md5 : bytes -> bytes.
  Lemma write_fdesc_form id d db : write_fdesc md5 id d = Ok db ->
    db = id ++ fd_hash d ++ fd_hash16k d ++ le_encode 8 (fd_len d) ++ fd_name d /\
    forallb (fun c => c <=? 127) (fd_name d) = true.
  Proof.
    unfold write_fdesc. intros H.
    destruct (fd_len d =? 0); [discriminate H|].
    destruct (check_filename (fd_name d)) as [u|e|q]; cbn [obind] in H; try discriminate H.
    unfold encode_ascii in H. destruct (forallb (fun c => c <=? 127) (fd_name d)) eqn:EA; cbn [obind] in H; [|discriminate H].
    match type of H with (if ?c then _ else _) = _ => destruct c end; [discriminate H|].
    split; [congruence|reflexivity].
  Qed.

  Definition want_fd (i : sinput) : bytes :=
    file_id_of md5 i ++ md5 (in_data i) ++ md5 (firstn (N.to_nat 16384) (in_data i))
      ++ le_encode 8 (N.of_nat (length (in_data i))) ++ pad_mult4 (in_name i).
  Definition want_if (S : nat) (i : sinput) : bytes :=
    file_id_of md5 i ++ flat_map (fun s => md5 s ++ le_encode 4 (crc32 s)) (s_slices S (in_data i)).

  Lemma valid_file_intro (S nblocks : nat) (ins : list sinput) (setid mainbody : bytes) (consts : list N)
        (slices : list bytes) (is_index : bool) (content : bytes) (pkts : list spacket) :
    s_parse md5 (Datatypes.S (length content)) content = Some pkts ->
    forallb (fun p => beq (sp_set p) setid) pkts = true ->
    negb (Nat.eqb (length (of_type sT_main pkts)) 0) = true ->
    forallb (fun p => beq (sp_body p) mainbody) (of_type sT_main pkts) = true ->
    negb (Nat.eqb (length (of_type sT_creator pkts)) 0) = true ->
    forallb (fun p => negb (Nat.eqb (length (sp_body p)) 0)) (of_type sT_creator pkts) = true ->
    forallb (fun i => all_ascii (in_name i)
                      && existsb (fun p => beq (sp_body p) (want_fd i)) (of_type sT_fdesc pkts)
                      && existsb (fun p => beq (sp_body p) (want_if S i)) (of_type sT_ifsc pkts)) ins = true ->
    Nat.eqb (length (of_type sT_fdesc pkts)) (length ins) = true ->
    Nat.eqb (length (of_type sT_ifsc pkts)) (length ins) = true ->
    forallb (fun p => (le_decode (firstn 4 (sp_body p)) <? N.of_nat nblocks)
                      && Nat.eqb (length (sp_body p)) (4 + S)
                      && beq_words (words_le (skipn 4 (sp_body p)))
                                   (s_block consts slices (S / 2) (N.to_nat (le_decode (firstn 4 (sp_body p))))))
            (of_type sT_recv pkts) = true ->
    (if is_index then Nat.eqb (length (of_type sT_recv pkts)) 0 else true) = true ->
    forallb (fun p => beq (sp_type p) sT_main || beq (sp_type p) sT_creator || beq (sp_type p) sT_fdesc
                      || beq (sp_type p) sT_ifsc || beq (sp_type p) sT_recv) pkts = true ->
    valid_file md5 S nblocks ins setid mainbody consts slices is_index content =
      Some (map (fun p => le_decode (firstn 4 (sp_body p))) (of_type sT_recv pkts)).
  Proof.
    intros Hp H1 H2 H3 H4 H5 H6 H7 H8 H9 H10 H11. unfold valid_file. rewrite Hp. cbv zeta.
    match goal with |- (if ?c then _ else _) = _ => assert (E : c = true) end.
    { repeat (apply andb_true_iff; split); assumption. }
    rewrite E. reflexivity.
  Qed.
End FdescForm.

Lemma flat_map_map' {A B C} (f : A -> B) (g : B -> list C) : forall l, flat_map g (map f l) = flat_map (fun x => g (f x)) l.
Proof. induction l as [|x l IH]; [reflexivity|]. cbn [map flat_map]. rewrite IH. reflexivity. Qed.

Lemma forallb_map {A B} (f : A -> B) (q : B -> bool) : forall l, forallb q (map f l) = forallb (fun x => q (f x)) l.
Proof. induction l as [|x l IH]; [reflexivity|]. cbn [map forallb]. rewrite IH. reflexivity. Qed.

Lemma slices_of_len sz data s : (0 < sz)%nat -> In s (slices_of sz data) -> length s = sz.
Proof.
  intros Hsz. rewrite slices_of_windows by exact Hsz. intros H. apply in_map_iff in H. destruct H as (k & <- & _).
  apply take_pad_length.
Qed.

Lemma slices_of_wf sz data s : (0 < sz)%nat -> wf_bytes data -> In s (slices_of sz data) -> wf_bytes s.
Proof.
  intros Hsz Hw. rewrite slices_of_windows by exact Hsz. intros H. apply in_map_iff in H. destruct H as (k & <- & _).
  apply take_pad_wf. apply Forall_skipn'. exact Hw.
Qed.

Lemma Forall2_map_eq_in {A B C} (R : A -> B -> Prop) (f : A -> C) (g : B -> C) : forall l l',
  Forall2 R l l' -> (forall x y, In x l -> R x y -> g y = f x) -> map g l' = map f l.
Proof.
  induction 1 as [|a b l l' Hab _ IH]; intros H; [reflexivity|]. cbn [map].
  rewrite (H a b (or_introl eq_refl) Hab), IH; [reflexivity|].
  intros x y Hx. apply H. right. exact Hx.
Qed.

Lemma filter_false {A} (f : A -> bool) : forall l, (forall x, In x l -> f x = false) -> filter f l = [].
Proof.
  induction l as [|x l IH]; intros H; [reflexivity|]. cbn [filter].
  rewrite (H x (or_introl eq_refl)). apply IH. intros y Hy. apply H. right. exact Hy.
Qed.

(** * 8. assembly: the set Create writes *)
Section CreateValid.
  Variable md5 : bytes -> bytes.
  Hypothesis md5_len : forall x, length (md5 x) = 16%nat.
  Hypothesis md5_bytes : forall x, wf_bytes (md5 x).
  Variables (parPath : list N) (sz np : nat) (names datas : list bytes) (outs : list (list N * bytes)).
  Hypothesis Hcreate : create_outputs md5 parPath sz np names datas = Ok outs.
  Hypothesis Hszmax : N.of_nat sz <= MAXSLICE.
  Hypothesis Hnames : Forall (fun nm : bytes => no_nul nm /\ N.of_nat (length nm) < 2 ^ 32) names.
  Hypothesis Hdatas : Forall (fun d : bytes => wf_bytes d /\ N.of_nat (length d) <= MAXINT) datas.

  Let infos := map (fun nd : bytes * bytes => data_file_info md5 sz (fst nd) (snd nd)) (combine names datas).
  Hypothesis Hnd : NoDup (map fi_id infos).

  Let rinfos := rev infos.
  Let recset := sort_ids (map fi_id infos).
  Let shards := flat_map (fun id => match find_info rinfos id with Some i => fi_slices i | None => [] end) recset.
  Let parity := gen_parity {| c_data := length shards; c_parity := np; c_pm := vandermonde_pm (length shards) np |}
                           (map le_words shards).
  Let m := {| mp_slice := N.of_nat sz; mp_rec := recset; mp_nonrec := [] |}.
  Let fds := map (fun i => (fi_id i, fi_desc i)) rinfos.
  Let ifs := map (fun i => (fi_id i, fi_pairs i)) rinfos.
  Let basep := strip_ext parPath.
  Let volrecv (i c : nat) : list (N * bytes) := map (fun e => (N.of_nat e, le_bytes (nth e parity []))) (seq i c).
  Let volpath (i c : nat) : list N :=
    basep ++ [46; 118; 111; 108] ++ dec2 (N.of_nat i) ++ [43] ++ dec2 (N.of_nat c) ++ EXT_PAR2.
  Let layout := volume_layout (S np) 0 1 np.

  (* the specification side *)
  Let ins := map mk_in (combine names datas).
  Let sorted := s_sorted_inputs md5 ins.
  Let sids := map (file_id_of md5) sorted.
  Let mainbody := le_encode 8 (N.of_nat sz) ++ le_encode 4 (N.of_nat (length ins)) ++ concat sids.
  Let setid := md5 mainbody.
  Let sslices := flat_map (fun i => s_slices sz (in_data i)) sorted.
  Let consts := s_consts (N.to_nat 65536) 0 (length sslices).

  (** ** what success of Create says about the slice size *)
  Lemma cv_written0 : exists sid ixb, write_file md5 CLIENT_ID m fds ifs [] = Ok (sid, ixb).
  Proof.
    pose proof Hcreate as H. rewrite co_unfold in H. fold infos rinfos recset shards m fds ifs in H.
    destruct (Nat.eqb (length shards) 0); [discriminate H|].
    destruct (32768 <? N.of_nat (length shards)); [discriminate H|].
    destruct (65535 <? N.of_nat np); [discriminate H|].
    destruct (write_file md5 CLIENT_ID m fds ifs []) as [[sid ixb]|e|q] eqn:EW; cbn [obind] in H; try discriminate H.
    exists sid, ixb. reflexivity.
  Qed.

  Lemma cv_sz : sz <> 0%nat /\ (sz mod 4 = 0)%nat.
  Proof.
    destruct cv_written0 as (sid & ixb & EW).
    destruct (write_file_frames md5 _ _ _ _ _ _ _ EW) as (_ & _ & (mb & E) & _).
    destruct (write_main_form m mb E) as (_ & H1 & H2). unfold m in H1, H2. cbn [mp_slice] in H1, H2.
    split; [lia|]. apply Nat2N.inj. rewrite Nat2N.inj_mod. exact H2.
  Qed.

  Lemma cv_sz4 : (4 <= sz)%nat.
  Proof.
    destruct cv_sz as [H0 H4]. pose proof (Nat.div_mod sz 4 ltac:(discriminate)) as D. rewrite H4 in D.
    destruct (sz / 4)%nat; lia.
  Qed.

  Lemma cv_inv : (0 < length shards)%nat /\ N.of_nat (length shards) <= 32768 /\ N.of_nat np <= 65535 /\
    exists sid ixb vols, write_file md5 CLIENT_ID m fds ifs [] = Ok (sid, ixb) /\
      Forall2 (fun (ic : nat * nat) (v : list N * bytes) =>
                 exists sid' vb, write_file md5 CLIENT_ID m fds ifs (volrecv (fst ic) (snd ic)) = Ok (sid', vb) /\
                                 v = (volpath (fst ic) (snd ic), vb)) layout vols /\
      outs = (basep ++ EXT_PAR2, ixb) :: vols.
  Proof. exact (co_inv md5 md5_len parPath sz np names datas outs Hcreate cv_sz4 Hszmax). Qed.

  Lemma cv_ww recv :
    Forall (fun ed : N * bytes => fst ed <= 65535 /\ N.of_nat (length (snd ed)) <= 2 ^ 40) recv ->
    NoDup (map fst recv) -> wf_write CLIENT_ID m fds ifs recv.
  Proof. exact (ww_of md5 md5_len parPath sz np names datas outs Hcreate cv_sz4 Hszmax Hnames Hdatas Hnd recv). Qed.

  Lemma cv_volrecv i c : (i + c <= np)%nat ->
    Forall (fun ed : N * bytes => fst ed <= 65535 /\ N.of_nat (length (snd ed)) <= 2 ^ 40) (volrecv i c) /\
    NoDup (map fst (volrecv i c)).
  Proof. exact (volrecv_ok md5 md5_len parPath sz np names datas outs Hcreate cv_sz4 Hszmax Hnd i c). Qed.

  Lemma cv_parity_row e : (e < np)%nat -> length (le_bytes (nth e parity [])) = sz.
  Proof. exact (parity_row md5 md5_len parPath sz np names datas outs Hcreate cv_sz4 Hszmax Hnd e). Qed.

  Lemma cv_find i : In i infos -> find_info rinfos (fi_id i) = Some i.
  Proof. exact (find_at md5 sz names datas Hnd i). Qed.
  Lemma cv_fds_at i : In i infos -> assoc_b fds (fi_id i) = Some (fi_desc i).
  Proof. exact (fds_at md5 sz names datas Hnd i). Qed.
  Lemma cv_ifs_at i : In i infos -> assoc_b ifs (fi_id i) = Some (fi_pairs i).
  Proof. exact (ifs_at md5 sz names datas Hnd i). Qed.
  Lemma cv_recset_iff id : In id recset <-> exists i, In i infos /\ fi_id i = id.
  Proof. exact (recset_in md5 sz names datas id). Qed.
  Lemma cv_info_in i : In i infos ->
    exists name data, In (name, data) (combine names datas) /\ i = data_file_info md5 sz name data.
  Proof. exact (info_in md5 sz names datas i). Qed.

  (** ** the inputs *)
  Lemma cv_in i : In i ins -> exists n d, In (n, d) (combine names datas) /\ i = mk_in (n, d) /\
    In (data_file_info md5 sz n d) infos /\ file_id_of md5 i = fi_id (data_file_info md5 sz n d).
  Proof.
    unfold ins. intros H. apply in_map_iff in H. destruct H as ([n d] & <- & Hin).
    exists n, d. split; [exact Hin|]. split; [reflexivity|]. split; [|reflexivity].
    unfold infos. apply in_map_iff. exists (n, d). split; [reflexivity|exact Hin].
  Qed.

  Lemma cv_sorted_in i : In i sorted <-> In i ins.
  Proof.
    unfold sorted. split; intros H.
    - apply (Permutation_in _ (Permutation_sym (s_sorted_perm md5 ins))). exact H.
    - apply (Permutation_in _ (s_sorted_perm md5 ins)). exact H.
  Qed.

  Lemma cv_ids : sids = recset.
  Proof.
    unfold sids, sorted, recset. rewrite (s_sorted_ids md5 md5_len md5_bytes). f_equal.
    unfold ins, infos. apply file_ids_infos.
  Qed.

  Lemma cv_len : length recset = length ins.
  Proof.
    unfold recset. rewrite <- (Permutation_length (sort_ids_perm (map fi_id infos))).
    unfold infos, ins. rewrite !map_length. reflexivity.
  Qed.

  Lemma cv_recset_in i : In i ins -> In (file_id_of md5 i) recset.
  Proof.
    intros H. destruct (cv_in i H) as (n & d & _ & _ & Hi & E). rewrite E.
    apply cv_recset_iff. exists (data_file_info md5 sz n d). split; [exact Hi|reflexivity].
  Qed.

  Lemma cv_slices : sslices = shards.
  Proof.
    unfold sslices, shards. rewrite <- cv_ids. unfold sids. rewrite flat_map_map'.
    apply flat_map_ext_in. intros i Hi. apply cv_sorted_in in Hi.
    destruct (cv_in i Hi) as (n & d & _ & -> & Hinfo & E). rewrite E.
    rewrite (cv_find _ Hinfo). reflexivity.
  Qed.

  Lemma cv_consts : consts = generators_first (length shards).
  Proof.
    unfold consts. rewrite cv_slices. apply s_consts_generators.
    destruct cv_inv as (_ & H & _). lia.
  Qed.

  Lemma cv_shards_wf : Forall (fun s : bytes => length s = (2 * (sz / 2))%nat /\ wf_bytes s) shards.
  Proof.
    pose proof cv_sz4 as H4. destruct cv_sz as [_ M4].
    assert (E2 : (2 * (sz / 2) = sz)%nat).
    { pose proof (Nat.div_mod sz 4 ltac:(discriminate)) as D. rewrite M4 in D.
      rewrite D at 1. replace (4 * (sz / 4) + 0)%nat with ((sz / 4 * 2) * 2)%nat by lia.
      rewrite Nat.div_mul by discriminate. lia. }
    apply Forall_forall. intros s Hs. unfold shards in Hs. apply in_flat_map in Hs. destruct Hs as (id & Hid & Hs).
    apply cv_recset_iff in Hid. destruct Hid as (i & Hi & <-).
    rewrite (cv_find i Hi) in Hs.
    destruct (cv_info_in i Hi) as (name & data & Hnd' & ->). cbn [data_file_info fi_slices] in Hs.
    destruct (pair_ok names datas Hnames Hdatas name data Hnd') as (_ & _ & P3 & _).
    rewrite E2. split; [apply (slices_of_len sz data s); [lia|exact Hs]|apply (slices_of_wf sz data s); [lia|exact P3|exact Hs]].
  Qed.

  Theorem cv_block e : (e < np)%nat -> s_block consts sslices (sz / 2) e = nth e parity [].
  Proof.
    intros He. rewrite cv_consts, cv_slices. destruct cv_inv as (H0 & H1 & H2 & _).
    apply (s_block_parity (length shards) np shards (sz / 2) e H0 eq_refl H1 H2 cv_shards_wf He).
  Qed.

  (** ** the bodies *)
  Lemma cv_mainbody : mbody m = mainbody /\ md5 (mbody m) = setid.
  Proof.
    destruct cv_written0 as (sid & ixb & EW).
    destruct (rw_main md5 md5_len _ _ _ _ _ _ _ EW (cv_ww [] (Forall_nil _) (NoDup_nil _))) as (mb & Emb & Eb & _).
    destruct (write_main_form m mb Emb) as (F & _).
    assert (E : mbody m = mainbody).
    { rewrite Eb, F. unfold m, mainbody. cbn [mp_slice mp_rec mp_nonrec concat].
      rewrite app_nil_r, cv_len, cv_ids. reflexivity. }
    split; [exact E|]. unfold setid. rewrite E. reflexivity.
  Qed.

  Lemma cv_bodies n d : In (n, d) (combine names datas) ->
    let i := mk_in (n, d) in
    all_ascii n = true /\ fbody md5 fds (file_id_of md5 i) = want_fd md5 i /\ ibody ifs (file_id_of md5 i) = want_if md5 sz i.
  Proof.
    intros Hin i.
    destruct cv_written0 as (sid & ixb & EW).
    pose proof (cv_ww [] (Forall_nil _) (NoDup_nil _)) as W.
    set (info := data_file_info md5 sz n d).
    assert (Hinfo : In info infos).
    { unfold infos. apply in_map_iff. exists (n, d). split; [reflexivity|exact Hin]. }
    assert (Eid : file_id_of md5 i = fi_id info) by reflexivity.
    assert (Hid : In (fi_id info) (mp_rec m ++ mp_nonrec m)).
    { unfold m. cbn [mp_rec mp_nonrec]. rewrite app_nil_r. apply cv_recset_iff. exists info. split; [exact Hinfo|reflexivity]. }
    destruct (pair_ok names datas Hnames Hdatas n d Hin) as (P1 & P2 & P3 & P4).
    destruct (rw_fdesc md5 _ _ _ _ _ _ _ EW W _ Hid) as (dd & db & Ed & Edb & Efb & _).
    rewrite (cv_fds_at info Hinfo) in Ed. injection Ed as <-.
    destruct (write_fdesc_form md5 _ _ _ Edb) as (Fdb & Hasc).
    destruct (rw_ifsc md5 _ _ _ _ _ _ _ EW W _ Hid) as (ps & ib & Ep & Eib & Eibody & _).
    rewrite (cv_ifs_at info Hinfo) in Ep. injection Ep as <-.
    pose proof (write_ifsc_form _ _ _ Eib) as Fib.
    split; [|split].
    - unfold all_ascii. cbn [data_file_info fi_desc fd_name info] in Hasc.
      apply forallb_forall. intros c Hc. rewrite forallb_forall in Hasc. specialize (Hasc c Hc).
      apply N.leb_le in Hasc. unfold no_nul in P1. rewrite Forall_forall in P1. specialize (P1 c Hc).
      apply andb_true_iff. split; apply N.ltb_lt; lia.
    - rewrite Eid, Efb, Fdb. unfold want_fd.
      cbn [data_file_info fi_id fi_desc fd_hash fd_hash16k fd_len fd_name info i mk_in in_name in_data fst snd].
      unfold hash16k.
      set (idb := compute_file_id md5 (md5 (firstn (N.to_nat 16384) d)) (N.of_nat (length d)) n).
      change (file_id_of md5 i) with idb.
      replace (idb ++ md5 d ++ md5 (firstn (N.to_nat 16384) d) ++ le_encode 8 (N.of_nat (length d)) ++ n)
        with ((idb ++ md5 d ++ md5 (firstn (N.to_nat 16384) d) ++ le_encode 8 (N.of_nat (length d))) ++ n)
        by (rewrite <- !app_assoc; reflexivity).
      rewrite pad4_app_prefix.
      + rewrite pad4_pad_mult4, <- !app_assoc. reflexivity.
      + unfold idb, compute_file_id. rewrite !app_length, !md5_len, le_encode_length. reflexivity.
    - rewrite Eid, Eibody, Fib. unfold want_if.
      cbn [data_file_info fi_id fi_pairs fi_slices info i mk_in in_name in_data fst snd].
      rewrite flat_map_pairs. reflexivity.
  Qed.

  (** ** one written file is a valid file of the set *)
  Lemma cv_volrecv_sorted i c : sort_exps (volrecv i c) = volrecv i c.
  Proof.
    apply sort_exps_sorted. unfold volrecv. rewrite map_map. cbn [fst]. apply ascending_seq.
  Qed.

  Lemma cv_volrecv_fst i c : map fst (volrecv i c) = map N.of_nat (seq i c).
  Proof. unfold volrecv. rewrite map_map. reflexivity. Qed.

  Theorem cv_valid i c sid out is_index : (i + c <= np)%nat ->
    write_file md5 CLIENT_ID m fds ifs (volrecv i c) = Ok (sid, out) ->
    (is_index = true -> c = 0%nat) ->
    valid_file md5 sz np ins setid mainbody consts sslices is_index out = Some (map N.of_nat (seq i c)).
  Proof.
    intros Hic Hw Hix.
    set (recv := volrecv i c) in *.
    destruct (cv_volrecv i c Hic) as [Hr1 Hr2]. fold recv in Hr1, Hr2.
    pose proof (cv_ww recv Hr1 Hr2) as W.
    destruct (write_file_frames md5 _ _ _ _ _ _ _ Hw) as (Esid & Eout & _).
    pose proof (rw_wf md5 md5_len _ _ _ _ _ _ _ Hw W) as Hwf.
    set (P := all_pkts md5 CLIENT_ID m fds ifs recv) in *.
    destruct cv_mainbody as [Emain Eset].
    assert (Esid' : sid = setid) by (rewrite Esid; exact Eset).
    assert (Hsort : sort_exps recv = recv) by apply cv_volrecv_sorted.
    assert (Hids : mp_rec m ++ mp_nonrec m = recset) by (unfold m; cbn [mp_rec mp_nonrec]; apply app_nil_r).
    pose proof (s_parse_frames md5 md5_len P Hwf) as Hparse. rewrite <- Eout in Hparse.
    fold to_sp in Hparse.
    assert (Hrecvs : of_type sT_recv (map to_sp P) = map to_sp (recv_pkts (md5 (mbody m)) recv)).
    { rewrite of_type_map. unfold P. rewrite filter_recvs, Hsort. reflexivity. }
    (* what a recovery packet of this file looks like *)
    assert (Hrp : forall ed, In ed recv -> exists e, In e (seq i c) /\ ed = (N.of_nat e, le_bytes (nth e parity [])) /\
                    rbody ed = le_encode 4 (N.of_nat e) ++ le_bytes (nth e parity [])).
    { intros ed Hed. pose proof Hed as Hed'. unfold recv, volrecv in Hed'. apply in_map_iff in Hed'.
      destruct Hed' as (e & <- & He). exists e. split; [exact He|]. split; [reflexivity|].
      rewrite <- Hsort in Hed.
      destruct (rw_recv md5 _ _ _ _ _ _ _ Hw W _ Hed) as (rb & Erb & Ebody & _).
      rewrite Ebody. cbn [fst snd] in Erb. apply (write_recv_form _ _ _ Erb). }
    assert (Hdec : forall e, In e (seq i c) -> le_decode (firstn 4 (le_encode 4 (N.of_nat e) ++ le_bytes (nth e parity []))) = N.of_nat e).
    { intros e He. apply in_seq in He. destruct cv_inv as (_ & _ & Hnp & _).
      rewrite (firstn_app_len _ _ 4 (le_encode_length 4 _)).
      apply le_decode_encode. change (256 ^ N.of_nat 4) with 4294967296. lia. }
    rewrite (valid_file_intro md5 sz np ins setid mainbody consts sslices is_index out (map to_sp P) Hparse).
    - (* the exponents *)
      rewrite Hrecvs. unfold recv_pkts. rewrite !map_map. cbn [to_sp sp_body pk_body snd].
      rewrite <- cv_volrecv_fst. fold recv. f_equal. apply map_ext_in. intros ed Hed.
      destruct (Hrp ed Hed) as (e & He & -> & Eb). rewrite Eb, (Hdec e He). reflexivity.
    - (* set id *)
      rewrite forallb_map. apply forallb_forall. intros p Hp. cbn [to_sp sp_set].
      rewrite (rw_set md5 _ _ _ _ _ _ _ Hw p Hp), Esid'. apply beq_refl.
    - rewrite of_type_map. unfold P. rewrite filter_mains. reflexivity.
    - rewrite of_type_map. unfold P. rewrite filter_mains. cbn [map forallb to_sp sp_body pk_body snd].
      rewrite Emain, beq_refl. reflexivity.
    - rewrite of_type_map. unfold P. rewrite filter_creators. reflexivity.
    - rewrite of_type_map. unfold P. rewrite filter_creators. reflexivity.
    - (* FileDesc and IFSC for every input *)
      apply forallb_forall. intros x Hx.
      destruct (cv_in x Hx) as (n & d & Hnd' & -> & _ & _).
      destruct (cv_bodies n d Hnd') as (A1 & A2 & A3). cbv zeta in A2, A3.
      pose proof (cv_recset_in _ Hx) as Hrec.
      rewrite !of_type_map. unfold P. rewrite filter_fdescs, filter_ifscs, Hids.
      apply andb_true_iff. split; [apply andb_true_iff; split|].
      + exact A1.
      + apply existsb_exists. exists (to_sp (md5 (mbody m), TYPE_FDESC, fbody md5 fds (file_id_of md5 (mk_in (n, d))))).
        split.
        * apply in_map. apply (in_map (fun id => (md5 (mbody m), TYPE_FDESC, fbody md5 fds id))). exact Hrec.
        * cbn [to_sp sp_body pk_body snd]. rewrite A2. apply beq_refl.
      + apply existsb_exists. exists (to_sp (md5 (mbody m), TYPE_IFSC, ibody ifs (file_id_of md5 (mk_in (n, d))))).
        split.
        * apply in_map. apply (in_map (fun id => (md5 (mbody m), TYPE_IFSC, ibody ifs id))). exact Hrec.
        * cbn [to_sp sp_body pk_body snd]. rewrite A3. apply beq_refl.
    - rewrite of_type_map. unfold P. rewrite filter_fdescs, Hids, !map_length, cv_len. apply Nat.eqb_refl.
    - rewrite of_type_map. unfold P. rewrite filter_ifscs, Hids, !map_length, cv_len. apply Nat.eqb_refl.
    - (* recovery blocks *)
      rewrite Hrecvs. unfold recv_pkts. rewrite !map_map. rewrite forallb_map. apply forallb_forall. intros ed Hed.
      cbn [to_sp sp_body pk_body snd].
      destruct (Hrp ed Hed) as (e & He & -> & Eb). rewrite Eb, (Hdec e He).
      pose proof He as He'. apply in_seq in He'.
      rewrite (skipn_app_len _ _ 4 (le_encode_length 4 _)).
      rewrite app_length, le_encode_length, (cv_parity_row e) by lia.
      rewrite Nat2N.id, words_le_eq, le_words_le_bytes_any, (cv_block e) by lia.
      rewrite beq_words_refl, Nat.eqb_refl.
      assert (E : (N.of_nat e <? N.of_nat np) = true) by (apply N.ltb_lt; lia).
      rewrite E. reflexivity.
    - (* the index has no recovery packet *)
      destruct is_index; [|reflexivity]. rewrite Hrecvs. unfold recv_pkts. rewrite !map_length.
      unfold recv, volrecv. rewrite map_length, seq_length, (Hix eq_refl). reflexivity.
    - (* known types *)
      rewrite forallb_map. apply forallb_forall. intros p Hp. cbn [to_sp sp_type].
      destruct (rw_class md5 _ _ _ _ _ _ _ Hw p Hp) as [->|[->|[(id & _ & ->)|[(id & _ & ->)|(ed & _ & ->)]]]];
        cbn [pk_type fst snd]; reflexivity.
  Qed.

  (** ** the whole set *)
  Lemma cv_ascending : ascending (map id_num sids) = true.
  Proof.
    rewrite cv_ids. apply ascending_sorted.
    - apply Forall_forall. intros id Hid. apply cv_recset_iff in Hid. destruct Hid as (i & Hi & <-).
      destruct (cv_info_in i Hi) as (name & data & _ & ->). cbn [data_file_info fi_id]. unfold compute_file_id.
      split; [apply md5_len|apply md5_bytes].
    - apply sort_ids_sorted.
    - exact (recset_nd md5 sz names datas Hnd).
  Qed.

  Let tag (pb : list N * bytes) : bool * bytes := (str_eqb (fst pb) (basep ++ EXT_PAR2), snd pb).
  Let VF (o : bool * bytes) : option (list N) := valid_file md5 sz np ins setid mainbody consts sslices (fst o) (snd o).

  Theorem cv_valid_set : valid_set md5 sz np ins (map tag outs) = true.
  Proof.
    destruct cv_inv as (_ & _ & _ & sid & ixb & vols & EW & F2 & Eouts).
    change (negb (Nat.eqb sz 0) && Nat.eqb (sz mod 4) 0 && ascending (map id_num sids)
            && forallb (fun r : option (list N) => match r with Some _ => true | None => false end) (map VF (map tag outs))
            && Nat.eqb (length (filter fst (map tag outs))) 1
            && beq_words (fold_right insert_n [] (flat_map (fun r : option (list N) => match r with Some e => e | None => [] end)
                                                           (map VF (map tag outs))))
                         (map N.of_nat (seq 0 np)) = true).
    (* the results, file by file *)
    assert (Eix : tag (basep ++ EXT_PAR2, ixb) = (true, ixb)).
    { unfold tag. cbn [fst snd]. rewrite str_eqb_refl. reflexivity. }
    assert (Rix : VF (true, ixb) = Some []).
    { unfold VF. cbn [fst snd]. apply (cv_valid 0 0 sid ixb true); [lia|exact EW|reflexivity]. }
    assert (Hone : forall (ic : nat * nat) (v : list N * bytes), In ic layout ->
              (exists sid' vb, write_file md5 CLIENT_ID m fds ifs (volrecv (fst ic) (snd ic)) = Ok (sid', vb) /\
                               v = (volpath (fst ic) (snd ic), vb)) ->
              VF (tag v) = Some (map N.of_nat (seq (fst ic) (snd ic))) /\ fst (tag v) = false).
    { intros ic v Hin (sid' & vb & Hw & ->).
      assert (Et : tag (volpath (fst ic) (snd ic), vb) = (false, vb)).
      { unfold tag. cbn [fst snd]. f_equal. destruct (str_eqb (volpath (fst ic) (snd ic)) (basep ++ EXT_PAR2)) eqn:E; [|reflexivity].
        apply str_eqb_eq in E. exfalso. apply (ix_not_vol parPath (fst ic) (snd ic)). symmetry. exact E. }
      rewrite Et. split; [|reflexivity]. unfold VF. cbn [fst snd].
      destruct (volume_layout_bounds (S np) 0 1 np ic ltac:(lia) Hin) as (_ & _ & Hb).
      apply (cv_valid (fst ic) (snd ic) sid' vb false Hb Hw). discriminate. }
    assert (Rvols : map (fun v => VF (tag v)) vols = map (fun ic : nat * nat => Some (map N.of_nat (seq (fst ic) (snd ic)))) layout).
    { apply (Forall2_map_eq_in _ _ _ _ _ F2). intros x y Hx Hr. apply (Hone x y Hx Hr). }
    assert (Fvols : filter fst (map tag vols) = []).
    { apply filter_false. intros o Ho. apply in_map_iff in Ho. destruct Ho as (v & <- & Hv).
      destruct (Forall2_in_r _ _ _ F2 v Hv) as (ic & Hic & Hr). apply (Hone ic v Hic Hr). }
    rewrite Eouts. cbn [map]. rewrite Eix. cbn [filter fst flat_map forallb]. rewrite Rix, Fvols, map_map, Rvols.
    destruct cv_sz as [S0 S4].
    assert (E0 : Nat.eqb sz 0 = false) by (apply Nat.eqb_neq; exact S0).
    rewrite E0, S4, cv_ascending. cbn [negb Nat.eqb andb length app].
    rewrite forallb_map. rewrite flat_map_map', flat_map_concat_map.
    fold layout. unfold layout at 2. rewrite (exponent_union np), beq_words_refl, !andb_true_r.
    apply forallb_forall. intros ic _. reflexivity.
  Qed.
End CreateValid.

(** * MAIN THEOREM *)
Section Par2SpecFacts.
  Variable md5 : bytes -> bytes.
  Hypothesis md5_len : forall x, length (md5 x) = 16%nat.
  Hypothesis md5_bytes : forall x, wf_bytes (md5 x).

  Theorem create_outputs_valid : forall parPath sz np names datas outs,
    create_outputs md5 parPath sz np names datas = Ok outs ->
    N.of_nat sz <= MAXSLICE ->
    Forall (fun nm : bytes => no_nul nm /\ N.of_nat (length nm) < 2 ^ 32) names ->
    Forall (fun d : bytes => wf_bytes d /\ N.of_nat (length d) <= MAXINT) datas ->
    NoDup (map fi_id (map (fun nd : bytes * bytes => data_file_info md5 sz (fst nd) (snd nd)) (combine names datas))) ->
    valid_set md5 sz np (map (fun nd : bytes * bytes => {| in_name := fst nd; in_data := snd nd |}) (combine names datas))
              (map (fun pb : list N * bytes => (str_eqb (fst pb) (strip_ext parPath ++ EXT_PAR2), snd pb)) outs) = true.
  Proof.
    intros parPath sz np names datas outs Hc Hsz Hn Hd Hnd.
    exact (cv_valid_set md5 md5_len md5_bytes parPath sz np names datas outs Hc Hsz Hn Hd Hnd).
  Qed.
End Par2SpecFacts.

Print Assumptions s_parse_frames.
Print Assumptions le_decode_lt_iff.
Print Assumptions s_sorted_ids.
Print Assumptions recovery_set_order.
Print Assumptions ascending_sorted.
Print Assumptions s_consts_generators.
Print Assumptions s_block_parity.
Print Assumptions exponent_union.
Print Assumptions cv_block.
Print Assumptions cv_valid.
Print Assumptions create_outputs_valid.
