(* The `par` command (Model/CLI.v), PAR1 create command lines `par c [-s N] [-c N] x.par files...`:
   C1a. cli_run_create1 / cli_create1_codes / cli_create1_state: the exit status is 0 / 7 / 2 for the
        library results Ok / Err / Panic of par1.Create, and the final io state is the library's.
        main.go hands the index path and the file paths to par1.Create AS GIVEN (no filepath.Abs, the
        working directory is not used) and the value of -c (default 3) as the volume count; -s is parsed
        and ignored.
   C1b. cli_create1_zero_means_created: status 0 means par1.Create returned Ok with the command's final
        state; cli_create1_nonzero_on_failure: a Create that did not succeed never exits 0.
   C1c. cli_create1_then_verify1_zero: composed with Par1RoundTrip.par1_create_then_verify_clean, after a
        create line exits 0 every verify command line on that index (with or without -a, any cwd) exits 0.
        No side condition beyond the premises of the library theorem is needed: unlike PAR2, neither
        command resolves paths against the working directory. *)
From Coq Require Import Lia.
From Coq Require Strings.String Strings.Ascii.
From Gopar Require Import Model.Base Model.GF8 Model.CRC Model.GoPath Model.FS Model.Par1 Model.Par2 Model.CLI
     Proofs.GoPathFacts Proofs.Par1Facts Proofs.CLIFacts Proofs.CLICompose Proofs.Par1Clean Proofs.Par1RoundTrip.
Open Scope N_scope.
Set Default Timeout 120.

(** * the PAR1 create command line *)

(* the volume count main.go passes to par1.Create: -c, default 3 *)
Definition create1_nvol (vv : list (list N * list N)) : Z := int_flag vv F_C 3.

(* the number of volumes par1.Create writes for that value *)
Definition create1_volumes (nvol : Z) : nat := if (nvol <=? 0)%Z then 3%nat else Z.to_nat nvol.

(* par [-g N] [-cpuprofile F] c|create [-s N] [-c N] <par>.par <file> <file>... *)
Definition cli_is_create1 (args : list (list N)) (par : list N) (files : list (list N)) (nvol : Z) : Prop :=
  exists gv cmd cargs vv,
    cli_command args gv cmd cargs /\ is_create_word cmd /\
    parse_flags (S (length cargs)) CREATE_FLAGS cargs [] = Some (vv, par :: files) /\
    files <> [] /\ ext par = EXT_PAR /\ nvol = create1_nvol vv.

Section CLICompose1.
  Variable md5 : bytes -> bytes.

  (** * C1a. the command is the library call *)

  Lemma cli_run_create1 cwd args par files nvol st : cli_is_create1 args par files nvol ->
    cli_run md5 cwd args st =
    match par1_create md5 par files nvol st with
    | (Ok _, st') => (EXIT_OK, st')
    | (Err _, st') => (EXIT_LOGIC, st')
    | (Panic _, st') => (2, st')
    end.
  Proof.
    intros (gv & cmd & cargs & vv & Hc & Hw & Hp & Hne & He & ->).
    rewrite (cli_run_command md5 cwd _ _ _ _ st Hc). unfold dispatch.
    rewrite (create_word_tests _ Hw). rewrite Hp.
    destruct files as [|f files]; [contradiction Hne; reflexivity|].
    cbv zeta. rewrite He. rewrite ext_par_par. reflexivity.
  Qed.

  (* the statuses of a PAR1 create command line: 0 success, 7 any error, 2 a Go panic *)
  Theorem cli_create1_codes : forall cwd args par files nvol st,
    cli_is_create1 args par files nvol ->
    fst (cli_run md5 cwd args st) =
      match fst (par1_create md5 par files nvol st) with Ok _ => 0 | Err _ => 7 | Panic _ => 2 end.
  Proof.
    intros cwd args par files nvol st Hc. rewrite (cli_run_create1 cwd _ _ _ _ st Hc).
    destruct (par1_create md5 par files nvol st) as [[u|e|q] st2]; reflexivity.
  Qed.

  (* whatever the status, the command's final state is the library's *)
  Theorem cli_create1_state : forall cwd args par files nvol st,
    cli_is_create1 args par files nvol ->
    snd (cli_run md5 cwd args st) = snd (par1_create md5 par files nvol st).
  Proof.
    intros cwd args par files nvol st Hc. rewrite (cli_run_create1 cwd _ _ _ _ st Hc).
    destruct (par1_create md5 par files nvol st) as [[u|e|q] st2]; reflexivity.
  Qed.

  (* both at once *)
  Corollary cli_create1_codes_state : forall cwd args par files nvol st,
    cli_is_create1 args par files nvol ->
    cli_run md5 cwd args st =
      (match fst (par1_create md5 par files nvol st) with Ok _ => 0 | Err _ => 7 | Panic _ => 2 end,
       snd (par1_create md5 par files nvol st)).
  Proof.
    intros cwd args par files nvol st Hc.
    rewrite <- (cli_create1_codes cwd _ _ _ _ st Hc), <- (cli_create1_state cwd _ _ _ _ st Hc).
    destruct (cli_run md5 cwd args st); reflexivity.
  Qed.

  (* the working directory plays no part in a PAR1 create command *)
  Corollary cli_create1_cwd_irrelevant : forall cwd cwd2 args par files nvol st,
    cli_is_create1 args par files nvol -> cli_run md5 cwd args st = cli_run md5 cwd2 args st.
  Proof.
    intros cwd cwd2 args par files nvol st Hc.
    rewrite (cli_run_create1 cwd _ _ _ _ st Hc), (cli_run_create1 cwd2 _ _ _ _ st Hc). reflexivity.
  Qed.

  (** * C1b. exit status 0 means created *)

  Lemma cli_create1_zero_lib : forall cwd args par files nvol st st',
    cli_run md5 cwd args st = (0, st') -> cli_is_create1 args par files nvol ->
    par1_create md5 par files nvol st = (Ok tt, st').
  Proof.
    intros cwd args par files nvol st st' H Hc. rewrite (cli_run_create1 cwd _ _ _ _ st Hc) in H.
    destruct (par1_create md5 par files nvol st) as [[[]|e|q] st2].
    - apply (f_equal snd) in H. cbn [snd] in H. rewrite H. reflexivity.
    - apply (f_equal fst) in H. discriminate H.
    - apply (f_equal fst) in H. discriminate H.
  Qed.

  Theorem cli_create1_zero_means_created : forall cwd args par files nvol fs st',
    cli_run md5 cwd args (io_init fs []) = (0, st') -> cli_is_create1 args par files nvol ->
    par1_create md5 par files nvol (io_init fs []) = (Ok tt, st').
  Proof. intros cwd args par files nvol fs st'. apply cli_create1_zero_lib. Qed.

  (* and conversely *)
  Theorem cli_create1_created_means_zero : forall cwd args par files nvol st st',
    cli_is_create1 args par files nvol -> par1_create md5 par files nvol st = (Ok tt, st') ->
    cli_run md5 cwd args st = (0, st').
  Proof.
    intros cwd args par files nvol st st' Hc H. rewrite (cli_run_create1 cwd _ _ _ _ st Hc), H. reflexivity.
  Qed.

  Theorem cli_create1_nonzero_on_failure : forall cwd args par files nvol st,
    cli_is_create1 args par files nvol -> fst (par1_create md5 par files nvol st) <> Ok tt ->
    fst (cli_run md5 cwd args st) <> 0.
  Proof.
    intros cwd args par files nvol st Hc Hne. rewrite (cli_create1_codes cwd _ _ _ _ st Hc).
    destruct (fst (par1_create md5 par files nvol st)) as [[]|e|q];
      [contradiction Hne; reflexivity|discriminate|discriminate].
  Qed.

  (* status 0 iff the library succeeded *)
  Corollary cli_create1_zero_iff : forall cwd args par files nvol st,
    cli_is_create1 args par files nvol ->
    (fst (cli_run md5 cwd args st) = 0 <-> fst (par1_create md5 par files nvol st) = Ok tt).
  Proof.
    intros cwd args par files nvol st Hc. split.
    - intros H. destruct (cli_run md5 cwd args st) as [n st'] eqn:E. cbn [fst] in H. subst n.
      rewrite (cli_create1_zero_lib _ _ _ _ _ _ _ E Hc). reflexivity.
    - intros H. rewrite (cli_create1_codes cwd _ _ _ _ st Hc), H. reflexivity.
  Qed.

  (** * C1c. create, then the verify command line *)

  (* the library form: the verify command IS par1.Verify on the created directory, which succeeds with no
     unusable file, no unusable volume, min nv 99 volumes found and (with -a) a passing parity check *)
  Theorem cli_create1_then_verify1_lib : (forall x, length (md5 x) = 16%nat) ->
    forall cwd args par files nvol fs st',
    cli_run md5 cwd args (io_init fs []) = (0, st') -> cli_is_create1 args par files nvol ->
    let nv := create1_volumes nvol in
    Forall (fun f => input_name_ok (base f)) files ->
    Forall (fun f => join2 (dir par) (base f) = f) files ->
    (forall f d, In f files -> fs_lookup fs f = Some d -> N.of_nat (length d) < 2^64) ->
    Forall (fun f => f <> par /\ forall k, (1 <= k <= nv)%nat -> f <> volume_path par (N.of_nat k)) files ->
    (forall k, (nv < k <= Nat.min (256 - length files) 99)%nat ->
       fs_lookup fs (volume_path par (N.of_nat k)) = None /\ is_dir fs (volume_path par (N.of_nat k)) = false) ->
    forall cwd2 vargs all, cli_is_verify1 vargs par all ->
    exists c st2,
      par1_verify md5 par all (io_init (io_fs st') []) = (Ok (c, all), st2) /\
      cli_run md5 cwd2 vargs (io_init (io_fs st') []) = (0, st2) /\
      fc_unusable c = 0%nat /\ fc_punusable c = 0%nat /\ fc_usable c = length files /\ fc_pusable c = Nat.min nv 99.
  Proof.
    intros Hmd5 cwd args par files nvol fs st' H Hc nv Hnames Hjoin Hlens Hdisj Hstale cwd2 vargs all Hv.
    pose proof (cli_create1_zero_means_created _ _ _ _ _ _ _ H Hc) as HC.
    destruct (par1_create_then_verify_clean md5 Hmd5 par files nvol fs st' all HC Hnames Hjoin Hlens)
      as (c & st2 & HV & C1 & C2 & C3 & C4).
    { intros k Hk. destruct (Hstale k Hk) as [S1 S2]. split; [exact S2|]. intros b Hb. rewrite S1 in Hb. discriminate Hb. }
    exists c, st2. split; [exact HV|]. split; [|repeat split; assumption].
    rewrite (cli_run_verify1 md5 cwd2 _ _ _ _ Hv), HV, C1. reflexivity.
  Qed.

  (* C1c as stated: the premises are those of par1_create_then_verify_clean - MD5 results are 16 bytes; every
     input's base name is the UTF-8 encoding of a non-empty list of scalar values, shorter than 2^62 bytes;
     every input path is <dir of the index>/<its base name> as filepath.Join spells it (the files are beside
     the index); the inputs are shorter than 2^64 bytes; no input is the index or one of the volumes
     .p01 .. .p<nv>; no stale volume .p<k>, nv < k <= min (256 - #files) 99, exists (as a file or a directory) *)
  Theorem cli_create1_then_verify1_zero : (forall x, length (md5 x) = 16%nat) ->
    forall cwd args par files nvol fs st',
    cli_run md5 cwd args (io_init fs []) = (0, st') -> cli_is_create1 args par files nvol ->
    let nv := create1_volumes nvol in
    Forall (fun f => input_name_ok (base f)) files ->
    Forall (fun f => join2 (dir par) (base f) = f) files ->
    (forall f d, In f files -> fs_lookup fs f = Some d -> N.of_nat (length d) < 2^64) ->
    Forall (fun f => f <> par /\ forall k, (1 <= k <= nv)%nat -> f <> volume_path par (N.of_nat k)) files ->
    (forall k, (nv < k <= Nat.min (256 - length files) 99)%nat ->
       fs_lookup fs (volume_path par (N.of_nat k)) = None /\ is_dir fs (volume_path par (N.of_nat k)) = false) ->
    forall cwd2 vargs all, cli_is_verify1 vargs par all ->
      fst (cli_run md5 cwd2 vargs (io_init (io_fs st') [])) = 0.
  Proof.
    intros Hmd5 cwd args par files nvol fs st' H Hc nv Hnames Hjoin Hlens Hdisj Hstale cwd2 vargs all Hv.
    destruct (cli_create1_then_verify1_lib Hmd5 cwd args par files nvol fs st' H Hc Hnames Hjoin Hlens Hdisj Hstale
                cwd2 vargs all Hv) as (c & st2 & _ & E & _).
    rewrite E. reflexivity.
  Qed.

End CLICompose1.

(** * the predicate is inhabited; the premises are satisfiable; what the statements do not say *)

Module Compose1Examples.
  Import Coq.Strings.String Coq.Strings.Ascii.
  Local Open Scope string_scope.

  Definition s := CLIFacts.Examples.s.

  (* par c -c 2 a.par x y *)
  Definition ex_cargs : list (list N) := [s "c"; s "-c"; s "2"; s "a.par"; s "x"; s "y"].

  Example ex_create1 : cli_is_create1 ex_cargs (s "a.par") [s "x"; s "y"] 2.
  Proof.
    exists [], (s "c"), [s "-c"; s "2"; s "a.par"; s "x"; s "y"], [(s "c", s "2")].
    unfold cli_command, is_create_word. repeat split; try reflexivity; try discriminate. left; reflexivity.
  Qed.

  (* global flags, another letter case, -s (parsed, unused by PAR1), -c=N, a directory; and the defaults *)
  Example ex_create1_flags :
    cli_is_create1 [s "-g"; s "4"; s "CrEaTe"; s "-s"; s "4096"; s "-c=5"; s "d/a.par"; s "d/x.bin"]
                   (s "d/a.par") [s "d/x.bin"] 5.
  Proof.
    exists [(s "g", s "4")], (s "CrEaTe"), [s "-s"; s "4096"; s "-c=5"; s "d/a.par"; s "d/x.bin"],
           [(s "c", s "5"); (s "s", s "4096")].
    unfold cli_command, is_create_word. repeat split; try reflexivity; try discriminate. right; reflexivity.
  Qed.

  Example ex_create1_defaults : cli_is_create1 [s "create"; s "a.par"; s "x"] (s "a.par") [s "x"] 3.
  Proof.
    exists [], (s "create"), [s "a.par"; s "x"], [].
    unfold cli_command, is_create_word. repeat split; try reflexivity; try discriminate. right; reflexivity.
  Qed.

  (* the names of Par1Clean's example are the strings used here *)
  Example ex_names : s "a.par" = ex_ix /\ [s "x"; s "y"] = ex_files.
  Proof. split; reflexivity. Qed.

  (* all premises of cli_create1_then_verify1_zero hold for `par c -c 2 a.par x y` in a directory holding
     "x" and "y" (toy 16-byte hash): the create line exits 0, ... *)
  Example ex_create1_exit0 : fst (cli_run toy_hash [] ex_cargs (io_init ex_fs0 [])) = 0.
  Proof. vm_compute. reflexivity. Qed.

  (* ... and so every verify line on a.par exits 0 - through the theorem *)
  Example ex_create1_then_verify1 : forall cwd cwd2 vargs all, cli_is_verify1 vargs (s "a.par") all ->
    fst (cli_run toy_hash cwd2 vargs (io_init (io_fs (snd (cli_run toy_hash cwd ex_cargs (io_init ex_fs0 [])))) [])) = 0.
  Proof.
    intros cwd cwd2 vargs all Hv.
    destruct (cli_run toy_hash cwd ex_cargs (io_init ex_fs0 [])) as [n st'] eqn:E. cbn [snd].
    assert (En : n = 0).
    { apply (f_equal fst) in E. cbn [fst] in E. rewrite <- E.
      rewrite (cli_create1_cwd_irrelevant toy_hash cwd [] _ _ _ _ _ ex_create1). exact ex_create1_exit0. }
    subst n.
    destruct rt_example_premises as (P1 & P2 & P3 & P4 & P5).
    apply (cli_create1_then_verify1_zero toy_hash toy_hash_len cwd ex_cargs (s "a.par") [s "x"; s "y"] 2 ex_fs0 st'
             E ex_create1 P1 P2 (fun f d Hin Hl => proj1 (P3 f d Hin Hl)) P4 P5 cwd2 vargs all Hv).
  Qed.

  (* the same by computation, for `par verify -a a.par` and `par v a.par` *)
  Example ex_create1_then_verify1_computed :
    let fs' := io_fs (snd (cli_run toy_hash [] ex_cargs (io_init ex_fs0 []))) in
    fst (cli_run toy_hash [] [s "verify"; s "-a"; s "a.par"] (io_init fs' [])) = 0 /\
    fst (cli_run toy_hash [] [s "v"; s "a.par"] (io_init fs' [])) = 0.
  Proof. split; vm_compute; reflexivity. Qed.

  (* the status 7 is reached: a missing input (the library returns Err ENotExist); two inputs with the
     same base name (Err EUsage, nothing touched) *)
  Example ex_create1_missing_input_7 :
    fst (par1_create toy_hash (s "a.par") [s "x"; s "nosuch"] 3 (io_init ex_fs0 [])) = Err ENotExist /\
    fst (cli_run toy_hash [] [s "c"; s "a.par"; s "x"; s "nosuch"] (io_init ex_fs0 [])) = 7.
  Proof. split; vm_compute; reflexivity. Qed.

  Example ex_create1_dup_names_7 :
    cli_run toy_hash [] [s "c"; s "a.par"; s "x"; s "d/x"] (io_init ex_fs0 []) = (7, io_init ex_fs0 []).
  Proof. vm_compute. reflexivity. Qed.

  (* LIMITS.  1. The premise "the files are beside the index" is needed: par1.Create stores base names only,
     so for an input in a subdirectory the create line exits 0 and the following verify looks for ./x,
     finds nothing, and exits 1 (repair possible) *)
  Example cli_create1_then_verify1_subdir_refuted :
    let fs0 := [(s "d/x", [1; 2; 3])] in
    let r := cli_run toy_hash [] [s "c"; s "-c"; s "2"; s "a.par"; s "d/x"] (io_init fs0 []) in
    fst r = 0 /\
    join2 (dir (s "a.par")) (base (s "d/x")) <> s "d/x" /\
    fst (cli_run toy_hash [] [s "v"; s "a.par"] (io_init (io_fs (snd r)) [])) = 1.
  Proof. split; [vm_compute; reflexivity|split; [vm_compute; discriminate|vm_compute; reflexivity]]. Qed.

  (* 2. A stale volume of ANOTHER set beside a fresh set is unusable, not fatal (after the fix of the PAR1 loader): an
     old a.p03 of another set (one that parses) is skipped and the verify line exits 0 - before the fix it exited 7
     (Par1RoundTrip.par1_stale_foreign_volume_ignored; an unparsable file there likewise:
     Par1RoundTrip.par1_stale_unparsable_volume_ignored).  What the premise on the paths beyond nv still has to
     exclude is a DIRECTORY there: the verify line exits 7 *)
  Example cli_create1_then_verify1_stale_ignored :
    let fs0 := (ex_fs0 ++ [(volume_path ex_ix 3, ex_stale)])%list in
    let r := cli_run toy_hash [] ex_cargs (io_init fs0 []) in
    fst r = 0 /\ fst (cli_run toy_hash [] [s "v"; s "a.par"] (io_init (io_fs (snd r)) [])) = 0.
  Proof. split; vm_compute; reflexivity. Qed.

  Example cli_create1_then_verify1_dir_refuted :
    let fs0 := (ex_fs0 ++ [(volume_path ex_ix 3 ++ s "/z", [9])])%list in
    let r := cli_run toy_hash [] ex_cargs (io_init fs0 []) in
    fst r = 0 /\ fst (cli_run toy_hash [] [s "v"; s "a.par"] (io_init (io_fs (snd r)) [])) = 7.
  Proof. split; vm_compute; reflexivity. Qed.

  (* 3. In this model the status of `par verify -a x.par` does NOT depend on the verdict of the parity check:
     main.go looks at the file counts only.  Whenever Verify -a returns (counts, false) with no unusable file,
     the command exits 0 ... *)
  Lemma cli_verify1_all_ignores_verdict : forall md5 cwd vargs par st c st1,
    cli_is_verify1 vargs par true -> par1_verify md5 par true st = (Ok (c, false), st1) ->
    fc_unusable c = 0%nat -> fst (cli_run md5 cwd vargs st) = 0.
  Proof.
    intros md5 cwd vargs par st c st1 Hv HV Hc.
    rewrite (cli_verify1_codes md5 cwd _ _ _ _ _ _ _ Hv HV), Hc. reflexivity.
  Qed.

  (* ... and this happens: after the create line, with a.p01 deleted (a.p02 kept), Verify -a skips the parity
     check, reports the verdict false, and `par v -a a.par` exits 0.  So "status 0 from verify -a" says nothing
     about the parity check; cli_create1_then_verify1_lib states the verdict (= all) separately. *)
  Example cli_verify1_all_zero_verdict_false :
    let fs' := fs_remove [volume_path ex_ix 1] (io_fs (snd (cli_run toy_hash [] ex_cargs (io_init ex_fs0 [])))) in
    fst (par1_verify toy_hash (s "a.par") true (io_init fs' [])) =
      Ok ({| fc_usable := 2; fc_unusable := 0; fc_pusable := 1; fc_punusable := 1 |}, false) /\
    fst (cli_run toy_hash [] [s "v"; s "-a"; s "a.par"] (io_init fs' [])) = 0.
  Proof. split; vm_compute; reflexivity. Qed.
End Compose1Examples.

Print Assumptions cli_run_create1.
Print Assumptions cli_create1_codes.
Print Assumptions cli_create1_state.
Print Assumptions cli_create1_zero_means_created.
Print Assumptions cli_create1_created_means_zero.
Print Assumptions cli_create1_nonzero_on_failure.
Print Assumptions cli_create1_zero_iff.
Print Assumptions cli_create1_then_verify1_lib.
Print Assumptions cli_create1_then_verify1_zero.
Print Assumptions Compose1Examples.ex_create1_then_verify1.
