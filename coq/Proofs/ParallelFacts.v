(* C12: the partition computed by calculateParallelParams, ownership of cells by
   workers, and independence of the result from the schedule. *)
From Coq Require Import Lia ZArith List Bool Arith.
From Gopar Require Import Model.Base Model.GF16 Model.Parallel.
Open Scope Z_scope.

Lemma par_params_spec total g minLen d :
  0 < total -> 1 <= g -> 1 <= minLen -> 1 <= d ->
  let '(per, g') := par_params total g minLen d in
  0 < per /\ minLen <= per /\ per mod d = 0 /\ 1 <= g' <= g /\ (g' - 1) * per < total <= g' * per.
Proof.
  intros Ht Hg Hm Hd. unfold par_params.
  rewrite (Z.quot_div_nonneg (total + g - 1) g) by lia.
  set (per0 := (total + g - 1) / g).
  assert (H0 : g * per0 <= total + g - 1 < g * per0 + g).
  { unfold per0. pose proof (Z.mul_div_le (total + g - 1) g ltac:(lia)).
    pose proof (Z.mul_succ_div_gt (total + g - 1) g ltac:(lia)). lia. }
  assert (Hp0 : 0 <= per0) by (unfold per0; apply Z.div_pos; lia).
  set (per1 := if per0 <? minLen then minLen else per0).
  assert (H1 : per0 <= per1 /\ minLen <= per1).
  { unfold per1. destruct (per0 <? minLen) eqn:E; [apply Z.ltb_lt in E | apply Z.ltb_ge in E]; lia. }
  rewrite (Z.rem_mod_nonneg per1 d) by lia.
  set (per := if per1 mod d =? 0 then per1 else per1 + (d - per1 mod d)).
  assert (H2 : per1 <= per /\ per mod d = 0).
  { unfold per. pose proof (Z.mod_pos_bound per1 d ltac:(lia)).
    destruct (per1 mod d =? 0) eqn:E; [apply Z.eqb_eq in E | apply Z.eqb_neq in E].
    - lia.
    - split; [lia|].
      pose proof (Z.div_mod per1 d ltac:(lia)) as Hdm.
      replace (per1 + (d - per1 mod d)) with ((per1 / d + 1) * d) by lia.
      apply Z.mod_mul. lia. }
  assert (Hper : 0 < per) by lia.
  rewrite (Z.quot_div_nonneg (total + per - 1) per) by lia.
  set (g' := (total + per - 1) / per).
  assert (H3 : per * g' <= total + per - 1 < per * g' + per).
  { unfold g'. pose proof (Z.mul_div_le (total + per - 1) per ltac:(lia)).
    pose proof (Z.mul_succ_div_gt (total + per - 1) per ltac:(lia)). lia. }
  assert (Hg1 : 1 <= g').
  { unfold g'. apply Z.div_le_lower_bound; lia. }
  repeat split; try lia.
  - (* g' <= g *)
    destruct (Z_le_gt_dec g' g) as [|Hgt]; [assumption|exfalso].
    assert (per * (g + 1) <= per * g') by (apply Z.mul_le_mono_nonneg_l; lia).
    assert (g * per0 <= g * per) by (apply Z.mul_le_mono_nonneg_l; lia).
    lia.
Qed.

Definition in_chunk (se : Z * Z) (x : Z) : Prop := fst se <= x < snd se.

(* every index below total lies in exactly one of the handed-out ranges *)
Lemma chunks_own total g minLen d x :
  0 < total -> 1 <= g -> 1 <= minLen -> 1 <= d -> 0 <= x < total ->
  exists k, (k < length (chunks total g minLen d))%nat /\
            in_chunk (nth k (chunks total g minLen d) (0, 0)) x /\
            forall k', (k' < length (chunks total g minLen d))%nat -> k' <> k ->
                       ~ in_chunk (nth k' (chunks total g minLen d) (0, 0)) x.
Proof.
  intros Ht Hg Hm Hd Hx. unfold chunks.
  pose proof (par_params_spec total g minLen d Ht Hg Hm Hd) as Hs.
  destruct (par_params total g minLen d) as [per g'].
  destruct Hs as (Hper & _ & _ & Hg' & Hcov).
  destruct (g' <? 2) eqn:E.
  - exists 0%nat. simpl. split; [lia|]. split; [unfold in_chunk; simpl; lia|].
    intros k' Hk' Hne. lia.
  - apply Z.ltb_ge in E.
    set (k := x / per).
    assert (Hk : per * k <= x < per * k + per).
    { unfold k. pose proof (Z.mul_div_le x per ltac:(lia)).
      pose proof (Z.mul_succ_div_gt x per ltac:(lia)). lia. }
    assert (Hk0 : 0 <= k) by (unfold k; apply Z.div_pos; lia).
    assert (Hkg : k < g').
    { destruct (Z_lt_ge_dec k g') as [|Hge]; [assumption|exfalso].
      assert (per * g' <= per * k) by (apply Z.mul_le_mono_nonneg_l; lia). lia. }
    exists (Z.to_nat k). rewrite map_length, seq_length.
    split; [lia|].
    assert (Hnth : forall j, (j < Z.to_nat g')%nat ->
                nth j (map (chunk total per) (seq 0 (Z.to_nat g'))) (0, 0) = chunk total per j).
    { intros j Hj. rewrite nth_indep with (d' := chunk total per 0%nat) by (rewrite map_length, seq_length; lia).
      rewrite map_nth. rewrite seq_nth by lia. reflexivity. }
    split.
    + rewrite Hnth by lia. unfold chunk, in_chunk. cbn [fst snd]. rewrite Z2Nat.id by lia.
      destruct (total <? k * per + per) eqn:E2; lia.
    + intros k' Hk' Hne. rewrite Hnth by lia. unfold chunk, in_chunk. cbn [fst snd].
      intros [Ha Hb].
      assert (Hb' : x < Z.of_nat k' * per + per) by (destruct (total <? Z.of_nat k' * per + per) eqn:E3; [apply Z.ltb_lt in E3|]; lia).
      apply Hne. apply Nat2Z.inj. rewrite Z2Nat.id by lia.
      unfold k. apply Z.div_unique with (r := x - Z.of_nat k' * per); lia.
Qed.

(** * cell-wise execution *)
Section Exec.
  Variable ins : nat -> nat -> N.

  (* value of cell (i,p) after a list of ops all of which cover it *)
  Definition cell_exec (p : nat) (tr : list op) (v : N) : N :=
    fold_left (fun v o => if o_acc o then N.lxor v (fmul (o_c o) (ins (o_in o) p)) else fmul (o_c o) (ins (o_in o) p)) tr v.

  Lemma exec_cell tr : forall st i p,
    exec ins tr st i p = cell_exec p (filter (fun o => covers o i p) tr) (st i p).
  Proof.
    induction tr as [|o tr IH]; intros st i p; [reflexivity|].
    unfold exec in *. cbn [fold_left filter]. rewrite IH. unfold exec_op.
    destruct (covers o i p); reflexivity.
  Qed.

  Lemma filter_proj (P : op -> bool) k (tr : list (nat * op)) :
    (forall x, In x tr -> fst x <> k -> P (snd x) = false) ->
    filter P (map snd tr) = filter P (proj k tr).
  Proof.
    unfold proj. induction tr as [|x tr IH]; intros H; [reflexivity|].
    cbn [map filter]. destruct (Nat.eqb (fst x) k) eqn:E.
    - cbn [map filter]. rewrite IH by (intros; apply H; [right|]; assumption). reflexivity.
    - apply Nat.eqb_neq in E. rewrite (H x (or_introl eq_refl) E).
      apply IH. intros; apply H; [right|]; assumption.
  Qed.

  (* ops of one row sequence, restricted to a cell *)
  Lemma filter_row_ops m nin s e i i' p :
    filter (fun o => covers o i' p) (row_ops m nin s e i) =
    if Nat.eqb i i' && (s <=? 2 * Z.of_nat p) && (2 * Z.of_nat p <? e) then row_ops m nin s e i else [].
  Proof.
    unfold row_ops. set (c := Nat.eqb i i' && (s <=? 2 * Z.of_nat p) && (2 * Z.of_nat p <? e)).
    cbn [filter]. unfold covers at 1. cbn [o_row o_s o_e]. fold c.
    assert (H : forall l, filter (fun o => covers o i' p)
       (map (fun j => {| o_row := i; o_s := s; o_e := e; o_c := ment m i j; o_in := j; o_acc := true |}) l)
       = if c then map (fun j => {| o_row := i; o_s := s; o_e := e; o_c := ment m i j; o_in := j; o_acc := true |}) l else []).
    { induction l as [|j l IHl]; [destruct c; reflexivity|].
      cbn [map filter]. unfold covers at 1. cbn [o_row o_s o_e]. fold c. rewrite IHl. destruct c; reflexivity. }
    rewrite H. destruct c; reflexivity.
  Qed.

  Lemma filter_concat {A} (P : A -> bool) (ls : list (list A)) :
    filter P (concat ls) = concat (map (filter P) ls).
  Proof. induction ls as [|l ls IH]; [reflexivity|]. cbn. rewrite filter_app, IH. reflexivity. Qed.

  Lemma concat_single_row {A} (f : nat -> list A) (i : nat) : forall n rs,
    (rs <= i < rs + n)%nat ->
    concat (map (fun j => if Nat.eqb j i then f j else []) (seq rs n)) = f i.
  Proof.
    induction n as [|n IH]; intros rs H; [lia|].
    cbn [seq map concat]. destruct (Nat.eqb rs i) eqn:E.
    - apply Nat.eqb_eq in E. subst rs.
      assert (Hz : forall n' r, (i < r)%nat -> concat (map (fun j => if Nat.eqb j i then f j else []) (seq r n')) = []).
      { induction n' as [|n' IH']; intros r Hr; [reflexivity|]. cbn [seq map concat].
        destruct (Nat.eqb r i) eqn:E'; [apply Nat.eqb_eq in E'; lia|]. rewrite IH' by lia. reflexivity. }
      rewrite Hz by lia. apply app_nil_r.
    - apply Nat.eqb_neq in E. rewrite IH by lia. reflexivity.
  Qed.

  Lemma concat_no_row {A} (f : nat -> list A) (c : nat -> bool) : forall n rs,
    (forall j, (rs <= j < rs + n)%nat -> c j = false) ->
    concat (map (fun j => if c j then f j else []) (seq rs n)) = [].
  Proof.
    induction n as [|n IH]; intros rs H; [reflexivity|].
    cbn [seq map concat]. rewrite H by lia. rewrite IH; [reflexivity|]. intros; apply H; lia.
  Qed.

  (* a slice worker restricted to a cell: the row program if the cell is in its rows and range, nothing otherwise *)
  Lemma filter_slice_ops m nin rs re s e i p :
    filter (fun o => covers o i p) (slice_ops m nin rs re s e) =
    if (Nat.leb rs i && Nat.ltb i re) && (s <=? 2 * Z.of_nat p) && (2 * Z.of_nat p <? e)
    then row_ops m nin s e i else [].
  Proof.
    unfold slice_ops. rewrite filter_concat, map_map.
    rewrite (map_ext _ _ (fun j => filter_row_ops m nin s e j i p)).
    destruct ((s <=? 2 * Z.of_nat p) && (2 * Z.of_nat p <? e)) eqn:Er.
    - destruct (Nat.leb rs i && Nat.ltb i re) eqn:Ei.
      + apply andb_prop in Ei. destruct Ei as [E1 E2]. apply Nat.leb_le in E1. apply Nat.ltb_lt in E2.
        rewrite <- andb_assoc, Er. cbn [andb].
        rewrite (map_ext _ (fun j => if Nat.eqb j i then row_ops m nin s e j else [])).
        2:{ intros j. rewrite <- andb_assoc, Er, andb_true_r. reflexivity. }
        rewrite (concat_single_row (row_ops m nin s e) i) by lia. reflexivity.
      + rewrite <- andb_assoc. cbn [andb].
        rewrite (map_ext _ (fun j => if Nat.eqb j i then row_ops m nin s e j else [])).
        2:{ intros j. rewrite <- andb_assoc, Er, andb_true_r. reflexivity. }
        apply concat_no_row. intros j Hj. apply Nat.eqb_neq. intros ->.
        apply andb_false_iff in Ei. destruct Ei as [E|E]; [apply Nat.leb_gt in E|apply Nat.ltb_ge in E]; lia.
    - rewrite <- !andb_assoc, Er, !andb_false_r.
      rewrite (map_ext _ (fun j => @nil op)).
      2:{ intros j. rewrite <- andb_assoc, Er, andb_false_r. reflexivity. }
      induction (seq rs (re - rs)) as [|a l IHl]; [reflexivity|exact IHl].
  Qed.

  Lemma cell_exec_row_ops m nin s e i p v :
    cell_exec p (row_ops m nin s e i) v = single_val m ins nin i p.
  Proof.
    unfold row_ops, cell_exec, single_val. cbn [fold_left o_acc o_c o_in].
    generalize (fmul (ment m i 0) (ins 0%nat p)) as v0. generalize (seq 1 (nin - 1)) as l.
    induction l as [|j l IH]; intros v0; [reflexivity|]. cbn [map fold_left o_acc o_c o_in]. apply IH.
  Qed.
End Exec.

(** * schedule independence *)

(* A family of slice workers such that every cell of the output is owned by exactly one of them. *)
Definition owned (ws : list (list op)) (i p : nat) (k : nat) (prog : list op) : Prop :=
  (k < length ws)%nat /\
  filter (fun o => covers o i p) (nth k ws []) = prog /\
  forall k', (k' < length ws)%nat -> k' <> k -> filter (fun o => covers o i p) (nth k' ws []) = [].

Lemma schedule_cell ins ws tr i p k prog st :
  is_schedule ws tr -> owned ws i p k prog ->
  exec ins (map snd tr) st i p = cell_exec ins p prog (st i p).
Proof.
  intros [Hproj Hlt] (Hk & Hprog & Hoth).
  rewrite exec_cell. rewrite (filter_proj _ k).
  - rewrite Hproj, Hprog. reflexivity.
  - intros x Hin Hne.
    rewrite Forall_forall in Hlt. specialize (Hlt x Hin).
    specialize (Hoth (fst x) Hlt Hne). rewrite <- Hproj in Hoth.
    assert (Hin' : In (snd x) (proj (fst x) tr)).
    { unfold proj. apply in_map. apply filter_In. split; [assumption|apply Nat.eqb_refl]. }
    destruct (covers (snd x) i p) eqn:E; [|reflexivity].
    assert (In (snd x) (filter (fun o => covers o i p) (proj (fst x) tr))) by (apply filter_In; split; assumption).
    rewrite Hoth in H. destruct H.
Qed.

Lemma nth_map_chunks {B} (f : Z * Z -> B) (l : list (Z * Z)) k d0 :
  (k < length l)%nat -> nth k (map f l) d0 = f (nth k l (0, 0)).
Proof. intros H. rewrite nth_indep with (d' := f (0, 0)) by (rewrite map_length; assumption). apply map_nth. Qed.

(* applyMatrixParallelData: cell (i, p) with i < rows, 2p < L is owned by one worker, whose program on it is the row program *)
Lemma owned_data m nin rows L g i p :
  0 < L -> 1 <= g -> (i < rows)%nat -> 2 * Z.of_nat p < L ->
  exists k s e, owned (workers_data m nin rows L g) i p k (row_ops m nin s e i).
Proof.
  intros HL Hg Hi Hp.
  destruct (chunks_own L g 16 16 (2 * Z.of_nat p) HL Hg ltac:(lia) ltac:(lia) ltac:(lia)) as (k & Hk & Hin & Hoth).
  unfold workers_data.
  exists k, (fst (nth k (chunks L g 16 16) (0, 0))), (snd (nth k (chunks L g 16 16) (0, 0))).
  unfold owned. rewrite map_length. split; [assumption|]. split.
  - rewrite nth_map_chunks by assumption. rewrite filter_slice_ops.
    unfold in_chunk in Hin.
    replace (Nat.leb 0 i && Nat.ltb i rows) with true
      by (symmetry; apply andb_true_intro; split; [apply Nat.leb_le|apply Nat.ltb_lt]; lia).
    replace (fst (nth k (chunks L g 16 16) (0, 0)) <=? 2 * Z.of_nat p) with true by (symmetry; apply Z.leb_le; lia).
    replace (2 * Z.of_nat p <? snd (nth k (chunks L g 16 16) (0, 0))) with true by (symmetry; apply Z.ltb_lt; lia).
    reflexivity.
  - intros k' Hk' Hne. rewrite nth_map_chunks by assumption. rewrite filter_slice_ops.
    specialize (Hoth k' Hk' Hne). unfold in_chunk in Hoth.
    destruct (fst (nth k' (chunks L g 16 16) (0, 0)) <=? 2 * Z.of_nat p) eqn:E1;
      [|rewrite andb_false_r; reflexivity].
    destruct (2 * Z.of_nat p <? snd (nth k' (chunks L g 16 16) (0, 0))) eqn:E2;
      [|rewrite andb_false_r; reflexivity].
    apply Z.leb_le in E1. apply Z.ltb_lt in E2. exfalso. apply Hoth. lia.
Qed.

(* applyMatrixParallelOut: ownership by row *)
Lemma owned_out m nin rows L g i p :
  (0 < rows)%nat -> 1 <= g -> (i < rows)%nat -> 0 <= 2 * Z.of_nat p < L ->
  exists k, owned (workers_out m nin rows L g) i p k (row_ops m nin 0 L i).
Proof.
  intros Hr Hg Hi Hp.
  destruct (chunks_own (Z.of_nat rows) g 1 1 (Z.of_nat i) ltac:(lia) Hg ltac:(lia) ltac:(lia) ltac:(lia)) as (k & Hk & Hin & Hoth).
  unfold workers_out. exists k.
  unfold owned. rewrite map_length. split; [assumption|]. split.
  - rewrite nth_map_chunks by assumption. rewrite filter_slice_ops.
    unfold in_chunk in Hin.
    replace (Nat.leb (Z.to_nat (fst (nth k (chunks (Z.of_nat rows) g 1 1) (0, 0)))) i &&
             Nat.ltb i (Z.to_nat (snd (nth k (chunks (Z.of_nat rows) g 1 1) (0, 0))))) with true
      by (symmetry; apply andb_true_intro; split; [apply Nat.leb_le|apply Nat.ltb_lt]; lia).
    replace (0 <=? 2 * Z.of_nat p) with true by (symmetry; apply Z.leb_le; lia).
    replace (2 * Z.of_nat p <? L) with true by (symmetry; apply Z.ltb_lt; lia).
    reflexivity.
  - intros k' Hk' Hne. rewrite nth_map_chunks by assumption. rewrite filter_slice_ops.
    specialize (Hoth k' Hk' Hne). unfold in_chunk in Hoth.
    destruct (Nat.leb (Z.to_nat (fst (nth k' (chunks (Z.of_nat rows) g 1 1) (0, 0)))) i) eqn:E1; [|reflexivity].
    destruct (Nat.ltb i (Z.to_nat (snd (nth k' (chunks (Z.of_nat rows) g 1 1) (0, 0))))) eqn:E2; [|reflexivity].
    apply Nat.leb_le in E1. apply Nat.ltb_lt in E2. exfalso.
    (* chunk bounds are non-negative, so Z.to_nat is faithful *)
    assert (Hnn : 0 <= fst (nth k' (chunks (Z.of_nat rows) g 1 1) (0, 0))).
    { clear - Hk' Hr Hg. unfold chunks in *.
      pose proof (par_params_spec (Z.of_nat rows) g 1 1 ltac:(lia) Hg ltac:(lia) ltac:(lia)) as Hs.
      destruct (par_params (Z.of_nat rows) g 1 1) as [per g']. destruct Hs as (Hper & _).
      destruct (g' <? 2).
      - destruct k' as [|[|?]]; simpl; lia.
      - rewrite map_length, seq_length in Hk'.
        rewrite nth_indep with (d' := chunk (Z.of_nat rows) per 0%nat) by (rewrite map_length, seq_length; lia).
        rewrite map_nth, seq_nth by lia. unfold chunk. cbn [fst]. nia. }
    apply Hoth. lia.
Qed.

Theorem schedule_data ins m nin rows L g tr st i p :
  0 < L -> 1 <= g -> (i < rows)%nat -> 2 * Z.of_nat p < L ->
  is_schedule (workers_data m nin rows L g) tr ->
  exec ins (map snd tr) st i p = single_val m ins nin i p.
Proof.
  intros HL Hg Hi Hp Hs.
  destruct (owned_data m nin rows L g i p HL Hg Hi Hp) as (k & s & e & Ho).
  rewrite (schedule_cell ins _ tr i p k _ st Hs Ho). apply cell_exec_row_ops.
Qed.

Theorem schedule_out ins m nin rows L g tr st i p :
  (0 < rows)%nat -> 1 <= g -> (i < rows)%nat -> 0 <= 2 * Z.of_nat p < L ->
  is_schedule (workers_out m nin rows L g) tr ->
  exec ins (map snd tr) st i p = single_val m ins nin i p.
Proof.
  intros Hr Hg Hi Hp Hs.
  destruct (owned_out m nin rows L g i p Hr Hg Hi Hp) as (k & Ho).
  rewrite (schedule_cell ins _ tr i p k _ st Hs Ho). apply cell_exec_row_ops.
Qed.

(* cells outside the output (row >= rows, or word beyond L) are never touched by any worker *)
Lemma chunk_end_le total g minLen d k :
  0 < total -> 1 <= g -> 1 <= minLen -> 1 <= d -> (k < length (chunks total g minLen d))%nat ->
  0 <= fst (nth k (chunks total g minLen d) (0, 0)) /\ snd (nth k (chunks total g minLen d) (0, 0)) <= total.
Proof.
  intros Ht Hg Hm Hd Hk. unfold chunks in *.
  pose proof (par_params_spec total g minLen d Ht Hg Hm Hd) as Hs.
  destruct (par_params total g minLen d) as [per g']. destruct Hs as (Hper & _).
  destruct (g' <? 2).
  - destruct k as [|[|?]]; simpl in *; lia.
  - rewrite map_length, seq_length in Hk.
    rewrite nth_indep with (d' := chunk total per 0%nat) by (rewrite map_length, seq_length; lia).
    rewrite map_nth, seq_nth by lia. unfold chunk. cbn [fst snd].
    destruct (total <? Z.of_nat (0 + k) * per + per) eqn:E; [|apply Z.ltb_ge in E]; split; nia.
Qed.

Lemma untouched_data ins m nin rows L g tr st i p :
  0 < L -> 1 <= g -> ((rows <= i)%nat \/ L <= 2 * Z.of_nat p) ->
  is_schedule (workers_data m nin rows L g) tr ->
  exec ins (map snd tr) st i p = st i p.
Proof.
  intros HL Hg Hout [Hproj Hlt].
  rewrite exec_cell.
  assert (Hall : forall x, In x tr -> covers (snd x) i p = false).
  { intros x Hin. rewrite Forall_forall in Hlt. pose proof (Hlt x Hin) as Hk.
    assert (Hin' : In (snd x) (nth (fst x) (workers_data m nin rows L g) [])).
    { rewrite <- Hproj. unfold proj. apply in_map. apply filter_In. split; [assumption|apply Nat.eqb_refl]. }
    destruct (covers (snd x) i p) eqn:E; [|reflexivity]. exfalso.
    assert (Hf : In (snd x) (filter (fun o => covers o i p) (nth (fst x) (workers_data m nin rows L g) [])))
      by (apply filter_In; split; assumption).
    unfold workers_data in Hf, Hk. rewrite map_length in Hk.
    rewrite nth_map_chunks in Hf by assumption. rewrite filter_slice_ops in Hf.
    destruct (chunk_end_le L g 16 16 (fst x) HL Hg ltac:(lia) ltac:(lia) Hk) as [_ Hse].
    set (se := nth (fst x) (chunks L g 16 16) (0, 0)) in *.
    destruct (Nat.leb 0 i && Nat.ltb i rows) eqn:E1; [|destruct Hf].
    destruct (fst se <=? 2 * Z.of_nat p) eqn:E2; [|destruct Hf].
    destruct (2 * Z.of_nat p <? snd se) eqn:E3; [|destruct Hf].
    apply andb_prop in E1. destruct E1 as [_ E1]. apply Nat.ltb_lt in E1. apply Z.ltb_lt in E3.
    destruct Hout; lia. }
  assert (Hnil : filter (fun o => covers o i p) (map snd tr) = []).
  { clear - Hall. induction tr as [|x tr IH]; [reflexivity|].
    cbn [map filter]. rewrite (Hall x (or_introl eq_refl)). apply IH. intros; apply Hall; right; assumption. }
  rewrite Hnil. reflexivity.
Qed.

(** * race freedom: no output cell is accessed by two different workers *)
Lemma cover_inside_data m nin rows L g k o i p :
  0 < L -> 1 <= g -> (k < length (workers_data m nin rows L g))%nat ->
  In o (nth k (workers_data m nin rows L g) []) -> covers o i p = true ->
  (i < rows)%nat /\ 0 <= 2 * Z.of_nat p < L.
Proof.
  intros HL Hg Hk Hin Hc.
  assert (Hf : In o (filter (fun o => covers o i p) (nth k (workers_data m nin rows L g) [])))
    by (apply filter_In; split; assumption).
  unfold workers_data in Hf, Hk. rewrite map_length in Hk.
  rewrite nth_map_chunks in Hf by assumption. rewrite filter_slice_ops in Hf.
  destruct (chunk_end_le L g 16 16 k HL Hg ltac:(lia) ltac:(lia) Hk) as [Hs0 Hse].
  set (se := nth k (chunks L g 16 16) (0, 0)) in *.
  destruct (Nat.leb 0 i && Nat.ltb i rows) eqn:E1; [|destruct Hf].
  destruct (fst se <=? 2 * Z.of_nat p) eqn:E2; [|destruct Hf].
  destruct (2 * Z.of_nat p <? snd se) eqn:E3; [|destruct Hf].
  apply andb_prop in E1. destruct E1 as [_ E1]. apply Nat.ltb_lt in E1. apply Z.ltb_lt in E3. apply Z.leb_le in E2.
  lia.
Qed.

Theorem race_free_data m nin rows L g k1 k2 o1 o2 i p :
  0 < L -> 1 <= g ->
  (k1 < length (workers_data m nin rows L g))%nat -> (k2 < length (workers_data m nin rows L g))%nat -> k1 <> k2 ->
  In o1 (nth k1 (workers_data m nin rows L g) []) -> In o2 (nth k2 (workers_data m nin rows L g) []) ->
  covers o1 i p = true -> covers o2 i p = true -> False.
Proof.
  intros HL Hg Hk1 Hk2 Hne H1 H2 C1 C2.
  destruct (cover_inside_data m nin rows L g k1 o1 i p HL Hg Hk1 H1 C1) as [Hi Hp].
  destruct (owned_data m nin rows L g i p HL Hg Hi ltac:(lia)) as (k & s & e & (Hk & _ & Hoth)).
  assert (Hn : forall kk oo, (kk < length (workers_data m nin rows L g))%nat -> kk <> k ->
                In oo (nth kk (workers_data m nin rows L g) []) -> covers oo i p = true -> False).
  { intros kk oo Hkk Hnk Hin Hc. specialize (Hoth kk Hkk Hnk).
    assert (Hf : In oo (filter (fun o => covers o i p) (nth kk (workers_data m nin rows L g) [])))
      by (apply filter_In; split; assumption).
    rewrite Hoth in Hf. destruct Hf. }
  destruct (Nat.eq_dec k1 k) as [->|N1]; [|exact (Hn k1 o1 Hk1 N1 H1 C1)].
  destruct (Nat.eq_dec k2 k) as [->|N2]; [congruence|exact (Hn k2 o2 Hk2 N2 H2 C2)].
Qed.
