(* CRC-32 register model: linearity over xor, table form of a byte step,
   bounds, and correctness of the rolling window (newCRC32Window / update)
   for every window size >= 4. *)
From Coq Require Import Lia Btauto.
From Gopar Require Import Model.Base Model.CRC.
Open Scope N_scope.

Ltac crc_xor_solve :=
  apply N.bits_inj; intros ?k; rewrite ?N.lxor_spec, ?N.bits_0; btauto.

(** ** a computed sweep lifted to a quantified fact *)

Lemma crc_forallN_spec n P : forallN n P = true -> forall i, i < n -> P i = true.
Proof.
  unfold forallN.
  set (f := fun s : bool * N => (fst s && P (snd s), N.succ (snd s))).
  assert (H : forall n, snd (N.iter n f (true, 0)) = n /\
                        (fst (N.iter n f (true, 0)) = true -> forall i, i < n -> P i = true)).
  { intros m. induction m as [|m [IHs IHp]] using N.peano_ind.
    - cbn [N.iter fst snd]. split; [reflexivity|]. intros _ i Hi. lia.
    - rewrite N.iter_succ. unfold f at 1. cbn [fst snd]. rewrite IHs. split; [reflexivity|].
      intros Hb i Hi. apply andb_true_iff in Hb. destruct Hb as [Hb1 Hb2].
      destruct (N.eq_dec i m) as [->|Hne]; [rewrite IHs in Hb2; exact Hb2|]. apply IHp; [exact Hb1|lia]. }
  intros Hc. exact (proj2 (H n) Hc).
Qed.

(** ** linearity of the register steps *)

Lemma odd_lxor x y : N.odd (N.lxor x y) = xorb (N.odd x) (N.odd y).
Proof. rewrite <- !N.bit0_odd. apply N.lxor_spec. Qed.

Lemma shift1_lxor x y : shift1 (N.lxor x y) = N.lxor (shift1 x) (shift1 y).
Proof.
  unfold shift1. rewrite N.shiftr_lxor, odd_lxor.
  destruct (N.odd x), (N.odd y); cbn [xorb]; crc_xor_solve.
Qed.

Lemma shift1_0 : shift1 0 = 0.
Proof. reflexivity. Qed.

Lemma step8_lxor x y : step8 (N.lxor x y) = N.lxor (step8 x) (step8 y).
Proof. unfold step8. rewrite !shift1_lxor. reflexivity. Qed.

Lemma step8_0 : step8 0 = 0.
Proof. reflexivity. Qed.

Lemma upd_lxor s s' x y : upd (N.lxor s s') (N.lxor x y) = N.lxor (upd s x) (upd s' y).
Proof.
  unfold upd. rewrite <- step8_lxor. f_equal. crc_xor_solve.
Qed.

Lemma upd_0_0 : upd 0 0 = 0.
Proof. reflexivity. Qed.

Lemma raw_app s a b : raw s (a ++ b) = raw (raw s a) b.
Proof. unfold raw. apply fold_left_app. Qed.

Lemma raw_cons s x a : raw s (x :: a) = raw (upd s x) a.
Proof. reflexivity. Qed.

Lemma raw_lxor : forall a b s s', length a = length b ->
  raw (N.lxor s s') (xorl a b) = N.lxor (raw s a) (raw s' b).
Proof.
  induction a as [|x a IH]; intros [|y b] s s' HL; cbn [length] in HL; try discriminate.
  - reflexivity.
  - cbn [xorl]. rewrite !raw_cons. rewrite upd_lxor. apply IH. lia.
Qed.

Lemma raw_0_zeros k : raw 0 (zeros k) = 0.
Proof.
  induction k as [|k IH]; [reflexivity|].
  unfold zeros in *. cbn [repeat]. rewrite raw_cons, upd_0_0. exact IH.
Qed.

Lemma xorl_zeros_l b : xorl (zeros (length b)) b = b.
Proof.
  induction b as [|y b IH]; [reflexivity|].
  unfold zeros in *. cbn [length repeat xorl]. rewrite IH. reflexivity.
Qed.

Lemma xorl_zeros_zeros k : xorl (zeros k) (zeros k) = zeros k.
Proof.
  induction k as [|k IH]; [reflexivity|].
  unfold zeros in *. cbn [repeat xorl]. rewrite IH. reflexivity.
Qed.

Lemma zeros_length k : length (zeros k) = k.
Proof. apply repeat_length. Qed.

Lemma raw_split s s' b :
  raw (N.lxor s s') b = N.lxor (raw s (zeros (length b))) (raw s' b).
Proof.
  rewrite <- raw_lxor by apply zeros_length. rewrite xorl_zeros_l. reflexivity.
Qed.

Lemma raw_zeros_lxor s s' k :
  raw (N.lxor s s') (zeros k) = N.lxor (raw s (zeros k)) (raw s' (zeros k)).
Proof.
  rewrite <- raw_lxor by (rewrite !zeros_length; reflexivity).
  rewrite xorl_zeros_zeros. reflexivity.
Qed.

(** ** the rolling identity *)

Lemma closed_fact : raw FFFF [0;0;0;0] = raw (upd FFFF 0xff) [0;0;0;0xff].
Proof. vm_compute. reflexivity. Qed.

Lemma mask_tail m : raw FFFF (zeros (4 + m)) = raw (upd FFFF 0xff) (0 :: 0 :: 0 :: 0xff :: zeros m).
Proof.
  change (zeros (4 + m)) with ([0;0;0;0] ++ zeros m).
  change (0 :: 0 :: 0 :: 0xff :: zeros m) with ([0;0;0;0xff] ++ zeros m).
  rewrite !raw_app. rewrite closed_fact. reflexivity.
Qed.

Lemma lxor_cancel_r x y : N.lxor (N.lxor x y) y = x.
Proof. rewrite N.lxor_assoc, N.lxor_nilpotent, N.lxor_0_r. reflexivity. Qed.

Theorem rolling_identity m a0 A : length A = (4 + m)%nat ->
  crc32 A = N.lxor (N.lxor (crc32 (a0 :: A)) (crc32 (a0 :: zeros (4 + m))))
                   (crc32 (0xff :: 0 :: 0 :: 0 :: 0xff :: zeros m)).
Proof.
  intros HL. unfold crc32.
  rewrite (raw_cons FFFF a0 A), (raw_cons FFFF a0 (zeros (4 + m))).
  rewrite (raw_cons FFFF 0xff (0 :: 0 :: 0 :: 0xff :: zeros m)).
  rewrite <- mask_tail.
  set (u := upd FFFF a0).
  assert (E : raw FFFF A = N.lxor (N.lxor (raw u A) (raw u (zeros (4 + m)))) (raw FFFF (zeros (4 + m)))).
  { rewrite <- HL.
    pose proof (raw_split FFFF 0 A) as E1. rewrite N.lxor_0_r in E1.
    pose proof (raw_split u 0 A) as E2. rewrite N.lxor_0_r in E2.
    rewrite E1, E2. crc_xor_solve. }
  rewrite E. crc_xor_solve.
Qed.

(** ** table form of a byte step *)

Lemma split_low8 t : t = N.lxor (t mod 2 ^ 8) (N.shiftl (N.shiftr t 8) 8).
Proof.
  apply N.bits_inj; intros k. rewrite N.lxor_spec.
  destruct (N.lt_ge_cases k 8) as [Hk|Hk].
  - rewrite N.mod_pow2_bits_low by exact Hk. rewrite N.shiftl_spec_low by exact Hk.
    rewrite xorb_false_r. reflexivity.
  - rewrite N.mod_pow2_bits_high by exact Hk. rewrite N.shiftl_spec_high' by exact Hk.
    rewrite N.shiftr_spec'. replace (k - 8 + 8) with k by lia. rewrite xorb_false_l. reflexivity.
Qed.

Lemma step8_shiftl8 h : step8 (N.shiftl h 8) = h.
Proof. destruct h as [|p]; reflexivity. Qed.

Lemma table_step_gen t b :
  N.lxor (ieee_table (N.lxor (t mod 256) b)) (t / 256) = upd t b.
Proof.
  unfold ieee_table, upd.
  assert (E : N.lxor t b = N.lxor (N.lxor (t mod 256) b) (N.shiftl (t / 256) 8)).
  { change 256 with (2 ^ 8). rewrite <- N.shiftr_div_pow2.
    rewrite (split_low8 t) at 1. crc_xor_solve. }
  rewrite E. rewrite (step8_lxor (N.lxor (t mod 256) b) (N.shiftl (t / 256) 8)).
  rewrite step8_shiftl8. reflexivity.
Qed.

Lemma table_step : forall t b, t < 2^32 -> b < 256 ->
  N.lxor (ieee_table (N.lxor (t mod 256) b)) (t / 256) = upd t b.
Proof. intros t b _ _. apply table_step_gen. Qed.

(** ** bounds *)

Lemma lt_pow2_bits a n : a < 2 ^ n <-> (forall k, n <= k -> N.testbit a k = false).
Proof.
  split.
  - intros H k Hk. destruct (N.eq_dec a 0) as [->|Hz]; [apply N.bits_0|].
    apply N.bits_above_log2. apply N.log2_lt_pow2 in H; lia.
  - intros H. destruct (N.eq_dec a 0) as [->|Hz].
    + apply N.neq_0_lt_0. apply N.pow_nonzero. lia.
    + apply N.log2_lt_pow2; [lia|].
      destruct (N.lt_ge_cases (N.log2 a) n) as [Hl|Hl]; [exact Hl|].
      pose proof (N.bit_log2 a Hz) as Hb. rewrite (H _ Hl) in Hb. discriminate.
Qed.

Lemma lxor_bound a b n : a < 2 ^ n -> b < 2 ^ n -> N.lxor a b < 2 ^ n.
Proof.
  rewrite !lt_pow2_bits. intros Ha Hb k Hk. rewrite N.lxor_spec, Ha, Hb by exact Hk. reflexivity.
Qed.

Lemma shiftr1_bound a n : a < 2 ^ n -> N.shiftr a 1 < 2 ^ n.
Proof.
  rewrite !lt_pow2_bits. intros Ha k Hk. rewrite N.shiftr_spec'. apply Ha. lia.
Qed.

Lemma shift1_bound s : s < 2 ^ 32 -> shift1 s < 2 ^ 32.
Proof.
  intros H. unfold shift1. apply lxor_bound; [apply shiftr1_bound; exact H|].
  destruct (N.odd s); reflexivity.
Qed.

Lemma step8_bound s : s < 2 ^ 32 -> step8 s < 2 ^ 32.
Proof. intros H. unfold step8. do 8 apply shift1_bound. exact H. Qed.

Lemma byte_lt32 b : b < 256 -> b < 2 ^ 32.
Proof. intros H. eapply N.lt_trans; [exact H|reflexivity]. Qed.

Lemma upd_bound s b : s < 2 ^ 32 -> b < 256 -> upd s b < 2 ^ 32.
Proof.
  intros Hs Hb. unfold upd. apply step8_bound. apply lxor_bound; [exact Hs|apply byte_lt32; exact Hb].
Qed.

Lemma raw_bound : forall a s, s < 2 ^ 32 -> wf_bytes a -> raw s a < 2 ^ 32.
Proof.
  induction a as [|x a IH]; intros s Hs Hw.
  - exact Hs.
  - rewrite raw_cons. inversion Hw as [|? ? Hx Ha]; subst.
    apply IH; [apply upd_bound; assumption|exact Ha].
Qed.

Lemma FFFF_bound : FFFF < 2 ^ 32.
Proof. reflexivity. Qed.

Lemma crc32_bound : forall a, wf_bytes a -> crc32 a < 2^32.
Proof.
  intros a Hw. unfold crc32. apply lxor_bound; [|exact FFFF_bound].
  apply raw_bound; [exact FFFF_bound|exact Hw].
Qed.

(** ** the window table *)

Section Masked.
  Variable H : N -> N.
  Hypothesis H_lxor : forall x y, H (N.lxor x y) = N.lxor (H x) (H y).
  Hypothesis H_0 : H 0 = 0.
  Variable crc0 : N.
  Variable base : list N.
  Hypothesis base_spec : forall j, (j < 8)%nat -> nth j base 0 = N.lxor crc0 (H (2 ^ N.of_nat j)).

  Definition par (cnt : nat) : N := if Nat.even cnt then 0 else crc0.

  Definition bit_sum (i : N) (L : list nat) (x : N) : N :=
    fold_left (fun x j => if N.testbit i (N.of_nat j) then N.lxor x (2 ^ N.of_nat j) else x) L x.

  Lemma par_S cnt : par (S cnt) = N.lxor (par cnt) crc0.
  Proof.
    unfold par. rewrite Nat.even_succ, <- Nat.negb_even.
    destruct (Nat.even cnt); cbn [negb].
    - rewrite N.lxor_0_l. reflexivity.
    - rewrite N.lxor_nilpotent. reflexivity.
  Qed.

  Lemma masked_fold i : forall L acc cnt x,
    (forall j, In j L -> (j < 8)%nat) ->
    acc = N.lxor (par cnt) (H x) ->
    let r := fold_left (fun (cc : N * nat) (j : nat) =>
                   if N.testbit i (N.of_nat j) then (N.lxor (fst cc) (nth j base 0), S (snd cc)) else cc)
                L (acc, cnt) in
    fst r = N.lxor (par (snd r)) (H (bit_sum i L x)).
  Proof.
    induction L as [|j L IH]; intros acc cnt x HL Hacc.
    - cbn. exact Hacc.
    - cbn zeta. unfold bit_sum. cbn [fold_left]. fold (bit_sum i L).
      destruct (N.testbit i (N.of_nat j)).
      + cbn [fst snd]. apply IH.
        * intros j' Hj'. apply HL. right. exact Hj'.
        * rewrite base_spec by (apply HL; left; reflexivity).
          rewrite par_S, H_lxor, Hacc. crc_xor_solve.
      + apply IH; [|exact Hacc]. intros j' Hj'. apply HL. right. exact Hj'.
  Qed.

  Lemma bit_sum_sweep :
    forallN 256 (fun i => bit_sum i (seq 0 8) 0 =? i) = true.
  Proof. vm_compute. reflexivity. Qed.

  Lemma bit_sum_byte i : i < 256 -> bit_sum i (seq 0 8) 0 = i.
  Proof.
    intros Hi. apply N.eqb_eq. exact (crc_forallN_spec _ _ bit_sum_sweep i Hi).
  Qed.

  Lemma masked_entry_spec mask i : i < 256 ->
    masked_entry crc0 mask base i = N.lxor (N.lxor crc0 (H i)) mask.
  Proof.
    intros Hi. unfold masked_entry.
    destruct (N.eqb_spec i 0) as [->|Hnz].
    - rewrite H_0, N.lxor_0_r. reflexivity.
    - pose proof (masked_fold i (seq 0 8) 0 O 0) as F.
      cbn zeta in F.
      destruct (fold_left _ (seq 0 8) (0, O)) as [crc cnt].
      cbn [fst snd] in F.
      rewrite F.
      + rewrite bit_sum_byte by exact Hi. f_equal.
        unfold par. destruct (Nat.even cnt); crc_xor_solve.
      + intros j Hj. apply in_seq in Hj. lia.
      + unfold par. cbn [Nat.even]. rewrite H_0. reflexivity.
  Qed.
End Masked.

Lemma crc32_byte_zeros k x :
  crc32 (x :: zeros k) = N.lxor (crc32 (zeros (S k))) (raw (step8 x) (zeros k)).
Proof.
  change (zeros (S k)) with (0 :: zeros k).
  unfold crc32. rewrite !raw_cons. unfold upd.
  rewrite N.lxor_0_r.
  rewrite step8_lxor, raw_zeros_lxor. crc_xor_solve.
Qed.

Lemma nth_map_seq {A} (f : nat -> A) (len i : nat) (d : A) :
  (i < len)%nat -> nth i (map f (seq 0 len)) d = f i.
Proof.
  intros Hi. rewrite (nth_indep _ d (f O)) by (rewrite map_length, seq_length; exact Hi).
  rewrite map_nth. rewrite seq_nth by exact Hi. reflexivity.
Qed.

Lemma win_new_ok n w : (4 <= n)%Z -> win_new n = Ok w ->
  w = {| w_size := Z.to_nat n;
         w_table := map (fun i => masked_entry (crc32 (zeros (S (Z.to_nat n))))
                                   (crc32 (set_nth 4 0xff (set_nth 0 0xff (zeros (S (Z.to_nat n))))))
                                   (map (fun j => crc32 (set_nth 0 (2 ^ N.of_nat j) (zeros (S (Z.to_nat n))))) (seq 0 8))
                                   (N.of_nat i)) (seq 0 256) |}.
Proof.
  intros Hn. unfold win_new. destruct (Z.ltb_spec n 4) as [Hlt|_]; [lia|].
  cbv zeta. intros E. injection E as <-. reflexivity.
Qed.

Lemma mask_list m :
  set_nth 4 0xff (set_nth 0 0xff (zeros (S (4 + m)))) = 0xff :: 0 :: 0 :: 0 :: 0xff :: zeros m.
Proof. reflexivity. Qed.

Theorem win_table_spec : forall n w i, (4 <= n)%Z -> win_new n = Ok w -> (i < 256)%nat ->
  w_size w = Z.to_nat n /\ length (w_table w) = 256%nat /\
  nth i (w_table w) 0 =
    N.lxor (crc32 (N.of_nat i :: zeros (Z.to_nat n)))
           (crc32 (0xff :: 0 :: 0 :: 0 :: 0xff :: zeros (Z.to_nat n - 4))).
Proof.
  intros n w i Hn Hw Hi. apply win_new_ok in Hw; [|exact Hn]. subst w. cbn [w_size w_table].
  split; [reflexivity|]. split; [rewrite map_length, seq_length; reflexivity|].
  rewrite nth_map_seq by exact Hi.
  set (k := Z.to_nat n).
  assert (Hk : k = (4 + (k - 4))%nat) by (unfold k; lia).
  rewrite (masked_entry_spec (fun x => raw (step8 x) (zeros k))).
  - rewrite <- crc32_byte_zeros. f_equal.
    rewrite Hk at 1. rewrite mask_list. reflexivity.
  - intros x y. rewrite step8_lxor. apply raw_zeros_lxor.
  - rewrite step8_0. apply raw_0_zeros.
  - intros j Hj. rewrite nth_map_seq by exact Hj.
    rewrite <- crc32_byte_zeros. reflexivity.
  - lia.
Qed.

(** ** the rolling update *)

Theorem win_update_spec : forall n w a0 A an, (4 <= n)%Z -> win_new n = Ok w ->
  length (a0 :: A) = Z.to_nat n -> wf_bytes (a0 :: A ++ [an]) ->
  win_update w (crc32 (a0 :: A)) a0 an = crc32 (A ++ [an]).
Proof.
  intros n w a0 A an Hn Hw HL Hwf.
  assert (Ha0 : a0 < 256) by (inversion Hwf; assumption).
  destruct (win_table_spec n w (N.to_nat a0) Hn Hw) as (_ & _ & Ht); [lia|].
  unfold win_update. cbv zeta. rewrite Ht. clear Ht.
  rewrite N2Nat.id. rewrite table_step_gen.
  assert (E : N.lxor (upd (N.lxor (crc32 (a0 :: A)) FFFF) an) FFFF = crc32 (a0 :: A ++ [an])).
  { unfold crc32. rewrite lxor_cancel_r.
    change (a0 :: A ++ [an]) with ((a0 :: A) ++ [an]). rewrite (raw_app _ (a0 :: A) [an]). reflexivity. }
  rewrite E. clear E.
  set (k := Z.to_nat n) in *.
  assert (HB : length (A ++ [an]) = (4 + (k - 4))%nat).
  { rewrite app_length. cbn [length] in *. lia. }
  rewrite (rolling_identity (k - 4) a0 (A ++ [an]) HB).
  replace (4 + (k - 4))%nat with k by lia.
  crc_xor_solve.
Qed.

Theorem win_new_small : forall n, (n < 4)%Z -> win_new n = Panic PExplicit.
Proof.
  intros n Hn. unfold win_new. destruct (Z.ltb_spec n 4) as [_|Hge]; [reflexivity|lia].
Qed.

Print Assumptions table_step.
Print Assumptions crc32_bound.
Print Assumptions win_table_spec.
Print Assumptions win_update_spec.
Print Assumptions win_new_small.
