(* The log/exp-table implementation of gf2p16/t.go computes the specification
   arithmetic.  Table facts are established by sweeps over the 65535 entries
   (finite domain; the bound is in every statement); the step from 65535 table
   entries to all 2^32 operand pairs is algebra (exp is a homomorphism). *)
From Coq Require Import Lia.
From Gopar Require Import Model.Base Model.GF16 Proofs.GF16Facts.
Open Scope N_scope.
Set Default Timeout 120.

Lemma init_ok : is_ok tables_init = true.
Proof. vm_compute. reflexivity. Qed.

Lemma exp_sweep :
  forallN 65534 (fun p => (texp (p + 1) =? hmul (texp p) 3) && (texp p <? 65536)) = true.
Proof. vm_compute. reflexivity. Qed.
Lemma exp_ends : texp 0 = 1 /\ hmul (texp 65534) 3 = 1 /\ texp 65534 < 65536.
Proof. vm_compute. repeat split; reflexivity. Qed.

Lemma log_sweep :
  forallN 65535 (fun i => (tlog (i + 1) <? 65535) && (texp (tlog (i + 1)) =? i + 1)) = true.
Proof. vm_compute. reflexivity. Qed.

(* From here on the tables are only reached through the four sweeps above;
   keep tactic-level conversion from ever unfolding them. *)
Global Opaque the_tables texp tlog.

Lemma texp_lt p : p < 65535 -> texp p < 65536.
Proof.
  intros H. destruct (N.eq_dec p 65534) as [->|]; [exact (proj2 (proj2 exp_ends))|].
  assert (Hp : p < 65534) by lia.
  pose proof (forallN_spec _ _ exp_sweep p Hp) as S. apply andb_true_iff in S.
  apply N.ltb_lt. apply S.
Qed.

Lemma texp_step p : p < 65534 -> texp (p + 1) = fmul 3 (texp p).
Proof.
  intros Hp. pose proof (forallN_spec _ _ exp_sweep p Hp) as S. apply andb_true_iff in S.
  destruct S as [S _]. apply N.eqb_eq in S. rewrite S.
  rewrite <- fmul_hmul by (apply texp_lt; lia).
  apply fmul_comm; [apply texp_lt; lia|lia].
Qed.

Lemma texp_pow p : p < 65535 -> texp p = fpow 3 p.
Proof.
  induction p as [|p IH] using N.peano_ind; intros Hp.
  - rewrite fpow_0. exact (proj1 exp_ends).
  - rewrite fpow_succ, <- IH by lia. rewrite <- N.add_1_r. apply texp_step. lia.
Qed.

Lemma pow3_order : fpow 3 65535 = 1.
Proof.
  change 65535 with (N.succ 65534). rewrite fpow_succ, <- texp_pow by lia.
  destruct exp_ends as (_ & H & Hl). rewrite <- H.
  rewrite <- fmul_hmul by exact Hl. apply fmul_comm; [lia|exact Hl].
Qed.

Lemma pow3_mod n : fpow 3 (n mod 65535) = fpow 3 n.
Proof.
  rewrite (N.div_mod n 65535) at 2 by lia.
  rewrite fpow_add, fpow_mul, pow3_order, fpow_1_l, fmul_1_l by (try lia; apply fpow_lt).
  reflexivity.
Qed.

Lemma texp_mod n : texp (n mod 65535) = fpow 3 n.
Proof. rewrite texp_pow by (apply N.mod_lt; lia). apply pow3_mod. Qed.

Lemma tlog_spec x : 0 < x < 65536 -> tlog x < 65535 /\ fpow 3 (tlog x) = x.
Proof.
  intros Hx. assert (Hi : x - 1 < 65535) by lia.
  pose proof (forallN_spec _ _ log_sweep (x - 1) Hi) as S. cbv beta in S.
  replace (x - 1 + 1) with x in S by lia.
  apply andb_true_iff in S. destruct S as [S1 S2].
  apply N.ltb_lt in S1. apply N.eqb_eq in S2. split; [exact S1|].
  rewrite <- texp_pow by exact S1. exact S2.
Qed.

Lemma trunc64_small x : x < 2 ^ 64 -> trunc64 x = x.
Proof.
  intros H. unfold trunc64. change mask64 with (N.ones 64).
  rewrite N.land_ones. apply N.mod_small. exact H.
Qed.

(** * The theorems about T.Times / Inverse / Div / Pow *)

Theorem T_Times_spec a b : a < 65536 -> b < 65536 -> T_Times a b = fmul a b.
Proof.
  intros Ha Hb. unfold T_Times.
  destruct (N.eqb_spec a 0) as [->|Na]; [rewrite fmul_0_l; reflexivity|].
  destruct (N.eqb_spec b 0) as [->|Nb]; [rewrite fmul_0_r; reflexivity|].
  cbn [orb]. change (ORDER - 1) with 65535.
  destruct (tlog_spec a) as [La Ea]; [lia|]. destruct (tlog_spec b) as [Lb Eb]; [lia|].
  rewrite texp_mod, fpow_add, Ea, Eb by lia. reflexivity.
Qed.

Theorem T_Inverse_spec a : 0 < a < 65536 ->
  exists i, T_Inverse a = Ok i /\ i < 65536 /\ fmul a i = 1.
Proof.
  intros Ha. unfold T_Inverse. destruct (N.eqb_spec a 0) as [->|Na]; [lia|].
  change (ORDER - 1) with 65535. destruct (tlog_spec a Ha) as [La Ea].
  eexists. split; [reflexivity|]. split; [apply texp_lt; apply N.mod_lt; lia|].
  rewrite texp_mod. rewrite <- Ea at 1. rewrite <- fpow_add by lia.
  replace (tlog a + (65535 - tlog a)) with 65535 by lia. apply pow3_order.
Qed.

Theorem T_Inverse_zero : T_Inverse 0 = Panic PExplicit.
Proof. reflexivity. Qed.

Theorem T_Div_spec a b : a < 65536 -> 0 < b < 65536 ->
  exists i, T_Inverse b = Ok i /\ T_Div a b = Ok (fmul a i).
Proof.
  intros Ha Hb. unfold T_Inverse, T_Div. destruct (N.eqb_spec b 0) as [->|Nb]; [lia|].
  change (ORDER - 1) with 65535. eexists. split; [reflexivity|].
  destruct (N.eqb_spec a 0) as [->|Na]; [rewrite fmul_0_l; reflexivity|].
  f_equal. destruct (tlog_spec a) as [La Ea]; [lia|]. destruct (tlog_spec b Hb) as [Lb Eb].
  rewrite !texp_mod. rewrite <- Ea at 2. rewrite <- fpow_add by lia.
  f_equal. lia.
Qed.

Theorem T_Div_zero a : T_Div a 0 = Panic PExplicit.
Proof. reflexivity. Qed.

Theorem T_Pow_spec a p : a < 65536 -> p < 2 ^ 32 -> T_Pow a p = fpow a p.
Proof.
  intros Ha Hp. unfold T_Pow.
  destruct (N.eqb_spec a 0) as [->|Na].
  - destruct (N.eqb_spec p 0) as [->|Np]; [reflexivity|]. symmetry. apply fpow_0_l. lia.
  - change (ORDER - 1) with 65535. destruct (tlog_spec a) as [La Ea]; [lia|].
    rewrite trunc64_small.
    + rewrite texp_mod, fpow_mul, Ea by lia. reflexivity.
    + change (2 ^ 64) with (2 ^ 32 * 2 ^ 32). apply N.mul_lt_mono; [|exact Hp].
      change (2 ^ 32) with 4294967296. lia.
Qed.

(* execution-side shortcuts proved equal to the specification *)
Lemma qpow_fpow a p : a < 65536 -> qpow a p = fpow a p.
Proof.
  intros Ha. destruct p as [|p]; [reflexivity|]. cbn [qpow].
  induction p as [p IH|p IH|]; cbn [qpow_pos].
  - rewrite IH. rewrite <- !fmul_hmul by (try exact Ha; apply fpow_lt).
    rewrite <- fpow_add by exact Ha.
    replace (N.pos p~1) with (N.succ (N.pos p + N.pos p)) by lia.
    rewrite fpow_succ. reflexivity.
  - rewrite IH. rewrite <- fmul_hmul by apply fpow_lt. rewrite <- fpow_add by exact Ha.
    f_equal. lia.
  - unfold fpow. cbn. symmetry. apply fmul_1_r. exact Ha.
Qed.
