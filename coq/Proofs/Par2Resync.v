(* The PAR2 packet reader (read_file, the model of gopar's readFile) SKIPS damaged packets: when the bytes at
   hand do not parse as a packet it resumes at the next magic sequence after the first byte (find_magic),
   and finishes as at end of input when there is none.
   R1 find_magic_suffix: find_magic returns the FIRST suffix that starts with the magic sequence
      (find_magic_none, find_magic_first: the converses);
   R2 read_file_go_skips_damaged: one round of the loop on a damaged packet;
   R3 read_file_intact_packets_survive: an intact recovery packet of the expected set is loaded whatever
      bytes precede it, provided no magic occurrence that starts before it parses as a packet (in particular
      when there is no such occurrence: read_file_intact_after_junk), and whatever follows it: the result is
      the result of the loop on the following bytes alone, started from the state that holds the block;
   R5 read_file_intact_packets_survive_vol (read_file_intact_after_junk_vol): the same for read_file_vol, the loop
      as LoadParityData runs it on a recovery file;
   R4 read_file_vol_needs_no_creator: a file that consists of ONE recovery packet is accepted by read_file_vol
      and rejected by read_file (Some sid), which requires the creator packet. *)
From Coq Require Import Lia ZifyN ZifyNat.
From Gopar Require Import Model.Base Model.GF16 Model.Matrix Model.RS16 Model.CRC Model.GoPath Model.FS Model.Par2
     Proofs.Par2Facts Proofs.Par2Create Proofs.Par2Layout Proofs.Par2Verify.
Open Scope N_scope.
Set Default Timeout 120.

(** * R1. find_magic: the first suffix that starts with the magic sequence *)

Lemma find_magic_cons x l :
  find_magic (x :: l) = if bytes_eqb (firstn 8 (x :: l)) MAGIC then Some (x :: l) else find_magic l.
Proof. reflexivity. Qed.

Lemma magic_nonempty (r : bytes) : firstn 8 r = MAGIC -> r <> [].
Proof. intros H E. subst r. discriminate H. Qed.

(* no suffix of l strictly containing r (that is, pre2 ++ r for a non-empty suffix pre2 of pre) starts with
   the magic sequence *)
Theorem find_magic_suffix : forall l r, find_magic l = Some r ->
  exists pre, l = pre ++ r /\ firstn 8 r = MAGIC /\
    forall pre1 pre2, pre = pre1 ++ pre2 -> pre2 <> [] -> firstn 8 (pre2 ++ r) <> MAGIC.
Proof.
  induction l as [|x l IH]; intros r H; [discriminate H|].
  rewrite find_magic_cons in H.
  destruct (bytes_eqb (firstn 8 (x :: l)) MAGIC) eqn:E.
  - injection H as <-. exists []. split; [reflexivity|]. split; [apply bytes_eqb_eq; exact E|].
    intros pre1 pre2 Hp Hne. destruct pre1; destruct pre2; try discriminate Hp. contradiction.
  - destruct (IH r H) as (pre & Hl & Hm & Hfirst).
    exists (x :: pre). split; [rewrite Hl; reflexivity|]. split; [exact Hm|].
    intros pre1 pre2 Hp Hne.
    destruct pre1 as [|y pre1].
    + cbn [app] in Hp. subst pre2. change ((x :: pre) ++ r) with (x :: pre ++ r). rewrite <- Hl.
      apply bytes_eqb_neq. exact E.
    + injection Hp as _ Hp. exact (Hfirst pre1 pre2 Hp Hne).
Qed.

Lemma find_magic_length l r : find_magic l = Some r -> (length r <= length l)%nat.
Proof.
  intros H. destruct (find_magic_suffix l r H) as (pre & -> & _). rewrite app_length. lia.
Qed.

Theorem find_magic_none : forall l, find_magic l = None -> forall a b, l = a ++ b -> firstn 8 b <> MAGIC.
Proof.
  induction l as [|x l IH]; intros H a b Hl.
  - destruct a; destruct b; try discriminate Hl. discriminate.
  - rewrite find_magic_cons in H.
    destruct (bytes_eqb (firstn 8 (x :: l)) MAGIC) eqn:E; [discriminate H|].
    destruct a as [|y a].
    + cbn [app] in Hl. subst b. apply bytes_eqb_neq. exact E.
    + injection Hl as _ Hl. exact (IH H a b Hl).
Qed.

(* the converse of R1 *)
Theorem find_magic_first : forall pre r, firstn 8 r = MAGIC ->
  (forall pre1 pre2, pre = pre1 ++ pre2 -> pre2 <> [] -> firstn 8 (pre2 ++ r) <> MAGIC) ->
  find_magic (pre ++ r) = Some r.
Proof.
  induction pre as [|x pre IH]; intros r Hm Hfirst.
  - cbn [app]. destruct r as [|y r]; [discriminate Hm|].
    rewrite find_magic_cons, Hm, bytes_eqb_refl. reflexivity.
  - change ((x :: pre) ++ r) with (x :: pre ++ r). rewrite find_magic_cons.
    rewrite (bytes_eqb_neq_false (firstn 8 (x :: pre ++ r)) MAGIC).
    + apply IH; [exact Hm|]. intros pre1 pre2 Hp Hne. apply (Hfirst (x :: pre1) pre2); [rewrite Hp; reflexivity|exact Hne].
    + apply (Hfirst [] (x :: pre)); [reflexivity|discriminate].
Qed.

(* when the tail starts with the magic sequence, the search ends at the tail or before it *)
Lemma find_magic_app tail : firstn 8 tail = MAGIC ->
  forall p, exists a s, p = a ++ s /\ find_magic (p ++ tail) = Some (s ++ tail).
Proof.
  intros Hm. induction p as [|x p IH].
  - exists [], []. split; [reflexivity|]. apply (find_magic_first [] tail Hm).
    intros pre1 pre2 Hp Hne. destruct pre1; destruct pre2; try discriminate Hp. contradiction.
  - change ((x :: p) ++ tail) with (x :: p ++ tail). rewrite find_magic_cons.
    destruct (bytes_eqb (firstn 8 (x :: p ++ tail)) MAGIC).
    + exists [], (x :: p). split; reflexivity.
    + destruct IH as (a & s & Hp & Hf). exists (x :: a), s. split; [rewrite Hp; reflexivity|exact Hf].
Qed.

Section Resync.
  Variable md5 : bytes -> bytes.
  Hypothesis md5_len : forall x, length (md5 x) = 16%nat.

  (** * the packet reader on bytes that are not a packet, and what it consumes *)

  Lemma read_next_not_magic buf : buf <> [] -> firstn 8 buf <> MAGIC -> read_next_packet md5 buf = NPErr.
  Proof.
    intros Hne Hm. destruct buf as [|x buf]; [contradiction|].
    unfold read_next_packet. destruct (Nat.ltb (length (x :: buf)) 64); [reflexivity|].
    cbv zeta. rewrite (bytes_eqb_neq_false _ _ Hm). reflexivity.
  Qed.

  Lemma read_next_err_nonempty buf : read_next_packet md5 buf = NPErr -> buf <> [].
  Proof. intros H E. subst buf. discriminate H. Qed.

  Lemma read_next_packet_shorter buf setid ptype body rest :
    read_next_packet md5 buf = NPPacket setid ptype body rest -> (length rest < length buf)%nat.
  Proof.
    intros H. destruct buf as [|x buf]; [discriminate H|].
    unfold read_next_packet in H.
    destruct (Nat.ltb (length (x :: buf)) 64) eqn:E64; [discriminate H|]. apply Nat.ltb_ge in E64.
    cbv zeta in H.
    destruct (negb (bytes_eqb (firstn 8 (x :: buf)) MAGIC)); [discriminate H|].
    match type of H with (if ?c then _ else _) = _ => destruct c end; [discriminate H|].
    match type of H with (if ?c then _ else _) = _ => destruct c end; [discriminate H|].
    match type of H with (if ?c then _ else _) = _ => destruct c end; [discriminate H|].
    match type of H with NPPacket _ _ _ ?r = _ => set (r0 := r) in H end.
    assert (Hr0 : (length r0 < length (x :: buf))%nat) by (unfold r0; rewrite !skipn_length; lia).
    clearbody r0. injection H as _ _ _ <-. exact Hr0.
  Qed.

  (** * R2. one round of the loop on a damaged packet *)

  (* the form with the search result *)
  Lemma read_file_go_resync fuel buf rest setid found f :
    read_next_packet md5 buf = NPErr -> find_magic (tl buf) = Some rest ->
    read_file_go md5 (S fuel) buf setid found f = read_file_go md5 fuel rest setid found f.
  Proof. intros HE HF. rewrite read_file_go_S, HE, HF. reflexivity. Qed.

  Lemma read_file_go_resync_end fuel buf setid found f :
    read_next_packet md5 buf = NPErr -> find_magic (tl buf) = None ->
    read_file_go md5 (S fuel) buf setid found f = rf_finish setid found f.
  Proof. intros HE HF. rewrite read_file_go_S, HE, HF. reflexivity. Qed.

  (* junk ++ rest does not parse as a packet, rest starts with the magic sequence, and no suffix of
     junk ++ rest that starts inside tl junk does: the reader goes on at rest, in the same state *)
  Theorem read_file_go_skips_damaged fuel junk rest setid found f :
    junk <> [] -> read_next_packet md5 (junk ++ rest) = NPErr -> firstn 8 rest = MAGIC ->
    (forall j1 j2, tl junk = j1 ++ j2 -> j2 <> [] -> firstn 8 (j2 ++ rest) <> MAGIC) ->
    read_file_go md5 (S fuel) (junk ++ rest) setid found f = read_file_go md5 fuel rest setid found f.
  Proof.
    intros Hne HE Hm Hfirst. apply read_file_go_resync; [exact HE|].
    destruct junk as [|x junk]; [contradiction|]. cbn [app tl] in *.
    apply find_magic_first; assumption.
  Qed.

  (** * enough fuel is enough: the result does not depend on it *)

  Lemma read_file_go_fuel : forall fuel1 fuel2 buf setid found f,
    (length buf < fuel1)%nat -> (length buf < fuel2)%nat ->
    read_file_go md5 fuel1 buf setid found f = read_file_go md5 fuel2 buf setid found f.
  Proof.
    induction fuel1 as [|fuel1 IH]; intros fuel2 buf setid found f H1 H2; [lia|].
    destruct fuel2 as [|fuel2]; [lia|].
    rewrite !read_file_go_S.
    destruct (read_next_packet md5 buf) as [| |psid ptype body rest] eqn:ENP.
    - reflexivity.
    - pose proof (read_next_err_nonempty buf ENP) as Hne.
      destruct (find_magic (tl buf)) as [rest|] eqn:EF; [|reflexivity].
      apply find_magic_length in EF.
      destruct buf as [|x buf]; [contradiction|]. cbn [tl length] in *. apply IH; lia.
    - apply read_next_packet_shorter in ENP. cbv zeta.
      assert (IH' : forall sd fd g, read_file_go md5 fuel1 rest sd fd g = read_file_go md5 fuel2 rest sd fd g)
        by (intros sd fd g; apply IH; lia).
      match goal with |- (if ?c then _ else _) = _ => destruct c end; [apply IH'|].
      destruct (bytes_eqb ptype TYPE_CREATOR); [apply IH'|].
      destruct (bytes_eqb ptype TYPE_MAIN).
      { destruct (read_main body) as [m|e|q]; [apply IH'|reflexivity|reflexivity]. }
      destruct (bytes_eqb ptype TYPE_FDESC).
      { destruct (read_fdesc md5 body) as [[id d]|e|q]; [apply IH'|reflexivity|reflexivity]. }
      destruct (bytes_eqb ptype TYPE_IFSC).
      { destruct (read_ifsc body) as [[id ps]|e|q]; [apply IH'|reflexivity|reflexivity]. }
      destruct (bytes_eqb ptype TYPE_RECV).
      { destruct (read_recv body) as [[e d]|e|q]; [|reflexivity|reflexivity].
        destruct (assoc_n (pf_recv f) e) as [d'|]; [|apply IH'].
        destruct (bytes_eqb d' d); [apply IH'|reflexivity]. }
      apply IH'.
  Qed.

  (** * reaching an intact packet *)

  (* no magic occurrence that starts in pre parses as a packet (tail: the bytes after pre) *)
  Definition no_packet_before (pre tail : bytes) : Prop :=
    forall a s, pre = a ++ s -> s <> [] -> firstn 8 (s ++ tail) = MAGIC -> read_next_packet md5 (s ++ tail) = NPErr.

  (* in particular when there is no magic occurrence that starts in pre at all *)
  Definition no_magic_before (pre tail : bytes) : Prop :=
    forall a s, pre = a ++ s -> s <> [] -> firstn 8 (s ++ tail) <> MAGIC.

  Lemma no_magic_no_packet pre tail : no_magic_before pre tail -> no_packet_before pre tail.
  Proof. intros H a s Hp Hne Hm. exfalso. exact (H a s Hp Hne Hm). Qed.

  (* the resynchronisation cannot jump over the start of tail: it stops at every magic occurrence *)
  Lemma read_file_go_reach : forall n pre tail setid found f fuel,
    (length pre <= n)%nat -> firstn 8 tail = MAGIC -> no_packet_before pre tail ->
    (length (pre ++ tail) < fuel)%nat ->
    read_file_go md5 fuel (pre ++ tail) setid found f = read_file_go md5 (S (length tail)) tail setid found f.
  Proof.
    induction n as [|n IH]; intros pre tail setid found f fuel Hn Hm Hno Hfuel.
    - destruct pre as [|x pre]; [|cbn [length] in Hn; lia].
      cbn [app] in *. apply read_file_go_fuel; lia.
    - destruct pre as [|x pre].
      { cbn [app] in *. apply read_file_go_fuel; lia. }
      destruct fuel as [|fuel]; [lia|].
      assert (HE : read_next_packet md5 ((x :: pre) ++ tail) = NPErr).
      { destruct (bytes_eqb (firstn 8 ((x :: pre) ++ tail)) MAGIC) eqn:E.
        - apply (Hno [] (x :: pre)); [reflexivity|discriminate|apply bytes_eqb_eq; exact E].
        - apply read_next_not_magic; [discriminate|apply bytes_eqb_neq; exact E]. }
      destruct (find_magic_app tail Hm pre) as (a & s & Hp & HF).
      rewrite (read_file_go_resync fuel ((x :: pre) ++ tail) (s ++ tail) setid found f HE HF).
      assert (Hlen : (length pre = length a + length s)%nat) by (rewrite Hp, app_length; reflexivity).
      apply IH.
      + cbn [length] in Hn. lia.
      + exact Hm.
      + intros a' s' Hs Hne Hmm. apply (Hno (x :: a ++ a') s'); [|exact Hne|exact Hmm].
        rewrite Hp, Hs. cbn [app]. rewrite app_assoc. reflexivity.
      + rewrite !app_length in *. cbn [length] in Hfuel. lia.
  Qed.

  (** * what the loop keeps of a loaded recovery block *)

  Lemma assoc_n_cons_other {A} (l : list (N * A)) e e' (d' : A) :
    assoc_n l e' = None -> assoc_n l e <> None -> assoc_n ((e', d') :: l) e = assoc_n l e.
  Proof.
    intros Hn Hs. cbn [assoc_n]. destruct (N.eqb_spec e' e) as [->|NE]; [contradiction|reflexivity].
  Qed.

  Lemma read_file_go_keeps_recv e d : forall fuel buf sid found f sid' f',
    assoc_n (pf_recv f) e = Some d ->
    read_file_go md5 fuel buf (Some sid) found f = RFOk sid' f' -> sid' = sid /\ assoc_n (pf_recv f') e = Some d.
  Proof.
    induction fuel as [|fuel IH]; intros buf sid found f sid' f' Hf H; [discriminate H|].
    rewrite read_file_go_S in H.
    assert (Hfin : rf_finish (Some sid) found f = RFOk sid' f' -> sid' = sid /\ assoc_n (pf_recv f') e = Some d).
    { intros HR. pose proof (rf_finish_ok _ _ _ _ _ HR) as ->. split; [|exact Hf].
      unfold rf_finish in HR. destruct (negb found); [discriminate HR|].
      destruct (pf_client f); [|discriminate HR]. injection HR as <-. reflexivity. }
    destruct (read_next_packet md5 buf) as [| |psid ptype body rest].
    - exact (Hfin H).
    - destruct (find_magic (tl buf)) as [rest|]; [(refine (IH _ _ _ _ _ _ _ H); exact Hf)|exact (Hfin H)].
    - cbv zeta in H.
      match type of H with (if ?c then _ else _) = _ => destruct c end; [(refine (IH _ _ _ _ _ _ _ H); exact Hf)|].
      destruct (bytes_eqb ptype TYPE_CREATOR); [(refine (IH _ _ _ _ _ _ _ H); exact Hf)|].
      destruct (bytes_eqb ptype TYPE_MAIN).
      { destruct (read_main body) as [m|e0|q]; try discriminate H. (refine (IH _ _ _ _ _ _ _ H); exact Hf). }
      destruct (bytes_eqb ptype TYPE_FDESC).
      { destruct (read_fdesc md5 body) as [[id dd]|e0|q]; try discriminate H. (refine (IH _ _ _ _ _ _ _ H); exact Hf). }
      destruct (bytes_eqb ptype TYPE_IFSC).
      { destruct (read_ifsc body) as [[id ps]|e0|q]; try discriminate H. (refine (IH _ _ _ _ _ _ _ H); exact Hf). }
      destruct (bytes_eqb ptype TYPE_RECV).
      { destruct (read_recv body) as [[e0 dd]|e0|q]; try discriminate H.
        destruct (assoc_n (pf_recv f) e0) as [d'|] eqn:EA.
        - destruct (bytes_eqb d' dd); [|discriminate H]. (refine (IH _ _ _ _ _ _ _ H); exact Hf).
        - refine (IH _ _ _ _ _ _ _ H). cbn [pf_recv].
          rewrite (assoc_n_cons_other (pf_recv f) e e0 dd EA); [exact Hf|rewrite Hf; discriminate]. }
      (refine (IH _ _ _ _ _ _ _ H); exact Hf).
  Qed.

  Lemma read_file_go_found : forall fuel buf setid f, read_file_go md5 fuel buf setid true f <> RFNoPackets.
  Proof.
    induction fuel as [|fuel IH]; intros buf setid f; [discriminate|].
    rewrite read_file_go_S.
    assert (Hfin : rf_finish setid true f <> RFNoPackets).
    { unfold rf_finish. cbn [negb]. destruct (pf_client f); [destruct setid|]; discriminate. }
    destruct (read_next_packet md5 buf) as [| |psid ptype body rest].
    - exact Hfin.
    - destruct (find_magic (tl buf)) as [rest|]; [apply IH|exact Hfin].
    - cbv zeta.
      match goal with |- (if ?c then _ else _) <> _ => destruct c end; [apply IH|].
      destruct (bytes_eqb ptype TYPE_CREATOR); [apply IH|].
      destruct (bytes_eqb ptype TYPE_MAIN).
      { destruct (read_main body) as [m|e0|q]; [apply IH|discriminate|discriminate]. }
      destruct (bytes_eqb ptype TYPE_FDESC).
      { destruct (read_fdesc md5 body) as [[id dd]|e0|q]; [apply IH|discriminate|discriminate]. }
      destruct (bytes_eqb ptype TYPE_IFSC).
      { destruct (read_ifsc body) as [[id ps]|e0|q]; [apply IH|discriminate|discriminate]. }
      destruct (bytes_eqb ptype TYPE_RECV).
      { destruct (read_recv body) as [[e0 dd]|e0|q]; [|discriminate|discriminate].
        destruct (assoc_n (pf_recv f) e0) as [d'|]; [|apply IH].
        destruct (bytes_eqb d' dd); [apply IH|discriminate]. }
      apply IH.
  Qed.

  (** * R3. an intact recovery packet survives whatever precedes and follows it *)

  Lemma read_recv_mod4 body e d : read_recv body = Ok (e, d) -> (length body mod 4 = 0)%nat.
  Proof.
    unfold read_recv. intros H.
    destruct (Nat.eqb (length body) 0); [discriminate H|]. cbn [orb] in H.
    destruct (Nat.eqb (length body mod 4) 0) eqn:E; [|discriminate H].
    apply Nat.eqb_eq. exact E.
  Qed.

  Lemma type_recv_length : length TYPE_RECV = 16%nat.
  Proof. reflexivity. Qed.

  Lemma write_packet_magic setid ptype body rest : firstn 8 (write_packet md5 setid ptype body ++ rest) = MAGIC.
  Proof. reflexivity. Qed.

  (* the loader state that holds exactly the block (e, d) *)
  Definition recv_only (e : N) (d : bytes) : pfile :=
    {| pf_client := pf_client pf_empty; pf_main := pf_main pf_empty; pf_fdesc := pf_fdesc pf_empty;
       pf_ifsc := pf_ifsc pf_empty; pf_recv := (e, d) :: pf_recv pf_empty |}.

  (* pk: the image of a recovery packet of the expected set sid whose body read_recv accepts as (e, d).
     pre: any bytes in which no magic occurrence parses as a packet (each is then skipped; the search for
     the next occurrence stops at pk at the latest, because pk starts with the magic sequence).
     post: any bytes.
     The result is the result of the loop on post alone, from the state that holds the block - so it
     does not depend on pre, an error can only come from post, it is never "no packets found", and a
     success has the block. *)
  Theorem read_file_intact_packets_survive : forall sid body e d pre post,
    length sid = 16%nat -> 64 + N.of_nat (length body) < 2 ^ 64 -> read_recv body = Ok (e, d) ->
    let pk := write_packet md5 sid TYPE_RECV body in
    no_packet_before pre (pk ++ post) ->
    read_file md5 (Some sid) (pre ++ pk ++ post) =
      read_file_go md5 (S (length post)) post (Some sid) true (recv_only e d) /\
    (read_file md5 (Some sid) (pre ++ pk ++ post) = RFErr \/
     exists f, read_file md5 (Some sid) (pre ++ pk ++ post) = RFOk sid f /\ assoc_n (pf_recv f) e = Some d).
  Proof.
    intros sid body e d pre post Hs Hv Hr pk Hno.
    assert (E : read_file md5 (Some sid) (pre ++ pk ++ post) =
                read_file_go md5 (S (length post)) post (Some sid) true (recv_only e d)).
    { unfold read_file.
      rewrite (read_file_go_reach (length pre) pre (pk ++ post) (Some sid) false pf_empty
                 (S (length (pre ++ pk ++ post))) (le_n _) (write_packet_magic sid TYPE_RECV body post) Hno
                 (Nat.lt_succ_diag_r _)).
      rewrite read_file_go_S. unfold pk.
      rewrite (packet_round_trip md5 md5_len sid TYPE_RECV body post Hs type_recv_length
                 (read_recv_mod4 body e d Hr) Hv).
      cbv zeta. rewrite bytes_eqb_refl. cbn [negb].
      rewrite type_recv_creator, type_recv_main, type_recv_fdesc, type_recv_ifsc, bytes_eqb_refl, Hr.
      cbn [pf_empty pf_recv assoc_n].
      apply read_file_go_fuel; [|lia].
      rewrite app_length, (write_packet_length md5 md5_len sid TYPE_RECV body Hs type_recv_length). lia. }
    split; [exact E|]. rewrite E.
    destruct (read_file_go md5 (S (length post)) post (Some sid) true (recv_only e d)) as [| |sid' f] eqn:ER.
    - left. reflexivity.
    - exfalso. exact (read_file_go_found _ _ _ _ ER).
    - right. apply (read_file_go_keeps_recv e d) in ER.
      + destruct ER as [-> HA]. exists f. split; [reflexivity|exact HA].
      + unfold recv_only. cbn [pf_recv assoc_n]. rewrite N.eqb_refl. reflexivity.
  Qed.

  (* the special case: no magic occurrence starts in pre (none inside pre, none straddling the boundary) *)
  Corollary read_file_intact_after_junk : forall sid body e d pre post,
    length sid = 16%nat -> 64 + N.of_nat (length body) < 2 ^ 64 -> read_recv body = Ok (e, d) ->
    let pk := write_packet md5 sid TYPE_RECV body in
    no_magic_before pre (pk ++ post) ->
    read_file md5 (Some sid) (pre ++ pk ++ post) = RFErr \/
    exists f, read_file md5 (Some sid) (pre ++ pk ++ post) = RFOk sid f /\ assoc_n (pf_recv f) e = Some d.
  Proof.
    intros sid body e d pre post Hs Hv Hr pk Hno.
    exact (proj2 (read_file_intact_packets_survive sid body e d pre post Hs Hv Hr (no_magic_no_packet _ _ Hno))).
  Qed.

  (** * R5. the same for a recovery file as LoadParityData reads it (read_file_vol) *)

  (* the state of the volume loop that holds exactly the block (e, d) *)
  Definition recv_only_vol (e : N) (d : bytes) : pfile :=
    {| pf_client := pf_client (pf_vol0); pf_main := pf_main pf_vol0; pf_fdesc := pf_fdesc pf_vol0;
       pf_ifsc := pf_ifsc pf_vol0; pf_recv := (e, d) :: pf_recv pf_vol0 |}.

  Theorem read_file_intact_packets_survive_vol : forall sid body e d pre post,
    length sid = 16%nat -> 64 + N.of_nat (length body) < 2 ^ 64 -> read_recv body = Ok (e, d) ->
    let pk := write_packet md5 sid TYPE_RECV body in
    no_packet_before pre (pk ++ post) ->
    read_file_vol md5 sid (pre ++ pk ++ post) =
      read_file_go md5 (S (length post)) post (Some sid) true (recv_only_vol e d) /\
    (read_file_vol md5 sid (pre ++ pk ++ post) = RFErr \/
     exists f, read_file_vol md5 sid (pre ++ pk ++ post) = RFOk sid f /\ assoc_n (pf_recv f) e = Some d).
  Proof.
    intros sid body e d pre post Hs Hv Hr pk Hno.
    assert (E : read_file_vol md5 sid (pre ++ pk ++ post) =
                read_file_go md5 (S (length post)) post (Some sid) true (recv_only_vol e d)).
    { unfold read_file_vol.
      refine (eq_trans (read_file_go_reach (length pre) pre (pk ++ post) (Some sid) false pf_vol0
                 (S (length (pre ++ pk ++ post))) (le_n _) (write_packet_magic sid TYPE_RECV body post) Hno
                 (Nat.lt_succ_diag_r _)) _).
      rewrite read_file_go_S. unfold pk.
      rewrite (packet_round_trip md5 md5_len sid TYPE_RECV body post Hs type_recv_length
                 (read_recv_mod4 body e d Hr) Hv).
      cbv zeta. rewrite bytes_eqb_refl. cbn [negb].
      rewrite type_recv_creator, type_recv_main, type_recv_fdesc, type_recv_ifsc, bytes_eqb_refl, Hr.
      cbn [pf_vol0 pf_recv assoc_n].
      apply read_file_go_fuel; [|lia].
      rewrite app_length, (write_packet_length md5 md5_len sid TYPE_RECV body Hs type_recv_length). lia. }
    split; [exact E|]. rewrite E.
    destruct (read_file_go md5 (S (length post)) post (Some sid) true (recv_only_vol e d)) as [| |sid' f] eqn:ER.
    - left. reflexivity.
    - exfalso. exact (read_file_go_found _ _ _ _ ER).
    - right. apply (read_file_go_keeps_recv e d) in ER.
      + destruct ER as [-> HA]. exists f. split; [reflexivity|exact HA].
      + unfold recv_only_vol. cbn [pf_recv assoc_n]. rewrite N.eqb_refl. reflexivity.
  Qed.

  Corollary read_file_intact_after_junk_vol : forall sid body e d pre post,
    length sid = 16%nat -> 64 + N.of_nat (length body) < 2 ^ 64 -> read_recv body = Ok (e, d) ->
    let pk := write_packet md5 sid TYPE_RECV body in
    no_magic_before pre (pk ++ post) ->
    read_file_vol md5 sid (pre ++ pk ++ post) = RFErr \/
    exists f, read_file_vol md5 sid (pre ++ pk ++ post) = RFOk sid f /\ assoc_n (pf_recv f) e = Some d.
  Proof.
    intros sid body e d pre post Hs Hv Hr pk Hno.
    exact (proj2 (read_file_intact_packets_survive_vol sid body e d pre post Hs Hv Hr (no_magic_no_packet _ _ Hno))).
  Qed.

  (** * R4. a recovery file needs no creator packet: ONE recovery packet and nothing else is accepted by
      read_file_vol (LoadParityData), and rejected by read_file (which wants the creator packet) *)

  Lemma no_packet_before_nil tail : no_packet_before [] tail.
  Proof.
    intros a s Hp Hne _. exfalso. apply Hne.
    destruct a; destruct s; try discriminate Hp. reflexivity.
  Qed.

  Theorem read_file_vol_needs_no_creator : forall sid body e d,
    length sid = 16%nat -> 64 + N.of_nat (length body) < 2 ^ 64 -> read_recv body = Ok (e, d) ->
    let pk := write_packet md5 sid TYPE_RECV body in
    (exists f, read_file_vol md5 sid pk = RFOk sid f /\ pf_recv f = [(e, d)]) /\
    read_file md5 (Some sid) pk = RFErr.
  Proof.
    intros sid body e d Hs Hv Hr pk.
    pose proof (no_packet_before_nil (pk ++ [])) as Hno.
    destruct (read_file_intact_packets_survive_vol sid body e d [] [] Hs Hv Hr Hno) as [EV _].
    destruct (read_file_intact_packets_survive sid body e d [] [] Hs Hv Hr Hno) as [EF _].
    fold pk in EV, EF. cbn [app] in EV, EF. rewrite app_nil_r in EV, EF.
    split.
    - exists (recv_only_vol e d). split; [rewrite EV; reflexivity|reflexivity].
    - rewrite EF. reflexivity.
  Qed.
End Resync.

Print Assumptions find_magic_suffix.
Print Assumptions find_magic_first.
Print Assumptions read_file_go_skips_damaged.
Print Assumptions read_file_go_reach.
Print Assumptions read_file_intact_packets_survive.
Print Assumptions read_file_intact_after_junk.
Print Assumptions read_file_intact_packets_survive_vol.
Print Assumptions read_file_intact_after_junk_vol.
Print Assumptions read_file_vol_needs_no_creator.
