(* PAR2 Create: what it writes, what it reads, and independence of the current directory and of the
   spelling of its path arguments.
   CP1 create_write_targets          every write call targets <parPath minus ext> ++ ".par2" or ".volII+CC.par2"
   CP2 create_inputs_untouched       every other path keeps its content, for every fault schedule (the inputs themselves:
                                     CreateContain.create_input_paths_untouched - an input is never such a target)
   CP3 create_read_targets           every read call targets join(basedir, rel(basedir, abs f)), f an input; no listing
   CP4 create_cwd_spelling_invariant two invocations whose arguments resolve to the same absolute paths return
                                     the same result and issue the same calls (paths resolved, data, outcomes) *)
From Coq Require Import Lia ZifyN ZifyNat ZifyBool String Ascii.
From Gopar Require Import Model.Base Model.GF16 Model.Matrix Model.RS16 Model.CRC Model.GoPath Model.FS Model.Par2
     Proofs.GoPathFacts Proofs.Par2Facts Proofs.Par2Faults.
Open Scope N_scope.
Set Default Timeout 120.

(** * A. lexical facts about Clean / Join / Abs on a path whose last component is ordinary *)

Definition noslash (l : list N) : Prop := Forall (fun c => c <> SLASH) l.
(* a component that Clean keeps: non-empty, not ".", not "..", no separator *)
Definition ordinary (l : list N) : Prop :=
  noslash l /\ l <> [] /\ is_dot l = false /\ is_dotdot l = false.
(* a directory prefix: empty, or ending in a separator *)
Definition dirpre (pre : list N) : Prop := pre = [] \/ exists d, pre = d ++ [SLASH].

Lemma noslash_app a b : noslash a -> noslash b -> noslash (a ++ b).
Proof. intros Ha Hb. apply Forall_app. split; assumption. Qed.

Lemma long_ordinary l : noslash l -> (3 <= length l)%nat -> ordinary l.
Proof.
  intros Hn Hl. split; [exact Hn|]. split; [intros ->; cbn in Hl; lia|].
  unfold is_dot, is_dotdot, str_eqb.
  destruct l as [|a [|b [|c l']]]; cbn [length] in Hl; try lia. split; reflexivity.
Qed.

Lemma split_slash_noslash l : noslash l -> split_slash l = [l].
Proof.
  induction l as [|c l IH]; intros H; [reflexivity|].
  inversion H as [|? ? Hc Hl]; subst. cbn [split_slash].
  destruct (c =? SLASH) eqn:E; [apply N.eqb_eq in E; congruence|].
  rewrite (IH Hl). reflexivity.
Qed.

Lemma clean_step_ordinary rooted stk l : ordinary l -> clean_step rooted stk l = l :: stk.
Proof.
  intros (_ & Hne & Hd & Hdd). unfold clean_step. destruct l as [|c l']; [congruence|].
  rewrite Hd, Hdd. reflexivity.
Qed.

Lemma clean_nonempty s : s <> [] ->
  clean s = render (is_abs s) (clean_stack (is_abs s) [] (split_slash s)).
Proof. destruct s; [congruence|reflexivity]. Qed.

(* "a/b/" for the components a, b *)
Definition jpre (cs : list (list N)) : list N :=
  match cs with [] => [] | _ => join_slash cs ++ [SLASH] end.

Lemma join_slash_snoc : forall cs l, join_slash (cs ++ [l]) = jpre cs ++ l.
Proof.
  induction cs as [|c cs IH]; intros l; [reflexivity|].
  cbn [app]. destruct cs as [|c2 cs'].
  - cbn [app join_slash jpre]. rewrite <- app_assoc. reflexivity.
  - change (join_slash (c :: (c2 :: cs') ++ [l])) with (c ++ SLASH :: join_slash ((c2 :: cs') ++ [l])).
    rewrite IH. unfold jpre. change (join_slash (c :: c2 :: cs')) with (c ++ SLASH :: join_slash (c2 :: cs')).
    rewrite <- !app_assoc. reflexivity.
Qed.

Lemma dirpre_jpre cs : dirpre (jpre cs).
Proof. destruct cs as [|c cs]; [left; reflexivity|]. right. eexists. reflexivity. Qed.

Lemma render_ordinary rooted stk l :
  render rooted (l :: stk) = (if rooted then [SLASH] else []) ++ jpre (rev stk) ++ l.
Proof.
  unfold render. cbn [rev]. rewrite join_slash_snoc. destruct rooted; reflexivity.
Qed.

Lemma dirpre_render_prefix (rooted : bool) cs : dirpre ((if rooted then [SLASH] else []) ++ jpre cs).
Proof.
  destruct cs as [|c cs].
  - destruct rooted; [right; exists []; reflexivity|left; reflexivity].
  - right. exists ((if rooted then [SLASH] else []) ++ join_slash (c :: cs)).
    unfold jpre. rewrite app_assoc. reflexivity.
Qed.

Lemma is_abs_noslash l : noslash l -> is_abs l = false.
Proof.
  intros H. destruct l as [|c l]; [reflexivity|]. inversion H as [|? ? Hc _]; subst.
  cbn [is_abs]. apply N.eqb_neq. exact Hc.
Qed.

Lemma is_abs_app a b : a <> [] -> is_abs (a ++ b) = is_abs a.
Proof. destruct a; [congruence|reflexivity]. Qed.

(* Clean of <prefix><last component> is <a prefix that does not depend on the component><component> *)
Lemma clean_pre pre : dirpre pre ->
  exists P, dirpre P /\ forall l, ordinary l -> clean (pre ++ l) = P ++ l.
Proof.
  intros [->|(d & ->)].
  - exists []. split; [left; reflexivity|]. intros l Hl. cbn [app].
    pose proof Hl as (Hn & Hne & _).
    rewrite clean_nonempty by exact Hne. rewrite (is_abs_noslash l Hn), (split_slash_noslash l Hn).
    unfold clean_stack. cbn [fold_left]. rewrite clean_step_ordinary by exact Hl. reflexivity.
  - set (r := is_abs (d ++ [SLASH])).
    set (stk := clean_stack r [] (split_slash d)).
    exists ((if r then [SLASH] else []) ++ jpre (rev stk)). split; [apply dirpre_render_prefix|].
    intros l Hl. pose proof Hl as (Hn & Hne & _).
    rewrite clean_nonempty by (destruct d; discriminate).
    rewrite is_abs_app by (destruct d; discriminate). fold r.
    rewrite <- app_assoc. cbn [app]. rewrite split_slash_app, (split_slash_noslash l Hn).
    unfold clean_stack. rewrite fold_left_app. cbn [fold_left]. fold (clean_stack r [] (split_slash d)). fold stk.
    rewrite clean_step_ordinary by exact Hl. rewrite render_ordinary. rewrite app_assoc. reflexivity.
Qed.

Lemma join2_nonempty a b : b <> [] ->
  join2 a b = match a with [] => clean b | _ => clean (a ++ SLASH :: b) end.
Proof. intros Hb. destruct a, b; try congruence; reflexivity. Qed.

(* the same for filepath.Abs, for every current directory *)
Lemma abs_pre cwd pre : dirpre pre ->
  exists P, dirpre P /\ forall l, ordinary l -> abs_path cwd (pre ++ l) = P ++ l.
Proof.
  intros Hpre. unfold abs_path.
  destruct Hpre as [->|(d & ->)].
  - (* no directory part: relative *)
    destruct cwd as [|c0 cw].
    + destruct (clean_pre [] (or_introl eq_refl)) as (P & HP & H). exists P. split; [exact HP|].
      intros l Hl. pose proof Hl as (Hn & Hne & _). cbn [app]. rewrite (is_abs_noslash l Hn).
      rewrite join2_nonempty by exact Hne. apply (H l Hl).
    + destruct (clean_pre ((c0 :: cw) ++ [SLASH]) (or_intror (ex_intro _ (c0 :: cw) eq_refl))) as (P & HP & H).
      exists P. split; [exact HP|].
      intros l Hl. pose proof Hl as (Hn & Hne & _). cbn [app]. rewrite (is_abs_noslash l Hn).
      rewrite join2_nonempty by exact Hne. rewrite <- (H l Hl). rewrite <- app_assoc. reflexivity.
  - assert (Hd : d ++ [SLASH] <> []) by (destruct d; discriminate).
    destruct (is_abs (d ++ [SLASH])) eqn:Ea.
    + destruct (clean_pre (d ++ [SLASH]) (or_intror (ex_intro _ d eq_refl))) as (P & HP & H).
      exists P. split; [exact HP|]. intros l Hl. rewrite is_abs_app by exact Hd. rewrite Ea. apply (H l Hl).
    + destruct cwd as [|c0 cw].
      * destruct (clean_pre (d ++ [SLASH]) (or_intror (ex_intro _ d eq_refl))) as (P & HP & H).
        exists P. split; [exact HP|]. intros l Hl. rewrite is_abs_app by exact Hd. rewrite Ea.
        rewrite join2_nonempty by (destruct d; discriminate). apply (H l Hl).
      * assert (Hdp : dirpre ((c0 :: cw) ++ SLASH :: d ++ [SLASH])).
        { right. exists ((c0 :: cw) ++ SLASH :: d). rewrite <- app_assoc. reflexivity. }
        destruct (clean_pre _ Hdp) as (P & HP & H).
        exists P. split; [exact HP|]. intros l Hl. rewrite is_abs_app by exact Hd. rewrite Ea.
        rewrite join2_nonempty by (destruct d; discriminate).
        rewrite <- (H l Hl). f_equal. cbn [app]. rewrite <- !app_assoc. cbn [app]. rewrite <- !app_assoc. reflexivity.
Qed.

(** ** the extension *)
Lemma ext_rev_spec : forall r acc e, ext_rev r acc = e -> e <> [] ->
  exists m rest, r = m ++ DOT :: rest /\ noslash m /\ e = DOT :: rev m ++ acc.
Proof.
  induction r as [|c r IH]; intros acc e H Hne; cbn [ext_rev] in H; [congruence|].
  destruct (c =? SLASH) eqn:Es; [congruence|]. apply N.eqb_neq in Es.
  destruct (c =? DOT) eqn:Ed.
  - apply N.eqb_eq in Ed. subst c. exists [], r. split; [reflexivity|]. split; [constructor|]. symmetry. exact H.
  - destruct (IH _ _ H Hne) as (m & rest & -> & Hm & ->).
    exists (c :: m), rest. split; [reflexivity|]. split; [constructor; assumption|].
    cbn [rev]. rewrite <- app_assoc. reflexivity.
Qed.

Lemma ext_par2_form par : ext par = EXT_PAR2 -> exists b, par = b ++ EXT_PAR2.
Proof.
  unfold ext. intros H. destruct (ext_rev_spec _ _ _ H ltac:(discriminate)) as (m & rest & Hr & _ & He).
  rewrite app_nil_r in He. injection He as He.
  exists (rev rest). apply (f_equal (@rev N)) in Hr. rewrite rev_involutive in Hr.
  rewrite Hr, rev_app_distr. cbn [rev]. rewrite <- app_assoc. cbn [app]. rewrite <- He. reflexivity.
Qed.

Lemma ext_app_par2 b : ext (b ++ EXT_PAR2) = EXT_PAR2.
Proof. unfold ext. rewrite rev_app_distr. reflexivity. Qed.

Lemma strip_ext_app_par2 b : strip_ext (b ++ EXT_PAR2) = b.
Proof.
  unfold strip_ext. rewrite ext_app_par2, app_length.
  replace (length b + length EXT_PAR2 - length EXT_PAR2)%nat with (length b + 0)%nat by lia.
  rewrite firstn_app_2. cbn [firstn]. apply app_nil_r.
Qed.

(* every string is <directory prefix><separator-free rest> *)
Lemma dir_split : forall b, exists pre c, b = pre ++ c /\ dirpre pre /\ noslash c.
Proof.
  induction b as [|x b IH] using rev_ind.
  - exists [], []. split; [reflexivity|]. split; [left; reflexivity|constructor].
  - destruct (N.eq_dec x SLASH) as [->|Hx].
    + exists (b ++ [SLASH]), []. split; [symmetry; apply app_nil_r|]. split; [right; exists b; reflexivity|constructor].
    + destruct IH as (pre & c & -> & Hp & Hc). exists pre, (c ++ [x]).
      split; [rewrite app_assoc; reflexivity|]. split; [exact Hp|].
      apply noslash_app; [exact Hc|]. constructor; [exact Hx|constructor].
Qed.

Lemma noslash_par2 : noslash EXT_PAR2.
Proof. repeat constructor; discriminate. Qed.

(* a path with extension ".par2" is <directory prefix><c>.par2 *)
Lemma ext_par2_decomp par : ext par = EXT_PAR2 ->
  exists pre c, dirpre pre /\ noslash c /\ par = pre ++ c ++ EXT_PAR2 /\ strip_ext par = pre ++ c.
Proof.
  intros H. destruct (ext_par2_form par H) as (b & ->).
  destruct (dir_split b) as (pre & c & -> & Hp & Hc). exists pre, c.
  split; [exact Hp|]. split; [exact Hc|]. split; [rewrite app_assoc; reflexivity|apply strip_ext_app_par2].
Qed.

(* suffixes that replace ".par2": no separator, at least three bytes *)
Definition good_sfx (s : list N) : Prop := noslash s /\ (3 <= length s)%nat.

Lemma ordinary_app_sfx c s : noslash c -> good_sfx s -> ordinary (c ++ s).
Proof.
  intros Hc (Hs & Hl). apply long_ordinary; [apply noslash_app; assumption|]. rewrite app_length. lia.
Qed.

Lemma good_sfx_par2 : good_sfx EXT_PAR2.
Proof. split; [apply noslash_par2|cbn; lia]. Qed.

(* filepath.Abs commutes with replacing the extension *)
Theorem abs_path_strip_ext cwd par s : ext par = EXT_PAR2 -> good_sfx s ->
  abs_path cwd (strip_ext par ++ s) = strip_ext (abs_path cwd par) ++ s.
Proof.
  intros He Hs. destruct (ext_par2_decomp par He) as (pre & c & Hp & Hc & -> & ->).
  destruct (abs_pre cwd pre Hp) as (P & _ & H).
  rewrite <- app_assoc. rewrite (H (c ++ s)) by (apply ordinary_app_sfx; assumption).
  rewrite (H (c ++ EXT_PAR2)) by (apply ordinary_app_sfx; [exact Hc|apply good_sfx_par2]).
  rewrite (app_assoc P c EXT_PAR2), strip_ext_app_par2. rewrite <- app_assoc. reflexivity.
Qed.

Theorem abs_path_sfx_agree cwd1 cwd2 par1 par2 s :
  ext par1 = EXT_PAR2 -> ext par2 = EXT_PAR2 -> abs_path cwd1 par1 = abs_path cwd2 par2 -> good_sfx s ->
  abs_path cwd1 (strip_ext par1 ++ s) = abs_path cwd2 (strip_ext par2 ++ s).
Proof.
  intros H1 H2 Ha Hs. rewrite !abs_path_strip_ext by assumption. rewrite Ha. reflexivity.
Qed.

(* the extension of a path with an ordinary last component survives filepath.Abs *)
Lemma ext_rev_cut : forall m acc rest, noslash m -> (rest = [] \/ exists r, rest = SLASH :: r) ->
  ext_rev (m ++ rest) acc = ext_rev m acc.
Proof.
  induction m as [|c m IH]; intros acc rest Hm Hrest.
  - cbn [app]. destruct Hrest as [->|(r & ->)]; reflexivity.
  - inversion Hm as [|? ? Hc Hm']; subst. cbn [app ext_rev].
    destruct (c =? SLASH); [reflexivity|]. destruct (c =? DOT); [reflexivity|]. apply IH; assumption.
Qed.

Lemma ext_last P l : dirpre P -> noslash l -> ext (P ++ l) = ext l.
Proof.
  intros HP Hl. unfold ext. rewrite rev_app_distr. apply ext_rev_cut.
  - apply Forall_rev. exact Hl.
  - destruct HP as [->|(d & ->)]; [left; reflexivity|]. right. exists (rev d). rewrite rev_app_distr. reflexivity.
Qed.

(* the last component of the path is ordinary: no trailing separator, not "." or "..", not empty *)
Definition plain_last (par : list N) : Prop := exists pre l, par = pre ++ l /\ dirpre pre /\ ordinary l.

Theorem ext_abs_path cwd par : plain_last par -> ext (abs_path cwd par) = ext par.
Proof.
  intros (pre & l & -> & Hp & Hl). destruct (abs_pre cwd pre Hp) as (P & HP & H).
  rewrite (H l Hl). pose proof Hl as (Hn & _). rewrite !ext_last by assumption. reflexivity.
Qed.

Lemma ext_par2_plain_last par : ext par = EXT_PAR2 -> plain_last par.
Proof.
  intros H. destruct (ext_par2_decomp par H) as (pre & c & Hp & Hc & -> & _).
  exists pre, (c ++ EXT_PAR2). split; [reflexivity|]. split; [exact Hp|].
  apply ordinary_app_sfx; [exact Hc|apply good_sfx_par2].
Qed.

(* when the resolved paths agree and both last components are ordinary, the extensions agree *)
Theorem ext_agree cwd1 cwd2 par1 par2 :
  abs_path cwd1 par1 = abs_path cwd2 par2 -> plain_last par1 -> plain_last par2 -> ext par1 = ext par2.
Proof.
  intros Ha H1 H2. rewrite <- (ext_abs_path cwd1 par1 H1), <- (ext_abs_path cwd2 par2 H2), Ha. reflexivity.
Qed.

(** ** absolute paths stay absolute *)
Lemma is_abs_clean s : is_abs s = true -> is_abs (clean s) = true.
Proof.
  intros H. destruct s as [|c s']; [discriminate H|].
  unfold clean. rewrite H. reflexivity.
Qed.

Lemma is_abs_join2 a b : is_abs a = true -> is_abs (join2 a b) = true.
Proof.
  intros H. destruct a as [|c a']; [discriminate H|].
  destruct b as [|b0 b']; cbn [join2]; apply is_abs_clean; exact H.
Qed.

Lemma is_abs_dir a : is_abs a = true -> is_abs (dir a) = true.
Proof.
  intros H. destruct a as [|c r]; [discriminate H|]. cbn [is_abs] in H.
  unfold dir. cbn [dir_prefix_len]. rewrite H.
  destruct (Nat.eqb (dir_prefix_len r) 0); cbn [firstn]; apply is_abs_clean; exact H.
Qed.

Lemma is_abs_abs_path cwd p : is_abs cwd = true -> is_abs (abs_path cwd p) = true.
Proof.
  intros H. unfold abs_path. destruct (is_abs p) eqn:E; [apply is_abs_clean; exact E|apply is_abs_join2; exact H].
Qed.

Lemma abs_path_of_abs cwd p : is_abs p = true -> abs_path cwd p = clean p.
Proof. intros H. unfold abs_path. rewrite H. reflexivity. Qed.

(** ** the volume suffixes *)
Fixpoint dec2_go (fuel : nat) (n : N) (acc : bytes) {struct fuel} : bytes :=
  match fuel with O => acc | S f => if n <? 10 then (48 + n) :: acc else dec2_go f (n / 10) ((48 + n mod 10) :: acc) end.

Lemma dec2_unfold n : dec2 n = if Nat.ltb (length (dec2_go 20 n [])) 2 then 48 :: dec2_go 20 n [] else dec2_go 20 n [].
Proof. reflexivity. Qed.

Lemma dec2_go_noslash : forall fuel n acc, noslash acc -> noslash (dec2_go fuel n acc).
Proof.
  induction fuel as [|f IH]; intros k acc Hacc; [exact Hacc|].
  cbn [dec2_go]. destruct (k <? 10) eqn:E.
  - constructor; [unfold SLASH; lia|exact Hacc].
  - apply IH. constructor; [|exact Hacc]. unfold SLASH. pose proof (N.mod_lt k 10 ltac:(lia)). lia.
Qed.

Lemma dec2_noslash n : noslash (dec2 n).
Proof.
  rewrite dec2_unfold. destruct (Nat.ltb _ 2).
  - constructor; [discriminate|]. apply dec2_go_noslash. constructor.
  - apply dec2_go_noslash. constructor.
Qed.

Definition vol_sfx (i c : nat) : list N :=
  [46; 118; 111; 108] ++ dec2 (N.of_nat i) ++ [43] ++ dec2 (N.of_nat c) ++ EXT_PAR2.

Definition is_sfx (s : list N) : Prop := s = EXT_PAR2 \/ exists i c, s = vol_sfx i c.

Lemma good_sfx_vol i c : good_sfx (vol_sfx i c).
Proof.
  split.
  - unfold vol_sfx. repeat apply noslash_app; try apply dec2_noslash; try apply noslash_par2;
      repeat constructor; discriminate.
  - unfold vol_sfx. rewrite app_length. cbn [length]. lia.
Qed.

Lemma is_sfx_good s : is_sfx s -> good_sfx s.
Proof. intros [->|(i & c & ->)]; [apply good_sfx_par2|apply good_sfx_vol]. Qed.

Definition is_output (parPath p : list N) : Prop :=
  p = strip_ext parPath ++ EXT_PAR2 \/
  exists i c, p = strip_ext parPath ++ [46;118;111;108] ++ dec2 (N.of_nat i) ++ [43] ++ dec2 (N.of_nat c) ++ EXT_PAR2.

Lemma is_output_sfx parPath p : is_output parPath p <-> exists s, is_sfx s /\ p = strip_ext parPath ++ s.
Proof.
  split.
  - intros [->|(i & c & ->)]; [exists EXT_PAR2; split; [left|]; reflexivity|].
    exists (vol_sfx i c). split; [right; exists i, c; reflexivity|reflexivity].
  - intros (s & [->|(i & c & ->)] & ->); [left; reflexivity|right; exists i, c; reflexivity].
Qed.

(** * B. the outputs of Create: names are <parPath minus ext><suffix>; suffixes and data do not depend on parPath *)

Definition omapf {A B} (f : A -> B) (o : outcome A) : outcome B :=
  match o with Ok a => Ok (f a) | Err e => Err e | Panic q => Panic q end.

Definition with_base (basep : list N) (sd : list N * bytes) : list N * bytes := (basep ++ fst sd, snd sd).

Lemma omap_with_base {A} (F1 F2 : A -> outcome (list N * bytes)) basep :
  (forall a, F1 a = omapf (with_base basep) (F2 a)) ->
  forall l, omap F1 l = omapf (map (with_base basep)) (omap F2 l).
Proof.
  intros HF. induction l as [|a l IH]; [reflexivity|].
  cbn [omap]. rewrite HF, IH.
  destruct (F2 a) as [y|e|q]; cbn [omapf obind]; try reflexivity.
  destruct (omap F2 l) as [ys|e|q]; reflexivity.
Qed.

Section CreatePaths.
  Variable md5 : bytes -> bytes.

  (* the (suffix, data) list: Create for the empty parPath, whose base name is empty *)
  Definition create_sfx_outputs (sz np : nat) (rels : list bytes) (datas : list bytes) : outcome (list (list N * bytes)) :=
    create_outputs md5 [] sz np rels datas.

  Lemma create_outputs_factor par sz np rels datas :
    create_outputs md5 par sz np rels datas =
    omapf (map (with_base (strip_ext par))) (create_sfx_outputs sz np rels datas).
  Proof.
    unfold create_sfx_outputs, create_outputs. cbv zeta.
    lazymatch goal with |- (if ?c then _ else _) = _ => destruct c end; [reflexivity|].
    lazymatch goal with |- (if ?c then _ else _) = _ => destruct c end; [reflexivity|].
    lazymatch goal with |- (if ?c then _ else _) = _ => destruct c end; [reflexivity|].
    lazymatch goal with |- obind ?w _ = _ => destruct w as [[sid ixb]|e|q] end; cbn [obind omapf]; try reflexivity.
    lazymatch goal with |- obind (omap ?F1 ?l) _ = omapf _ (obind (omap ?F2 ?l) _) =>
      rewrite (omap_with_base F1 F2 (strip_ext par)) end.
    - lazymatch goal with |- context [omap ?F ?l] => destruct (omap F l) as [vols|e|q] end; reflexivity.
    - intros [i c].
      lazymatch goal with |- obind ?w _ = _ => destruct w as [[sid' vb]|e|q] end; reflexivity.
  Qed.

  Lemma create_sfx_outputs_names sz np rels datas souts :
    create_sfx_outputs sz np rels datas = Ok souts -> Forall (fun sd => is_sfx (fst sd)) souts.
  Proof.
    unfold create_sfx_outputs, create_outputs. cbv zeta.
    lazymatch goal with |- (if ?c then _ else _) = _ -> _ => destruct c end; [discriminate|].
    lazymatch goal with |- (if ?c then _ else _) = _ -> _ => destruct c end; [discriminate|].
    lazymatch goal with |- (if ?c then _ else _) = _ -> _ => destruct c end; [discriminate|].
    lazymatch goal with |- obind ?w _ = _ -> _ => destruct w as [[sid ixb]|e|q] end; cbn [obind]; try discriminate.
    lazymatch goal with |- obind (omap ?F ?l) _ = _ -> _ => destruct (omap F l) as [vols|e|q] eqn:EV end;
      cbn [obind]; try discriminate.
    intros H. injection H as <-. constructor.
    - left. reflexivity.
    - revert EV. apply omap_Forall. intros [i c] y.
      lazymatch goal with |- obind ?w _ = _ -> _ => destruct w as [[sid' vb]|e|q] end; cbn [obind]; try discriminate.
      intros H. injection H as <-. right. exists i, c. reflexivity.
  Qed.

  (** * C. the calls of a run *)

  Lemma io_read_event p st :
    exists ok, io_trace (snd (io_read p st)) = io_trace st ++ [EvRead p ok].
  Proof.
    unfold io_read. destruct (sched_lookup (io_sched st) (io_n st)); [exists false; reflexivity|].
    destruct (fs_lookup (io_fs st) p); [exists true; reflexivity|].
    destruct (is_dir (io_fs st) p); exists false; reflexivity.
  Qed.

  (* the read loop appends read calls of the given paths, in order (a prefix of them) *)
  Lemma io_reads_trace : forall paths st,
    exists t, io_trace (snd (io_reads paths st)) = io_trace st ++ t /\
              Forall (fun ev => exists p ok, ev = EvRead p ok /\ In p paths) t.
  Proof.
    induction paths as [|p r IH]; intros st; cbn [io_reads].
    - exists []. split; [symmetry; apply app_nil_r|constructor].
    - destruct (io_read_event p st) as (ok & E).
      assert (H1 : Forall (fun ev => exists p' ok', ev = EvRead p' ok' /\ In p' (p :: r)) [EvRead p ok]).
      { constructor; [|constructor]. exists p, ok. split; [reflexivity|left; reflexivity]. }
      destruct (io_read p st) as [[d|e|q] st1]; cbn [snd] in E; try (exists [EvRead p ok]; split; [exact E|exact H1]).
      destruct (IH st1) as (t & Et & Ft).
      assert (H2 : Forall (fun ev => exists p' ok', ev = EvRead p' ok' /\ In p' (p :: r)) ([EvRead p ok] ++ t)).
      { apply Forall_app. split; [exact H1|]. revert Ft. apply Forall_impl.
        intros ev (p' & ok' & -> & Hin). exists p', ok'. split; [reflexivity|right; exact Hin]. }
      exists ([EvRead p ok] ++ t).
      destruct (io_reads r st1) as [[ds|e|q] st2]; cbn [snd] in *; (split; [rewrite Et, E, <- app_assoc; reflexivity|exact H2]).
  Qed.

  Lemma io_reads_counters : forall paths st,
    io_sched (snd (io_reads paths st)) = io_sched st.
  Proof.
    intros paths st. destruct (io_reads_pres paths st) as (_ & S & _). exact S.
  Qed.

  Lemma io_write_event p d st :
    exists ok, io_trace (snd (io_write p d st)) = io_trace st ++ [EvWrite p d ok].
  Proof.
    unfold io_write. destruct (sched_lookup (io_sched st) (io_n st)) as [[|k]|];
      [exists false|exists false|exists true]; reflexivity.
  Qed.

  Lemma io_writes_trace : forall ws st,
    exists t, io_trace (snd (io_writes ws st)) = io_trace st ++ t /\
              Forall (fun ev => exists p d ok, ev = EvWrite p d ok /\ In (p, d) ws) t.
  Proof.
    induction ws as [|[p d] r IH]; intros st; cbn [io_writes].
    - exists []. split; [symmetry; apply app_nil_r|constructor].
    - destruct (io_write_event p d st) as (ok & E).
      assert (H1 : Forall (fun ev => exists p' d' ok', ev = EvWrite p' d' ok' /\ In (p', d') ((p, d) :: r)) [EvWrite p d ok]).
      { constructor; [|constructor]. exists p, d, ok. split; [reflexivity|left; reflexivity]. }
      destruct (io_write p d st) as [[u|e|q] st1]; cbn [snd] in E; try (exists [EvWrite p d ok]; split; [exact E|exact H1]).
      destruct (IH st1) as (t & Et & Ft).
      exists ([EvWrite p d ok] ++ t). split; [rewrite Et, E, <- app_assoc; reflexivity|].
      apply Forall_app. split; [exact H1|]. revert Ft. apply Forall_impl.
      intros ev (p' & d' & ok' & -> & Hin). exists p', d', ok'. split; [reflexivity|right; exact Hin].
  Qed.

  Definition read_target (cwd par f : list N) : list N :=
    let basedir := dir (abs_path cwd par) in join2 basedir (rel_path basedir (abs_path cwd f)).

  (* a run of Create appends read calls of the inputs, then write calls of the outputs, and nothing else *)
  Lemma create_trace cwd par files p st :
    exists tr tw, io_trace (snd (par2_create md5 cwd par files p st)) = io_trace st ++ tr ++ tw /\
      Forall (fun ev => exists f ok, In f files /\ ev = EvRead (read_target cwd par f) ok) tr /\
      Forall (fun ev => exists pth d ok, ev = EvWrite pth d ok /\ is_output par pth) tw.
  Proof.
    assert (Triv : exists tr tw, io_trace st = io_trace st ++ tr ++ tw /\
      Forall (fun ev => exists f ok, In f files /\ ev = EvRead (read_target cwd par f) ok) tr /\
      Forall (fun ev => exists pth d ok, ev = EvWrite pth d ok /\ is_output par pth) tw).
    { exists [], []. split; [cbn [app]; symmetry; apply app_nil_r|split; constructor]. }
    unfold par2_create.
    destruct (negb (str_eqb (ext par) EXT_PAR2)); [exact Triv|].
    destruct files as [|f0 files0]; [exact Triv|].
    cbv zeta.
    lazymatch goal with |- context [if ?c then (Err EUsage, st) else _] => destruct c end; [exact Triv|].
    lazymatch goal with |- context [if ?c then (Err EUsage, st) else _] => destruct c end; [exact Triv|].
    lazymatch goal with |- context [if ?c then (Err EUsage, st) else _] => destruct c end; [exact Triv|].
    clear Triv.
    lazymatch goal with |- context [io_reads ?ps st] =>
      destruct (io_reads_trace ps st) as (tr & Etr & Ftr);
      destruct (io_reads ps st) as [[datas|e|q] st1] end; cbn [snd] in Etr.
    2,3: cbn [snd]; exists tr, []; rewrite app_nil_r; split; [exact Etr|split; [|constructor]].
    1: rewrite create_outputs_factor;
       lazymatch goal with |- context [create_sfx_outputs ?a ?b ?c ?d] =>
         destruct (create_sfx_outputs a b c d) as [souts|e|q] eqn:ES end; cbn [omapf].
    2,3: cbn [snd]; exists tr, []; rewrite app_nil_r; split; [exact Etr|split; [|constructor]].
    1: destruct (io_writes_trace (map (with_base (strip_ext par)) souts) st1) as (tw & Etw & Ftw);
       exists tr, tw; split; [rewrite Etw, Etr, <- app_assoc; reflexivity|split].
    all: try (revert Ftr; apply Forall_impl; intros ev (pth & ok & -> & Hin);
      apply in_map_iff in Hin; destruct Hin as (rl & <- & Hin);
      apply in_map_iff in Hin; destruct Hin as (af & <- & Hin);
      apply in_map_iff in Hin; destruct Hin as (f & <- & Hin);
      exists f, ok; split; [exact Hin|reflexivity]).
    revert Ftw. apply Forall_impl. intros ev (pth & d & ok & -> & Hin).
    apply in_map_iff in Hin. destruct Hin as ([s d'] & Hsd & Hin). unfold with_base in Hsd. cbn [fst snd] in Hsd.
    injection Hsd as <- <-. exists (strip_ext par ++ s), d', ok. split; [reflexivity|].
    apply is_output_sfx. exists s. split; [|reflexivity].
    pose proof (create_sfx_outputs_names _ _ _ _ _ ES) as Hn. rewrite Forall_forall in Hn. apply (Hn (s, d') Hin).
  Qed.

  (** CP1 *)
  Theorem create_write_targets : forall cwd parPath files p fs sched pth d ok,
    In (EvWrite pth d ok) (io_trace (snd (par2_create md5 cwd parPath files p (io_init fs sched)))) ->
    is_output parPath pth.
  Proof.
    intros cwd par files p fs sched pth d ok Hin.
    destruct (create_trace cwd par files p (io_init fs sched)) as (tr & tw & E & Fr & Fw).
    rewrite E in Hin. cbn [io_init io_trace app] in Hin. apply in_app_or in Hin. destruct Hin as [Hin|Hin].
    - rewrite Forall_forall in Fr. destruct (Fr _ Hin) as (f & ok' & _ & Hev). discriminate Hev.
    - rewrite Forall_forall in Fw. destruct (Fw _ Hin) as (pth' & d' & ok' & Hev & Ho).
      injection Hev as -> _ _. exact Ho.
  Qed.

  Lemma written_paths_in q : forall tr, In q (written_paths tr) -> exists d ok, In (EvWrite q d ok) tr.
  Proof.
    induction tr as [|ev tr IH]; intros H; [destruct H|].
    unfold written_paths in H. cbn [flat_map] in H. apply in_app_or in H. destruct H as [H|H].
    - destruct ev as [p ok|a b ok|p d ok]; [destruct H|destruct H|].
      destruct H as [H|[]]. subst q. exists d, ok. left. reflexivity.
    - destruct (IH H) as (d & ok & Hin). exists d, ok. right. exact Hin.
  Qed.

  (** CP2 *)
  Theorem create_inputs_untouched : forall cwd parPath files p fs sched q,
    ~ is_output parPath q ->
    fs_lookup (io_fs (snd (par2_create md5 cwd parPath files p (io_init fs sched)))) q = fs_lookup fs q.
  Proof.
    intros cwd par files p fs sched q Hq. apply create_touches_only_written.
    intros Hin. apply written_paths_in in Hin. destruct Hin as (d & ok & Hin).
    apply Hq. apply (create_write_targets cwd par files p fs sched q d ok Hin).
  Qed.

  (** CP3 *)
  Theorem create_read_targets : forall cwd parPath files p fs sched,
    let tr := io_trace (snd (par2_create md5 cwd parPath files p (io_init fs sched))) in
    let basedir := dir (abs_path cwd parPath) in
    (forall pth ok, In (EvRead pth ok) tr ->
       exists f, In f files /\ pth = join2 basedir (rel_path basedir (abs_path cwd f))) /\
    (forall pre suf ok, ~ In (EvList pre suf ok) tr).
  Proof.
    intros cwd par files p fs sched tr basedir. subst tr.
    destruct (create_trace cwd par files p (io_init fs sched)) as (tr & tw & E & Fr & Fw).
    rewrite E. cbn [io_init io_trace app]. rewrite Forall_forall in Fr, Fw. split.
    - intros pth ok Hin. apply in_app_or in Hin. destruct Hin as [Hin|Hin].
      + destruct (Fr _ Hin) as (f & ok' & Hf & Hev). injection Hev as -> _. exists f. split; [exact Hf|reflexivity].
      + destruct (Fw _ Hin) as (pth' & d' & ok' & Hev & _). discriminate Hev.
    - intros pre suf ok Hin. apply in_app_or in Hin. destruct Hin as [Hin|Hin].
      + destruct (Fr _ Hin) as (f & ok' & _ & Hev). discriminate Hev.
      + destruct (Fw _ Hin) as (pth' & d' & ok' & Hev & _). discriminate Hev.
  Qed.

  (** * D. independence of the current directory and of the spelling of the arguments *)

  (* the call with its path resolved against the current directory, as the operating system does *)
  Definition resolve_event (cwd : list N) (ev : ioev) : ioev :=
    match ev with
    | EvRead p ok => EvRead (abs_path cwd p) ok
    | EvList pre suf ok => EvList (abs_path cwd pre) suf ok
    | EvWrite p d ok => EvWrite (abs_path cwd p) d ok
    end.

  (* a call on an absolute path resolves alike from everywhere *)
  Lemma resolve_abs_reads cwd1 cwd2 t :
    Forall (fun ev => exists p ok, ev = EvRead p ok /\ is_abs p = true) t ->
    map (resolve_event cwd1) t = map (resolve_event cwd2) t.
  Proof.
    induction 1 as [|ev t (p & ok & -> & Hp) _ IH]; [reflexivity|].
    cbn [map resolve_event]. rewrite IH, !abs_path_of_abs by exact Hp. reflexivity.
  Qed.

  (* two write loops over the same (suffix, data) list under base names that resolve alike: same result,
     same calls up to resolution - whatever the two file systems contain *)
  Lemma io_writes_pair cwd1 cwd2 b1 b2 : forall souts st1 st2,
    io_n st1 = io_n st2 -> io_sched st1 = io_sched st2 ->
    Forall (fun sd : list N * bytes => abs_path cwd1 (b1 ++ fst sd) = abs_path cwd2 (b2 ++ fst sd)) souts ->
    fst (io_writes (map (with_base b1) souts) st1) = fst (io_writes (map (with_base b2) souts) st2) /\
    exists t1 t2,
      io_trace (snd (io_writes (map (with_base b1) souts) st1)) = io_trace st1 ++ t1 /\
      io_trace (snd (io_writes (map (with_base b2) souts) st2)) = io_trace st2 ++ t2 /\
      map (resolve_event cwd1) t1 = map (resolve_event cwd2) t2.
  Proof.
    induction souts as [|[s d] souts IH]; intros st1 st2 Hn Hs Hall.
    - cbn [map io_writes fst snd]. split; [reflexivity|]. exists [], [].
      rewrite !app_nil_r. repeat split; reflexivity.
    - inversion Hall as [|? ? Hhd Htl]; subst. cbn [fst] in Hhd.
      cbn [map with_base fst snd io_writes]. unfold io_write. rewrite <- Hs, <- Hn.
      destruct (sched_lookup (io_sched st1) (io_n st1)) as [[|k]|].
      + cbn [fst snd tick io_trace]. split; [reflexivity|].
        exists [EvWrite (b1 ++ s) d false], [EvWrite (b2 ++ s) d false].
        split; [reflexivity|split; [reflexivity|]]. cbn [map resolve_event]. rewrite Hhd. reflexivity.
      + cbn [fst snd tick io_trace]. split; [reflexivity|].
        exists [EvWrite (b1 ++ s) d false], [EvWrite (b2 ++ s) d false].
        split; [reflexivity|split; [reflexivity|]]. cbn [map resolve_event]. rewrite Hhd. reflexivity.
      + lazymatch goal with |- fst (io_writes _ ?s1) = fst (io_writes _ ?s2) /\ _ =>
          destruct (IH s1 s2) as (Hf & t1 & t2 & E1 & E2 & Em) end.
        * cbn [tick io_n]. rewrite Hn. reflexivity.
        * cbn [tick io_sched]. exact Hs.
        * exact Htl.
        * split; [exact Hf|].
          exists (EvWrite (b1 ++ s) d true :: t1), (EvWrite (b2 ++ s) d true :: t2).
          rewrite E1, E2. cbn [tick io_trace]. rewrite <- !app_assoc. cbn [app].
          split; [reflexivity|split; [reflexivity|]]. cbn [map resolve_event]. rewrite Hhd, Em. reflexivity.
  Qed.

  Lemma io_reads_n_sched paths st :
    io_sched (snd (io_reads paths st)) = io_sched st.
  Proof. apply io_reads_counters. Qed.

  (* CP4 on an arbitrary starting state *)
  Lemma create_pair cwd1 cwd2 par1 par2 files1 files2 p st :
    str_eqb (ext par1) EXT_PAR2 = str_eqb (ext par2) EXT_PAR2 ->
    is_abs (abs_path cwd1 par1) = true ->
    abs_path cwd1 par1 = abs_path cwd2 par2 ->
    map (abs_path cwd1) files1 = map (abs_path cwd2) files2 ->
    fst (par2_create md5 cwd1 par1 files1 p st) = fst (par2_create md5 cwd2 par2 files2 p st) /\
    exists t1 t2,
      io_trace (snd (par2_create md5 cwd1 par1 files1 p st)) = io_trace st ++ t1 /\
      io_trace (snd (par2_create md5 cwd2 par2 files2 p st)) = io_trace st ++ t2 /\
      map (resolve_event cwd1) t1 = map (resolve_event cwd2) t2.
  Proof.
    intros Hext Habs Hpar Hfiles.
    assert (Triv : fst (@Err unit EUsage, st) = fst (@Err unit EUsage, st) /\
      exists t1 t2, io_trace (snd (@Err unit EUsage, st)) = io_trace st ++ t1 /\
                    io_trace (snd (@Err unit EUsage, st)) = io_trace st ++ t2 /\
                    map (resolve_event cwd1) t1 = map (resolve_event cwd2) t2).
    { split; [reflexivity|]. exists [], []. cbn [snd]. rewrite app_nil_r. repeat split; reflexivity. }
    unfold par2_create. rewrite <- Hext.
    destruct (str_eqb (ext par1) EXT_PAR2) eqn:E1; cbn [negb]; [|exact Triv].
    assert (E2 : ext par2 = EXT_PAR2) by (apply str_eqb_eq; rewrite <- Hext; reflexivity).
    apply str_eqb_eq in E1.
    destruct files1 as [|f1 fs1], files2 as [|f2 fs2]; try discriminate Hfiles; [exact Triv|].
    cbv zeta. rewrite <- Hfiles, <- Hpar.
    set (basedir := dir (abs_path cwd1 par1)).
    destruct (existsb (is_parity_path (abs_path cwd1 par1)) (map (abs_path cwd1) (f1 :: fs1))); [exact Triv|].
    set (rels := map (rel_path basedir) (map (abs_path cwd1) (f1 :: fs1))).
    destruct (existsb _ rels); [exact Triv|].
    lazymatch goal with |- context [if ?c then (Err EUsage, st) else _] => destruct c end; [exact Triv|].
    clear Triv.
    destruct (io_reads_trace (map (join2 basedir) rels) st) as (tr & Etr & Ftr).
    assert (Hres : map (resolve_event cwd1) tr = map (resolve_event cwd2) tr).
    { apply resolve_abs_reads. revert Ftr. apply Forall_impl. intros ev (pth & ok & -> & Hin).
      exists pth, ok. split; [reflexivity|]. apply in_map_iff in Hin. destruct Hin as (rl & <- & _).
      apply is_abs_join2. apply is_abs_dir. exact Habs. }
    pose proof (io_reads_pres (map (join2 basedir) rels) st) as (_ & Hsched & _).
    destruct (io_reads (map (join2 basedir) rels) st) as [[datas|e|q] st1]; cbn [snd] in Etr, Hsched.
    2,3: split; [reflexivity|]; exists tr, tr; cbn [snd]; repeat split; assumption.
    rewrite !create_outputs_factor.
    lazymatch goal with |- context [create_sfx_outputs ?a ?b ?c ?d] =>
      destruct (create_sfx_outputs a b c d) as [souts|e|q] eqn:ES end; cbn [omapf].
    2,3: split; [reflexivity|]; exists tr, tr; cbn [snd]; repeat split; assumption.
    destruct (io_writes_pair cwd1 cwd2 (strip_ext par1) (strip_ext par2) souts st1 st1 eq_refl eq_refl)
      as (Hf & t1 & t2 & Ew1 & Ew2 & Em).
    { pose proof (create_sfx_outputs_names _ _ _ _ _ ES) as Hn. revert Hn. apply Forall_impl.
      intros [s d] Hs. cbn [fst] in *. apply abs_path_sfx_agree; try assumption. apply is_sfx_good. exact Hs. }
    split; [exact Hf|]. exists (tr ++ t1), (tr ++ t2).
    rewrite Ew1, Ew2, Etr, <- !app_assoc. split; [reflexivity|split; [reflexivity|]].
    rewrite !map_app, Hres, Em. reflexivity.
  Qed.

  (** CP4 *)
  Theorem create_cwd_spelling_invariant : forall cwd1 cwd2 par1 par2 files1 files2 p fs sched,
    str_eqb (ext par1) EXT_PAR2 = str_eqb (ext par2) EXT_PAR2 ->
    is_abs (abs_path cwd1 par1) = true ->
    abs_path cwd1 par1 = abs_path cwd2 par2 ->
    map (abs_path cwd1) files1 = map (abs_path cwd2) files2 ->
    let r1 := par2_create md5 cwd1 par1 files1 p (io_init fs sched) in
    let r2 := par2_create md5 cwd2 par2 files2 p (io_init fs sched) in
    fst r1 = fst r2 /\
    map (resolve_event cwd1) (io_trace (snd r1)) = map (resolve_event cwd2) (io_trace (snd r2)).
  Proof.
    intros cwd1 cwd2 par1 par2 files1 files2 p fs sched Hext Habs Hpar Hfiles r1 r2. subst r1 r2.
    destruct (create_pair cwd1 cwd2 par1 par2 files1 files2 p (io_init fs sched) Hext Habs Hpar Hfiles)
      as (Hf & t1 & t2 & E1 & E2 & Em).
    split; [exact Hf|]. rewrite E1, E2. cbn [io_init io_trace app]. exact Em.
  Qed.
End CreatePaths.

(** ** CP4 with the side conditions in the form a caller meets them *)
Corollary create_cwd_spelling_invariant_plain md5 : forall cwd1 cwd2 par1 par2 files1 files2 p fs sched,
  is_abs cwd1 = true ->
  plain_last par1 -> plain_last par2 ->
  abs_path cwd1 par1 = abs_path cwd2 par2 ->
  map (abs_path cwd1) files1 = map (abs_path cwd2) files2 ->
  let r1 := par2_create md5 cwd1 par1 files1 p (io_init fs sched) in
  let r2 := par2_create md5 cwd2 par2 files2 p (io_init fs sched) in
  fst r1 = fst r2 /\
  map (resolve_event cwd1) (io_trace (snd r1)) = map (resolve_event cwd2) (io_trace (snd r2)).
Proof.
  intros cwd1 cwd2 par1 par2 files1 files2 p fs sched Hcwd Hl1 Hl2 Hpar Hfiles.
  apply create_cwd_spelling_invariant; try assumption.
  - rewrite (ext_agree cwd1 cwd2 par1 par2 Hpar Hl1 Hl2). reflexivity.
  - apply is_abs_abs_path. exact Hcwd.
Qed.

(* when the resolved names agree, the ".par2" check can differ only through a last component that is
   not ordinary (trailing separator, ".", "..", or an empty parPath) *)
Corollary ext_par2_transfers cwd1 cwd2 par1 par2 :
  abs_path cwd1 par1 = abs_path cwd2 par2 -> ext par1 = EXT_PAR2 -> plain_last par2 -> ext par2 = EXT_PAR2.
Proof.
  intros Ha H1 H2. rewrite <- H1. symmetry. apply (ext_agree cwd1 cwd2); [exact Ha|apply ext_par2_plain_last; exact H1|exact H2].
Qed.

(** * E. instances *)
Definition bs (x : string) : list N := map N_of_ascii (list_ascii_of_string x).

(* the premises of CP4, met by two different spellings from two different directories *)
Example cp4_premises :
  let cwd1 := bs "/w/set" in let par1 := bs "out.par2" in let files1 := [bs "a"; bs "sub/b"] in
  let cwd2 := bs "/elsewhere" in let par2 := bs "/w/./set//out.par2" in
  let files2 := [bs "/w/set/a"; bs "../w/set/sub/../sub/b"] in
  str_eqb (ext par1) EXT_PAR2 = str_eqb (ext par2) EXT_PAR2 /\
  is_abs (abs_path cwd1 par1) = true /\
  abs_path cwd1 par1 = abs_path cwd2 par2 /\
  map (abs_path cwd1) files1 = map (abs_path cwd2) files2 /\
  abs_path cwd1 par1 = bs "/w/set/out.par2" /\
  map (abs_path cwd1) files1 = [bs "/w/set/a"; bs "/w/set/sub/b"].
Proof. vm_compute. repeat split; reflexivity. Qed.

(* a stand-in digest for running the model inside Coq *)
Definition toy_md5 (b : bytes) : bytes := firstn 16 (map (fun x => (x * 7 + N.of_nat (List.length b)) mod 256) b ++ zeros 16).

(* the two runs of cp4_premises on a file system that holds the inputs: both succeed, read the same two
   files, and write index and volumes to names that resolve to /w/set/out*.par2 *)
Example cp4_run :
  let cwd1 := bs "/w/set" in let par1 := bs "out.par2" in let files1 := [bs "a"; bs "sub/b"] in
  let cwd2 := bs "/elsewhere" in let par2 := bs "/w/./set//out.par2" in
  let files2 := [bs "/w/set/a"; bs "../w/set/sub/../sub/b"] in
  let fs := [(bs "/w/set/a", [1; 2; 3; 4; 5]); (bs "/w/set/sub/b", [6; 7; 8; 9])] in
  let p := {| cp_slice := 4; cp_parity := 2 |} in
  let r1 := par2_create toy_md5 cwd1 par1 files1 p (io_init fs []) in
  let r2 := par2_create toy_md5 cwd2 par2 files2 p (io_init fs []) in
  fst r1 = Ok tt /\ fst r2 = Ok tt /\
  map (resolve_event cwd1) (io_trace (snd r1)) = map (resolve_event cwd2) (io_trace (snd r2)) /\
  written_paths (io_trace (snd r1)) = [bs "out.par2"; bs "out.vol00+01.par2"; bs "out.vol01+01.par2"] /\
  written_paths (io_trace (snd r2)) =
    [bs "/w/./set//out.par2"; bs "/w/./set//out.vol00+01.par2"; bs "/w/./set//out.vol01+01.par2"] /\
  written_paths (map (resolve_event cwd2) (io_trace (snd r2))) =
    [bs "/w/set/out.par2"; bs "/w/set/out.vol00+01.par2"; bs "/w/set/out.vol01+01.par2"].
Proof. vm_compute. repeat split; reflexivity. Qed.

(* COUNTEREXAMPLE 1 (why the ".par2" side condition): "out.par2/" resolves to the same path as "out.par2",
   but its extension is empty (Go: filepath.Ext("out.par2/") = ""), so that run is refused *)
Example cp4_trailing_slash_corner :
  let cwd := bs "/w" in let par1 := bs "out.par2" in let par2 := bs "out.par2/" in let files := [bs "a"] in
  abs_path cwd par1 = abs_path cwd par2 /\
  map (abs_path cwd) files = map (abs_path cwd) files /\
  fst (par2_create toy_md5 cwd par1 files {| cp_slice := 4; cp_parity := 2 |} (io_init [] [])) = Err ENotExist /\
  fst (par2_create toy_md5 cwd par2 files {| cp_slice := 4; cp_parity := 2 |} (io_init [] [])) = Err EUsage.
Proof. vm_compute. repeat split; reflexivity. Qed.

(* COUNTEREXAMPLE 2 (why the resolved parPath must be absolute): with relative "current directories" the
   read targets are relative too, and resolve differently from the two directories *)
Example cp4_relative_cwd_corner :
  let cwd1 := bs "x" in let par1 := bs "o.par2" in let files1 := [bs "a"] in
  let cwd2 := bs "" in let par2 := bs "x/o.par2" in let files2 := [bs "x/a"] in
  let p := {| cp_slice := 4; cp_parity := 2 |} in
  let r1 := par2_create toy_md5 cwd1 par1 files1 p (io_init [] []) in
  let r2 := par2_create toy_md5 cwd2 par2 files2 p (io_init [] []) in
  str_eqb (ext par1) EXT_PAR2 = str_eqb (ext par2) EXT_PAR2 /\
  abs_path cwd1 par1 = abs_path cwd2 par2 /\
  map (abs_path cwd1) files1 = map (abs_path cwd2) files2 /\
  map (resolve_event cwd1) (io_trace (snd r1)) = [EvRead (bs "x/x/a") false] /\
  map (resolve_event cwd2) (io_trace (snd r2)) = [EvRead (bs "x/a") false].
Proof. vm_compute. repeat split; reflexivity. Qed.

Print Assumptions create_write_targets.
Print Assumptions create_inputs_untouched.
Print Assumptions create_read_targets.
Print Assumptions create_cwd_spelling_invariant.
Print Assumptions create_cwd_spelling_invariant_plain.
Print Assumptions abs_path_strip_ext.
Print Assumptions ext_agree.
Print Assumptions ext_par2_transfers.
Print Assumptions cp4_premises.
Print Assumptions cp4_run.
Print Assumptions cp4_trailing_slash_corner.
Print Assumptions cp4_relative_cwd_corner.
