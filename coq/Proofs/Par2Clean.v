(* The "complete" direction of PAR2 Verify (Model/Par2.v): a set whose protected files are
   all present with content consistent with the recorded length, hashes and slice checksums
   (and whose file ids are pairwise distinct) verifies clean: no unusable slice, no misplaced
   file, no repair needed. *)
From Coq Require Import Lia.
From Gopar Require Import Model.Base Model.CRC Model.GoPath Model.FS Model.Par2
     Proofs.CRCFacts Proofs.ScanFacts Proofs.Par2Facts Proofs.Par2Verify Proofs.Par2Faults.
Open Scope nat_scope.
Set Default Timeout 120.

(** * list helpers *)

Lemma nth_upd_nth_cases {A} (f : A -> A) d i j l :
  nth j (upd_nth i f l) d = nth j l d \/ nth j (upd_nth i f l) d = f (nth j l d).
Proof.
  destruct (Nat.eq_dec j i) as [->|Hne].
  - destruct (lt_dec i (length l)) as [Hlt|Hge].
    + right. apply nth_upd_nth_same. exact Hlt.
    + left. rewrite !nth_overflow; [reflexivity|lia|rewrite upd_nth_length; lia].
  - left. apply nth_upd_nth_other. exact Hne.
Qed.

Lemma map_upd_nth_comm {A B} (g : A -> B) (f : A -> A) (f' : B -> B) :
  (forall x, g (f x) = f' (g x)) -> forall i l, map g (upd_nth i f l) = upd_nth i f' (map g l).
Proof.
  intros H. induction i as [|i IH]; intros [|x l].
  - reflexivity.
  - rewrite upd_nth_0. cbn [map]. rewrite upd_nth_0, H. reflexivity.
  - rewrite upd_nth_nil. cbn [map]. rewrite upd_nth_nil. reflexivity.
  - rewrite upd_nth_S. cbn [map]. rewrite upd_nth_S, IH. reflexivity.
Qed.

Lemma in_combine_seq_nth {A} (d : A) : forall (l : list A) a k,
  k < length l -> In (a + k, nth k l d) (combine (seq a (length l)) l).
Proof.
  induction l as [|x l IH]; intros a k Hk; cbn [length] in Hk; [lia|].
  cbn [length seq combine]. destruct k as [|k].
  - left. rewrite Nat.add_0_r. reflexivity.
  - right. cbn [nth]. replace (a + S k) with (S a + k) by lia. apply IH. lia.
Qed.

Lemma in_combine_seq_inv {A} (d : A) : forall (l : list A) a j x,
  In (j, x) (combine (seq a (length l)) l) -> exists k, j = a + k /\ k < length l /\ nth k l d = x.
Proof.
  induction l as [|y l IH]; intros a j x Hin; cbn [length seq combine] in Hin; [destruct Hin|].
  destruct Hin as [Heq|Hin].
  - injection Heq as <- <-. exists 0. cbn [length nth]. split; [lia|split; [lia|reflexivity]].
  - destruct (IH _ _ _ Hin) as (k & -> & Hk & Hn). exists (S k). cbn [length nth].
    split; [lia|split; [lia|exact Hn]].
Qed.

Lemma count_nones_all_some {A} : forall l : list (option A),
  (forall k, k < length l -> nth k l None <> None) -> count_nones l = 0.
Proof.
  unfold count_nones. induction l as [|[x|] l IH]; intros H.
  - reflexivity.
  - cbn [filter]. apply IH. intros k Hk. apply (H (S k)). cbn [length]. lia.
  - exfalso. apply (H 0); [cbn [length]; lia|reflexivity].
Qed.

Lemma count_nones_flat (fis : list fint) :
  Forall (fun fi => count_nones (fi_shards fi) = 0) fis -> count_nones (flat_map fi_shards fis) = 0.
Proof.
  induction fis as [|fi fis IH]; intros H; [reflexivity|].
  inversion H as [|? ? H1 H2]; subst. cbn [flat_map]. rewrite count_nones_app, H1, IH by exact H2. reflexivity.
Qed.

Lemma filter_all_ok : forall (oks : list bool) (l : list fint),
  Forall (fun b => b = true) oks ->
  filter (fun okfi : bool * fint => negb (fst okfi) && Nat.eqb (count_nones (fi_shards (snd okfi))) 0)
         (combine oks l) = [].
Proof.
  induction oks as [|b oks IH]; intros l H; [reflexivity|].
  destruct l as [|fi l]; [reflexivity|].
  inversion H as [|? ? Hb Hr]; subst. cbn [combine filter fst snd negb andb]. apply IH. exact Hr.
Qed.

(** * the zero-padded slices of a file are its windows at the multiples of the slice size *)

Lemma ceil_step sz len : 0 < sz -> 0 < len -> (len + sz - 1) / sz = S ((len - sz + sz - 1) / sz).
Proof.
  intros Hs Hl.
  assert (E : forall a b, (forall k, k < a <-> k < b) -> a = b).
  { intros a b H. pose proof (H a). pose proof (H b). lia. }
  apply E. intros k. pose proof (ceil_spec sz len k Hs) as C1.
  destruct k as [|k].
  - cbn [Nat.mul] in C1. lia.
  - pose proof (ceil_spec sz (len - sz) k Hs) as C2. cbn [Nat.mul] in C1. lia.
Qed.

Lemma chunks_windows sz : 0 < sz -> forall fuel b, length b <= fuel ->
  map (fun c => c ++ zeros (sz - length c)) (chunks_of sz fuel b) =
  map (fun k => take_pad sz (skipn (k * sz) b)) (seq 0 ((length b + sz - 1) / sz)).
Proof.
  intros Hs. induction fuel as [|f IH]; intros b Hb.
  - destruct b; [|cbn [length] in Hb; lia]. cbn [chunks_of length map].
    rewrite Nat.div_small by lia. reflexivity.
  - destruct b as [|x b'].
    + cbn [chunks_of length map]. rewrite Nat.div_small by lia. reflexivity.
    + cbn [chunks_of]. set (b := x :: b') in *.
      assert (Hpos : 0 < length b) by (unfold b; cbn [length]; lia).
      rewrite (ceil_step sz (length b) Hs Hpos). cbn [seq map].
      f_equal.
      * rewrite IH by (rewrite skipn_length; lia). rewrite skipn_length.
        rewrite <- seq_shift, map_map. apply map_ext. intros k.
        rewrite skipn_skipn_add. cbn [Nat.mul]. reflexivity.
Qed.

Lemma slices_of_windows sz data : 0 < sz ->
  slices_of sz data = map (fun k => take_pad sz (skipn (k * sz) data)) (seq 0 ((length data + sz - 1) / sz)).
Proof. intros Hs. unfold slices_of, chunk_bytes. apply chunks_windows; [exact Hs|lia]. Qed.

(** * the checksum table: every registered pair is found, with its location *)

Definition registered (t : cstable) (c : N) (h : bytes) (l : location) : Prop :=
  crc_present t c = true /\ In l (cs_lookup_key t c h).

Lemma crc_present_put t c h loc : crc_present (cs_put t c h loc) c = true.
Proof.
  unfold crc_present. induction t as [|[[c' m] locs] t IH]; cbn [cs_put existsb fst].
  - rewrite N.eqb_refl. reflexivity.
  - destruct ((c' =? c)%N && bytes_eqb m h) eqn:E; cbn [existsb fst].
    + apply andb_true_iff in E. destruct E as [E _]. rewrite E. reflexivity.
    + rewrite IH. apply orb_true_r.
Qed.

Lemma crc_present_put_mono t c h loc c2 :
  crc_present t c2 = true -> crc_present (cs_put t c h loc) c2 = true.
Proof.
  unfold crc_present. induction t as [|[[c' m] locs] t IH]; cbn [cs_put existsb fst]; intros H.
  - discriminate H.
  - destruct ((c' =? c)%N && bytes_eqb m h); cbn [existsb fst].
    + exact H.
    + apply orb_true_iff in H. apply orb_true_iff.
      destruct H as [H|H]; [left; exact H|right; apply IH; exact H].
Qed.

Lemma lookup_put_same t c h loc : cs_lookup_key (cs_put t c h loc) c h = cs_lookup_key t c h ++ [loc].
Proof.
  induction t as [|[[c' m] locs] t IH]; cbn [cs_put cs_lookup_key].
  - rewrite N.eqb_refl, bytes_eqb_refl. reflexivity.
  - destruct ((c' =? c)%N && bytes_eqb m h) eqn:E; cbn [cs_lookup_key]; rewrite E; [reflexivity|exact IH].
Qed.

Lemma lookup_put_mono t c h loc c2 h2 l :
  In l (cs_lookup_key t c2 h2) -> In l (cs_lookup_key (cs_put t c h loc) c2 h2).
Proof.
  induction t as [|[[c' m] locs] t IH]; cbn [cs_put cs_lookup_key]; intros H.
  - destruct H.
  - destruct ((c' =? c)%N && bytes_eqb m h); cbn [cs_lookup_key];
      destruct ((c' =? c2)%N && bytes_eqb m h2).
    + apply in_or_app. left. exact H.
    + exact H.
    + exact H.
    + apply IH. exact H.
Qed.

Lemma registered_put_same t c h loc : registered (cs_put t c h loc) c h loc.
Proof.
  split; [apply crc_present_put|]. rewrite lookup_put_same. apply in_or_app. right. left. reflexivity.
Qed.

Lemma registered_put_mono t c h loc c2 h2 l :
  registered t c2 h2 l -> registered (cs_put t c h loc) c2 h2 l.
Proof.
  intros [H1 H2]. split; [apply crc_present_put_mono; exact H1|apply lookup_put_mono; exact H2].
Qed.

Lemma reg_inner (r : nat) c h l : forall (kps : list (nat * (bytes * N))) t,
  (registered t c h l \/ exists k p, In (k, p) kps /\ snd p = c /\ fst p = h /\ l = (r, k)) ->
  registered (fold_left (fun t (kp : nat * (bytes * N)) => cs_put t (snd (snd kp)) (fst (snd kp)) (r, fst kp)) kps t)
             c h l.
Proof.
  induction kps as [|[k0 p0] kps IH]; intros t H; cbn [fold_left].
  - destruct H as [H|(k & p & [] & _)]. exact H.
  - apply IH. cbn [fst snd]. destruct H as [H|(k & p & [Heq|Hin] & Hc & Hh & Hl)].
    + left. apply registered_put_mono. exact H.
    + left. injection Heq as -> ->. subst c h l. apply registered_put_same.
    + right. exists k, p. repeat split; assumption.
Qed.

Lemma reg_outer (all : list dinfo) c h l : forall (iis : list (nat * dinfo)) t,
  (registered t c h l \/
   exists i info k p, In (i, info) iis /\
     In (k, p) (combine (seq 0 (length (di_pairs info))) (di_pairs info)) /\
     snd p = c /\ fst p = h /\ l = (last_index all (di_id info), k)) ->
  registered
    (fold_left (fun t (ii : nat * dinfo) =>
                  fold_left (fun t (kp : nat * (bytes * N)) =>
                               cs_put t (snd (snd kp)) (fst (snd kp)) (last_index all (di_id (snd ii)), fst kp))
                            (combine (seq 0 (length (di_pairs (snd ii)))) (di_pairs (snd ii))) t)
               iis t) c h l.
Proof.
  induction iis as [|[i0 info0] iis IH]; intros t H; cbn [fold_left].
  - destruct H as [H|(i & info & k & p & [] & _)]. exact H.
  - apply IH. cbn [fst snd]. destruct H as [H|(i & info & k & p & [Heq|Hin] & Hkp & Hc & Hh & Hl)].
    + left. apply reg_inner. left. exact H.
    + left. injection Heq as -> ->. apply reg_inner. right. exists k, p. repeat split; assumption.
    + right. exists i, info, k, p. repeat split; assumption.
Qed.

Lemma make_cstable_registered (infos : list dinfo) i info k p :
  In (i, info) (combine (seq 0 (length infos)) infos) ->
  In (k, p) (combine (seq 0 (length (di_pairs info))) (di_pairs info)) ->
  registered (make_cstable infos) (snd p) (fst p) (last_index infos (di_id info), k).
Proof.
  intros Hi Hk. unfold make_cstable. apply reg_outer. right. exists i, info, k, p.
  repeat split; assumption.
Qed.

(** * with distinct ids an info resolves to its own index *)

Lemma last_index_go_none : forall (l : list dinfo) id a acc,
  ~ In id (map di_id l) -> last_index_go l id a acc = acc.
Proof.
  induction l as [|x l IH]; intros id a acc Hni; cbn [last_index_go]; [reflexivity|].
  cbn [map In] in Hni. rewrite IH by (intros Hin; apply Hni; right; exact Hin).
  destruct (bytes_eqb (di_id x) id) eqn:E; [|reflexivity].
  exfalso. apply Hni. left. apply bytes_eqb_eq. exact E.
Qed.

Lemma last_index_go_nodup : forall (l : list dinfo) a acc i info,
  NoDup (map di_id l) -> In (i, info) (combine (seq a (length l)) l) ->
  last_index_go l (di_id info) a acc = Some i.
Proof.
  induction l as [|x l IH]; intros a acc i info Hnd Hin; cbn [length seq combine] in Hin; [destruct Hin|].
  cbn [map] in Hnd. apply NoDup_cons_iff in Hnd. destruct Hnd as [Hni Hnd].
  cbn [last_index_go]. destruct Hin as [Heq|Hin].
  - injection Heq as <- <-. rewrite bytes_eqb_refl. apply last_index_go_none. exact Hni.
  - apply IH; assumption.
Qed.

Lemma last_index_nodup (infos : list dinfo) i info :
  NoDup (map di_id infos) -> In (i, info) (combine (seq 0 (length infos)) infos) ->
  last_index infos (di_id info) = i.
Proof.
  intros Hnd Hin. unfold last_index. rewrite (last_index_go_nodup infos 0 None i info Hnd Hin). reflexivity.
Qed.

(** * shard tables as plain nested lists *)

Definition shtab := list (list (option sinfo)).
Definition shs (fis : list fint) : shtab := map fi_shards fis.
Definition get2 (sh : shtab) (i k : nat) : option sinfo := nth k (nth i sh []) None.
Definition upd2 (i k : nat) (g : option sinfo -> option sinfo) (sh : shtab) : shtab := upd_nth i (upd_nth k g) sh.
Definition lens (sh : shtab) : list nat := map (@length (option sinfo)) sh.

Lemma get2_shs fis i k : get2 (shs fis) i k = nth k (fi_shards (nth i fis dfi)) None.
Proof. unfold get2, shs. rewrite <- (map_nth fi_shards fis dfi i). reflexivity. Qed.

Lemma lens_shs fis : lens (shs fis) = map shlen fis.
Proof. unfold lens, shs. rewrite map_map. reflexivity. Qed.

Lemma lens_nth sh i : nth i (lens sh) 0 = length (nth i sh []).
Proof. unfold lens. change 0 with (length (@nil (option sinfo))). apply map_nth. Qed.

Lemma lens_upd2 i k g sh : lens (upd2 i k g sh) = lens sh.
Proof. unfold lens, upd2. apply map_upd_nth_inv. intros x. apply upd_nth_length. Qed.

Lemma get2_upd2_cases i' k' g sh i k :
  get2 (upd2 i' k' g sh) i k = get2 sh i k \/ get2 (upd2 i' k' g sh) i k = g (get2 sh i k).
Proof.
  unfold get2, upd2.
  destruct (nth_upd_nth_cases (upd_nth k' g) [] i' i sh) as [E|E]; rewrite E.
  - left. reflexivity.
  - apply nth_upd_nth_cases.
Qed.

Lemma get2_upd2_same i k g sh : i < length sh -> k < nth i (lens sh) 0 ->
  get2 (upd2 i k g sh) i k = g (get2 sh i k).
Proof.
  intros Hi Hk. rewrite lens_nth in Hk. unfold get2, upd2.
  rewrite nth_upd_nth_same by exact Hi. apply nth_upd_nth_same. exact Hk.
Qed.

(* what crediting does to one shard *)
Definition cf (cur : nat) (h : hit) (so : option sinfo) : option sinfo :=
  match so with
  | None => Some {| si_data := h_data h; si_locs := [(cur, h_pos h)] |}
  | Some s => Some {| si_data := si_data s; si_locs := si_locs s ++ [(cur, h_pos h)] |}
  end.

Definition credit_sh (cur : nat) (h : hit) (sh : shtab) : shtab :=
  fold_left (fun sh (loc : nat * nat) => upd2 (fst loc) (snd loc) (cf cur h) sh) (h_locs h) sh.

Lemma shs_credit cur h fis : shs (credit cur h fis) = credit_sh cur h (shs fis).
Proof.
  unfold credit, credit_sh. generalize (h_locs h). intros locs. revert fis.
  induction locs as [|loc locs IH]; intros fis; cbn [fold_left]; [reflexivity|].
  rewrite IH. f_equal. unfold shs, upd2. apply map_upd_nth_comm. intros x. reflexivity.
Qed.

Lemma shs_credits cur : forall hits fis,
  shs (fold_left (fun fis h => credit cur h fis) hits fis) =
  fold_left (fun sh h => credit_sh cur h sh) hits (shs fis).
Proof.
  induction hits as [|h hits IH]; intros fis; cbn [fold_left]; [reflexivity|].
  rewrite IH, shs_credit. reflexivity.
Qed.

Lemma shs_set_flags i a b c fis : shs (set_flags i a b c fis) = shs fis.
Proof. unfold shs, set_flags. apply map_upd_nth_inv. intros x. reflexivity. Qed.

(* shard k of file i is found, and l is among the places it was seen at *)
Definition PS (sh : shtab) (i k : nat) (l : nat * nat) : Prop :=
  exists s, get2 sh i k = Some s /\ In l (si_locs s).

Lemma PS_upd2_mono cur h i' k' sh i k l : PS sh i k l -> PS (upd2 i' k' (cf cur h) sh) i k l.
Proof.
  intros (s & Hs & Hl). unfold PS.
  destruct (get2_upd2_cases i' k' (cf cur h) sh i k) as [E|E]; rewrite E, Hs.
  - exists s. split; [reflexivity|exact Hl].
  - cbn [cf]. eexists. split; [reflexivity|]. cbn [si_locs]. apply in_or_app. left. exact Hl.
Qed.

Lemma PS_upd2_est cur h sh i k : i < length sh -> k < nth i (lens sh) 0 ->
  PS (upd2 i k (cf cur h) sh) i k (cur, h_pos h).
Proof.
  intros Hi Hk. unfold PS. rewrite get2_upd2_same by assumption.
  destruct (get2 sh i k) as [s|]; cbn [cf]; eexists; (split; [reflexivity|]); cbn [si_locs].
  - apply in_or_app. right. left. reflexivity.
  - left. reflexivity.
Qed.

Lemma lens_credit_sh cur h sh : lens (credit_sh cur h sh) = lens sh.
Proof.
  unfold credit_sh. generalize (h_locs h). intros locs. revert sh.
  induction locs as [|loc locs IH]; intros sh; cbn [fold_left]; [reflexivity|].
  rewrite IH. apply lens_upd2.
Qed.

Lemma lens_length sh sh' : lens sh' = lens sh -> length sh' = length sh.
Proof. intros H. apply (f_equal (@length nat)) in H. unfold lens in H. rewrite !map_length in H. exact H. Qed.

Lemma PS_credit_mono cur h sh i k l : PS sh i k l -> PS (credit_sh cur h sh) i k l.
Proof.
  unfold credit_sh. generalize (h_locs h). intros locs. revert sh.
  induction locs as [|loc locs IH]; intros sh H; cbn [fold_left]; [exact H|].
  apply IH. apply PS_upd2_mono. exact H.
Qed.

Lemma PS_credit_est cur h sh i k : i < length sh -> k < nth i (lens sh) 0 -> In (i, k) (h_locs h) ->
  PS (credit_sh cur h sh) i k (cur, h_pos h).
Proof.
  unfold credit_sh. generalize (h_locs h). intros locs. revert sh.
  induction locs as [|loc locs IH]; intros sh Hi Hk Hin; cbn [fold_left]; [destruct Hin|].
  destruct Hin as [->|Hin].
  - cbn [fst snd]. fold (credit_sh cur {| h_pos := h_pos h; h_locs := locs; h_data := h_data h |}
                                   (upd2 i k (cf cur h) sh)).
    apply (PS_credit_mono cur {| h_pos := h_pos h; h_locs := locs; h_data := h_data h |}).
    apply PS_upd2_est; assumption.
  - apply IH; [| |exact Hin].
    + rewrite (lens_length sh _) by apply lens_upd2. exact Hi.
    + rewrite lens_upd2. exact Hk.
Qed.

Lemma lens_credits cur : forall hits sh, lens (fold_left (fun sh h => credit_sh cur h sh) hits sh) = lens sh.
Proof.
  induction hits as [|h hits IH]; intros sh; cbn [fold_left]; [reflexivity|].
  rewrite IH. apply lens_credit_sh.
Qed.

Lemma PS_credits_mono cur i k l : forall hits sh,
  PS sh i k l -> PS (fold_left (fun sh h => credit_sh cur h sh) hits sh) i k l.
Proof.
  induction hits as [|h hits IH]; intros sh H; cbn [fold_left]; [exact H|].
  apply IH. apply PS_credit_mono. exact H.
Qed.

Lemma PS_credits_est cur i k h : forall hits sh,
  i < length sh -> k < nth i (lens sh) 0 -> In h hits -> In (i, k) (h_locs h) ->
  PS (fold_left (fun sh h => credit_sh cur h sh) hits sh) i k (cur, h_pos h).
Proof.
  induction hits as [|h0 hits IH]; intros sh Hi Hk Hin Hloc; cbn [fold_left]; [destruct Hin|].
  destruct Hin as [->|Hin].
  - apply PS_credits_mono. apply PS_credit_est; assumption.
  - apply IH; [| |exact Hin|exact Hloc].
    + rewrite (lens_length sh _) by apply lens_credit_sh. exact Hi.
    + rewrite lens_credit_sh. exact Hk.
Qed.

Lemma lens_shs_nth fis i : nth i (lens (shs fis)) 0 = length (fi_shards (nth i fis dfi)).
Proof. rewrite lens_shs. exact (map_nth shlen fis dfi i). Qed.

Definition dinfo0 : dinfo :=
  {| di_id := []; di_name := []; di_len := 0%N; di_h16 := []; di_hash := []; di_pairs := [] |}.

Lemma io_read_some p st data : io_sched st = [] -> fs_lookup (io_fs st) p = Some data ->
  exists st1, io_read p st = (Ok data, st1) /\ io_sched st1 = [] /\ io_fs st1 = io_fs st.
Proof.
  intros Hs Hl. unfold io_read. rewrite Hs. cbn [sched_lookup]. rewrite Hl.
  eexists. split; [reflexivity|]. cbn [tick io_sched io_fs]. split; [exact Hs|reflexivity].
Qed.

Lemma bounds_of (infos : list dinfo) fis i info :
  map shlen fis = map (fun info => length (di_pairs info)) infos ->
  In (i, info) (combine (seq 0 (length infos)) infos) ->
  i < length fis /\ length (fi_shards (nth i fis dfi)) = length (di_pairs info).
Proof.
  intros Hsh Hin. destruct (in_combine_seq_inv dinfo0 _ _ _ _ Hin) as (k & -> & Hk & Hn). cbn [Nat.add].
  split.
  - apply (f_equal (@length nat)) in Hsh. rewrite !map_length in Hsh. lia.
  - rewrite <- Hn.
    transitivity (nth k (map shlen fis) 0); [symmetry; exact (map_nth shlen fis dfi k)|].
    rewrite Hsh. exact (map_nth (fun info => length (di_pairs info)) infos dinfo0 k).
Qed.

Section Par2Clean.
  Variable md5 : bytes -> bytes.

  (* the zero-padded slices of a file's content *)
  Definition file_slices (S : nat) (data : bytes) : list bytes := slices_of S data.

  (* the checksum list of the zero-padded slices of [data] *)
  Definition pairs_of (S : nat) (data : bytes) : list (bytes * N) :=
    map (fun s => (md5 s, crc32 s)) (slices_of S data).

  Lemma registered_get t s l : registered t (crc32 s) (md5 s) l -> In l (cs_get md5 t (crc32 s) s).
  Proof. intros [H1 H2]. unfold cs_get. rewrite H1. exact H2. Qed.

  (** ** the scan of an intact file: hit k is at k*S and carries the location (i, k) *)
  Lemma file_hits (infos : list dinfo) sz w i info data :
    4 <= sz -> win_new (Z.of_nat sz) = Ok w -> wf_bytes data -> NoDup (map di_id infos) ->
    In (i, info) (combine (seq 0 (length infos)) infos) -> di_pairs info = pairs_of sz data ->
    forall k, k < length (di_pairs info) ->
      exists h, In h (fst (scan md5 sz w (make_cstable infos) data)) /\ h_pos h = k * sz /\ In (i, k) (h_locs h).
  Proof.
    intros Hsz Hw Hwf Hnd Hin Hp.
    set (t := make_cstable infos). set (n := (length data + sz - 1) / sz).
    set (win := fun k => take_pad sz (skipn (k * sz) data)).
    assert (Hpairs : di_pairs info = map (fun k => (md5 (win k), crc32 (win k))) (seq 0 n)).
    { rewrite Hp. unfold pairs_of. rewrite slices_of_windows by lia. rewrite map_map. reflexivity. }
    assert (Hlen : length (di_pairs info) = n) by (rewrite Hpairs, map_length, seq_length; reflexivity).
    assert (Hreg : forall k, k < n -> In (i, k) (cs_get md5 t (crc32 (win k)) (win k))).
    { intros k Hk. apply registered_get.
      assert (Hkp : In (k, (md5 (win k), crc32 (win k)))
                       (combine (seq 0 (length (di_pairs info))) (di_pairs info))).
      { pose proof (in_combine_seq_nth (md5 (win 0), crc32 (win 0)) (di_pairs info) 0 k ltac:(lia)) as Hc.
        cbn [Nat.add] in Hc. replace (nth k (di_pairs info) (md5 (win 0), crc32 (win 0)))
          with (md5 (win k), crc32 (win k)) in Hc; [exact Hc|].
        rewrite Hpairs. rewrite (map_nth (fun k => (md5 (win k), crc32 (win k))) (seq 0 n) 0 k).
        rewrite seq_nth by exact Hk. reflexivity. }
      pose proof (make_cstable_registered infos i info k (md5 (win k), crc32 (win k)) Hin Hkp) as R.
      cbn [fst snd] in R. rewrite (last_index_nodup infos i info Hnd Hin) in R. exact R. }
    rewrite (scan_eq_spec md5 sz w t data Hsz Hw Hwf).
    assert (Hm : forall k, k * sz < length data -> matches md5 t (window_at sz data (k * sz))).
    { intros k Hk. unfold matches, window_at. intros E.
      assert (Hkn : k < n) by (apply (proj1 (ceil_spec sz (length data) k ltac:(lia))); exact Hk).
      pose proof (Hreg k Hkn) as R. unfold win in R. rewrite E in R. destruct R. }
    destruct (scan_intact md5 sz t data ltac:(lia) Hm) as [_ Hpos].
    intros k Hk. rewrite Hlen in Hk.
    assert (Hin2 : In (k * sz) (map h_pos (fst (scan_spec md5 sz t data)))).
    { rewrite Hpos. apply in_map_iff. exists k. split; [reflexivity|]. apply in_seq. fold n. lia. }
    apply in_map_iff in Hin2. destruct Hin2 as (h & Hh & Hhin).
    exists h. split; [exact Hhin|]. split; [exact Hh|].
    destruct (scan_sound md5 sz t data h Hhin) as (_ & Hd & Hl & _).
    rewrite Hl, Hd, Hh. exact (Hreg k Hk).
  Qed.

  Definition intact_info (fs : list (list N * bytes)) (ix : list N) (sz : nat) (info : dinfo) : Prop :=
    exists data, fs_lookup fs (file_path ix (di_name info)) = Some data /\ wf_bytes data /\
      N.of_nat (length data) = di_len info /\ md5 data = di_hash info /\ hash16k md5 data = di_h16 info /\
      di_pairs info = pairs_of sz data.

  Definition P (fis : list fint) : nat -> nat -> nat * nat -> Prop := PS (shs fis).

  (** ** the loading invariant *)
  Lemma load_files_clean fs d w (infos : list dinfo) sz :
    sz = N.to_nat (d_slice d) -> 4 <= sz -> win_new (Z.of_nat sz) = Ok w ->
    NoDup (map di_id infos) ->
    (forall info, In info infos -> intact_info fs (d_index d) sz info) ->
    forall todo fis st fis' st',
      io_sched st = [] -> io_fs st = fs -> NoDup (map fst todo) ->
      (forall i info, In (i, info) todo -> In (i, info) (combine (seq 0 (length infos)) infos)) ->
      map shlen fis = map (fun info => length (di_pairs info)) infos ->
      load_files md5 d w (make_cstable infos) todo fis st = (Ok fis', st') ->
      (forall i k l, P fis i k l -> P fis' i k l) /\
      (forall j, ~ In j (map fst todo) -> flags3 (nth j fis' dfi) = flags3 (nth j fis dfi)) /\
      (forall i info, In (i, info) todo ->
         flags3 (nth i fis' dfi) = (false, false, false) /\
         forall k, k < length (di_pairs info) -> P fis' i k (i, k * sz)).
  Proof.
    intros Esz Hsz Hw Hnd Hint.
    induction todo as [|[i info] r IH]; intros fis st fis' st' Hs Hf Hndt Hsub Hshape H; cbn [load_files] in H.
    - injection H as <- _. split; [intros; assumption|]. split; [reflexivity|intros i info []].
    - cbn [map fst] in Hndt. apply NoDup_cons_iff in Hndt. destruct Hndt as [Hni Hndr].
      assert (Hfull : In (i, info) (combine (seq 0 (length infos)) infos)) by (apply Hsub; left; reflexivity).
      destruct (Hint info (in_combine_r _ _ _ _ Hfull)) as (data & Hlk & Hwf & Hlen & Hmd & H16 & Hp).
      rewrite <- Hf in Hlk.
      destruct (io_read_some _ st data Hs Hlk) as (st1 & ER & Hs1 & Hf1).
      rewrite ER in H. cbv beta iota zeta in H.
      assert (Ehb : negb (bytes_eqb (hash16k md5 data) (di_h16 info)) || negb (bytes_eqb (md5 data) (di_hash info)) = false).
      { rewrite <- H16, <- Hmd, !bytes_eqb_refl. reflexivity. }
      assert (Elb : negb (N.of_nat (length data) =? di_len info)%N = false).
      { rewrite Hlen, N.eqb_refl. reflexivity. }
      rewrite Ehb, Elb in H. rewrite <- Esz in H.
      set (hits := fst (scan md5 sz w (make_cstable infos) data)) in *.
      set (fisc := fold_left (fun fis h => credit i h fis) hits fis) in *.
      assert (Hshc : map shlen fisc = map shlen fis) by (apply credits_map; exact shlen_credit_inv).
      assert (Hfl3 : map flags3 fisc = map flags3 fis) by (apply credits_map; exact flags3_credit_inv).
      destruct (bounds_of infos fis i info Hshape Hfull) as [Bi Bk].
      apply IH in H; [|exact Hs1|congruence|exact Hndr| |].
      2:{ intros i' info' Hin. apply Hsub. right. exact Hin. }
      2:{ rewrite set_flags_shlen, Hshc. exact Hshape. }
      destruct H as (A & B & C).
      assert (Pc : forall i' k l, P fisc i' k l -> P fis' i' k l).
      { intros i' k l Hp'. apply A. unfold P. rewrite shs_set_flags. exact Hp'. }
      split; [|split].
      + intros i' k l Hp'. apply Pc. unfold P, fisc. rewrite shs_credits. apply PS_credits_mono. exact Hp'.
      + intros j Hj. cbn [map fst In] in Hj.
        assert (Hji : j <> i) by (intros ->; apply Hj; left; reflexivity).
        rewrite B by (intros Hin; apply Hj; right; exact Hin).
        unfold set_flags. rewrite nth_upd_nth_other by exact Hji.
        rewrite <- !(map_nth flags3). rewrite Hfl3. reflexivity.
      + intros i' info' [Heq|Hin].
        * injection Heq as <- <-. split.
          -- rewrite B by exact Hni. unfold set_flags. rewrite nth_upd_nth_same; [reflexivity|].
             apply (f_equal (@length nat)) in Hshc. rewrite !map_length in Hshc. lia.
          -- intros k Hk. apply Pc. unfold P, fisc. rewrite shs_credits.
             destruct (file_hits infos sz w i info data Hsz Hw Hwf Hnd Hfull Hp k Hk) as (h & Hh & Hpos & Hloc).
             rewrite <- Hpos. apply PS_credits_est with (h := h).
             ++ unfold shs. rewrite map_length. exact Bi.
             ++ rewrite lens_shs_nth, Bk. exact Hk.
             ++ exact Hh.
             ++ exact Hloc.
        * apply C. exact Hin.
  Qed.

  (** * MAIN THEOREM: intact files verify clean *)
  Theorem intact_files_clean : forall ix fs ds st1,
    load_all md5 ix (io_init fs []) = (Ok ds, st1) ->
    NoDup (map di_id (d_rec (ds_dec ds))) ->
    (forall info, In info (d_rec (ds_dec ds)) ->
       exists data, fs_lookup fs (file_path ix (di_name info)) = Some data /\ wf_bytes data /\
         N.of_nat (length data) = di_len info /\ md5 data = di_hash info /\ hash16k md5 data = di_h16 info /\
         di_pairs info = pairs_of (N.to_nat (d_slice (ds_dec ds))) data) ->
    c_unusable (shard_counts ds) = 0%nat /\ c_misplaced (shard_counts ds) = 0%nat /\
    repair_needed (shard_counts ds) = false.
  Proof.
    intros ix fs ds st1 HL Hnd Hint.
    destruct (load_all_shape md5 _ _ _ _ HL) as (H4 & _ & _ & Hsh & Hok & _).
    destruct (load_all_inv md5 _ _ _ _ HL) as (d & s1 & w & fis & s2 & acc & Hdec & Hw & Hlf & ->).
    cbn [ds_dec ds_fis] in *.
    destruct (new_decoder_ok md5 _ _ _ _ Hdec) as [Hix _].
    pose proof (new_decoder_pres md5 ix (io_init fs [])) as Pr. rewrite Hdec in Pr. cbn [snd] in Pr.
    destruct Pr as (Pf & Ps & _). cbn [io_init io_fs io_sched] in Pf, Ps.
    set (infos := d_rec d) in *. set (sz := N.to_nat (d_slice d)) in *.
    assert (Hsz : 4 <= sz) by (unfold sz; lia).
    assert (Hw' : win_new (Z.of_nat sz) = Ok w) by (unfold sz; rewrite N_nat_Z; exact Hw).
    assert (Hsh0 : map shlen (fis0 d) = map (fun info => length (di_pairs info)) infos).
    { unfold fis0. rewrite map_map. apply map_ext. intros info. unfold shlen. cbn [fi_shards]. apply map_length. }
    assert (Hint' : forall info, In info infos -> intact_info fs (d_index d) sz info).
    { intros info Hin. rewrite Hix. exact (Hint info Hin). }
    assert (HndT : NoDup (map fst (combine (seq 0 (length infos)) infos))).
    { rewrite map_fst_combine by apply seq_length. apply seq_NoDup. }
    pose proof (load_files_clean fs d w infos sz eq_refl Hsz Hw' Hnd Hint' _ _ _ _ _ Ps Pf HndT
                  (fun i info H => H) Hsh0 Hlf) as (_ & _ & C).
    assert (Key : forall i, i < length fis ->
              flags3 (nth i fis dfi) = (false, false, false) /\
              (forall k, k < length (fi_shards (nth i fis dfi)) ->
                 exists s, nth k (fi_shards (nth i fis dfi)) None = Some s /\ In (i, k * sz) (si_locs s)) /\
              last_index infos (di_id (nth i infos dinfo0)) = i).
    { intros i Hi.
      assert (Hlenf : length fis = length infos).
      { pose proof Hsh as E. apply (f_equal (@length nat)) in E. rewrite !map_length in E. exact E. }
      pose proof (in_combine_seq_nth dinfo0 infos 0 i ltac:(lia)) as Hin. cbn [Nat.add] in Hin.
      destruct (C _ _ Hin) as [Cf Cp]. destruct (bounds_of infos fis i _ Hsh Hin) as [_ Bk].
      split; [exact Cf|split].
      - intros k Hk. rewrite Bk in Hk. destruct (Cp k Hk) as (s & Es & Hl).
        rewrite get2_shs in Es. exists s. split; [exact Es|exact Hl].
      - apply last_index_nodup; assumption. }
    assert (U : count_nones (flat_map fi_shards fis) = 0).
    { apply count_nones_flat. apply Forall_forall. intros fi Hfi.
      destruct (In_nth _ _ dfi Hfi) as (i & Hi & <-). apply count_nones_all_some. intros k Hk.
      destruct (Key i Hi) as (_ & Ks & _). destruct (Ks k Hk) as (s & -> & _). discriminate. }
    assert (M : c_misplaced (shard_counts {| ds_dec := d; ds_fis := fis; ds_tbl := make_cstable infos;
                                             ds_parity := parity_array acc |}) = 0).
    { unfold shard_counts. cbn [c_misplaced ds_fis]. rewrite filter_all_ok; [reflexivity|].
      unfold files_ok. cbn [ds_fis ds_dec]. apply Forall_forall. intros b Hb.
      apply in_map_iff in Hb. destruct Hb as ([i fi] & <- & Hin). cbn [fst snd].
      destruct (in_combine_seq_inv dfi _ _ _ _ Hin) as (k & -> & Hk & <-). cbn [Nat.add].
      destruct (Key k Hk) as (Kf & Ks & Kr).
      match goal with |- file_ok ?r _ _ = true => replace r with k by (symmetry; exact Kr) end.
      fold sz. unfold file_ok. unfold flags3 in Kf. injection Kf as -> -> ->. cbn [negb andb].
      unfold all_shards_ok. apply forallb_forall. intros [j so] Hjs. cbn [fst snd].
      destruct (in_combine_seq_inv None _ _ _ _ Hjs) as (j' & -> & Hj & <-). cbn [Nat.add].
      destruct (Ks j' Hj) as (s & Es & Hl). rewrite Es. unfold shard_ok. apply andb_true_iff. split.
      - assert (Hd : length (si_data s) = sz).
        { rewrite Forall_forall in Hok. pose proof (Hok _ (nth_In fis dfi Hk)) as Hs.
          unfold shards_ok in Hs. rewrite Forall_forall in Hs.
          pose proof (Hs _ (nth_In _ None Hj)) as Hs'. rewrite Es in Hs'. exact Hs'. }
        rewrite Hd. destruct sz; [lia|reflexivity].
      - apply existsb_exists. exists (k, j' * sz). split; [exact Hl|]. cbn [fst snd].
        rewrite !Nat.eqb_refl. reflexivity. }
    split; [exact U|]. split; [exact M|].
    unfold repair_needed. rewrite M.
    replace (c_unusable (shard_counts {| ds_dec := d; ds_fis := fis; ds_tbl := make_cstable infos;
                                         ds_parity := parity_array acc |})) with 0 by (symmetry; exact U).
    reflexivity.
  Qed.

End Par2Clean.

Print Assumptions intact_files_clean.


(* ====================================================================================== *)
(** * STRETCH: Create then Verify is clean (end to end) *)
(* ====================================================================================== *)
From Coq Require Import Permutation.
From Gopar Require Import Model.GF16 Model.Matrix Model.RS16 Proofs.GoPathFacts Proofs.Par2Create Proofs.Par2Layout.
Open Scope nat_scope.

(** * STRETCH, part A: the body readers accept what the body writers wrote *)

Lemma pad4_app b : exists k, pad4 b = b ++ zeros k.
Proof.
  unfold pad4. destruct (Nat.eqb (length b mod 4) 0).
  - exists 0. symmetry. apply app_nil_r.
  - eexists. reflexivity.
Qed.

Lemma pad4_id b : length b mod 4 = 0 -> pad4 b = b.
Proof. intros H. unfold pad4. rewrite H. reflexivity. Qed.

Lemma chunks_concat n : 0 < n -> forall (l : list bytes) fuel,
  Forall (fun x => length x = n) l -> length l <= fuel -> chunks_of n fuel (concat l) = l.
Proof.
  intros Hn. induction l as [|x l IH]; intros fuel Hl Hf.
  - destruct fuel; reflexivity.
  - inversion Hl as [|? ? Hx Hl']; subst. cbn [length] in Hf.
    destruct fuel as [|f]; [lia|]. cbn [concat chunks_of].
    destruct x as [|x0 x']; [cbn [length] in Hn; lia|].
    change ((x0 :: x') ++ concat l) with (x0 :: (x' ++ concat l)).
    cbv iota. change (x0 :: (x' ++ concat l)) with ((x0 :: x') ++ concat l).
    rewrite (firstn_app_len (x0 :: x') (concat l) _ eq_refl).
    rewrite (skipn_app_len (x0 :: x') (concat l) _ eq_refl).
    rewrite IH by (try assumption; lia). reflexivity.
Qed.

Lemma chunk_bytes_concat n (l : list bytes) : 0 < n ->
  Forall (fun x => length x = n) l -> chunk_bytes n (concat l) = l.
Proof.
  intros Hn Hl. unfold chunk_bytes. apply chunks_concat; [exact Hn|exact Hl|].
  rewrite (concat_length_const n) by exact Hl.
  rewrite <- (Nat.mul_1_r (length l)) at 1. apply Nat.mul_le_mono_l. lia.
Qed.

Lemma mod_mul_add a b c : c <> 0 -> (a * c + b * c) mod c = 0.
Proof. intros Hc. rewrite <- Nat.mul_add_distr_r. apply Nat.mod_mul. exact Hc. Qed.

Lemma read_main_write_main m mb :
  write_main m = Ok mb ->
  Forall (fun id => length id = 16) (mp_rec m ++ mp_nonrec m) ->
  (mp_slice m <= MAXSLICE)%N -> (N.of_nat (length (mp_rec m)) < 2 ^ 32)%N ->
  pad4 mb = mb /\ read_main mb = Ok m.
Proof.
  destruct m as [sl rc nrc]. unfold write_main. cbn [mp_slice mp_rec mp_nonrec]. intros H Hids Hsl Hcnt.
  destruct ((sl =? 0) || negb (sl mod 4 =? 0))%N eqn:E1; [discriminate H|].
  destruct (Nat.eqb (length rc) 0) eqn:E2; [discriminate H|].
  destruct (negb (ids_ok rc) || negb (ids_ok nrc)) eqn:E3; [discriminate H|].
  match type of H with Ok ?b = Ok _ => assert (Emb : mb = b) by congruence end. clear H. subst mb.
  set (rest := concat rc ++ concat nrc).
  assert (Hrest : rest = concat (rc ++ nrc)) by (unfold rest; rewrite concat_app; reflexivity).
  assert (Hlen : length rest = length (rc ++ nrc) * 16).
  { rewrite Hrest. apply concat_length_const. exact Hids. }
  set (cnt := N.of_nat (length rc)) in *.
  set (B := le_encode 8 sl ++ le_encode 4 cnt ++ rest).
  assert (HB : length B = 12 + length rest).
  { unfold B. rewrite !app_length, !le_encode_length. lia. }
  assert (EL : Nat.ltb (length B) 12 = false) by (apply Nat.ltb_ge; lia).
  assert (F1 : firstn 8 B = le_encode 8 sl) by (apply firstn_app_len, le_encode_length).
  assert (S8 : skipn 8 B = le_encode 4 cnt ++ rest) by (apply skipn_app_len, le_encode_length).
  assert (F2 : firstn 4 (skipn 8 B) = le_encode 4 cnt) by (rewrite S8; apply firstn_app_len, le_encode_length).
  assert (S12 : skipn 12 B = rest).
  { rewrite (skipn_add 8 4 B : skipn 12 B = _), S8. apply skipn_app_len, le_encode_length. }
  clearbody B.
  split.
  - apply (pad4_id B). rewrite HB, Hlen.
    replace (12 + length (rc ++ nrc) * 16) with ((3 + length (rc ++ nrc) * 4) * 4) by lia.
    apply Nat.mod_mul. discriminate.
  - unfold read_main. rewrite EL. cbv zeta.
    rewrite F1, F2, S12.
    assert (D1 : le_decode (le_encode 8 sl) = sl).
    { apply le_decode_encode8. unfold MAXSLICE in Hsl. assert ((2^40 < 2^64)%N) by reflexivity. lia. }
    assert (D2 : le_decode (le_encode 4 cnt) = cnt) by (apply le_decode_encode; exact Hcnt).
    rewrite D1, D2.
    apply orb_false_iff in E1. destruct E1 as [E1a E1b].
    assert (E1c : (MAXINT <? sl)%N = false).
    { apply N.ltb_ge. unfold MAXSLICE in Hsl. assert ((2^40 <= MAXINT)%N) by (vm_compute; discriminate). lia. }
    assert (E1d : (MAXSLICE <? sl)%N = false) by (apply N.ltb_ge; exact Hsl).
    rewrite E1a, E1b, E1c, E1d. cbn [orb].
    assert (E2' : (cnt =? 0)%N = false).
    { apply N.eqb_neq. apply Nat.eqb_neq in E2. unfold cnt. lia. }
    rewrite E2'.
    assert (E4 : Nat.eqb (length rest mod 16) 0 = true).
    { apply Nat.eqb_eq. rewrite Hlen. apply Nat.mod_mul. discriminate. }
    rewrite E4. cbn [negb].
    assert (Hch : chunk_bytes 16 rest = rc ++ nrc).
    { rewrite Hrest. apply chunk_bytes_concat; [lia|exact Hids]. }
    rewrite Hch.
    assert (E5 : (N.of_nat (length (rc ++ nrc)) <? cnt)%N = false).
    { apply N.ltb_ge. unfold cnt. rewrite app_length. lia. }
    rewrite E5. unfold cnt. rewrite Nat2N.id.
    rewrite (firstn_app_len rc nrc _ eq_refl), (skipn_app_len rc nrc _ eq_refl).
    rewrite E3. reflexivity.
Qed.

Lemma fdesc_fields (a b c d e : bytes) :
  length a = 16 -> length b = 16 -> length c = 16 -> length d = 8 ->
  let buf := a ++ b ++ c ++ d ++ e in
  firstn 16 buf = a /\ firstn 16 (skipn 16 buf) = b /\ firstn 16 (skipn 32 buf) = c /\
  firstn 8 (skipn 48 buf) = d /\ skipn 56 buf = e /\ 56 <= length buf.
Proof.
  intros Ha Hb Hc Hd buf.
  assert (S16 : skipn 16 buf = b ++ c ++ d ++ e) by (apply skipn_app_len; exact Ha).
  assert (S32 : skipn 32 buf = c ++ d ++ e).
  { rewrite (skipn_add 16 16 buf : skipn 32 buf = _), S16. apply skipn_app_len; exact Hb. }
  assert (S48 : skipn 48 buf = d ++ e).
  { rewrite (skipn_add 32 16 buf : skipn 48 buf = _), S32. apply skipn_app_len; exact Hc. }
  assert (S56 : skipn 56 buf = e).
  { rewrite (skipn_add 48 8 buf : skipn 56 buf = _), S48. apply skipn_app_len; exact Hd. }
  rewrite S16, S32, S48, S56.
  repeat split; try (apply firstn_app_len; assumption).
  unfold buf. rewrite !app_length. lia.
Qed.

Definition no_nul (s : bytes) : Prop := Forall (fun c => c <> 0%N) s.

Lemma null_terminate_zeros k : null_terminate (zeros k) = [].
Proof. destruct k; reflexivity. Qed.

Lemma null_terminate_app_zeros s k : no_nul s -> null_terminate (s ++ zeros k) = s.
Proof.
  induction s as [|a s IH]; intros H; cbn [app null_terminate].
  - apply null_terminate_zeros.
  - inversion H as [|? ? Ha Hs]; subst.
    destruct (N.eqb_spec a 0) as [E|_]; [contradiction|]. f_equal. apply IH. exact Hs.
Qed.

Lemma flat_map_ascii_id s : forallb (fun c => (c <=? 127)%N) s = true ->
  flat_map (fun c => if (c <=? 127)%N then [c] else [239; 191; 189]%N) s = s.
Proof.
  induction s as [|a s IH]; intros H; [reflexivity|].
  cbn [forallb] in H. apply andb_true_iff in H. destruct H as [Ha Hs].
  cbn [flat_map]. rewrite Ha, IH by exact Hs. reflexivity.
Qed.

Section BodyRoundTrip.
  Variable md5 : bytes -> bytes.

  Lemma read_fdesc_write_fdesc id p db :
    write_fdesc md5 id p = Ok db ->
    length id = 16 -> length (fd_hash p) = 16 -> length (fd_hash16k p) = 16 ->
    (fd_len p <= MAXINT)%N -> no_nul (fd_name p) ->
    read_fdesc md5 (pad4 db) = Ok (id, p).
  Proof.
    destruct p as [h h16 len name]. unfold write_fdesc. cbn [fd_hash fd_hash16k fd_len fd_name].
    intros H Hid Hh Hh16 Hlen Hnul.
    destruct (len =? 0)%N eqn:E0; [discriminate H|].
    destruct (check_filename name) as [u|e|q] eqn:EC; cbn [obind] in H; try discriminate H.
    unfold encode_ascii in H. destruct (forallb (fun c => (c <=? 127)%N) name) eqn:EA; cbn [obind] in H; [|discriminate H].
    destruct (negb (bytes_eqb (compute_file_id md5 h16 len name) id)) eqn:EI; [discriminate H|].
    match type of H with Ok ?b = Ok _ => assert (Edb : db = b) by congruence end. clear H. subst db.
    destruct (pad4_app (id ++ h ++ h16 ++ le_encode 8 len ++ name)) as [k Ek]. rewrite Ek. clear Ek.
    replace ((id ++ h ++ h16 ++ le_encode 8 len ++ name) ++ zeros k)
      with (id ++ h ++ h16 ++ le_encode 8 len ++ (name ++ zeros k)) by (rewrite <- !app_assoc; reflexivity).
    destruct (fdesc_fields id h h16 (le_encode 8 len) (name ++ zeros k) Hid Hh Hh16 (le_encode_length 8 len))
      as (F1 & F2 & F3 & F4 & F5 & F6).
    remember (id ++ h ++ h16 ++ le_encode 8 len ++ name ++ zeros k) as B eqn:EB. clear EB.
    unfold read_fdesc.
    assert (EL : Nat.ltb (length B) 56 = false) by (apply Nat.ltb_ge; exact F6).
    rewrite EL. cbv zeta. rewrite F1, F2, F3, F4, F5.
    assert (D : le_decode (le_encode 8 len) = len).
    { apply le_decode_encode8. unfold MAXINT in Hlen. assert ((2^63 - 1 < 2^64)%N) by reflexivity. lia. }
    rewrite D, (null_terminate_app_zeros name k Hnul), EI, E0.
    unfold decode_ascii. rewrite (null_terminate_app_zeros name k Hnul), (flat_map_ascii_id name EA).
    rewrite EC. cbn [obind].
    assert (EM : (MAXINT <? len)%N = false) by (apply N.ltb_ge; exact Hlen).
    rewrite EM. reflexivity.
  Qed.
End BodyRoundTrip.

Lemma read_ifsc_write_ifsc id ps ib :
  write_ifsc id ps = Ok ib -> length id = 16 ->
  Forall (fun p : bytes * N => length (fst p) = 16 /\ (snd p < 2 ^ 32)%N) ps ->
  pad4 ib = ib /\ read_ifsc ib = Ok (id, ps).
Proof.
  intros H Hid Hps.
  assert (Hne : 0 < length ps) by (destruct ps; [discriminate H|cbn [length]; lia]).
  set (g := fun p : bytes * N => fst p ++ le_encode 4 (snd p)).
  assert (Eib : ib = id ++ concat (map g ps)).
  { unfold write_ifsc in H. destruct ps as [|p0 ps']; [discriminate H|].
    rewrite <- flat_map_concat_map. unfold g. congruence. }
  clear H. subst ib.
  assert (Hg : Forall (fun x => length x = 20) (map g ps)).
  { apply Forall_forall. intros x Hx. apply in_map_iff in Hx. destruct Hx as (p & <- & Hp).
    rewrite Forall_forall in Hps. destruct (Hps p Hp) as [H16 _].
    unfold g. rewrite app_length, le_encode_length, H16. reflexivity. }
  assert (Hlen : length (concat (map g ps)) = length ps * 20).
  { rewrite (concat_length_const 20) by exact Hg. rewrite map_length. reflexivity. }
  assert (S16 : skipn 16 (id ++ concat (map g ps)) = concat (map g ps)) by (apply skipn_app_len; exact Hid).
  assert (F16 : firstn 16 (id ++ concat (map g ps)) = id) by (apply firstn_app_len; exact Hid).
  assert (HB : length (id ++ concat (map g ps)) = 16 + length ps * 20) by (rewrite app_length, Hlen, Hid; reflexivity).
  remember (id ++ concat (map g ps)) as B eqn:EB. clear EB.
  split.
  - apply (pad4_id B). rewrite HB.
    replace (16 + length ps * 20) with ((4 + length ps * 5) * 4) by lia. apply Nat.mod_mul. discriminate.
  - unfold read_ifsc.
    assert (EL : Nat.ltb (length B) 16 = false) by (apply Nat.ltb_ge; lia).
    rewrite EL. cbv zeta. rewrite S16, F16, Hlen.
    assert (E1 : Nat.eqb (length ps * 20) 0 = false) by (apply Nat.eqb_neq; lia).
    assert (E2 : Nat.eqb ((length ps * 20) mod 20) 0 = true) by (rewrite Nat.mod_mul by discriminate; reflexivity).
    rewrite E1, E2. cbn [orb negb].
    rewrite (chunk_bytes_concat 20 (map g ps)) by (try exact Hg; lia).
    rewrite map_map. f_equal. f_equal.
    rewrite <- (map_id ps) at 2. apply map_ext_in. intros [hh cc] Hp.
    rewrite Forall_forall in Hps. destruct (Hps _ Hp) as [H16 Hc]. cbn [fst snd] in H16, Hc.
    unfold g. cbn [fst snd].
    rewrite (firstn_app_len hh _ 16 H16), (skipn_app_len hh _ 16 H16).
    rewrite le_decode_encode by exact Hc. reflexivity.
Qed.

Lemma read_recv_write_recv e data rb :
  write_recv e data = Ok rb -> (e <= 65535)%N -> pad4 rb = rb /\ read_recv rb = Ok (e, data).
Proof.
  unfold write_recv. intros H He.
  destruct (Nat.eqb (length data) 0 || negb (Nat.eqb (length data mod 4) 0)) eqn:E; [discriminate H|].
  match type of H with Ok ?b = Ok _ => assert (Erb : rb = b) by congruence end. clear H. subst rb.
  apply orb_false_iff in E. destruct E as [E1 E2]. apply negb_false_iff in E2.
  apply Nat.eqb_neq in E1. apply Nat.eqb_eq in E2.
  assert (HB : length (le_encode 4 e ++ data) = 4 + length data) by (rewrite app_length, le_encode_length; reflexivity).
  assert (F4 : firstn 4 (le_encode 4 e ++ data) = le_encode 4 e) by (apply firstn_app_len, le_encode_length).
  assert (S4 : skipn 4 (le_encode 4 e ++ data) = data) by (apply skipn_app_len, le_encode_length).
  assert (HM : (4 + length data) mod 4 = 0).
  { pose proof (Nat.div_mod (length data) 4 ltac:(discriminate)) as DM. rewrite E2 in DM.
    replace (4 + length data) with ((1 + length data / 4) * 4) by lia. apply Nat.mod_mul. discriminate. }
  remember (le_encode 4 e ++ data) as B eqn:EB. clear EB.
  split.
  - apply (pad4_id B). rewrite HB. exact HM.
  - unfold read_recv. rewrite HB, HM.
    assert (E3 : Nat.eqb (4 + length data) 0 = false) by (apply Nat.eqb_neq; lia).
    rewrite E3. cbn [Nat.eqb orb negb]. rewrite F4, S4.
    rewrite le_decode_encode by (assert ((65535 < 256 ^ N.of_nat 4)%N) by reflexivity; lia).
    assert (E4 : (65535 <? e)%N = false) by (apply N.ltb_ge; exact He).
    rewrite E4. reflexivity.
Qed.

(** * STRETCH, part B: the file reader accepts what the file writer wrote *)

Lemma omap_ok_inv {A B} (f : A -> outcome B) : forall l ys,
  omap f l = Ok ys -> Forall2 (fun x y => f x = Ok y) l ys.
Proof.
  induction l as [|x l IH]; intros ys H; cbn [omap] in H.
  - injection H as <-. constructor.
  - destruct (f x) as [y|e|q] eqn:E; cbn [obind] in H; try discriminate H.
    destruct (omap f l) as [ys'|e|q]; cbn [obind] in H; try discriminate H.
    injection H as <-. constructor; [exact E|apply IH; reflexivity].
Qed.

Lemma insert_exp_perm x : forall l, Permutation (x :: l) (insert_exp x l).
Proof.
  induction l as [|y l IH]; cbn [insert_exp]; [apply Permutation_refl|].
  destruct (fst y <? fst x)%N; [|apply Permutation_refl].
  eapply perm_trans; [apply perm_swap|apply perm_skip; exact IH].
Qed.

Lemma sort_exps_perm l : Permutation l (sort_exps l).
Proof.
  unfold sort_exps. induction l as [|x l IH]; cbn [fold_right]; [constructor|].
  eapply perm_trans; [apply perm_skip; exact IH|apply insert_exp_perm].
Qed.

Lemma nodup_keys_fun {A B} : forall (l : list (A * B)) k v1 v2,
  NoDup (map fst l) -> In (k, v1) l -> In (k, v2) l -> v1 = v2.
Proof.
  induction l as [|[k0 v0] l IH]; intros k v1 v2 Hnd H1 H2; [destruct H1|].
  cbn [map fst] in Hnd. apply NoDup_cons_iff in Hnd. destruct Hnd as [Hni Hnd].
  destruct H1 as [E1|H1], H2 as [E2|H2].
  - congruence.
  - exfalso. apply Hni. injection E1 as -> _. apply (in_map fst) in H2. exact H2.
  - exfalso. apply Hni. injection E2 as -> _. apply (in_map fst) in H1. exact H1.
  - apply (IH k v1 v2 Hnd H1 H2).
Qed.

Lemma pad4_le b : length (pad4 b) <= length b + 3.
Proof.
  unfold pad4. destruct (Nat.eqb (length b mod 4) 0) eqn:E; [lia|]. apply Nat.eqb_neq in E.
  rewrite app_length, Par2Create.zeros_length. lia.
Qed.

Lemma read_recv_exp b e d : read_recv b = Ok (e, d) -> e = le_decode (firstn 4 b).
Proof.
  unfold read_recv. intros H.
  destruct (Nat.eqb (length b) 0 || negb (Nat.eqb (length b mod 4) 0)); [discriminate H|].
  cbv zeta in H. destruct (65535 <? le_decode (firstn 4 b))%N; [discriminate H|].
  injection H as <- _. reflexivity.
Qed.

Section WriteRead.
  Variable md5 : bytes -> bytes.
  Hypothesis md5_len : forall x, length (md5 x) = 16.

  Definition mbody (m : mainpkt) : bytes := match write_main m with Ok mb => pad4 mb | _ => [] end.
  Definition fbody (fds : list (bytes * fdesc)) (id : bytes) : bytes :=
    match assoc_b fds id with
    | Some d => match write_fdesc md5 id d with Ok db => pad4 db | _ => [] end
    | None => []
    end.
  Definition ibody (ifs : list (bytes * list (bytes * N))) (id : bytes) : bytes :=
    match assoc_b ifs id with
    | Some ps => match write_ifsc id ps with Ok ib => pad4 ib | _ => [] end
    | None => []
    end.
  Definition rbody (ed : N * bytes) : bytes :=
    match write_recv (fst ed) (snd ed) with Ok rb => pad4 rb | _ => [] end.

  Definition file_pkts (sid : bytes) fds ifs (ids : list bytes) : list apkt :=
    flat_map (fun id => [(sid, TYPE_FDESC, fbody fds id); (sid, TYPE_IFSC, ibody ifs id)]) ids.
  Definition recv_pkts (sid : bytes) (l : list (N * bytes)) : list apkt :=
    map (fun ed => (sid, TYPE_RECV, rbody ed)) l.
  Definition all_pkts (client : bytes) (m : mainpkt) fds ifs (recv : list (N * bytes)) : list apkt :=
    let sid := md5 (mbody m) in
    (sid, TYPE_CREATOR, pad4 client) :: (sid, TYPE_MAIN, mbody m)
      :: file_pkts sid fds ifs (mp_rec m ++ mp_nonrec m) ++ recv_pkts sid (sort_exps recv).

  Lemma frames_app a b : frames md5 (a ++ b) = frames md5 a ++ frames md5 b.
  Proof. unfold frames. rewrite map_app, concat_app. reflexivity. Qed.

  Definition file_ok_w fds ifs (id : bytes) : Prop :=
    exists d ps db ib, assoc_b fds id = Some d /\ assoc_b ifs id = Some ps /\
      write_fdesc md5 id d = Ok db /\ write_ifsc id ps = Ok ib.

  Lemma file_pkts_frames sid fds ifs : forall ids ys,
    Forall2 (fun id y =>
               match assoc_b fds id, assoc_b ifs id with
               | Some d, Some ps =>
                   do db <- write_fdesc md5 id d;
                   do ib <- write_ifsc id ps;
                   Ok (write_packet md5 sid TYPE_FDESC (pad4 db) ++ write_packet md5 sid TYPE_IFSC (pad4 ib))
               | _, _ => Err EMalformed
               end = Ok y) ids ys ->
    concat ys = frames md5 (file_pkts sid fds ifs ids) /\ Forall (file_ok_w fds ifs) ids.
  Proof.
    induction 1 as [|id y ids ys Hy _ IH]; [split; [reflexivity|constructor]|].
    destruct IH as [IH1 IH2].
    destruct (assoc_b fds id) as [d|] eqn:Ed; [|discriminate Hy].
    destruct (assoc_b ifs id) as [ps|] eqn:Ep; [|discriminate Hy].
    destruct (write_fdesc md5 id d) as [db|e|q] eqn:Edb; cbn [obind] in Hy; try discriminate Hy.
    destruct (write_ifsc id ps) as [ib|e|q] eqn:Eib; cbn [obind] in Hy; try discriminate Hy.
    injection Hy as <-. split.
    - cbn [concat]. unfold file_pkts. cbn [flat_map app]. fold (file_pkts sid fds ifs ids).
      rewrite !frames_cons. cbn [pk_set pk_type pk_body fst snd]. rewrite IH1.
      unfold fbody, ibody. rewrite Ed, Ep, Edb, Eib. rewrite <- app_assoc. reflexivity.
    - constructor; [|exact IH2]. exists d, ps, db, ib. repeat split; assumption.
  Qed.

  Lemma recv_pkts_frames sid : forall l ys,
    Forall2 (fun (ed : N * bytes) y =>
               (do rb <- write_recv (fst ed) (snd ed); Ok (write_packet md5 sid TYPE_RECV (pad4 rb))) = Ok y) l ys ->
    concat ys = frames md5 (recv_pkts sid l) /\
    Forall (fun ed => exists rb, write_recv (fst ed) (snd ed) = Ok rb) l.
  Proof.
    induction 1 as [|ed y l ys Hy _ IH]; [split; [reflexivity|constructor]|].
    destruct IH as [IH1 IH2].
    destruct (write_recv (fst ed) (snd ed)) as [rb|e|q] eqn:Erb; cbn [obind] in Hy; try discriminate Hy.
    injection Hy as <-. split.
    - cbn [concat]. unfold recv_pkts. cbn [map]. fold (recv_pkts sid l).
      rewrite frames_cons. cbn [pk_set pk_type pk_body fst snd]. rewrite IH1.
      unfold rbody. rewrite Erb. reflexivity.
    - constructor; [|exact IH2]. exists rb. exact Erb.
  Qed.

  Lemma write_file_frames client m fds ifs recv sid out :
    write_file md5 client m fds ifs recv = Ok (sid, out) ->
    sid = md5 (mbody m) /\ out = frames md5 (all_pkts client m fds ifs recv) /\
    (exists mb, write_main m = Ok mb) /\
    Forall (file_ok_w fds ifs) (mp_rec m ++ mp_nonrec m) /\
    Forall (fun ed => exists rb, write_recv (fst ed) (snd ed) = Ok rb) (sort_exps recv).
  Proof.
    unfold write_file. intros H.
    destruct (Nat.eqb (length client) 0); [discriminate H|].
    destruct (write_main m) as [mb|e|q] eqn:Emb; cbn [obind] in H; try discriminate H.
    unfold encode_ascii in H.
    destruct (forallb (fun c => (c <=? 127)%N) client); cbn [obind] in H; [|discriminate H].
    match type of H with obind (omap ?F ?l) _ = _ => destruct (omap F l) as [fp|e|q] eqn:Efp end;
      cbn [obind] in H; try discriminate H.
    match type of H with obind (omap ?F ?l) _ = _ => destruct (omap F l) as [rp|e|q] eqn:Erp end;
      cbn [obind] in H; try discriminate H.
    apply omap_ok_inv in Efp. apply omap_ok_inv in Erp.
    destruct (file_pkts_frames _ fds ifs _ _ Efp) as [Ef1 Ef2].
    destruct (recv_pkts_frames _ _ _ Erp) as [Er1 Er2].
    assert (Em : mbody m = pad4 mb) by (unfold mbody; rewrite Emb; reflexivity).
    assert (E : sid = md5 (pad4 mb) /\
                out = write_packet md5 (md5 (pad4 mb)) TYPE_CREATOR (pad4 client) ++
                      write_packet md5 (md5 (pad4 mb)) TYPE_MAIN (pad4 mb) ++ concat fp ++ concat rp).
    { split; congruence. }
    clear H. destruct E as [-> ->].
    split; [rewrite Em; reflexivity|]. split; [|split; [exists mb; reflexivity|split; assumption]].
    unfold all_pkts. cbv zeta. rewrite Em. rewrite !frames_cons, frames_app.
    cbn [pk_set pk_type pk_body fst snd]. rewrite Ef1, Er1. reflexivity.
  Qed.
End WriteRead.

Ltac pow_norm :=
  change (2 ^ 32)%N with 4294967296%N in *;
  change (2 ^ 40)%N with 1099511627776%N in *;
  change (2 ^ 64)%N with 18446744073709551616%N in *.

Ltac tcontra E := exfalso; vm_compute in E; discriminate E.

Lemma write_main_length m mb : write_main m = Ok mb ->
  Forall (fun id => length id = 16) (mp_rec m ++ mp_nonrec m) ->
  length mb = 12 + length (mp_rec m ++ mp_nonrec m) * 16.
Proof.
  unfold write_main. intros H Hids.
  destruct ((mp_slice m =? 0) || negb (mp_slice m mod 4 =? 0))%N; [discriminate H|].
  destruct (Nat.eqb (length (mp_rec m)) 0); [discriminate H|].
  destruct (negb (ids_ok (mp_rec m)) || negb (ids_ok (mp_nonrec m))); [discriminate H|].
  match type of H with Ok ?b = Ok _ => assert (Emb : mb = b) by congruence end. clear H. subst mb.
  transitivity (8 + (4 + length (concat (mp_rec m ++ mp_nonrec m)))).
  - rewrite concat_app, !app_length, !le_encode_length. reflexivity.
  - rewrite (concat_length_const 16) by exact Hids. reflexivity.
Qed.

Lemma write_ifsc_length id ps ib : write_ifsc id ps = Ok ib ->
  Forall (fun p : bytes * N => length (fst p) = 16) ps -> length ib = length id + length ps * 20.
Proof.
  intros H Hps. unfold write_ifsc in H. destruct ps as [|p0 ps'] eqn:Eps; [discriminate H|]. rewrite <- Eps in *.
  match type of H with Ok ?b = Ok _ => assert (E : ib = b) by congruence end. clear H. subst ib.
  rewrite app_length, flat_map_concat_map. rewrite (concat_length_const 20).
  - rewrite map_length. reflexivity.
  - apply Forall_forall. intros x Hx. apply in_map_iff in Hx. destruct Hx as (p & <- & Hp).
    rewrite Forall_forall in Hps. rewrite app_length, le_encode_length, (Hps p Hp). reflexivity.
Qed.

Lemma write_recv_length e data rb : write_recv e data = Ok rb -> length rb = 4 + length data.
Proof.
  unfold write_recv. intros H.
  destruct (Nat.eqb (length data) 0 || negb (Nat.eqb (length data mod 4) 0)); [discriminate H|].
  match type of H with Ok ?b = Ok _ => assert (E : rb = b) by congruence end. clear H. subst rb.
  rewrite app_length, le_encode_length. reflexivity.
Qed.

Section WriteFdescLen.
  Variable md5 : bytes -> bytes.
  Lemma write_fdesc_length id d db : write_fdesc md5 id d = Ok db ->
    length db = length id + length (fd_hash d) + length (fd_hash16k d) + 8 + length (fd_name d).
  Proof.
    unfold write_fdesc. intros H.
    destruct (fd_len d =? 0)%N; [discriminate H|].
    destruct (check_filename (fd_name d)) as [u|e|q]; cbn [obind] in H; try discriminate H.
    unfold encode_ascii in H. destruct (forallb (fun c => (c <=? 127)%N) (fd_name d)); cbn [obind] in H; [|discriminate H].
    match type of H with (if ?c then _ else _) = _ => destruct c end; [discriminate H|].
    match type of H with Ok ?b = Ok _ => assert (E : db = b) by congruence end. clear H. subst db.
    rewrite !app_length, le_encode_length. lia.
  Qed.
End WriteFdescLen.

Record wf_write (client : bytes) (m : mainpkt) (fds : list (bytes * fdesc)) (ifs : list (bytes * list (bytes * N)))
       (recv : list (N * bytes)) : Prop := {
  ww_client : (N.of_nat (length client) < 2 ^ 32)%N;
  ww_ids : Forall (fun id => length id = 16) (mp_rec m ++ mp_nonrec m);
  ww_nids : (N.of_nat (length (mp_rec m ++ mp_nonrec m)) < 2 ^ 32)%N;
  ww_slice : (mp_slice m <= MAXSLICE)%N;
  ww_fds : forall id d, In id (mp_rec m ++ mp_nonrec m) -> assoc_b fds id = Some d ->
             length (fd_hash d) = 16 /\ length (fd_hash16k d) = 16 /\ (fd_len d <= MAXINT)%N /\
             no_nul (fd_name d) /\ (N.of_nat (length (fd_name d)) < 2 ^ 32)%N;
  ww_ifs : forall id ps, In id (mp_rec m ++ mp_nonrec m) -> assoc_b ifs id = Some ps ->
             Forall (fun p : bytes * N => length (fst p) = 16 /\ (snd p < 2 ^ 32)%N) ps /\
             (N.of_nat (length ps) < 2 ^ 32)%N;
  ww_recv : Forall (fun ed : N * bytes => (fst ed <= 65535)%N /\ (N.of_nat (length (snd ed)) <= 2 ^ 40)%N) recv;
  ww_recv_nd : NoDup (map fst recv)
}.

Section RunNoDup.
  Variable md5 : bytes -> bytes.
  Lemma run_recv_nodup sid : forall l f found, run md5 sid l = Some (f, found) -> NoDup (map fst (pf_recv f)).
  Proof.
    induction l as [|p l IH] using rev_ind; intros f found H.
    - unfold run in H. cbn [fold_left] in H. injection H as <- _. constructor.
    - rewrite run_snoc in H. destruct (run md5 sid l) as [[f0 fd0]|] eqn:ER; [|discriminate H].
      cbn [lstep] in H. specialize (IH f0 fd0 eq_refl).
      destruct (bytes_eqb (pk_set p) sid).
      + destruct (step_packet md5 f0 p) as [f1|] eqn:ES; [|discriminate H]. injection H as <- _.
        destruct (recv_eff md5 _ _ _ ES) as [(E & e0 & d0 & R & [(A & Em)|(A & Em)])|(E & Em)]; rewrite Em.
        * exact IH.
        * cbn [map fst]. constructor; [|exact IH]. intros Hin. apply assoc_n_some_iff in Hin.
          rewrite A in Hin. discriminate Hin.
        * exact IH.
      + injection H as <- _. exact IH.
  Qed.
End RunNoDup.

Section ReadWritten.
  Variable md5 : bytes -> bytes.
  Hypothesis md5_len : forall x, length (md5 x) = 16.
  Variables (client : bytes) (m : mainpkt) (fds : list (bytes * fdesc)) (ifs : list (bytes * list (bytes * N)))
            (recv : list (N * bytes)) (sid out : bytes).
  Hypothesis Hwrite : write_file md5 client m fds ifs recv = Ok (sid, out).
  Hypothesis W : wf_write client m fds ifs recv.

  Let ids := mp_rec m ++ mp_nonrec m.
  Let cpkt : apkt := (sid, TYPE_CREATOR, pad4 client).
  Let mpkt : apkt := (sid, TYPE_MAIN, mbody m).
  Let fpkt (id : bytes) : apkt := (sid, TYPE_FDESC, fbody md5 fds id).
  Let ipkt (id : bytes) : apkt := (sid, TYPE_IFSC, ibody ifs id).
  Let rpkt (ed : N * bytes) : apkt := (sid, TYPE_RECV, rbody ed).
  Let pk := all_pkts md5 client m fds ifs recv.

  Lemma rw_sid : sid = md5 (mbody m).
  Proof. apply (write_file_frames md5 _ _ _ _ _ _ _ Hwrite). Qed.

  Lemma rw_out : out = frames md5 pk.
  Proof. apply (write_file_frames md5 _ _ _ _ _ _ _ Hwrite). Qed.

  Lemma rw_main : exists mb, write_main m = Ok mb /\ mbody m = mb /\ read_main (mbody m) = Ok m.
  Proof.
    destruct (write_file_frames md5 _ _ _ _ _ _ _ Hwrite) as (_ & _ & (mb & Emb) & _).
    destruct (read_main_write_main m mb Emb (ww_ids _ _ _ _ _ W) (ww_slice _ _ _ _ _ W)) as [Hp Hr].
    { pose proof (ww_nids _ _ _ _ _ W) as Hn. rewrite app_length in Hn. lia. }
    exists mb. unfold mbody. rewrite Emb, Hp. repeat split; assumption.
  Qed.

  Lemma rw_fdesc id : In id ids -> exists d db, assoc_b fds id = Some d /\ write_fdesc md5 id d = Ok db /\
    fbody md5 fds id = pad4 db /\ read_fdesc md5 (fbody md5 fds id) = Ok (id, d).
  Proof.
    intros Hin. destruct (write_file_frames md5 _ _ _ _ _ _ _ Hwrite) as (_ & _ & _ & Hf & _).
    rewrite Forall_forall in Hf. destruct (Hf id Hin) as (d & ps & db & ib & Ed & Ep & Edb & Eib).
    destruct (ww_fds _ _ _ _ _ W id d Hin Ed) as (H1 & H2 & H3 & H4 & _).
    pose proof (ww_ids _ _ _ _ _ W) as Hids. rewrite Forall_forall in Hids.
    exists d, db. unfold fbody. rewrite Ed, Edb. repeat split; try reflexivity.
    apply read_fdesc_write_fdesc; try assumption. apply Hids. exact Hin.
  Qed.

  Lemma rw_ifsc id : In id ids -> exists ps ib, assoc_b ifs id = Some ps /\ write_ifsc id ps = Ok ib /\
    ibody ifs id = ib /\ read_ifsc (ibody ifs id) = Ok (id, ps).
  Proof.
    intros Hin. destruct (write_file_frames md5 _ _ _ _ _ _ _ Hwrite) as (_ & _ & _ & Hf & _).
    rewrite Forall_forall in Hf. destruct (Hf id Hin) as (d & ps & db & ib & Ed & Ep & Edb & Eib).
    destruct (ww_ifs _ _ _ _ _ W id ps Hin Ep) as (H1 & _).
    pose proof (ww_ids _ _ _ _ _ W) as Hids. rewrite Forall_forall in Hids.
    destruct (read_ifsc_write_ifsc id ps ib Eib (Hids id Hin) H1) as [Hp Hr].
    exists ps, ib. unfold ibody. rewrite Ep, Eib, Hp. repeat split; try reflexivity. exact Hr.
  Qed.

  Lemma rw_recv ed : In ed (sort_exps recv) -> exists rb, write_recv (fst ed) (snd ed) = Ok rb /\
    rbody ed = rb /\ read_recv (rbody ed) = Ok ed.
  Proof.
    intros Hin. destruct (write_file_frames md5 _ _ _ _ _ _ _ Hwrite) as (_ & _ & _ & _ & Hr).
    rewrite Forall_forall in Hr. destruct (Hr ed Hin) as (rb & Erb).
    pose proof (ww_recv _ _ _ _ _ W) as Hw. rewrite Forall_forall in Hw.
    assert (Hin' : In ed recv) by (apply (Permutation_in _ (Permutation_sym (sort_exps_perm recv))); exact Hin).
    destruct (Hw ed Hin') as [He _].
    destruct (read_recv_write_recv _ _ _ Erb He) as [Hp Hrd].
    exists rb. unfold rbody. rewrite Erb, Hp. repeat split; try reflexivity.
    rewrite Hrd. destruct ed; reflexivity.
  Qed.

  (** every packet of the written file, by kind *)
  Lemma rw_class p : In p pk ->
    p = cpkt \/ p = mpkt \/ (exists id, In id ids /\ p = fpkt id) \/ (exists id, In id ids /\ p = ipkt id) \/
    (exists ed, In ed (sort_exps recv) /\ p = rpkt ed).
  Proof.
    unfold pk, all_pkts. cbv zeta. rewrite <- rw_sid. intros [<-|[<-|Hin]].
    - left. reflexivity.
    - right; left. reflexivity.
    - apply in_app_or in Hin. destruct Hin as [Hin|Hin].
      + unfold file_pkts in Hin. apply in_flat_map in Hin. destruct Hin as (id & Hid & [<-|[<-|[]]]).
        * right; right; left. exists id. split; [exact Hid|reflexivity].
        * right; right; right; left. exists id. split; [exact Hid|reflexivity].
      + unfold recv_pkts in Hin. apply in_map_iff in Hin. destruct Hin as (ed & <- & Hed).
        right; right; right; right. exists ed. split; [exact Hed|reflexivity].
  Qed.

  Lemma rw_in_c : In cpkt pk.
  Proof. unfold pk, all_pkts. cbv zeta. rewrite <- rw_sid. left. reflexivity. Qed.
  Lemma rw_in_m : In mpkt pk.
  Proof. unfold pk, all_pkts. cbv zeta. rewrite <- rw_sid. right; left. reflexivity. Qed.
  Lemma rw_in_f id : In id ids -> In (fpkt id) pk.
  Proof.
    intros Hid. unfold pk, all_pkts. cbv zeta. rewrite <- rw_sid. right; right. apply in_or_app. left.
    unfold file_pkts. apply in_flat_map. exists id. split; [exact Hid|left; reflexivity].
  Qed.
  Lemma rw_in_i id : In id ids -> In (ipkt id) pk.
  Proof.
    intros Hid. unfold pk, all_pkts. cbv zeta. rewrite <- rw_sid. right; right. apply in_or_app. left.
    unfold file_pkts. apply in_flat_map. exists id. split; [exact Hid|right; left; reflexivity].
  Qed.
  Lemma rw_in_r ed : In ed (sort_exps recv) -> In (rpkt ed) pk.
  Proof.
    intros Hed. unfold pk, all_pkts. cbv zeta. rewrite <- rw_sid. right; right. apply in_or_app. right.
    unfold recv_pkts. apply in_map_iff. exists ed. split; [reflexivity|exact Hed].
  Qed.

  Lemma rw_set p : In p pk -> pk_set p = sid.
  Proof.
    intros Hin. destruct (rw_class p Hin) as [->|[->|[(id & _ & ->)|[(id & _ & ->)|(ed & _ & ->)]]]]; reflexivity.
  Qed.

  Lemma rw_is_main p : In p pk -> pk_type p = TYPE_MAIN -> p = mpkt.
  Proof.
    intros Hin T. destruct (rw_class p Hin) as [->|[->|[(id & _ & ->)|[(id & _ & ->)|(ed & _ & ->)]]]];
      cbn [pk_type fst snd cpkt fpkt ipkt rpkt] in T; try reflexivity; tcontra T.
  Qed.
  Lemma rw_is_fdesc p : In p pk -> pk_type p = TYPE_FDESC -> exists id, In id ids /\ p = fpkt id.
  Proof.
    intros Hin T. destruct (rw_class p Hin) as [->|[->|[(id & Hid & ->)|[(id & _ & ->)|(ed & _ & ->)]]]];
      cbn [pk_type fst snd cpkt mpkt fpkt ipkt rpkt] in T; try (exists id; split; [exact Hid|reflexivity]); tcontra T.
  Qed.
  Lemma rw_is_ifsc p : In p pk -> pk_type p = TYPE_IFSC -> exists id, In id ids /\ p = ipkt id.
  Proof.
    intros Hin T. destruct (rw_class p Hin) as [->|[->|[(id & _ & ->)|[(id & Hid & ->)|(ed & _ & ->)]]]];
      cbn [pk_type fst snd cpkt mpkt fpkt ipkt rpkt] in T; try (exists id; split; [exact Hid|reflexivity]); tcontra T.
  Qed.
  Lemma rw_is_recv p : In p pk -> pk_type p = TYPE_RECV -> exists ed, In ed (sort_exps recv) /\ p = rpkt ed.
  Proof.
    intros Hin T. destruct (rw_class p Hin) as [->|[->|[(id & _ & ->)|[(id & _ & ->)|(ed & Hed & ->)]]]];
      cbn [pk_type fst snd cpkt mpkt fpkt ipkt rpkt] in T; try (exists ed; split; [exact Hed|reflexivity]); tcontra T.
  Qed.

  Lemma type_len_c : length TYPE_CREATOR = 16. Proof. reflexivity. Qed.
  Lemma type_len_m : length TYPE_MAIN = 16. Proof. reflexivity. Qed.
  Lemma type_len_f : length TYPE_FDESC = 16. Proof. reflexivity. Qed.
  Lemma type_len_i : length TYPE_IFSC = 16. Proof. reflexivity. Qed.
  Lemma type_len_r : length TYPE_RECV = 16. Proof. reflexivity. Qed.

  Lemma rw_sid_len : length sid = 16.
  Proof. rewrite rw_sid. apply md5_len. Qed.

  Lemma rw_wf : Forall (wf_pkt) pk.
  Proof.
    apply Forall_forall. intros p Hin. unfold wf_pkt.
    pose proof rw_sid_len as Hs.
    pose proof (ww_client _ _ _ _ _ W) as Wc. pose proof (ww_nids _ _ _ _ _ W) as Wn.
    destruct (rw_class p Hin) as [->|[->|[(id & Hid & ->)|[(id & Hid & ->)|(ed & Hed & ->)]]]];
      cbn [pk_set pk_type pk_body fst snd cpkt mpkt fpkt ipkt rpkt].
    - split; [exact Hs|split; [reflexivity|split; [apply pad4_length|]]].
      pose proof (pad4_le client) as Hl. pow_norm. lia.
    - destruct rw_main as (mb & Emb & Eb & _). rewrite Eb.
      pose proof (write_main_length m mb Emb (ww_ids _ _ _ _ _ W)) as Hl.
      split; [exact Hs|split; [reflexivity|split]].
      + rewrite <- Eb. unfold mbody. rewrite Emb. apply pad4_length.
      + fold ids in Hl, Wn. pow_norm. lia.
    - destruct (rw_fdesc id Hid) as (d & db & Ed & Edb & Eb & _). rewrite Eb.
      destruct (ww_fds _ _ _ _ _ W id d Hid Ed) as (H1 & H2 & _ & _ & H5).
      pose proof (write_fdesc_length md5 id d db Edb) as Hl.
      pose proof (ww_ids _ _ _ _ _ W) as Hids. rewrite Forall_forall in Hids. pose proof (Hids id Hid) as Hi.
      cbv beta in Hi.
      split; [exact Hs|split; [reflexivity|split; [apply pad4_length|]]].
      pose proof (pad4_le db) as Hp. pow_norm. lia.
    - destruct (rw_ifsc id Hid) as (ps & ib & Ep & Eib & Eb & _). rewrite Eb.
      destruct (ww_ifs _ _ _ _ _ W id ps Hid Ep) as (H1 & H2).
      assert (H1' : Forall (fun p : bytes * N => length (fst p) = 16) ps).
      { revert H1. apply Forall_impl. intros a [Ha _]. exact Ha. }
      pose proof (write_ifsc_length id ps ib Eib H1') as Hl.
      pose proof (ww_ids _ _ _ _ _ W) as Hids. rewrite Forall_forall in Hids. pose proof (Hids id Hid) as Hi.
      cbv beta in Hi.
      split; [exact Hs|split; [reflexivity|split]].
      + rewrite <- Eb. unfold ibody. rewrite Ep, Eib. apply pad4_length.
      + pow_norm. lia.
    - destruct (rw_recv ed Hed) as (rb & Erb & Eb & _). rewrite Eb.
      pose proof (write_recv_length _ _ _ Erb) as Hl.
      pose proof (ww_recv _ _ _ _ _ W) as Hw. rewrite Forall_forall in Hw.
      assert (Hin' : In ed recv) by (apply (Permutation_in _ (Permutation_sym (sort_exps_perm recv))); exact Hed).
      destruct (Hw ed Hin') as [_ Hd].
      split; [exact Hs|split; [reflexivity|split]].
      + rewrite <- Eb. unfold rbody. rewrite Erb. apply pad4_length.
      + pow_norm. lia.
  Qed.

  Lemma rw_recv_keys : NoDup (map fst (sort_exps recv)).
  Proof.
    apply (Permutation_NoDup (l := map fst recv)); [|exact (ww_recv_nd _ _ _ _ _ W)].
    apply Permutation_map. apply sort_exps_perm.
  Qed.

  Lemma rw_consistent : consistent sid pk.
  Proof.
    intros p q Hp Hq _ _ (Ht & [Tm|[([Tf|Ti] & E16)|(Tr & E4)]]).
    - rewrite (rw_is_main p Hp Tm). rewrite Tm in Ht. rewrite (rw_is_main q Hq (eq_sym Ht)). reflexivity.
    - destruct (rw_is_fdesc p Hp Tf) as (i1 & Hi1 & ->). rewrite Tf in Ht.
      destruct (rw_is_fdesc q Hq (eq_sym Ht)) as (i2 & Hi2 & ->).
      cbn [pk_body fst snd fpkt] in *.
      destruct (rw_fdesc i1 Hi1) as (d1 & _ & _ & _ & _ & R1). destruct (rw_fdesc i2 Hi2) as (d2 & _ & _ & _ & _ & R2).
      apply (read_fdesc_id md5) in R1, R2. assert (i1 = i2) by congruence. subst i2. reflexivity.
    - destruct (rw_is_ifsc p Hp Ti) as (i1 & Hi1 & ->). rewrite Ti in Ht.
      destruct (rw_is_ifsc q Hq (eq_sym Ht)) as (i2 & Hi2 & ->).
      cbn [pk_body fst snd ipkt] in *.
      destruct (rw_ifsc i1 Hi1) as (d1 & _ & _ & _ & _ & R1). destruct (rw_ifsc i2 Hi2) as (d2 & _ & _ & _ & _ & R2).
      apply read_ifsc_id in R1, R2. assert (i1 = i2) by congruence. subst i2. reflexivity.
    - destruct (rw_is_recv p Hp Tr) as (e1 & He1 & ->). rewrite Tr in Ht.
      destruct (rw_is_recv q Hq (eq_sym Ht)) as (e2 & He2 & ->).
      cbn [pk_body fst snd rpkt] in *.
      destruct (rw_recv e1 He1) as (r1 & _ & _ & R1). destruct (rw_recv e2 He2) as (r2 & _ & _ & R2).
      destruct e1 as [x1 y1], e2 as [x2 y2].
      apply read_recv_exp in R1, R2. assert (x1 = x2) by congruence. subst x2.
      rewrite (nodup_keys_fun _ x1 y1 y2 rw_recv_keys He1 He2). reflexivity.
  Qed.

  Lemma rw_parses : parses md5 sid pk.
  Proof.
    intros q Hq _. unfold parses_pkt. split; [|split; [|split]]; intros T.
    - rewrite (rw_is_main q Hq T). destruct rw_main as (mb & _ & _ & R). exists m. exact R.
    - destruct (rw_is_fdesc q Hq T) as (id & Hid & ->). destruct (rw_fdesc id Hid) as (d & _ & _ & _ & _ & R).
      exists id, d. exact R.
    - destruct (rw_is_ifsc q Hq T) as (id & Hid & ->). destruct (rw_ifsc id Hid) as (ps & _ & _ & _ & _ & R).
      exists id, ps. exact R.
    - destruct (rw_is_recv q Hq T) as (ed & Hed & ->). destruct (rw_recv ed Hed) as (rb & _ & _ & R).
      exists (fst ed), (snd ed). change (pk_body (rpkt ed)) with (rbody ed). rewrite R. destruct ed; reflexivity.
  Qed.

  Lemma rw_recv_agree : recv_agree sid pk.
  Proof.
    intros q1 q2 e d1 d2 I1 I2 _ _ T1 T2 R1 R2.
    destruct (rw_is_recv q1 I1 T1) as (e1 & He1 & ->). destruct (rw_is_recv q2 I2 T2) as (e2 & He2 & ->).
    cbn [pk_body fst snd rpkt] in *.
    destruct (rw_recv e1 He1) as (r1 & _ & _ & R1'). destruct (rw_recv e2 He2) as (r2 & _ & _ & R2').
    assert (e1 = (e, d1)) by congruence. assert (e2 = (e, d2)) by congruence. subst e1 e2.
    apply (nodup_keys_fun _ e d1 d2 rw_recv_keys He1 He2).
  Qed.

  (** the reader accepts the written file and recovers what was written *)
  Theorem read_written_file :
    exists f, read_file md5 (Some sid) out = RFOk sid f /\ read_file md5 None out = RFOk sid f /\
      pf_main f = Some m /\
      (forall id, In id ids -> assoc_b (pf_fdesc f) id = assoc_b fds id /\ assoc_b (pf_ifsc f) id = assoc_b ifs id) /\
      (forall e d, assoc_n (pf_recv f) e = Some d <-> In (e, d) recv) /\
      NoDup (map fst (pf_recv f)).
  Proof.
    destruct (good_run md5 sid pk rw_consistent rw_parses rw_recv_agree) as (f & found & Hrun).
    destruct (run_char md5 sid pk f found rw_consistent Hrun) as (C1 & C2 & C3 & C4 & C5 & C6).
    assert (Hfound : found = true).
    { apply C1. exists cpkt. split; [exact rw_in_c|split; [reflexivity|exact I]]. }
    subst found.
    assert (Hcl : pf_client f <> None).
    { apply C2. exists cpkt. split; [exact rw_in_c|split; reflexivity]. }
    assert (R1 : read_file md5 (Some sid) out = RFOk sid f).
    { rewrite rw_out, (read_file_run md5 md5_len sid pk rw_wf), Hrun. cbn [finish].
      destruct (pf_client f); [reflexivity|congruence]. }
    exists f. split; [exact R1|]. split; [|split; [|split; [|split; [|exact (run_recv_nodup md5 sid pk f true Hrun)]]]].
    - rewrite <- R1, rw_out. pose proof rw_wf as Hwf. unfold pk, all_pkts in *. cbv zeta in *.
      inversion Hwf as [|p0 l0 Hp0 _]; subst.
      rewrite (read_file_index md5 md5_len _ _ Hp0). cbn [pk_set fst]. rewrite <- rw_sid. reflexivity.
    - apply C3. exists mpkt. split; [exact rw_in_m|split; [reflexivity|split; [reflexivity|]]].
      destruct rw_main as (mb & _ & _ & R). exact R.
    - intros id Hid. split.
      + destruct (rw_fdesc id Hid) as (d & db & Ed & _ & _ & R). rewrite Ed. apply C4.
        exists (fpkt id). split; [exact (rw_in_f id Hid)|split; [reflexivity|split; [reflexivity|exact R]]].
      + destruct (rw_ifsc id Hid) as (ps & ib & Ep & _ & _ & R). rewrite Ep. apply C5.
        exists (ipkt id). split; [exact (rw_in_i id Hid)|split; [reflexivity|split; [reflexivity|exact R]]].
    - intros e d. rewrite C6. split.
      + intros (q & Hq & _ & Tq & Rq). destruct (rw_is_recv q Hq Tq) as (ed & Hed & ->).
        cbn [pk_body fst snd rpkt] in Rq. destruct (rw_recv ed Hed) as (rb & _ & _ & R).
        assert (ed = (e, d)) by congruence. subst ed.
        apply (Permutation_in _ (Permutation_sym (sort_exps_perm recv))). exact Hed.
      + intros Hin. assert (Hed : In (e, d) (sort_exps recv)) by (apply (Permutation_in _ (sort_exps_perm recv)); exact Hin).
        exists (rpkt (e, d)). split; [exact (rw_in_r _ Hed)|split; [reflexivity|split; [reflexivity|]]].
        destruct (rw_recv (e, d) Hed) as (rb & _ & _ & R). exact R.
  Qed.

  (** the same for the file read as a recovery file (LoadParityData) *)
  Theorem read_written_file_vol :
    exists f, read_file_vol md5 sid out = RFOk sid f /\
      pf_main f = Some m /\
      (forall id, In id ids -> assoc_b (pf_fdesc f) id = assoc_b fds id /\ assoc_b (pf_ifsc f) id = assoc_b ifs id) /\
      (forall e d, assoc_n (pf_recv f) e = Some d <-> In (e, d) recv) /\
      NoDup (map fst (pf_recv f)).
  Proof.
    destruct read_written_file as (f & R1 & _ & Hm & Hfi & Hrecv & Hnd).
    exists f. split; [exact (read_file_ok_vol md5 sid out sid f R1)|].
    split; [exact Hm|]. split; [exact Hfi|]. split; [exact Hrecv|exact Hnd].
  Qed.
End ReadWritten.

Print Assumptions read_written_file.
Print Assumptions read_written_file_vol.

(** * STRETCH, part C: Create then Verify *)

(** ** the file system after a sequence of writes *)
Lemma fs_lookup_set_same : forall f p d, fs_lookup (fs_set f p d) p = Some d.
Proof.
  induction f as [|[q e] f IH]; intros p d; cbn [fs_set fs_lookup].
  - rewrite str_eqb_refl. reflexivity.
  - destruct (str_eqb q p) eqn:E; cbn [fs_lookup]; rewrite E; [reflexivity|apply IH].
Qed.

Lemma fs_set_keys : forall f p d q, In q (map fst (fs_set f p d)) <-> In q (map fst f) \/ q = p.
Proof.
  induction f as [|[q0 e] f IH]; intros p d q; cbn [fs_set map fst In].
  - split; [intros [H|[]]; right; symmetry; exact H|intros [[]|H]; left; symmetry; exact H].
  - destruct (str_eqb q0 p) eqn:E; cbn [map fst In].
    + apply str_eqb_eq in E. subst q0. split; [tauto|]. intros [H|H]; [exact H|left; symmetry; exact H].
    + rewrite IH. tauto.
Qed.

Lemma apply_writes_keys : forall ws f q,
  In q (map fst (apply_writes ws f)) <-> In q (map fst f) \/ In q (map fst ws).
Proof.
  unfold apply_writes. induction ws as [|[p d] ws IH]; intros f q; cbn [fold_left map fst snd In].
  - tauto.
  - rewrite IH, fs_set_keys. split; [intros [[H|H]|H]|intros [H|[H|H]]]; auto.
Qed.

Lemma apply_writes_lookup_other : forall ws f p,
  ~ In p (map fst ws) -> fs_lookup (apply_writes ws f) p = fs_lookup f p.
Proof.
  unfold apply_writes. induction ws as [|[p0 d0] ws IH]; intros f p Hni; cbn [fold_left fst snd]; [reflexivity|].
  cbn [map fst In] in Hni. rewrite IH by tauto. apply fs_lookup_set_other. intros ->. apply Hni. left. reflexivity.
Qed.

Lemma apply_writes_lookup : forall ws f p d,
  NoDup (map fst ws) -> In (p, d) ws -> fs_lookup (apply_writes ws f) p = Some d.
Proof.
  induction ws as [|[p0 d0] ws IH]; intros f p d Hnd Hin; [destruct Hin|].
  cbn [map fst] in Hnd. apply NoDup_cons_iff in Hnd. destruct Hnd as [Hni Hnd].
  destruct Hin as [Heq|Hin].
  - injection Heq as -> ->. change (apply_writes ((p, d) :: ws) f) with (apply_writes ws (fs_set f p d)).
    rewrite apply_writes_lookup_other by exact Hni. apply fs_lookup_set_same.
  - change (apply_writes ((p0, d0) :: ws) f) with (apply_writes ws (fs_set f p0 d0)). apply IH; assumption.
Qed.

(** ** the sorted listing has the same members *)
Lemma insert_sorted_in x : forall l y, In y (insert_sorted x l) <-> y = x \/ In y l.
Proof.
  induction l as [|z l IH]; intros y; cbn [insert_sorted In].
  - split; [intros [H|[]]; left; symmetry; exact H|intros [H|[]]; left; symmetry; exact H].
  - destruct (str_ltb z x); cbn [In].
    + rewrite IH. tauto.
    + split; [intros [H|H]; [left; symmetry; exact H|right; exact H]|intros [H|H]; [left; symmetry; exact H|right; exact H]].
Qed.

Lemma sort_paths_in : forall l y, In y (sort_paths l) <-> In y l.
Proof.
  unfold sort_paths. induction l as [|x l IH]; intros y; cbn [fold_right In]; [tauto|].
  rewrite insert_sorted_in, IH. split; [intros [H|H]; [left; symmetry; exact H|right; exact H]|intros [H|H]; [left; symmetry; exact H|right; exact H]].
Qed.

(** ** the volume layout: bounds and distinct first exponents *)
Lemma volume_layout_bounds : forall fuel i count total ic,
  0 < count -> In ic (volume_layout fuel i count total) ->
  i <= fst ic /\ 0 < snd ic /\ fst ic + snd ic <= total.
Proof.
  induction fuel as [|f IH]; intros i count total ic Hc Hin; [destruct Hin|].
  cbn [volume_layout] in Hin.
  destruct (Nat.leb total i) eqn:E; [destruct Hin|]. apply Nat.leb_gt in E.
  set (c := if Nat.ltb total (i + count) then total - i else count) in *.
  assert (Hcb : 0 < c /\ i + c <= total).
  { unfold c. destruct (Nat.ltb total (i + count)) eqn:E2; [apply Nat.ltb_lt in E2|apply Nat.ltb_ge in E2]; lia. }
  destruct Hin as [<-|Hin].
  - cbn [fst snd]. lia.
  - destruct (IH (i + c) (c * 2) total ic ltac:(lia) Hin) as (H1 & H2 & H3). lia.
Qed.

Lemma volume_layout_nodup : forall fuel i count total,
  0 < count -> NoDup (map fst (volume_layout fuel i count total)).
Proof.
  induction fuel as [|f IH]; intros i count total Hc; [constructor|].
  cbn [volume_layout].
  destruct (Nat.leb total i) eqn:E; [constructor|]. apply Nat.leb_gt in E.
  set (c := if Nat.ltb total (i + count) then total - i else count) in *.
  assert (Hcb : 0 < c).
  { unfold c. destruct (Nat.ltb total (i + count)) eqn:E2; [apply Nat.ltb_lt in E2|apply Nat.ltb_ge in E2]; lia. }
  cbn [map fst]. constructor; [|apply IH; lia].
  intros Hin. apply in_map_iff in Hin. destruct Hin as (ic & Hfst & Hin).
  destruct (volume_layout_bounds f (i + c) (c * 2) total ic ltac:(lia) Hin) as (H1 & _). lia.
Qed.

(** ** the two-digit decimal of the volume names is injective on the range that occurs *)
Definition undec (l : bytes) : N := fold_left (fun v c => 10 * v + (c - 48))%N l 0%N.
Definition is_digit (c : N) : bool := (48 <=? c)%N && (c <=? 57)%N.

Lemma dec2_sweep : forallN 65536 (fun n => (undec (dec2 n) =? n)%N && forallb is_digit (dec2 n)) = true.
Proof. vm_compute. reflexivity. Qed.

Lemma dec2_inj a b : (a < 65536)%N -> (b < 65536)%N -> dec2 a = dec2 b -> a = b.
Proof.
  intros Ha Hb E.
  pose proof (crc_forallN_spec _ _ dec2_sweep a Ha) as Sa. pose proof (crc_forallN_spec _ _ dec2_sweep b Hb) as Sb.
  cbv beta in Sa, Sb. apply andb_true_iff in Sa, Sb. destruct Sa as [Sa _], Sb as [Sb _].
  apply N.eqb_eq in Sa, Sb. rewrite <- Sa, <- Sb, E. reflexivity.
Qed.

Lemma dec2_digits a : (a < 65536)%N -> forallb is_digit (dec2 a) = true.
Proof.
  intros Ha. pose proof (crc_forallN_spec _ _ dec2_sweep a Ha) as Sa. cbv beta in Sa.
  apply andb_true_iff in Sa. apply Sa.
Qed.

Lemma digits_split : forall a a' r r', forallb is_digit a = true -> forallb is_digit a' = true ->
  a ++ 43%N :: r = a' ++ 43%N :: r' -> a = a'.
Proof.
  induction a as [|x a IH]; intros [|y a'] r r' Ha Ha' E; cbn [app forallb] in *.
  - reflexivity.
  - injection E as E _. subst y. apply andb_true_iff in Ha'. destruct Ha' as [Hd _]. discriminate Hd.
  - injection E as E _. subst x. apply andb_true_iff in Ha. destruct Ha as [Hd _]. discriminate Hd.
  - injection E as -> E. apply andb_true_iff in Ha, Ha'. f_equal. apply (IH a' r r'); tauto.
Qed.

(** ** small list facts *)
Lemma omap_all_ok {A B} (f : A -> outcome B) (g : A -> B) : forall l,
  (forall x, In x l -> f x = Ok (g x)) -> omap f l = Ok (map g l).
Proof.
  induction l as [|x l IH]; intros H; [reflexivity|].
  cbn [omap map]. rewrite (H x (or_introl eq_refl)). cbn [obind].
  rewrite IH by (intros y Hy; apply H; right; exact Hy). reflexivity.
Qed.

Lemma flat_map_length_in {A B} (g : A -> list B) : forall l x, In x l -> length (g x) <= length (flat_map g l).
Proof.
  induction l as [|y l IH]; intros x Hin; [destruct Hin|]. cbn [flat_map]. rewrite app_length.
  destruct Hin as [->|Hin]; [lia|]. pose proof (IH x Hin). lia.
Qed.

Lemma flat_map_length_ge {A B} (g : A -> list B) : forall l,
  (forall x, In x l -> 0 < length (g x)) -> length l <= length (flat_map g l).
Proof.
  induction l as [|y l IH]; intros H; [cbn [flat_map length]; lia|]. cbn [flat_map length]. rewrite app_length.
  pose proof (H y (or_introl eq_refl)). pose proof (IH (fun x Hx => H x (or_intror Hx))). lia.
Qed.

Lemma list_beq_bytes_refl : forall l, list_beq_bytes l l = true.
Proof. induction l as [|x l IH]; [reflexivity|]. cbn [list_beq_bytes]. rewrite bytes_eqb_refl, IH. reflexivity. Qed.

Lemma assoc_b_map_nodup {A} (g : finfo -> A) : forall (l : list finfo) i,
  NoDup (map fi_id l) -> In i l -> assoc_b (map (fun i => (fi_id i, g i)) l) (fi_id i) = Some (g i).
Proof.
  induction l as [|x l IH]; intros i Hnd Hin; [destruct Hin|].
  cbn [map] in Hnd. apply NoDup_cons_iff in Hnd. destruct Hnd as [Hni Hnd].
  cbn [map assoc_b]. destruct (bytes_eqb (fi_id x) (fi_id i)) eqn:E.
  - apply bytes_eqb_eq in E. destruct Hin as [->|Hin]; [reflexivity|].
    exfalso. apply Hni. rewrite E. apply in_map. exact Hin.
  - destruct Hin as [->|Hin]; [rewrite bytes_eqb_refl in E; discriminate E|]. apply IH; assumption.
Qed.

Lemma find_info_nodup : forall (l : list finfo) i,
  NoDup (map fi_id l) -> In i l -> find_info l (fi_id i) = Some i.
Proof.
  induction l as [|x l IH]; intros i Hnd Hin; [destruct Hin|].
  cbn [map] in Hnd. apply NoDup_cons_iff in Hnd. destruct Hnd as [Hni Hnd].
  cbn [find_info]. destruct (bytes_eqb (fi_id x) (fi_id i)) eqn:E.
  - apply bytes_eqb_eq in E. destruct Hin as [->|Hin]; [reflexivity|].
    exfalso. apply Hni. rewrite E. apply in_map. exact Hin.
  - destruct Hin as [->|Hin]; [rewrite bytes_eqb_refl in E; discriminate E|]. apply IH; assumption.
Qed.

Lemma existsb_false_of_Forall {A} (g : A -> bool) : forall l, Forall (fun x => g x = false) l -> existsb g l = false.
Proof. induction 1 as [|x l Hx _ IH]; [reflexivity|]. cbn [existsb]. rewrite Hx, IH. reflexivity. Qed.

Lemma assoc_n_of_in {A} : forall (l : list (N * A)) e d, NoDup (map fst l) -> In (e, d) l -> assoc_n l e = Some d.
Proof.
  induction l as [|[e0 d0] l IH]; intros e d Hnd Hin; [destruct Hin|].
  cbn [map fst] in Hnd. apply NoDup_cons_iff in Hnd. destruct Hnd as [Hni Hnd]. cbn [assoc_n].
  destruct Hin as [Heq|Hin].
  - injection Heq as -> ->. rewrite N.eqb_refl. reflexivity.
  - destruct (N.eqb_spec e0 e) as [->|_]; [|apply IH; assumption].
    exfalso. apply Hni. apply (in_map fst) in Hin. exact Hin.
Qed.

(** ** the loading phases succeed when every file they read is present *)
Section LoadOk.
  Variable md5 : bytes -> bytes.

  Lemma load_files_succeeds d w t : forall todo fis st, io_sched st = [] ->
    (forall i info, In (i, info) todo ->
       exists data, fs_lookup (io_fs st) (file_path (d_index d) (di_name info)) = Some data) ->
    exists fis' st', load_files md5 d w t todo fis st = (Ok fis', st') /\ io_sched st' = [] /\ io_fs st' = io_fs st.
  Proof.
    induction todo as [|[i info] r IH]; intros fis st Hs Hall; cbn [load_files].
    - exists fis, st. repeat split; assumption.
    - destruct (Hall i info (or_introl eq_refl)) as (data & Hlk).
      destruct (io_read_some _ st data Hs Hlk) as (st1 & ER & Hs1 & Hf1).
      rewrite ER. cbv beta iota zeta.
      assert (Hall' : forall i' info', In (i', info') r ->
                exists data', fs_lookup (io_fs st1) (file_path (d_index d) (di_name info')) = Some data').
      { intros i' info' Hin. rewrite Hf1. apply (Hall i' info'). right. exact Hin. }
      match goal with |- exists fis' st', load_files md5 d w t r ?F st1 = _ /\ _ =>
        destruct (IH F st1 Hs1 Hall') as (fis' & st' & E & Hs' & Hf') end.
      exists fis', st'. split; [exact E|]. split; [exact Hs'|congruence].
  Qed.

  Lemma load_parity_ok d (E : list N -> N -> Prop) : forall paths acc st, io_sched st = [] ->
    (forall p, In p paths -> exists b sid f, fs_lookup (io_fs st) p = Some b /\
        read_file_vol md5 (d_setid d) b = RFOk sid f /\
        pf_main f = Some {| mp_slice := d_slice d; mp_rec := map di_id (d_rec d); mp_nonrec := map di_id (d_nonrec d) |} /\
        Forall (fun ed : N * bytes => N.of_nat (length (snd ed)) = d_slice d) (pf_recv f) /\
        (forall e, In e (map fst (pf_recv f)) <-> E p e)) ->
    exists acc' st', load_parity md5 d paths acc st = (Ok acc', st') /\
      (forall e, In e (map fst acc') <-> In e (map fst acc) \/ exists p, In p paths /\ E p e).
  Proof.
    induction paths as [|p r IH]; intros acc st Hs Hall; cbn [load_parity].
    - exists acc, st. split; [reflexivity|]. intros e. split; [tauto|]. intros [H|(p & [] & _)]. exact H.
    - destruct (Hall p (or_introl eq_refl)) as (b & sid & f & Hlk & Hrf & Hm & Hlen & HE).
      destruct (io_read_some _ st b Hs Hlk) as (st1 & ER & Hs1 & Hf1).
      rewrite ER, Hrf, Hm. cbn [mp_slice mp_rec mp_nonrec].
      rewrite N.eqb_refl, !list_beq_bytes_refl. cbn [andb negb].
      assert (EX : existsb (fun ed : N * bytes => negb (N.of_nat (length (snd ed)) =? d_slice d)%N) (pf_recv f) = false).
      { apply existsb_false_of_Forall. revert Hlen. apply Forall_impl. intros ed Hed. rewrite Hed, N.eqb_refl. reflexivity. }
      rewrite EX.
      assert (Hall' : forall p', In p' r -> exists b' sid' f', fs_lookup (io_fs st1) p' = Some b' /\
                read_file_vol md5 (d_setid d) b' = RFOk sid' f' /\
                pf_main f' = Some {| mp_slice := d_slice d; mp_rec := map di_id (d_rec d); mp_nonrec := map di_id (d_nonrec d) |} /\
                Forall (fun ed : N * bytes => N.of_nat (length (snd ed)) = d_slice d) (pf_recv f') /\
                (forall e, In e (map fst (pf_recv f')) <-> E p' e)).
      { intros p' Hin. rewrite Hf1. apply Hall. right. exact Hin. }
      destruct (IH (pf_recv f ++ acc) st1 Hs1 Hall') as (acc' & st' & EL & Hacc).
      exists acc', st'. split; [exact EL|]. intros e. rewrite Hacc, map_app, in_app_iff.
      split.
      + intros [[H|H]|(p' & Hp' & He)]; [right; exists p; split; [left; reflexivity|apply HE; exact H]|left; exact H|].
        right. exists p'. split; [right; exact Hp'|exact He].
      + intros [H|(p' & [<-|Hp'] & He)]; [left; right; exact H|left; left; apply HE; exact He|].
        right. exists p'. split; assumption.
  Qed.

  Lemma load_all_ok ix st d st1 w fis st2 paths st3 acc st4 :
    str_eqb (ext ix) EXT_PAR2 = true ->
    new_decoder md5 ix st = (Ok d, st1) ->
    win_new (Z.of_N (d_slice d)) = Ok w ->
    load_files md5 d w (make_cstable (d_rec d)) (combine (seq 0 (length (d_rec d))) (d_rec d)) (fis0 d) st1 = (Ok fis, st2) ->
    io_list (strip_ext ix ++ [DOT]) (ext ix) st2 = (Ok paths, st3) ->
    load_parity md5 d paths [] st3 = (Ok acc, st4) ->
    load_all md5 ix st =
      (Ok {| ds_dec := d; ds_fis := fis; ds_tbl := make_cstable (d_rec d); ds_parity := parity_array acc |}, st4).
  Proof.
    intros He Hd Hw Hlf Hil Hlp. unfold load_all. rewrite He. cbn [negb]. rewrite Hd, Hw. cbv zeta.
    fold (fis0 d). rewrite Hlf, Hil, Hlp. reflexivity.
  Qed.
End LoadOk.

Lemma Forall2_in_l {A B} (R : A -> B -> Prop) : forall l l', Forall2 R l l' ->
  forall x, In x l -> exists y, In y l' /\ R x y.
Proof.
  induction 1 as [|a b l l' Hab _ IH]; intros x Hin; [destruct Hin|].
  destruct Hin as [<-|Hin]; [exists b; split; [left; reflexivity|exact Hab]|].
  destruct (IH x Hin) as (y & Hy & Hr). exists y. split; [right; exact Hy|exact Hr].
Qed.

Lemma Forall2_in_r {A B} (R : A -> B -> Prop) : forall l l', Forall2 R l l' ->
  forall y, In y l' -> exists x, In x l /\ R x y.
Proof.
  induction 1 as [|a b l l' Hab _ IH]; intros y Hin; [destruct Hin|].
  destruct Hin as [<-|Hin]; [exists a; split; [left; reflexivity|exact Hab]|].
  destruct (IH y Hin) as (x & Hx & Hr). exists x. split; [right; exact Hx|exact Hr].
Qed.

Lemma Forall2_map_eq {A B C} (R : A -> B -> Prop) (f : A -> C) (g : B -> C) : forall l l',
  Forall2 R l l' -> (forall x y, R x y -> g y = f x) -> map g l' = map f l.
Proof.
  induction 1 as [|a b l l' Hab _ IH]; intros H; [reflexivity|]. cbn [map]. rewrite (H a b Hab), IH by exact H. reflexivity.
Qed.

Lemma Forall2_impl' {A B} (R R' : A -> B -> Prop) : (forall x y, R x y -> R' x y) ->
  forall l l', Forall2 R l l' -> Forall2 R' l l'.
Proof. intros H l l'. induction 1; constructor; auto. Qed.

Lemma NoDup_map_by {A B C} (f : A -> B) (g : A -> C) : forall l,
  NoDup (map f l) -> (forall x y, In x l -> In y l -> g x = g y -> f x = f y) -> NoDup (map g l).
Proof.
  induction l as [|a l IH]; intros Hnd Hinj; [constructor|].
  cbn [map] in *. apply NoDup_cons_iff in Hnd. destruct Hnd as [Hni Hnd]. constructor.
  - intros Hin. apply in_map_iff in Hin. destruct Hin as (y & Hy & Hyl). apply Hni.
    rewrite (Hinj a y (or_introl eq_refl) (or_intror Hyl) (eq_sym Hy)). apply in_map. exact Hyl.
  - apply IH; [exact Hnd|]. intros x y Hx Hy. apply Hinj; right; assumption.
Qed.

Section CreateVerify.
  Variable md5 : bytes -> bytes.
  Hypothesis md5_len : forall x, length (md5 x) = 16.
  Variables (parPath : list N) (sz np : nat) (names datas : list bytes) (outs : list (list N * bytes)).
  Hypothesis Hcreate : create_outputs md5 parPath sz np names datas = Ok outs.
  Hypothesis Hsz4 : 4 <= sz.
  Hypothesis Hszmax : (N.of_nat sz <= MAXSLICE)%N.
  Hypothesis Hnames : Forall (fun nm : bytes => no_nul nm /\ (N.of_nat (length nm) < 2 ^ 32)%N) names.
  Hypothesis Hdatas : Forall (fun d : bytes => wf_bytes d /\ (N.of_nat (length d) <= MAXINT)%N) datas.

  Let infos := map (fun nd : bytes * bytes => data_file_info md5 sz (fst nd) (snd nd)) (combine names datas).
  Hypothesis Hnd : NoDup (map fi_id infos).

  Let rinfos := rev infos.
  Let recset := sort_ids (map fi_id infos).
  Let shards := flat_map (fun id => match find_info rinfos id with Some i => fi_slices i | None => [] end) recset.
  Let parity := gen_parity {| c_data := length shards; c_parity := np; c_pm := vandermonde_pm (length shards) np |}
                           (map le_words shards).
  Let m := {| mp_slice := N.of_nat sz; mp_rec := recset; mp_nonrec := [] |}.
  Let fds := map (fun i => (fi_id i, fi_desc i)) rinfos.
  Let ifs := map (fun i => (fi_id i, fi_pairs i)) rinfos.
  Let basep := strip_ext parPath.
  Let volrecv (i c : nat) : list (N * bytes) := map (fun e => (N.of_nat e, le_bytes (nth e parity []))) (seq i c).
  Let volpath (i c : nat) : list N :=
    basep ++ [46; 118; 111; 108]%N ++ dec2 (N.of_nat i) ++ [43%N] ++ dec2 (N.of_nat c) ++ EXT_PAR2.
  Let layout := volume_layout (S np) 0 1 np.

  Lemma co_unfold : create_outputs md5 parPath sz np names datas =
    if Nat.eqb (length shards) 0 then Panic PExplicit
    else if (32768 <? N.of_nat (length shards))%N then Err EOther
    else if (65535 <? N.of_nat np)%N then Err EOther
    else
      do ix <- write_file md5 CLIENT_ID m fds ifs [];
      do vols <- omap (fun ic : nat * nat =>
                   let '(i, c) := ic in
                   do vb <- write_file md5 CLIENT_ID m fds ifs (volrecv i c);
                   Ok (volpath i c, snd vb)) layout;
      Ok ((basep ++ EXT_PAR2, snd ix) :: vols).
  Proof. reflexivity. Qed.

  Lemma co_inv : 0 < length shards /\ (N.of_nat (length shards) <= 32768)%N /\ (N.of_nat np <= 65535)%N /\
    exists sid ixb vols, write_file md5 CLIENT_ID m fds ifs [] = Ok (sid, ixb) /\
      Forall2 (fun (ic : nat * nat) (v : list N * bytes) =>
                 exists sid' vb, write_file md5 CLIENT_ID m fds ifs (volrecv (fst ic) (snd ic)) = Ok (sid', vb) /\
                                 v = (volpath (fst ic) (snd ic), vb)) layout vols /\
      outs = (basep ++ EXT_PAR2, ixb) :: vols.
  Proof.
    pose proof Hcreate as H. rewrite co_unfold in H.
    destruct (Nat.eqb (length shards) 0) eqn:E0; [discriminate H|]. apply Nat.eqb_neq in E0.
    destruct (32768 <? N.of_nat (length shards))%N eqn:E1; [discriminate H|]. apply N.ltb_ge in E1.
    destruct (65535 <? N.of_nat np)%N eqn:E2; [discriminate H|]. apply N.ltb_ge in E2.
    destruct (write_file md5 CLIENT_ID m fds ifs []) as [[sid ixb]|e|q] eqn:EW; cbn [obind] in H; try discriminate H.
    match type of H with obind (omap ?F ?l) _ = _ => destruct (omap F l) as [vols|e|q] eqn:EV end;
      cbn [obind] in H; try discriminate H.
    split; [lia|]. split; [exact E1|]. split; [exact E2|].
    exists sid, ixb, vols. split; [reflexivity|]. split.
    - apply omap_ok_inv in EV. revert EV. apply Forall2_impl'. intros [i c] v Hv. cbn [fst snd].
      destruct (write_file md5 CLIENT_ID m fds ifs (volrecv i c)) as [[sid' vb]|e|q]; cbn [obind] in Hv; try discriminate Hv.
      exists sid', vb. split; [reflexivity|]. cbn [snd] in Hv. congruence.
    - cbn [snd] in H. congruence.
  Qed.

  (** *** the infos *)
  Lemma info_in i : In i infos ->
    exists name data, In (name, data) (combine names datas) /\ i = data_file_info md5 sz name data.
  Proof.
    unfold infos. intros H. apply in_map_iff in H. destruct H as ([n d] & <- & Hin).
    exists n, d. split; [exact Hin|reflexivity].
  Qed.

  Lemma pair_ok name data : In (name, data) (combine names datas) ->
    no_nul name /\ (N.of_nat (length name) < 2 ^ 32)%N /\ wf_bytes data /\ (N.of_nat (length data) <= MAXINT)%N.
  Proof.
    intros H. pose proof (in_combine_l _ _ _ _ H) as Hl. pose proof (in_combine_r _ _ _ _ H) as Hr.
    destruct (proj1 (Forall_forall _ _) Hnames _ Hl) as [H1 H2].
    destruct (proj1 (Forall_forall _ _) Hdatas _ Hr) as [H3 H4]. repeat split; assumption.
  Qed.

  Lemma recset_in id : In id recset <-> exists i, In i infos /\ fi_id i = id.
  Proof.
    unfold recset. split.
    - intros H. apply (Permutation_in _ (Permutation_sym (sort_ids_perm _))) in H.
      apply in_map_iff in H. destruct H as (i & E & Hi). exists i. split; assumption.
    - intros (i & Hi & <-). apply (Permutation_in _ (sort_ids_perm _)). apply in_map. exact Hi.
  Qed.

  Lemma recset_nd : NoDup recset.
  Proof. unfold recset. apply (Permutation_NoDup (sort_ids_perm _)). exact Hnd. Qed.

  Lemma rinfos_nd : NoDup (map fi_id rinfos).
  Proof. unfold rinfos. rewrite map_rev. apply NoDup_rev. exact Hnd. Qed.

  Lemma rinfos_in i : In i infos -> In i rinfos.
  Proof. unfold rinfos. intros H. apply -> in_rev. exact H. Qed.

  Lemma fds_at i : In i infos -> assoc_b fds (fi_id i) = Some (fi_desc i).
  Proof. intros H. unfold fds. apply (assoc_b_map_nodup fi_desc); [exact rinfos_nd|apply rinfos_in; exact H]. Qed.

  Lemma ifs_at i : In i infos -> assoc_b ifs (fi_id i) = Some (fi_pairs i).
  Proof. intros H. unfold ifs. apply (assoc_b_map_nodup fi_pairs); [exact rinfos_nd|apply rinfos_in; exact H]. Qed.

  Lemma find_at i : In i infos -> find_info rinfos (fi_id i) = Some i.
  Proof. intros H. apply find_info_nodup; [exact rinfos_nd|apply rinfos_in; exact H]. Qed.

  (** *** slices, shards, recovery blocks *)
  Lemma slices_len data s : In s (slices_of sz data) -> length s = sz.
  Proof.
    rewrite slices_of_windows by lia. intros H. apply in_map_iff in H. destruct H as (k & <- & _).
    apply take_pad_length.
  Qed.

  Lemma slices_wf data s : wf_bytes data -> In s (slices_of sz data) -> wf_bytes s.
  Proof.
    intros Hw. rewrite slices_of_windows by lia. intros H. apply in_map_iff in H. destruct H as (k & <- & _).
    apply take_pad_wf. apply Forall_skipn'. exact Hw.
  Qed.

  Lemma slices_count data : length (slices_of sz data) = (length data + sz - 1) / sz.
  Proof. rewrite slices_of_windows by lia. rewrite map_length, seq_length. reflexivity. Qed.

  Lemma shards_len : Forall (fun s : bytes => length s = sz) shards.
  Proof.
    apply Forall_forall. intros s Hs. unfold shards in Hs. apply in_flat_map in Hs. destruct Hs as (id & Hid & Hs).
    apply recset_in in Hid. destruct Hid as (i & Hi & <-). rewrite (find_at i Hi) in Hs.
    destruct (info_in i Hi) as (name & data & _ & ->). cbn [data_file_info fi_slices] in Hs.
    apply (slices_len data s Hs).
  Qed.

  Lemma info_slices_bound i : In i infos -> length (fi_slices i) <= length shards.
  Proof.
    intros Hi. unfold shards.
    pose proof (flat_map_length_in (fun id => match find_info rinfos id with Some i => fi_slices i | None => [] end)
                  recset (fi_id i)) as H.
    cbv beta in H. rewrite (find_at i Hi) in H. apply H. apply recset_in. exists i. split; [exact Hi|reflexivity].
  Qed.

  Lemma index_written : exists sid ixb, write_file md5 CLIENT_ID m fds ifs [] = Ok (sid, ixb).
  Proof. destruct co_inv as (_ & _ & _ & sid & ixb & vols & EW & _). exists sid, ixb. exact EW. Qed.

  Lemma sz_mod4 : sz mod 4 = 0.
  Proof.
    destruct index_written as (sid & ixb & EW).
    destruct (write_file_frames md5 _ _ _ _ _ _ _ EW) as (_ & _ & (mb & E) & _).
    unfold write_main, m in E. cbn [mp_slice] in E.
    destruct ((N.of_nat sz =? 0) || negb (N.of_nat sz mod 4 =? 0))%N eqn:E1; [discriminate E|].
    apply orb_false_iff in E1. destruct E1 as [_ E1]. apply negb_false_iff in E1. apply N.eqb_eq in E1.
    apply Nat2N.inj. rewrite Nat2N.inj_mod. exact E1.
  Qed.

  Lemma info_slices_pos i : In i infos -> 0 < length (fi_slices i).
  Proof.
    intros Hi. destruct index_written as (sid & ixb & EW).
    destruct (write_file_frames md5 _ _ _ _ _ _ _ EW) as (_ & _ & _ & Hf & _).
    unfold m in Hf. cbn [mp_rec mp_nonrec] in Hf. rewrite app_nil_r in Hf. rewrite Forall_forall in Hf.
    destruct (Hf (fi_id i)) as (d & ps & db & ib & _ & Ep & _ & Eib).
    { apply recset_in. exists i. split; [exact Hi|reflexivity]. }
    rewrite (ifs_at i Hi) in Ep. injection Ep as <-.
    destruct (info_in i Hi) as (name & data & _ & ->). cbn [data_file_info fi_pairs fi_slices] in *.
    destruct (slices_of sz data); [discriminate Eib|cbn [length]; lia].
  Qed.

  Lemma recset_len : length recset <= length shards.
  Proof.
    unfold shards. apply flat_map_length_ge. intros id Hid. apply recset_in in Hid. destruct Hid as (i & Hi & <-).
    rewrite (find_at i Hi). apply info_slices_pos. exact Hi.
  Qed.

  Lemma shards_bound : 0 < length shards /\ (N.of_nat (length shards) <= 32768)%N /\ (N.of_nat np <= 65535)%N.
  Proof. destruct co_inv as (H1 & H2 & H3 & _). repeat split; assumption. Qed.

  Lemma ww_of recv :
    Forall (fun ed : N * bytes => (fst ed <= 65535)%N /\ (N.of_nat (length (snd ed)) <= 2 ^ 40)%N) recv ->
    NoDup (map fst recv) -> wf_write CLIENT_ID m fds ifs recv.
  Proof.
    intros Hr Hrn. destruct shards_bound as (Hs0 & Hs1 & _). pose proof recset_len as Hrl.
    constructor; unfold m; cbn [mp_slice mp_rec mp_nonrec]; try rewrite app_nil_r.
    - reflexivity.
    - apply Forall_forall. intros id Hid. apply recset_in in Hid. destruct Hid as (i & Hi & <-).
      destruct (info_in i Hi) as (name & data & _ & ->). cbn [data_file_info fi_id]. apply md5_len.
    - pow_norm. lia.
    - exact Hszmax.
    - intros id d Hid Ed. apply recset_in in Hid. destruct Hid as (i & Hi & <-).
      rewrite (fds_at i Hi) in Ed. injection Ed as <-.
      destruct (info_in i Hi) as (name & data & Hnd' & ->). destruct (pair_ok name data Hnd') as (P1 & P2 & P3 & P4).
      cbn [data_file_info fi_desc fd_hash fd_hash16k fd_len fd_name].
      split; [apply md5_len|]. split; [apply md5_len|]. repeat split; assumption.
    - intros id ps Hid Ep. apply recset_in in Hid. destruct Hid as (i & Hi & <-).
      rewrite (ifs_at i Hi) in Ep. injection Ep as <-.
      pose proof (info_slices_bound i Hi) as Hb.
      destruct (info_in i Hi) as (name & data & Hnd' & ->). destruct (pair_ok name data Hnd') as (P1 & P2 & P3 & P4).
      cbn [data_file_info fi_pairs fi_slices] in *. split.
      + apply Forall_forall. intros p Hp. apply in_map_iff in Hp. destruct Hp as (s & <- & Hs). cbn [fst snd].
        split; [apply md5_len|]. apply crc32_bound. apply (slices_wf data s P3 Hs).
      + rewrite map_length. pow_norm. lia.
    - exact Hr.
    - exact Hrn.
  Qed.

  Lemma parity_shape : length parity = np /\ Forall (fun r : list N => length r = sz / 2) parity.
  Proof.
    unfold parity, gen_parity, apply_matrix, mmul16, Matrix.mmul. cbn [c_pm]. split.
    - rewrite map_length. unfold vandermonde_pm. rewrite map_length, seq_length. reflexivity.
    - destruct shards_bound as (Hs0 & _).
      assert (HD : Forall (fun v : list N => length v = sz / 2) (map le_words shards)).
      { apply Forall_forall. intros v Hv. apply in_map_iff in Hv. destruct Hv as (s & <- & Hs).
        apply le_words_length. rewrite (proj1 (Forall_forall _ _) shards_len s Hs).
        pose proof sz_mod4 as M4. pose proof (Nat.div_mod sz 4 ltac:(discriminate)) as DM.
        rewrite M4 in DM. rewrite DM at 2. replace (4 * (sz / 4) + 0) with ((sz / 4 * 2) * 2) by lia.
        rewrite Nat.div_mul by discriminate. lia. }
      assert (HL : shard_len (map le_words shards) = sz / 2).
      { unfold shard_len. destruct shards as [|s0 sh]; [cbn [length] in Hs0; lia|].
        cbn [map hd]. inversion HD as [|? ? Hx _]. exact Hx. }
      rewrite HL. apply Forall_forall. intros v Hv. apply in_map_iff in Hv. destruct Hv as (r & <- & _).
      apply lincomb_length. exact HD.
  Qed.

  Lemma parity_row e : e < np -> length (le_bytes (nth e parity [])) = sz.
  Proof.
    intros He. destruct parity_shape as [Hl Hf]. rewrite le_bytes_length.
    rewrite (proj1 (Forall_forall _ _) Hf (nth e parity [])) by (apply nth_In; lia).
    pose proof sz_mod4 as M4. pose proof (Nat.div_mod sz 4 ltac:(discriminate)) as DM. rewrite M4 in DM.
    rewrite DM at 1 2. replace (4 * (sz / 4) + 0) with ((sz / 4 * 2) * 2) by lia.
    rewrite Nat.div_mul by discriminate. lia.
  Qed.

  (** *** the volumes *)
  Lemma layout_bounds ic : In ic layout -> 0 < snd ic /\ fst ic + snd ic <= np.
  Proof.
    intros H. destruct (volume_layout_bounds (S np) 0 1 np ic ltac:(lia) H) as (_ & H2 & H3). split; assumption.
  Qed.

  Lemma layout_nd : NoDup (map fst layout).
  Proof. apply volume_layout_nodup. lia. Qed.

  Lemma layout_eq ic ic' : In ic layout -> In ic' layout -> fst ic = fst ic' -> ic = ic'.
  Proof.
    intros H1 H2 E. destruct ic as [i c], ic' as [i' c']. cbn [fst] in E. subst i'.
    rewrite (nodup_keys_fun layout i c c' layout_nd H1 H2). reflexivity.
  Qed.

  Lemma volrecv_ok i c : i + c <= np ->
    Forall (fun ed : N * bytes => (fst ed <= 65535)%N /\ (N.of_nat (length (snd ed)) <= 2 ^ 40)%N) (volrecv i c) /\
    NoDup (map fst (volrecv i c)).
  Proof.
    intros Hic. destruct shards_bound as (_ & _ & Hnp). split.
    - apply Forall_forall. intros ed Hed. unfold volrecv in Hed. apply in_map_iff in Hed.
      destruct Hed as (e & <- & He). apply in_seq in He. cbn [fst snd].
      split; [lia|]. rewrite parity_row by lia. exact Hszmax.
    - unfold volrecv. rewrite map_map. cbn [fst].
      apply (NoDup_map_by (fun e : nat => e) (fun e : nat => N.of_nat e)).
      + rewrite map_id. apply seq_NoDup.
      + intros x y _ _ E. apply Nat2N.inj. exact E.
  Qed.

  Lemma volpath_inj i c i' c' : (N.of_nat i < 65536)%N -> (N.of_nat i' < 65536)%N ->
    volpath i c = volpath i' c' -> i = i'.
  Proof.
    intros Hi Hi' E. unfold volpath in E. apply app_inv_head in E. cbn [app] in E.
    injection E as E.
    apply digits_split in E; [|apply dec2_digits; exact Hi|apply dec2_digits; exact Hi'].
    apply dec2_inj in E; [|exact Hi|exact Hi']. apply Nat2N.inj. exact E.
  Qed.

  (** *** the decoder built from the written index *)
  Definition dinfo_of (i : finfo) : dinfo :=
    {| di_id := fi_id i; di_name := fd_name (fi_desc i); di_len := fd_len (fi_desc i);
       di_h16 := fd_hash16k (fi_desc i); di_hash := fd_hash (fi_desc i); di_pairs := fi_pairs i |}.
  Let info_at (id : bytes) : finfo :=
    match find_info rinfos id with Some i => i | None => data_file_info md5 sz [] [] end.
  Let recs := map (fun id => dinfo_of (info_at id)) recset.

  Lemma info_at_id i : In i infos -> info_at (fi_id i) = i.
  Proof. intros Hi. unfold info_at. rewrite (find_at i Hi). reflexivity. Qed.

  Lemma recs_ids : map di_id recs = recset.
  Proof.
    unfold recs. rewrite map_map. rewrite <- (map_id recset) at 2. apply map_ext_in. intros id Hid.
    apply recset_in in Hid. destruct Hid as (i & Hi & <-). rewrite (info_at_id i Hi). reflexivity.
  Qed.

  Lemma recs_in info : In info recs -> exists name data, In (name, data) (combine names datas) /\
    info = dinfo_of (data_file_info md5 sz name data).
  Proof.
    unfold recs. intros H. apply in_map_iff in H. destruct H as (id & <- & Hid).
    apply recset_in in Hid. destruct Hid as (i & Hi & <-). rewrite (info_at_id i Hi).
    destruct (info_in i Hi) as (name & data & Hnd' & ->). exists name, data. split; [exact Hnd'|reflexivity].
  Qed.

  Lemma make_infos_index f :
    (forall id, In id recset -> assoc_b (pf_fdesc f) id = assoc_b fds id /\ assoc_b (pf_ifsc f) id = assoc_b ifs id) ->
    make_infos (N.of_nat sz) recset f = Ok recs.
  Proof.
    intros Hf. unfold make_infos, recs. apply omap_all_ok. intros id Hid.
    destruct (Hf id Hid) as [E1 E2]. rewrite E1, E2.
    apply recset_in in Hid. destruct Hid as (i & Hi & <-).
    rewrite (fds_at i Hi), (ifs_at i Hi), (info_at_id i Hi).
    destruct (info_in i Hi) as (name & data & _ & ->).
    cbn [data_file_info fi_desc fi_pairs fd_len fd_name fd_hash fd_hash16k].
    assert (E : (N.of_nat (length (map (fun s => (md5 s, crc32 s)) (slices_of sz data))) =?
                 (N.of_nat (length data) + N.of_nat sz - 1) / N.of_nat sz)%N = true).
    { apply N.eqb_eq. rewrite map_length, slices_count, Nat2N.inj_div. f_equal. lia. }
    rewrite E. reflexivity.
  Qed.

  (** *** the file system after Create *)
  Variable fs0 : list (list N * bytes).
  Let ix := basep ++ EXT_PAR2.
  Let fs := apply_writes outs fs0.
  Let pat (q : list N) : bool :=
    Nat.leb (length (basep ++ [DOT]) + length EXT_PAR2) (length q) && starts_with q (basep ++ [DOT]) && ends_with q EXT_PAR2
    && no_slash (skipn (length (basep ++ [DOT])) q).
  Hypothesis Hinputs : forall name data, In (name, data) (combine names datas) ->
    fs_lookup fs0 (file_path ix name) = Some data.
  Hypothesis Hdisj : forall name, In name names -> ~ In (file_path ix name) (map fst outs).
  Hypothesis Hstale : forall q, In q (map fst fs0) -> pat q = true -> In q (map fst outs).

  Lemma ext_ix : ext ix = EXT_PAR2.
  Proof. unfold ix, ext. rewrite rev_app_distr. reflexivity. Qed.

  Lemma strip_ix : strip_ext ix = basep.
  Proof.
    unfold strip_ext. rewrite ext_ix. unfold ix. rewrite app_length.
    replace (length basep + length EXT_PAR2 - length EXT_PAR2) with (length basep) by lia.
    apply firstn_app_len. reflexivity.
  Qed.

  Lemma vols_paths vols :
    Forall2 (fun (ic : nat * nat) (v : list N * bytes) =>
               exists sid' vb, write_file md5 CLIENT_ID m fds ifs (volrecv (fst ic) (snd ic)) = Ok (sid', vb) /\
                               v = (volpath (fst ic) (snd ic), vb)) layout vols ->
    map fst vols = map (fun ic => volpath (fst ic) (snd ic)) layout.
  Proof.
    intros F. apply (Forall2_map_eq _ _ _ _ _ F). intros ic v (sid' & vb & _ & ->). reflexivity.
  Qed.

  Lemma layout_lt ic : In ic layout -> (N.of_nat (fst ic) < 65536)%N.
  Proof. intros H. destruct (layout_bounds ic H). destruct shards_bound as (_ & _ & Hnp). lia. Qed.

  Lemma volpaths_nd : NoDup (map (fun ic => volpath (fst ic) (snd ic)) layout).
  Proof.
    apply (NoDup_map_by fst); [exact layout_nd|]. intros x y Hx Hy E.
    apply (volpath_inj _ _ _ _ (layout_lt x Hx) (layout_lt y Hy) E).
  Qed.

  Lemma pat_vol i c : pat (volpath i c) = true.
  Proof.
    unfold pat, volpath. apply andb_true_iff. split; [apply andb_true_iff; split; [apply andb_true_iff; split|]|].
    - apply Nat.leb_le. rewrite !app_length. cbn [length]. lia.
    - unfold starts_with.
      replace (basep ++ [46; 118; 111; 108]%N ++ dec2 (N.of_nat i) ++ [43%N] ++ dec2 (N.of_nat c) ++ EXT_PAR2)
        with ((basep ++ [DOT]) ++ [118; 111; 108]%N ++ dec2 (N.of_nat i) ++ [43%N] ++ dec2 (N.of_nat c) ++ EXT_PAR2)
        by (rewrite <- app_assoc; reflexivity).
      rewrite (firstn_app_len _ _ _ eq_refl). apply str_eqb_refl.
    - unfold ends_with.
      replace (basep ++ [46; 118; 111; 108]%N ++ dec2 (N.of_nat i) ++ [43%N] ++ dec2 (N.of_nat c) ++ EXT_PAR2)
        with ((basep ++ [46; 118; 111; 108]%N ++ dec2 (N.of_nat i) ++ [43%N] ++ dec2 (N.of_nat c)) ++ EXT_PAR2)
        by (rewrite <- !app_assoc; reflexivity).
      rewrite app_length.
      match goal with |- context [skipn (?a + ?b - ?b)] => replace (a + b - b) with a by lia end.
      rewrite (skipn_app_len _ _ _ eq_refl). apply str_eqb_refl.
    - apply no_slash_vol_path.
  Qed.

  Lemma pat_ix : pat ix = false.
  Proof.
    unfold pat, ix. rewrite !app_length. cbn [length].
    match goal with |- Nat.leb ?a ?b && _ && _ && _ = false =>
      assert (E : Nat.leb a b = false) by (apply Nat.leb_gt; lia); rewrite E end.
    reflexivity.
  Qed.

  Lemma ix_not_vol i c : ix <> volpath i c.
  Proof. unfold ix, volpath. intros E. apply app_inv_head in E. cbn [app] in E. discriminate E. Qed.

  Theorem create_then_verify_section :
    exists c st, par2_verify md5 ix (io_init fs []) = (Ok c, st) /\ repair_needed c = false /\ c_pusable c = np.
  Proof.
    destruct co_inv as (_ & _ & Hnp & sid & ixb & vols & EW & F2 & Eouts).
    pose proof (vols_paths vols F2) as Evp.
    assert (Hond : NoDup (map fst outs)).
    { rewrite Eouts. cbn [map fst]. rewrite Evp. constructor; [|exact volpaths_nd].
      intros Hin. apply in_map_iff in Hin. destruct Hin as (ic & E & _). exact (ix_not_vol _ _ (eq_sym E)). }
    assert (Lix : fs_lookup fs ix = Some ixb).
    { unfold fs. apply apply_writes_lookup; [exact Hond|]. rewrite Eouts. left. reflexivity. }
    assert (Lvol : forall p b, In (p, b) vols -> fs_lookup fs p = Some b).
    { intros p b Hin. unfold fs. apply apply_writes_lookup; [exact Hond|]. rewrite Eouts. right. exact Hin. }
    assert (Lin : forall name data, In (name, data) (combine names datas) ->
                  fs_lookup fs (file_path ix name) = Some data).
    { intros name data Hin. unfold fs. rewrite apply_writes_lookup_other.
      - apply Hinputs. exact Hin.
      - apply Hdisj. apply (in_combine_l _ _ _ _ Hin). }
    (* the index file and the decoder *)
    destruct (read_written_file md5 md5_len CLIENT_ID m fds ifs [] sid ixb EW (ww_of [] (Forall_nil _) (NoDup_nil _)))
      as (f & _ & Rix & Hm & Hfi & Hrecv & _).
    assert (Hr0 : pf_recv f = []).
    { remember (pf_recv f) as rr eqn:Err. destruct rr as [|[e dd] r]; [reflexivity|]. exfalso.
      apply (proj1 (Hrecv e dd)). cbn [assoc_n]. rewrite N.eqb_refl. reflexivity. }
    set (d := {| d_index := ix; d_setid := sid; d_slice := N.of_nat sz; d_rec := recs; d_nonrec := [] |}).
    destruct (io_read_some ix (io_init fs []) ixb eq_refl Lix) as (st1 & ER & Hs1 & Hf1). cbn [io_init io_fs] in Hf1.
    assert (ND : new_decoder md5 ix (io_init fs []) = (Ok d, st1)).
    { unfold new_decoder. rewrite ER, Rix, Hm, Hr0.
      change (mp_slice m) with (N.of_nat sz). change (mp_rec m) with recset. change (mp_nonrec m) with (@nil bytes).
      rewrite (make_infos_index f).
      2:{ intros id Hid. apply Hfi. unfold m. cbn [mp_rec mp_nonrec]. rewrite app_nil_r. exact Hid. }
      reflexivity. }
    assert (HW : exists w, win_new (Z.of_N (d_slice d)) = Ok w).
    { unfold win_new, d. cbn [d_slice].
      destruct (Z.ltb_spec (Z.of_N (N.of_nat sz)) 4) as [Hlt|_]; [lia|]. eexists. reflexivity. }
    destruct HW as (w & HW).
    destruct (load_files_succeeds md5 d w (make_cstable (d_rec d)) (combine (seq 0 (length (d_rec d))) (d_rec d))
                (fis0 d) st1 Hs1) as (fis & st2 & LF & Hs2 & Hf2).
    { intros i info Hin. apply in_combine_r in Hin. unfold d in Hin. cbn [d_rec] in Hin.
      destruct (recs_in info Hin) as (name & data & Hnd' & ->).
      exists data. rewrite Hf1. unfold d. cbn [d_index dinfo_of di_name data_file_info fi_desc fd_name].
      apply Lin. exact Hnd'. }
    set (paths := sort_paths (filter (fun q => Nat.leb (length (strip_ext ix ++ [DOT]) + length (ext ix)) (length q)
                                               && starts_with q (strip_ext ix ++ [DOT]) && ends_with q (ext ix)
                                               && no_slash (skipn (length (strip_ext ix ++ [DOT])) q))
                                     (map fst (io_fs st2)))).
    assert (IL : exists st3, io_list (strip_ext ix ++ [DOT]) (ext ix) st2 = (Ok paths, st3) /\
                             io_sched st3 = [] /\ io_fs st3 = fs).
    { unfold io_list. rewrite Hs2. cbn [sched_lookup]. eexists. split; [reflexivity|].
      cbn [tick io_sched io_fs]. split; [exact Hs2|congruence]. }
    destruct IL as (st3 & IL & Hs3 & Hf3).
    assert (Hpaths : forall p, In p paths <-> In p (map fst fs) /\ pat p = true).
    { intros p. unfold paths. rewrite sort_paths_in, filter_In. cbv beta. rewrite strip_ix, ext_ix, Hf2, Hf1. reflexivity. }
    set (E := fun (p : list N) (e : N) =>
                exists ic, In ic layout /\ p = volpath (fst ic) (snd ic) /\
                           exists k, In k (seq (fst ic) (snd ic)) /\ e = N.of_nat k).
    destruct (load_parity_ok md5 d E paths [] st3 Hs3) as (acc & st4 & LP & Hacc).
    { intros p Hp. apply Hpaths in Hp. destruct Hp as [Hpin Hpat].
      assert (Hpv : In p (map fst vols)).
      { unfold fs in Hpin. apply apply_writes_keys in Hpin.
        assert (Hpo : In p (map fst outs)) by (destruct Hpin as [H0|H0]; [apply Hstale; assumption|exact H0]).
        rewrite Eouts in Hpo. cbn [map fst] in Hpo. destruct Hpo as [<-|H0]; [|exact H0].
        fold ix in Hpat. rewrite pat_ix in Hpat. discriminate Hpat. }
      apply in_map_iff in Hpv. destruct Hpv as ([p' vb] & Ep & Hv). cbn [fst] in Ep. subst p'.
      destruct (Forall2_in_r _ _ _ F2 _ Hv) as (ic & Hic & sid' & vb' & EWv & Ev). injection Ev as -> <-.
      destruct (layout_bounds ic Hic) as [Hc Hb]. destruct (volrecv_ok (fst ic) (snd ic) Hb) as [V1 V2].
      destruct (read_written_file_vol md5 md5_len CLIENT_ID m fds ifs _ sid' vb EWv (ww_of _ V1 V2))
        as (fv & Rv & Hmv & _ & Hrv & Hndv).
      assert (Esid : sid' = sid).
      { rewrite (rw_sid md5 _ _ _ _ _ _ _ EWv), (rw_sid md5 _ _ _ _ _ _ _ EW). reflexivity. }
      exists vb, sid', fv. rewrite Hf3. split; [apply Lvol; exact Hv|].
      split; [unfold d; cbn [d_setid]; rewrite <- Esid; exact Rv|]. split; [|split].
      - rewrite Hmv. unfold d, m. cbn [d_slice d_rec d_nonrec map]. rewrite recs_ids. reflexivity.
      - apply Forall_forall. intros [e dd] Hed. cbn [snd].
        pose proof (assoc_n_of_in _ e dd Hndv Hed) as A. apply Hrv in A.
        unfold volrecv in A. apply in_map_iff in A. destruct A as (k & Ek & Hk). injection Ek as _ <-.
        apply in_seq in Hk. rewrite parity_row by lia. reflexivity.
      - intros e. split.
        + intros Hin. apply in_map_iff in Hin. destruct Hin as ([e' dd] & Ee & Hed). cbn [fst] in Ee. subst e'.
          pose proof (assoc_n_of_in _ e dd Hndv Hed) as A. apply Hrv in A. unfold volrecv in A.
          apply in_map_iff in A. destruct A as (k & Ek & Hk). injection Ek as <- _.
          exists ic. split; [exact Hic|]. split; [reflexivity|]. exists k. split; [exact Hk|reflexivity].
        + intros (ic' & Hic' & Epath & k & Hk & ->).
          assert (Eic : ic' = ic).
          { apply layout_eq; try assumption. symmetry.
            apply (volpath_inj _ _ _ _ (layout_lt ic Hic) (layout_lt ic' Hic') Epath). }
          subst ic'.
          assert (A : assoc_n (pf_recv fv) (N.of_nat k) = Some (le_bytes (nth k parity []))).
          { apply Hrv. unfold volrecv. apply in_map_iff. exists k. split; [reflexivity|exact Hk]. }
          apply assoc_n_some_iff. rewrite A. reflexivity. }
    assert (Hext : str_eqb (ext ix) EXT_PAR2 = true) by (rewrite ext_ix; apply str_eqb_refl).
    pose proof (load_all_ok md5 ix (io_init fs []) d st1 w fis st2 paths st3 acc st4 Hext ND HW LF IL LP) as LA.
    set (ds := {| ds_dec := d; ds_fis := fis; ds_tbl := make_cstable (d_rec d); ds_parity := parity_array acc |}) in *.
    exists (shard_counts ds), st4. split; [unfold par2_verify; rewrite LA; reflexivity|].
    destruct (intact_files_clean md5 ix fs ds st4 LA) as (_ & _ & RN).
    - unfold ds, d. cbn [ds_dec d_rec]. rewrite recs_ids. exact recset_nd.
    - intros info Hin. unfold ds, d in Hin. cbn [ds_dec d_rec] in Hin.
      destruct (recs_in info Hin) as (name & data & Hnd' & ->).
      destruct (pair_ok name data Hnd') as (_ & _ & P3 & _).
      exists data. unfold ds, d. cbn [ds_dec d_slice dinfo_of di_name di_len di_hash di_h16 di_pairs data_file_info
                                        fi_desc fi_pairs fd_name fd_len fd_hash fd_hash16k].
      split; [apply Lin; exact Hnd'|]. split; [exact P3|]. repeat split. rewrite Nat2N.id. reflexivity.
    - split; [exact RN|].
      unfold shard_counts. cbn [c_pusable]. unfold ds at 1. cbn [ds_parity]. rewrite parity_count_distinct.
      set (L1 := nodup N.eq_dec (map fst acc)). set (L2 := map N.of_nat (seq 0 np)).
      assert (HL2 : length L2 = np) by (unfold L2; rewrite map_length, seq_length; reflexivity).
      assert (N1 : NoDup L1) by apply NoDup_nodup.
      assert (N2 : NoDup L2).
      { unfold L2. apply (NoDup_map_by (fun e : nat => e)); [rewrite map_id; apply seq_NoDup|].
        intros x y _ _ Exy. apply Nat2N.inj. exact Exy. }
      assert (I12 : incl L1 L2).
      { intros e He. unfold L1 in He. apply nodup_In in He. apply Hacc in He.
        destruct He as [[]|(p & _ & ic & Hic & _ & k & Hk & ->)].
        destruct (layout_bounds ic Hic) as [_ Hb]. apply in_seq in Hk.
        unfold L2. apply in_map. apply in_seq. lia. }
      assert (I21 : incl L2 L1).
      { intros e He. unfold L2 in He. apply in_map_iff in He. destruct He as (k & <- & Hk).
        unfold L1. apply nodup_In. apply Hacc. right.
        rewrite <- (volume_layout_covers np) in Hk. apply in_concat in Hk. destruct Hk as (l & Hl & Hkl).
        apply in_map_iff in Hl. destruct Hl as (ic & <- & Hic).
        exists (volpath (fst ic) (snd ic)). split.
        - apply Hpaths. split; [|apply pat_vol].
          unfold fs. apply apply_writes_keys. right. rewrite Eouts. cbn [map fst]. right. rewrite Evp.
          apply (in_map (fun ic => volpath (fst ic) (snd ic))). exact Hic.
        - exists ic. split; [exact Hic|]. split; [reflexivity|]. exists k. split; [exact Hkl|reflexivity]. }
      pose proof (NoDup_incl_length N1 I12). pose proof (NoDup_incl_length N2 I21). lia.
  Qed.
End CreateVerify.

Print Assumptions create_then_verify_section.

(* the paths LoadParityData looks at: <base>.*.par2 with no separator in the part matched by the star, that is the
   files with such a name in the directory of the index file itself (not below a sub-directory <base>.x/) *)
Definition vol_pattern (base q : list N) : bool :=
  Nat.leb (length (base ++ [DOT]) + length EXT_PAR2) (length q) && starts_with q (base ++ [DOT]) && ends_with q EXT_PAR2
  && no_slash (skipn (length (base ++ [DOT])) q).

Section Par2CleanStretch.
  Variable md5 : bytes -> bytes.

  (** * STRETCH THEOREM: Create, then Verify on the resulting file system, is clean and sees every recovery block.
      Premises beyond the success of Create: the slice size is at least 4 and at most 2^40 (the reader's limit);
      names contain no NUL byte and are shorter than 2^32; contents are byte lists of length at most 2^63-1;
      the file ids are pairwise distinct; the inputs are present at the paths Verify reads them from and are not
      among the written PAR2 files; no other file of the initial file system matches <base>.*.par2. *)
  Theorem create_then_verify_clean : (forall x, length (md5 x) = 16) ->
    forall parPath sz np names datas outs fs0,
    create_outputs md5 parPath sz np names datas = Ok outs ->
    4 <= sz -> (N.of_nat sz <= MAXSLICE)%N ->
    Forall (fun nm : bytes => no_nul nm /\ (N.of_nat (length nm) < 2 ^ 32)%N) names ->
    Forall (fun d : bytes => wf_bytes d /\ (N.of_nat (length d) <= MAXINT)%N) datas ->
    NoDup (map fi_id (map (fun nd : bytes * bytes => data_file_info md5 sz (fst nd) (snd nd)) (combine names datas))) ->
    let ix := strip_ext parPath ++ EXT_PAR2 in
    let fs := apply_writes outs fs0 in
    (forall name data, In (name, data) (combine names datas) -> fs_lookup fs0 (file_path ix name) = Some data) ->
    (forall name, In name names -> ~ In (file_path ix name) (map fst outs)) ->
    (forall q, In q (map fst fs0) -> vol_pattern (strip_ext parPath) q = true -> In q (map fst outs)) ->
    exists c st, par2_verify md5 ix (io_init fs []) = (Ok c, st) /\ repair_needed c = false /\ c_pusable c = np.
  Proof.
    intros Hmd5 parPath sz np names datas outs fs0 Hc H4 Hmax Hn Hd Hnd ix fs Hin Hdisj Hstale.
    exact (create_then_verify_section md5 Hmd5 parPath sz np names datas outs Hc H4 Hmax Hn Hd Hnd fs0 Hin Hdisj Hstale).
  Qed.
End Par2CleanStretch.

Print Assumptions create_then_verify_clean.
