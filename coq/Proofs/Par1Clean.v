(* PAR1 Verify / Repair (Model/Par1.v), fault-free runs, end to end:
   T1. par1_intact_clean: when every saved file is present with both recorded hashes, the loader
       counts no unusable file (Verify is complete);
   T2. par1_idle_on_clean: Repair on a set with no unusable file writes nothing;
   T3. par1_repair_ok_all_recorded: a successful Repair leaves EVERY saved file present with both
       recorded hashes (never success with a wrong file); the files Repair wrote also have the
       recorded length (par1_repair_ok_all_recorded_strong);
   T4. par1_repair_ok_then_clean_and_idle: a successful Repair leaves a state on which Verify
       (with or without the parity check) succeeds and counts no unusable file, and on which any
       further Repair rewrites nothing (convergence step). *)
From Coq Require Import Lia.
From Gopar Require Import Model.Base Model.Matrix Model.GF8 Model.CRC Model.GoPath Model.FS Model.Par1
     Proofs.GoPathFacts Proofs.Par2Facts Proofs.Par2Verify Proofs.Par2Faults Proofs.Par2Clean Proofs.Par2Converge
     Proofs.GF8Facts Proofs.Par1Facts Proofs.Par1Safety.
Open Scope N_scope.
Set Default Timeout 120.

(** * list helpers *)

Lemma Forall2_Forall_l {A B} (P : A -> Prop) (R : A -> B -> Prop) : forall (a : list A) (b : list B),
  Forall2 R a b -> (forall x y, R x y -> P x) -> Forall P a.
Proof. intros a b F H. induction F as [|x y a b Hr F IH]; constructor; [exact (H _ _ Hr)|exact IH]. Qed.

(** * reads on a fault-free state *)

(* what ReadFile returns on a state with an empty fault schedule *)
Definition read_res (fs : list (list N * bytes)) (p : list N) : outcome bytes :=
  match fs_lookup fs p with
  | Some d => Ok d
  | None => if is_dir fs p then Err EIO else Err ENotExist
  end.

Lemma io_read_nosched p st : io_sched st = [] ->
  exists st1, io_read p st = (read_res (io_fs st) p, st1) /\ io_sched st1 = [] /\ io_fs st1 = io_fs st.
Proof.
  intros Hs. unfold io_read, read_res. rewrite Hs. cbn [sched_lookup].
  destruct (fs_lookup (io_fs st) p); [|destruct (is_dir (io_fs st) p)];
    eexists; (split; [reflexivity|split; [exact Hs|reflexivity]]).
Qed.

(* a write to a path that does not lie below p keeps "p is a directory" *)
Lemma is_dir_set_other : forall f q d p, starts_with q (p ++ [SLASH]) = false ->
  is_dir (fs_set f q d) p = is_dir f p.
Proof.
  unfold is_dir. induction f as [|[k e] f IH]; intros q d p H; cbn [fs_set].
  - cbn [existsb fst]. rewrite H. reflexivity.
  - destruct (str_eqb k q) eqn:E; cbn [existsb fst]; [reflexivity|]. rewrite IH by exact H. reflexivity.
Qed.

Lemma is_dir_apply_writes : forall (ws : list (list N * bytes)) f p,
  Forall (fun w : list N * bytes => starts_with (fst w) (p ++ [SLASH]) = false) ws ->
  is_dir (apply_writes ws f) p = is_dir f p.
Proof.
  unfold apply_writes. induction ws as [|[q d] ws IH]; intros f p H; cbn [fold_left fst snd]; [reflexivity|].
  inversion H as [|? ? Hq Hws]; subst. cbn [fst] in Hq. rewrite IH by exact Hws.
  apply is_dir_set_other. exact Hq.
Qed.

Lemma read_res_apply_writes (ws : list (list N * bytes)) f p :
  ~ In p (map fst ws) ->
  Forall (fun w : list N * bytes => starts_with (fst w) (p ++ [SLASH]) = false) ws ->
  read_res (apply_writes ws f) p = read_res f p.
Proof.
  intros Hni Hd. unfold read_res. rewrite (apply_writes_lookup_other ws f p Hni), (is_dir_apply_writes ws f p Hd).
  reflexivity.
Qed.

(** * path lemmas: a direct child of Dir(index) never lies below a volume path *)

(* number of separators *)
Definition sl (l : list N) : nat := length (filter (fun c => c =? SLASH) l).

Lemma sl_app a b : sl (a ++ b) = (sl a + sl b)%nat.
Proof. unfold sl. rewrite filter_app, app_length. reflexivity. Qed.

Lemma sl_cons_slash l : sl (SLASH :: l) = S (sl l).
Proof. reflexivity. Qed.

Lemma sl_cons_other c l : (c =? SLASH) = false -> sl (c :: l) = sl l.
Proof. intros H. unfold sl. cbn [filter]. rewrite H. reflexivity. Qed.

Lemma sl_noslash l : ~ In SLASH l -> sl l = 0%nat.
Proof.
  induction l as [|a l IH]; intros H; [reflexivity|].
  rewrite sl_cons_other.
  - apply IH. intros Hin. apply H. right. exact Hin.
  - apply N.eqb_neq. intros E. apply H. left. exact E.
Qed.

Lemma starts_with_sl q P : starts_with q P = true -> (sl P <= sl q)%nat.
Proof.
  unfold starts_with. intros H. apply str_eqb_eq in H.
  rewrite <- (firstn_skipn (length P) q). rewrite H, sl_app. lia.
Qed.

Lemma split_slash_length s : length (split_slash s) = S (sl s).
Proof.
  induction s as [|c r IH]; [reflexivity|]. cbn [split_slash].
  destruct (c =? SLASH) eqn:E.
  - cbn [length]. rewrite IH. apply N.eqb_eq in E. subst c. rewrite sl_cons_slash. reflexivity.
  - rewrite (sl_cons_other c r E). destruct (split_slash r) as [|h t]; [cbn [length] in IH; discriminate IH|exact IH].
Qed.

Definition noslash (c : list N) : Prop := ~ In SLASH c.

Lemma split_slash_comps s : Forall noslash (split_slash s).
Proof.
  induction s as [|c r IH]; [constructor; [intros []|constructor]|]. cbn [split_slash].
  destruct (N.eqb_spec c SLASH) as [E|Hne].
  - constructor; [intros []|exact IH].
  - destruct (split_slash r) as [|h t].
    + constructor; [|constructor]. intros [E|[]]. exact (Hne E).
    + inversion IH as [|? ? Hh Ht]; subst. constructor; [|exact Ht].
      intros [E|Hin]; [exact (Hne E)|exact (Hh Hin)].
Qed.

Lemma split_slash_cons_slash y : split_slash (SLASH :: y) = [] :: split_slash y.
Proof. reflexivity. Qed.

(* components that survive Clean: non-empty and not "." *)
Definition mc (cs : list (list N)) : nat := length (filter comp_ok cs).

Lemma mc_app a b : mc (a ++ b) = (mc a + mc b)%nat.
Proof. unfold mc. rewrite filter_app, app_length. reflexivity. Qed.

Lemma mc_le : forall cs, (mc cs <= length cs)%nat.
Proof.
  unfold mc. induction cs as [|c cs IH]; [cbn [filter length]; lia|].
  cbn [filter]. destruct (comp_ok c); cbn [length]; lia.
Qed.

Lemma mc_nil_cons l : mc ([] :: l) = mc l.
Proof. reflexivity. Qed.

Lemma clean_step_len rooted st c :
  (length (clean_step rooted st c) <= length st + (if comp_ok c then 1 else 0))%nat.
Proof.
  unfold clean_step. destruct c as [|c0 c']; [lia|].
  destruct (is_dot (c0 :: c')) eqn:Ed; [lia|].
  assert (Hc : comp_ok (c0 :: c') = true) by (unfold comp_ok; rewrite Ed; reflexivity).
  rewrite Hc.
  destruct (is_dotdot (c0 :: c')).
  - destruct st as [|top rest]; [destruct rooted; cbn [length]; lia|].
    destruct (is_dotdot top); cbn [length]; lia.
  - cbn [length]. lia.
Qed.

Lemma clean_stack_len rooted : forall cs st, (length (clean_stack rooted st cs) <= length st + mc cs)%nat.
Proof.
  unfold clean_stack. induction cs as [|c cs IH]; intros st; cbn [fold_left]; [lia|].
  eapply Nat.le_trans; [apply IH|]. pose proof (clean_step_len rooted st c) as H.
  unfold mc in *. cbn [filter]. destruct (comp_ok c); cbn [length]; lia.
Qed.

Lemma clean_step_noslash rooted st c : Forall noslash st -> noslash c -> Forall noslash (clean_step rooted st c).
Proof.
  intros Hs Hc. unfold clean_step. destruct c as [|c0 c']; [exact Hs|].
  destruct (is_dot (c0 :: c')); [exact Hs|]. destruct (is_dotdot (c0 :: c')).
  - destruct st as [|top rest]; [destruct rooted; [constructor|constructor; [exact Hc|constructor]]|].
    destruct (is_dotdot top); [constructor; assumption|inversion Hs; assumption].
  - constructor; assumption.
Qed.

Lemma clean_stack_noslash rooted : forall cs st, Forall noslash st -> Forall noslash cs ->
  Forall noslash (clean_stack rooted st cs).
Proof.
  unfold clean_stack. induction cs as [|c cs IH]; intros st Hs Hc; cbn [fold_left]; [exact Hs|].
  inversion Hc as [|? ? H1 H2]; subst. apply IH; [apply clean_step_noslash; assumption|exact H2].
Qed.

Lemma sl_join_slash : forall cs, Forall noslash cs -> sl (join_slash cs) = (length cs - 1)%nat.
Proof.
  induction cs as [|c r IH]; intros H; [reflexivity|]. inversion H as [|? ? Hc Hr]; subst.
  cbn [join_slash]. destruct r as [|c2 r'].
  - rewrite (sl_noslash c Hc). reflexivity.
  - rewrite sl_app, sl_cons_slash, (sl_noslash c Hc), (IH Hr). cbn [length]. lia.
Qed.

Lemma split_join_slash : forall cs, cs <> [] -> Forall noslash cs -> split_slash (join_slash cs) = cs.
Proof.
  induction cs as [|c r IH]; intros Hne H; [congruence|]. inversion H as [|? ? Hc Hr]; subst.
  cbn [join_slash]. destruct r as [|c2 r'].
  - apply split_slash_noslash. exact Hc.
  - rewrite split_slash_app, (split_slash_noslash c Hc), (IH ltac:(discriminate) Hr). reflexivity.
Qed.

Lemma mc_split_join cs : Forall noslash cs -> mc (split_slash (join_slash cs)) = mc cs.
Proof.
  intros H. destruct cs as [|c r]; [reflexivity|]. rewrite split_join_slash; [reflexivity|discriminate|exact H].
Qed.

Lemma sl_render rooted st : Forall noslash st ->
  sl (render rooted st) = ((if rooted then 1 else 0) + (length st - 1))%nat.
Proof.
  intros H. assert (Hr : Forall noslash (rev st)) by (apply Forall_rev; exact H).
  unfold render. destruct rooted.
  - rewrite sl_cons_slash, (sl_join_slash _ Hr), rev_length. reflexivity.
  - destruct st as [|x st']; [reflexivity|]. rewrite (sl_join_slash _ Hr), rev_length. reflexivity.
Qed.

Lemma mc_split_render rooted st : Forall noslash st -> (mc (split_slash (render rooted st)) <= length st)%nat.
Proof.
  intros H. assert (Hr : Forall noslash (rev st)) by (apply Forall_rev; exact H).
  unfold render. destruct rooted.
  - rewrite split_slash_cons_slash, mc_nil_cons, (mc_split_join _ Hr). rewrite <- (rev_length st). apply mc_le.
  - destruct st as [|x st']; [vm_compute; lia|].
    rewrite (mc_split_join _ Hr). rewrite <- (rev_length (x :: st')). apply mc_le.
Qed.

Lemma is_abs_render_false st : Forall noslash st -> forallb comp_ok st = true -> is_abs (render false st) = false.
Proof.
  intros H Hc. unfold render. destruct st as [|x st']; [reflexivity|].
  assert (Hr : Forall noslash (rev (x :: st'))) by (apply Forall_rev; exact H).
  assert (Hcr : forall c, In c (rev (x :: st')) -> comp_ok c = true).
  { intros c Hin. apply in_rev in Hin. rewrite forallb_forall in Hc. exact (Hc c Hin). }
  destruct (rev (x :: st')) as [|c r] eqn:Er.
  { apply (f_equal (@length (list N))) in Er. rewrite rev_length in Er. discriminate Er. }
  inversion Hr as [|? ? Hns _]; subst.
  pose proof (Hcr c (or_introl eq_refl)) as Hok.
  destruct c as [|c0 c']; [discriminate Hok|].
  assert (Hc0 : (c0 =? SLASH) = false).
  { apply N.eqb_neq. intros E. apply Hns. left. exact E. }
  destruct r; cbn [join_slash app is_abs]; exact Hc0.
Qed.

Lemma dpl_prefix_shape : forall s,
  dir_prefix_len s = 0%nat \/ exists D', firstn (dir_prefix_len s) s = D' ++ [SLASH].
Proof.
  induction s as [|c r IH]; [left; reflexivity|].
  cbn [dir_prefix_len]. cbv zeta.
  destruct (dir_prefix_len r) as [|k] eqn:Ek; cbn [Nat.eqb].
  - destruct (N.eqb_spec c SLASH) as [E|Hne]; [|left; reflexivity].
    right. exists []. subst c. reflexivity.
  - right. destruct IH as [E0|[D' ED]]; [discriminate E0|]. exists (c :: D').
    change (firstn (S (S k)) (c :: r)) with (c :: firstn (S k) r). rewrite ED. reflexivity.
Qed.

Lemma sl_dpl s : sl (firstn (dir_prefix_len s) s) = sl s.
Proof.
  rewrite <- (firstn_skipn (dir_prefix_len s) s) at 3.
  rewrite sl_app, (sl_noslash _ (skipn_dpl_noslash s)). lia.
Qed.

Lemma sl_clean_le s : s <> [] ->
  (sl (clean s) <= (if is_abs s then 1 else 0) + (mc (split_slash s) - 1))%nat.
Proof.
  intros Hne. unfold clean. destruct s as [|c r]; [congruence|]. cbv zeta.
  set (rooted := is_abs (c :: r)).
  assert (Hn : Forall noslash (clean_stack rooted [] (split_slash (c :: r)))).
  { apply clean_stack_noslash; [constructor|apply split_slash_comps]. }
  rewrite (sl_render _ _ Hn).
  pose proof (clean_stack_len rooted (split_slash (c :: r)) []) as Hl. cbn [length] in Hl.
  destruct rooted; lia.
Qed.

(* a name PAR1 accepts, joined to Dir(index), has at most as many separators as the index path *)
Lemma sl_entry_path ix n : base n = n -> (sl (join2 (dir ix) n) <= sl ix)%nat.
Proof.
  intros Hb.
  assert (Hn : n <> []) by (intros ->; discriminate Hb).
  assert (Hd : dir ix <> []) by (unfold dir; apply clean_nonempty).
  assert (Hmn : (mc (split_slash n) <= 1)%nat).
  { destruct (base_fixed_cases n Hb) as [->|[->|[_ Hs]]]; [vm_compute; lia|vm_compute; lia|].
    rewrite (split_slash_noslash n Hs). unfold mc. cbn [filter]. destruct (comp_ok n); cbn [length]; lia. }
  assert (Ej : join2 (dir ix) n = clean (dir ix ++ SLASH :: n)).
  { unfold join2. destruct (dir ix) as [|a0 a']; [congruence|]. destruct n; [congruence|reflexivity]. }
  assert (Eabs : is_abs (dir ix ++ SLASH :: n) = is_abs (dir ix)).
  { destruct (dir ix); [congruence|reflexivity]. }
  rewrite Ej.
  eapply Nat.le_trans; [apply sl_clean_le; destruct (dir ix); [congruence|discriminate]|].
  rewrite split_slash_app, mc_app, Eabs. rewrite <- (sl_dpl ix).
  unfold dir in *. set (D := firstn (dir_prefix_len ix) ix) in *.
  destruct (dpl_prefix_shape ix) as [E0|[D' ED]].
  - assert (ED : D = []) by (unfold D; rewrite E0; reflexivity). rewrite ED.
    change (clean []) with [DOT]. change (is_abs [DOT]) with false.
    change (mc (split_slash [DOT])) with 0%nat. change (sl []) with 0%nat. cbv beta iota. lia.
  - fold D in ED.
    assert (EcD : clean D = render (is_abs D) (clean_stack (is_abs D) [] (split_slash D))).
    { unfold clean. destruct D; [destruct D'; discriminate ED|reflexivity]. }
    rewrite EcD. set (r := is_abs D) in *. set (stk := clean_stack r [] (split_slash D)).
    assert (Hns : Forall noslash stk).
    { apply clean_stack_noslash; [constructor|apply split_slash_comps]. }
    assert (Hok : forallb comp_ok stk = true) by (apply comps_clean; reflexivity).
    pose proof (clean_stack_len r (split_slash D) []) as Hlen. fold stk in Hlen. cbn [length] in Hlen.
    pose proof (mc_split_render r stk Hns) as Hm.
    assert (HmD : (mc (split_slash D) + (if r then 1 else 0) <= sl D)%nat /\ (1 <= sl D)%nat).
    { unfold r. rewrite ED.
      change (D' ++ [SLASH]) with (D' ++ SLASH :: []).
      rewrite split_slash_app, mc_app, sl_app. change (mc (split_slash [])) with 0%nat.
      change (sl [SLASH]) with 1%nat.
      destruct D' as [|d0 D'']; [vm_compute; lia|].
      cbn [app is_abs]. destruct (d0 =? SLASH) eqn:E0.
      - apply N.eqb_eq in E0. subst d0. rewrite split_slash_cons_slash, mc_nil_cons, sl_cons_slash.
        pose proof (mc_le (split_slash D'')) as Hle. rewrite split_slash_length in Hle. lia.
      - pose proof (mc_le (split_slash (d0 :: D''))) as Hle. rewrite split_slash_length in Hle. lia. }
    assert (Habs : is_abs (render r stk) = r).
    { destruct r; [reflexivity|apply is_abs_render_false; assumption]. }
    rewrite Habs. destruct r; lia.
Qed.

Lemma ext_rev_shape : forall r acc,
  ext_rev r acc = [] \/
  exists r1 r2, r = r1 ++ DOT :: r2 /\ ~ In SLASH r1 /\ ext_rev r acc = DOT :: rev r1 ++ acc.
Proof.
  induction r as [|c r IH]; intros acc; cbn [ext_rev]; [left; reflexivity|].
  destruct (N.eqb_spec c SLASH) as [E|Hs]; [left; reflexivity|].
  destruct (N.eqb_spec c DOT) as [E|Hd].
  - right. exists [], r. subst c. split; [reflexivity|split; [intros []|reflexivity]].
  - destruct (IH (c :: acc)) as [E0|(r1 & r2 & -> & Hns & E1)]; [left; exact E0|].
    right. exists (c :: r1), r2. split; [reflexivity|].
    split; [intros [E|Hin]; [exact (Hs E)|exact (Hns Hin)]|].
    rewrite E1. cbn [rev]. rewrite <- app_assoc. reflexivity.
Qed.

Lemma sl_strip_ext s : sl (strip_ext s) = sl s.
Proof.
  unfold strip_ext, ext. destruct (ext_rev_shape (rev s) []) as [E0|(r1 & r2 & Er & Hns & E1)].
  - rewrite E0. cbn [length]. rewrite Nat.sub_0_r, firstn_all. reflexivity.
  - rewrite E1, app_nil_r.
    assert (Es : s = rev r2 ++ DOT :: rev r1).
    { rewrite <- (rev_involutive s), Er, rev_app_distr. cbn [rev]. rewrite <- app_assoc. reflexivity. }
    clear Er E1. subst s.
    replace (length (rev r2 ++ DOT :: rev r1) - length (DOT :: rev r1))%nat with (length (rev r2))
      by (rewrite app_length; cbn [length]; lia).
    rewrite firstn_app_exact, sl_app, sl_cons_other by reflexivity.
    rewrite (sl_noslash (rev r1)); [lia|]. intros Hin. apply in_rev in Hin. exact (Hns Hin).
Qed.

Lemma dec2w_noslash k : ~ In SLASH (dec2w k).
Proof.
  assert (D : forall x, 48 + x <> SLASH) by (intros x; unfold SLASH; lia).
  unfold dec2w. cbv zeta.
  destruct (k <? 10); [|destruct (k <? 100)]; cbn [length Nat.ltb Nat.leb]; intros Hin; cbn [In] in Hin;
    repeat (destruct Hin as [Hin|Hin]; [first [exact (D _ Hin)|discriminate Hin]|]); exact Hin.
Qed.

(* the path Repair writes for an accepted name never lies below a volume path of the same index *)
Theorem entry_not_below_volume ix n k : base n = n ->
  starts_with (join2 (dir ix) n) (volume_path ix k ++ [SLASH]) = false.
Proof.
  intros Hb. destruct (starts_with (join2 (dir ix) n) (volume_path ix k ++ [SLASH])) eqn:E; [|reflexivity].
  exfalso. apply starts_with_sl in E. pose proof (sl_entry_path ix n Hb) as H.
  unfold volume_path in E. rewrite !sl_app, sl_strip_ext in E.
  rewrite (sl_noslash (dec2w k) (dec2w_noslash k)) in E.
  change (sl [46; 112]) with 0%nat in E. change (sl [SLASH]) with 1%nat in E. lia.
Qed.

Section Par1Clean.
  Variable md5 : bytes -> bytes.

  (* the data has the length and both hashes the entry records *)
  Definition recorded1 (e : p1entry) (data : bytes) : Prop :=
    N.of_nat (length data) = e_len e /\ md5 data = e_hash e /\ hash16k md5 data = e_h16 e.

  Definition epath (ix : list N) (e : p1entry) : list N := join2 (dir ix) (e_name e).

  (* LoadFileData's test: both hashes, not the length *)
  Definition usable (e : p1entry) (data : bytes) : bool :=
    bytes_eqb (hash16k md5 data) (e_h16 e) && bytes_eqb (md5 data) (e_hash e).

  Definition slot (fs : list (list N * bytes)) (ix : list N) (e : p1entry) : option bytes :=
    match fs_lookup fs (epath ix e) with
    | Some data => if usable e data then Some data else None
    | None => None
    end.

  Lemma usable_true e data : md5 data = e_hash e -> hash16k md5 data = e_h16 e -> usable e data = true.
  Proof. intros H1 H2. unfold usable. rewrite H1, H2, !bytes_eqb_refl. reflexivity. Qed.

  Lemma usable_inv e data : usable e data = true -> md5 data = e_hash e /\ hash16k md5 data = e_h16 e.
  Proof.
    unfold usable. intros H. apply andb_prop in H. destruct H as [H1 H2].
    split; apply bytes_eqb_eq; assumption.
  Qed.

  Lemma slot_some fs ix e d : slot fs ix e = Some d ->
    fs_lookup fs (epath ix e) = Some d /\ md5 d = e_hash e /\ hash16k md5 d = e_h16 e.
  Proof.
    unfold slot. destruct (fs_lookup fs (epath ix e)) as [data|]; [|discriminate].
    destruct (usable e data) eqn:U; [|discriminate]. intros H. injection H as <-.
    split; [reflexivity|apply usable_inv; exact U].
  Qed.

  Lemma slot_intact fs ix e data : fs_lookup fs (epath ix e) = Some data ->
    md5 data = e_hash e -> hash16k md5 data = e_h16 e -> slot fs ix e = Some data.
  Proof. intros Hl H1 H2. unfold slot. rewrite Hl, (usable_true e data H1 H2). reflexivity. Qed.

  Lemma entry_path_bare ix e : base (e_name e) = e_name e -> entry_path ix e = Ok (epath ix e).
  Proof. intros H. unfold entry_path. rewrite H, str_eqb_refl. reflexivity. Qed.

  (** * the loading phase as a function of the file map *)

  Lemma load_data_exact ix : forall es st ds st', io_sched st = [] ->
    load_data md5 ix es st = (Ok ds, st') ->
    ds = map (slot (io_fs st) ix) es /\ Forall (fun e => base (e_name e) = e_name e) es.
  Proof.
    induction es as [|e r IH]; intros st ds st' Hs H; cbn [load_data] in H.
    - injection H as <- _. split; constructor.
    - destruct (entry_path ix e) as [p|x|q] eqn:EP; try discriminate H.
      apply entry_path_ok in EP. destruct EP as [Eb ->].
      destruct (io_read_nosched (join2 (dir ix) (e_name e)) st Hs) as (st1 & ER & Hs1 & Hf1).
      rewrite ER in H. unfold read_res in H. cbn [map]. unfold slot at 1, epath.
      destruct (fs_lookup (io_fs st) (join2 (dir ix) (e_name e))) as [data|].
      + destruct (load_data md5 ix r st1) as [[ds'|x|q] st2] eqn:EL; try discriminate H.
        injection H as <- _. destruct (IH _ _ _ Hs1 EL) as [-> Hb]. rewrite Hf1.
        split; [reflexivity|constructor; assumption].
      + destruct (is_dir (io_fs st) (join2 (dir ix) (e_name e))); [discriminate H|].
        destruct (load_data md5 ix r st1) as [[ds'|x|q] st2] eqn:EL; try discriminate H.
        injection H as <- _. destruct (IH _ _ _ Hs1 EL) as [-> Hb]. rewrite Hf1.
        split; [reflexivity|constructor; assumption].
  Qed.

  Lemma load_data_total ix : forall es st, io_sched st = [] ->
    Forall (fun e => base (e_name e) = e_name e /\ exists data, fs_lookup (io_fs st) (epath ix e) = Some data) es ->
    exists st', load_data md5 ix es st = (Ok (map (slot (io_fs st) ix) es), st') /\
                io_sched st' = [] /\ io_fs st' = io_fs st.
  Proof.
    induction es as [|e r IH]; intros st Hs H; cbn [load_data map].
    - exists st. split; [reflexivity|split; [exact Hs|reflexivity]].
    - inversion H as [|? ? [Eb [data Hl]] Hr]; subst.
      rewrite (entry_path_bare ix e Eb).
      destruct (io_read_nosched (epath ix e) st Hs) as (st1 & ER & Hs1 & Hf1).
      rewrite ER. unfold read_res, slot at 1. rewrite Hl.
      destruct (IH st1 Hs1) as (st2 & EL & Hs2 & Hf2).
      { rewrite Hf1. exact Hr. }
      rewrite EL, Hf1. exists st2. split; [reflexivity|split; [exact Hs2|congruence]].
  Qed.

  Lemma p1_load_inv ix st s st' : p1_load md5 ix st = (Ok s, st') ->
    exists b st1 v ds st2 slots size,
      str_eqb (ext ix) EXT_PAR = true /\ io_read ix st = (Ok b, st1) /\ read_volume md5 b = Ok v /\
      (v_number v =? 0) = true /\
      load_data md5 ix (filter saved (v_entries v)) st1 = (Ok ds, st2) /\ ds <> [] /\
      (256 <=? nsaved v) = false /\
      load_vols md5 ix (v_sethash_stored v) 0 (N.to_nat (N.min (256 - nsaved v) 99)) 0 [] st2
        = (Ok (slots, size), st') /\
      s = {| s_index := ix; s_vol := v; s_saved := filter saved (v_entries v); s_data := ds; s_size := size;
             s_parity := firstn (S (last_some_index slots 0 0)) slots |}.
  Proof.
    unfold p1_load. intros H.
    destruct (str_eqb (ext ix) EXT_PAR) eqn:EE; cbn [negb] in H; [|discriminate H].
    destruct (io_read ix st) as [[b|x|q] st1] eqn:ER; try discriminate H.
    destruct (read_volume md5 b) as [v|x|q] eqn:EV; try discriminate H.
    destruct (v_number v =? 0) eqn:EN; cbn [negb] in H; [|discriminate H].
    destruct (load_data md5 ix (filter saved (v_entries v)) st1) as [[ds|x|q] st2] eqn:EL; try discriminate H.
    destruct ds as [|d0 ds]; [discriminate H|].
    fold (nsaved v) in H. destruct (256 <=? nsaved v) eqn:EC; [discriminate H|].
    destruct (load_vols md5 ix (v_sethash_stored v) 0 (N.to_nat (N.min (256 - nsaved v) 99)) 0 [] st2)
      as [[[slots size]|x|q] st3] eqn:ELV; try discriminate H.
    injection H as <- <-.
    exists b, st1, v, (d0 :: ds), st2, slots, size.
    repeat (split; [first [reflexivity|assumption|discriminate]|]). reflexivity.
  Qed.

  Lemma p1_load_ok ix st b st1 v ds st2 slots size st' :
    str_eqb (ext ix) EXT_PAR = true -> io_read ix st = (Ok b, st1) -> read_volume md5 b = Ok v ->
    (v_number v =? 0) = true ->
    load_data md5 ix (filter saved (v_entries v)) st1 = (Ok ds, st2) -> ds <> [] ->
    (256 <=? nsaved v) = false ->
    load_vols md5 ix (v_sethash_stored v) 0 (N.to_nat (N.min (256 - nsaved v) 99)) 0 [] st2
      = (Ok (slots, size), st') ->
    p1_load md5 ix st =
      (Ok {| s_index := ix; s_vol := v; s_saved := filter saved (v_entries v); s_data := ds; s_size := size;
             s_parity := firstn (S (last_some_index slots 0 0)) slots |}, st').
  Proof.
    intros EE ER EV EN EL Hds EC ELV. unfold p1_load.
    rewrite EE. cbn [negb]. rewrite ER, EV, EN. cbn [negb]. rewrite EL.
    destruct ds as [|d0 ds]; [congruence|]. fold (nsaved v). rewrite EC, ELV. reflexivity.
  Qed.

  (* the data slots are a function of the file map *)
  Lemma p1_load_data_exact ix fs s st1 : p1_load md5 ix (io_init fs []) = (Ok s, st1) ->
    s_data s = map (slot fs ix) (s_saved s) /\ Forall (fun e => base (e_name e) = e_name e) (s_saved s) /\
    s_saved s <> [].
  Proof.
    intros HL. destruct (p1_load_inv _ _ _ _ HL) as (b & sa & v & ds & sb & slots & size &
                                                     _ & ER & _ & _ & EL & Hds & _ & _ & ->).
    cbn [s_data s_saved].
    pose proof (io_read_pres ix (io_init fs [])) as P. rewrite ER in P. cbn [snd] in P.
    destruct P as (Pf & Ps & _). cbn [io_init io_fs io_sched] in Pf, Ps.
    destruct (load_data_exact ix _ _ _ _ Ps EL) as [E Hb]. rewrite Pf in E.
    split; [exact E|]. split; [exact Hb|].
    intros E0. rewrite E0 in E. cbn [map] in E. exact (Hds E).
  Qed.

  (** * T1. VERIFY IS COMPLETE: intact files are counted usable *)
  Theorem par1_intact_clean : forall ix fs s st1,
    p1_load md5 ix (io_init fs []) = (Ok s, st1) ->
    (forall e, In e (s_saved s) ->
       exists data, fs_lookup fs (join2 (dir ix) (e_name e)) = Some data /\
                    md5 data = e_hash e /\ hash16k md5 data = e_h16 e) ->
    fc_unusable (file_counts s) = 0%nat.
  Proof.
    intros ix fs s st1 HL H. destruct (p1_load_data_exact ix fs s st1 HL) as (E & _ & _).
    cbn [file_counts fc_unusable]. rewrite E. clear E HL.
    induction (s_saved s) as [|e es IH]; [reflexivity|].
    destruct (H e (or_introl eq_refl)) as (data & Hl & H1 & H2).
    cbn [map]. rewrite (slot_intact fs ix e data Hl H1 H2).
    unfold count_none1 in *. cbn [filter]. apply IH. intros e' Hin. apply H. right. exact Hin.
  Qed.

  (** * T2. IDLE ON A CLEAN SET *)
  Lemma p1_write_repaired_all_some ix : forall todo done st,
    Forall (fun t : p1entry * (option bytes * bytes) => exists d, fst (snd t) = Some d) todo ->
    p1_write_repaired md5 ix todo done st = ((Ok tt, done), st).
  Proof.
    induction todo as [|[e [o sh]] todo IH]; intros done st H; cbn [p1_write_repaired]; [reflexivity|].
    inversion H as [|? ? [d Hd] Hr]; subst. cbn [fst snd] in Hd. subst o. apply IH. exact Hr.
  Qed.

  Theorem par1_idle_on_clean : forall ix dbl fs s st1 r rp st',
    p1_load md5 ix (io_init fs []) = (Ok s, st1) -> fc_unusable (file_counts s) = 0%nat ->
    par1_repair md5 ix dbl (io_init fs []) = ((r, rp), st') -> rp = [] /\ io_fs st' = fs.
  Proof.
    intros ix dbl fs s st1 r rp st' HL Hc HR.
    pose proof (p1_load_pres md5 ix (io_init fs [])) as P. rewrite HL in P. cbn [snd] in P.
    destruct P as (Pf & _ & _). cbn [io_init io_fs] in Pf.
    cbn [file_counts fc_unusable] in Hc.
    unfold par1_repair in HR. rewrite HL in HR. cbv zeta in HR.
    assert (Stop : forall o, ((o, @nil (list N)), st1) = ((r, rp), st') -> rp = [] /\ io_fs st' = fs).
    { intros o E. injection E as _ <- <-. split; [reflexivity|exact Pf]. }
    destruct (Nat.eqb (s_size s) 0).
    { destruct (Nat.eqb (count_none1 (s_data s)) 0); eapply Stop; exact HR. }
    destruct (Nat.ltb 256 (length (s_data s) + length (s_parity s))); [eapply Stop; exact HR|].
    destruct (build_shards s) as [sh|x|q]; [|eapply Stop; exact HR|eapply Stop; exact HR].
    destruct (par1_reconstruct (length (s_data s)) (length (s_parity s)) sh) as [full|x|q];
      [|eapply Stop; exact HR|eapply Stop; exact HR].
    match type of HR with (match ?okdbl with _ => _ end) = _ => destruct okdbl as [[|]|x|q] end;
      [|eapply Stop; exact HR|eapply Stop; exact HR|eapply Stop; exact HR].
    rewrite p1_write_repaired_all_some in HR; [eapply Stop; exact HR|].
    apply Forall_forall. intros [e [o sh']] Hin. cbn [fst snd].
    apply in_combine_r in Hin. apply in_combine_l in Hin.
    pose proof (count_none1_zero _ Hc) as F. rewrite Forall_forall in F. exact (F o Hin).
  Qed.


  (** * the write-out phase *)

  Definition tpath (ix : list N) (t : p1entry * (option bytes * bytes)) : list N := epath ix (fst t).

  (* a walk that reaches the end wrote verified data of the recorded length for every entry without
     usable data, and changed no other path *)
  Lemma p1_write_repaired_ok ix : forall todo done st rp st',
    io_sched st = [] -> NoDup (map (tpath ix) todo) ->
    p1_write_repaired md5 ix todo done st = ((Ok tt, rp), st') ->
    (forall q, (forall t, In t todo -> fst (snd t) = None -> tpath ix t <> q) ->
               fs_lookup (io_fs st') q = fs_lookup (io_fs st) q) /\
    (forall t, In t todo -> fst (snd t) = None ->
               exists data, fs_lookup (io_fs st') (tpath ix t) = Some data /\ recorded1 (fst t) data /\
                            (length data <= length (snd (snd t)))%nat).
  Proof.
    induction todo as [|[e [o shard]] todo IH]; intros done st rp st' Hs Hnd H.
    - cbn [p1_write_repaired] in H. injection H as _ <-. split; [reflexivity|intros t []].
    - cbn [map] in Hnd. apply NoDup_cons_iff in Hnd. destruct Hnd as [Hni Hnd'].
      cbn [p1_write_repaired] in H. destruct o as [given|].
      + destruct (IH _ _ _ _ Hs Hnd' H) as [A B]. split.
        * intros q Hq. apply A. intros t Hin Hf. apply Hq; [right; exact Hin|exact Hf].
        * intros t [<-|Hin] Hf; [cbn [fst snd] in Hf; discriminate Hf|]. apply B; assumption.
      + destruct (N.ltb_spec (N.of_nat (length shard)) (e_len e)) as [Hlt|Hge]; [discriminate H|].
        set (data := firstn (N.to_nat (e_len e)) shard) in *.
        destruct (bytes_eqb (hash16k md5 data) (e_h16 e)) eqn:E1; cbn [negb] in H; [|discriminate H].
        destruct (bytes_eqb (md5 data) (e_hash e)) eqn:E2; cbn [negb] in H; [|discriminate H].
        destruct (entry_path ix e) as [p|x|q] eqn:EP; try discriminate H.
        apply entry_path_ok in EP. destruct EP as [Eb ->]. fold (epath ix e) in H.
        rewrite (io_write_nosched _ _ st Hs) in H.
        apply IH in H; [|exact Hs|exact Hnd'].
        cbn [tick io_fs] in H. destruct H as [A B]. split.
        * intros q Hq. rewrite A.
          -- apply Par2Faults.fs_lookup_set_other.
             apply (Hq (e, (None, shard))); [left; reflexivity|reflexivity].
          -- intros t Hin Hf. apply Hq; [right; exact Hin|exact Hf].
        * intros t [<-|Hin] Hf; [|apply B; assumption].
          exists data. split; [|split].
          -- unfold tpath. cbn [fst]. rewrite A; [apply Par2Clean.fs_lookup_set_same|].
             intros t Hin _ E. apply Hni. unfold tpath at 1. cbn [fst]. rewrite <- E. apply in_map. exact Hin.
          -- cbn [fst]. split; [unfold data; rewrite firstn_length; lia|].
             split; apply bytes_eqb_eq; assumption.
          -- cbn [snd]. unfold data. rewrite firstn_length. lia.
  Qed.

  (** * shard sizes *)

  Definition par_inv (acc : list (option bytes)) (size : nat) : Prop :=
    forall x, In (Some x) acc -> length x = size /\ size <> 0%nat.

  (* every loaded volume has the shard size, which is then non-zero *)
  Lemma load_vols_inv ix sh : forall n i size acc st slots size' st',
    load_vols md5 ix sh i n size acc st = (Ok (slots, size'), st') ->
    par_inv acc size -> par_inv slots size' /\ length slots = (length acc + n)%nat.
  Proof.
    induction n as [|n IH]; intros i size acc st slots size' st' H Hinv; cbn [load_vols] in H.
    - injection H as <- <- _. split; [exact Hinv|lia].
    - destruct (io_read (volume_path ix (N.of_nat (S i))) st) as [[b|x|q] st1].
      + (* an unparsable or foreign volume: an empty slot, the size is unchanged *)
        assert (Skip : load_vols md5 ix sh (S i) n size (acc ++ [None]) st1 = (Ok (slots, size'), st') ->
                       par_inv slots size' /\ length slots = (length acc + S n)%nat).
        { intros H'. apply IH in H'.
          { destruct H' as [A B]. split; [exact A|]. rewrite B, app_length. cbn [length]. lia. }
          intros y Hin. apply in_app_or in Hin.
          destruct Hin as [Hin|[E|[]]]; [exact (Hinv y Hin)|discriminate E]. }
        destruct (read_volume md5 b) as [v|x|q]; [|exact (Skip H)|discriminate H].
        destruct (negb (bytes_eqb (v_sethash_stored v) sh)); [exact (Skip H)|].
        destruct (negb (v_number v =? N.of_nat (S i))); [exact (Skip H)|].
        destruct (Nat.eqb (length (v_data v)) 0) eqn:E0; [discriminate H|].
        destruct (negb (Nat.eqb size 0) && negb (Nat.eqb (length (v_data v)) size)) eqn:E1; [discriminate H|].
        apply Nat.eqb_neq in E0.
        apply IH in H.
        { destruct H as [A B]. split; [exact A|]. rewrite B, app_length. cbn [length]. lia. }
        intros x Hin. apply in_app_or in Hin. destruct Hin as [Hin|[E|[]]].
        * destruct (Hinv x Hin) as [Hl Hnz]. split; [|exact E0].
          apply Nat.eqb_neq in Hnz. rewrite Hnz in E1. cbn [negb andb] in E1.
          apply negb_false_iff in E1. apply Nat.eqb_eq in E1. congruence.
        * injection E as <-. split; [reflexivity|exact E0].
      + destruct x; try discriminate H. apply IH in H.
        { destruct H as [A B]. split; [exact A|]. rewrite B, app_length. cbn [length]. lia. }
        intros x Hin. apply in_app_or in Hin. destruct Hin as [Hin|[E|[]]]; [exact (Hinv x Hin)|discriminate E].
      + discriminate H.
  Qed.

  Lemma in_firstn_ {A} n : forall (l : list A) x, In x (firstn n l) -> In x l.
  Proof.
    induction n as [|n IH]; intros l x H; [destruct H|]. destruct l as [|y l]; [exact H|].
    destruct H as [H|H]; [left; exact H|right; apply IH; exact H].
  Qed.

  Lemma p1_load_parity ix st s st' : p1_load md5 ix st = (Ok s, st') ->
    par_inv (s_parity s) (s_size s) /\ s_parity s <> [].
  Proof.
    intros HL. destruct (p1_load_inv _ _ _ _ HL) as (b & sa & v & ds & sb & slots & size &
                                                     _ & _ & _ & _ & _ & _ & EC & ELV & ->).
    cbn [s_parity s_size].
    apply load_vols_inv in ELV; [|intros x []]. destruct ELV as [Hinv Hlen]. cbn [length Nat.add] in Hlen.
    split.
    - intros x Hin. apply Hinv. eapply in_firstn_. exact Hin.
    - apply N.leb_gt in EC.
      destruct slots as [|o slots]; [cbn [length] in Hlen; lia|]. cbn [firstn]. discriminate.
  Qed.

  Lemma build_shards_ok s sh : build_shards s = Ok sh ->
    Forall (fun o : option bytes => forall d, o = Some d -> (length d <= s_size s)%nat) (s_data s) /\
    sh = map (fun o : option bytes => match o with Some d => Some (d ++ zeros (s_size s - length d)) | None => None end)
             (s_data s) ++ s_parity s.
  Proof.
    unfold build_shards.
    lazymatch goal with |- (if ?c then _ else _) = _ -> _ => destruct c eqn:E end; intros H; [discriminate H|].
    injection H as <-. split; [|reflexivity].
    apply Forall_forall. intros o Hin d ->.
    destruct (Nat.ltb_spec (s_size s) (length d)) as [Lt|Ge]; [|exact Ge].
    exfalso. rewrite <- Bool.not_true_iff_false in E. apply E.
    { apply existsb_exists. exists (Some d). split; [exact Hin|]. apply Nat.ltb_lt. exact Lt. }
  Qed.

  Lemma xorl_length_le : forall a b, (length (xorl a b) <= length b)%nat.
  Proof. induction a as [|x a IH]; intros [|y b]; cbn [xorl length]; try lia. specialize (IH b). lia. Qed.

  Lemma lincomb_length_le (mul : N -> N -> N) cols : forall r X, (length (lincomb mul cols r X) <= cols)%nat.
  Proof.
    assert (Z : length (zeros cols) = cols) by (unfold zeros; apply repeat_length).
    induction r as [|a r IH]; intros X; cbn [lincomb]; [rewrite Z; lia|].
    destruct X as [|x X]; [rewrite Z; lia|].
    eapply Nat.le_trans; [apply xorl_length_le|apply IH].
  Qed.

  Lemma mmul_nth_length_le (mul : N -> N -> N) cols M X i : (length (nth i (mmul mul cols M X) []) <= cols)%nat.
  Proof.
    unfold mmul. destruct (Nat.lt_ge_cases i (length M)) as [Lt|Ge].
    - rewrite (nth_indep _ [] (lincomb mul cols [] X)) by (rewrite map_length; exact Lt).
      rewrite (map_nth (fun r => lincomb mul cols r X)). apply lincomb_length_le.
    - rewrite nth_overflow by (rewrite map_length; exact Ge). cbn [length]. lia.
  Qed.

  Lemma take_present_in {A} : forall (l : list (option A)) need i k x,
    In (k, x) (take_present need i l) -> In (Some x) l.
  Proof.
    induction l as [|[y|] l IH]; intros need i k x H; destruct need as [|need]; cbn [take_present] in H;
      try (destruct H; fail).
    - destruct H as [E|H]; [injection E as _ <-; left; reflexivity|right; eapply IH; exact H].
    - right. eapply IH. exact H.
  Qed.

  (* Reconstruct returns the d data shards, none longer than the common length of the given ones *)
  Lemma par1_reconstruct_lengths d p (sh : list (option bytes)) full L :
    par1_reconstruct d p sh = Ok full ->
    (forall x, In (Some x) sh -> length x = L) ->
    length (firstn d full) = d /\ Forall (fun x : bytes => (length x <= L)%nat) (firstn d full).
  Proof.
    intros H HL. unfold par1_reconstruct in H.
    destruct (Nat.eqb (length sh) (d + p)) eqn:El; cbn [negb] in H; [|discriminate H].
    apply Nat.eqb_eq in El. cbv zeta in H.
    destruct (Nat.eqb (count_present sh) (d + p)).
    - injection H as <-. split.
      + rewrite firstn_length, map_length. unfold bytes in *. lia.
      + apply Forall_forall. intros x Hx. apply in_firstn_ in Hx. apply in_map_iff in Hx.
        destruct Hx as ([s|] & <- & Hin); [rewrite (HL s Hin); lia|cbn [length]; lia].
    - destruct (Nat.ltb (count_present sh) d); [discriminate H|].
      remember (take_present d 0 sh) as valid eqn:Ev.
      destruct (Inverse8 (map (fun ks : nat * bytes => enc_row d p (fst ks)) valid)) as [inv|e|q]; try discriminate H.
      injection H as <-.
      match goal with |- context [firstn d (?a ++ ?b)] => set (alld := a); set (rest := b) end.
      assert (La : length alld = d).
      { unfold alld. rewrite map_length, combine_length, seq_length, firstn_length. lia. }
      match goal with |- context [firstn d ?x] =>
        assert (E : firstn d x = alld) by (rewrite <- La at 1; apply firstn_app_exact); rewrite E end.
      split; [exact La|].
      unfold alld. apply Forall_forall. intros x Hx. apply in_map_iff in Hx.
      destruct Hx as ([k o] & <- & Hin). cbn [fst snd].
      destruct o as [s|].
      + apply in_combine_r in Hin. apply in_firstn_ in Hin. rewrite (HL s Hin). lia.
      + eapply Nat.le_trans; [apply (mmul_nth_length_le g8mul)|].
        destruct valid as [|[k0 x0] valid']; cbn [hd snd length]; [lia|].
        assert (Hx0 : In (Some x0) sh).
        { apply (take_present_in sh d 0%nat k0 x0). rewrite <- Ev. left. reflexivity. }
        rewrite (HL x0 Hx0). lia.
  Qed.

  (** * T3. NEVER SUCCESS WITH A WRONG FILE *)

  Lemma Forall2_combine3 {A B C} (R : A -> B -> Prop) : forall (a : list A) (b : list B) (c : list C),
    length a = length b -> length b = length c ->
    (forall x y z, In (x, (y, z)) (combine a (combine b c)) -> R x y) -> Forall2 R a b.
  Proof.
    induction a as [|x a IH]; intros [|y b] [|z c] L1 L2 H; cbn [length] in L1, L2; try lia; constructor.
    - apply (H x y z). left. reflexivity.
    - apply (IH b c); [lia|lia|]. intros x' y' z' Hin. apply (H x' y' z'). right. exact Hin.
  Qed.

  Lemma in_combine_map {A B C} (f : A -> B) : forall (a : list A) (c : list C) x y z,
    In (x, (y, z)) (combine a (combine (map f a) c)) -> y = f x.
  Proof.
    induction a as [|x0 a IH]; intros [|z0 c] x y z H; cbn [map combine] in H; try (destruct H; fail).
    destruct H as [E|H]; [injection E as <- <- _; reflexivity|eapply IH; exact H].
  Qed.

  (* what a successful Repair guarantees for a saved entry whose loaded slot was o: the file is present with
     both recorded hashes; it is the loaded data when there was one, and has the recorded length when
     Repair wrote it; it is no longer than the shard size L (when there is one) *)
  Definition recorded_after (fs' : list (list N * bytes)) (ix : list N) (L : nat) (e : p1entry) (o : option bytes) : Prop :=
    exists data, fs_lookup fs' (epath ix e) = Some data /\ md5 data = e_hash e /\ hash16k md5 data = e_h16 e /\
      (L <> 0%nat -> (length data <= L)%nat) /\
      match o with Some d => data = d | None => N.of_nat (length data) = e_len e end.

  Lemma intact_all fs ix L : L = 0%nat -> forall es, count_none1 (map (slot fs ix) es) = 0%nat ->
    Forall2 (recorded_after fs ix L) es (map (slot fs ix) es).
  Proof.
    intros HL. induction es as [|e es IH]; intros Hc; cbn [map]; [constructor|].
    cbn [map] in Hc. unfold count_none1 in Hc. cbn [filter] in Hc.
    destruct (slot fs ix e) as [d|] eqn:Es; [|cbn [length] in Hc; discriminate Hc].
    constructor; [|apply IH; exact Hc].
    apply slot_some in Es. destruct Es as (Hl & H1 & H2).
    exists d. split; [exact Hl|]. split; [exact H1|]. split; [exact H2|]. split; [intros Hn; congruence|reflexivity].
  Qed.

  Theorem par1_repair_ok_all_recorded_strong : forall ix dbl fs rp st' s st1,
    par1_repair md5 ix dbl (io_init fs []) = ((Ok tt, rp), st') ->
    p1_load md5 ix (io_init fs []) = (Ok s, st1) ->
    NoDup (map (fun e => join2 (dir ix) (e_name e)) (s_saved s)) ->
    Forall2 (recorded_after (io_fs st') ix (s_size s)) (s_saved s) (s_data s).
  Proof.
    intros ix dbl fs rp st' s st1 HR HL Hnd.
    pose proof (p1_load_pres md5 ix (io_init fs [])) as P. rewrite HL in P. cbn [snd] in P.
    destruct P as (Pf & Ps & _). cbn [io_init io_fs io_sched] in Pf, Ps.
    destruct (p1_load_data_exact ix fs s st1 HL) as (E & Hb & Hne).
    destruct (p1_load_parity ix _ s st1 HL) as [Hpar _].
    unfold par1_repair in HR. rewrite HL in HR. cbv zeta in HR.
    destruct (Nat.eqb (s_size s) 0) eqn:Ez.
    { destruct (Nat.eqb (count_none1 (s_data s)) 0) eqn:Ec; [|discriminate HR].
      injection HR as _ <-. apply Nat.eqb_eq in Ec, Ez. rewrite Pf, E. apply intact_all; [exact Ez|].
      rewrite <- E. exact Ec. }
    apply Nat.eqb_neq in Ez.
    destruct (Nat.ltb 256 (length (s_data s) + length (s_parity s))); [discriminate HR|].
    destruct (build_shards s) as [sh|x|q] eqn:EB; try discriminate HR.
    destruct (par1_reconstruct (length (s_data s)) (length (s_parity s)) sh) as [full|x|q] eqn:ERc; try discriminate HR.
    match type of HR with (match ?okdbl with _ => _ end) = _ => destruct okdbl as [[|]|x|q] end; try discriminate HR.
    destruct (build_shards_ok s sh EB) as [Hlen Esh].
    set (L := s_size s) in *.
    assert (HshL : forall x, In (Some x) sh -> length x = L).
    { intros x Hin. rewrite Esh in Hin. apply in_app_or in Hin. destruct Hin as [Hin|Hin].
      - apply in_map_iff in Hin. destruct Hin as ([d|] & Ed & Hin); [|discriminate Ed].
        injection Ed as <-. rewrite Forall_forall in Hlen. pose proof (Hlen _ Hin d eq_refl) as Hd.
        rewrite app_length. unfold zeros. rewrite repeat_length. lia.
      - apply (Hpar x Hin). }
    destruct (par1_reconstruct_lengths _ _ sh full L ERc HshL) as [Lfull Ffull].
    set (shards := firstn (length (s_data s)) full) in *.
    set (todo := combine (s_saved s) (combine (s_data s) shards)) in HR.
    assert (Ld : length (s_data s) = length (s_saved s)) by (rewrite E; apply map_length).
    assert (Hmap : map (tpath ix) todo = map (epath ix) (s_saved s)).
    { transitivity (map (epath ix) (map fst todo)); [rewrite map_map; reflexivity|].
      unfold todo. rewrite map_fst_combine; [reflexivity|]. rewrite combine_length. lia. }
    assert (HndT : NoDup (map (tpath ix) todo)) by (rewrite Hmap; exact Hnd).
    destruct (p1_write_repaired_ok ix todo [] st1 rp st' Ps HndT HR) as [A B].
    apply (Forall2_combine3 _ (s_saved s) (s_data s) shards); [lia|lia|].
    intros e o shd Hin. fold todo in Hin.
    assert (Ho : o = slot fs ix e).
    { unfold todo in Hin. rewrite E in Hin. eapply in_combine_map. exact Hin. }
    assert (Hshd : (length shd <= L)%nat).
    { apply in_combine_r in Hin. apply in_combine_r in Hin. rewrite Forall_forall in Ffull. exact (Ffull _ Hin). }
    destruct o as [d|].
    - symmetry in Ho. apply slot_some in Ho. destruct Ho as (Hl & H1 & H2).
      exists d. split; [|split; [exact H1|split; [exact H2|split; [|reflexivity]]]].
      + rewrite A; [rewrite Pf; exact Hl|].
        intros t Ht Hf Ept.
        assert (t = (e, (Some d, shd))).
        { apply (NoDup_map_inj_in (tpath ix) todo); [exact HndT|exact Ht|exact Hin|exact Ept]. }
        subst t. cbn [fst snd] in Hf. discriminate Hf.
      + intros _. rewrite Forall_forall in Hlen. apply (Hlen (Some d)); [|reflexivity].
        apply in_combine_r in Hin. apply in_combine_l in Hin. exact Hin.
    - destruct (B (e, (None, shd)) Hin eq_refl) as (data & Hl & (Rl & R1 & R2) & Hle).
      cbn [fst snd] in *. unfold tpath in Hl. cbn [fst] in Hl.
      exists data. split; [exact Hl|]. split; [exact R1|]. split; [exact R2|]. split; [intros _; lia|exact Rl].
  Qed.

  Theorem par1_repair_ok_all_recorded : forall ix dbl fs rp st' s st1,
    par1_repair md5 ix dbl (io_init fs []) = ((Ok tt, rp), st') ->
    p1_load md5 ix (io_init fs []) = (Ok s, st1) ->
    NoDup (map (fun e => join2 (dir ix) (e_name e)) (s_saved s)) ->
    Forall (fun e => exists data, fs_lookup (io_fs st') (join2 (dir ix) (e_name e)) = Some data /\
                     md5 data = e_hash e /\ hash16k md5 data = e_h16 e) (s_saved s).
  Proof.
    intros ix dbl fs rp st' s st1 HR HL Hnd.
    pose proof (par1_repair_ok_all_recorded_strong ix dbl fs rp st' s st1 HR HL Hnd) as F.
    apply (Forall2_Forall_l _ _ _ _ F).
    intros e o (data & Hl & H1 & H2 & _). exists data. split; [exact Hl|split; [exact H1|exact H2]].
  Qed.


  (** * the loading phase after writes that touch neither the index nor a volume path *)

  Lemma load_vols_same ix sh : forall n i size acc st st2 r st',
    io_sched st = [] -> io_sched st2 = [] ->
    (forall j, (i < j <= i + n)%nat ->
       read_res (io_fs st2) (volume_path ix (N.of_nat j)) = read_res (io_fs st) (volume_path ix (N.of_nat j))) ->
    load_vols md5 ix sh i n size acc st = (Ok r, st') ->
    exists st2', load_vols md5 ix sh i n size acc st2 = (Ok r, st2') /\ io_sched st2' = [] /\ io_fs st2' = io_fs st2.
  Proof.
    induction n as [|n IH]; intros i size acc st st2 r st' Hs Hs2 Hrd H; cbn [load_vols] in *.
    - injection H as <- _. exists st2. split; [reflexivity|split; [exact Hs2|reflexivity]].
    - destruct (io_read_nosched (volume_path ix (N.of_nat (S i))) st Hs) as (s1 & ER & Hs1 & Hf1).
      destruct (io_read_nosched (volume_path ix (N.of_nat (S i))) st2 Hs2) as (s2 & ER2 & Hs2' & Hf2').
      rewrite ER in H. rewrite ER2. rewrite (Hrd (S i)) by lia.
      assert (Hrd' : forall j, (S i < j <= S i + n)%nat ->
                read_res (io_fs s2) (volume_path ix (N.of_nat j)) = read_res (io_fs s1) (volume_path ix (N.of_nat j))).
      { intros j Hj. rewrite Hf1, Hf2'. apply Hrd. lia. }
      assert (K : forall sz ac, load_vols md5 ix sh (S i) n sz ac s1 = (Ok r, st') ->
                exists st2', load_vols md5 ix sh (S i) n sz ac s2 = (Ok r, st2') /\ io_sched st2' = [] /\ io_fs st2' = io_fs st2).
      { intros sz ac H'. destruct (IH _ _ _ _ _ _ _ Hs1 Hs2' Hrd' H') as (s3 & E3 & Hs3 & Hf3).
        exists s3. split; [exact E3|split; [exact Hs3|congruence]]. }
      destruct (read_res (io_fs st) (volume_path ix (N.of_nat (S i)))) as [b|x|q].
      + destruct (read_volume md5 b) as [v|x|q]; [|exact (K _ _ H)|discriminate H].
        repeat lazymatch type of H with (if ?c then _ else _) = _ =>
                 destruct c; [first [discriminate H | exact (K _ _ H)]|] end.
        exact (K _ _ H).
      + destruct x; try discriminate H.
        destruct (IH _ _ _ _ _ _ _ Hs1 Hs2' Hrd' H) as (s3 & E3 & Hs3 & Hf3).
        exists s3. split; [exact E3|split; [exact Hs3|congruence]].
      + discriminate H.
  Qed.

  (* After writes that touch neither the index file, nor a volume path the loader reads, nor a path
     below such a volume path, and after which every saved file is present, the loading phase
     succeeds again with the same index volume, saved entries, shard size and parity slots; the data
     slots are those of the new file map. *)
  Lemma p1_load_after_writes ix fs s st1 (ws : list (list N * bytes)) :
    p1_load md5 ix (io_init fs []) = (Ok s, st1) ->
    ~ In ix (map fst ws) ->
    (forall k, 0 < k <= N.min (256 - nsaved (s_vol s)) 99 ->
        ~ In (volume_path ix k) (map fst ws) /\
        Forall (fun w : list N * bytes => starts_with (fst w) (volume_path ix k ++ [SLASH]) = false) ws) ->
    (forall e, In e (s_saved s) -> exists data, fs_lookup (apply_writes ws fs) (epath ix e) = Some data) ->
    exists st1', p1_load md5 ix (io_init (apply_writes ws fs) []) =
      (Ok {| s_index := s_index s; s_vol := s_vol s; s_saved := s_saved s;
             s_data := map (slot (apply_writes ws fs) ix) (s_saved s);
             s_size := s_size s; s_parity := s_parity s |}, st1').
  Proof.
    intros HL Hnix Hvol Hpres.
    destruct (p1_load_inv _ _ _ _ HL) as (b & sa & v & ds & sb & slots & size &
                                          EE & ER & EV & EN & EL & Hds & EC & ELV & ->).
    cbn [s_index s_vol s_saved s_data s_size s_parity] in *.
    set (fs' := apply_writes ws fs) in *.
    set (es := filter saved (v_entries v)) in *.
    (* the states of the original run *)
    pose proof (io_read_pres ix (io_init fs [])) as P1. rewrite ER in P1. cbn [snd] in P1.
    destruct P1 as (Pfa & Psa & _). cbn [io_init io_fs io_sched] in Pfa, Psa.
    pose proof (load_data_pres md5 ix es sa) as P2. rewrite EL in P2. cbn [snd] in P2.
    destruct P2 as (Pfb & Psb & _).
    assert (Hsb : io_sched sb = []) by congruence.
    assert (Hfb : io_fs sb = fs) by congruence.
    destruct (load_data_exact ix es sa ds sb Psa EL) as [Eds Hb].
    (* the index file *)
    assert (Hlix : fs_lookup fs ix = Some b).
    { apply (io_read_ok_lookup ix (io_init fs []) b sa eq_refl ER). }
    destruct (io_read_some ix (io_init fs' []) b eq_refl) as (sa' & ER' & Hsa' & Hfa').
    { cbn [io_init io_fs]. unfold fs'. rewrite apply_writes_lookup_other by exact Hnix. exact Hlix. }
    cbn [io_init io_fs] in Hfa'.
    (* the saved files *)
    destruct (load_data_total ix es sa' Hsa') as (sb' & EL' & Hsb' & Hfb').
    { apply Forall_forall. intros e Hin. split.
      - rewrite Forall_forall in Hb. exact (Hb e Hin).
      - rewrite Hfa'. apply Hpres. exact Hin. }
    rewrite Hfa' in EL'.
    assert (Hds' : map (slot fs' ix) es <> []).
    { intros E0. apply map_eq_nil in E0. apply Hds. rewrite Eds, E0. reflexivity. }
    (* the volumes *)
    destruct (load_vols_same ix (v_sethash_stored v) (N.to_nat (N.min (256 - nsaved v) 99)) 0 0 [] sb sb'
                (slots, size) st1 Hsb Hsb') as (sc' & ELV' & _ & _).
    { intros j Hj. rewrite Hfb, Hfb', Hfa'. unfold fs'.
      destruct (Hvol (N.of_nat j)) as [Hni Hnd]; [lia|].
      apply read_res_apply_writes; assumption. }
    { exact ELV. }
    exists sc'. exact (p1_load_ok ix _ b sa' v _ sb' slots size sc' EE ER' EV EN EL' Hds' EC ELV').
  Qed.

  Lemma build_shards_total s :
    Forall (fun o : option bytes => forall d, o = Some d -> (length d <= s_size s)%nat) (s_data s) ->
    exists sh, build_shards s = Ok sh /\
      sh = map (fun o : option bytes => match o with Some d => Some (d ++ zeros (s_size s - length d)) | None => None end)
               (s_data s) ++ s_parity s.
  Proof.
    intros H. unfold build_shards.
    lazymatch goal with |- exists sh, (if ?c then _ else _) = _ /\ _ => destruct c eqn:E end;
      [|eexists; split; reflexivity].
    exfalso. apply existsb_exists in E. destruct E as ([d|] & Hin & Hlt); [|discriminate Hlt].
    apply Nat.ltb_lt in Hlt. rewrite Forall_forall in H. specialize (H _ Hin d eq_refl). lia.
  Qed.

  Lemma rs_verify_total d p (sh : list (option bytes)) :
    (forall o, In o sh -> exists x, o = Some x /\ length x <> 0%nat) -> exists b, rs_verify d p sh = Ok b.
  Proof.
    intros H. unfold rs_verify.
    lazymatch goal with |- exists b, (if ?c then _ else _) = _ => destruct c eqn:E end; [|eexists; reflexivity].
    exfalso. apply existsb_exists in E. destruct E as (o & Hin & Ho).
    destruct (H o Hin) as (x & -> & Hx). apply Nat.eqb_eq in Ho. exact (Hx Ho).
  Qed.

  Lemma count_none1_all_some {A} : forall l : list (option A),
    Forall (fun o => exists x, o = Some x) l -> count_none1 l = 0%nat.
  Proof.
    unfold count_none1. induction l as [|o l IH]; intros H; [reflexivity|].
    inversion H as [|? ? [x ->] Hr]; subst. cbn [filter]. apply IH. exact Hr.
  Qed.

  (* Verify on a loaded state with every data slot filled, none longer than the shard size: never an error *)
  Lemma verify_on_full_state (s : p1state) all :
    Forall (fun o : option bytes => exists d, o = Some d /\ (s_size s <> 0%nat -> (length d <= s_size s)%nat)) (s_data s) ->
    par_inv (s_parity s) (s_size s) -> s_parity s <> [] ->
    exists ok,
      (if all && Nat.eqb (fc_unusable (file_counts s)) 0 && Nat.eqb (fc_punusable (file_counts s)) 0 then
         match build_shards s with
         | Ok sh => match rs_verify (length (s_data s)) (length (s_parity s)) sh with
                    | Ok ok => Ok (file_counts s, ok)
                    | Err x => Err x
                    | Panic q => Panic q
                    end
         | Err x => Err x
         | Panic q => Panic q
         end
       else Ok (file_counts s, false)) = Ok (file_counts s, ok).
  Proof.
    intros Hd Hpar Hne.
    destruct (all && Nat.eqb (fc_unusable (file_counts s)) 0 && Nat.eqb (fc_punusable (file_counts s)) 0) eqn:Ec;
      [|exists false; reflexivity].
    apply andb_prop in Ec. destruct Ec as [_ Ep]. apply Nat.eqb_eq in Ep. cbn [file_counts fc_punusable] in Ep.
    pose proof (count_none1_zero _ Ep) as Fp.
    assert (HL : s_size s <> 0%nat).
    { destruct (s_parity s) as [|o ps]; [congruence|]. inversion Fp as [|? ? [x ->] _]; subst.
      apply (Hpar x). left. reflexivity. }
    destruct (build_shards_total s) as (sh & -> & Esh).
    { revert Hd. apply Forall_impl. intros o (d & -> & Hle) d' E. injection E as <-. exact (Hle HL). }
    destruct (rs_verify_total (length (s_data s)) (length (s_parity s)) sh) as [ok ->]; [|exists ok; reflexivity].
    intros o Hin. rewrite Esh in Hin. apply in_app_or in Hin. destruct Hin as [Hin|Hin].
    - apply in_map_iff in Hin. destruct Hin as (o' & <- & Hin).
      rewrite Forall_forall in Hd. destruct (Hd o' Hin) as (d & -> & Hle).
      eexists. split; [reflexivity|]. rewrite app_length. unfold zeros. rewrite repeat_length.
      specialize (Hle HL). lia.
    - rewrite Forall_forall in Fp. destruct (Fp o Hin) as [x ->]. exists x. split; [reflexivity|].
      destruct (Hpar x Hin) as [Hx _]. lia.
  Qed.

  (** * T4. CONVERGENCE STEP *)

  (* general form: the premise on paths also excludes paths BELOW a volume path (discharged for
     every index path in par1_repair_ok_then_clean_and_idle by entry_not_below_volume) *)
  Lemma repair_ok_then_clean_and_idle_gen : forall ix dbl fs rp st' s st1 all,
    par1_repair md5 ix dbl (io_init fs []) = ((Ok tt, rp), st') ->
    p1_load md5 ix (io_init fs []) = (Ok s, st1) ->
    NoDup (map (fun e => join2 (dir ix) (e_name e)) (s_saved s)) ->
    (forall e, In e (s_saved s) ->
       epath ix e <> ix /\
       forall k, 0 < k <= N.min (256 - nsaved (s_vol s)) 99 ->
         epath ix e <> volume_path ix k /\ starts_with (epath ix e) (volume_path ix k ++ [SLASH]) = false) ->
    exists c ok st2, par1_verify md5 ix all (io_init (io_fs st') []) = (Ok (c, ok), st2) /\ fc_unusable c = 0%nat /\
      forall dbl2 r2 rp2 st3, par1_repair md5 ix dbl2 (io_init (io_fs st') []) = ((r2, rp2), st3) ->
        rp2 = [] /\ io_fs st3 = io_fs st'.
  Proof.
    intros ix dbl fs rp st' s st1 all HR HL Hnd Hdisj.
    pose proof (par1_repair_ok_all_recorded_strong ix dbl fs rp st' s st1 HR HL Hnd) as F.
    assert (W : exists ws : list (list N * bytes), io_fs st' = apply_writes ws fs /\
                Forall (fun w : list N * bytes => exists e, In e (s_saved s) /\ fst w = epath ix e) ws).
    { destruct (par1_repair_writes md5 _ _ _ _ _ _ HR) as [[Hfs _]|(s0 & st0 & ws & HL0 & Hfs & _ & Hws)].
      - exists []. split; [exact Hfs|constructor].
      - rewrite HL in HL0. injection HL0 as <- <-.
        exists ws. split; [exact Hfs|]. revert Hws. apply Forall_impl.
        intros w0 (e & Hin & _ & Hp & _). exists e. split; [exact Hin|exact Hp]. }
    destruct W as (ws & Hfs & Hws). rewrite Forall_forall in Hws.
    destruct (p1_load_parity ix _ s st1 HL) as [Hpar Hpne].
    destruct (p1_load_data_exact ix fs s st1 HL) as (Eds & _ & _).
    (* every saved file is present in the new state, with its slot filled *)
    assert (Hslots : Forall (fun e => exists d, slot (io_fs st') ix e = Some d /\
                                       (s_size s <> 0%nat -> (length d <= s_size s)%nat)) (s_saved s)).
    { apply (Forall2_Forall_l _ _ _ _ F). intros e o (data & Hl & H1 & H2 & Hle & _).
      exists data. split; [apply slot_intact; assumption|exact Hle]. }
    destruct (p1_load_after_writes ix fs s st1 ws HL) as (st2 & HL').
    { intros Hin. apply in_map_iff in Hin. destruct Hin as (w0 & E & Hin).
      destruct (Hws w0 Hin) as (e & He & Hp). destruct (Hdisj e He) as [Hne _]. congruence. }
    { intros k Hk. split.
      - intros Hin. apply in_map_iff in Hin. destruct Hin as (w0 & E & Hin).
        destruct (Hws w0 Hin) as (e & He & Hp). destruct (Hdisj e He) as [_ Hv].
        destruct (Hv k Hk) as [Hne _]. congruence.
      - apply Forall_forall. intros w0 Hin.
        destruct (Hws w0 Hin) as (e & He & Hp). destruct (Hdisj e He) as [_ Hv].
        destruct (Hv k Hk) as [_ Hsw]. rewrite Hp. exact Hsw. }
    { intros e Hin. rewrite Forall_forall in Hslots. destruct (Hslots e Hin) as (d & Hs & _).
      apply slot_some in Hs. destruct Hs as [Hl _]. exists d. rewrite <- Hfs. exact Hl. }
    rewrite <- Hfs in HL'.
    set (s' := {| s_index := s_index s; s_vol := s_vol s; s_saved := s_saved s;
                  s_data := map (slot (io_fs st') ix) (s_saved s);
                  s_size := s_size s; s_parity := s_parity s |}) in *.
    assert (Hd' : Forall (fun o : option bytes => exists d, o = Some d /\
                            (s_size s' <> 0%nat -> (length d <= s_size s')%nat)) (s_data s')).
    { cbn [s' s_data s_size]. apply Forall_forall. intros o Hin. apply in_map_iff in Hin.
      destruct Hin as (e & <- & Hin). rewrite Forall_forall in Hslots. exact (Hslots e Hin). }
    assert (Hc : fc_unusable (file_counts s') = 0%nat).
    { cbn [file_counts fc_unusable]. apply count_none1_all_some. revert Hd'. apply Forall_impl.
      intros o (d & -> & _). exists d. reflexivity. }
    destruct (verify_on_full_state s' all Hd' Hpar Hpne) as [ok Hv].
    exists (file_counts s'), ok, st2. split; [|split; [exact Hc|]].
    - unfold par1_verify. rewrite HL'. cbv zeta.
      destruct (all && Nat.eqb (fc_unusable (file_counts s')) 0 && Nat.eqb (fc_punusable (file_counts s')) 0).
      + destruct (build_shards s') as [sh|x|q]; try discriminate Hv.
        destruct (rs_verify (length (s_data s')) (length (s_parity s')) sh) as [b|x|q]; try discriminate Hv.
        injection Hv as <-. reflexivity.
      + injection Hv as <-. reflexivity.
    - intros dbl2 r2 rp2 st3 HR2.
      exact (par1_idle_on_clean ix dbl2 (io_fs st') s' st2 r2 rp2 st3 HL' Hc HR2).
  Qed.


  (* The premise on paths: no saved entry's path is the index file or a volume path the loader reads
     (volumes .p01 .. .pNN, NN = min (256 - file count) 99).  That such a path does not lie BELOW a
     volume path holds for every index path (entry_not_below_volume). *)
  Theorem par1_repair_ok_then_clean_and_idle : forall ix dbl fs rp st' s st1 all,
    par1_repair md5 ix dbl (io_init fs []) = ((Ok tt, rp), st') ->
    p1_load md5 ix (io_init fs []) = (Ok s, st1) ->
    NoDup (map (fun e => join2 (dir ix) (e_name e)) (s_saved s)) ->
    (forall e, In e (s_saved s) ->
       join2 (dir ix) (e_name e) <> ix /\
       forall k, 0 < k <= N.min (256 - nsaved (s_vol s)) 99 -> join2 (dir ix) (e_name e) <> volume_path ix k) ->
    exists c ok st2, par1_verify md5 ix all (io_init (io_fs st') []) = (Ok (c, ok), st2) /\ fc_unusable c = 0%nat /\
      forall dbl2 r2 rp2 st3, par1_repair md5 ix dbl2 (io_init (io_fs st') []) = ((r2, rp2), st3) ->
        rp2 = [] /\ io_fs st3 = io_fs st'.
  Proof.
    intros ix dbl fs rp st' s st1 all HR HL Hnd Hdisj.
    apply (repair_ok_then_clean_and_idle_gen ix dbl fs rp st' s st1 all HR HL Hnd).
    destruct (p1_load_data_exact ix fs s st1 HL) as (_ & Hb & _). rewrite Forall_forall in Hb.
    intros e Hin. destruct (Hdisj e Hin) as [Hix Hv]. split; [exact Hix|].
    intros k Hk. split; [exact (Hv k Hk)|]. apply entry_not_below_volume. exact (Hb e Hin).
  Qed.

End Par1Clean.

Print Assumptions par1_intact_clean.
Print Assumptions par1_idle_on_clean.
Print Assumptions par1_repair_ok_all_recorded_strong.
Print Assumptions par1_repair_ok_all_recorded.
Print Assumptions entry_not_below_volume.
Print Assumptions par1_repair_ok_then_clean_and_idle.

(** * non-vacuity: a concrete archive, one file deleted, repaired *)

Definition toy_hash (x : bytes) : bytes := firstn 16 (x ++ repeat 0 16).
Definition ex_ix : list N := [97; 46; 112; 97; 114].                                  (* "a.par" *)
Definition ex_fs0 : list (list N * bytes) := [([120], [1; 2; 3]); ([121], [4; 5; 6; 7])].   (* "x", "y" *)
(* Create with two volumes, then "x" is deleted *)
Definition ex_fs : list (list N * bytes) :=
  filter (fun kv : list N * bytes => negb (str_eqb (fst kv) [120]))
         (io_fs (snd (par1_create toy_hash ex_ix [[120]; [121]] 2%Z (io_init ex_fs0 [])))).

Example par1_repair_example :
  exists s st1 rp st',
    par1_repair toy_hash ex_ix false (io_init ex_fs []) = ((Ok tt, rp), st') /\
    p1_load toy_hash ex_ix (io_init ex_fs []) = (Ok s, st1) /\
    NoDup (map (fun e => join2 (dir ex_ix) (e_name e)) (s_saved s)) /\
    (forall e, In e (s_saved s) ->
       join2 (dir ex_ix) (e_name e) <> ex_ix /\
       forall k, 0 < k <= N.min (256 - nsaved (s_vol s)) 99 -> join2 (dir ex_ix) (e_name e) <> volume_path ex_ix k) /\
    rp = [[120]] /\ fs_lookup ex_fs [120] = None /\ fs_lookup (io_fs st') [120] = Some [1; 2; 3].
Proof.
  eexists _, _, _, _.
  split; [vm_compute; reflexivity|]. split; [vm_compute; reflexivity|].
  split; [|split; [|split; [reflexivity|split; vm_compute; reflexivity]]].
  - vm_compute. constructor; [intros [E|[]]; discriminate E|]. constructor; [intros []|constructor].
  - intros e Hin. cbn [s_saved s_vol v_count] in *.
    assert (He : join2 (dir ex_ix) (e_name e) = [120] \/ join2 (dir ex_ix) (e_name e) = [121]).
    { vm_compute in Hin. destruct Hin as [<-|[<-|[]]]; [left|right]; vm_compute; reflexivity. }
    split.
    + destruct He as [-> | ->]; discriminate.
    + intros k Hk. unfold volume_path. intros E. apply (f_equal (@length N)) in E.
      rewrite !app_length in E. destruct He as [He|He]; rewrite He in E; cbn [length] in E; lia.
Qed.

(* after that Repair: Verify with the parity check succeeds, nothing unusable, parity consistent *)
Example par1_repair_example_converged :
  let fs' := io_fs (snd (par1_repair toy_hash ex_ix false (io_init ex_fs []))) in
  exists c, fst (par1_verify toy_hash ex_ix true (io_init fs' [])) = Ok (c, true) /\ fc_unusable c = 0%nat /\
            fst (par1_repair toy_hash ex_ix true (io_init fs' [])) = (Ok tt, []).
Proof. eexists. split; [vm_compute; reflexivity|split; vm_compute; reflexivity]. Qed.
