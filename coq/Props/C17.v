(* C17 — Create is deterministic and invariant under irrelevant variation.
   In the model, Create's output is by construction a function of the resolved paths, contents, slice
   size and block count: par2_create has no goroutine parameter and no hidden state, and uses the
   current directory only to resolve spellings (abs_path).  Goroutine independence of the coding
   itself is Props/C12.v. *)
From Coq Require Import Permutation.
From Gopar Require Import Model.Base Model.CRC Model.GoPath Model.FS Model.Par2 Proofs.Par2Facts Proofs.Par2Create Proofs.CreatePerm.
Open Scope N_scope.

(* ORDER OF THE INPUT LIST: for any permutation of the (relative name, content) inputs with distinct
   file ids, every output file is the same - index, volumes, every byte *)
Theorem C17_order_independent : forall md5 parPath sz np (l1 l2 : list (bytes * bytes)),
  Permutation l1 l2 ->
  NoDup (map (fun nd => fi_id (data_file_info md5 sz (fst nd) (snd nd))) l1) ->
  create_outputs md5 parPath sz np (map fst l1) (map snd l1) = create_outputs md5 parPath sz np (map fst l2) (map snd l2).
Proof. intros. apply create_outputs_perm_gen; assumption. Qed.
Print Assumptions C17_order_independent.

(* the recovery set is the same sorted list for every permutation of the ids *)
Theorem C17_recovery_set_canonical : forall l1 l2, Permutation l1 l2 -> sort_ids l1 = sort_ids l2.
Proof. exact sort_ids_perm_eq. Qed.
Print Assumptions C17_recovery_set_canonical.

(* spellings of the same path resolve to the same absolute path: one example of every spelling class *)
Theorem C17_spellings :
  let cwd := [47; 116; 47; 115] in                                   (* "/t/s" *)
  abs_path cwd [97] = [47; 116; 47; 115; 47; 97] /\                   (* a *)
  abs_path cwd [46; 47; 97] = [47; 116; 47; 115; 47; 97] /\           (* ./a *)
  abs_path cwd [120; 47; 46; 46; 47; 97] = [47; 116; 47; 115; 47; 97] /\   (* x/../a *)
  abs_path cwd [47; 116; 47; 47; 115; 47; 46; 47; 97] = [47; 116; 47; 115; 47; 97].   (* /t//s/./a *)
Proof. vm_compute. repeat split; reflexivity. Qed.
Print Assumptions C17_spellings.
