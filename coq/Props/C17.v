(* C17 — Create is deterministic and invariant under irrelevant variation (interim).
   In the model, Create's output is BY CONSTRUCTION a function of the resolved paths, contents, slice
   size and block count: par2_create has no goroutine parameter and no hidden state, and uses the
   current directory only to resolve spellings (abs_path). *)
From Gopar Require Import Model.Base Model.CRC Model.GoPath Model.FS Model.Par2.
Open Scope N_scope.

(* spellings of the same path resolve to the same absolute path: examples of every spelling class *)
Theorem C17_spellings :
  let cwd := [47; 116; 47; 115] in                                   (* "/t/s" *)
  abs_path cwd [97] = [47; 116; 47; 115; 47; 97] /\                   (* a *)
  abs_path cwd [46; 47; 97] = [47; 116; 47; 115; 47; 97] /\           (* ./a *)
  abs_path cwd [120; 47; 46; 46; 47; 97] = [47; 116; 47; 115; 47; 97] /\   (* x/../a *)
  abs_path cwd [47; 116; 47; 47; 115; 47; 46; 47; 97] = [47; 116; 47; 115; 47; 97].   (* /t//s/./a *)
Proof. vm_compute. repeat split; reflexivity. Qed.
Print Assumptions C17_spellings.
