(* C17 — Create is deterministic and invariant under irrelevant variation.
   In the model, Create's output is by construction a function of the resolved paths, contents, slice
   size and block count: par2_create has no goroutine parameter and no hidden state, and uses the
   current directory only to resolve spellings (abs_path).  Goroutine independence of the coding
   itself is Props/C12.v. *)
From Coq Require Import Permutation.
From Gopar Require Import Model.Base Model.CRC Model.GoPath Model.FS Model.Par2 Proofs.Par2Facts Proofs.Par2Create Proofs.CreatePerm Proofs.Par2CreatePaths.
Open Scope N_scope.

(* ORDER OF THE INPUT LIST: for any permutation of the (relative name, content) inputs with distinct
   file ids, every output file is the same - index, volumes, every byte *)
Theorem C17_order_independent : forall md5 parPath sz np (l1 l2 : list (bytes * bytes)),
  Permutation l1 l2 ->
  NoDup (map (fun nd => fi_id (data_file_info md5 sz (fst nd) (snd nd))) l1) ->
  create_outputs md5 parPath sz np (map fst l1) (map snd l1) = create_outputs md5 parPath sz np (map fst l2) (map snd l2).
Proof. intros. apply create_outputs_perm_gen; assumption. Qed.
Print Assumptions C17_order_independent.

(* the recovery set is the same sorted list for every permutation of the ids *)
Theorem C17_recovery_set_canonical : forall l1 l2, Permutation l1 l2 -> sort_ids l1 = sort_ids l2.
Proof. exact sort_ids_perm_eq. Qed.
Print Assumptions C17_recovery_set_canonical.

(* spellings of the same path resolve to the same absolute path: one example of every spelling class *)
Theorem C17_spellings :
  let cwd := [47; 116; 47; 115] in                                   (* "/t/s" *)
  abs_path cwd [97] = [47; 116; 47; 115; 47; 97] /\                   (* a *)
  abs_path cwd [46; 47; 97] = [47; 116; 47; 115; 47; 97] /\           (* ./a *)
  abs_path cwd [120; 47; 46; 46; 47; 97] = [47; 116; 47; 115; 47; 97] /\   (* x/../a *)
  abs_path cwd [47; 116; 47; 47; 115; 47; 46; 47; 97] = [47; 116; 47; 115; 47; 97].   (* /t//s/./a *)
Proof. vm_compute. repeat split; reflexivity. Qed.
Print Assumptions C17_spellings.

(* CURRENT DIRECTORY AND SPELLING: two invocations - from any two directories, with any spellings - whose
   index path and input paths RESOLVE to the same absolute paths return the same result and perform the
   same sequence of reads and writes (same resolved paths, same bytes, same outcomes), for every initial
   file system and fault schedule.  The two side conditions are needed (counterexamples
   cp4_trailing_slash_corner, cp4_relative_cwd_corner in Proofs/Par2CreatePaths.v): "out.par2/" resolves
   like "out.par2" but has no extension, and a relative current directory makes resolution itself relative *)
Theorem C17_cwd_spelling_invariant : forall md5 cwd1 cwd2 par1 par2 files1 files2 p fs sched,
  str_eqb (ext par1) EXT_PAR2 = str_eqb (ext par2) EXT_PAR2 ->
  is_abs (abs_path cwd1 par1) = true ->
  abs_path cwd1 par1 = abs_path cwd2 par2 ->
  map (abs_path cwd1) files1 = map (abs_path cwd2) files2 ->
  let r1 := par2_create md5 cwd1 par1 files1 p (io_init fs sched) in
  let r2 := par2_create md5 cwd2 par2 files2 p (io_init fs sched) in
  fst r1 = fst r2 /\
  map (resolve_event cwd1) (io_trace (snd r1)) = map (resolve_event cwd2) (io_trace (snd r2)).
Proof. exact create_cwd_spelling_invariant. Qed.
Print Assumptions C17_cwd_spelling_invariant.

(* the same for ordinary last components (no trailing slash, ".", ".."): then the extensions agree by themselves *)
Theorem C17_cwd_spelling_invariant_plain : forall md5 cwd1 cwd2 par1 par2 files1 files2 p fs sched,
  is_abs cwd1 = true -> plain_last par1 -> plain_last par2 ->
  abs_path cwd1 par1 = abs_path cwd2 par2 ->
  map (abs_path cwd1) files1 = map (abs_path cwd2) files2 ->
  let r1 := par2_create md5 cwd1 par1 files1 p (io_init fs sched) in
  let r2 := par2_create md5 cwd2 par2 files2 p (io_init fs sched) in
  fst r1 = fst r2 /\
  map (resolve_event cwd1) (io_trace (snd r1)) = map (resolve_event cwd2) (io_trace (snd r2)).
Proof. exact create_cwd_spelling_invariant_plain. Qed.
Print Assumptions C17_cwd_spelling_invariant_plain.
