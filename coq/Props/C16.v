(* C16 — slices are found at any byte offset.
   Model: Model/CRC.v — CRC-32/IEEE (bitwise), crc32Window (newCRC32Window / update as in
   par2/crc32.go) and the greedy scan of fillShardInfos (par2/decoder.go). *)
From Gopar Require Import Model.Base Model.CRC Proofs.CRCFacts Proofs.ScanFacts.
From Gopar Require Import Model.GoPath Model.FS Model.Par2 Proofs.Par2Verify Proofs.Par2Clean Proofs.Par2Counts.
From Coq Require Import List. Import ListNotations.
Open Scope N_scope.

(* the rolling update is exact for EVERY window size >= 4 and every window content:
   update(crc(a[0:n]), a[0], a[n]) = crc(a[1:n+1]) *)
Theorem C16_update : forall n w a0 A an, (4 <= n)%Z -> win_new n = Ok w ->
  length (a0 :: A) = Z.to_nat n -> wf_bytes (a0 :: A ++ [an]) ->
  win_update w (crc32 (a0 :: A)) a0 an = crc32 (A ++ [an]).
Proof. exact win_update_spec. Qed.
Print Assumptions C16_update.

Theorem C16_small : forall n, (n < 4)%Z -> win_new n = Panic PExplicit.
Proof. exact win_new_small. Qed.
Print Assumptions C16_small.

(* the scan that rolls the checksum visits and credits exactly what the scan that recomputes the
   checksum at every position does *)
Theorem C16_scan_eq_spec : forall md5 S w t data, (4 <= S)%nat -> win_new (Z.of_nat S) = Ok w -> wf_bytes data ->
  scan md5 S w t data = scan_spec md5 S t data.
Proof. exact scan_eq_spec. Qed.
Print Assumptions C16_scan_eq_spec.

(* found if not shadowed: a position whose zero-padded window matches a registered checksum pair,
   with no matching window starting strictly within S bytes before it, is a hit, credited with
   every location registered for that pair - wherever in whichever file it lies *)
Theorem C16_found : forall md5 S t data p, (0 < S)%nat -> (p < length data)%nat ->
  matches md5 t (window_at S data p) ->
  (forall q, (q < p)%nat -> (p < q + S)%nat -> ~ matches md5 t (window_at S data q)) ->
  In {| h_pos := p; h_locs := cs_get md5 t (crc32 (window_at S data p)) (window_at S data p);
        h_data := window_at S data p |} (fst (scan_spec md5 S t data)).
Proof. exact scan_found. Qed.
Print Assumptions C16_found.

(* soundness: every hit carries the bytes of a window that matches a registered pair *)
Theorem C16_sound : forall md5 S t data h, In h (fst (scan_spec md5 S t data)) ->
  (h_pos h < length data)%nat /\ h_data h = window_at S data (h_pos h) /\
  h_locs h = cs_get md5 t (crc32 (h_data h)) (h_data h) /\ h_locs h <> [].
Proof. exact scan_sound. Qed.
Print Assumptions C16_sound.

(* an intact file is found slice by slice with no miss *)
Theorem C16_intact : forall md5 S t data, (0 < S)%nat ->
  (forall k, (k * S < length data)%nat -> matches md5 t (window_at S data (k * S))) ->
  snd (scan_spec md5 S t data) = 0%nat /\
  map h_pos (fst (scan_spec md5 S t data)) = map (fun k => k * S)%nat (seq 0 ((length data + S - 1) / S)).
Proof. exact scan_intact. Qed.
Print Assumptions C16_intact.

(* non-vacuity: window size 4, a 5-byte virtual slice *)
Example C16_example :
  match win_new 4 with
  | Ok w => win_update w (crc32 [1; 2; 3; 4]) 1 5 = crc32 [2; 3; 4; 5]
  | _ => False
  end.
Proof. vm_compute. reflexivity. Qed.

(* FROM THE SCAN TO VERIFY'S COUNTS (Proofs/Par2Counts.v), for every archive state with distinct file ids:
   a slice whose zero-padded window occurs at ANY offset p of ANY surviving protected file (of byte values), with no
   window carrying a registered checksum pair starting within S bytes before p (= not overlapping another
   surviving slice), is COUNTED USABLE: its slot of the shard table is filled - whichever file and offset it is
   found at; the premise is needed (CNShadow.cn1_without_unshadowed_refuted) *)
Theorem C16_present_slice_counted : forall md5 ix fs ds st1,
  load_all md5 ix (io_init fs []) = (Ok ds, st1) ->
  NoDup (map di_id (d_rec (ds_dec ds))) ->
  let infos := d_rec (ds_dec ds) in let S := N.to_nat (d_slice (ds_dec ds)) in
  forall i k j data p,
    (j < length infos)%nat ->
    fs_lookup fs (file_path ix (di_name (nth j infos dinfo0))) = Some data -> wf_bytes data ->
    (p < length data)%nat ->
    pair_at infos i k (md5 (window_at S data p), crc32 (window_at S data p)) ->
    (forall q, (q < p)%nat -> (p < q + S)%nat -> ~ matches md5 (ds_tbl ds) (window_at S data q)) ->
    nth k (fi_shards (nth i (ds_fis ds) dfi)) None <> None.
Proof. exact load_all_credits_present_slice. Qed.
Print Assumptions C16_present_slice_counted.

(* hence "only slices overlapping the edit become unusable": the unusable count is at most the number of slots
   for which NO such unshadowed occurrence exists anywhere in the surviving protected files *)
Theorem C16_unusable_bounded_by_absent : forall md5 ix fs ds st1,
  load_all md5 ix (io_init fs []) = (Ok ds, st1) ->
  NoDup (map di_id (d_rec (ds_dec ds))) ->
  forall L : list (nat * nat),
    (forall i k, (i < length (d_rec (ds_dec ds)))%nat ->
        (k < length (di_pairs (nth i (d_rec (ds_dec ds)) dinfo0)))%nat ->
        ~ occurs_unshadowed md5 ix fs ds i k -> In (i, k) L) ->
    (c_unusable (shard_counts ds) <= length L)%nat.
Proof. exact unusable_bounded_by_absent. Qed.
Print Assumptions C16_unusable_bounded_by_absent.
