(* C16 — slices are found at any byte offset.
   Model: Model/CRC.v — CRC-32/IEEE (bitwise), crc32Window (newCRC32Window / update as in
   par2/crc32.go) and the greedy scan of fillShardInfos (par2/decoder.go). *)
From Gopar Require Import Model.Base Model.CRC Proofs.CRCFacts Proofs.ScanFacts.
Open Scope N_scope.

(* the rolling update is exact for EVERY window size >= 4 and every window content:
   update(crc(a[0:n]), a[0], a[n]) = crc(a[1:n+1]) *)
Theorem C16_update : forall n w a0 A an, (4 <= n)%Z -> win_new n = Ok w ->
  length (a0 :: A) = Z.to_nat n -> wf_bytes (a0 :: A ++ [an]) ->
  win_update w (crc32 (a0 :: A)) a0 an = crc32 (A ++ [an]).
Proof. exact win_update_spec. Qed.
Print Assumptions C16_update.

Theorem C16_small : forall n, (n < 4)%Z -> win_new n = Panic PExplicit.
Proof. exact win_new_small. Qed.
Print Assumptions C16_small.

(* the scan that rolls the checksum visits and credits exactly what the scan that recomputes the
   checksum at every position does *)
Theorem C16_scan_eq_spec : forall md5 S w t data, (4 <= S)%nat -> win_new (Z.of_nat S) = Ok w -> wf_bytes data ->
  scan md5 S w t data = scan_spec md5 S t data.
Proof. exact scan_eq_spec. Qed.
Print Assumptions C16_scan_eq_spec.

(* found if not shadowed: a position whose zero-padded window matches a registered checksum pair,
   with no matching window starting strictly within S bytes before it, is a hit, credited with
   every location registered for that pair - wherever in whichever file it lies *)
Theorem C16_found : forall md5 S t data p, (0 < S)%nat -> (p < length data)%nat ->
  matches md5 t (window_at S data p) ->
  (forall q, (q < p)%nat -> (p < q + S)%nat -> ~ matches md5 t (window_at S data q)) ->
  In {| h_pos := p; h_locs := cs_get md5 t (crc32 (window_at S data p)) (window_at S data p);
        h_data := window_at S data p |} (fst (scan_spec md5 S t data)).
Proof. exact scan_found. Qed.
Print Assumptions C16_found.

(* soundness: every hit carries the bytes of a window that matches a registered pair *)
Theorem C16_sound : forall md5 S t data h, In h (fst (scan_spec md5 S t data)) ->
  (h_pos h < length data)%nat /\ h_data h = window_at S data (h_pos h) /\
  h_locs h = cs_get md5 t (crc32 (h_data h)) (h_data h) /\ h_locs h <> [].
Proof. exact scan_sound. Qed.
Print Assumptions C16_sound.

(* an intact file is found slice by slice with no miss *)
Theorem C16_intact : forall md5 S t data, (0 < S)%nat ->
  (forall k, (k * S < length data)%nat -> matches md5 t (window_at S data (k * S))) ->
  snd (scan_spec md5 S t data) = 0%nat /\
  map h_pos (fst (scan_spec md5 S t data)) = map (fun k => k * S)%nat (seq 0 ((length data + S - 1) / S)).
Proof. exact scan_intact. Qed.
Print Assumptions C16_intact.

(* non-vacuity: window size 4, a 5-byte virtual slice *)
Example C16_example :
  match win_new 4 with
  | Ok w => win_update w (crc32 [1; 2; 3; 4]) 1 5 = crc32 [2; 3; 4; 5]
  | _ => False
  end.
Proof. vm_compute. reflexivity. Qed.
