(* C20 — the par command's exit status reflects the outcome.
   Model: Model/CLI.v (cmd/par/main.go: Go flag parsing as used there, command and extension dispatch,
   result-to-status mapping) over the library models. *)
From Gopar Require Import Model.Base Model.CRC Model.GoPath Model.FS Model.Par2 Model.Par1 Model.CLI.
Open Scope N_scope.

(* the status mapping of verify: needed and possible -> 1, needed and impossible -> 2, otherwise 0 *)
Theorem C20_verify_codes : forall needed possible,
  exit_of_checker needed possible = (if needed then (if possible then 1 else 2) else 0).
Proof. intros [|] [|]; reflexivity. Qed.
Print Assumptions C20_verify_codes.

(* the status mapping of repair, PAR1 and PAR2 alike: success -> 0, necessary but not possible -> 2,
   any other failure -> 7 (non-zero) *)
Theorem C20_repair_codes : forall A (r : outcome A),
  (exit_of_repair r = 0 <-> exists a, r = Ok a) /\
  (r = Err ENotEnoughParity -> exit_of_repair r = 2) /\
  (forall e, r = Err e -> exit_of_repair r <> 0).
Proof.
  intros A r. repeat split.
  - destruct r as [a|e|p]; cbn; [intros _; exists a; reflexivity| |discriminate].
    destruct e; discriminate.
  - intros [a ->]. reflexivity.
  - intros ->. reflexivity.
  - intros e ->. destruct e; discriminate.
Qed.
Print Assumptions C20_repair_codes.

(* usage errors exit 3: no command, unknown command, missing arguments *)
Theorem C20_usage : forall md5 cwd st,
  fst (cli_run md5 cwd [] st) = 3 /\
  fst (cli_run md5 cwd [[102; 114; 111; 98]] st) = 3 /\
  fst (cli_run md5 cwd [[118]] st) = 3 /\ fst (cli_run md5 cwd [[114]] st) = 3 /\ fst (cli_run md5 cwd [[99]] st) = 3 /\
  fst (cli_run md5 cwd [[99]; [120; 46; 112; 97; 114; 50]] st) = 3.
Proof. intros. repeat split; reflexivity. Qed.
Print Assumptions C20_usage.
