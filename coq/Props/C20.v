(* C20 — the par command's exit status reflects the outcome.
   Model: Model/CLI.v (cmd/par/main.go: Go flag parsing as used there, command and extension dispatch,
   result-to-status mapping) over the library models. *)
From Gopar Require Import Model.Base Model.CRC Model.GoPath Model.FS Model.Par2 Model.Par1 Model.CLI Proofs.CLIFacts Proofs.Par2Facts Proofs.Par2Clean Proofs.Par2Converge Proofs.CLICompose Proofs.Par1RoundTrip Proofs.CLICompose1 Proofs.Par2Converge2.
From Gopar Require Proofs.CreateContain.
From Coq Require Import List. Import ListNotations.
Open Scope N_scope.

(* the status mapping of verify: needed and possible -> 1, needed and impossible -> 2, otherwise 0 *)
Theorem C20_verify_codes : forall needed possible,
  exit_of_checker needed possible = (if needed then (if possible then 1 else 2) else 0).
Proof. intros [|] [|]; reflexivity. Qed.
Print Assumptions C20_verify_codes.

(* the status mapping of repair, PAR1 and PAR2 alike: success -> 0, necessary but not possible -> 2,
   any other failure -> 7 (non-zero) *)
Theorem C20_repair_codes : forall A (r : outcome A),
  (exit_of_repair r = 0 <-> exists a, r = Ok a) /\
  (r = Err ENotEnoughParity -> exit_of_repair r = 2) /\
  (forall e, r = Err e -> exit_of_repair r <> 0).
Proof.
  intros A r. repeat split.
  - destruct r as [a|e|p]; cbn; [intros _; exists a; reflexivity| |discriminate].
    destruct e; discriminate.
  - intros [a ->]. reflexivity.
  - intros ->. reflexivity.
  - intros e ->. destruct e; discriminate.
Qed.
Print Assumptions C20_repair_codes.

(* usage errors exit 3: no command, unknown command, missing arguments *)
Theorem C20_usage : forall md5 cwd st,
  fst (cli_run md5 cwd [] st) = 3 /\
  fst (cli_run md5 cwd [[102; 114; 111; 98]] st) = 3 /\
  fst (cli_run md5 cwd [[118]] st) = 3 /\ fst (cli_run md5 cwd [[114]] st) = 3 /\ fst (cli_run md5 cwd [[99]] st) = 3 /\
  fst (cli_run md5 cwd [[99]; [120; 46; 112; 97; 114; 50]] st) = 3.
Proof. intros. repeat split; reflexivity. Qed.
Print Assumptions C20_usage.

(* EXIT 0 MEANS SUCCESS, verify: for every command line of the verify shape (any global flags, any
   letter case of v/verify, any -a), every current directory and every archive state: status 0 implies
   that every protected file is present with its recorded length and hashes - PAR2 and PAR1 *)
Theorem C20_verify2_zero_means_intact : forall md5 cwd args par fs st',
  cli_run md5 cwd args (io_init fs []) = (0, st') -> cli_is_verify2 args par ->
  exists ds st1, load_all md5 par (io_init fs []) = (Ok ds, st1) /\
    Forall (fun info => exists data, fs_lookup fs (file_path par (di_name info)) = Some data /\
              md5 data = di_hash info /\ Par2.hash16k md5 data = di_h16 info /\ N.of_nat (length data) = di_len info)
           (d_rec (ds_dec ds)).
Proof. exact cli_verify2_zero_intact. Qed.
Print Assumptions C20_verify2_zero_means_intact.

Theorem C20_verify1_zero_means_intact : forall md5 cwd args par all fs st',
  cli_run md5 cwd args (io_init fs []) = (0, st') -> cli_is_verify1 args par all ->
  exists s st1, p1_load md5 par (io_init fs []) = (Ok s, st1) /\
    Forall (fun e => exists data, fs_lookup fs (join2 (dir par) (e_name e)) = Some data /\
                      md5 data = e_hash e /\ Par1.hash16k md5 data = e_h16 e) (s_saved s).
Proof. exact cli_verify1_zero_intact. Qed.
Print Assumptions C20_verify1_zero_means_intact.

(* the status of every verify command line is 0 / 1 / 2 by needed / possible, of every repair command
   line the mapping of the library result - PAR2 and PAR1 alike *)
Theorem C20_verify2_status : forall md5 cwd args par st c st1,
  cli_is_verify2 args par -> par2_verify md5 par st = (Ok c, st1) ->
  fst (cli_run md5 cwd args st) = (if repair_needed c then (if repair_possible c then 1 else 2) else 0).
Proof. exact cli_verify2_codes. Qed.
Print Assumptions C20_verify2_status.

Theorem C20_verify1_status : forall md5 cwd args par all st fc ok st1,
  cli_is_verify1 args par all -> par1_verify md5 par all st = (Ok (fc, ok), st1) ->
  fst (cli_run md5 cwd args st) =
    (if Nat.eqb (fc_unusable fc) 0 then 0 else if Nat.leb (fc_unusable fc) (fc_pusable fc) then 1 else 2).
Proof. exact cli_verify1_codes. Qed.
Print Assumptions C20_verify1_status.

Theorem C20_repair2_status : forall md5 cwd args par dbl st r rp st1,
  cli_is_repair2 args par dbl -> par2_repair md5 par dbl st = ((r, rp), st1) ->
  fst (cli_run md5 cwd args st) = exit_of_repair r.
Proof. exact cli_repair2_codes. Qed.
Print Assumptions C20_repair2_status.

Theorem C20_repair1_status : forall md5 cwd args par dbl st r rp st1,
  cli_is_repair1 args par dbl -> par1_repair md5 par dbl st = ((r, rp), st1) ->
  fst (cli_run md5 cwd args st) = exit_of_repair r.
Proof. exact cli_repair1_codes. Qed.
Print Assumptions C20_repair1_status.

(* every malformed command line (global flags that do not parse, no or unknown command word, a command
   without its arguments or with flags that do not parse) exits 3 *)
Theorem C20_usage_status : forall md5 cwd args st, cli_is_usage_error args -> fst (cli_run md5 cwd args st) = 3.
Proof. exact cli_usage. Qed.
Print Assumptions C20_usage_status.

(* EXIT 0 MEANS SUCCESS, repair (PAR2): for every repair command line (any global flags, letter case,
   -checkparity), every current directory and EVERY archive state, status 0 implies that afterwards every
   protected file is present with its recorded length, MD5 and 16k-MD5; and a Repair that did not succeed
   never exits 0 *)
Theorem C20_repair2_zero_means_restored : forall md5 cwd args par dbl fs st',
  cli_run md5 cwd args (io_init fs []) = (0, st') -> cli_is_repair2 args par dbl ->
  forall ds st1, load_all md5 par (io_init fs []) = (Ok ds, st1) ->
  NoDup (map (fun info => file_path par (di_name info)) (d_rec (ds_dec ds))) ->
  forall info, In info (d_rec (ds_dec ds)) ->
    exists data, fs_lookup (io_fs st') (file_path par (di_name info)) = Some data /\ recorded md5 info data.
Proof. exact cli_repair2_zero_restored. Qed.
Print Assumptions C20_repair2_zero_means_restored.

Theorem C20_repair2_nonzero_on_failure : forall md5 cwd args par dbl st r rp st1,
  cli_is_repair2 args par dbl -> par2_repair md5 par dbl st = ((r, rp), st1) ->
  r <> Ok tt -> fst (cli_run md5 cwd args st) <> 0.
Proof. exact cli_repair2_nonzero_on_failure. Qed.
Print Assumptions C20_repair2_nonzero_on_failure.

(* the same for PAR1: after status 0 every saved file holds data with both recorded hashes (the recorded
   length too if Repair wrote it; a file that was already accepted is untouched - PAR1's loader compares
   hashes only, see cli_repair1_zero_length_refuted in Proofs/CLICompose.v) *)
Theorem C20_repair1_zero_means_restored : forall md5 cwd args par dbl fs st',
  cli_run md5 cwd args (io_init fs []) = (0, st') -> cli_is_repair1 args par dbl ->
  forall s st1, p1_load md5 par (io_init fs []) = (Ok s, st1) ->
  NoDup (map (fun e => join2 (dir par) (e_name e)) (s_saved s)) ->
  forall e, In e (s_saved s) ->
    exists data, fs_lookup (io_fs st') (join2 (dir par) (e_name e)) = Some data /\
      md5 data = e_hash e /\ Par1.hash16k md5 data = e_h16 e /\
      (N.of_nat (length data) = e_len e \/ fs_lookup fs (join2 (dir par) (e_name e)) = Some data).
Proof. exact cli_repair1_zero_restored. Qed.
Print Assumptions C20_repair1_zero_means_restored.

Theorem C20_repair1_nonzero_on_failure : forall md5 cwd args par dbl st r rp st1,
  cli_is_repair1 args par dbl -> par1_repair md5 par dbl st = ((r, rp), st1) ->
  r <> Ok tt -> fst (cli_run md5 cwd args st) <> 0.
Proof. exact cli_repair1_nonzero_on_failure. Qed.
Print Assumptions C20_repair1_nonzero_on_failure.

(* EXIT 0 MEANS SUCCESS, create (PAR2): status 0 of a create command line (any flags -s/-c, letter case)
   is exactly library success; statuses are 0 / 6 (any error) / 2 (a Go panic) *)
Theorem C20_create2_zero_means_created : forall md5 cwd args par files p fs st',
  cli_run md5 cwd args (io_init fs []) = (0, st') -> cli_is_create2 args par files p ->
  par2_create md5 cwd par files p (io_init fs []) = (Ok tt, st').
Proof. exact cli_create2_zero_then_verify_zero. Qed.
Print Assumptions C20_create2_zero_means_created.

Theorem C20_create2_status : forall md5 cwd args par files p st,
  cli_is_create2 args par files p ->
  fst (cli_run md5 cwd args st) =
    match fst (par2_create md5 cwd par files p st) with Ok _ => 0 | Err _ => 6 | Panic _ => 2 end.
Proof. exact cli_create2_codes. Qed.
Print Assumptions C20_create2_status.

(* ... and "wrote the set" end to end: after `par create` exits 0 (inputs with NUL-free names, distinct ids,
   none of them the index or a <base>.*.par2 file, no such file present before, index path given with its
   directory resolved), ANY verify command line on that index, from any directory, exits 0 *)
Theorem C20_create2_zero_then_verify2_zero : forall md5, (forall x, length (md5 x) = 16%nat) ->
  forall cwd args par files p fs st',
  cli_run md5 cwd args (io_init fs []) = (0, st') -> cli_is_create2 args par files p ->
  let sz := create_slice p in
  let basedir := dir (abs_path cwd par) in
  let rels := map (rel_path basedir) (map (abs_path cwd) files) in
  forall datas st1,
  Par2.io_reads (map (join2 basedir) rels) (io_init fs []) = (Ok datas, st1) ->
  N.of_nat sz <= MAXSLICE ->
  Forall (fun nm : bytes => no_nul nm /\ N.of_nat (length nm) < 2 ^ 32) rels ->
  Forall (fun d : bytes => wf_bytes d /\ N.of_nat (length d) <= MAXINT) datas ->
  NoDup (map fi_id (map (fun nd : bytes * bytes => data_file_info md5 sz (fst nd) (snd nd)) (combine rels datas))) ->
  dir (abs_path cwd par) = dir par ->
  (forall rel, In rel rels -> file_path par rel <> par /\ vol_pattern (Par2.strip_ext par) (file_path par rel) = false) ->
  (forall q, In q (map fst fs) -> vol_pattern (Par2.strip_ext par) q = false) ->
  forall cwd2 vargs, cli_is_verify2 vargs par ->
    fst (cli_run md5 cwd2 vargs (io_init (io_fs st') [])) = 0.
Proof. exact cli_create2_then_verify2_zero. Qed.
Print Assumptions C20_create2_zero_then_verify2_zero.

(* the same WITHOUT the premise that no input is the index file or a <base>.*.par2 file: Create refuses such an input
   (exit status 6, C02_create_parity_input_refused), so a create command that exited 0 had none.  For the absolute
   current directory of a process and an index path that filepath.Abs leaves unchanged (absolute and clean) *)
Theorem C20_create2_zero_then_verify2_zero_checked : forall md5, (forall x, length (md5 x) = 16%nat) ->
  forall cwd args par files p fs st',
  is_abs cwd = true -> abs_path cwd par = par ->
  cli_run md5 cwd args (io_init fs []) = (0, st') -> cli_is_create2 args par files p ->
  let sz := create_slice p in
  let basedir := dir par in
  let rels := map (rel_path basedir) (map (abs_path cwd) files) in
  forall datas st1,
  Par2.io_reads (map (join2 basedir) rels) (io_init fs []) = (Ok datas, st1) ->
  N.of_nat sz <= MAXSLICE ->
  Forall (fun nm : bytes => no_nul nm /\ N.of_nat (length nm) < 2 ^ 32) rels ->
  Forall (fun d : bytes => wf_bytes d /\ N.of_nat (length d) <= MAXINT) datas ->
  NoDup (map fi_id (map (fun nd : bytes * bytes => data_file_info md5 sz (fst nd) (snd nd)) (combine rels datas))) ->
  (forall q, In q (map fst fs) -> vol_pattern (Par2.strip_ext par) q = false) ->
  forall cwd2 vargs, cli_is_verify2 vargs par ->
    fst (cli_run md5 cwd2 vargs (io_init (io_fs st') [])) = 0.
Proof. exact CreateContain.cli_create2_then_verify2_zero_checked. Qed.
Print Assumptions C20_create2_zero_then_verify2_zero_checked.

(* a successful repair command is followed by a verify command that exits 0 (premises of C14's convergence step) *)
Theorem C20_repair2_zero_then_verify2_zero : forall md5 cwd args par dbl fs st',
  cli_run md5 cwd args (io_init fs []) = (0, st') -> cli_is_repair2 args par dbl ->
  forall ds st1, load_all md5 par (io_init fs []) = (Ok ds, st1) ->
  NoDup (map (fun info => file_path par (di_name info)) (d_rec (ds_dec ds))) ->
  NoDup (map di_id (d_rec (ds_dec ds))) ->
  (forall info data, In info (d_rec (ds_dec ds)) -> wf_bytes data -> recorded md5 info data ->
       di_pairs info = pairs_of md5 (N.to_nat (d_slice (ds_dec ds))) data) ->
  (forall info dat, In info (d_rec (ds_dec ds)) ->
       fs_lookup fs (file_path par (di_name info)) = Some dat -> wf_bytes dat) ->
  (forall info, In info (d_rec (ds_dec ds)) ->
       file_path par (di_name info) <> par /\ vol_pattern (Par2.strip_ext par) (file_path par (di_name info)) = false) ->
  forall cwd2 vargs, cli_is_verify2 vargs par -> fst (cli_run md5 cwd2 vargs (io_init (io_fs st') [])) = 0.
Proof. exact cli_repair2_zero_then_verify_zero2. Qed.
Print Assumptions C20_repair2_zero_then_verify2_zero.

(* EXIT 0 MEANS SUCCESS, create (PAR1): statuses 0 / 7 (any error) / 2 (a Go panic); status 0 is exactly
   library success; and after it ANY verify command line on that index exits 0 (premises of the PAR1
   round-trip theorem Props/C04.v) *)
Theorem C20_create1_status : forall md5 cwd args par files nvol st,
  cli_is_create1 args par files nvol ->
  fst (cli_run md5 cwd args st) =
    match fst (par1_create md5 par files nvol st) with Ok _ => 0 | Err _ => 7 | Panic _ => 2 end.
Proof. exact cli_create1_codes. Qed.
Print Assumptions C20_create1_status.

Theorem C20_create1_zero_means_created : forall md5 cwd args par files nvol fs st',
  cli_run md5 cwd args (io_init fs []) = (0, st') -> cli_is_create1 args par files nvol ->
  par1_create md5 par files nvol (io_init fs []) = (Ok tt, st').
Proof. exact cli_create1_zero_means_created. Qed.
Print Assumptions C20_create1_zero_means_created.

Theorem C20_create1_zero_then_verify1_zero : forall md5, (forall x, length (md5 x) = 16%nat) ->
  forall cwd args par files nvol fs st',
  cli_run md5 cwd args (io_init fs []) = (0, st') -> cli_is_create1 args par files nvol ->
  let nv := create1_volumes nvol in
  Forall (fun f => input_name_ok (base f)) files ->
  Forall (fun f => join2 (dir par) (base f) = f) files ->
  (forall f d, In f files -> fs_lookup fs f = Some d -> N.of_nat (length d) < 2^64) ->
  Forall (fun f => f <> par /\ forall k, (1 <= k <= nv)%nat -> f <> volume_path par (N.of_nat k)) files ->
  (forall k, (nv < k <= Nat.min (256 - length files) 99)%nat ->
     fs_lookup fs (volume_path par (N.of_nat k)) = None /\ is_dir fs (volume_path par (N.of_nat k)) = false) ->
  forall cwd2 vargs all, cli_is_verify1 vargs par all ->
    fst (cli_run md5 cwd2 vargs (io_init (io_fs st') [])) = 0.
Proof. exact cli_create1_then_verify1_zero. Qed.
Print Assumptions C20_create1_zero_then_verify1_zero.
