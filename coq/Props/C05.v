(* C05 — created PAR2 sets are valid PAR2 and carry the specified Reed-Solomon data.
   The property predicate is the executable specification-side reader Model/Par2Spec.v (valid_set),
   run on gopar's output by the check.  Proved here about the WRITER model (Model/Par2.v, the model
   of encoder.go / file.go / packet.go that the check compares byte for byte with gopar's output):
   framing, padding, the volume layout, the ordering of the recovery set, and that every recovery
   block is the specification's sum, that the reader reads it back (Create then Verify is clean), and
   that the INDEPENDENT validator valid_set accepts the writer's output for every accepted input set. *)
From Coq Require Import Permutation.
From Gopar Require Import Model.Base Model.GF16 Model.Matrix Model.RS16 Model.CRC Model.GoPath Model.FS Model.Par2 Model.Par2Spec
     Proofs.LinAlg Proofs.Matrix16 Proofs.RS16Facts Proofs.Par2Facts Proofs.Par2Create Proofs.Par2Layout Proofs.Par2Clean Proofs.Par2SpecFacts.
Open Scope N_scope.

(* what the writer frames, the reader unframes, whatever follows - for every set id, type and body *)
Theorem C05_packet_round_trip : forall md5, (forall x, length (md5 x) = 16%nat) ->
  forall setid ptype body rest,
  length setid = 16%nat -> length ptype = 16%nat -> (length body mod 4 = 0)%nat ->
  64 + N.of_nat (length body) < 2 ^ 64 ->
  read_next_packet md5 (write_packet md5 setid ptype body ++ rest) = NPPacket setid ptype body rest.
Proof. exact packet_round_trip. Qed.
Print Assumptions C05_packet_round_trip.

Theorem C05_padding : forall b, (length (pad4 b) mod 4 = 0)%nat /\ firstn (length b) (pad4 b) = b.
Proof. intros b. split; [apply pad4_length|apply pad4_prefix]. Qed.
Print Assumptions C05_padding.

(* the recovery files together contain blocks 0..n-1 exactly once, in order, for EVERY block count *)
Theorem C05_layout : forall n,
  concat (map (fun ic : nat * nat => seq (fst ic) (snd ic)) (volume_layout (S n) 0 1 n)) = seq 0 n.
Proof. exact volume_layout_covers. Qed.
Print Assumptions C05_layout.

Theorem C05_layout_nonempty : forall n ic, In ic (volume_layout (S n) 0 1 n) -> (0 < snd ic)%nat.
Proof. exact volume_layout_nonempty. Qed.
Print Assumptions C05_layout_nonempty.

(* the recovery set of the main packet is the sorted permutation of the inputs' file ids *)
Theorem C05_recovery_set : forall l, ids_sorted (sort_ids l) = true /\ Permutation l (sort_ids l).
Proof. intros l. split; [apply sort_ids_sorted|apply sort_ids_perm]. Qed.
Print Assumptions C05_recovery_set.

(* recovery block e, word w = sum over all slices j of c_j^e * slice_j[w] with the specification's
   product and power (reduced carry-less arithmetic modulo 0x1100B), c_j the j-th constant *)
Theorem C05_parity : forall d p D L e w,
  (0 < d)%nat -> N.of_nat d <= 32768 -> N.of_nat p <= 65535 -> wfm16 d L D -> (e < p)%nat -> (w < L)%nat ->
  let c := {| c_data := d; c_parity := p; c_pm := vandermonde_pm d p |} in
  nth w (nth e (gen_parity c D) []) 0 =
  fold_right (fun j acc => N.lxor (fmul (fpow (nth j (generators_first d) 0) (N.of_nat e)) (nth w (nth j D []) 0)) acc)
             0 (seq 0 d).
Proof. exact parity_is_spec_sum. Qed.
Print Assumptions C05_parity.

(* END TO END on the model: for EVERY input set that the writer accepts (any names without NUL, any
   contents, any slice size 4..2^40, any block count, distinct file ids), the files Create writes are
   read back by the reader: Verify on the resulting directory succeeds, needs no repair, and finds all
   np recovery blocks - the writer and the reader agree on framing, packet bodies, ids, hashes, slice
   checksums and volume layout *)
Theorem C05_create_then_verify_clean : forall md5, (forall x, length (md5 x) = 16%nat) ->
  forall parPath sz np names datas outs fs0,
  create_outputs md5 parPath sz np names datas = Ok outs ->
  (4 <= sz)%nat -> (N.of_nat sz <= MAXSLICE)%N ->
  Forall (fun nm : bytes => no_nul nm /\ (N.of_nat (length nm) < 2 ^ 32)%N) names ->
  Forall (fun d : bytes => wf_bytes d /\ (N.of_nat (length d) <= MAXINT)%N) datas ->
  NoDup (map fi_id (map (fun nd : bytes * bytes => data_file_info md5 sz (fst nd) (snd nd)) (combine names datas))) ->
  let ix := strip_ext parPath ++ EXT_PAR2 in
  let fs := apply_writes outs fs0 in
  (forall name data, In (name, data) (combine names datas) -> fs_lookup fs0 (file_path ix name) = Some data) ->
  (forall name, In name names -> ~ In (file_path ix name) (map fst outs)) ->
  (forall q, In q (map fst fs0) -> vol_pattern (strip_ext parPath) q = true -> In q (map fst outs)) ->
  exists c st, par2_verify md5 ix (io_init fs []) = (Ok c, st) /\ repair_needed c = false /\ c_pusable c = np.
Proof. exact create_then_verify_clean. Qed.
Print Assumptions C05_create_then_verify_clean.

(* THE PROPERTY ON THE MODEL: for EVERY input set the writer accepts (names without NUL, contents of
   bytes, any slice size up to 2^40, any block count, distinct file ids) the files it emits satisfy
   every clause of valid_set - framing, lengths, packet MD5s, set id, ascending ids of the inputs,
   file and 16k hashes, slice MD5/CRC32 with padding, creator packets, every recovery block equal to
   sum_i slice_i * c_i^e with the specification's constants and reduced carry-less arithmetic, and the
   exponents 0..n-1 exactly once.  md5 is a parameter: its results are 16 byte values (premises). *)
Theorem C05_writer_output_valid : forall md5, (forall x, length (md5 x) = 16%nat) -> (forall x, wf_bytes (md5 x)) ->
  forall parPath sz np names datas outs,
  create_outputs md5 parPath sz np names datas = Ok outs ->
  N.of_nat sz <= MAXSLICE ->
  Forall (fun nm : bytes => no_nul nm /\ N.of_nat (length nm) < 2 ^ 32) names ->
  Forall (fun d : bytes => wf_bytes d /\ N.of_nat (length d) <= MAXINT) datas ->
  NoDup (map fi_id (map (fun nd => data_file_info md5 sz (fst nd) (snd nd)) (combine names datas))) ->
  valid_set md5 sz np (map (fun nd : bytes * bytes => {| in_name := fst nd; in_data := snd nd |}) (combine names datas))
            (map (fun pb : list N * bytes => (str_eqb (fst pb) (strip_ext parPath ++ EXT_PAR2), snd pb)) outs) = true.
Proof. exact create_outputs_valid. Qed.
Print Assumptions C05_writer_output_valid.

(* the constants of the specification-side validator: 2^1, 2^2, 2^4, 2^7, 2^8, 2^11 *)
Theorem C05_spec_constants : s_consts 100 0 6 = [2; 4; 16; 128; 256; 2048].
Proof. vm_compute. reflexivity. Qed.
Print Assumptions C05_spec_constants.
