(* C05 — created PAR2 sets are valid PAR2 and carry the specified Reed-Solomon data (interim: the
   validator's non-vacuity; the writer theorems of Proofs/Par2Create.v are added when they land). *)
From Gopar Require Import Model.Base Model.GF16 Model.CRC Model.Par2Spec.
Open Scope N_scope.

(* the specification's first constants are 2, 4, 16, 128, 256, 2048 (2^1, 2^2, 2^4, 2^7, 2^8, 2^11) *)
Theorem C05_spec_constants : s_consts 100 0 6 = [2; 4; 16; 128; 256; 2048].
Proof. vm_compute. reflexivity. Qed.
Print Assumptions C05_spec_constants.
