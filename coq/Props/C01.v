(* C01 — PAR2 repair restores every protected file exactly, within recovery capacity.
   Model: Model/Par2.v (Create, the decoder, Repair) over Model/FS.v, with the scan of Model/CRC.v
   and the coder of Model/RS16.v.  The property is the composition of three proved parts:
   every cleanly present slice is found (Props/C16.v), reconstruction returns exactly the original
   slices or an error (below, from C07), and only hash-verified data is written (Props/C02.v). *)
From Coq Require Import Lia.
From Gopar Require Import Model.Base Model.GF16 Model.Matrix Model.RS16
     Proofs.LinAlg Proofs.Matrix16 Proofs.RS16Facts.
Open Scope N_scope.

(* the PAR2 coder over ANY number of slices and blocks within the format's limits, any erasure of
   slices and any subset of surviving blocks (a table indexed by exponent with holes): success means
   the original slices; the only errors are not-enough-parity and the singular combination *)
Theorem C01_reconstruct_exact : forall d p D kd kp L,
  (0 < d)%nat -> N.of_nat d <= 32768 -> N.of_nat p <= 65535 ->
  wfm16 d L D -> length kd = d -> length kp = p ->
  let c := {| c_data := d; c_parity := p; c_pm := vandermonde_pm d p |} in
  match reconstruct c (erase kd D) (erase kp (gen_parity c D)) with
  | Ok r => r = D
  | Err e => e = ENotEnoughParity \/ e = ESingular
  | Panic _ => False
  end.
Proof.
  intros d p D kd kp L Hd Hd' Hp HD Hkd Hkp c.
  apply (reconstruct_spec c D kd kp L); cbn [c_data c_parity c_pm c]; try assumption.
  apply vandermonde_pm_wf; assumption.
Qed.
Print Assumptions C01_reconstruct_exact.

(* the same at the level of the decoder's byte slices (Model/Par2.v repair_shards, the core of Repair):
   orig = the protected slices in recovery-set order; found = any subset of them (what the scan
   found); parity = any subset of the true recovery blocks, indexed by exponent.  Repair's
   reconstruction yields exactly the original slices or one of the two permitted errors, with and
   without the double-check. *)
From Gopar Require Import Model.CRC Model.GoPath Model.FS Model.Par2 Proofs.Par2Facts Proofs.Par2Clean Proofs.Par2Converge Proofs.Par2RepairComplete Proofs.Par2EndToEnd Proofs.Par2EndToEnd2.
Open Scope N_scope.
Theorem C01_repair_shards_exact : forall orig kd kp L dbl,
  let nd := length orig in
  forall np, (0 < nd)%nat -> N.of_nat nd <= 32768 -> N.of_nat np <= 65535 ->
  Forall (fun s => wf_bytes s /\ length s = (2 * L)%nat) orig ->
  length kd = nd -> length kp = np ->
  let c := {| c_data := nd; c_parity := np; c_pm := vandermonde_pm nd np |} in
  let blocks := map le_bytes (gen_parity c (map le_words orig)) in
  match repair_shards (erase kd orig) (erase kp blocks) dbl with
  | Ok data => data = orig
  | Err e => e = ENotEnoughParity \/ e = ESingular
  | Panic _ => False
  end.
Proof. exact repair_shards_sound. Qed.
Print Assumptions C01_repair_shards_exact.

(* the dedicated error exactly when fewer blocks are available than slices are missing *)
Theorem C01_not_enough : forall c data parity,
  length data = c_data c -> (0 < count_none data)%nat ->
  (reconstruct c data parity = Err ENotEnoughParity <-> (length (somes parity) < count_none data)%nat).
Proof. exact reconstruct_not_enough. Qed.
Print Assumptions C01_not_enough.

(* NEVER SUCCESS WITH A WRONG FILE, end to end on the decoder model and for EVERY archive state: if Repair
   returns success then afterwards every protected file is present with the recorded length, MD5 and
   first-16-KiB MD5 (= byte-identical to the original under the local collision-freeness premise) *)
Theorem C01_success_means_restored : forall md5 ix dbl fs rp st' ds st1,
  par2_repair md5 ix dbl (io_init fs []) = ((Ok tt, rp), st') ->
  load_all md5 ix (io_init fs []) = (Ok ds, st1) ->
  NoDup (map (fun info => file_path ix (di_name info)) (d_rec (ds_dec ds))) ->
  forall info, In info (d_rec (ds_dec ds)) ->
    exists data, fs_lookup (io_fs st') (file_path ix (di_name info)) = Some data /\ recorded md5 info data.
Proof. exact repair_ok_all_recorded. Qed.
Print Assumptions C01_success_means_restored.

(* non-vacuity: three 4-byte slices, slice 1 lost, only block 1 of two survives *)
Example C01_example :
  let orig := [[1; 2; 3; 4]; [5; 6; 7; 8]; [9; 10; 11; 12]] in
  let c := {| c_data := 3; c_parity := 2; c_pm := vandermonde_pm 3 2 |} in
  let blocks := map le_bytes (gen_parity c (map le_words orig)) in
  repair_shards (erase [true; false; true] orig) (erase [false; true] blocks) true = Ok orig.
Proof. vm_compute. reflexivity. Qed.

(* WITHIN CAPACITY => REPAIRED, end to end on the decoder model, for EVERY archive state whose archive is
   consistent with SOME originals `orig` (the slices in recovery-set order):
     - local collision-freeness: a slice-sized window with the registered (MD5, CRC32) pair of slice k is orig[k];
     - every loaded recovery block is the true block of its exponent for `orig`;
     - the originals joined per file have the recorded length and hashes;
     - the coder's limits when blocks are present (the loader enforces neither: refuted without, RCLimits);
   if the slices counted unusable do not exceed the usable recovery blocks, Repair returns success - and then
   every protected file is present with the recorded length and hashes - or the singular-system error (the
   PAR2 Vandermonde matrix has singular minors; C07).  Nothing else can happen: no other error, no panic. *)
Theorem C01_within_capacity_repairs : forall md5 ix dbl fs ds st1 (orig : list bytes) L,
  load_all md5 ix (io_init fs []) = (Ok ds, st1) ->
  let S := N.to_nat (d_slice (ds_dec ds)) in
  let sh := flat_map fi_shards (ds_fis ds) in
  S = (2 * L)%nat ->
  length orig = length sh -> Forall (fun s => wf_bytes s /\ length s = S) orig ->
  (forall p dat, fs_lookup fs p = Some dat -> wf_bytes dat) ->
  NoDup (map di_id (d_rec (ds_dec ds))) ->
  (forall k w, length w = S -> wf_bytes w ->
      nth_error (flat_map di_pairs (d_rec (ds_dec ds))) k = Some (md5 w, crc32 w) -> w = nth k orig []) ->
  (let c := {| c_data := length orig; c_parity := length (ds_parity ds);
               c_pm := vandermonde_pm (length orig) (length (ds_parity ds)) |} in
   forall e b, nth e (ds_parity ds) None = Some b -> b = le_bytes (nth e (gen_parity c (map le_words orig)) [])) ->
  (forall i info, nth_error (d_rec (ds_dec ds)) i = Some info ->
      recorded md5 info (firstn (N.to_nat (di_len info))
        (concat (nth i (split_by (map (fun fi => length (fi_shards fi)) (ds_fis ds)) orig) [])))) ->
  (ds_parity ds <> [] -> (N.of_nat (length sh) <= 32768)%N /\ (N.of_nat (length (ds_parity ds)) <= 65535)%N) ->
  (c_unusable (shard_counts ds) <= c_pusable (shard_counts ds))%nat ->
  NoDup (map (fun info => file_path ix (di_name info)) (d_rec (ds_dec ds))) ->
  exists r rp st', par2_repair md5 ix dbl (io_init fs []) = ((r, rp), st') /\
    (r = Err ESingular \/
     (r = Ok tt /\ forall info, In info (d_rec (ds_dec ds)) ->
        exists data, fs_lookup (io_fs st') (file_path ix (di_name info)) = Some data /\ recorded md5 info data)).
Proof. exact repair_within_capacity_hash_restores. Qed.
Print Assumptions C01_within_capacity_repairs.

(* THE PROPERTY ITSELF, FROM CREATE TO REPAIR, AS ONE THEOREM (Proofs/Par2EndToEnd.v).
   After Create has protected `names`/`datas` (any set the writer accepts: `created`), take ANY later state `fs`
   in which the index is as written, every file matching <base>.*.par2 is one of the written recovery files with
   its written content (recovery files may have been deleted; the surviving ones are undamaged), and the
   protected paths hold arbitrary bytes or nothing (damaged, renamed among themselves, deleted).  Under the two
   local collision-freeness premises for the hash (a slice-sized window with the MD5 and CRC-32 of original slice
   k is that slice; content with a file's length, MD5 and 16k-MD5 is that file), distinct protected paths and no
   directory in the place of a missing file:
     Verify succeeds and counts as usable exactly the recovery blocks of the surviving recovery files, and if it
     reports repair as possible, Repair returns success with EVERY protected file BYTE-IDENTICAL to its original,
     or the singular-system error - nothing else, for every slice size, block count and double-check setting. *)
Theorem C01_create_damage_repair : forall md5, (forall x, length (md5 x) = 16%nat) ->
  forall parPath sz np names datas outs fs0 fs dbl,
  created md5 parPath sz np names datas outs ->
  damaged_archive parPath outs fs0 fs ->
  let ix := strip_ext parPath ++ EXT_PAR2 in
  let orig := originals md5 sz names datas in
  (forall name, In name names -> fs_lookup fs (file_path ix name) = None -> is_dir fs (file_path ix name) = false) ->
  (forall name dat, In name names -> fs_lookup fs (file_path ix name) = Some dat -> wf_bytes dat) ->
  NoDup (map (file_path ix) names) ->
  (forall k w, (k < length orig)%nat -> length w = sz -> wf_bytes w ->
     md5 w = md5 (nth k orig []) -> crc32 w = crc32 (nth k orig []) -> w = nth k orig []) ->
  (forall name data data', In (name, data) (combine names datas) -> wf_bytes data' ->
     length data' = length data -> md5 data' = md5 data -> hash16k md5 data' = hash16k md5 data -> data' = data) ->
  exists c st1, par2_verify md5 ix (io_init fs []) = (Ok c, st1) /\
    c_pusable c = length (surviving_exponents (strip_ext parPath) np fs) /\
    (repair_possible c = true ->
     exists r rp st', par2_repair md5 ix dbl (io_init fs []) = ((r, rp), st') /\
       (r = Err ESingular \/
        (r = Ok tt /\ forall name data, In (name, data) (combine names datas) ->
                        fs_lookup (io_fs st') (file_path ix name) = Some data))).
Proof. exact create_damage_verify_repair. Qed.
Print Assumptions C01_create_damage_repair.

(* ... AND WITH ARBITRARILY DAMAGED RECOVERY FILES (Proofs/Par2EndToEnd2.v).  The restriction "the surviving
   recovery files are as written" is replaced by a packet-level hypothesis of the same kind as the two hash
   premises: damage does not manufacture a NEW hash-valid packet of this set (recovery_packets_genuine: every packet
   the reader accepts at any offset of any <base>.*.par2 file, with the created set id, is one Create wrote).  Then,
   whatever else the recovery files contain - flipped, truncated, prepended, concatenated, without creator packet -
   the loading phase never fails, every loaded block is a true block, the usable-block count is exactly the number
   of exponents for which the resynchronising reader reaches an intact packet (block_found), and if Verify reports
   repair as possible, Repair returns success with every protected file byte-identical, or the singular error *)
Theorem C01_create_any_damage_repair : forall md5, (forall x, length (md5 x) = 16%nat) ->
  forall parPath sz np names datas outs fs0 fs dbl,
  created md5 parPath sz np names datas outs ->
  any_damaged_archive md5 parPath sz np names datas outs fs0 fs ->
  let ix := strip_ext parPath ++ EXT_PAR2 in
  let orig := originals md5 sz names datas in
  (forall name, In name names -> fs_lookup fs (file_path ix name) = None -> is_dir fs (file_path ix name) = false) ->
  (forall name dat, In name names -> fs_lookup fs (file_path ix name) = Some dat -> wf_bytes dat) ->
  NoDup (map (file_path ix) names) ->
  (forall k w, (k < length orig)%nat -> length w = sz -> wf_bytes w ->
     md5 w = md5 (nth k orig []) -> crc32 w = crc32 (nth k orig []) -> w = nth k orig []) ->
  (forall name data data', In (name, data) (combine names datas) -> wf_bytes data' ->
     length data' = length data -> md5 data' = md5 data -> hash16k md5 data' = hash16k md5 data -> data' = data) ->
  exists c st1, par2_verify md5 ix (io_init fs []) = (Ok c, st1) /\
    (c_pusable c <= np)%nat /\
    (forall L : list nat, NoDup L -> (forall e, In e L <-> block_found md5 parPath sz names datas fs e) ->
       c_pusable c = length L) /\
    (repair_possible c = true ->
     exists r rp st', par2_repair md5 ix dbl (io_init fs []) = ((r, rp), st') /\
       (r = Err ESingular \/
        (r = Ok tt /\ forall name data, In (name, data) (combine names datas) ->
                        fs_lookup (io_fs st') (file_path ix name) = Some data))).
Proof. exact create_any_damage_repair. Qed.
Print Assumptions C01_create_any_damage_repair.
