(* C02 — Repair writes only exact originals; nothing else is ever modified.
   Model: Model/Par2.v over Model/FS.v.  "Exact original" is stated through the archive's own
   hashes: the data written has the recorded length, MD5 and first-16-KiB MD5 (equal content under
   the usual local collision-freeness of MD5, which is a premise, never an axiom, here). *)
From Gopar Require Import Model.Base Model.CRC Model.GoPath Model.FS Model.Par2 Proofs.Par2Facts Proofs.Par2Faults Proofs.Par2CreatePaths.
Open Scope N_scope.

(* Verify (and the whole loading phase of Repair) leaves the file map unchanged - for EVERY archive
   state, every index path and every fault schedule - and its I/O trace contains no write *)
Theorem C02_verify_pure : forall md5 ix st, io_fs (snd (par2_verify md5 ix st)) = io_fs st.
Proof. exact verify_pure. Qed.
Print Assumptions C02_verify_pure.

Theorem C02_verify_no_write : forall md5 ix fs sched,
  Forall no_write (io_trace (snd (par2_verify md5 ix (io_init fs sched)))).
Proof. exact verify_no_write. Qed.
Print Assumptions C02_verify_no_write.

Theorem C02_load_pure : forall md5 ix st, io_fs (snd (load_all md5 ix st)) = io_fs st.
Proof. exact load_all_fs. Qed.
Print Assumptions C02_load_pure.

(* Repair, any archive state (damage beyond capacity, foreign files, anything), success or failure,
   double-check on or off: the resulting file map is the initial one plus exactly the writes listed
   in the result, and each of them is a protected file's path receiving data whose length, MD5 and
   16k-MD5 are the ones recorded in the archive *)
Theorem C02_repair_writes : forall md5 ix dbl fs r rp st',
  par2_repair md5 ix dbl (io_init fs []) = ((r, rp), st') ->
  (io_fs st' = fs /\ rp = []) \/
  exists ds st1 ws,
    load_all md5 ix (io_init fs []) = (Ok ds, st1) /\
    io_fs st' = apply_writes ws fs /\ rp = map fst ws /\
    Forall (fun w => exists info, In info (d_rec (ds_dec ds)) /\
                       fst w = file_path ix (di_name info) /\
                       md5 (snd w) = di_hash info /\ hash16k md5 (snd w) = di_h16 info /\
                       N.of_nat (length (snd w)) = di_len info) ws.
Proof. exact repair_writes. Qed.
Print Assumptions C02_repair_writes.

(* CREATE touches nothing but its own outputs: for EVERY initial file system, current directory, argument
   spelling and fault schedule, every write event of Create targets <parPath minus extension>.par2 or
   <parPath minus extension>.volII+CC.par2, and every other path - the inputs included - keeps its content;
   it reads exactly the listed inputs (resolved) and lists no directory *)
Theorem C02_create_write_targets : forall md5 cwd parPath files p fs sched pth d ok,
  In (EvWrite pth d ok) (io_trace (snd (par2_create md5 cwd parPath files p (io_init fs sched)))) ->
  is_output parPath pth.
Proof. exact create_write_targets. Qed.
Print Assumptions C02_create_write_targets.

Theorem C02_create_inputs_untouched : forall md5 cwd parPath files p fs sched q,
  ~ is_output parPath q ->
  fs_lookup (io_fs (snd (par2_create md5 cwd parPath files p (io_init fs sched)))) q = fs_lookup fs q.
Proof. exact create_inputs_untouched. Qed.
Print Assumptions C02_create_inputs_untouched.

Theorem C02_create_read_targets : forall md5 cwd parPath files p fs sched,
  let tr := io_trace (snd (par2_create md5 cwd parPath files p (io_init fs sched))) in
  let basedir := dir (abs_path cwd parPath) in
  (forall pth ok, In (EvRead pth ok) tr ->
     exists f, In f files /\ pth = join2 basedir (rel_path basedir (abs_path cwd f))) /\
  (forall pre suf ok, ~ In (EvList pre suf ok) tr).
Proof. exact create_read_targets. Qed.
Print Assumptions C02_create_read_targets.
