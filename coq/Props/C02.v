(* C02 — Repair writes only exact originals; nothing else is ever modified.
   Model: Model/Par2.v over Model/FS.v.  "Exact original" is stated through the archive's own
   hashes: the data written has the recorded length, MD5 and first-16-KiB MD5 (equal content under
   the usual local collision-freeness of MD5, which is a premise, never an axiom, here). *)
From Gopar Require Import Model.Base Model.CRC Model.GoPath Model.FS Model.Par2 Proofs.Par2Facts Proofs.Par2Faults Proofs.Par2CreatePaths
     Proofs.CreateContain Proofs.Par2Ignore Proofs.Par2LayoutOps.
From Gopar Require Model.Par1 Proofs.CreateContain Proofs.Par1RoundTrip Proofs.Par1Facts.
Open Scope N_scope.

(* Verify (and the whole loading phase of Repair) leaves the file map unchanged - for EVERY archive
   state, every index path and every fault schedule - and its I/O trace contains no write *)
Theorem C02_verify_pure : forall md5 ix st, io_fs (snd (par2_verify md5 ix st)) = io_fs st.
Proof. exact verify_pure. Qed.
Print Assumptions C02_verify_pure.

Theorem C02_verify_no_write : forall md5 ix fs sched,
  Forall no_write (io_trace (snd (par2_verify md5 ix (io_init fs sched)))).
Proof. exact verify_no_write. Qed.
Print Assumptions C02_verify_no_write.

Theorem C02_load_pure : forall md5 ix st, io_fs (snd (load_all md5 ix st)) = io_fs st.
Proof. exact load_all_fs. Qed.
Print Assumptions C02_load_pure.

(* Repair, any archive state (damage beyond capacity, foreign files, anything), success or failure,
   double-check on or off: the resulting file map is the initial one plus exactly the writes listed
   in the result, and each of them is a protected file's path receiving data whose length, MD5 and
   16k-MD5 are the ones recorded in the archive *)
Theorem C02_repair_writes : forall md5 ix dbl fs r rp st',
  par2_repair md5 ix dbl (io_init fs []) = ((r, rp), st') ->
  (io_fs st' = fs /\ rp = []) \/
  exists ds st1 ws,
    load_all md5 ix (io_init fs []) = (Ok ds, st1) /\
    io_fs st' = apply_writes ws fs /\ rp = map fst ws /\
    Forall (fun w => exists info, In info (d_rec (ds_dec ds)) /\
                       fst w = file_path ix (di_name info) /\
                       md5 (snd w) = di_hash info /\ hash16k md5 (snd w) = di_h16 info /\
                       N.of_nat (length (snd w)) = di_len info) ws.
Proof. exact repair_writes. Qed.
Print Assumptions C02_repair_writes.

(* CREATE touches nothing but its own outputs, and none of its outputs is an input: for EVERY initial file system,
   current directory, argument spelling and fault schedule, every write event of Create targets
   <parPath minus extension>.par2 or <parPath minus extension>.volII+CC.par2; every path that is not of that form keeps
   its content; Create REFUSES, before any call, an input whose resolved path is the resolved index path or a name
   beside it that Verify/Repair would list as a recovery file of the set (<index minus .par2>.<no separator>.par2:
   par2/create.go isParityFilePath, Model.Par2.is_parity_path), so that EVERY INPUT keeps its content whatever Create
   returns; it reads exactly the listed inputs (resolved) and lists no directory *)
Theorem C02_create_write_targets : forall md5 cwd parPath files p fs sched pth d ok,
  In (EvWrite pth d ok) (io_trace (snd (par2_create md5 cwd parPath files p (io_init fs sched)))) ->
  is_output parPath pth.
Proof. exact create_write_targets. Qed.
Print Assumptions C02_create_write_targets.

(* the input files: no side condition on the path.  cwd is the current directory of the process, absolute as the
   operating system gives it (abs_path = filepath.Abs); abs_path cwd f is the path Create reads the input f at
   (C15_create_reads_are_inputs); CreateContain.create_input_paths_untouched_relative_refuted shows the model
   run that the premise excludes *)
Theorem C02_create_inputs_untouched : forall md5 cwd parPath files p fs sched f,
  is_abs cwd = true -> In f files ->
  fs_lookup (io_fs (snd (par2_create md5 cwd parPath files p (io_init fs sched)))) (abs_path cwd f) =
  fs_lookup fs (abs_path cwd f).
Proof. exact create_input_paths_untouched. Qed.
Print Assumptions C02_create_inputs_untouched.

(* every other path that is not an output name *)
Theorem C02_create_other_paths_untouched : forall md5 cwd parPath files p fs sched q,
  ~ is_output parPath q ->
  fs_lookup (io_fs (snd (par2_create md5 cwd parPath files p (io_init fs sched)))) q = fs_lookup fs q.
Proof. exact create_inputs_untouched. Qed.
Print Assumptions C02_create_other_paths_untouched.

(* no write call of any run - successful, refused, or cut short by a fault - targets an input, whatever the spelling
   of the arguments: the resolved target differs from the resolved path of every input *)
Theorem C02_create_writes_miss_inputs : forall md5 cwd parPath files p fs sched pth d ok f,
  In (EvWrite pth d ok) (io_trace (snd (par2_create md5 cwd parPath files p (io_init fs sched)))) ->
  In f files -> abs_path cwd pth <> abs_path cwd f.
Proof. exact create_writes_miss_inputs. Qed.
Print Assumptions C02_create_writes_miss_inputs.

(* if Create returns Ok then no input is an output: no output name - the index, any volume name - resolves to the
   resolved path of an input *)
Theorem C02_create_ok_inputs_not_outputs : forall md5 cwd parPath files p st f pth,
  fst (par2_create md5 cwd parPath files p st) = Ok tt ->
  In f files -> is_output parPath pth -> abs_path cwd pth <> abs_path cwd f.
Proof. exact create_ok_inputs_not_outputs. Qed.
Print Assumptions C02_create_ok_inputs_not_outputs.

Theorem C02_create_ok_input_paths_not_outputs : forall md5 cwd parPath files p st f,
  is_abs cwd = true ->
  fst (par2_create md5 cwd parPath files p st) = Ok tt ->
  In f files -> ~ is_output parPath (abs_path cwd f).
Proof. exact create_ok_input_paths_not_outputs. Qed.
Print Assumptions C02_create_ok_input_paths_not_outputs.

(* the refusal itself: an input that is the index file or would be listed as a recovery file of the set - Create
   returns an error without a single call, in every state *)
Theorem C02_create_parity_input_refused : forall md5 cwd parPath files p st,
  existsb (is_parity_path (abs_path cwd parPath)) (map (abs_path cwd) files) = true ->
  par2_create md5 cwd parPath files p st = (Err EUsage, st).
Proof. exact create_parity_input_refused. Qed.
Print Assumptions C02_create_parity_input_refused.

Theorem C02_create_read_targets : forall md5 cwd parPath files p fs sched,
  let tr := io_trace (snd (par2_create md5 cwd parPath files p (io_init fs sched))) in
  let basedir := dir (abs_path cwd parPath) in
  (forall pth ok, In (EvRead pth ok) tr ->
     exists f, In f files /\ pth = join2 basedir (rel_path basedir (abs_path cwd f))) /\
  (forall pre suf ok, ~ In (EvList pre suf ok) tr).
Proof. exact create_read_targets. Qed.
Print Assumptions C02_create_read_targets.

(* UNRELATED FILES AND SUB-DIRECTORIES BESIDE THE SET.  Recovery files are looked for among the files of the index
   file's own directory (C06_discovery): a file q that this listing does not return - in particular EVERY file below a
   sub-directory, whatever the two are called (C02_file_below_subdirectory_unlisted) - that is not the index file or a
   protected file, nor below a path of that name, can be created or changed at will: Verify returns the same counts,
   Repair the same outcome and repaired paths, and every path reads afterwards as after the run without q *)
Theorem C02_verify_ignores_unlisted_file : forall md5 ix q b fs,
  rec_pattern ix q = false ->
  q <> ix -> starts_with q (ix ++ [SLASH]) = false ->
  (forall d st1, new_decoder md5 ix (io_init fs []) = (Ok d, st1) -> forall info, In info (d_rec d) ->
     file_path ix (di_name info) <> q /\ starts_with q (file_path ix (di_name info) ++ [SLASH]) = false) ->
  fst (par2_verify md5 ix (io_init (fs_set fs q b) [])) = fst (par2_verify md5 ix (io_init fs [])).
Proof. exact verify_ignores_unlisted_file. Qed.
Print Assumptions C02_verify_ignores_unlisted_file.

Theorem C02_repair_ignores_unlisted_file : forall md5 ix q b fs dbl,
  rec_pattern ix q = false ->
  q <> ix -> starts_with q (ix ++ [SLASH]) = false ->
  (forall d st1, new_decoder md5 ix (io_init fs []) = (Ok d, st1) -> forall info, In info (d_rec d) ->
     file_path ix (di_name info) <> q /\ starts_with q (file_path ix (di_name info) ++ [SLASH]) = false) ->
  let r' := par2_repair md5 ix dbl (io_init (fs_set fs q b) []) in
  let r := par2_repair md5 ix dbl (io_init fs []) in
  fst r' = fst r /\
  (forall p, Par1Clean.read_res (fs_set fs q b) p = Par1Clean.read_res fs p ->
     Par1Clean.read_res (io_fs (snd r')) p = Par1Clean.read_res (io_fs (snd r)) p).
Proof. exact repair_ignores_unlisted_file. Qed.
Print Assumptions C02_repair_ignores_unlisted_file.

Theorem C02_file_below_subdirectory_unlisted : forall ix x y,
  rec_pattern ix ((strip_ext ix ++ [DOT]) ++ x ++ SLASH :: y) = false.
Proof. exact rec_pattern_below_subdirectory. Qed.
Print Assumptions C02_file_below_subdirectory_unlisted.

(* CREATE (PAR1) NEVER MODIFIES ITS INPUT FILES: for EVERY initial file system, index path, input list, volume count
   and EVERY fault schedule (failed and torn writes included), whatever Create returns, every input path keeps its
   content.  No premise on the names: an input whose path is (after filepath.Clean) the index path or one of the
   volume paths about to be written makes Create return an error after the reads and before the first write. *)
Theorem C02_par1_create_never_modifies_inputs : forall md5 parPath files nvol fs sched f,
  In f files ->
  fs_lookup (io_fs (snd (Par1.par1_create md5 parPath files nvol (io_init fs sched)))) f = fs_lookup fs f.
Proof. exact CreateContain.par1_create_never_modifies_inputs. Qed.
Print Assumptions C02_par1_create_never_modifies_inputs.

(* no write call of Create - completed, failed or torn - targets an input (compared after filepath.Clean) *)
Theorem C02_par1_create_writes_miss_inputs : forall md5 parPath files nvol fs sched pth d ok,
  In (EvWrite pth d ok) (io_trace (snd (Par1.par1_create md5 parPath files nvol (io_init fs sched)))) ->
  forall f, In f files -> str_eqb (clean f) (clean pth) = false.
Proof. exact CreateContain.par1_create_writes_miss_inputs. Qed.
Print Assumptions C02_par1_create_writes_miss_inputs.

(* if Create returns success no input is an output: neither the index path nor one of the volume paths written *)
Theorem C02_par1_create_ok_inputs_not_outputs : forall md5 parPath files nvol st st',
  Par1.par1_create md5 parPath files nvol st = (Ok tt, st') ->
  let nv := if (nvol <=? 0)%Z then 3%nat else Z.to_nat nvol in
  Forall (fun f => f <> parPath /\ forall k, (1 <= k <= nv)%nat -> f <> Par1.volume_path parPath (N.of_nat k)) files.
Proof. exact Par1RoundTrip.par1_create_ok_inputs_not_outputs. Qed.
Print Assumptions C02_par1_create_ok_inputs_not_outputs.

(* the finding, by evaluation: `par c o.par a o.p01` (spelled ./o.p01) and `par c o.par a o.par` are refused with the
   error class of a plain error, after the two reads, nothing written; a volume name beyond the count is an input *)
From Coq Require Import String.
Local Open Scope string_scope.
Example C02_par1_create_refuses_own_output :
  let fs := [(bs "/w/a", [1; 2; 3]); (bs "/w/o.par", [9]); (bs "/w/o.p01", [8]); (bs "/w/./o.p01", [8]); (bs "/w/o.p03", [7])] in
  let r1 := Par1.par1_create toy_md5 (bs "/w/o.par") [bs "/w/a"; bs "/w/./o.p01"] 2%Z (io_init fs []) in
  let r2 := Par1.par1_create toy_md5 (bs "/w/o.par") [bs "/w/a"; bs "/w/o.par"] 2%Z (io_init fs []) in
  let r3 := Par1.par1_create toy_md5 (bs "/w/o.par") [bs "/w/a"; bs "/w/o.p03"] 2%Z (io_init fs []) in
  fst r1 = Err EOther /\ io_fs (snd r1) = fs /\ written_paths (io_trace (snd r1)) = [] /\ List.length (io_trace (snd r1)) = 2%nat /\
  fst r2 = Err EOther /\ io_fs (snd r2) = fs /\ written_paths (io_trace (snd r2)) = [] /\
  fst r3 = Ok tt /\ fs_lookup (io_fs (snd r3)) (bs "/w/o.p03") = Some [7].
Proof. exact CreateContain.par1_create_refuses_own_output. Qed.
Print Assumptions C02_par1_create_refuses_own_output.

(* PAR1 Repair writes only hash-verified content and lists what it wrote: the state after is the state before with a list
   of writes applied, each to the path of a saved entry with a bare name, carrying that entry's recorded MD5, 16k-MD5 and
   length; the repaired list is exactly the list of written paths (every archive state) *)
Theorem C02_par1_repair_writes : forall md5 ix dbl fs r rp st',
  Par1.par1_repair md5 ix dbl (io_init fs []) = ((r, rp), st') ->
  (io_fs st' = fs /\ rp = []) \/
  exists s st1 ws,
    Par1.p1_load md5 ix (io_init fs []) = (Ok s, st1) /\
    io_fs st' = apply_writes ws fs /\ rp = map fst ws /\
    Forall (fun w => exists e, In e (Par1.s_saved s) /\ base (Par1.e_name e) = Par1.e_name e /\
                       fst w = join2 (dir ix) (Par1.e_name e) /\
                       md5 (snd w) = Par1.e_hash e /\ Par1.hash16k md5 (snd w) = Par1.e_h16 e /\
                       N.of_nat (List.length (snd w)) = Par1.e_len e) ws.
Proof. exact Par1Facts.par1_repair_writes. Qed.
Print Assumptions C02_par1_repair_writes.

(* PAR1 Verify modifies nothing, whatever the state and the fault schedule *)
Theorem C02_par1_verify_pure : forall md5 ix all st, io_fs (snd (Par1.par1_verify md5 ix all st)) = io_fs st.
Proof. exact Par1Facts.par1_verify_pure. Qed.
Print Assumptions C02_par1_verify_pure.
