(* C11 — matrix inversion and row reduction over GF(2^16).
   Model: Model/Matrix.v (Gauss-Jordan exactly as gf2p16/matrix.go performs it)
   instantiated with the field of C08 in Model/RS16.v.  Matrices are values in
   the model; non-mutation of the Go operands is checked by the harness. *)
From Gopar Require Import Model.Base Model.GF16 Model.Matrix Model.RS16
     Proofs.LinAlg Proofs.Matrix16 Proofs.LinAlgSingular Proofs.Matrix16Singular.
Open Scope N_scope.

(* [M | N] reduces to the unique X with M X = N; the only other outcome on
   well-formed operands is the singular-matrix error (no panic). *)
Theorem C11_reduce : forall r c M Nn, wfm16 r r M -> wfm16 r c Nn ->
  match RowReduce16 M Nn with
  | Ok N' => wfm16 r c N' /\ mmul16 c M N' = Nn /\ (forall X, wfm16 r c X -> mmul16 c M X = Nn -> X = N')
  | Err e => e = ESingular
  | Panic _ => False
  end.
Proof. exact RowReduce16_spec. Qed.
Print Assumptions C11_reduce.

(* inversion returns a two-sided inverse *)
Theorem C11_inverse : forall r M, wfm16 r r M ->
  match Inverse16 M with
  | Ok M' => wfm16 r r M' /\ mmul16 r M M' = identity r /\ mmul16 r M' M = identity r
  | Err e => e = ESingular
  | Panic _ => False
  end.
Proof. exact Inverse16_spec. Qed.
Print Assumptions C11_inverse.

(* success implies non-singularity: M is injective on matrices of every width *)
Theorem C11_ok_nonsingular : forall r c c' M Nn N' X X',
  wfm16 r r M -> wfm16 r c Nn -> RowReduce16 M Nn = Ok N' ->
  wfm16 r c' X -> wfm16 r c' X' -> mmul16 c' M X = mmul16 c' M X' -> X = X'.
Proof. exact ok_injective16. Qed.
Print Assumptions C11_ok_nonsingular.

(* Times is the field-wise row-by-column product (entry = xor_k m[i][k]*n[k][j]),
   equal to the linear-combination form used in the proofs; the product is associative *)
Theorem C11_times : forall r k c M X, wfm16 r k M -> wfm16 k c X -> Times16 c M X = mmul16 c M X.
Proof. exact Times16_spec. Qed.
Print Assumptions C11_times.

Theorem C11_times_assoc : forall r k c1 c2 M A Bm, wfm16 r k M -> wfm16 k c1 A -> wfm16 c1 c2 Bm ->
  mmul16 c2 (mmul16 c1 M A) Bm = mmul16 c2 M (mmul16 c2 A Bm).
Proof. exact mmul16_assoc. Qed.
Print Assumptions C11_times_assoc.

(* an error is reported EXACTLY when the matrix is singular: the singular error is returned iff M has a
   non-trivial kernel vector - for row reduction of any augmented system and for inversion *)
Theorem C11_singular_iff : forall k c M N, (0 < k)%nat -> wfm16 k k M -> wfm16 k c N ->
  (RowReduce16 M N = Err ESingular <-> exists v, wfv16 k v /\ v <> zeros k /\ mvec16 M v = zeros k).
Proof. exact row_reduce16_singular_iff. Qed.
Print Assumptions C11_singular_iff.

Theorem C11_inverse_singular_iff : forall k M, (0 < k)%nat -> wfm16 k k M ->
  (Inverse16 M = Err ESingular <-> exists v, wfv16 k v /\ v <> zeros k /\ mvec16 M v = zeros k).
Proof. exact inverse16_singular_iff. Qed.
Print Assumptions C11_inverse_singular_iff.

Example C11_example :
  Inverse16 [[0; 1; 0]; [2; 0; 3]; [1; 1; 1]] = Ok [[3; 1; 3]; [1; 0; 0]; [2; 1; 2]]
  /\ Inverse16 [[1; 2]; [2; 4]] = Err ESingular.
Proof. vm_compute. split; reflexivity. Qed.
