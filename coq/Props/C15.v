(* C15 — archives cannot direct reads or writes outside the archive's directory.
   Model: Model/GoPath.v (path.Clean / IsAbs / Join / Dir as gopar calls them, component-wise) and
   par2's checkFilename. *)
From Gopar Require Import Model.Base Model.GoPath Model.CRC Model.FS Model.Par1 Model.Par2 Proofs.GoPathFacts Proofs.Par1Safety Proofs.Par2CreatePaths Proofs.CreateContain Proofs.Par2Targets.
From Coq Require Import List. Import ListNotations.
Open Scope N_scope.

(* a name accepted by checkFilename cleans (alone) to a non-empty stack of ordinary components:
   no "..", no ".", no empty component *)
Theorem C15_accepted_shape : forall name,
  check_filename name = Ok tt ->
  let st := clean_stack false [] (split_slash name) in
  st <> [] /\ no_dotdot st = true /\ forallb comp_ok st = true /\ is_abs name = false /\
  clean name = join_slash (rev st).
Proof. exact check_filename_stack. Qed.
Print Assumptions C15_accepted_shape.

(* joined below ANY directory (rooted or not, itself containing ".." or not), the components of an
   accepted name are appended to the directory's components, which are left untouched: every
   spelling that is accepted stays inside the directory tree of the index file *)
Theorem C15_stays_below : forall name rooted base,
  check_filename name = Ok tt ->
  exists st, st <> [] /\ no_dotdot st = true /\ forallb comp_ok st = true /\
             clean_stack rooted base (split_slash name) = st ++ base.
Proof. exact accepted_name_stays_below. Qed.
Print Assumptions C15_stays_below.

(* the same for the string filepath.Join(dir, name) that the decoder reads and writes *)
Theorem C15_join : forall d name,
  d <> [] -> check_filename name = Ok tt ->
  exists st, st <> [] /\ no_dotdot st = true /\ forallb comp_ok st = true /\
    join2 d name = render (is_abs d) (st ++ clean_stack (is_abs d) [] (split_slash d)).
Proof. exact join_accepted. Qed.
Print Assumptions C15_join.

(* PAR1: EVERY write event of Repair - whatever the archive declares, whatever the faults - targets
   Join(Dir(index), n) for a name n that is its own base name; apart from the three degenerate names
   ".", "/" and ".." (which denote the directory itself or its parent: reading them fails before any
   write, see the check), n is a bare file name and the path is the directory's components plus
   exactly one ordinary component: a direct child of the index file's directory *)
Theorem C15_par1_write_targets : forall md5 ix dbl fs sched p d ok,
  In (EvWrite p d ok) (io_trace (snd (par1_repair md5 ix dbl (io_init fs sched)))) ->
  exists n, p = join2 (dir ix) n /\
    (n = [DOT] \/ n = [SLASH] \/ n = [DOT; DOT] \/
     (bare_name n /\
      p = render (is_abs (dir ix)) (n :: clean_stack (is_abs (dir ix)) [] (split_slash (dir ix))))).
Proof. exact par1_write_targets. Qed.
Print Assumptions C15_par1_write_targets.

(* non-vacuity and the rejected spellings *)
Example C15_examples :
  check_filename [97; 47; 46; 46; 47; 98] = Ok tt /\                      (* "a/../b" -> "b": accepted *)
  join2 [47; 120] [97; 47; 46; 46; 47; 98] = [47; 120; 47; 98] /\          (* "/x" + it = "/x/b" *)
  check_filename [97; 47; 46; 46; 47; 46; 46; 47; 98] = Err EMalformed /\  (* "a/../../b" *)
  check_filename [47; 97] = Err EMalformed /\                              (* "/a" *)
  check_filename [46; 46] = Err EMalformed /\ check_filename [] = Err EMalformed /\ check_filename [46] = Err EMalformed.
Proof. vm_compute. repeat split; reflexivity. Qed.

(* CREATE (PAR2), for every file system, fault schedule and spelling, from any absolute current directory:
   every file Create reads IS one of the listed inputs (resolved), and it lies strictly below the directory
   of the index file - its components are the directory's components plus a non-empty list of ordinary
   components (no "..", no "."); inputs elsewhere are refused before any I/O.  Its writes target the index
   path's own name with the suffixes .par2 / .volII+CC.par2 (Props/C02.v) *)
Theorem C15_create_reads_are_inputs : forall md5 cwd parPath files p fs sched pth ok,
  is_abs cwd = true ->
  In (EvRead pth ok) (io_trace (snd (par2_create md5 cwd parPath files p (io_init fs sched)))) ->
  exists f, In f files /\ pth = abs_path cwd f.
Proof. exact create_read_events_are_inputs_cwd. Qed.
Print Assumptions C15_create_reads_are_inputs.

Theorem C15_create_reads_below_index_dir : forall md5 cwd parPath files p fs sched pth ok,
  is_abs cwd = true ->
  In (EvRead pth ok) (io_trace (snd (par2_create md5 cwd parPath files p (io_init fs sched)))) ->
  let basedir := dir (abs_path cwd parPath) in
  exists st, st <> [] /\ no_dotdot st = true /\ forallb comp_ok st = true /\
    pth = render true (st ++ clean_stack true [] (split_slash basedir)) /\
    comps_abs pth = comps_abs basedir ++ rev st /\
    within basedir pth = true.
Proof. exact create_reads_below_index_dir_cwd. Qed.
Print Assumptions C15_create_reads_below_index_dir.

(* CREATE (PAR1): writes go to the index path itself and its volume paths .p01 .. .pNN only; reads are the listed
   inputs; every other path keeps its content - for every file system and fault schedule *)
Theorem C15_par1_create_write_targets : forall md5 parPath files nvol fs sched pth d ok,
  In (EvWrite pth d ok) (io_trace (snd (Par1.par1_create md5 parPath files nvol (io_init fs sched)))) ->
  ext parPath = Par1.EXT_PAR /\
  (pth = parPath \/ exists k, (1 <= k <= p1_nv nvol)%nat /\ pth = Par1.volume_path parPath (N.of_nat k)).
Proof. exact par1_create_write_targets. Qed.
Print Assumptions C15_par1_create_write_targets.

Theorem C15_par1_create_inputs_untouched : forall md5 parPath files nvol fs sched q,
  q <> parPath ->
  (forall k, (1 <= k <= p1_nv nvol)%nat -> q <> Par1.volume_path parPath (N.of_nat k)) ->
  fs_lookup (io_fs (snd (Par1.par1_create md5 parPath files nvol (io_init fs sched)))) q = fs_lookup fs q.
Proof. exact par1_create_inputs_untouched. Qed.
Print Assumptions C15_par1_create_inputs_untouched.

(* ... and the inputs themselves keep their content whatever their names (an input that is an output is refused before
   the first write): Props/C02.v C02_par1_create_never_modifies_inputs, restated *)
Theorem C15_par1_create_never_modifies_inputs : forall md5 parPath files nvol fs sched f,
  In f files ->
  fs_lookup (io_fs (snd (Par1.par1_create md5 parPath files nvol (io_init fs sched)))) f = fs_lookup fs f.
Proof. exact par1_create_never_modifies_inputs. Qed.
Print Assumptions C15_par1_create_never_modifies_inputs.

(* VERIFY AND REPAIR (PAR2), for EVERY file system, fault schedule, index path and archive content: every write
   event of Repair targets Join(Dir(index), name) for a declared name that checkFilename accepted - hence
   (C15_join) the directory's components plus a non-empty list of ordinary components: strictly below the
   directory of the index file; every read targets the index, such a path, or a file the one directory listing
   returned (a key with the literal prefix <index minus extension>"." and the suffix ".par2"); Verify writes nothing *)
Theorem C15_repair_write_targets : forall md5 ix dbl fs sched p d ok,
  In (EvWrite p d ok) (io_trace (snd (par2_repair md5 ix dbl (io_init fs sched)))) ->
  exists name, p = file_path ix name /\ check_filename name = Ok tt.
Proof. exact repair_write_targets. Qed.
Print Assumptions C15_repair_write_targets.

Theorem C15_repair_writes_below_index_dir : forall md5 ix dbl fs sched p d ok,
  In (EvWrite p d ok) (io_trace (snd (par2_repair md5 ix dbl (io_init fs sched)))) ->
  exists st, st <> [] /\ no_dotdot st = true /\ forallb comp_ok st = true /\
    p = render (is_abs (dir ix)) (st ++ clean_stack (is_abs (dir ix)) [] (split_slash (dir ix))).
Proof. exact repair_writes_below_index_dir. Qed.
Print Assumptions C15_repair_writes_below_index_dir.

Theorem C15_repair_read_targets : forall md5 ix dbl fs sched p ok,
  In (EvRead p ok) (io_trace (snd (par2_repair md5 ix dbl (io_init fs sched)))) ->
  p = ix \/
  (exists name, p = file_path ix name /\ check_filename name = Ok tt) \/
  (In p (map fst fs) /\ exists mid, p = (strip_ext ix ++ [DOT]) ++ mid ++ EXT_PAR2).
Proof. exact repair_read_targets. Qed.
Print Assumptions C15_repair_read_targets.

Theorem C15_verify_read_targets : forall md5 ix fs sched p ok,
  In (EvRead p ok) (io_trace (snd (par2_verify md5 ix (io_init fs sched)))) ->
  p = ix \/
  (exists name, p = file_path ix name /\ check_filename name = Ok tt) \/
  (In p (map fst fs) /\ exists mid, p = (strip_ext ix ++ [DOT]) ++ mid ++ EXT_PAR2).
Proof. exact verify_read_targets. Qed.
Print Assumptions C15_verify_read_targets.
