(* C14 — Repair converges and is idempotent over any history of damage and repair.
   Model: Model/History.v - operations HSet / HDelete (any external modification: damage, restoration,
   a recovery file arriving or vanishing), HVerify, HRepair dbl, folded over a directory state, for PAR2
   (hrun2) and PAR1 (hrun1).  "Matches the archive" = has the length and both hashes the archive - as
   loaded at that moment - records for the path (= the original content under the local MD5 premise).
   The convergence step (a successful Repair leaves Verify clean and a further Repair idle) is proved for
   PAR2 under the archive's self-consistency premise - the local MD5 collision-freeness premise, stated as
   "any content with a file's recorded hashes and length has that file's slice checksum list" - which is an
   explicit hypothesis of the theorem; for PAR1 it is proved without such a premise (Proofs/Par1Clean.v). *)
From Gopar Require Import Model.Base Model.CRC Model.GoPath Model.FS Model.Par2 Model.Par1 Model.History 
     Proofs.Par2Facts Proofs.Par1Facts Proofs.HistoryFacts Proofs.Par2Clean Proofs.Par2Converge Proofs.Par1Clean Proofs.Par2Converge2 Proofs.HistoryFacts2.
Open Scope N_scope.

(* Verify never changes the state; a history of Verifies is the identity *)
Theorem C14_verify_identity : forall md5 ix fs, hstep2 md5 ix fs HVerify = fs.
Proof. exact hstep2_verify_id. Qed.
Print Assumptions C14_verify_identity.

Theorem C14_verify_only : forall md5 ix h fs, Forall (fun o => o = HVerify) h -> hrun2 md5 ix h fs = fs.
Proof. exact history2_verify_only. Qed.
Print Assumptions C14_verify_only.

(* a Repair, failed or not, never increases the damage: every path keeps its previous content or
   receives content that matches the archive *)
Theorem C14_repair_monotone : forall md5 ix dbl fs q,
  fs_lookup (hstep2 md5 ix fs (HRepair dbl)) q = fs_lookup fs q \/
  exists d, fs_lookup (hstep2 md5 ix fs (HRepair dbl)) q = Some d /\ matches2 md5 ix fs q d.
Proof. exact hstep2_repair_monotone. Qed.
Print Assumptions C14_repair_monotone.

(* over ANY finite history: a path that no external operation names either still has its initial
   content or holds content that matched the archive when some Repair of the history wrote it *)
Theorem C14_history : forall md5 ix h fs q,
  (forall o, In o h -> match o with HSet p _ => p <> q | HDelete p => p <> q | _ => True end) ->
  fs_lookup (hrun2 md5 ix h fs) q = fs_lookup fs q \/
  exists d fs', fs_lookup (hrun2 md5 ix h fs) q = Some d /\ matches2 md5 ix fs' q d.
Proof. exact history2_monotone. Qed.
Print Assumptions C14_history.

(* the same for PAR1 *)
Theorem C14_par1_verify_identity : forall md5 ix fs, hstep1 md5 ix fs HVerify = fs.
Proof. exact hstep1_verify_id. Qed.
Print Assumptions C14_par1_verify_identity.

Theorem C14_par1_repair_monotone : forall md5 ix dbl fs q,
  fs_lookup (hstep1 md5 ix fs (HRepair dbl)) q = fs_lookup fs q \/
  exists d, fs_lookup (hstep1 md5 ix fs (HRepair dbl)) q = Some d /\ matches1 md5 ix fs q d.
Proof. exact hstep1_repair_monotone. Qed.
Print Assumptions C14_par1_repair_monotone.

Theorem C14_par1_history : forall md5 ix h fs q,
  (forall o, In o h -> match o with HSet p _ => p <> q | HDelete p => p <> q | _ => True end) ->
  fs_lookup (hrun1 md5 ix h fs) q = fs_lookup fs q \/
  exists d fs', fs_lookup (hrun1 md5 ix h fs) q = Some d /\ matches1 md5 ix fs' q d.
Proof. exact history1_monotone. Qed.
Print Assumptions C14_par1_history.

(* CONVERGENCE STEP (PAR2): a successful Repair leaves a state in which Verify needs no repair and ANY
   further Repair (double-check or not, successful or not) rewrites nothing *)
Theorem C14_success_then_clean_and_idle : forall md5 ix dbl fs rp st' ds st1,
  par2_repair md5 ix dbl (io_init fs []) = ((Ok tt, rp), st') ->
  load_all md5 ix (io_init fs []) = (Ok ds, st1) ->
  NoDup (map (fun info => file_path ix (di_name info)) (d_rec (ds_dec ds))) ->
  NoDup (map di_id (d_rec (ds_dec ds))) ->
  (* self-consistency of the archive, for BYTE-VALUED data: content with a file's recorded hashes and length has that
     file's slice checksum list (an earlier version demanded wf_bytes as a conclusion for all data, which no hash
     satisfies - found by an audit; Converge2Example instantiates every premise of this one) *)
  (forall info data, In info (d_rec (ds_dec ds)) -> wf_bytes data -> recorded md5 info data ->
       di_pairs info = pairs_of md5 (N.to_nat (d_slice (ds_dec ds))) data) ->
  (* what the protected paths hold before the repair is made of byte values *)
  (forall info dat, In info (d_rec (ds_dec ds)) ->
       fs_lookup fs (file_path ix (di_name info)) = Some dat -> wf_bytes dat) ->
  (forall info, In info (d_rec (ds_dec ds)) ->
       file_path ix (di_name info) <> ix /\ vol_pattern (strip_ext ix) (file_path ix (di_name info)) = false) ->
  exists c st2, par2_verify md5 ix (io_init (io_fs st') []) = (Ok c, st2) /\ repair_needed c = false /\
    forall dbl2 r2 rp2 st3, par2_repair md5 ix dbl2 (io_init (io_fs st') []) = ((r2, rp2), st3) ->
      rp2 = [] /\ io_fs st3 = io_fs st'.
Proof. exact repair_ok_then_clean_and_idle2. Qed.
Print Assumptions C14_success_then_clean_and_idle.

(* a Repair on a set that verifies clean rewrites nothing, whatever it returns *)
Theorem C14_idle_on_clean : forall md5 ix dbl fs ds st1 r rp st',
  load_all md5 ix (io_init fs []) = (Ok ds, st1) -> repair_needed (shard_counts ds) = false ->
  par2_repair md5 ix dbl (io_init fs []) = ((r, rp), st') -> rp = [] /\ io_fs st' = fs.
Proof.
  intros md5 ix dbl fs ds st1 r rp st' HL Hc HR.
  exact (repair_idle_when_all_ok md5 ix dbl fs ds st1 r rp st' HL (clean_counts_all_ok ds Hc) HR).
Qed.
Print Assumptions C14_idle_on_clean.

(* CONVERGENCE STEP (PAR1), for every archive state: a successful Repair leaves a state in which Verify - with
   or without the full parity check - counts no unusable file, and ANY further Repair rewrites nothing.
   Premises: distinct target paths; no saved file's path is the index or one of the volume paths the loader
   reads (.p01 .. .pNN, NN = min (256 - the number of entries SAVED in the set) 99) - that no written path lies BELOW a
   volume path is proved, not assumed *)
Theorem C14_par1_success_then_clean_and_idle : forall md5 ix dbl fs rp st' s st1 all,
  par1_repair md5 ix dbl (io_init fs []) = ((Ok tt, rp), st') ->
  p1_load md5 ix (io_init fs []) = (Ok s, st1) ->
  NoDup (map (fun e => join2 (dir ix) (e_name e)) (s_saved s)) ->
  (forall e, In e (s_saved s) ->
     join2 (dir ix) (e_name e) <> ix /\
     forall k, 0 < k <= N.min (256 - N.of_nat (length (filter saved (v_entries (s_vol s))))) 99 ->
       join2 (dir ix) (e_name e) <> volume_path ix k) ->
  exists c ok st2, par1_verify md5 ix all (io_init (io_fs st') []) = (Ok (c, ok), st2) /\ fc_unusable c = 0%nat /\
    forall dbl2 r2 rp2 st3, par1_repair md5 ix dbl2 (io_init (io_fs st') []) = ((r2, rp2), st3) ->
      rp2 = [] /\ io_fs st3 = io_fs st'.
Proof. exact par1_repair_ok_then_clean_and_idle. Qed.
Print Assumptions C14_par1_success_then_clean_and_idle.

Theorem C14_par1_idle_on_clean : forall md5 ix dbl fs s st1 r rp st',
  p1_load md5 ix (io_init fs []) = (Ok s, st1) -> fc_unusable (file_counts s) = 0%nat ->
  par1_repair md5 ix dbl (io_init fs []) = ((r, rp), st') -> rp = [] /\ io_fs st' = fs.
Proof. exact par1_idle_on_clean. Qed.
Print Assumptions C14_par1_idle_on_clean.

(* HISTORIES, STRONG FORM: after ANY history of Verify / Repair / external changes (none of the external changes
   touching q itself), the content at q is either what it was at the start or content d that matched the
   records loaded IN A STATE THE HISTORY ACTUALLY PASSED THROUGH (the state after a prefix h1 of the history) -
   not merely "in some state".  HF2Example.hist2_witness instantiates it on a history in which a Repair
   restores a damaged file, so that the left disjunct is false and the right one carries the content. *)
Theorem C14_history2_monotone_strong : forall md5 ix h fs q,
  (forall o, In o h -> match o with HSet p _ => p <> q | HDelete p => p <> q | _ => True end) ->
  fs_lookup (hrun2 md5 ix h fs) q = fs_lookup fs q \/
  exists d fs', fs_lookup (hrun2 md5 ix h fs) q = Some d /\ matches2 md5 ix fs' q d /\
    exists h1 h2, h = h1 ++ h2 /\ fs' = hrun2 md5 ix h1 fs.
Proof. exact history2_monotone_strong. Qed.
Print Assumptions C14_history2_monotone_strong.

Theorem C14_history1_monotone_strong : forall md5 ix h fs q,
  (forall o, In o h -> match o with HSet p _ => p <> q | HDelete p => p <> q | _ => True end) ->
  fs_lookup (hrun1 md5 ix h fs) q = fs_lookup fs q \/
  exists d fs', fs_lookup (hrun1 md5 ix h fs) q = Some d /\ matches1 md5 ix fs' q d /\
    exists h1 h2, h = h1 ++ h2 /\ fs' = hrun1 md5 ix h1 fs.
Proof. exact history1_monotone_strong. Qed.
Print Assumptions C14_history1_monotone_strong.

(* ... and when every Repair of the history ran with the same index bytes b, the content at q is the initial
   one or content with the MD5, 16k-MD5 and length that b records for q: against ONE fixed archive *)
Theorem C14_history2_fixed_index : forall md5 ix h fs q b,
  (forall o, In o h -> match o with HSet p _ => p <> q | HDelete p => p <> q | _ => True end) ->
  (forall h1 dbl h2, h = h1 ++ HRepair dbl :: h2 -> fs_lookup (hrun2 md5 ix h1 fs) ix = Some b) ->
  fs_lookup (hrun2 md5 ix h fs) q = fs_lookup fs q \/
  exists d, fs_lookup (hrun2 md5 ix h fs) q = Some d /\ index_records md5 ix b q d.
Proof. exact history2_fixed_index. Qed.
Print Assumptions C14_history2_fixed_index.

Theorem C14_history1_fixed_index : forall md5 ix h fs q b,
  (forall o, In o h -> match o with HSet p _ => p <> q | HDelete p => p <> q | _ => True end) ->
  (forall h1 dbl h2, h = h1 ++ HRepair dbl :: h2 -> fs_lookup (hrun1 md5 ix h1 fs) ix = Some b) ->
  fs_lookup (hrun1 md5 ix h fs) q = fs_lookup fs q \/
  exists d, fs_lookup (hrun1 md5 ix h fs) q = Some d /\ index_records1 md5 ix b q d.
Proof. exact history1_fixed_index. Qed.
Print Assumptions C14_history1_fixed_index.
