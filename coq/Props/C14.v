(* C14 — Repair converges and is idempotent over any history of damage and repair.
   Model: Model/History.v - operations HSet / HDelete (any external modification: damage, restoration,
   a recovery file arriving or vanishing), HVerify, HRepair dbl, folded over a directory state, for PAR2
   (hrun2) and PAR1 (hrun1).  "Matches the archive" = has the length and both hashes the archive - as
   loaded at that moment - records for the path (= the original content under the local MD5 premise).
   NOT proved here: that a successful Repair leaves Verify clean and a further Repair idle; the check
   decides it on the closed state graph (Proofs/Par2Clean.v adds the decoder-level statement when it lands). *)
From Gopar Require Import Model.Base Model.CRC Model.GoPath Model.FS Model.Par2 Model.Par1 Model.History
     Proofs.Par2Facts Proofs.Par1Facts Proofs.HistoryFacts.
Open Scope N_scope.

(* Verify never changes the state; a history of Verifies is the identity *)
Theorem C14_verify_identity : forall md5 ix fs, hstep2 md5 ix fs HVerify = fs.
Proof. exact hstep2_verify_id. Qed.
Print Assumptions C14_verify_identity.

Theorem C14_verify_only : forall md5 ix h fs, Forall (fun o => o = HVerify) h -> hrun2 md5 ix h fs = fs.
Proof. exact history2_verify_only. Qed.
Print Assumptions C14_verify_only.

(* a Repair, failed or not, never increases the damage: every path keeps its previous content or
   receives content that matches the archive *)
Theorem C14_repair_monotone : forall md5 ix dbl fs q,
  fs_lookup (hstep2 md5 ix fs (HRepair dbl)) q = fs_lookup fs q \/
  exists d, fs_lookup (hstep2 md5 ix fs (HRepair dbl)) q = Some d /\ matches2 md5 ix fs q d.
Proof. exact hstep2_repair_monotone. Qed.
Print Assumptions C14_repair_monotone.

(* over ANY finite history: a path that no external operation names either still has its initial
   content or holds content that matched the archive when some Repair of the history wrote it *)
Theorem C14_history : forall md5 ix h fs q,
  (forall o, In o h -> match o with HSet p _ => p <> q | HDelete p => p <> q | _ => True end) ->
  fs_lookup (hrun2 md5 ix h fs) q = fs_lookup fs q \/
  exists d fs', fs_lookup (hrun2 md5 ix h fs) q = Some d /\ matches2 md5 ix fs' q d.
Proof. exact history2_monotone. Qed.
Print Assumptions C14_history.

(* the same for PAR1 *)
Theorem C14_par1_verify_identity : forall md5 ix fs, hstep1 md5 ix fs HVerify = fs.
Proof. exact hstep1_verify_id. Qed.
Print Assumptions C14_par1_verify_identity.

Theorem C14_par1_repair_monotone : forall md5 ix dbl fs q,
  fs_lookup (hstep1 md5 ix fs (HRepair dbl)) q = fs_lookup fs q \/
  exists d, fs_lookup (hstep1 md5 ix fs (HRepair dbl)) q = Some d /\ matches1 md5 ix fs q d.
Proof. exact hstep1_repair_monotone. Qed.
Print Assumptions C14_par1_repair_monotone.

Theorem C14_par1_history : forall md5 ix h fs q,
  (forall o, In o h -> match o with HSet p _ => p <> q | HDelete p => p <> q | _ => True end) ->
  fs_lookup (hrun1 md5 ix h fs) q = fs_lookup fs q \/
  exists d fs', fs_lookup (hrun1 md5 ix h fs) q = Some d /\ matches1 md5 ix fs' q d.
Proof. exact history1_monotone. Qed.
Print Assumptions C14_par1_history.
