(* C14 — Repair converges and is idempotent over any history (interim: Verify is the identity on
   states; the history theorems of Proofs/HistoryFacts.v are added when they land). *)
From Gopar Require Import Model.Base Model.CRC Model.GoPath Model.FS Model.Par2 Model.Par1 Model.History Proofs.Par2Facts.
Open Scope N_scope.

Theorem C14_verify_identity : forall md5 ix fs, hstep2 md5 ix fs HVerify = fs.
Proof. intros. unfold hstep2. rewrite verify_pure. reflexivity. Qed.
Print Assumptions C14_verify_identity.
