(* C10 — PAR1 files conform to the PAR 1.0 layout in both directions.
   Writer model: write_volume / par1_outputs (par1/volume.go, encoder.go); reader model: read_volume,
   p1_load (volume.go, decoder.go). *)
From Gopar Require Import Model.Base Model.Matrix Model.GF8 Model.CRC Model.GoPath Model.FS Model.Par1
     Proofs.LinAlg Proofs.GF8Facts Proofs.Par1Facts Proofs.Utf16Facts.
Open Scope N_scope.

(* parity volume v (numbered from 1; row v-1) holds, byte by byte, the sum over files i (numbered from 1)
   of i^(v-1) * file_i in GF(2^8) modulo 0x11D *)
Theorem C10_parity_spec : forall d p D L v k, (d <= 255)%nat -> wfm8 d L D -> (v < p)%nat -> (k < L)%nat -> (0 < d)%nat ->
  nth k (nth v (par1_encode d p D) []) 0 =
  fold_right (fun i acc => N.lxor (g8mul (g8pow (N.of_nat (S i)) (N.of_nat v)) (nth k (nth i D []) 0)) acc) 0 (seq 0 d).
Proof. exact par1_encode_spec. Qed.
Print Assumptions C10_parity_spec.

(* the field really is GF(2^8): the multiplication used is a commutative, associative, distributive
   product on bytes with inverses (exhaustive over the finite field) *)
Theorem C10_field : (forall a b, a < 256 -> b < 256 -> g8mul a b < 256 /\ g8mul a b = g8mul b a) /\
  (forall a b c, a < 256 -> b < 256 -> c < 256 -> g8mul (g8mul a b) c = g8mul a (g8mul b c)) /\
  (forall a b c, a < 256 -> b < 256 -> c < 256 -> g8mul a (N.lxor b c) = N.lxor (g8mul a b) (g8mul a c)) /\
  (forall a, 0 < a < 256 -> g8mul a (g8inv a) = 1).
Proof.
  repeat split.
  - apply g8mul_lt; assumption.
  - apply g8mul_comm; assumption.
  - apply g8mul_assoc.
  - apply g8mul_lxor_r.
  - apply g8mul_inv.
Qed.
Print Assumptions C10_field.

(* format round trip, both directions of the property on the model: every volume the writer emits (any
   set hash, volume number, entries with any status bits - saved or not -, any trailing data / comment)
   is read back field for field by the reader, with the set hash computed over the SAVED entries only *)
Theorem C10_volume_round_trip : forall md5, (forall x, length (md5 x) = 16%nat) ->
  forall sethash number entries data,
  length sethash = 16%nat -> number < 2^64 ->
  Forall (fun e => e_status e < 2^64 /\ e_len e < 2^64 /\ length (e_hash e) = 16%nat /\ length (e_h16 e) = 16%nat
                   /\ e_name e <> [] /\ decode_utf16le (encode_utf16le (e_name e)) = e_name e
                   /\ encode_utf16le (e_name e) <> []) entries ->
  Forall (fun e => N.of_nat (length (encode_utf16le (e_name e))) < 2^64) entries ->
  N.of_nat (length entries) < 2^32 ->
  exists v, read_volume md5 (write_volume md5 sethash number entries data) = Ok v /\
            v_sethash_stored v = sethash /\ v_number v = number /\ v_entries v = entries /\ v_data v = data /\
            v_sethash v = md5 (flat_map (fun e => if saved e then e_hash e else []) entries).
Proof. exact volume_round_trip. Qed.
Print Assumptions C10_volume_round_trip.

(* UTF-16LE file names: for EVERY name that is the UTF-8 encoding of Unicode scalar values (BMP and
   astral alike) the entry codec round-trips: decode (encode name) = name *)
Theorem C10_name_codec : forall rs, Forall scalar rs ->
  let name := flat_map utf8_encode_rune rs in decode_utf16le (encode_utf16le name) = name.
Proof. exact name_codec_round_trip. Qed.
Print Assumptions C10_name_codec.

(* UTF-16LE entries: a name needing a surrogate pair round-trips through the codec *)
Theorem C10_utf16_example :
  let name := [97; 240; 157; 132; 158; 195; 169] in       (* "a" U+1D11E "e-acute" in UTF-8 *)
  encode_utf16le name = [97; 0; 52; 216; 30; 221; 233; 0] /\ decode_utf16le (encode_utf16le name) = name.
Proof. vm_compute. split; reflexivity. Qed.
Print Assumptions C10_utf16_example.
