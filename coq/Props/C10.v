(* C10 — PAR1 files conform to the PAR 1.0 layout in both directions.
   Writer model: write_volume / par1_outputs (par1/volume.go, encoder.go); reader model: read_volume,
   p1_load (volume.go, decoder.go). *)
From Gopar Require Import Model.Base Model.Matrix Model.GF8 Model.CRC Model.GoPath Model.FS Model.Par1
     Proofs.LinAlg Proofs.GF8Facts Proofs.Par1Facts Proofs.Utf16Facts Model.Par1Spec Proofs.Par1Clean Proofs.Par1RoundTrip Proofs.Par1SpecFacts Proofs.Par1SpecSet Proofs.Par2Facts.
Open Scope N_scope.

(* parity volume v (numbered from 1; row v-1) holds, byte by byte, the sum over files i (numbered from 1)
   of i^(v-1) * file_i in GF(2^8) modulo 0x11D *)
Theorem C10_parity_spec : forall d p D L v k, (d <= 255)%nat -> wfm8 d L D -> (v < p)%nat -> (k < L)%nat -> (0 < d)%nat ->
  nth k (nth v (par1_encode d p D) []) 0 =
  fold_right (fun i acc => N.lxor (g8mul (g8pow (N.of_nat (S i)) (N.of_nat v)) (nth k (nth i D []) 0)) acc) 0 (seq 0 d).
Proof. exact par1_encode_spec. Qed.
Print Assumptions C10_parity_spec.

(* the field really is GF(2^8): the multiplication used is a commutative, associative, distributive
   product on bytes with inverses (exhaustive over the finite field) *)
Theorem C10_field : (forall a b, a < 256 -> b < 256 -> g8mul a b < 256 /\ g8mul a b = g8mul b a) /\
  (forall a b c, a < 256 -> b < 256 -> c < 256 -> g8mul (g8mul a b) c = g8mul a (g8mul b c)) /\
  (forall a b c, a < 256 -> b < 256 -> c < 256 -> g8mul a (N.lxor b c) = N.lxor (g8mul a b) (g8mul a c)) /\
  (forall a, 0 < a < 256 -> g8mul a (g8inv a) = 1).
Proof.
  repeat split.
  - apply g8mul_lt; assumption.
  - apply g8mul_comm; assumption.
  - apply g8mul_assoc.
  - apply g8mul_lxor_r.
  - apply g8mul_inv.
Qed.
Print Assumptions C10_field.

(* format round trip, both directions of the property on the model: every volume the writer emits (any
   set hash, volume number, entries with any status bits - saved or not -, any trailing data / comment)
   is read back field for field by the reader, with the set hash computed over the SAVED entries only *)
Theorem C10_volume_round_trip : forall md5, (forall x, length (md5 x) = 16%nat) ->
  forall sethash number entries data,
  length sethash = 16%nat -> number < 2^64 ->
  Forall (fun e => e_status e < 2^64 /\ e_len e < 2^64 /\ length (e_hash e) = 16%nat /\ length (e_h16 e) = 16%nat
                   /\ e_name e <> [] /\ decode_utf16le (encode_utf16le (e_name e)) = e_name e
                   /\ encode_utf16le (e_name e) <> []) entries ->
  Forall (fun e => N.of_nat (length (encode_utf16le (e_name e))) < 2^64) entries ->
  N.of_nat (length entries) < 2^32 ->
  exists v, read_volume md5 (write_volume md5 sethash number entries data) = Ok v /\
            v_sethash_stored v = sethash /\ v_number v = number /\ v_entries v = entries /\ v_data v = data /\
            v_sethash v = md5 (flat_map (fun e => if saved e then e_hash e else []) entries).
Proof. exact volume_round_trip. Qed.
Print Assumptions C10_volume_round_trip.

(* UTF-16LE file names: for EVERY name that is the UTF-8 encoding of Unicode scalar values (BMP and
   astral alike) the entry codec round-trips: decode (encode name) = name *)
Theorem C10_name_codec : forall rs, Forall scalar rs ->
  let name := flat_map utf8_encode_rune rs in decode_utf16le (encode_utf16le name) = name.
Proof. exact name_codec_round_trip. Qed.
Print Assumptions C10_name_codec.

(* UTF-16LE entries: a name needing a surrogate pair round-trips through the codec *)
Theorem C10_utf16_example :
  let name := [97; 240; 157; 132; 158; 195; 169] in       (* "a" U+1D11E "e-acute" in UTF-8 *)
  encode_utf16le name = [97; 0; 52; 216; 30; 221; 233; 0] /\ decode_utf16le (encode_utf16le name) = name.
Proof. vm_compute. split; reflexivity. Qed.
Print Assumptions C10_utf16_example.

(* AGAINST A SPECIFICATION-SIDE VALIDATOR (Model/Par1Spec.v: written from the PAR 1.0 layout, sharing with the
   implementation model only md5, little-endian decoding and the shift-and-add product modulo 0x11D - no reader or
   writer function, no par1_encode, its own strict UTF-16 decoder; the file list and the data area are located by
   the offset fields).  WRITER: for ALL inputs the files Create writes are a valid PAR 1.0 set for these inputs -
   identification, version, control hash, set hash, counts, offsets and sizes, every entry (status, size, MD5,
   16k-MD5, UTF-16LE name compared on the scalar-value level), identical file lists, and every parity byte equal
   to the specification's double sum - and they are written to <base>.par, <base>.p01 .. *)
From Coq Require Import List. Import ListNotations.
Theorem C10_writer_conforms : forall md5, (forall x, length (md5 x) = 16%nat) ->
  forall parPath nvol names datas outs,
  length names = length datas ->
  Forall input_name_wf names -> Forall wf_bytes datas ->
  Forall (fun d : bytes => N.of_nat (length d) < 2^64) datas ->
  par1_outputs md5 parPath nvol names datas = Ok outs ->
  Forall (fun o : list N * bytes => N.of_nat (length (snd o)) < 2^64) outs ->
  valid_par1_set md5 names datas nvol (map snd outs) = true /\
  map fst outs = (strip_ext parPath ++ EXT_PAR) :: map (fun j => volume_path parPath (N.of_nat (S j))) (seq 0 nvol).
Proof. exact par1_writer_conforms. Qed.
Print Assumptions C10_writer_conforms.

(* READER, one file: every byte string the specification-side parser accepts - any client id, any comment in the
   index, entries with status bit 0 clear anywhere, other status bits, names with surrogate pairs - whose file list
   stands directly behind the header with the data behind it up to the end of the file (what gopar's reader
   requires beyond the layout: Par1SpecFacts.reader_requires_list_at_0x60_refuted, reader_ignores_data_fields_refuted)
   and whose names are non-empty is read by gopar's reader to exactly the parsed fields *)
Theorem C10_reader_accepts_conformant : forall md5 b sv,
  s1_parse md5 b = Some sv -> N.of_nat (length b) < 2^64 ->
  sv_flo sv = 96 -> sv_do sv = 96 + sv_flb sv -> sv_do sv + sv_db sv = N.of_nat (length b) ->
  Forall (fun e => name16_ok (se_name16 e)) (sv_entries sv) ->
  exists v, read_volume md5 b = Ok v /\ v_number v = sv_number sv /\ v_count v = sv_count sv /\
    v_entries v = map entry_of_spec (sv_entries sv) /\ v_data v = sv_data sv /\
    v_sethash_stored v = sv_sethash sv /\ v_sethash v = v_sethash_stored v.
Proof. exact par1_reader_accepts_conformant. Qed.
Print Assumptions C10_reader_accepts_conformant.

(* READER, whole sets by ANY conformant writer ([s1_set_valid]: any comment, entries not saved in the parity set
   anywhere among the saved ones, any status bits): with the saved files present Verify counts nothing unusable
   and Repair rewrites nothing; with any saved files missing, at most as many as there are volumes, Repair
   succeeds and writes exactly the missing files with their original bytes.
   The PAR 1.0 limit of 256 concerns the shards - the files SAVED in the parity set plus the parity volumes: the
   loader looks at the volumes 1 .. min (256 - number of saved entries) 99; entries that are not saved do not count
   (C10_many_unsaved_entries_example: 254 non-saved entries, 2 saved files, 1 volume). *)
Theorem C10_verify_conformant_set : forall md5, (forall x, length (md5 x) = 16%nat) ->
  forall ix files comment nvol outs fs all,
  str_eqb (ext ix) EXT_PAR = true -> s1_set_valid md5 files comment nvol outs = true ->
  forallb (s1_contiguous md5) outs = true -> Forall (fun o : bytes => N.of_nat (length o) < 2^64) outs ->
  Forall (fun f => sf_name f <> []) files ->
  let sd := s1_saved_datas files in Forall wf_bytes sd -> max_len sd <> 0%nat ->
  (1 <= nvol <= N.to_nat (N.min (256 - N.of_nat (length (filter sf_saved files))) 99))%nat ->
  fs_lookup fs ix = Some (nth 0 outs []) ->
  (forall k, (1 <= k <= nvol)%nat -> fs_lookup fs (volume_path ix (N.of_nat k)) = Some (nth k outs [])) ->
  (forall k, (nvol < k <= N.to_nat (N.min (256 - N.of_nat (length (filter sf_saved files))) 99))%nat -> read_res fs (volume_path ix (N.of_nat k)) = Err ENotExist) ->
  (forall f, In f files -> sf_saved f = true ->
     base (sf_name f) = sf_name f /\ fs_lookup fs (join2 (dir ix) (sf_name f)) = Some (sf_data f)) ->
  (exists c st, par1_verify md5 ix all (io_init fs []) = (Ok (c, all), st) /\
     fc_unusable c = 0%nat /\ fc_punusable c = 0%nat /\ fc_usable c = length sd /\ fc_pusable c = nvol) /\
  (forall dbl r rp st', par1_repair md5 ix dbl (io_init fs []) = ((r, rp), st') -> rp = [] /\ io_fs st' = fs).
Proof. exact par1_verify_conformant_set. Qed.
Print Assumptions C10_verify_conformant_set.

(* non-vacuity with MANY entries that are not saved in the set: a hand-made conformant set of 256 entries - 2 saved
   files, 254 non-saved entries - and 1 volume satisfies the premises of C10_verify_conformant_set (stand-in digest
   mu_md5): Verify is clean, Repair rewrites nothing.  Counting all entries against the limit (the loader before the
   fix) made Verify and Repair fail with "too many files". *)
Example C10_many_unsaved_entries_example : forall all,
  (length Par1SpecManyUnsaved.mu_files = 256%nat /\ length (filter sf_saved Par1SpecManyUnsaved.mu_files) = 2%nat) /\
  (exists c st, par1_verify Par1SpecManyUnsaved.mu_md5 Par1SpecManyUnsaved.mu_ix all (io_init Par1SpecManyUnsaved.mu_fs []) = (Ok (c, all), st) /\
     fc_unusable c = 0%nat /\ fc_punusable c = 0%nat /\ fc_usable c = 2%nat /\ fc_pusable c = 1%nat) /\
  (forall dbl r rp st', par1_repair Par1SpecManyUnsaved.mu_md5 Par1SpecManyUnsaved.mu_ix dbl (io_init Par1SpecManyUnsaved.mu_fs []) = ((r, rp), st') ->
     rp = [] /\ io_fs st' = Par1SpecManyUnsaved.mu_fs).
Proof. exact Par1SpecManyUnsaved.many_unsaved_entries_example. Qed.
Print Assumptions C10_many_unsaved_entries_example.

Theorem C10_repair_conformant_set : forall md5, (forall x, length (md5 x) = 16%nat) ->
  forall ix files comment nvol outs fs (kept : s1file -> bool) dbl r rp st',
  str_eqb (ext ix) EXT_PAR = true ->
  s1_set_valid md5 files comment nvol outs = true ->
  forallb (s1_contiguous md5) outs = true ->
  Forall (fun o : bytes => N.of_nat (length o) < 2^64) outs ->
  Forall (fun f => sf_name f <> []) files ->
  let sfiles := filter sf_saved files in
  let sd := s1_saved_datas files in
  Forall wf_bytes sd -> max_len sd <> 0%nat ->
  (1 <= nvol <= N.to_nat (N.min (256 - N.of_nat (length (filter sf_saved files))) 99))%nat ->
  fs_lookup fs ix = Some (nth 0 outs []) ->
  (forall k, (1 <= k <= nvol)%nat -> fs_lookup fs (volume_path ix (N.of_nat k)) = Some (nth k outs [])) ->
  (forall k, (nvol < k <= N.to_nat (N.min (256 - N.of_nat (length (filter sf_saved files))) 99))%nat -> read_res fs (volume_path ix (N.of_nat k)) = Err ENotExist) ->
  (forall f, In f files -> sf_saved f = true ->
     base (sf_name f) = sf_name f /\
     if kept f then fs_lookup fs (fpath ix f) = Some (sf_data f) else read_res fs (fpath ix f) = Err ENotExist) ->
  let lost := filter (fun f => negb (kept f)) sfiles in
  (length lost <= nvol)%nat ->
  par1_repair md5 ix dbl (io_init fs []) = ((r, rp), st') ->
  let ws := map (fun f => (fpath ix f, sf_data f)) lost in
  r = Ok tt /\ rp = map fst ws /\ io_fs st' = apply_writes ws fs.
Proof. exact par1_repair_conformant_set. Qed.
Print Assumptions C10_repair_conformant_set.
