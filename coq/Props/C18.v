(* C18 — I/O failures are reported, never swallowed, and never worsen the data.
   Model: Model/FS.v - every ReadFile / FindWithPrefixAndSuffix / WriteFile call has a number; a fault
   schedule maps call numbers to faults (error without effect; for writes also error after a prefix was
   written); a file that does not exist is a read RESULT, not a fault. *)
From Gopar Require Import Model.Base Model.CRC Model.GoPath Model.FS Model.Par2 Model.Par1 Proofs.Par2Facts Proofs.Par2Faults Proofs.Par1Safety Proofs.RerunFacts Proofs.HistoryFacts2 Proofs.Par2Verify Proofs.Par1Faults.
Open Scope N_scope.

(* REPORTED: an operation that returns success was not hit by any scheduled fault, i.e. if any fault is hit
   the operation returns an error (contrapositive) - Verify, Repair, Create *)
Theorem C18_verify_reported : forall md5 ix st c st',
  par2_verify md5 ix st = (Ok c, st') -> no_fault_between st st'.
Proof. exact verify_ok_no_fault. Qed.
Print Assumptions C18_verify_reported.

Theorem C18_repair_reported : forall md5 ix dbl st rp st',
  par2_repair md5 ix dbl st = ((Ok tt, rp), st') -> no_fault_between st st'.
Proof. exact repair_ok_no_fault. Qed.
Print Assumptions C18_repair_reported.

Theorem C18_create_reported : forall md5 cwd par files p st st',
  par2_create md5 cwd par files p st = (Ok tt, st') -> no_fault_between st st'.
Proof. exact create_ok_no_fault. Qed.
Print Assumptions C18_create_reported.

(* NEVER WORSENS: whatever the faults (torn writes included), a run changes only the paths it issued
   write calls for; every other path keeps its content *)
Theorem C18_repair_untouched : forall md5 ix dbl fs sched q,
  let st' := snd (par2_repair md5 ix dbl (io_init fs sched)) in
  ~ In q (written_paths (io_trace st')) -> fs_lookup (io_fs st') q = fs_lookup fs q.
Proof. exact repair_touches_only_written. Qed.
Print Assumptions C18_repair_untouched.

Theorem C18_create_untouched : forall md5 cwd par files p fs sched q,
  let st' := snd (par2_create md5 cwd par files p (io_init fs sched)) in
  ~ In q (written_paths (io_trace st')) -> fs_lookup (io_fs st') q = fs_lookup fs q.
Proof. exact create_touches_only_written. Qed.
Print Assumptions C18_create_untouched.

(* no success is reported for a file whose write did not complete *)
Theorem C18_repaired_completed : forall md5 ix dbl fs sched r rp st',
  par2_repair md5 ix dbl (io_init fs sched) = ((r, rp), st') ->
  forall q, In q rp -> exists d, In (EvWrite q d true) (io_trace st').
Proof. exact repaired_only_completed. Qed.
Print Assumptions C18_repaired_completed.

(* whatever faults hit a Verify, it leaves the file map as it was: rerunning it without the fault is
   running it on the original state *)
Theorem C18_verify_rerun : forall md5 ix fs sched,
  par2_verify md5 ix (io_init (io_fs (snd (par2_verify md5 ix (io_init fs sched)))) []) = par2_verify md5 ix (io_init fs []).
Proof. intros. rewrite verify_pure. reflexivity. Qed.
Print Assumptions C18_verify_rerun.

(* PAR1: success means no fault was hit; only written paths change *)
Theorem C18_par1_verify_reported : forall md5 ix all st c st', par1_verify md5 ix all st = (Ok c, st') -> no_fault_between st st'.
Proof. exact par1_verify_ok_no_fault. Qed.
Print Assumptions C18_par1_verify_reported.

Theorem C18_par1_repair_reported : forall md5 ix dbl st rp st', par1_repair md5 ix dbl st = ((Ok tt, rp), st') -> no_fault_between st st'.
Proof. exact par1_repair_ok_no_fault. Qed.
Print Assumptions C18_par1_repair_reported.

Theorem C18_par1_repair_untouched : forall md5 ix dbl fs sched q,
  let st' := snd (par1_repair md5 ix dbl (io_init fs sched)) in
  ~ In q (written_paths (io_trace st')) -> fs_lookup (io_fs st') q = fs_lookup fs q.
Proof. exact par1_repair_touches_only_written. Qed.
Print Assumptions C18_par1_repair_untouched.

(* RERUN of Repair after a fault in its loading phase (any read or the directory listing, any schedule): the
   faulted run returns the error, has changed nothing, and the rerun without the fault is the fault-free run -
   PAR2 and PAR1.  (A fault in the write-out phase: C18_repair_untouched and C18_repaired_completed say what
   the state then is; that the rerun completes is decided by the check - see the recorded known finding on
   in-place rewriting.) *)
Theorem C18_repair_rerun_after_load_fault : forall md5 ix dbl fs sched e st1,
  load_all md5 ix (io_init fs sched) = (Err e, st1) ->
  let st' := snd (par2_repair md5 ix dbl (io_init fs sched)) in
  fst (par2_repair md5 ix dbl (io_init fs sched)) = (Err e, []) /\
  io_fs st' = fs /\
  par2_repair md5 ix dbl (io_init (io_fs st') []) = par2_repair md5 ix dbl (io_init fs []).
Proof. exact repair_rerun_after_load_fault. Qed.
Print Assumptions C18_repair_rerun_after_load_fault.

Theorem C18_par1_repair_rerun_after_load_fault : forall md5 ix dbl fs sched e st1,
  p1_load md5 ix (io_init fs sched) = (Err e, st1) ->
  let st' := snd (par1_repair md5 ix dbl (io_init fs sched)) in
  fst (par1_repair md5 ix dbl (io_init fs sched)) = (Err e, []) /\
  io_fs st' = fs /\
  par1_repair md5 ix dbl (io_init (io_fs st') []) = par1_repair md5 ix dbl (io_init fs []).
Proof. exact par1_repair_rerun_after_load_fault. Qed.
Print Assumptions C18_par1_repair_rerun_after_load_fault.

(* NO-SUCH-FILE IS THE ONLY TOLERATED READ FAILURE.  Under any fault schedule: when the loader succeeds, a
   protected file that is absent is recorded as missing (damage, to be repaired); the first read of a protected
   file failing in ANY other way (a scheduled fault, a directory at the path) makes the whole load - and hence
   Verify and Repair - return that error.  PAR2 and PAR1. *)
Theorem C18_missing_file_is_damage : forall md5 ix st ds st',
  load_all md5 ix st = (Ok ds, st') ->
  forall k info, nth_error (d_rec (ds_dec ds)) k = Some info ->
    fs_lookup (io_fs st) (file_path ix (di_name info)) = None ->
    flags3 (nth k (ds_fis ds) dfi) = (true, false, false).
Proof. exact missing_file_is_damage_load_all. Qed.
Print Assumptions C18_missing_file_is_damage.

Theorem C18_other_read_error_is_error : forall md5 ix st d st1 w pre i info post fis_k st_k e st',
  str_eqb (ext ix) EXT_PAR2 = true ->
  new_decoder md5 ix st = (Ok d, st1) -> win_new (Z.of_N (d_slice d)) = Ok w ->
  combine (seq 0 (length (d_rec d))) (d_rec d) = pre ++ (i, info) :: post ->
  load_files md5 d w (make_cstable (d_rec d)) pre (fis0 d) st1 = (Ok fis_k, st_k) ->
  io_read (file_path ix (di_name info)) st_k = (Err e, st') -> e <> ENotExist ->
  load_all md5 ix st = (Err e, st').
Proof. exact other_read_error_is_error_load_all. Qed.
Print Assumptions C18_other_read_error_is_error.

Theorem C18_data_load_never_fails_notexist : forall md5 d w t todo fis st st',
  load_files md5 d w t todo fis st <> (Err ENotExist, st').
Proof. exact load_files_never_fails_notexist. Qed.
Print Assumptions C18_data_load_never_fails_notexist.

Theorem C18_par1_missing_file_is_damage : forall md5 ix st s st',
  p1_load md5 ix st = (Ok s, st') ->
  forall k e, nth_error (s_saved s) k = Some e ->
    fs_lookup (io_fs st) (join2 (dir ix) (e_name e)) = None -> nth_error (s_data s) k = Some None.
Proof. exact missing_file_is_damage_p1_load. Qed.
Print Assumptions C18_par1_missing_file_is_damage.

Theorem C18_par1_other_read_error_is_error : forall md5 ix st b st1 v pre e post dpre st_k p x st',
  str_eqb (ext ix) EXT_PAR = true ->
  io_read ix st = (Ok b, st1) -> read_volume md5 b = Ok v -> (v_number v =? 0) = true ->
  filter saved (v_entries v) = pre ++ e :: post ->
  load_data md5 ix pre st1 = (Ok dpre, st_k) ->
  entry_path ix e = Ok p -> io_read p st_k = (Err x, st') -> x <> ENotExist ->
  p1_load md5 ix st = (Err x, st').
Proof. exact other_read_error_is_error_p1_load. Qed.
Print Assumptions C18_par1_other_read_error_is_error.

(* THE FAULT COUNTER COUNTS CALLS: every operation, from any state and under any schedule, appends one trace
   event per filesystem call and advances the call counter by exactly the number of events - so "a fault at
   call n" in the theorems above and in the check's hook means the n-th filesystem call the operation makes;
   and a successful run has met no scheduled fault at any of its calls. *)
Theorem C18_io_counter_counts_calls : forall md5,
  (forall ix st, counts_calls st (snd (par2_verify md5 ix st))) /\
  (forall ix dbl st, counts_calls st (snd (par2_repair md5 ix dbl st))) /\
  (forall cwd par files p st, counts_calls st (snd (par2_create md5 cwd par files p st))) /\
  (forall ix all st, counts_calls st (snd (par1_verify md5 ix all st))) /\
  (forall ix dbl st, counts_calls st (snd (par1_repair md5 ix dbl st))) /\
  (forall par files nvol st, counts_calls st (snd (par1_create md5 par files nvol st))).
Proof. exact io_counter_counts_calls. Qed.
Print Assumptions C18_io_counter_counts_calls.

Theorem C18_repair_ok_every_call_fault_free : forall md5 ix dbl fs sched rp st',
  par2_repair md5 ix dbl (io_init fs sched) = ((Ok tt, rp), st') ->
  io_n st' = length (io_trace st') /\ forall n, (n < length (io_trace st'))%nat -> sched_lookup sched n = None.
Proof. exact repair_ok_every_call_fault_free. Qed.
Print Assumptions C18_repair_ok_every_call_fault_free.

(* THE PAR1 HALVES (Proofs/Par1Faults.v).  A PAR1 Create that reports success was hit by no scheduled fault; whatever the
   faults it changes only paths it issued write calls for; a path PAR1 Repair lists as repaired had its write completed. *)
Theorem C18_par1_create_reported : forall md5 parPath files nvol st st',
  par1_create md5 parPath files nvol st = (Ok tt, st') -> no_fault_between st st'.
Proof. exact par1_create_ok_no_fault. Qed.
Print Assumptions C18_par1_create_reported.

Theorem C18_par1_create_untouched : forall md5 parPath files nvol fs sched q,
  let st' := snd (par1_create md5 parPath files nvol (io_init fs sched)) in
  ~ In q (written_paths (io_trace st')) -> fs_lookup (io_fs st') q = fs_lookup fs q.
Proof. exact par1_create_untouched. Qed.
Print Assumptions C18_par1_create_untouched.

Theorem C18_par1_repaired_completed : forall md5 ix dbl fs sched r rp st',
  par1_repair md5 ix dbl (io_init fs sched) = ((r, rp), st') ->
  forall q, In q rp -> exists d, In (EvWrite q d true) (io_trace st').
Proof. exact par1_repaired_only_completed. Qed.
Print Assumptions C18_par1_repaired_completed.

(* ... and it HOLDS what that write carried: with distinct target paths Repair writes each path at most once, so under
   any fault schedule a path listed as repaired has a completed write AND holds the bytes of that write (PAR2, PAR1) *)
Theorem C18_repaired_content : forall md5 ix dbl fs sched r rp st' ds st1,
  par2_repair md5 ix dbl (io_init fs sched) = ((r, rp), st') ->
  load_all md5 ix (io_init fs sched) = (Ok ds, st1) ->
  NoDup (map (fun info => file_path ix (di_name info)) (d_rec (ds_dec ds))) ->
  forall q, In q rp -> exists d, In (EvWrite q d true) (io_trace st') /\ fs_lookup (io_fs st') q = Some d.
Proof. exact par2_repaired_content. Qed.
Print Assumptions C18_repaired_content.

Theorem C18_par1_repaired_content : forall md5 ix dbl fs sched r rp st' s st1,
  par1_repair md5 ix dbl (io_init fs sched) = ((r, rp), st') ->
  p1_load md5 ix (io_init fs sched) = (Ok s, st1) ->
  NoDup (map (fun e => join2 (dir ix) (e_name e)) (s_saved s)) ->
  forall q, In q rp -> exists d, In (EvWrite q d true) (io_trace st') /\ fs_lookup (io_fs st') q = Some d.
Proof. exact par1_repaired_content. Qed.
Print Assumptions C18_par1_repaired_content.

(* RERUN OF CREATE: after ANY faulted run (any schedule, torn writes included) a fault-free rerun on the state left behind
   returns what the fault-free run from the original state returns, leaves the same content at EVERY path and makes the same
   calls - Create never modifies its inputs (C02), and its result depends on nothing else.  PAR1 and PAR2. *)
Theorem C18_par1_create_rerun : forall md5 parPath files nvol fs sched,
  let fs1 := io_fs (snd (par1_create md5 parPath files nvol (io_init fs sched))) in
  let r2 := par1_create md5 parPath files nvol (io_init fs1 []) in
  let r0 := par1_create md5 parPath files nvol (io_init fs []) in
  fst r2 = fst r0 /\
  (forall q, fs_lookup (io_fs (snd r2)) q = fs_lookup (io_fs (snd r0)) q) /\
  io_trace (snd r2) = io_trace (snd r0).
Proof. exact par1_create_rerun. Qed.
Print Assumptions C18_par1_create_rerun.

Theorem C18_create_rerun : forall md5 cwd parPath files p fs sched,
  is_abs cwd = true ->
  let fs1 := io_fs (snd (par2_create md5 cwd parPath files p (io_init fs sched))) in
  let r2 := par2_create md5 cwd parPath files p (io_init fs1 []) in
  let r0 := par2_create md5 cwd parPath files p (io_init fs []) in
  fst r2 = fst r0 /\
  (forall q, fs_lookup (io_fs (snd r2)) q = fs_lookup (io_fs (snd r0)) q) /\
  io_trace (snd r2) = io_trace (snd r0).
Proof. exact par2_create_rerun. Qed.
Print Assumptions C18_create_rerun.
