(* C18 — I/O failures are reported, never swallowed, and never worsen the data (interim: the rerun
   corollary for Verify; the fault-propagation theorems are added when proved). *)
From Gopar Require Import Model.Base Model.CRC Model.GoPath Model.FS Model.Par2 Proofs.Par2Facts.
Open Scope N_scope.

(* whatever faults hit a Verify, it leaves the file map as it was: rerunning it without the fault
   is running it on the original state *)
Theorem C18_verify_rerun : forall md5 ix fs sched,
  par2_verify md5 ix (io_init (io_fs (snd (par2_verify md5 ix (io_init fs sched)))) []) = par2_verify md5 ix (io_init fs []).
Proof. intros. rewrite verify_pure. reflexivity. Qed.
Print Assumptions C18_verify_rerun.
