(* C18 — I/O failures are reported, never swallowed, and never worsen the data.
   Model: Model/FS.v - every ReadFile / FindWithPrefixAndSuffix / WriteFile call has a number; a fault
   schedule maps call numbers to faults (error without effect; for writes also error after a prefix was
   written); a file that does not exist is a read RESULT, not a fault. *)
From Gopar Require Import Model.Base Model.CRC Model.GoPath Model.FS Model.Par2 Model.Par1 Proofs.Par2Facts Proofs.Par2Faults Proofs.Par1Safety Proofs.RerunFacts.
Open Scope N_scope.

(* REPORTED: an operation that returns success was not hit by any scheduled fault, i.e. if any fault is hit
   the operation returns an error (contrapositive) - Verify, Repair, Create *)
Theorem C18_verify_reported : forall md5 ix st c st',
  par2_verify md5 ix st = (Ok c, st') -> no_fault_between st st'.
Proof. exact verify_ok_no_fault. Qed.
Print Assumptions C18_verify_reported.

Theorem C18_repair_reported : forall md5 ix dbl st rp st',
  par2_repair md5 ix dbl st = ((Ok tt, rp), st') -> no_fault_between st st'.
Proof. exact repair_ok_no_fault. Qed.
Print Assumptions C18_repair_reported.

Theorem C18_create_reported : forall md5 cwd par files p st st',
  par2_create md5 cwd par files p st = (Ok tt, st') -> no_fault_between st st'.
Proof. exact create_ok_no_fault. Qed.
Print Assumptions C18_create_reported.

(* NEVER WORSENS: whatever the faults (torn writes included), a run changes only the paths it issued
   write calls for; every other path keeps its content *)
Theorem C18_repair_untouched : forall md5 ix dbl fs sched q,
  let st' := snd (par2_repair md5 ix dbl (io_init fs sched)) in
  ~ In q (written_paths (io_trace st')) -> fs_lookup (io_fs st') q = fs_lookup fs q.
Proof. exact repair_touches_only_written. Qed.
Print Assumptions C18_repair_untouched.

Theorem C18_create_untouched : forall md5 cwd par files p fs sched q,
  let st' := snd (par2_create md5 cwd par files p (io_init fs sched)) in
  ~ In q (written_paths (io_trace st')) -> fs_lookup (io_fs st') q = fs_lookup fs q.
Proof. exact create_touches_only_written. Qed.
Print Assumptions C18_create_untouched.

(* no success is reported for a file whose write did not complete *)
Theorem C18_repaired_completed : forall md5 ix dbl fs sched r rp st',
  par2_repair md5 ix dbl (io_init fs sched) = ((r, rp), st') ->
  forall q, In q rp -> exists d, In (EvWrite q d true) (io_trace st').
Proof. exact repaired_only_completed. Qed.
Print Assumptions C18_repaired_completed.

(* whatever faults hit a Verify, it leaves the file map as it was: rerunning it without the fault is
   running it on the original state *)
Theorem C18_verify_rerun : forall md5 ix fs sched,
  par2_verify md5 ix (io_init (io_fs (snd (par2_verify md5 ix (io_init fs sched)))) []) = par2_verify md5 ix (io_init fs []).
Proof. intros. rewrite verify_pure. reflexivity. Qed.
Print Assumptions C18_verify_rerun.

(* PAR1: success means no fault was hit; only written paths change *)
Theorem C18_par1_verify_reported : forall md5 ix all st c st', par1_verify md5 ix all st = (Ok c, st') -> no_fault_between st st'.
Proof. exact par1_verify_ok_no_fault. Qed.
Print Assumptions C18_par1_verify_reported.

Theorem C18_par1_repair_reported : forall md5 ix dbl st rp st', par1_repair md5 ix dbl st = ((Ok tt, rp), st') -> no_fault_between st st'.
Proof. exact par1_repair_ok_no_fault. Qed.
Print Assumptions C18_par1_repair_reported.

Theorem C18_par1_repair_untouched : forall md5 ix dbl fs sched q,
  let st' := snd (par1_repair md5 ix dbl (io_init fs sched)) in
  ~ In q (written_paths (io_trace st')) -> fs_lookup (io_fs st') q = fs_lookup fs q.
Proof. exact par1_repair_touches_only_written. Qed.
Print Assumptions C18_par1_repair_untouched.

(* RERUN of Repair after a fault in its loading phase (any read or the directory listing, any schedule): the
   faulted run returns the error, has changed nothing, and the rerun without the fault is the fault-free run -
   PAR2 and PAR1.  (A fault in the write-out phase: C18_repair_untouched and C18_repaired_completed say what
   the state then is; that the rerun completes is decided by the check - see the recorded known finding on
   in-place rewriting.) *)
Theorem C18_repair_rerun_after_load_fault : forall md5 ix dbl fs sched e st1,
  load_all md5 ix (io_init fs sched) = (Err e, st1) ->
  let st' := snd (par2_repair md5 ix dbl (io_init fs sched)) in
  fst (par2_repair md5 ix dbl (io_init fs sched)) = (Err e, []) /\
  io_fs st' = fs /\
  par2_repair md5 ix dbl (io_init (io_fs st') []) = par2_repair md5 ix dbl (io_init fs []).
Proof. exact repair_rerun_after_load_fault. Qed.
Print Assumptions C18_repair_rerun_after_load_fault.

Theorem C18_par1_repair_rerun_after_load_fault : forall md5 ix dbl fs sched e st1,
  p1_load md5 ix (io_init fs sched) = (Err e, st1) ->
  let st' := snd (par1_repair md5 ix dbl (io_init fs sched)) in
  fst (par1_repair md5 ix dbl (io_init fs sched)) = (Err e, []) /\
  io_fs st' = fs /\
  par1_repair md5 ix dbl (io_init (io_fs st') []) = par1_repair md5 ix dbl (io_init fs []).
Proof. exact par1_repair_rerun_after_load_fault. Qed.
Print Assumptions C18_par1_repair_rerun_after_load_fault.
