(* C19 — well-checksummed but inconsistent archives are rejected without crashing.
   An inconsistent archive is again just a file-system state: the theorems quantify over all of them. *)
From Gopar Require Import Model.Base Model.CRC Model.GoPath Model.FS Model.Par2 Model.Par1 Proofs.Par2Facts Proofs.Par2Verify Proofs.Par2Faults Proofs.Par1Facts Proofs.Par1Safety.
Open Scope N_scope.

Theorem C19_verify_no_panic : forall md5 ix st p, fst (par2_verify md5 ix st) <> Panic p.
Proof. exact verify_no_panic. Qed.
Print Assumptions C19_verify_no_panic.

(* Repair never writes data that fails the archive's own file hashes, whatever the archive says *)
Theorem C19_writes_match_archive_hashes : forall md5 ix dbl fs r rp st',
  par2_repair md5 ix dbl (io_init fs []) = ((r, rp), st') ->
  (io_fs st' = fs /\ rp = []) \/
  exists ds st1 ws,
    load_all md5 ix (io_init fs []) = (Ok ds, st1) /\
    io_fs st' = apply_writes ws fs /\ rp = map fst ws /\
    Forall (fun w => exists info, In info (d_rec (ds_dec ds)) /\
                       fst w = file_path ix (di_name info) /\
                       md5 (snd w) = di_hash info /\ hash16k md5 (snd w) = di_h16 info /\
                       N.of_nat (length (snd w)) = di_len info) ws.
Proof. exact repair_writes. Qed.
Print Assumptions C19_writes_match_archive_hashes.

Theorem C19_repair_no_panic : forall md5 ix dbl st p,
  fst (fst (par2_repair md5 ix dbl st)) <> Panic p.
Proof. intros md5 ix dbl st p. exact (repair_no_panic md5 ix dbl st p []). Qed.
Print Assumptions C19_repair_no_panic.

(* PAR1: never a panic; only entry-verified data is written *)
Theorem C19_par1_verify_no_panic : forall md5 ix all st p, fst (par1_verify md5 ix all st) <> Panic p.
Proof. exact par1_verify_no_panic. Qed.
Print Assumptions C19_par1_verify_no_panic.

Theorem C19_par1_repair_no_panic : forall md5 ix dbl st p, fst (fst (par1_repair md5 ix dbl st)) <> Panic p.
Proof. exact par1_repair_no_panic. Qed.
Print Assumptions C19_par1_repair_no_panic.
