(* C19 — well-checksummed but inconsistent archives are rejected without crashing.
   An inconsistent archive is again just a file-system state: the theorems quantify over all of them. *)
From Gopar Require Import Proofs.Par2Ids Proofs.LoadSizes.
From Gopar Require Import Model.Base Model.CRC Model.GoPath Model.FS Model.Par2 Model.Par1 Proofs.Par2Facts Proofs.Par2Verify Proofs.Par2Faults Proofs.Par1Facts Proofs.Par1Safety.
Open Scope N_scope.

Theorem C19_verify_no_panic : forall md5 ix st p, fst (par2_verify md5 ix st) <> Panic p.
Proof. exact verify_no_panic. Qed.
Print Assumptions C19_verify_no_panic.

(* Repair never writes data that fails the archive's own file hashes, whatever the archive says *)
Theorem C19_writes_match_archive_hashes : forall md5 ix dbl fs r rp st',
  par2_repair md5 ix dbl (io_init fs []) = ((r, rp), st') ->
  (io_fs st' = fs /\ rp = []) \/
  exists ds st1 ws,
    load_all md5 ix (io_init fs []) = (Ok ds, st1) /\
    io_fs st' = apply_writes ws fs /\ rp = map fst ws /\
    Forall (fun w => exists info, In info (d_rec (ds_dec ds)) /\
                       fst w = file_path ix (di_name info) /\
                       md5 (snd w) = di_hash info /\ hash16k md5 (snd w) = di_h16 info /\
                       N.of_nat (length (snd w)) = di_len info) ws.
Proof. exact repair_writes. Qed.
Print Assumptions C19_writes_match_archive_hashes.

Theorem C19_repair_no_panic : forall md5 ix dbl st p,
  fst (fst (par2_repair md5 ix dbl st)) <> Panic p.
Proof. intros md5 ix dbl st p. exact (repair_no_panic md5 ix dbl st p []). Qed.
Print Assumptions C19_repair_no_panic.

(* PAR1: never a panic; only entry-verified data is written *)
Theorem C19_par1_verify_no_panic : forall md5 ix all st p, fst (par1_verify md5 ix all st) <> Panic p.
Proof. exact par1_verify_no_panic. Qed.
Print Assumptions C19_par1_verify_no_panic.

Theorem C19_par1_repair_no_panic : forall md5 ix dbl st p, fst (fst (par1_repair md5 ix dbl st)) <> Panic p.
Proof. exact par1_repair_no_panic. Qed.
Print Assumptions C19_par1_repair_no_panic.

(* NO ALLOCATION OUT OF PROPORTION, as far as the model can say it: the SIZES of the tables the loaders build are
   bounded by the bytes actually read, for EVERY state (hostile archives included).
   - a main packet lists every file id once (after the fix e41da29; before it one id listed n times with k checksum
     pairs gave n*k shard slots for 16n+20k bytes of index: 1.5 GB for a 229 KB set);
   - the shard table of a loaded PAR2 set has at most (index file length)/20 slots;
   - the recovery table has at most 65536 slots, each block one slice long (the coder built from it is sized by the
     HIGHEST exponent: recorded known finding);
   - a PAR1 volume's entry list is bounded by its length / 56, and at most 99 parity slots are loaded. *)
Theorem C19_file_ids_distinct : forall md5 ix st d st1, new_decoder md5 ix st = (Ok d, st1) ->
  NoDup (map di_id (d_rec d)) /\ NoDup (map di_id (d_nonrec d)).
Proof. exact decoder_ids_distinct. Qed.
Print Assumptions C19_file_ids_distinct.

Theorem C19_shard_table_bounded : forall md5 ix st ds st', load_all md5 ix st = (Ok ds, st') ->
  exists b st0, io_read ix st = (Ok b, st0) /\
    (20 * length (flat_map fi_shards (ds_fis ds)) <= length b)%nat.
Proof. exact shard_table_bounded_uncond. Qed.
Print Assumptions C19_shard_table_bounded.

Theorem C19_parity_table_bounded : forall md5 ix st ds st', load_all md5 ix st = (Ok ds, st') ->
  (N.of_nat (length (ds_parity ds)) <= 65536)%N /\
  forall b, In (Some b) (ds_parity ds) -> N.of_nat (length b) = d_slice (ds_dec ds).
Proof. exact parity_table_bounded. Qed.
Print Assumptions C19_parity_table_bounded.

Theorem C19_par1_sizes : forall md5 ix st s st', p1_load md5 ix st = (Ok s, st') ->
  (length (s_saved s) <= length (v_entries (s_vol s)))%nat /\
  length (s_data s) = length (s_saved s) /\
  (length (s_parity s) <= 99)%nat /\
  (forall x, In (Some x) (s_parity s) -> length x = s_size s) /\
  exists b st1, io_read ix st = (Ok b, st1) /\ read_volume md5 b = Ok (s_vol s) /\
                (58 * length (v_entries (s_vol s)) + 96 <= length b)%nat.
Proof. exact p1_load_sizes. Qed.
Print Assumptions C19_par1_sizes.

(* PAR1 Repair writes only hash-verified content and lists what it wrote: the state after is the state before with a list
   of writes applied, each to the path of a saved entry with a bare name, carrying that entry's recorded MD5, 16k-MD5 and
   length; the repaired list is exactly the list of written paths (every archive state) *)
Theorem C19_par1_repair_writes : forall md5 ix dbl fs r rp st',
  Par1.par1_repair md5 ix dbl (io_init fs []) = ((r, rp), st') ->
  (io_fs st' = fs /\ rp = []) \/
  exists s st1 ws,
    Par1.p1_load md5 ix (io_init fs []) = (Ok s, st1) /\
    io_fs st' = apply_writes ws fs /\ rp = map fst ws /\
    Forall (fun w => exists e, In e (Par1.s_saved s) /\ base (Par1.e_name e) = Par1.e_name e /\
                       fst w = join2 (dir ix) (Par1.e_name e) /\
                       md5 (snd w) = Par1.e_hash e /\ Par1.hash16k md5 (snd w) = Par1.e_h16 e /\
                       N.of_nat (length (snd w)) = Par1.e_len e) ws.
Proof. exact Par1Facts.par1_repair_writes. Qed.
Print Assumptions C19_par1_repair_writes.
