(* C13 — corruption, truncation and interrupted writes never crash or mislead.
   Every damaged, truncated, emptied, garbage, deleted or half-written archive is just a file-system
   state, so the statements below quantify over ALL states (and all fault schedules).  Truthfulness
   for arbitrary states is C03 (clean => intact, counts) and C02 (Repair writes only data matching
   the recorded hashes), both stated for every state; restated here for the record. *)
From Gopar Require Import Model.Base Model.CRC Model.GoPath Model.FS Model.Par2 Model.Par1 Proofs.Par2Facts Proofs.Par2Verify Proofs.Par2Faults Proofs.Par1Facts Proofs.Par1Safety Proofs.Par2Clean Proofs.Par2Ignore Proofs.Par1Volumes Proofs.Par2Counts Proofs.Par2Reader2 Proofs.Truthful Proofs.SlicesLifted Proofs.ScanFacts.
From Coq Require Import List Permutation. Import ListNotations.
Open Scope N_scope.

Theorem C13_verify_no_panic : forall md5 ix st p, fst (par2_verify md5 ix st) <> Panic p.
Proof. exact verify_no_panic. Qed.
Print Assumptions C13_verify_no_panic.

Theorem C13_verify_truthful : forall md5 ix fs c st,
  par2_verify md5 ix (io_init fs []) = (Ok c, st) -> repair_needed c = false ->
  exists ds st1, load_all md5 ix (io_init fs []) = (Ok ds, st1) /\
    Forall (fun info => exists data, fs_lookup fs (file_path ix (di_name info)) = Some data /\
              md5 data = di_hash info /\ hash16k md5 data = di_h16 info /\ N.of_nat (length data) = di_len info)
           (d_rec (ds_dec ds)).
Proof. exact verify_clean_intact. Qed.
Print Assumptions C13_verify_truthful.

Theorem C13_repair_writes_only_verified : forall md5 ix dbl fs r rp st',
  par2_repair md5 ix dbl (io_init fs []) = ((r, rp), st') ->
  (io_fs st' = fs /\ rp = []) \/
  exists ds st1 ws,
    load_all md5 ix (io_init fs []) = (Ok ds, st1) /\
    io_fs st' = apply_writes ws fs /\ rp = map fst ws /\
    Forall (fun w => exists info, In info (d_rec (ds_dec ds)) /\
                       fst w = file_path ix (di_name info) /\
                       md5 (snd w) = di_hash info /\ hash16k md5 (snd w) = di_h16 info /\
                       N.of_nat (length (snd w)) = di_len info) ws.
Proof. exact repair_writes. Qed.
Print Assumptions C13_repair_writes_only_verified.

(* Repair never panics either: for EVERY file-system state, index path, double-check setting and fault
   schedule the model's Repair returns a result or an error *)
Theorem C13_repair_no_panic : forall md5 ix dbl st p,
  fst (fst (par2_repair md5 ix dbl st)) <> Panic p.
Proof. intros md5 ix dbl st p. exact (repair_no_panic md5 ix dbl st p []). Qed.
Print Assumptions C13_repair_no_panic.

(* PAR1: Verify is pure for every state; Repair writes only data matching the entry's length and hashes *)
Theorem C13_par1_verify_pure : forall md5 ix all st, io_fs (snd (par1_verify md5 ix all st)) = io_fs st.
Proof. exact par1_verify_pure. Qed.
Print Assumptions C13_par1_verify_pure.

(* PAR1 Verify and Repair never panic either, for every state and fault schedule *)
Theorem C13_par1_verify_no_panic : forall md5 ix all st p, fst (par1_verify md5 ix all st) <> Panic p.
Proof. exact par1_verify_no_panic. Qed.
Print Assumptions C13_par1_verify_no_panic.

Theorem C13_par1_repair_no_panic : forall md5 ix dbl st p, fst (fst (par1_repair md5 ix dbl st)) <> Panic p.
Proof. exact par1_repair_no_panic. Qed.
Print Assumptions C13_par1_repair_no_panic.

(* GARBAGE BESIDE THE INDEX IS IGNORED (PAR2): a file matching <base>.*.par2 in which no packet of the set
   parses at any offset (garbage, an emptied or torn recovery file, a recovery file of another set) changes
   nothing: the whole loaded state - hence Verify's counts and what Repair does - is the same as without it *)
Theorem C13_unparsable_recovery_file_ignored : forall md5 ix q fs fs' b,
  (forall p, p <> q -> fs_lookup fs' p = fs_lookup fs p /\ is_dir fs' p = is_dir fs p) ->
  fs_lookup fs q = None -> fs_lookup fs' q = Some b ->
  Permutation (map fst fs') (q :: map fst fs) ->
  vol_pattern (strip_ext ix) q = true ->
  q <> ix ->
  (forall d st1, new_decoder md5 ix (io_init fs []) = (Ok d, st1) ->
     nothing_parses md5 (d_setid d) b /\
     forall info, In info (d_rec d) -> file_path ix (di_name info) <> q) ->
  fst (load_all md5 ix (io_init fs' [])) = fst (load_all md5 ix (io_init fs [])).
Proof. exact load_all_ignores_unparsable_recovery_file. Qed.
Print Assumptions C13_unparsable_recovery_file_ignored.

(* ... and an unparsable PAR1 volume likewise (Props/C04.v, restated) *)
Theorem C13_par1_unparsable_volume_ignored : forall md5 ix k fs fs' b x,
  (forall p, p <> volume_path ix k -> fs_lookup fs' p = fs_lookup fs p /\ is_dir fs' p = is_dir fs p) ->
  fs_lookup fs (volume_path ix k) = None -> is_dir fs (volume_path ix k) = false ->
  fs_lookup fs' (volume_path ix k) = Some b -> read_volume md5 b = Err x ->
  (forall bi v e, fs_lookup fs ix = Some bi -> read_volume md5 bi = Ok v -> In e (v_entries v) -> saved e = true ->
     join2 (dir ix) (e_name e) <> volume_path ix k) ->
  fst (p1_load md5 ix (io_init fs' [])) = fst (p1_load md5 ix (io_init fs [])).
Proof. exact p1_load_ignores_unparsable_volume. Qed.
Print Assumptions C13_par1_unparsable_volume_ignored.

(* ... and a stale or foreign PAR1 volume - it parses, but carries another set hash than the index - likewise: the
   loaded state, what Verify returns and what Repair returns and lists are the same as with that file absent
   (Props/C04.v, restated) *)
Theorem C13_par1_foreign_volume_ignored : forall md5 ix k fs fs' b vb,
  (forall p, p <> volume_path ix k -> fs_lookup fs' p = fs_lookup fs p /\ is_dir fs' p = is_dir fs p) ->
  fs_lookup fs (volume_path ix k) = None -> is_dir fs (volume_path ix k) = false ->
  fs_lookup fs' (volume_path ix k) = Some b -> read_volume md5 b = Ok vb ->
  (forall bi v, fs_lookup fs ix = Some bi -> read_volume md5 bi = Ok v -> v_sethash_stored vb <> v_sethash_stored v) ->
  (forall bi v e, fs_lookup fs ix = Some bi -> read_volume md5 bi = Ok v -> In e (v_entries v) -> saved e = true ->
     join2 (dir ix) (e_name e) <> volume_path ix k) ->
  fst (p1_load md5 ix (io_init fs' [])) = fst (p1_load md5 ix (io_init fs [])) /\
  (forall all, fst (par1_verify md5 ix all (io_init fs' [])) = fst (par1_verify md5 ix all (io_init fs []))) /\
  (forall dbl, fst (par1_repair md5 ix dbl (io_init fs' [])) = fst (par1_repair md5 ix dbl (io_init fs []))).
Proof. exact par1_foreign_volume_ignored_all. Qed.
Print Assumptions C13_par1_foreign_volume_ignored.

(* TRUTHFUL COUNTS: every slice counted usable - in ANY state - is slice-sized byte data carrying the registered
   MD5 and CRC-32 of its position (hence the original slice, under the local collision premise:
   usable_slices_original) *)
Theorem C13_usable_slices_genuine : forall md5 ix fs ds st1,
  load_all md5 ix (io_init fs []) = (Ok ds, st1) ->
  (forall info dat, In info (d_rec (ds_dec ds)) -> fs_lookup fs (file_path ix (di_name info)) = Some dat -> wf_bytes dat) ->
  NoDup (map di_id (d_rec (ds_dec ds))) ->
  forall i k s, nth k (fi_shards (nth i (ds_fis ds) dfi)) None = Some s ->
    length (si_data s) = N.to_nat (d_slice (ds_dec ds)) /\ wf_bytes (si_data s) /\
    pair_at (d_rec (ds_dec ds)) i k (md5 (si_data s), crc32 (si_data s)).
Proof. exact usable_slices_genuine. Qed.
Print Assumptions C13_usable_slices_genuine.

(* THE READER'S ERRORS ARE REAL: the model's packet loop takes fuel and returns the error value when it runs out;
   that never happens - with any fuel above the length the result is the same, and an error result is exactly one
   of: a hash-valid packet whose body its own parser rejects, a conflicting duplicate recovery packet, or the
   end reached without creator packet / set id (reader_err, inductive, both directions) *)
Theorem C13_reader_never_out_of_fuel : forall md5 expected b,
  (forall fuel, (length b < fuel)%nat -> read_file_go md5 fuel b expected false pf_empty = read_file md5 expected b) /\
  (read_file md5 expected b = RFErr <-> reader_err md5 b expected false pf_empty).
Proof. exact read_file_never_out_of_fuel_file. Qed.
Print Assumptions C13_reader_never_out_of_fuel.

Theorem C13_volume_reader_never_out_of_fuel : forall md5 sid b,
  (forall fuel, (length b < fuel)%nat -> read_file_go md5 fuel b (Some sid) false pf_vol0 = read_file_vol md5 sid b) /\
  (read_file_vol md5 sid b = RFErr <-> reader_err md5 b (Some sid) false pf_vol0).
Proof. exact read_file_never_out_of_fuel_vol. Qed.
Print Assumptions C13_volume_reader_never_out_of_fuel.

(* "ANY RESULT IS TRUTHFUL", beyond the clean verdict - in EVERY state (damaged, truncated, garbage, missing files),
   no hash premise.  FILES (PAR2): a file is reported intact exactly when content is at its path with the recorded
   length, MD5 and 16k-MD5; reported missing exactly when nothing is there. *)
Theorem C13_file_reported_intact_iff : forall md5 ix fs ds st1 k info,
  load_all md5 ix (io_init fs []) = (Ok ds, st1) -> nth_error (d_rec (ds_dec ds)) k = Some info ->
  (flags3 (nth k (ds_fis ds) dfi) = (false, false, false) <->
   exists data, fs_lookup fs (file_path ix (di_name info)) = Some data /\ md5 data = di_hash info /\
                Par2.hash16k md5 data = di_h16 info /\ N.of_nat (length data) = di_len info).
Proof. exact F2_reported_intact. Qed.
Print Assumptions C13_file_reported_intact_iff.

Theorem C13_file_reported_missing_iff : forall md5 ix fs ds st1 k info,
  load_all md5 ix (io_init fs []) = (Ok ds, st1) -> nth_error (d_rec (ds_dec ds)) k = Some info ->
  (fi_missing (nth k (ds_fis ds) dfi) = true <-> fs_lookup fs (file_path ix (di_name info)) = None).
Proof. exact F2_reported_missing. Qed.
Print Assumptions C13_file_reported_missing_iff.

(* RECOVERY BLOCKS (PAR2): every block of the loaded table is the body of a recovery packet - valid packet MD5, the
   index's set id, type RecvSlic, that exponent - at a position the reader reaches in one of the listed recovery
   files, and has the slice size; the table slot is filled exactly for such exponents; and the usable-block count
   Verify reports is the number of them.  ("At a position the reader reaches", not "at any offset": a hash-valid
   packet nested in the body of another packet is skipped with it - Truthful.C2_occurs_anywhere_refuted.) *)
Theorem C13_blocks_genuine : forall md5 ix fs ds st1,
  load_all md5 ix (io_init fs []) = (Ok ds, st1) ->
  forall e blk, nth (N.to_nat e) (ds_parity ds) None = Some blk ->
  block_in_listed_file md5 ix fs (d_setid (ds_dec ds)) e blk /\ N.of_nat (length blk) = d_slice (ds_dec ds).
Proof. exact B2_blocks_genuine. Qed.
Print Assumptions C13_blocks_genuine.

Theorem C13_block_count_truthful : forall md5 ix fs ds st1,
  load_all md5 ix (io_init fs []) = (Ok ds, st1) ->
  forall L, NoDup L ->
  (forall e, In e L <-> exists blk, block_in_listed_file md5 ix fs (d_setid (ds_dec ds)) e blk) ->
  c_pusable (shard_counts ds) = length L.
Proof. exact C2_pusable_count. Qed.
Print Assumptions C13_block_count_truthful.

(* what Verify RETURNS (PAR2): the counts are those of the loaded state, with the usable-block count computed from
   the file map by a plain walk of the listed files, the totals adding up, and the per-file flags being the
   content comparison *)
Theorem C13_verify_counts_truthful : forall md5 ix fs c st,
  par2_verify md5 ix (io_init fs []) = (Ok c, st) ->
  exists ds, load_all md5 ix (io_init fs []) = (Ok ds, st) /\ c = shard_counts ds /\
    c_pusable c = length (loaded_exps md5 ix fs (d_setid (ds_dec ds))) /\
    (c_pusable c + c_punusable c = length (ds_parity ds))%nat /\
    (c_usable c + c_unusable c = fold_right (fun info acc => length (di_pairs info) + acc) 0 (d_rec (ds_dec ds)))%nat /\
    map flags3 (ds_fis ds) = map (file_state md5 fs ix) (d_rec (ds_dec ds)).
Proof. exact par2_verify_counts_truthful. Qed.
Print Assumptions C13_verify_counts_truthful.

(* PAR1: a file counted usable is at its path with the recorded MD5 and 16k-MD5 (the PAR1 loader does not compare
   the recorded LENGTH - Truthful.F1_length_not_checked; with the MD5 equal that matters only for an index whose
   own fields disagree, C19); a volume counted usable is a file at the volume path that parses, carries the
   index's set hash and its own number, and has the common size; a volume counted unusable is no file or a file
   that is not such a volume; the counts are the numbers of such files (vslot: the file parses AND carries the
   index's stored set hash AND the number of its file name), over the volume numbers 1 .. min (256 - number of
   SAVED entries) 99. *)
Theorem C13_par1_file_usable_genuine : forall md5 ix fs s st1 k d,
  p1_load md5 ix (io_init fs []) = (Ok s, st1) -> nth_error (s_data s) k = Some (Some d) ->
  exists e, nth_error (s_saved s) k = Some e /\ fs_lookup fs (join2 (dir ix) (e_name e)) = Some d /\
            md5 d = e_hash e /\ Par1.hash16k md5 d = e_h16 e.
Proof. exact F1_file_usable. Qed.
Print Assumptions C13_par1_file_usable_genuine.

Theorem C13_par1_volume_usable_genuine : forall md5 ix fs s st1 k d,
  p1_load md5 ix (io_init fs []) = (Ok s, st1) -> nth_error (s_parity s) k = Some (Some d) ->
  exists b v, fs_lookup fs (volume_path ix (N.of_nat (S k))) = Some b /\ read_volume md5 b = Ok v /\
    v_sethash_stored v = v_sethash_stored (s_vol s) /\ v_number v = N.of_nat (S k) /\ v_data v = d /\
    length d = s_size s /\ s_size s <> 0%nat.
Proof. exact B1_volumes_genuine. Qed.
Print Assumptions C13_par1_volume_usable_genuine.

Theorem C13_par1_verify_counts_truthful : forall md5 ix alldata fs c ok st,
  par1_verify md5 ix alldata (io_init fs []) = (Ok (c, ok), st) ->
  exists s, p1_load md5 ix (io_init fs []) = (Ok s, st) /\ c = file_counts s /\
    fc_usable c = length (filter (file_usable md5 fs ix) (s_saved s)) /\
    fc_unusable c = length (filter (fun e => negb (file_usable md5 fs ix e)) (s_saved s)) /\
    fc_pusable c = length (filter (fun k => match vslot md5 fs ix (v_sethash_stored (s_vol s)) k with Some _ => true | None => false end)
                                  (seq 1 (N.to_nat (N.min (256 - N.of_nat (length (s_saved s))) 99)))).
Proof. exact par1_verify_counts_truthful. Qed.
Print Assumptions C13_par1_verify_counts_truthful.

Theorem C13_par1_volume_unusable_genuine : forall md5 ix fs s st1 k,
  p1_load md5 ix (io_init fs []) = (Ok s, st1) -> nth_error (s_parity s) k = Some None ->
  fs_lookup fs (volume_path ix (N.of_nat (S k))) = None \/
  exists b, fs_lookup fs (volume_path ix (N.of_nat (S k))) = Some b /\
    match read_volume md5 b with
    | Ok v => v_sethash_stored v <> v_sethash_stored (s_vol s) \/ v_number v <> N.of_nat (S k)
    | Err _ => True
    | Panic _ => False
    end.
Proof. exact B1_volume_unusable. Qed.
Print Assumptions C13_par1_volume_unusable_genuine.

(* what the slot function is: Some d exactly for a file at the volume path that parses, carries that set hash and the
   number of its file name, with data d *)
Theorem C13_par1_vslot_spec : forall md5 fs ix sh k,
  (forall d, vslot md5 fs ix sh k = Some d ->
     exists b v, fs_lookup fs (volume_path ix (N.of_nat k)) = Some b /\ read_volume md5 b = Ok v /\
       v_sethash_stored v = sh /\ v_number v = N.of_nat k /\ v_data v = d) /\
  (vslot md5 fs ix sh k = None ->
     fs_lookup fs (volume_path ix (N.of_nat k)) = None \/
     exists b, fs_lookup fs (volume_path ix (N.of_nat k)) = Some b /\ not_member md5 sh (N.of_nat k) b).
Proof. exact vslot_spec. Qed.
Print Assumptions C13_par1_vslot_spec.

(* PAR1 Repair writes only hash-verified content and lists what it wrote: the state after is the state before with a list
   of writes applied, each to the path of a saved entry with a bare name, carrying that entry's recorded MD5, 16k-MD5 and
   length; the repaired list is exactly the list of written paths (every archive state) *)
Theorem C13_par1_repair_writes : forall md5 ix dbl fs r rp st',
  Par1.par1_repair md5 ix dbl (io_init fs []) = ((r, rp), st') ->
  (io_fs st' = fs /\ rp = []) \/
  exists s st1 ws,
    Par1.p1_load md5 ix (io_init fs []) = (Ok s, st1) /\
    io_fs st' = apply_writes ws fs /\ rp = map fst ws /\
    Forall (fun w => exists e, In e (Par1.s_saved s) /\ base (Par1.e_name e) = Par1.e_name e /\
                       fst w = join2 (dir ix) (Par1.e_name e) /\
                       md5 (snd w) = Par1.e_hash e /\ Par1.hash16k md5 (snd w) = Par1.e_h16 e /\
                       N.of_nat (length (snd w)) = Par1.e_len e) ws.
Proof. exact Par1Facts.par1_repair_writes. Qed.
Print Assumptions C13_par1_repair_writes.

(* COUNTED SLICES ARE GENUINE AT THE CONTENT LEVEL: in every state and under every fault schedule, the data of a slice
   slot that Verify counts usable IS a zero-padded window, at an offset inside it, of a protected file that is in the file
   system (the first recorded location of the slot says which) - not merely bytes with the registered checksums *)
Theorem C13_usable_slices_are_windows : forall md5 ix fs sched ds st1,
  load_all md5 ix (io_init fs sched) = (Ok ds, st1) ->
  forall i k s, nth k (fi_shards (nth i (ds_fis ds) dfi)) None = Some s ->
  exists c p info data,
    hd_error (si_locs s) = Some (c, p) /\ nth_error (d_rec (ds_dec ds)) c = Some info /\
    fs_lookup fs (file_path ix (di_name info)) = Some data /\
    (p < length data)%nat /\ si_data s = window_at (N.to_nat (d_slice (ds_dec ds))) data p.
Proof. exact usable_slices_are_windows_loc. Qed.
Print Assumptions C13_usable_slices_are_windows.
