(* C07 — the Reed-Solomon coder.  Model: Model/RS16.v (coder.go, cauchy.go,
   vandermonde.go, applyMatrix) over the matrices of C11 and the field of C08.
   Shards are lists of 16-bit words; the Go code works on the little-endian
   bytes of the same words through the kernels of C09. *)
From Gopar Require Import Proofs.RS16Singular.
From Gopar Require Import Model.Base Model.GF16 Model.Matrix Model.RS16
     Proofs.LinAlg Proofs.Matrix16 Proofs.RS16Facts Proofs.LinAlgSingular Proofs.CauchyMDS.
Open Scope N_scope.

(* For ANY well-formed parity matrix (hence both coders), any data, any erasure
   masks for data and parity: the result is either the original data (so every
   restored shard is bit-exact and every supplied shard is returned unchanged),
   or the not-enough-parity error, or the singular error; never a panic, and
   never success with different data. *)
Theorem C07_sound : forall c D kd kp L,
  (0 < c_data c)%nat -> wfm16 (c_parity c) (c_data c) (c_pm c) -> wfm16 (c_data c) L D ->
  length kd = c_data c -> length kp = c_parity c ->
  match reconstruct c (erase kd D) (erase kp (gen_parity c D)) with
  | Ok r => r = D
  | Err e => e = ENotEnoughParity \/ e = ESingular
  | Panic _ => False
  end.
Proof. exact reconstruct_spec. Qed.
Print Assumptions C07_sound.

(* the dedicated error exactly when fewer parity shards are available than data shards are missing *)
Theorem C07_not_enough : forall c data parity,
  length data = c_data c -> (0 < count_none data)%nat ->
  (reconstruct c data parity = Err ENotEnoughParity <-> (length (somes parity) < count_none data)%nat).
Proof. exact reconstruct_not_enough. Qed.
Print Assumptions C07_not_enough.

Theorem C07_nothing_missing : forall c data parity,
  count_none data = 0%nat -> reconstruct c data parity = Ok (somes data).
Proof. exact reconstruct_nothing_missing. Qed.
Print Assumptions C07_nothing_missing.

(* the premises of C07_sound are met by both constructors within the documented limits *)
Theorem C07_vandermonde_wf : forall d p, N.of_nat d <= 32768 -> N.of_nat p <= 65535 ->
  wfm16 p d (vandermonde_pm d p).
Proof. exact vandermonde_pm_wf. Qed.
Print Assumptions C07_vandermonde_wf.

Theorem C07_cauchy_wf : forall d p, N.of_nat (d + p) <= 65535 -> wfm16 p d (cauchy_pm d p).
Proof. exact cauchy_pm_wf. Qed.
Print Assumptions C07_cauchy_wf.


(* CAUCHY MDS: every square submatrix of the Cauchy parity matrix (any distinct rows, any distinct
   columns, every size, every code with d + p <= 65535) is non-singular *)
Theorem C07_cauchy_mds : forall d p rows cols,
  (d + p <= 65535)%nat -> NoDup rows -> NoDup cols -> length rows = length cols ->
  (forall r, In r rows -> (r < p)%nat) -> (forall c, In c cols -> (c < d)%nat) ->
  forall v, wfv16 (length cols) v ->
  mvec16 (minor (cauchy_pm d p) rows cols) v = zeros (length rows) -> v = zeros (length cols).
Proof. exact cauchy_minor_injective. Qed.
Print Assumptions C07_cauchy_mds.

(* hence the Cauchy coder reconstructs bit-exactly for EVERY erasure pattern within capability:
   any missing data shards, any available parity shards, as soon as there are enough of them *)
Theorem C07_cauchy_succeeds : forall d p D kd kp L,
  (0 < d)%nat -> (0 < p)%nat -> (d + p <= 65535)%nat -> wfm16 d L D -> length kd = d -> length kp = p ->
  (count_false kd <= count_true kp)%nat ->
  let c := {| c_data := d; c_parity := p; c_pm := cauchy_pm d p |} in
  reconstruct c (erase kd D) (erase kp (gen_parity c D)) = Ok D.
Proof. exact cauchy_reconstruct_succeeds. Qed.
Print Assumptions C07_cauchy_succeeds.

(* PAR2-Vandermonde (and any parity matrix): the singular error is returned exactly when the system
   to be solved has a non-trivial kernel (from C11's iff), otherwise the data is restored *)
Theorem C07_no_false_singular : forall q m n, wfm16 q q m ->
  (forall v, wfv16 q v -> mvec16 m v = zeros q -> v = zeros q) -> forall e, RowReduce16 m n <> Err e.
Proof. exact injective_not_singular. Qed.
Print Assumptions C07_no_false_singular.

(* non-vacuity: a 5+3 Cauchy code, two data shards and one parity shard erased *)
Example C07_example :
  let c := {| c_data := 5; c_parity := 3; c_pm := cauchy_pm 5 3 |} in
  let D := [[1; 2]; [3; 4]; [5; 6]; [7; 8]; [9; 10]] in
  reconstruct c (erase [true; false; true; false; true] D)
                (erase [true; false; true] (gen_parity c D)) = Ok D.
Proof. vm_compute. reflexivity. Qed.

(* THE OUTCOME IS DECIDED BY THE SELECTED MINOR (Proofs/RS16Singular.v): for ANY well-formed parity matrix (the PAR2
   Vandermonde one in particular: par2_reconstruct_dichotomy), any data and any erasure masks, with M_sel the square
   matrix of the LOWEST-NUMBERED available parity rows (as many as data shards are missing) restricted to the columns
   of the missing data shards - exactly what reconstruct row-reduces (reconstruct_system, selected_rows_lowest):
     too few parity shards        -> the not-enough-parity error;
     enough, M_sel singular       -> the singular error (it has a non-trivial kernel vector);
     enough, M_sel non-singular   -> success, and the result is the original data *)
Theorem C07_outcome_by_selected_minor : forall c D kd kp L,
  (0 < c_data c)%nat -> wfm16 (c_parity c) (c_data c) (c_pm c) -> wfm16 (c_data c) L D ->
  length kd = c_data c -> length kp = c_parity c ->
  let res := reconstruct c (erase kd D) (erase kp (gen_parity c D)) in
  let q := count_false kd in
  ((count_true kp < q)%nat -> res = Err ENotEnoughParity) /\
  ((q <= count_true kp)%nat -> singular q (M_sel (c_pm c) kd kp) -> res = Err ESingular) /\
  ((q <= count_true kp)%nat -> nonsingular q (M_sel (c_pm c) kd kp) -> res = Ok D).
Proof. exact reconstruct_outcome. Qed.
Print Assumptions C07_outcome_by_selected_minor.

Theorem C07_singular_iff_selected_minor : forall c D kd kp L,
  wfm16 (c_parity c) (c_data c) (c_pm c) -> wfm16 (c_data c) L D ->
  length kd = c_data c -> length kp = c_parity c -> (count_false kd <= count_true kp)%nat ->
  (reconstruct c (erase kd D) (erase kp (gen_parity c D)) = Err ESingular
   <-> exists x, wfv16 (count_false kd) x /\ x <> zeros (count_false kd)
                 /\ mvec16 (M_sel (c_pm c) kd kp) x = zeros (count_false kd)).
Proof. exact reconstruct_singular_iff. Qed.
Print Assumptions C07_singular_iff_selected_minor.
