(* C09 — bulk multiply kernels equal element-wise field multiplication on every
   path and stay inside their buffers.  Model: Model/Kernels.v. *)
From Gopar Require Import Model.Base Model.GF16 Model.Kernels Model.Ssse3 Model.ScalarAsm Proofs.KernelFacts Proofs.Ssse3Facts Proofs.ScalarAsmFacts Proofs.Ssse3Bounds.
From Coq Require Import List. Import ListNotations.
Open Scope N_scope.

(* every path (portable Go, scalar assembly, dispatch with and without SSSE3),
   multiply and multiply-accumulate, every constant, every even-length buffer:
   the result is c*in[i] (xor out[i]) on little-endian 16-bit words, and no
   out-of-bounds access (which the model reports as Panic) occurs.  The input
   buffer is a value of the model and cannot change; the harness re-reads it. *)
Theorem C09_value : forall p acc c inb outb,
  c < 65536 -> wf_bytes inb -> length inb = length outb -> Nat.even (length inb) = true ->
  (p = ScalarAsm -> (2 <= length inb)%nat) ->     (* the dispatcher never calls the do-while loop on an empty buffer *)
  kernel p acc c inb outb = Ok (kspec acc c inb outb).
Proof. exact kernel_value. Qed.
Print Assumptions C09_value.

(* index arithmetic of the unchecked loops: bytes [0, extent) are touched *)
Theorem C09_footprint_scalar : forall len, N.even len = true -> 2 <= len ->
  asm_extent asm_count len <= len.
Proof. exact asm_extent_ok. Qed.
Print Assumptions C09_footprint_scalar.

Theorem C09_footprint_ssse3 : forall len, 32 <= len -> ssse3_extent len <= len.
Proof. exact ssse3_extent_ok. Qed.
Print Assumptions C09_footprint_ssse3.

Theorem C09_mismatch : forall u acc c inb outb, length inb <> length outb ->
  kern_dispatch u c acc inb outb = Panic PExplicit.
Proof. exact dispatch_mismatch. Qed.
Print Assumptions C09_mismatch.

(* the executable twin used by the correspondence check is the specification *)
Theorem C09_kspec_fast : forall acc c inb outb, c < 65536 ->
  kspec_fast acc c inb outb = kspec acc c inb outb.
Proof. exact kspec_fast_eq. Qed.
Print Assumptions C09_kspec_fast.

(* ---- instruction-level model of the SSSE3 routines (Model/Ssse3.v: the
   PSHUFB/PUNPCK/PSRLW/PAND/PXOR sequences of gf2p16/*_amd64.s executed on a
   16-register machine state; tied to the assembly through the verif hooks,
   which run each routine on the same registers) ---- *)

(* one 32-byte step of mulSSSE3Unsafe is field multiplication of its 16 words *)
Theorem C09_ssse3_mul_is_field_mul : forall c in0 in1,
  c < 65536 -> length in0 = 16%nat -> length in1 = 16%nat -> wf_bytes in0 -> wf_bytes in1 ->
  let '(o0, o1) := mul_std c in0 in1 in
  o0 ++ o1 = le_bytes (map (fmul c) (le_words (in0 ++ in1))).
Proof. exact mul_std_fmul. Qed.
Print Assumptions C09_ssse3_mul_is_field_mul.

(* mulAndAddSSSE3Unsafe xors the product into the previous output words *)
Theorem C09_ssse3_muladd : forall c in0 in1 out0 out1,
  c < 65536 -> length in0 = 16%nat -> length in1 = 16%nat -> wf_bytes in0 -> wf_bytes in1 ->
  length out0 = 16%nat -> length out1 = 16%nat -> wf_bytes out0 -> wf_bytes out1 ->
  let '(o0, o1) := muladd_std c in0 in1 out0 out1 in
  o0 ++ o1 = le_bytes (map2 (fun w o => N.lxor o (word_ssse3 c (w mod 256) (w / 256)))
                            (le_words (in0 ++ in1)) (le_words (out0 ++ out1))).
Proof. exact muladd_std_spec. Qed.
Print Assumptions C09_ssse3_muladd.

(* the standard <-> alternate map byte shuffles are mutually inverse *)
Theorem C09_ssse3_shuffles_inverse : forall in0 in1,
  length in0 = 16%nat -> length in1 = 16%nat -> wf_bytes in0 -> wf_bytes in1 ->
  let '(lo, hi) := std_to_alt in0 in1 in alt_to_std lo hi = (in0, in1).
Proof. exact alt_std_inverse. Qed.
Print Assumptions C09_ssse3_shuffles_inverse.

(* the whole slice loop at instruction level is the SSSE3 kernel of Model/Kernels.v
   (which C09_value proves equal to the specification) *)
Theorem C09_ssse3_loop_refines_kernel : forall c acc inb outb,
  c < 65536 -> wf_bytes inb -> wf_bytes outb ->
  length inb = length outb -> (32 <= length inb)%nat -> lenN inb < two64 ->
  kern_ssse3 c acc inb outb = Ok (ssse3_chunks c acc inb outb).
Proof. exact ssse3_chunks_eq_kern. Qed.
Print Assumptions C09_ssse3_loop_refines_kernel.

Example C09_example :
  kernel (Dispatch true) true 0x1234 (le_bytes [0xFEDC; 7]) (le_bytes [1; 2]) =
    Ok (le_bytes [N.lxor 1 367; N.lxor 2 (fmul 0x1234 7)]).
Proof. vm_compute. reflexivity. Qed.

(* ---- instruction-level model of the SCALAR assembly kernels (Model/ScalarAsm.v: MOVWLZX / MOVBLZX / SHRW /
   XORL / MOVW / INCQ with scaled-index operands on a machine whose every load and store is bounds-checked, the
   loop closed by the signed compare CMPQ R8, CX; regenerated from the assembly on every run, GenLink/ScalarGenLink.v) ---- *)

(* VALUE: the run of the scalar routine is element-wise field multiplication (multiply / multiply-accumulate) *)
Theorem C09_scalar_asm_value : forall c acc inb outb,
  c < 65536 -> wf_bytes inb -> wf_bytes outb -> length inb = length outb ->
  Nat.even (length inb) = true -> (2 <= length inb)%nat -> lenN inb < two63 ->
  scalar_asm c acc inb outb = Some (kspec acc c inb outb).
Proof. exact scalar_asm_value. Qed.
Print Assumptions C09_scalar_asm_value.

(* MEMORY SAFETY: the run never faults - no load or store of the whole execution leaves its buffer - and the
   table and the input buffer are unchanged at the end *)
Theorem C09_scalar_asm_in_bounds : forall c acc inb outb,
  c < 65536 -> wf_bytes inb -> wf_bytes outb -> length inb = length outb ->
  Nat.even (length inb) = true -> (2 <= length inb)%nat -> lenN inb < two63 ->
  exists st, scalar_asm_run c acc inb outb = SOk st /\
             nth 0 (ss_m st) [] = table1024 c /\ nth 1 (ss_m st) [] = inb /\
             length (ss_m st) = 3%nat /\
             scalar_asm c acc inb outb = Some (nth 2 (ss_m st) []).
Proof. exact scalar_asm_input_unchanged. Qed.
Print Assumptions C09_scalar_asm_in_bounds.

(* the do-while shape: on empty buffers the body runs once and its first load is out of bounds; the dispatcher
   never calls the routine on an empty slice (C09_value's premise for the ScalarAsm path) *)
Theorem C09_scalar_asm_empty_faults : forall c acc, scalar_asm c acc [] [] = None.
Proof. exact scalar_asm_empty_faults. Qed.
Print Assumptions C09_scalar_asm_empty_faults.

(* MEMORY SAFETY OF THE SSSE3 ROUTINES, at instruction level, on an INSTRUMENTED interpreter of the same machine
   (Proofs/Ssse3Bounds.v: [step_ok] is false for a MOVOU whose 16 bytes are not inside the buffer its pointer
   refers to, for a MOVOU through an integer, and for integer operations on a pointer).  Under exactly what the
   Go callers establish (len(out) = len(in) >= 32): no access of the prologue or of any loop iteration leaves
   its buffer, every store goes to the output buffer (index 2), the table and the input are unchanged, and the
   run is the one Model/Ssse3.v's [ssse3_chunks] performs. *)
Theorem C09_ssse3_run_in_bounds : forall (c : N) (acc : bool) (inb outb : bytes),
  length inb = length outb -> (32 <= length inb)%nat -> lenN inb < Ssse3.two64 ->
  let st0 := Ssse3.init_state [Ssse3.GPtr 0 0; Ssse3.GPtr 1 0; Ssse3.GInt (lenN inb); Ssse3.GInt (lenN inb);
                         Ssse3.GPtr 2 0; Ssse3.GInt (lenN outb); Ssse3.GInt (lenN outb)]
                        [table64 c; inb; outb] in
  let pre := if acc then mulAndAddSliceSSSE3Unsafe_pre else mulSliceSSSE3Unsafe_pre in
  let body := if acc then mulAndAddSliceSSSE3Unsafe_body else mulSliceSSSE3Unsafe_body in
  let st1 := Ssse3.run pre st0 in
  let fuel := match Ssse3.getg st1 Ssse3.AX with
              | Ssse3.GInt n => N.to_nat (dowhile_iters n)
              | Ssse3.GPtr _ _ => O
              end in
  let st2 := Ssse3.run_loop fuel Ssse3.AX body st1 in
  run_ok pre st0 = true /\ run_loop_ok fuel Ssse3.AX body st1 = true /\
  writes_only 2 pre st0 = true /\ loop_writes_only 2 fuel Ssse3.AX body st1 = true /\
  Ssse3.membuf st2 0 = table64 c /\ Ssse3.membuf st2 1 = inb /\ Ssse3.membuf st2 2 = ssse3_chunks c acc inb outb /\
  length (ssse3_chunks c acc inb outb) = length outb.
Proof. exact ssse3_chunks_run_in_bounds. Qed.
Print Assumptions C09_ssse3_run_in_bounds.

(* ... and the bound is EXACT: for any buffer lengths and length argument li (>= 32), the instrumented run is
   fault-free IF AND ONLY IF both buffers hold the 32*(li/32) bytes the loop touches - so the instrumented
   semantics can fail, and fails exactly when an access would leave a buffer *)
Theorem C09_ssse3_bounds_exact : forall acc tb inb outb li lo fuel,
  (128 <= length tb)%nat -> 1 <= li / 32 -> li < Ssse3.two64 -> (N.to_nat (li / 32) <= fuel)%nat ->
  let st0 := slice_state tb inb outb li lo in
  run_ok (slice_pre acc) st0 && run_loop_ok fuel Ssse3.AX (slice_body acc) (Ssse3.run (slice_pre acc) st0) = true <->
  (32 * (li / 32) <= lenN inb /\ 32 * (li / 32) <= lenN outb).
Proof. exact sliceSSSE3Unsafe_exact. Qed.
Print Assumptions C09_ssse3_bounds_exact.

(* the 16-byte routines (byte-order maps, one multiplication step): every access inside 16-byte buffers / the
   128-byte table entry, stores only to the two output buffers; one byte less anywhere => a fault *)
Theorem C09_ssse3_step_routines_in_bounds :
  bounds4 standardToAltMapSSSE3Unsafe /\ bounds4 altToStandardMapSSSE3Unsafe /\
  bounds5 mulAltMapSSSE3Unsafe /\ bounds5 mulSSSE3Unsafe /\ bounds5 mulAndAddSSSE3Unsafe.
Proof.
  exact (conj standardToAltMapSSSE3Unsafe_bounds (conj altToStandardMapSSSE3Unsafe_bounds
        (conj mulAltMapSSSE3Unsafe_bounds (conj mulSSSE3Unsafe_bounds mulAndAddSSSE3Unsafe_bounds)))).
Qed.
Print Assumptions C09_ssse3_step_routines_in_bounds.
