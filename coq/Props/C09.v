(* C09 — bulk multiply kernels equal element-wise field multiplication on every
   path and stay inside their buffers.  Model: Model/Kernels.v. *)
From Gopar Require Import Model.Base Model.GF16 Model.Kernels Proofs.KernelFacts.
Open Scope N_scope.

(* every path (portable Go, scalar assembly, dispatch with and without SSSE3),
   multiply and multiply-accumulate, every constant, every even-length buffer:
   the result is c*in[i] (xor out[i]) on little-endian 16-bit words, and no
   out-of-bounds access (which the model reports as Panic) occurs.  The input
   buffer is a value of the model and cannot change; the harness re-reads it. *)
Theorem C09_value : forall p acc c inb outb,
  c < 65536 -> wf_bytes inb -> length inb = length outb -> Nat.even (length inb) = true ->
  (p = ScalarAsm -> (2 <= length inb)%nat) ->     (* the dispatcher never calls the do-while loop on an empty buffer *)
  kernel p acc c inb outb = Ok (kspec acc c inb outb).
Proof. exact kernel_value. Qed.
Print Assumptions C09_value.

(* index arithmetic of the unchecked loops: bytes [0, extent) are touched *)
Theorem C09_footprint_scalar : forall len, N.even len = true -> 2 <= len ->
  asm_extent asm_count len <= len.
Proof. exact asm_extent_ok. Qed.
Print Assumptions C09_footprint_scalar.

Theorem C09_footprint_ssse3 : forall len, 32 <= len -> ssse3_extent len <= len.
Proof. exact ssse3_extent_ok. Qed.
Print Assumptions C09_footprint_ssse3.

Theorem C09_mismatch : forall u acc c inb outb, length inb <> length outb ->
  kern_dispatch u c acc inb outb = Panic PExplicit.
Proof. exact dispatch_mismatch. Qed.
Print Assumptions C09_mismatch.

(* the executable twin used by the correspondence check is the specification *)
Theorem C09_kspec_fast : forall acc c inb outb, c < 65536 ->
  kspec_fast acc c inb outb = kspec acc c inb outb.
Proof. exact kspec_fast_eq. Qed.
Print Assumptions C09_kspec_fast.

Example C09_example :
  kernel (Dispatch true) true 0x1234 (le_bytes [0xFEDC; 7]) (le_bytes [1; 2]) =
    Ok (le_bytes [N.lxor 1 367; N.lxor 2 (fmul 0x1234 7)]).
Proof. vm_compute. reflexivity. Qed.
