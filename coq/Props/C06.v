(* C06 — gopar reads any conformant PAR2 set, however it is laid out.
   Model: read_file, read_file_vol (par2/file.go readFile, on the index file and on a recovery file),
   new_decoder, load_parity, parity_array in Model/Par2.v;
   the directory listing of Model/FS.v (literal prefix and suffix, entries of one directory). *)
From Gopar Require Import Proofs.Par1Clean Proofs.Par2Reader2 Proofs.Par2Ignore Proofs.Par2LayoutOps Proofs.Par2Targets Proofs.Par2SpecReader.
From Gopar Require Import Model.Base Model.CRC Model.GoPath Model.FS Model.Par2
     Proofs.Par2Facts Proofs.Par2Verify Proofs.Par2Create Proofs.Par2Layout.
Open Scope N_scope.

(* the byte-level packet loop on a file made of well-formed packets is the fold of the per-packet
   step over the packets of the expected set: packets of other sets are skipped wherever they stand *)
Theorem C06_packet_loop : forall md5, (forall x, length (md5 x) = 16%nat) -> forall sid l, Forall wf_pkt l ->
  read_file md5 (Some sid) (frames md5 l) =
    match fold_left (fun (st : option (pfile * bool)) p =>
             match st with
             | None => None
             | Some (f, found) => if bytes_eqb (pk_set p) sid
                                  then match step_packet md5 f p with Some f' => Some (f', true) | None => None end
                                  else Some (f, found)
             end) l (Some (pf_empty, false)) with
    | None => RFErr
    | Some (f, false) => RFNoPackets
    | Some (f, true) => match pf_client f with Some _ => RFOk sid f | None => RFErr end
    end.
Proof. exact read_file_frames. Qed.
Print Assumptions C06_packet_loop.

(* the same for the loop as LoadParityData runs it on a recovery file (read_file_vol): it starts from pf_vol0,
   the state in which the creator packet counts as seen, so a recovery file needs none *)
Theorem C06_packet_loop_vol : forall md5, (forall x, length (md5 x) = 16%nat) -> forall sid l, Forall wf_pkt l ->
  read_file_vol md5 sid (frames md5 l) =
    match fold_left (fun (st : option (pfile * bool)) p =>
             match st with
             | None => None
             | Some (f, found) => if bytes_eqb (pk_set p) sid
                                  then match step_packet md5 f p with Some f' => Some (f', true) | None => None end
                                  else Some (f, found)
             end) l (Some (pf_vol0, false)) with
    | None => RFErr
    | Some (f, false) => RFNoPackets
    | Some (f, true) => match pf_client f with Some _ => RFOk sid f | None => RFErr end
    end.
Proof. exact read_file_frames_vol. Qed.
Print Assumptions C06_packet_loop_vol.

(* ORDER AND DUPLICATION DO NOT MATTER: two recovery files made of the same SET of well-formed
   packets - any order, any multiplicities, any interleaved packets of other recovery sets or of
   unknown types - in which own-set packets describing the same thing are identical, load to
   observationally equivalent states: same main packet, same file descriptions and checksum lists
   per file id, same recovery block per exponent *)
Theorem C06_layout_invariant : forall md5, (forall x, length (md5 x) = 16%nat) -> forall sid l1 l2 f1,
  Forall wf_pkt l1 -> Forall wf_pkt l2 -> (forall p, In p l1 <-> In p l2) -> consistent sid l1 ->
  read_file md5 (Some sid) (frames md5 l1) = RFOk sid f1 ->
  exists f2, read_file md5 (Some sid) (frames md5 l2) = RFOk sid f2 /\ pf_equiv f1 f2.
Proof. exact layout_invariant. Qed.
Print Assumptions C06_layout_invariant.

(* the same for what LoadParityData calls on a recovery file (read_file_vol: no creator packet required) *)
Theorem C06_layout_invariant_vol : forall md5, (forall x, length (md5 x) = 16%nat) -> forall sid l1 l2 f1,
  Forall wf_pkt l1 -> Forall wf_pkt l2 -> (forall p, In p l1 <-> In p l2) -> consistent sid l1 ->
  read_file_vol md5 sid (frames md5 l1) = RFOk sid f1 ->
  exists f2, read_file_vol md5 sid (frames md5 l2) = RFOk sid f2 /\ pf_equiv f1 f2.
Proof. exact layout_invariant_vol. Qed.
Print Assumptions C06_layout_invariant_vol.

(* the same for the index file, whose first packet (of its own set) fixes the set id *)
Theorem C06_layout_invariant_index : forall md5, (forall x, length (md5 x) = 16%nat) -> forall sid l1 l2 p1 p2 f1,
  Forall wf_pkt (p1 :: l1) -> Forall wf_pkt (p2 :: l2) -> pk_set p1 = sid -> pk_set p2 = sid ->
  (forall p, In p (p1 :: l1) <-> In p (p2 :: l2)) -> consistent sid (p1 :: l1) ->
  read_file md5 None (frames md5 (p1 :: l1)) = RFOk sid f1 ->
  exists f2, read_file md5 None (frames md5 (p2 :: l2)) = RFOk sid f2 /\ pf_equiv f1 f2.
Proof. exact layout_invariant_index. Qed.
Print Assumptions C06_layout_invariant_index.

(* however the recovery packets are numbered and distributed over files, the usable-block count is
   the number of distinct exponents loaded: every intact block is found, none is counted twice *)
Theorem C06_blocks_distinct : forall (acc : list (N * bytes)),
  count_some (parity_array acc) = length (nodup N.eq_dec (map fst acc)).
Proof. exact parity_count_distinct. Qed.
Print Assumptions C06_blocks_distinct.

(* volume discovery is literal and confined to ONE directory: a path is listed iff it has the prefix and the suffix,
   without overlap, and no separator after the prefix (a file of the directory of the prefix, not of a sub-directory) *)
Theorem C06_discovery : forall pre suf fs sched,
  fst (io_list pre suf (io_init fs sched)) =
  match sched_lookup sched 0 with
  | Some _ => Err EIO
  | None => Ok (sort_paths (filter (fun q => Nat.leb (length pre + length suf) (length q) && starts_with q pre && ends_with q suf
                                             && no_slash (skipn (length pre) q))
                                   (map fst fs)))
  end.
Proof. intros. unfold io_list, io_init. cbn [io_sched io_n io_fs]. destruct (sched_lookup sched 0); reflexivity. Qed.
Print Assumptions C06_discovery.

(* member by member, fault-free: a path is listed iff it is a file of the map of the form <pre><mid><suf> with no
   separator in <mid><suf> - a file of the very directory the prefix points into; a file below a sub-directory
   <pre>x/ is not listed (Par2LayoutOps.LOExample.deeper_file_not_listed, Par2Targets.TGExample.tg_listing_subdirectory) *)
Theorem C06_discovery_members : forall pre suf fs paths st',
  io_list pre suf (io_init fs []) = (Ok paths, st') ->
  forall q, In q paths <-> In q (map fst fs) /\ exists mid, q = pre ++ mid ++ suf /\ ~ In SLASH (mid ++ suf).
Proof. exact io_list_members. Qed.
Print Assumptions C06_discovery_members.

(* HOWEVER THE RECOVERY BLOCKS ARE DISTRIBUTED OVER FILES (Proofs/Par2Reader2.v): two directory layouts whose recovery
   files are well-formed packet sequences containing, IN TOTAL, the same set of packets - however many files, however
   named, in whatever order, with whatever duplication and interleaved foreign-set packets - load to the same
   recovery-block table; blocks_spread_over_files gives the table itself: slot e holds the block of exponent e iff
   some file contains a recovery packet for e *)
Theorem C06_blocks_distribution_invariant : forall md5, (forall x, length (md5 x) = 16%nat) ->
  forall d paths1 ls1 st1 paths2 ls2 st2,
  io_sched st1 = [] -> io_sched st2 = [] ->
  Forall2 (fun p l => read_res (io_fs st1) p = Ok (frames md5 l)) paths1 ls1 ->
  Forall2 (fun p l => read_res (io_fs st2) p = Ok (frames md5 l)) paths2 ls2 ->
  (forall q, In q (concat ls1) <-> In q (concat ls2)) ->
  (forall q, In q (concat ls1) -> pkt_ok md5 d q) ->
  recv_agree (d_setid d) (concat ls1) ->
  exists acc1 st1' acc2 st2',
    load_parity md5 d paths1 [] st1 = (Ok acc1, st1') /\
    load_parity md5 d paths2 [] st2 = (Ok acc2, st2') /\
    parity_array acc1 = parity_array acc2.
Proof. exact blocks_distribution_invariant. Qed.
Print Assumptions C06_blocks_distribution_invariant.

(* LIFTED TO THE OPERATIONS.  [same_packet_layouts md5 ix d fs1 ls1 fs2 ls2] (Proofs/Par2LayoutOps.v): two directory
   states whose index yields the same decoder d, with the same contents at the protected paths, whose recovery
   files - ANY names accepted by the discovery pattern, any number, any distribution, any order, duplicates,
   packets of other sets freely different - are frames of well-formed packets containing in total the same
   packets of the set, without two different blocks for one exponent.  Then Verify returns the same counts and
   verdict, and Repair the same outcome, the same list of repaired paths and the same content at every path the
   two states agreed on (in particular every protected path). *)
Theorem C06_verify_layout_invariant : forall md5, (forall x, length (md5 x) = 16%nat) ->
  forall ix d fs1 ls1 fs2 ls2, same_packet_layouts md5 ix d fs1 ls1 fs2 ls2 ->
  fst (par2_verify md5 ix (io_init fs1 [])) = fst (par2_verify md5 ix (io_init fs2 [])).
Proof. exact verify_layout_invariant. Qed.
Print Assumptions C06_verify_layout_invariant.

Theorem C06_repair_layout_invariant : forall md5, (forall x, length (md5 x) = 16%nat) ->
  forall ix d fs1 ls1 fs2 ls2 dbl, same_packet_layouts md5 ix d fs1 ls1 fs2 ls2 ->
  let r1 := par2_repair md5 ix dbl (io_init fs1 []) in
  let r2 := par2_repair md5 ix dbl (io_init fs2 []) in
  fst r1 = fst r2 /\
  (forall q, read_res fs1 q = read_res fs2 q -> read_res (io_fs (snd r1)) q = read_res (io_fs (snd r2)) q).
Proof. exact repair_layout_invariant. Qed.
Print Assumptions C06_repair_layout_invariant.

(* the index file may be permuted / carry duplicated packets too: same decoder *)
Theorem C06_permuted_index_same_decoder : forall md5, (forall x, length (md5 x) = 16%nat) ->
  forall ix fs1 fs2 sid p1 l1 p2 l2,
  Forall wf_pkt (p1 :: l1) -> Forall wf_pkt (p2 :: l2) -> pk_set p1 = sid -> pk_set p2 = sid ->
  (forall p, In p (p1 :: l1) <-> In p (p2 :: l2)) -> consistent sid (p1 :: l1) ->
  read_res fs1 ix = Ok (frames md5 (p1 :: l1)) -> read_res fs2 ix = Ok (frames md5 (p2 :: l2)) ->
  fst (new_decoder md5 ix (io_init fs1 [])) = fst (new_decoder md5 ix (io_init fs2 [])).
Proof. exact permuted_index_same_decoder. Qed.
Print Assumptions C06_permuted_index_same_decoder.

(* "EVERY INTACT RECOVERY BLOCK STORED BESIDE THE INDEX FILE IS FOUND AND USED": for a recovery file at ANY path the
   discovery pattern accepts (paths are byte strings: spaces, glob metacharacters; the pattern accepts the files of
   the index file's own directory, not those of a sub-directory),
   holding a well-formed recovery packet of the set with exponent e, the loaded table has that block at e and the
   usable-block count is the number of distinct exponents present. *)
Theorem C06_intact_block_found_and_used : forall md5, (forall x, length (md5 x) = 16%nat) ->
  forall ix fs d fis t (content : list N -> list apkt) p q e dd,
  fst (load_front md5 ix (io_init fs [])) = Ok (d, fis, t) ->
  (forall p', In p' (rec_listing ix fs) -> read_res fs p' = Ok (frames md5 (content p'))) ->
  (forall p' q', In p' (rec_listing ix fs) -> In q' (content p') -> pkt_ok md5 d q') ->
  recv_agree (d_setid d) (concat (map content (rec_listing ix fs))) ->
  In p (map fst fs) -> rec_pattern ix p = true ->
  In q (content p) -> pk_set q = d_setid d -> is_recv e dd q ->
  exists ds st',
    load_all md5 ix (io_init fs []) = (Ok ds, st') /\ ds_dec ds = d /\ ds_fis ds = fis /\
    nth (N.to_nat e) (ds_parity ds) None = Some dd /\
    (1 <= c_pusable (shard_counts ds))%nat /\
    (forall es, NoDup es ->
       (forall e', In e' es <-> exists dd', has_block (d_setid d) (map content (rec_listing ix fs)) e' dd') ->
       c_pusable (shard_counts ds) = length es).
Proof. exact intact_block_found_and_used. Qed.
Print Assumptions C06_intact_block_found_and_used.

(* ACCEPTANCE: what the specification accepts, gopar's reader accepts, with the same fields (Proofs/Par2SpecReader.v) - the
   reader-side counterpart of C05's writer theorem.  [s_index] / [s_volume] are specification-side predicates on BYTES built on
   Model/Par2Spec.s_parse: back-to-back well-formed packets in ANY order, duplicates, packets of other sets and of unknown types;
   main / file description / IFSC / recovery bodies laid out as the PAR 2.0 text says; slice size a non-zero multiple of 4; ids
   ascending; file id = MD5(16k-hash, length, name); set id = MD5(main body); a description and a checksum list of the right
   length for every id.  [g_index_extra] / [g_volume_extra] are EXACTLY what gopar's reader requires beyond that (each with a
   proved counterexample in Par2SpecReader: first packet of the index of its own set; no recovery packet and a creator packet in
   the index; slice size <= 2^40; non-empty files; names passing checkFilename; exponents <= 65535).  Then the decoder has the
   specification's set id, slice size and, in main-packet order, every file's name, length, hashes and checksum list; a volume's
   recovery blocks are exactly the specification's; and a whole directory - index plus any files the listing picks up, all
   specification-valid - loads to exactly the specification's block table. *)
Theorem C06_spec_index_accepted : forall md5, (forall x, length (md5 x) = 16%nat) ->
  forall ix fs b sid si,
  wf_bytes b -> fs_lookup fs ix = Some b -> s_index md5 sid b = Some si -> g_index_extra md5 sid b = true ->
  exists d st, new_decoder md5 ix (io_init fs []) = (Ok d, st) /\
    d_index d = ix /\ d_setid d = sid /\ d_slice d = si_slice si /\
    d_rec d = map dinfo_of (si_rec si) /\ d_nonrec d = map dinfo_of (si_nonrec si).
Proof. exact spec_index_accepted. Qed.
Print Assumptions C06_spec_index_accepted.

Theorem C06_spec_volume_accepted : forall md5, (forall x, length (md5 x) = 16%nat) ->
  forall b sid rs,
  wf_bytes b -> s_volume md5 sid b = Some rs -> g_volume_extra md5 sid b = true ->
  (has_own md5 sid b = true ->
     exists f, read_file_vol md5 sid b = RFOk sid f /\
               (forall e d, In (e, d) (pf_recv f) <-> In (e, d) rs) /\
               (forall e d, assoc_n (pf_recv f) e = Some d <-> In (e, d) rs)) /\
  (has_own md5 sid b = false -> read_file_vol md5 sid b = RFNoPackets).
Proof. exact spec_volume_accepted. Qed.
Print Assumptions C06_spec_volume_accepted.

Theorem C06_spec_set_loaded : forall md5, (forall x, length (md5 x) = 16%nat) ->
  forall ix fs bix sid si,
  str_eqb (ext ix) EXT_PAR2 = true -> fs_lookup fs ix = Some bix -> wf_bytes bix ->
  s_index md5 sid bix = Some si -> g_index_extra md5 sid bix = true ->
  (forall p b, In p (rec_listing ix fs) -> fs_lookup fs p = Some b ->
     wf_bytes b /\ s_volume_of md5 sid si b = true /\ g_volume_extra md5 sid b = true) ->
  (forall p1 b1 p2 b2 e d1 d2, In p1 (rec_listing ix fs) -> fs_lookup fs p1 = Some b1 ->
     In p2 (rec_listing ix fs) -> fs_lookup fs p2 = Some b2 ->
     In (e, d1) (s_blocks md5 sid b1) -> In (e, d2) (s_blocks md5 sid b2) -> d1 = d2) ->
  (forall x, In x (si_rec si) -> fs_lookup fs (file_path ix (sfl_name x)) = None -> is_dir fs (file_path ix (sfl_name x)) = false) ->
  exists ds st',
    load_all md5 ix (io_init fs []) = (Ok ds, st') /\
    d_index (ds_dec ds) = ix /\ d_setid (ds_dec ds) = sid /\ d_slice (ds_dec ds) = si_slice si /\
    d_rec (ds_dec ds) = map dinfo_of (si_rec si) /\ d_nonrec (ds_dec ds) = map dinfo_of (si_nonrec si) /\
    (forall e dd, nth (N.to_nat e) (ds_parity ds) None = Some dd <->
                  exists p b, In p (rec_listing ix fs) /\ fs_lookup fs p = Some b /\ In (e, dd) (s_blocks md5 sid b)) /\
    (forall e, nth (N.to_nat e) (ds_parity ds) None = None <->
               ~ exists dd p b, In p (rec_listing ix fs) /\ fs_lookup fs p = Some b /\ In (e, dd) (s_blocks md5 sid b)).
Proof. exact spec_set_loaded. Qed.
Print Assumptions C06_spec_set_loaded.
