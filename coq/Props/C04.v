(* C04 — PAR1 create / verify / repair round trip.
   Model: Model/GF8.v (GF(2^8) mod 0x11D; klauspost/reedsolomon with WithPAR1Matrix: Encode, Reconstruct,
   Verify) and Model/Par1.v (Create, the decoder, Verify, Repair) over Model/FS.v. *)
From Gopar Require Import Model.Base Model.Matrix Model.RS16 Model.GF8 Model.CRC Model.GoPath Model.FS Model.Par1
     Proofs.LinAlg Proofs.GoPathFacts Proofs.Par2Facts Proofs.GF8Facts Proofs.Par1Facts Proofs.Par1Clean Proofs.Par1RoundTrip Proofs.Par1Volumes Proofs.Par1RoundTrip2 Proofs.Par1RoundTrip3 Proofs.Par1RoundTrip4.
Open Scope N_scope.

(* Reconstruct, for EVERY file count, volume count, content and EVERY subset of surviving data files and
   parity volumes: success returns exactly the original data (and parity); the only failures are
   too-few-shards and the singular combination inherent to the PAR1 matrix; never a panic *)
Theorem C04_reconstruct_exact : forall d p D L keep,
  (0 < d)%nat -> (0 < p)%nat -> (d + p <= 256)%nat -> wfm8 d L D -> (0 < L)%nat -> length keep = (d + p)%nat ->
  let all := D ++ par1_encode d p D in
  match par1_reconstruct d p (erase keep all) with
  | Ok full => full = all
  | Err e => e = ENotEnoughParity \/ e = ESingular
  | Panic _ => False
  end.
Proof. exact par1_reconstruct_sound. Qed.
Print Assumptions C04_reconstruct_exact.

(* too few shards exactly when fewer than d of the d+p files survive *)
Theorem C04_too_few : forall d p (shards : list (option bytes)), length shards = (d + p)%nat ->
  (par1_reconstruct d p shards = Err ENotEnoughParity <-> (count_present shards < d)%nat).
Proof. exact par1_reconstruct_too_few. Qed.
Print Assumptions C04_too_few.

(* Verify: for every state, when no data file is counted unusable every saved file is present with its
   recorded MD5 and 16k-MD5; Verify modifies nothing and writes nothing *)
Theorem C04_clean_means_intact : forall md5 ix all fs c ok st,
  par1_verify md5 ix all (io_init fs []) = (Ok (c, ok), st) -> fc_unusable c = 0%nat ->
  exists s st1, p1_load md5 ix (io_init fs []) = (Ok s, st1) /\
    Forall (fun e => exists data, fs_lookup fs (join2 (dir ix) (e_name e)) = Some data /\
                      md5 data = e_hash e /\ Par1.hash16k md5 data = e_h16 e) (s_saved s).
Proof. exact par1_verify_clean_intact. Qed.
Print Assumptions C04_clean_means_intact.

Theorem C04_verify_pure : forall md5 ix all st, io_fs (snd (par1_verify md5 ix all st)) = io_fs st.
Proof. exact par1_verify_pure. Qed.
Print Assumptions C04_verify_pure.

(* Repair writes only data of the entry's length matching both of its hashes, to Dir(index)/name, and lists exactly those *)
Theorem C04_repair_writes : forall md5 ix dbl fs r rp st',
  par1_repair md5 ix dbl (io_init fs []) = ((r, rp), st') ->
  (io_fs st' = fs /\ rp = []) \/
  exists s st1 ws,
    p1_load md5 ix (io_init fs []) = (Ok s, st1) /\
    io_fs st' = apply_writes ws fs /\ rp = map fst ws /\
    Forall (fun w => exists e, In e (s_saved s) /\ base (e_name e) = e_name e /\
                       fst w = join2 (dir ix) (e_name e) /\
                       md5 (snd w) = e_hash e /\ Par1.hash16k md5 (snd w) = e_h16 e /\
                       N.of_nat (length (snd w)) = e_len e) ws.
Proof. exact par1_repair_writes. Qed.
Print Assumptions C04_repair_writes.

(* non-vacuity: 3 files, 2 volumes, files 0 and 2 and volume... lost: two losses, two volumes *)
Example C04_example :
  let D := [[1; 2; 3]; [4; 5; 6]; [7; 8; 9]] in
  par1_reconstruct 3 2 (erase [false; true; false; true; true] (D ++ par1_encode 3 2 D)) = Ok (D ++ par1_encode 3 2 D).
Proof. vm_compute. reflexivity. Qed.

(* END TO END over the I/O layer, for EVERY archive state (Proofs/Par1Clean.v).
   COMPLETE: if every saved file is present with both recorded hashes, Verify counts no unusable file *)
Theorem C04_intact_means_clean : forall md5 ix fs s st1,
  p1_load md5 ix (io_init fs []) = (Ok s, st1) ->
  (forall e, In e (s_saved s) -> exists data, fs_lookup fs (join2 (dir ix) (e_name e)) = Some data /\
       md5 data = e_hash e /\ Par1.hash16k md5 data = e_h16 e) ->
  fc_unusable (file_counts s) = 0%nat.
Proof. exact par1_intact_clean. Qed.
Print Assumptions C04_intact_means_clean.

(* NEVER SUCCESS WITH A WRONG FILE: if Repair returns success then afterwards every saved file is present
   with both recorded hashes; files that were accepted are unchanged, files Repair wrote have the recorded
   length (recorded_after, in Proofs/Par1Clean.v) *)
Theorem C04_success_means_restored : forall md5 ix dbl fs rp st' s st1,
  par1_repair md5 ix dbl (io_init fs []) = ((Ok tt, rp), st') ->
  p1_load md5 ix (io_init fs []) = (Ok s, st1) ->
  NoDup (map (fun e => join2 (dir ix) (e_name e)) (s_saved s)) ->
  Forall2 (recorded_after md5 (io_fs st') ix (s_size s)) (s_saved s) (s_data s).
Proof. exact par1_repair_ok_all_recorded_strong. Qed.
Print Assumptions C04_success_means_restored.

(* THE ROUND TRIP, for every input set Create accepts (files beside the index, names that are UTF-8 of
   scalar values):
   Create, then Verify - with and without the full parity check - succeeds, counts every file and every
   (loadable: at most 99) volume usable and none unusable, and the parity check says ok.
   ARBITRARY STALE OR FOREIGN FILES may lie at the volume paths beyond the volumes written (.pNN, nv < NN): garbage,
   or a volume of ANOTHER set (it parses, but carries another set hash than the one of the input files, or another
   number) - they are unusable, not fatal (after the loader fix).  What the premise still excludes there is a
   directory (a read error that is not "does not exist") and a volume of THIS set under its own number (e.g. left
   by an earlier Create of the same files with more volumes: it is a genuine volume and is counted) - both
   inhabited: Par1RoundTrip.par1_directory_at_volume_path_refuted, par1_stale_same_set_volume_loaded.
   That no input is the index or a volume written is no longer a premise: Create returns an error then
   (C02_par1_create_ok_inputs_not_outputs). *)
Theorem C04_create_then_verify_clean : forall md5, (forall x, length (md5 x) = 16%nat) ->
  forall parPath files nvol fs st' all,
  par1_create md5 parPath files nvol (io_init fs []) = (Ok tt, st') ->
  let nv := if (nvol <=? 0)%Z then 3%nat else Z.to_nat nvol in
  Forall (fun f => input_name_ok (base f)) files ->
  Forall (fun f => join2 (dir parPath) (base f) = f) files ->
  (forall f d, In f files -> fs_lookup fs f = Some d -> N.of_nat (length d) < 2^64) ->
  (forall k, (nv < k <= Nat.min (256 - length files) 99)%nat ->
     is_dir fs (volume_path parPath (N.of_nat k)) = false /\
     forall b, fs_lookup fs (volume_path parPath (N.of_nat k)) = Some b ->
       match read_volume md5 b with
       | Ok v => v_sethash_stored v <> md5 (flat_map (fun f => match fs_lookup fs f with Some d => md5 d | None => [] end) files)
                 \/ v_number v <> N.of_nat k
       | Err _ => True
       | Panic _ => False
       end) ->
  exists c st2, par1_verify md5 parPath all (io_init (io_fs st') []) = (Ok (c, all), st2) /\
    fc_unusable c = 0%nat /\ fc_punusable c = 0%nat /\ fc_usable c = length files /\ fc_pusable c = Nat.min nv 99.
Proof. exact par1_create_then_verify_clean. Qed.
Print Assumptions C04_create_then_verify_clean.

(* ... and Create, then lose ANY set of the protected files no larger than the number of (loadable) volumes,
   then Repair: it ALWAYS succeeds, every file is back BYTE FOR BYTE, and exactly the lost files are listed
   (with all volumes kept the system is a genuine Vandermonde system on distinct points: never singular) *)
Theorem C04_create_lose_repair_restores : forall md5, (forall x, length (md5 x) = 16%nat) ->
  forall parPath files nvol fs st' lost dbl r rp st3,
  par1_create md5 parPath files nvol (io_init fs []) = (Ok tt, st') ->
  let nv := if (nvol <=? 0)%Z then 3%nat else Z.to_nat nvol in
  Forall (fun f => input_name_ok (base f)) files ->
  Forall (fun f => join2 (dir parPath) (base f) = f) files ->
  (forall f d, In f files -> fs_lookup fs f = Some d -> N.of_nat (length d) < 2^64 /\ wf_bytes d) ->
  Forall (fun f => f <> parPath /\ forall k, (1 <= k <= nv)%nat -> f <> volume_path parPath (N.of_nat k)) files ->
  (forall k, (nv < k <= Nat.min (256 - length files) 99)%nat ->
     fs_lookup fs (volume_path parPath (N.of_nat k)) = None /\ is_dir fs (volume_path parPath (N.of_nat k)) = false) ->
  incl lost files -> (length lost <= Nat.min nv 99)%nat ->
  (forall f, In f lost -> is_dir (io_fs st') f = false) ->
  par1_repair md5 parPath dbl (io_init (fs_remove lost (io_fs st')) []) = ((r, rp), st3) ->
  r = Ok tt /\
  (forall f d, In f files -> fs_lookup fs f = Some d -> fs_lookup (io_fs st3) f = Some d) /\
  rp = filter (fun f => existsb (str_eqb f) lost) files.
Proof. exact par1_create_lose_repair_ok. Qed.
Print Assumptions C04_create_lose_repair_restores.

(* A DAMAGED PARITY VOLUME IS UNUSABLE, NOT FATAL (after the fix 2ae8c54): a file at a volume path that the
   volume reader rejects (identification, version, truncation, control hash) is treated exactly like a missing
   one - one step of the loader, and the whole loaded state *)
Theorem C04_unparsable_volume_step : forall md5 ix sethash i n' size acc st b st1 x,
  io_read (volume_path ix (N.of_nat (S i))) st = (Ok b, st1) -> read_volume md5 b = Err x ->
  load_vols md5 ix sethash i (S n') size acc st = load_vols md5 ix sethash (S i) n' size (acc ++ [None]) st1.
Proof. exact load_vols_unparsable_is_unusable. Qed.
Print Assumptions C04_unparsable_volume_step.

(* A STALE OR FOREIGN PARITY VOLUME IS UNUSABLE, NOT FATAL: a file at a volume path that PARSES as a PAR 1.0 volume but
   belongs to another set - it carries another set hash than the index (a volume left by an earlier Create, a volume of a
   foreign set) or a volume number that is not the one of its file name - is treated exactly like a missing one: one
   step of the loader; the whole loaded state; what Verify returns; what Repair returns and lists *)
Theorem C04_foreign_volume_step : forall md5 ix sethash i n' size acc st b st1 v,
  io_read (volume_path ix (N.of_nat (S i))) st = (Ok b, st1) -> read_volume md5 b = Ok v ->
  bytes_eqb (v_sethash_stored v) sethash = false \/ v_number v <> N.of_nat (S i) ->
  load_vols md5 ix sethash i (S n') size acc st = load_vols md5 ix sethash (S i) n' size (acc ++ [None]) st1.
Proof. exact load_vols_foreign_is_unusable. Qed.
Print Assumptions C04_foreign_volume_step.

Theorem C04_foreign_volume_ignored : forall md5 ix k fs fs' b vb,
  (forall p, p <> volume_path ix k -> fs_lookup fs' p = fs_lookup fs p /\ is_dir fs' p = is_dir fs p) ->
  fs_lookup fs (volume_path ix k) = None -> is_dir fs (volume_path ix k) = false ->
  fs_lookup fs' (volume_path ix k) = Some b -> read_volume md5 b = Ok vb ->
  (forall bi v, fs_lookup fs ix = Some bi -> read_volume md5 bi = Ok v -> v_sethash_stored vb <> v_sethash_stored v) ->
  (forall bi v e, fs_lookup fs ix = Some bi -> read_volume md5 bi = Ok v -> In e (v_entries v) -> saved e = true ->
     join2 (dir ix) (e_name e) <> volume_path ix k) ->
  fst (p1_load md5 ix (io_init fs' [])) = fst (p1_load md5 ix (io_init fs [])).
Proof. exact p1_load_ignores_foreign_volume. Qed.
Print Assumptions C04_foreign_volume_ignored.

Theorem C04_foreign_volume_ignored_verify : forall md5 ix k all fs fs' b vb,
  (forall p, p <> volume_path ix k -> fs_lookup fs' p = fs_lookup fs p /\ is_dir fs' p = is_dir fs p) ->
  fs_lookup fs (volume_path ix k) = None -> is_dir fs (volume_path ix k) = false ->
  fs_lookup fs' (volume_path ix k) = Some b -> read_volume md5 b = Ok vb ->
  (forall bi v, fs_lookup fs ix = Some bi -> read_volume md5 bi = Ok v -> v_sethash_stored vb <> v_sethash_stored v) ->
  (forall bi v e, fs_lookup fs ix = Some bi -> read_volume md5 bi = Ok v -> In e (v_entries v) -> saved e = true ->
     join2 (dir ix) (e_name e) <> volume_path ix k) ->
  fst (par1_verify md5 ix all (io_init fs' [])) = fst (par1_verify md5 ix all (io_init fs [])).
Proof. exact par1_verify_ignores_foreign_volume. Qed.
Print Assumptions C04_foreign_volume_ignored_verify.

Theorem C04_foreign_volume_ignored_repair : forall md5 ix k dbl fs fs' b vb,
  (forall p, p <> volume_path ix k -> fs_lookup fs' p = fs_lookup fs p /\ is_dir fs' p = is_dir fs p) ->
  fs_lookup fs (volume_path ix k) = None -> is_dir fs (volume_path ix k) = false ->
  fs_lookup fs' (volume_path ix k) = Some b -> read_volume md5 b = Ok vb ->
  (forall bi v, fs_lookup fs ix = Some bi -> read_volume md5 bi = Ok v -> v_sethash_stored vb <> v_sethash_stored v) ->
  (forall bi v e, fs_lookup fs ix = Some bi -> read_volume md5 bi = Ok v -> In e (v_entries v) -> saved e = true ->
     join2 (dir ix) (e_name e) <> volume_path ix k) ->
  fst (par1_repair md5 ix dbl (io_init fs' [])) = fst (par1_repair md5 ix dbl (io_init fs [])).
Proof. exact par1_repair_ignores_foreign_volume. Qed.
Print Assumptions C04_foreign_volume_ignored_repair.

(* ... and a volume whose number field is not the number of its file name *)
Theorem C04_misnumbered_volume_ignored : forall md5 ix k fs fs' b vb,
  (forall p, p <> volume_path ix k -> fs_lookup fs' p = fs_lookup fs p /\ is_dir fs' p = is_dir fs p) ->
  fs_lookup fs (volume_path ix k) = None -> is_dir fs (volume_path ix k) = false ->
  fs_lookup fs' (volume_path ix k) = Some b -> read_volume md5 b = Ok vb -> v_number vb <> k ->
  (forall bi v e, fs_lookup fs ix = Some bi -> read_volume md5 bi = Ok v -> In e (v_entries v) -> saved e = true ->
     join2 (dir ix) (e_name e) <> volume_path ix k) ->
  fst (p1_load md5 ix (io_init fs' [])) = fst (p1_load md5 ix (io_init fs [])).
Proof. exact p1_load_ignores_misnumbered_volume. Qed.
Print Assumptions C04_misnumbered_volume_ignored.

(* the scenario of the finding: Create with 3 volumes over one file, then - the file replaced - Create with 2 volumes
   over two files: the stale a.p03 of the first set parses and carries the other set hash; Verify is clean *)
Example C04_stale_volume_example :
  let fs0 := ex_fs0 ++ [(volume_path ex_ix 3, ex_stale)] in
  let fs' := io_fs (snd (par1_create toy_hash ex_ix ex_files 2%Z (io_init fs0 []))) in
  (exists v, read_volume toy_hash ex_stale = Ok v /\ v_number v = 3 /\
             bytes_eqb (v_sethash_stored v) (input_set_hash toy_hash fs0 ex_files) = false) /\
  fst (par1_create toy_hash ex_ix ex_files 2%Z (io_init fs0 [])) = Ok tt /\
  fs_lookup fs' (volume_path ex_ix 3) = Some ex_stale /\
  fst (par1_verify toy_hash ex_ix true (io_init fs' [])) =
    Ok ({| fc_usable := 2; fc_unusable := 0; fc_pusable := 2; fc_punusable := 0 |}, true).
Proof. exact par1_stale_foreign_volume_ignored. Qed.
Print Assumptions C04_stale_volume_example.

Theorem C04_unparsable_volume_ignored : forall md5 ix k fs fs' b x,
  (forall p, p <> volume_path ix k -> fs_lookup fs' p = fs_lookup fs p /\ is_dir fs' p = is_dir fs p) ->
  fs_lookup fs (volume_path ix k) = None -> is_dir fs (volume_path ix k) = false ->
  fs_lookup fs' (volume_path ix k) = Some b -> read_volume md5 b = Err x ->
  (forall bi v e, fs_lookup fs ix = Some bi -> read_volume md5 bi = Ok v -> In e (v_entries v) -> saved e = true ->
     join2 (dir ix) (e_name e) <> volume_path ix k) ->
  fst (p1_load md5 ix (io_init fs' [])) = fst (p1_load md5 ix (io_init fs [])).
Proof. exact p1_load_ignores_unparsable_volume. Qed.
Print Assumptions C04_unparsable_volume_ignored.

(* THE REPAIR CLAUSE OF THE PROPERTY IN FULL: Create, then lose ANY protected files AND ANY parity volumes such
   that the lost files do not outnumber the volumes that remain loadable; Repair then returns success - every
   file byte for byte, exactly the lost files listed - or the singular-combination error with NOTHING written
   (inhabited: 3 files, volume 3 of 4 lost, all files lost - Example par1_singular_instance); nothing else.
   With more files lost than volumes remain the result is the not-enough error (par1_create_lose_too_many). *)
Theorem C04_create_lose_files_and_volumes : forall md5, (forall x, length (md5 x) = 16%nat) ->
  forall parPath files nvol fs st' lost lostv dbl r rp st3,
  par1_create md5 parPath files nvol (io_init fs []) = (Ok tt, st') ->
  let nv := if (nvol <=? 0)%Z then 3%nat else Z.to_nat nvol in
  Forall (fun f => input_name_ok (base f)) files ->
  Forall (fun f => join2 (dir parPath) (base f) = f) files ->
  (forall f d, In f files -> fs_lookup fs f = Some d -> N.of_nat (length d) < 2^64 /\ wf_bytes d) ->
  Forall (fun f => f <> parPath /\ forall k, (1 <= k <= nv)%nat -> f <> volume_path parPath (N.of_nat k)) files ->
  (forall k, (nv < k <= Nat.min (256 - length files) 99)%nat ->
     fs_lookup fs (volume_path parPath (N.of_nat k)) = None /\ is_dir fs (volume_path parPath (N.of_nat k)) = false) ->
  incl lost files ->
  NoDup lostv -> (forall k, In k lostv -> (1 <= k <= Nat.min nv 99)%nat) ->
  (length lost <= Nat.min nv 99 - length lostv)%nat ->
  let gone := lost ++ map (fun k => volume_path parPath (N.of_nat k)) lostv in
  (forall f, In f gone -> is_dir (io_fs st') f = false) ->
  par1_repair md5 parPath dbl (io_init (fs_remove gone (io_fs st')) []) = ((r, rp), st3) ->
  (r = Ok tt /\
   (forall f d, In f files -> fs_lookup fs f = Some d -> fs_lookup (io_fs st3) f = Some d) /\
   rp = filter (fun f => existsb (str_eqb f) lost) files)
  \/ (r = Err ESingular /\ io_fs st3 = fs_remove gone (io_fs st') /\ rp = []).
Proof. exact par1_create_lose_files_and_volumes. Qed.
Print Assumptions C04_create_lose_files_and_volumes.

(* ... AND WITH DAMAGED VOLUMES: each volume of `lostv` is either gone or holds ARBITRARY bytes that the volume
   reader rejects (garbage, truncated, bit-flipped: the control hash fails); the state before Repair is any fs2
   that otherwise is the created state minus the lost files.  Same conclusion: every file byte for byte, or the
   singular error with nothing written *)
Theorem C04_create_damage_files_and_volumes : forall md5, (forall x, length (md5 x) = 16%nat) ->
  forall parPath files nvol fs st' lost lostv fs2 dbl r rp st3,
  par1_create md5 parPath files nvol (io_init fs []) = (Ok tt, st') ->
  let nv := if (nvol <=? 0)%Z then 3%nat else Z.to_nat nvol in
  Forall (fun f => input_name_ok (base f)) files ->
  Forall (fun f => join2 (dir parPath) (base f) = f) files ->
  (forall f d, In f files -> fs_lookup fs f = Some d -> N.of_nat (length d) < 2^64 /\ wf_bytes d) ->
  Forall (fun f => f <> parPath /\ forall k, (1 <= k <= nv)%nat -> f <> volume_path parPath (N.of_nat k)) files ->
  (forall k, (nv < k <= Nat.min (256 - length files) 99)%nat ->
     fs_lookup fs (volume_path parPath (N.of_nat k)) = None /\ is_dir fs (volume_path parPath (N.of_nat k)) = false) ->
  incl lost files ->
  NoDup lostv -> (forall k, In k lostv -> (1 <= k <= Nat.min nv 99)%nat) ->
  (length lost <= Nat.min nv 99 - length lostv)%nat ->
  (forall f, In f lost -> is_dir (io_fs st') f = false) ->
  (forall p, ~ In p (map (fun k => volume_path parPath (N.of_nat k)) lostv) ->
     fs_lookup fs2 p = fs_lookup (fs_remove lost (io_fs st')) p /\ is_dir fs2 p = is_dir (fs_remove lost (io_fs st')) p) ->
  (forall k, In k lostv ->
     (fs_lookup fs2 (volume_path parPath (N.of_nat k)) = None /\ is_dir fs2 (volume_path parPath (N.of_nat k)) = false) \/
     (exists b x, fs_lookup fs2 (volume_path parPath (N.of_nat k)) = Some b /\ read_volume md5 b = Err x)) ->
  par1_repair md5 parPath dbl (io_init fs2 []) = ((r, rp), st3) ->
  (r = Ok tt /\
   (forall f d, In f files -> fs_lookup fs f = Some d -> fs_lookup (io_fs st3) f = Some d) /\
   rp = filter (fun f => existsb (str_eqb f) lost) files)
  \/ (r = Err ESingular /\ io_fs st3 = fs2 /\ rp = []).
Proof. exact par1_create_damage_files_and_volumes. Qed.
Print Assumptions C04_create_damage_files_and_volumes.

(* DAMAGED data files - ARBITRARY content at the data paths - from Create to Repair (Proofs/Par1RoundTrip4.v): after Create, any
   later state with the index and the kept volumes as written, at each data path the original, nothing, or ANY other bytes, the
   other volume paths removed, unparsable or foreign.  With bad = the data paths not holding their original: bad <= kept volumes =>
   Repair restores every file byte for byte, lists exactly bad, changes nothing else (or the singular error with nothing
   written); more bad than kept volumes => the not-enough error, nothing written; Verify counts unusable = |bad|, usable = the
   rest, usable volumes = kept.  Premise: the local hash premise (content with a file's MD5 and 16k-MD5 is that file) - needed:
   Par1RoundTrip4.par1_damage_any_without_hash_premise_refuted. *)
Theorem C04_create_damage_repair_restores : forall md5, (forall x, length (md5 x) = 16%nat) ->
  forall parPath files nvol fs st' lostv fs2 dbl r rp st3,
  par1_create md5 parPath files nvol (io_init fs []) = (Ok tt, st') ->
  let nv := if (nvol <=? 0)%Z then 3%nat else Z.to_nat nvol in
  let np := Nat.min nv 99 in
  let vp := fun k : nat => volume_path parPath (N.of_nat k) in
  Forall (fun f => input_name_ok (base f)) files ->
  Forall (fun f => join2 (dir parPath) (base f) = f) files ->
  (forall f d, In f files -> fs_lookup fs f = Some d -> N.of_nat (length d) < 2^64 /\ wf_bytes d) ->
  (* the volumes not kept *)
  NoDup lostv -> (forall k, In k lostv -> (1 <= k <= np)%nat) ->
  (* the state before Repair: index and kept volumes as Create wrote them *)
  fs_lookup fs2 parPath = fs_lookup (io_fs st') parPath ->
  (forall k, (1 <= k <= np)%nat -> ~ In k lostv -> fs_lookup fs2 (vp k) = fs_lookup (io_fs st') (vp k)) ->
  (* every other volume path the loader probes: nothing there, or a file that is not a volume of this set *)
  (forall k, (1 <= k <= Nat.min (256 - length files) 99)%nat -> In k lostv \/ (np < k)%nat ->
     read_res fs2 (vp k) = Err ENotExist \/
     exists b, read_res fs2 (vp k) = Ok b /\
       match read_volume md5 b with
       | Ok v => v_sethash_stored v <> input_set_hash md5 fs files \/ v_number v <> N.of_nat k
       | Err _ => True
       | Panic _ => False
       end) ->
  (* the data paths hold anything; an empty one is no directory *)
  (forall f, In f files -> fs_lookup fs2 f = None -> is_dir fs2 f = false) ->
  (* local collision-freeness for the bytes actually present *)
  (forall f d b, In f files -> fs_lookup fs f = Some d -> fs_lookup fs2 f = Some b ->
     md5 b = md5 d -> hash16k md5 b = hash16k md5 d -> b = d) ->
  let bad := filter (fun f => negb (orig_at fs fs2 f)) files in
  (length bad <= np - length lostv)%nat ->
  par1_repair md5 parPath dbl (io_init fs2 []) = ((r, rp), st3) ->
  (r = Ok tt /\
   (forall f d, In f files -> fs_lookup fs f = Some d -> fs_lookup (io_fs st3) f = Some d) /\
   rp = bad /\
   (forall p, ~ In p rp -> fs_lookup (io_fs st3) p = fs_lookup fs2 p))
  \/ (r = Err ESingular /\ io_fs st3 = fs2 /\ rp = []).
Proof. exact Par1RoundTrip4.C04_create_damage_repair_restores. Qed.
Print Assumptions C04_create_damage_repair_restores.

Theorem C04_create_damage_verify_counts : forall md5, (forall x, length (md5 x) = 16%nat) ->
  forall parPath files nvol fs st' lostv fs2 all,
  par1_create md5 parPath files nvol (io_init fs []) = (Ok tt, st') ->
  let nv := if (nvol <=? 0)%Z then 3%nat else Z.to_nat nvol in
  let np := Nat.min nv 99 in
  let vp := fun k : nat => volume_path parPath (N.of_nat k) in
  Forall (fun f => input_name_ok (base f)) files ->
  Forall (fun f => join2 (dir parPath) (base f) = f) files ->
  (forall f d, In f files -> fs_lookup fs f = Some d -> N.of_nat (length d) < 2^64) ->
  NoDup lostv -> (forall k, In k lostv -> (1 <= k <= np)%nat) ->
  fs_lookup fs2 parPath = fs_lookup (io_fs st') parPath ->
  (forall k, (1 <= k <= np)%nat -> ~ In k lostv -> fs_lookup fs2 (vp k) = fs_lookup (io_fs st') (vp k)) ->
  (forall k, (1 <= k <= Nat.min (256 - length files) 99)%nat -> In k lostv \/ (np < k)%nat ->
     read_res fs2 (vp k) = Err ENotExist \/
     exists b, read_res fs2 (vp k) = Ok b /\
       match read_volume md5 b with
       | Ok v => v_sethash_stored v <> input_set_hash md5 fs files \/ v_number v <> N.of_nat k
       | Err _ => True
       | Panic _ => False
       end) ->
  (forall f, In f files -> fs_lookup fs2 f = None -> is_dir fs2 f = false) ->
  (forall f d b, In f files -> fs_lookup fs f = Some d -> fs_lookup fs2 f = Some b ->
     md5 b = md5 d -> hash16k md5 b = hash16k md5 d -> b = d) ->
  let bad := filter (fun f => negb (orig_at fs fs2 f)) files in
  exists c ok st2, par1_verify md5 parPath all (io_init fs2 []) = (Ok (c, ok), st2) /\
    fc_unusable c = length bad /\ fc_usable c = (length files - length bad)%nat /\
    fc_pusable c = (np - length lostv)%nat /\
    io_fs st2 = fs2 /\
    ok = all && Nat.eqb (length bad) 0 && Nat.eqb (fc_punusable c) 0.
Proof. exact Par1RoundTrip4.C04_create_damage_verify_counts. Qed.
Print Assumptions C04_create_damage_verify_counts.

Theorem C04_create_damage_too_many : forall md5, (forall x, length (md5 x) = 16%nat) ->
  forall parPath files nvol fs st' lostv fs2 dbl r rp st3,
  par1_create md5 parPath files nvol (io_init fs []) = (Ok tt, st') ->
  let nv := if (nvol <=? 0)%Z then 3%nat else Z.to_nat nvol in
  let np := Nat.min nv 99 in
  let vp := fun k : nat => volume_path parPath (N.of_nat k) in
  Forall (fun f => input_name_ok (base f)) files ->
  Forall (fun f => join2 (dir parPath) (base f) = f) files ->
  (forall f d, In f files -> fs_lookup fs f = Some d -> N.of_nat (length d) < 2^64 /\ wf_bytes d) ->
  NoDup lostv -> (forall k, In k lostv -> (1 <= k <= np)%nat) ->
  fs_lookup fs2 parPath = fs_lookup (io_fs st') parPath ->
  (forall k, (1 <= k <= np)%nat -> ~ In k lostv -> fs_lookup fs2 (vp k) = fs_lookup (io_fs st') (vp k)) ->
  (forall k, (1 <= k <= Nat.min (256 - length files) 99)%nat -> In k lostv \/ (np < k)%nat ->
     read_res fs2 (vp k) = Err ENotExist \/
     exists b, read_res fs2 (vp k) = Ok b /\
       match read_volume md5 b with
       | Ok v => v_sethash_stored v <> input_set_hash md5 fs files \/ v_number v <> N.of_nat k
       | Err _ => True
       | Panic _ => False
       end) ->
  (forall f, In f files -> fs_lookup fs2 f = None -> is_dir fs2 f = false) ->
  (forall f d b, In f files -> fs_lookup fs f = Some d -> fs_lookup fs2 f = Some b ->
     md5 b = md5 d -> hash16k md5 b = hash16k md5 d -> b = d) ->
  let bad := filter (fun f => negb (orig_at fs fs2 f)) files in
  (np - length lostv < length bad)%nat ->
  par1_repair md5 parPath dbl (io_init fs2 []) = ((r, rp), st3) ->
  r = Err ENotEnoughParity /\ io_fs st3 = fs2 /\ rp = [].
Proof. exact Par1RoundTrip4.C04_create_damage_too_many. Qed.
Print Assumptions C04_create_damage_too_many.

