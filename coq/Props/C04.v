(* C04 — PAR1 create / verify / repair round trip (interim; the PAR1 theorems of Proofs/GF8Facts.v and
   Proofs/Par1Facts.v are added when they land). *)
From Gopar Require Import Model.Base Model.Matrix Model.GF8.
Open Scope N_scope.

(* the PAR1 parity matrix as the library builds it: row r, column c = (c+1)^r; first rows of a 3-file, 3-volume code *)
Theorem C04_par1_matrix : par1_pm 3 3 = [[1; 1; 1]; [1; 2; 3]; [1; 4; 5]].
Proof. vm_compute. reflexivity. Qed.
Print Assumptions C04_par1_matrix.
