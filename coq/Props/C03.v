(* C03 — PAR2 Verify is truthful: clean means intact, counts are sound and complete.
   Model: Model/Par2.v (newDecoder, LoadFileData, LoadParityData, ShardCounts) over Model/FS.v with
   the scan of Model/CRC.v.  Soundness and completeness of the per-slice counts are the scan theorems
   of Props/C16.v (every counted slice carries the bytes of a window matching its checksum pair;
   every cleanly present slice - in particular every slice of an undamaged file - is found). *)
From Gopar Require Import Model.Base Model.CRC Model.GoPath Model.FS Model.Par2 Proofs.Par2Facts Proofs.Par2Verify Proofs.Par2Clean Proofs.Par2Resync Proofs.Par2Ignore Proofs.Par2Reader2.
Open Scope N_scope.

(* "no repair needed" is reported only when every protected file is present with the recorded
   length, MD5 and first-16-KiB MD5 (= byte-identical to the protected content under the local
   collision-freeness premise for MD5), for EVERY archive state *)
Theorem C03_clean_means_intact : forall md5 ix fs c st,
  par2_verify md5 ix (io_init fs []) = (Ok c, st) -> repair_needed c = false ->
  exists ds st1, load_all md5 ix (io_init fs []) = (Ok ds, st1) /\
    Forall (fun info => exists data, fs_lookup fs (file_path ix (di_name info)) = Some data /\
              md5 data = di_hash info /\ hash16k md5 data = di_h16 info /\ N.of_nat (length data) = di_len info)
           (d_rec (ds_dec ds)).
Proof. exact verify_clean_intact. Qed.
Print Assumptions C03_clean_means_intact.

(* usable + unusable = the number of protected slices *)
Theorem C03_counts_total : forall md5 ix st ds st1,
  load_all md5 ix st = (Ok ds, st1) ->
  (c_usable (shard_counts ds) + c_unusable (shard_counts ds))%nat
  = fold_right (fun info acc => (length (di_pairs info) + acc)%nat) 0%nat (d_rec (ds_dec ds)).
Proof. exact verify_counts_total. Qed.
Print Assumptions C03_counts_total.

(* the usable recovery-block count is the number of DISTINCT exponents among the intact recovery
   packets loaded from the files beside the index *)
Theorem C03_blocks_distinct : forall (acc : list (N * bytes)),
  count_some (parity_array acc) = length (nodup N.eq_dec (map fst acc)).
Proof. exact parity_count_distinct. Qed.
Print Assumptions C03_blocks_distinct.

(* repair is reported possible exactly when unusable slices do not outnumber usable blocks *)
Theorem C03_possible_iff : forall c, repair_possible c = true <-> (c_unusable c <= c_pusable c)%nat.
Proof. exact verify_possible_iff. Qed.
Print Assumptions C03_possible_iff.

(* Verify modifies nothing (C02) and never panics, for every state and fault schedule *)
Theorem C03_no_panic : forall md5 ix st p, fst (par2_verify md5 ix st) <> Panic p.
Proof. exact verify_no_panic. Qed.
Print Assumptions C03_no_panic.

(* COMPLETE: if every protected file is present with content consistent with the archive (recorded
   length, both hashes, and the slice checksum list) and the file ids are distinct, Verify counts no
   unusable slice and no misplaced file and reports that no repair is needed - it never misses a slice
   of an undamaged file, for every archive, slice size and content (duplicate slices included) *)
Theorem C03_intact_means_clean : forall md5 ix fs ds st1,
  load_all md5 ix (io_init fs []) = (Ok ds, st1) ->
  NoDup (map di_id (d_rec (ds_dec ds))) ->
  (forall info, In info (d_rec (ds_dec ds)) ->
     exists data, fs_lookup fs (file_path ix (di_name info)) = Some data /\ wf_bytes data /\
       N.of_nat (length data) = di_len info /\ md5 data = di_hash info /\ hash16k md5 data = di_h16 info /\
       di_pairs info = pairs_of md5 (N.to_nat (d_slice (ds_dec ds))) data) ->
  c_unusable (shard_counts ds) = 0%nat /\ c_misplaced (shard_counts ds) = 0%nat /\
  repair_needed (shard_counts ds) = false.
Proof. exact intact_files_clean. Qed.
Print Assumptions C03_intact_means_clean.

(* INTACT RECOVERY BLOCKS IN DAMAGED RECOVERY FILES COUNT (after the fixes a78614b, fd379c2): the reader of a
   recovery file skips whatever does not parse and resumes at the next magic sequence, and needs no creator
   packet.  For ANY bytes before an intact recovery packet in which no complete packet starts (damaged packets,
   garbage, a torn prefix: every magic occurrence starting there fails to parse) and ANY bytes after it: the
   file is read exactly as if it began with that packet - the block is loaded (or a later, hash-valid but
   contradictory packet makes the file an error; damage cannot) *)
Theorem C03_intact_recovery_packet_survives : forall md5, (forall x, length (md5 x) = 16%nat) ->
  forall sid body e d pre post,
  length sid = 16%nat -> 64 + N.of_nat (length body) < 2 ^ 64 -> read_recv body = Ok (e, d) ->
  let pk := write_packet md5 sid TYPE_RECV body in
  no_packet_before md5 pre (pk ++ post) ->
  read_file_vol md5 sid (pre ++ pk ++ post) =
    read_file_go md5 (S (length post)) post (Some sid) true (recv_only_vol e d) /\
  (read_file_vol md5 sid (pre ++ pk ++ post) = RFErr \/
   exists f, read_file_vol md5 sid (pre ++ pk ++ post) = RFOk sid f /\ assoc_n (pf_recv f) e = Some d).
Proof. exact read_file_intact_packets_survive_vol. Qed.
Print Assumptions C03_intact_recovery_packet_survives.

(* a recovery file that consists of one recovery packet and nothing else is accepted (the index reader would
   reject it for want of a creator packet) *)
Theorem C03_recovery_file_needs_no_creator : forall md5, (forall x, length (md5 x) = 16%nat) ->
  forall sid body e d,
  length sid = 16%nat -> 64 + N.of_nat (length body) < 2 ^ 64 -> read_recv body = Ok (e, d) ->
  let pk := write_packet md5 sid TYPE_RECV body in
  (exists f, read_file_vol md5 sid pk = RFOk sid f /\ pf_recv f = [(e, d)]) /\
  read_file md5 (Some sid) pk = RFErr.
Proof. exact read_file_vol_needs_no_creator. Qed.
Print Assumptions C03_recovery_file_needs_no_creator.

(* ... and when nothing that parses follows the intact packet (end of file, garbage, a torn tail), the file IS
   accepted and the block IS loaded - no error alternative *)
Theorem C03_intact_packet_before_unparsable_loaded : forall md5, (forall x, length (md5 x) = 16%nat) ->
  forall sid body e d pre post,
  length sid = 16%nat -> 64 + N.of_nat (length body) < 2 ^ 64 -> read_recv body = Ok (e, d) ->
  let pk := write_packet md5 sid TYPE_RECV body in
  no_packet_before md5 pre (pk ++ post) -> nothing_parses md5 sid post ->
  exists f, read_file_vol md5 sid (pre ++ pk ++ post) = RFOk sid f /\ assoc_n (pf_recv f) e = Some d /\
            pf_recv f = [(e, d)].
Proof. exact intact_packet_before_unparsable_loaded. Qed.
Print Assumptions C03_intact_packet_before_unparsable_loaded.
