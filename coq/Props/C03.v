(* C03 — PAR2 Verify is truthful (placeholder until Proofs/Par2Verify.v lands): what is proved so far. *)
From Gopar Require Import Model.Base Model.CRC Model.GoPath Model.FS Model.Par2 Proofs.Par2Facts.
Open Scope N_scope.

Theorem C03_possible_iff : forall c, repair_possible c = true <-> (c_unusable c <= c_pusable c)%nat.
Proof. intros c. unfold repair_possible. apply Nat.leb_le. Qed.
Print Assumptions C03_possible_iff.
