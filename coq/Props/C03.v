(* C03 — PAR2 Verify is truthful: clean means intact, counts are sound and complete.
   Model: Model/Par2.v (newDecoder, LoadFileData, LoadParityData, ShardCounts) over Model/FS.v with
   the scan of Model/CRC.v.  Soundness and completeness of the per-slice counts are the scan theorems
   of Props/C16.v (every counted slice carries the bytes of a window matching its checksum pair;
   every cleanly present slice - in particular every slice of an undamaged file - is found). *)
From Gopar Require Import Model.Base Model.CRC Model.GoPath Model.FS Model.Par2 Proofs.Par2Facts Proofs.Par2Verify Proofs.Par2Clean.
Open Scope N_scope.

(* "no repair needed" is reported only when every protected file is present with the recorded
   length, MD5 and first-16-KiB MD5 (= byte-identical to the protected content under the local
   collision-freeness premise for MD5), for EVERY archive state *)
Theorem C03_clean_means_intact : forall md5 ix fs c st,
  par2_verify md5 ix (io_init fs []) = (Ok c, st) -> repair_needed c = false ->
  exists ds st1, load_all md5 ix (io_init fs []) = (Ok ds, st1) /\
    Forall (fun info => exists data, fs_lookup fs (file_path ix (di_name info)) = Some data /\
              md5 data = di_hash info /\ hash16k md5 data = di_h16 info /\ N.of_nat (length data) = di_len info)
           (d_rec (ds_dec ds)).
Proof. exact verify_clean_intact. Qed.
Print Assumptions C03_clean_means_intact.

(* usable + unusable = the number of protected slices *)
Theorem C03_counts_total : forall md5 ix st ds st1,
  load_all md5 ix st = (Ok ds, st1) ->
  (c_usable (shard_counts ds) + c_unusable (shard_counts ds))%nat
  = fold_right (fun info acc => (length (di_pairs info) + acc)%nat) 0%nat (d_rec (ds_dec ds)).
Proof. exact verify_counts_total. Qed.
Print Assumptions C03_counts_total.

(* the usable recovery-block count is the number of DISTINCT exponents among the intact recovery
   packets loaded from the files beside the index *)
Theorem C03_blocks_distinct : forall (acc : list (N * bytes)),
  count_some (parity_array acc) = length (nodup N.eq_dec (map fst acc)).
Proof. exact parity_count_distinct. Qed.
Print Assumptions C03_blocks_distinct.

(* repair is reported possible exactly when unusable slices do not outnumber usable blocks *)
Theorem C03_possible_iff : forall c, repair_possible c = true <-> (c_unusable c <= c_pusable c)%nat.
Proof. exact verify_possible_iff. Qed.
Print Assumptions C03_possible_iff.

(* Verify modifies nothing (C02) and never panics, for every state and fault schedule *)
Theorem C03_no_panic : forall md5 ix st p, fst (par2_verify md5 ix st) <> Panic p.
Proof. exact verify_no_panic. Qed.
Print Assumptions C03_no_panic.

(* COMPLETE: if every protected file is present with content consistent with the archive (recorded
   length, both hashes, and the slice checksum list) and the file ids are distinct, Verify counts no
   unusable slice and no misplaced file and reports that no repair is needed - it never misses a slice
   of an undamaged file, for every archive, slice size and content (duplicate slices included) *)
Theorem C03_intact_means_clean : forall md5 ix fs ds st1,
  load_all md5 ix (io_init fs []) = (Ok ds, st1) ->
  NoDup (map di_id (d_rec (ds_dec ds))) ->
  (forall info, In info (d_rec (ds_dec ds)) ->
     exists data, fs_lookup fs (file_path ix (di_name info)) = Some data /\ wf_bytes data /\
       N.of_nat (length data) = di_len info /\ md5 data = di_hash info /\ hash16k md5 data = di_h16 info /\
       di_pairs info = pairs_of md5 (N.to_nat (d_slice (ds_dec ds))) data) ->
  c_unusable (shard_counts ds) = 0%nat /\ c_misplaced (shard_counts ds) = 0%nat /\
  repair_needed (shard_counts ds) = false.
Proof. exact intact_files_clean. Qed.
Print Assumptions C03_intact_means_clean.
