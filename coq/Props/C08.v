(* C08 — GF(2^16) and GF(2)[x] arithmetic is the arithmetic of the PAR2 field.
   Only statements; every proof is `exact <lemma>`.  The specification
   (clmul, pmod, fmul, fpow) is in Model/GF16.v, the implementation model
   (T_Times … Poly64_Div, following gf2p16/t.go and gf2/poly64.go) beside it. *)
From Gopar Require Import Model.Base Model.GF16 Proofs.GF16Facts Proofs.GF16Tables Proofs.Poly64.
Open Scope N_scope.

(* none of the three panics of init() fires, and no index leaves the tables *)
Theorem C08_init_ok : is_ok tables_init = true.
Proof. exact init_ok. Qed.
Print Assumptions C08_init_ok.

Theorem C08_times : forall a b, a < 65536 -> b < 65536 -> T_Times a b = fmul a b.
Proof. exact T_Times_spec. Qed.
Print Assumptions C08_times.

Theorem C08_inverse : forall a, 0 < a < 65536 ->
  exists i, T_Inverse a = Ok i /\ i < 65536 /\ fmul a i = 1.
Proof. exact T_Inverse_spec. Qed.
Print Assumptions C08_inverse.

Theorem C08_inverse_zero : T_Inverse 0 = Panic PExplicit.
Proof. exact T_Inverse_zero. Qed.
Print Assumptions C08_inverse_zero.

Theorem C08_div : forall a b, a < 65536 -> 0 < b < 65536 ->
  exists i, T_Inverse b = Ok i /\ T_Div a b = Ok (fmul a i).
Proof. exact T_Div_spec. Qed.
Print Assumptions C08_div.

Theorem C08_div_zero : forall a, T_Div a 0 = Panic PExplicit.
Proof. exact T_Div_zero. Qed.
Print Assumptions C08_div_zero.

(* a^p is the p-fold product; fpow a 0 = 1 also for a = 0 *)
Theorem C08_pow : forall a p, a < 65536 -> p < 2 ^ 32 -> T_Pow a p = fpow a p.
Proof. exact T_Pow_spec. Qed.
Print Assumptions C08_pow.

(* GF(2)[x]: product modulo x^64, Euclidean division q*d + r = p with deg r < deg d
   (and q*d itself does not overflow 64 bits), division by zero panics *)
Theorem C08_poly_times : forall p q, p < 2 ^ 64 -> q < 2 ^ 64 ->
  Poly64_Times p q = N.land (clmul p q) (2 ^ 64 - 1).
Proof. exact Poly64_Times_correct. Qed.
Print Assumptions C08_poly_times.

Theorem C08_poly_div : forall p d, p < 2 ^ 64 -> 0 < d < 2 ^ 64 ->
  exists q r, Poly64_Div p d = Ok (q, r) /\
    N.lxor (clmul q d) r = p /\ (r = 0 \/ N.log2 r < N.log2 d) /\
    Poly64_Times q d = clmul q d.
Proof. exact Poly64_Div_correct. Qed.
Print Assumptions C08_poly_div.

Theorem C08_poly_div_zero : forall p, Poly64_Div p 0 = Panic PExplicit.
Proof. exact Poly64_Div_zero. Qed.
Print Assumptions C08_poly_div_zero.

(* the field laws the other properties build on *)
Theorem C08_field_laws : forall a b c, a < 65536 -> b < 65536 -> c < 65536 ->
  fmul a b < 65536 /\ fmul a b = fmul b a /\ fmul (fmul a b) c = fmul a (fmul b c) /\
  fmul a (N.lxor b c) = N.lxor (fmul a b) (fmul a c) /\ fmul 1 a = a.
Proof.
  intros a b c Ha Hb Hc.
  exact (conj (fmul_lt a b) (conj (fmul_comm a b Ha Hb) (conj (fmul_assoc a b c Ha Hb Hc)
        (conj (fmul_lxor_r a b c) (fmul_1_l a Ha))))).
Qed.
Print Assumptions C08_field_laws.

(* non-vacuity: concrete non-trivial instances *)
Example C08_example : T_Times 0x1234 0xFEDC = fmul 0x1234 0xFEDC /\ fmul 0x1234 0xFEDC = 367
                      /\ T_Pow 2 65537 = 4 /\ T_Inverse 2 = Ok 34821.
Proof. vm_compute. repeat split; reflexivity. Qed.
