(* C12 — coding results do not depend on goroutine count or scheduling.
   Model: Model/Parallel.v (rsec16/matrix.go: calculateParallelParams, the
   chunk each goroutine gets, the kernel calls it performs, a small-step
   semantics over the shared output).  What the model cannot exhibit: the Go
   memory model and the real scheduler; data-race freedom of the implementation
   itself is runtime evidence (race detector), see the check. *)
From Coq Require Import Lia.
From Gopar Require Import Model.Base Model.GF16 Model.Matrix Model.RS16 Model.Parallel
     Proofs.LinAlg Proofs.Matrix16 Proofs.RS16Facts Proofs.ParallelFacts Proofs.ParallelLink.
Open Scope Z_scope.

(* calculateParallelParams: positive chunk length, at least the minimum, a multiple of the
   divisor; between 1 and g workers; the chunks tile [0, total) with a non-empty last chunk *)
Theorem C12_partition : forall total g minLen d,
  0 < total -> 1 <= g -> 1 <= minLen -> 1 <= d ->
  let '(per, g') := par_params total g minLen d in
  0 < per /\ minLen <= per /\ per mod d = 0 /\ 1 <= g' <= g /\ (g' - 1) * per < total <= g' * per.
Proof. exact par_params_spec. Qed.
Print Assumptions C12_partition.

(* every index of [0, total) lies in exactly one of the ranges handed to the goroutines *)
Theorem C12_chunks_own : forall total g minLen d x,
  0 < total -> 1 <= g -> 1 <= minLen -> 1 <= d -> 0 <= x < total ->
  exists k, (k < length (chunks total g minLen d))%nat /\
            in_chunk (nth k (chunks total g minLen d) (0, 0)) x /\
            forall k', (k' < length (chunks total g minLen d))%nat -> k' <> k ->
                       ~ in_chunk (nth k' (chunks total g minLen d) (0, 0)) x.
Proof. exact chunks_own. Qed.
Print Assumptions C12_chunks_own.

(* applyMatrixParallelData (the variant the coder uses): for EVERY goroutine count, EVERY byte length
   and EVERY schedule of the workers' kernel calls, every output cell ends with the value of
   single-threaded execution, whatever the buffers held before *)
Theorem C12_schedule_data : forall ins m nin rows L g tr st i p,
  0 < L -> 1 <= g -> (i < rows)%nat -> 2 * Z.of_nat p < L ->
  is_schedule (workers_data m nin rows L g) tr ->
  exec ins (map snd tr) st i p = single_val m ins nin i p.
Proof. exact schedule_data. Qed.
Print Assumptions C12_schedule_data.

Theorem C12_schedule_out : forall ins m nin rows L g tr st i p,
  (0 < rows)%nat -> 1 <= g -> (i < rows)%nat -> 0 <= 2 * Z.of_nat p < L ->
  is_schedule (workers_out m nin rows L g) tr ->
  exec ins (map snd tr) st i p = single_val m ins nin i p.
Proof. exact schedule_out. Qed.
Print Assumptions C12_schedule_out.

(* nothing outside the output shards is written *)
Theorem C12_untouched : forall ins m nin rows L g tr st i p,
  0 < L -> 1 <= g -> ((rows <= i)%nat \/ L <= 2 * Z.of_nat p) ->
  is_schedule (workers_data m nin rows L g) tr ->
  exec ins (map snd tr) st i p = st i p.
Proof. exact untouched_data. Qed.
Print Assumptions C12_untouched.

(* model-level race freedom: kernel calls of two different workers never touch the same output
   cell (inputs are only read) *)
Theorem C12_race_free : forall m nin rows L g k1 k2 o1 o2 i p,
  0 < L -> 1 <= g ->
  (k1 < length (workers_data m nin rows L g))%nat -> (k2 < length (workers_data m nin rows L g))%nat -> k1 <> k2 ->
  In o1 (nth k1 (workers_data m nin rows L g) []) -> In o2 (nth k2 (workers_data m nin rows L g) []) ->
  covers o1 i p = true -> covers o2 i p = true -> False.
Proof. exact race_free_data. Qed.
Print Assumptions C12_race_free.

(* the value every schedule computes is the matrix-product entry that GenerateParity and
   ReconstructData of the coder model (C07) are defined by; that model has no goroutine parameter,
   so Create output and Repair results of the format models are independent of it *)
Theorem C12_is_apply_matrix : forall m X rows k len i p,
  (0 < k)%nat -> wfm16 rows k m -> wfm16 k len X -> (i < rows)%nat -> (p < len)%nat ->
  nth p (nth i (apply_matrix len m X) []) 0%N = single_val m (ins_of X) k i p.
Proof. exact single_val_apply_matrix. Qed.
Print Assumptions C12_is_apply_matrix.

(* non-vacuity: 40-byte shards, 2 goroutines -> two workers ([0,32) and [32,40)); a round-robin
   schedule of their kernel calls is a schedule, and the premises of C12_schedule_data hold *)
Example C12_example :
  let m := [[3; 5]; [7; 9]]%N in
  let ws := workers_data m 2 2 40 2 in
  chunks 40 2 16 16 = [(0, 32); (32, 40)] /\
  let tr := [(0, nth 0 (nth 0 ws []) (Build_op 0 0 0 0 0 false)); (1, nth 0 (nth 1 ws []) (Build_op 0 0 0 0 0 false));
             (1, nth 1 (nth 1 ws []) (Build_op 0 0 0 0 0 false)); (0, nth 1 (nth 0 ws []) (Build_op 0 0 0 0 0 false));
             (0, nth 2 (nth 0 ws []) (Build_op 0 0 0 0 0 false)); (1, nth 2 (nth 1 ws []) (Build_op 0 0 0 0 0 false));
             (0, nth 3 (nth 0 ws []) (Build_op 0 0 0 0 0 false)); (1, nth 3 (nth 1 ws []) (Build_op 0 0 0 0 0 false))]%nat in
  is_schedule ws tr.
Proof.
  split; [vm_compute; reflexivity|].
  split.
  - intros [|[|k]]; [vm_compute; reflexivity | vm_compute; reflexivity | ].
    destruct k; reflexivity.
  - repeat constructor.
Qed.
