(* C07 / C05: the table of PAR2 constants - against GoparGen.GoArithGen, re-translated from the Go source by
   tools/gotocoq on every run.  `func init()` of rsec16/coder.go (the loop over i < 2^16 that skips the
   multiples of 3, 5, 17, 257 and appends T(2).Pow(i) to `generators`) is translated with its `continue`
   and `append`; run on the model's tables it produces exactly the model's list of generators, from which
   every Vandermonde parity matrix of the model is built.  Closed statement, checked by computation in the
   kernel's VM (one pass over the 65536 candidates). *)
From Coq Require Import NArith ZArith List.
From Gopar Require Import Model.Base Model.GF16 Model.GoSem Model.RS16.
From GoparGen Require Import GoLinkCommon GoArithGen GoLinkC08.
Import ListNotations.
Open Scope N_scope.

Fixpoint list_eqb (a b : list N) : bool :=
  match a, b with
  | [], [] => true
  | x :: a', y :: b' => (x =? y) && list_eqb a' b'
  | _, _ => false
  end.
Lemma list_eqb_eq : forall a b, list_eqb a b = true -> a = b.
Proof.
  induction a as [|x a IH]; intros [|y b] H; cbn [list_eqb] in H; try discriminate H; [reflexivity|].
  apply andb_prop in H. destruct H as [H1 H2]. apply N.eqb_eq in H1. subst y. f_equal. apply IH. exact H2.
Qed.

(* abstracted over the run so that stating the theorem does not evaluate it *)
Definition ret_is {S} (l0 : list N) (r : ctl S (list N)) : bool :=
  match r with Ret l => list_eqb l l0 | _ => false end.
Lemma ret_is_eq {S} l0 (r : ctl S (list N)) : ret_is l0 r = true -> r = Ret l0.
Proof. destruct r as [s|s|l| | |s]; cbn [ret_is]; intros H; try discriminate H. apply list_eqb_eq in H. subst l. reflexivity. Qed.

Theorem GEN_generators_check : ret_is all_generators (gen_coder_init expTab logTab) = true.
Proof. vm_cast_no_check (@eq_refl bool true). Qed.
Print Assumptions GEN_generators_check.

(* the generators the source computes are the model's *)
Theorem GEN_generators : gen_coder_init expTab logTab = Ret all_generators.
Proof. apply ret_is_eq. exact GEN_generators_check. Qed.
Print Assumptions GEN_generators.
