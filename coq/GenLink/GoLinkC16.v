(* C16: par2/crc32.go crc32Window.update and newCRC32Window - against GoparGen.GoArithGen, re-translated from the Go source by tools/gotocoq on every run *)
From Coq Require Import Lia ZifyN ZifyNat ZifyBool.
From Gopar Require Import Model.Base Model.GF16 Model.GoSem Model.Parallel Model.CRC Model.CLI.
From Gopar Require Import Model.GoSemList.
From Gopar Require Import Proofs.GF16Facts Proofs.Poly64 Proofs.GF16Tables Proofs.CRCFacts.
From GoparGen Require Import GoLinkCommon GoArithGen.
Open Scope N_scope.
Set Default Timeout 120.

(** * GL10: crc32Window.update *)

Lemma wnot32 x : x < 2 ^ 32 -> wnot 32 x = N.lxor x FFFF.
Proof.
  intros Hx. unfold wnot. rewrite wrap_small by exact Hx.
  change (2 ^ 32 - 1) with (N.ones 32). change FFFF with (N.ones 32).
  destruct (N.eq_dec x 0) as [->|Nx]; [reflexivity|].
  assert (Hl : N.log2 x < 32) by (apply N.log2_lt_pow2; [lia|exact Hx]).
  rewrite N.sub_nocarry_ldiff by (apply N.ldiff_ones_r_low; exact Hl).
  rewrite N.ldiff_ones_l_low by exact Hl. reflexivity.
Qed.

(* hash/crc32's IEEETable has 32-bit entries.  (As a hypothesis, "forall x, ieee_table x < 2^32" would be
   false - the model's ieee_table is step8 on all of N and ieee_table (2^40) = 2^32 - so the theorem
   below carries no such premise: the index is < 256 and the bound is proved for it.) *)
Lemma ieee_table_lt x : x < 2 ^ 32 -> ieee_table x < 2 ^ 32.
Proof. apply step8_bound. Qed.

Theorem GEN_crc32Window_update : forall w crc oldLeader newTrailer,
  B32 crc -> B8 oldLeader -> B8 newTrailer ->
  gen_crc32Window_update ieee_table (fun i => nth (N.to_nat i) (w_table w) 0) crc oldLeader newTrailer
    = Ret (win_update w crc oldLeader newTrailer).
Proof.
  intros w crc oldLeader newTrailer Hc Ho Hn.
  unfold gen_crc32Window_update, win_update. cbv zeta.
  rewrite (wnot32 crc Hc). set (t := N.lxor crc FFFF).
  assert (Ht : t < 2 ^ 32) by (apply lxor_lt_pow2; [exact Hc|reflexivity]).
  assert (Hidx : N.lxor (t mod 256) newTrailer < 256).
  { change 256 with (2 ^ 8). apply lxor_lt_pow2; [apply N.mod_lt; discriminate|exact Hn]. }
  unfold wrap. change (2 ^ 8) with 256.
  rewrite aget_in by exact Hidx. cbv beta zeta.
  rewrite N.shiftr_div_pow2. change (2 ^ 8) with 256.
  rewrite wnot32.
  - rewrite aget_in by exact Ho. reflexivity.
  - apply lxor_lt_pow2.
    + apply ieee_table_lt. eapply N.lt_trans; [exact Hidx|reflexivity].
    + eapply N.le_lt_trans; [|exact Ht]. apply N.div_le_upper_bound; lia.
Qed.
Print Assumptions GEN_crc32Window_update.


(** * GL11: newCRC32Window

   gen_newCRC32Window is the translation of the constructor; its parameter checksumIEEE (hash/crc32's
   ChecksumIEEE, which the translator does not read) is instantiated with the model's crc32.  The theorem says
   that, for EVERY window size n, the translated Go code returns exactly the window of Model/CRC.v's win_new
   (the size and the 256-entry table crcOldLeaderMaskedTable), and panics exactly when win_new panics.

   Go's int is Z in the translation (Model/GoSem.v): for n + 1 >= 2^63 the Go expression windowSize+1 wraps
   and make panics, and for sizes beyond the address space make panics too; neither the translation nor
   win_new models that, so the statement needs no upper bound on n - it is about the idealised int.

   Proof: the only parts that depend on n are the test n < 4, make([]byte, n+1) and the bounds checks of
   a[0], a[4].  With 4 <= n the slice is 0::0::0::0::0::tl; lset / lget (Model/GoSemList.v) recurse on the
   list, so with tl and the checksum function as VARIABLES both sides are closed enough to be evaluated: the
   three translated loops (8, 255 x 8 rounds) and the model's maps normalise to the same 256 expressions over
   the unknown checksums.  Nothing below mentions the text of the generated body except the first two
   statements (the test and the make). *)

Theorem GEN_newCRC32Window_total : forall n : Z,
  gen_newCRC32Window crc32 n =
  match win_new n with
  | Ok w => Ret (Z.of_nat (w_size w), w_table w)
  | Err _ => Pnc
  | Panic _ => Pnc
  end.
Proof.
  intros n. unfold win_new.
  destruct (Z.ltb n 4) eqn:Hlt.
  - unfold gen_newCRC32Window. rewrite Hlt. reflexivity.
  - assert (Hn : (4 <= n)%Z) by (apply Z.ltb_ge; exact Hlt).
    assert (Hsz : Z.of_nat (Z.to_nat n) = n) by lia.
    cbv zeta. cbn [w_size w_table]. rewrite Hsz.
    set (m := (Z.to_nat n - 4)%nat).
    assert (Hm : S (Z.to_nat n) = (5 + m)%nat) by lia.
    unfold zeros. rewrite Hm.
    unfold gen_newCRC32Window. rewrite Hlt.
    cbv beta iota zeta delta [GoSem.seq].
    rewrite mkzeros_nonneg by lia.
    assert (Hm' : Z.to_nat (n + 1) = (5 + m)%nat) by lia.
    rewrite Hm'. (* fails at once if the slice is not make([]byte, windowSize+1) *)
    change (repeat 0 (5 + m)%nat) with (0 :: 0 :: 0 :: 0 :: 0 :: repeat 0 m).
    generalize (repeat 0 m). intros tl.
    generalize crc32. intros ck.
    vm_compute. reflexivity.
Qed.
Print Assumptions GEN_newCRC32Window_total.

Theorem GEN_newCRC32Window : forall n : Z, (4 <= n)%Z ->
  exists w, win_new n = Ok w /\ w_size w = Z.to_nat n /\
            gen_newCRC32Window crc32 n = Ret (n, w_table w).
Proof.
  intros n Hn. pose proof (GEN_newCRC32Window_total n) as H.
  unfold win_new in *. destruct (Z.ltb_spec n 4) as [Hl|_]; [lia|].
  eexists. split; [reflexivity|]. split; [reflexivity|].
  rewrite H. cbn [w_size w_table]. rewrite Z2Nat.id by lia. reflexivity.
Qed.
Print Assumptions GEN_newCRC32Window.

Theorem GEN_newCRC32Window_panics : forall n : Z, (n < 4)%Z ->
  gen_newCRC32Window crc32 n = Pnc /\ win_new n = Panic PExplicit.
Proof.
  intros n Hn. pose proof (GEN_newCRC32Window_total n) as H.
  unfold win_new in *. destruct (Z.ltb_spec n 4) as [_|Hl]; [|lia].
  split; [exact H|reflexivity].
Qed.
Print Assumptions GEN_newCRC32Window_panics.

(* Not vacuous, and tied to one run of the real code: for the window sizes 7 and 1000 the translated
   constructor (by the theorem) and win_new give a 256-entry table whose entries 0, 1, 2, 255 - and, for 7,
   a 32-bit rolling sum over all 256 entries - are the numbers that par2.newCRC32Window printed in a Go
   test run of the pinned tree (recorded 2026-10-02; s = s*31 + table[i] + i in uint32). *)
Definition table_sum (t : list N) : N :=
  fold_left (fun s iv => (s * 31 + snd iv + N.of_nat (fst iv)) mod 2 ^ 32) (combine (List.seq 0 256) t) 0.

Example GEN_newCRC32Window_ex :
  (4 <= 7)%Z /\ (4 <= 1000)%Z /\
  exists t7 t1000,
    gen_newCRC32Window crc32 7 = Ret (7%Z, t7) /\
    gen_newCRC32Window crc32 1000 = Ret (1000%Z, t1000) /\
    win_new 7 = Ok {| w_size := 7; w_table := t7 |} /\
    win_new 1000 = Ok {| w_size := 1000; w_table := t1000 |} /\
    length t7 = 256%nat /\ length t1000 = 256%nat /\
    map (fun i => nth i t7 0) [0; 1; 2; 255]%nat = [4165861399; 887357577; 3127576426; 3724871409] /\
    table_sum t7 = 2249062528 /\
    map (fun i => nth i t1000 0) [0; 1; 2; 255]%nat = [968323130; 3377035798; 54157859; 963269038].
Proof.
  split; [lia|]. split; [lia|].
  destruct (GEN_newCRC32Window 7 ltac:(lia)) as (w7 & Hw7 & Hs7 & Hg7).
  destruct (GEN_newCRC32Window 1000 ltac:(lia)) as (w1000 & Hw1000 & Hs1000 & Hg1000).
  exists (w_table w7), (w_table w1000).
  split; [exact Hg7|]. split; [exact Hg1000|].
  assert (E7 : win_new 7 = Ok {| w_size := 7; w_table := w_table w7 |}).
  { rewrite Hw7. destruct w7 as [s t]. cbn [w_size w_table] in *. rewrite Hs7. reflexivity. }
  assert (E1000 : win_new 1000 = Ok {| w_size := 1000; w_table := w_table w1000 |}).
  { rewrite Hw1000. destruct w1000 as [s t]. cbn [w_size w_table] in *. rewrite Hs1000. reflexivity. }
  split; [exact E7|]. split; [exact E1000|].
  assert (V7 : w_table w7 = match win_new 7 with Ok w => w_table w | _ => [] end) by (rewrite Hw7; reflexivity).
  assert (V1000 : w_table w1000 = match win_new 1000 with Ok w => w_table w | _ => [] end) by (rewrite Hw1000; reflexivity).
  rewrite V7, V1000.
  repeat split; vm_compute; reflexivity.
Qed.
