(* C16: par2/crc32.go crc32Window.update - against GoparGen.GoArithGen, re-translated from the Go source by tools/gotocoq on every run *)
From Coq Require Import Lia ZifyN ZifyNat ZifyBool.
From Gopar Require Import Model.Base Model.GF16 Model.GoSem Model.Parallel Model.CRC Model.CLI.
From Gopar Require Import Proofs.GF16Facts Proofs.Poly64 Proofs.GF16Tables Proofs.CRCFacts.
From GoparGen Require Import GoLinkCommon GoArithGen.
Open Scope N_scope.
Set Default Timeout 120.

(** * GL10: crc32Window.update *)

Lemma wnot32 x : x < 2 ^ 32 -> wnot 32 x = N.lxor x FFFF.
Proof.
  intros Hx. unfold wnot. rewrite wrap_small by exact Hx.
  change (2 ^ 32 - 1) with (N.ones 32). change FFFF with (N.ones 32).
  destruct (N.eq_dec x 0) as [->|Nx]; [reflexivity|].
  assert (Hl : N.log2 x < 32) by (apply N.log2_lt_pow2; [lia|exact Hx]).
  rewrite N.sub_nocarry_ldiff by (apply N.ldiff_ones_r_low; exact Hl).
  rewrite N.ldiff_ones_l_low by exact Hl. reflexivity.
Qed.

(* hash/crc32's IEEETable has 32-bit entries.  (As a hypothesis, "forall x, ieee_table x < 2^32" would be
   false - the model's ieee_table is step8 on all of N and ieee_table (2^40) = 2^32 - so the theorem
   below carries no such premise: the index is < 256 and the bound is proved for it.) *)
Lemma ieee_table_lt x : x < 2 ^ 32 -> ieee_table x < 2 ^ 32.
Proof. apply step8_bound. Qed.

Theorem GEN_crc32Window_update : forall w crc oldLeader newTrailer,
  B32 crc -> B8 oldLeader -> B8 newTrailer ->
  gen_crc32Window_update ieee_table (fun i => nth (N.to_nat i) (w_table w) 0) crc oldLeader newTrailer
    = Ret (win_update w crc oldLeader newTrailer).
Proof.
  intros w crc oldLeader newTrailer Hc Ho Hn.
  unfold gen_crc32Window_update, win_update. cbv zeta.
  rewrite (wnot32 crc Hc). set (t := N.lxor crc FFFF).
  assert (Ht : t < 2 ^ 32) by (apply lxor_lt_pow2; [exact Hc|reflexivity]).
  assert (Hidx : N.lxor (t mod 256) newTrailer < 256).
  { change 256 with (2 ^ 8). apply lxor_lt_pow2; [apply N.mod_lt; discriminate|exact Hn]. }
  unfold wrap. change (2 ^ 8) with 256.
  rewrite aget_in by exact Hidx. cbv beta zeta.
  rewrite N.shiftr_div_pow2. change (2 ^ 8) with 256.
  rewrite wnot32.
  - rewrite aget_in by exact Ho. reflexivity.
  - apply lxor_lt_pow2.
    + apply ieee_table_lt. eapply N.lt_trans; [exact Hidx|reflexivity].
    + eapply N.le_lt_trans; [|exact Ht]. apply N.div_le_upper_bound; lia.
Qed.
Print Assumptions GEN_crc32Window_update.

