(* The SSSE3 bounds theorems (Proofs/Ssse3Bounds.v), re-checked against the assembly source as it is NOW.
   GoparGen.Ssse3Gen is regenerated from /repo/gf2p16/slice_amd64.s by tools/asm2coq.py on every run of
   the C09 check; this file is compiled after it.
   Unlike Ssse3GenLink.v nothing here goes through "generated list = list of Model/Ssse3.v": every
   theorem is obtained from a boolean checker evaluated (vm_compute) DIRECTLY on the generated
   instruction list - the symbolic execution of the list on register shapes, Proofs/Ssse3Bounds.v
   [straight_check] / [slice_check] / [slice_tight_check] - plus the generic soundness theorems.
   A harmless re-ordering of instructions therefore does not break this file; an off-by-one in a
   MOVOU offset, in a pointer increment, in the SHRQ that computes the loop count, a store through
   the input pointer, a missing SUBQ ... makes a checker evaluate to false and the file fail. *)
From Coq Require Import List NArith. Import ListNotations.
From Gopar Require Import Model.Base Model.GF16 Model.Kernels Model.Ssse3 Proofs.Ssse3Bounds.
From GoparGen Require Import Ssse3Gen.
Open Scope N_scope.

(** * the 16-byte routines: f(in0, in1, out0, out1 *[16]byte) and f(cEntry, in0, in1, out0, out1) *)

(* no access outside a buffer, stores only to the two output buffers, inputs (and table entry)
   unchanged, lengths unchanged - see [bounds4] / [bounds5] in Proofs/Ssse3Bounds.v *)
Theorem GEN_standardToAltMap_bounds : bounds4 gen_standardToAltMapSSSE3Unsafe.
Proof. apply bounds4_of_check. vm_compute. reflexivity. Qed.
Print Assumptions GEN_standardToAltMap_bounds.

Theorem GEN_altToStandardMap_bounds : bounds4 gen_altToStandardMapSSSE3Unsafe.
Proof. apply bounds4_of_check. vm_compute. reflexivity. Qed.
Print Assumptions GEN_altToStandardMap_bounds.

Theorem GEN_mulAltMap_bounds : bounds5 gen_mulAltMapSSSE3Unsafe.
Proof. apply bounds5_of_check. vm_compute. reflexivity. Qed.
Print Assumptions GEN_mulAltMap_bounds.

Theorem GEN_mulSSSE3_bounds : bounds5 gen_mulSSSE3Unsafe.
Proof. apply bounds5_of_check. vm_compute. reflexivity. Qed.
Print Assumptions GEN_mulSSSE3_bounds.

Theorem GEN_mulAndAddSSSE3_bounds : bounds5 gen_mulAndAddSSSE3Unsafe.
Proof. apply bounds5_of_check. vm_compute. reflexivity. Qed.
Print Assumptions GEN_mulAndAddSSSE3_bounds.

(* the bounds are tight: any one buffer one byte shorter and the instrumented run faults *)
Theorem GEN_straight_routines_tight :
  tight_straight gen_standardToAltMapSSSE3Unsafe lens4 /\
  tight_straight gen_altToStandardMapSSSE3Unsafe lens4 /\
  tight_straight gen_mulAltMapSSSE3Unsafe lens5 /\
  tight_straight gen_mulSSSE3Unsafe lens5 /\
  tight_straight gen_mulAndAddSSSE3Unsafe lens5.
Proof. repeat split; refine (straight_tight _ _ _); vm_compute; reflexivity. Qed.
Print Assumptions GEN_straight_routines_tight.

(** * the slice loops *)

Definition gen_slice_pre (acc : bool) : list instr :=
  if acc then gen_mulAndAddSliceSSSE3Unsafe_pre else gen_mulSliceSSSE3Unsafe_pre.
Definition gen_slice_body (acc : bool) : list instr :=
  if acc then gen_mulAndAddSliceSSSE3Unsafe_body else gen_mulSliceSSSE3Unsafe_body.

Lemma gen_check_slice acc : slice_check (gen_slice_pre acc) (gen_slice_body acc) = true.
Proof. destruct acc; vm_compute; reflexivity. Qed.
Lemma gen_tcheck_slice acc : slice_tight_check (gen_slice_pre acc) (gen_slice_body acc) = true.
Proof. destruct acc; vm_compute; reflexivity. Qed.

(* under the preconditions mulByteSliceLE / mulAndAddByteSliceLE establish (len(out) == len(in),
   len(in) >= 32; a slice length fits in 64 bits; the table entry has its 128 bytes):
   (a) no access outside any buffer and no wild pointer, in the prologue and in every iteration;
   (b) every store goes to out; the table entry and in are unchanged; all lengths are unchanged *)
Theorem GEN_slice_bounds : forall acc tb inb outb fuel,
  (128 <= length tb)%nat -> length inb = length outb -> (32 <= length inb)%nat -> lenN inb < two64 ->
  let st0 := slice_state tb inb outb (lenN inb) (lenN outb) in
  let st1 := run (gen_slice_pre acc) st0 in
  let st2 := run_loop fuel AX (gen_slice_body acc) st1 in
  run_ok (gen_slice_pre acc) st0 = true /\ run_loop_ok fuel AX (gen_slice_body acc) st1 = true /\
  writes_only 2 (gen_slice_pre acc) st0 = true /\
  loop_writes_only 2 fuel AX (gen_slice_body acc) st1 = true /\
  membuf st2 0 = tb /\ membuf st2 1 = inb /\
  length (membuf st2 2) = length outb /\ map (@length N) (sm st2) = [length tb; length inb; length outb].
Proof. intros acc. exact (slice_safe_caller _ _ (gen_check_slice acc)). Qed.
Print Assumptions GEN_slice_bounds.

(* the run of Ssse3GenLink.v's [gen_chunks] (table of the constant c, fuel = dowhile_iters (len/32)) *)
Theorem GEN_chunks_run_in_bounds : forall (c : N) (acc : bool) (inb outb : bytes),
  length inb = length outb -> (32 <= length inb)%nat -> lenN inb < two64 ->
  let st0 := init_state [GPtr 0 0; GPtr 1 0; GInt (lenN inb); GInt (lenN inb);
                         GPtr 2 0; GInt (lenN outb); GInt (lenN outb)]
                        [table64 c; inb; outb] in
  let pre := if acc then gen_mulAndAddSliceSSSE3Unsafe_pre else gen_mulSliceSSSE3Unsafe_pre in
  let body := if acc then gen_mulAndAddSliceSSSE3Unsafe_body else gen_mulSliceSSSE3Unsafe_body in
  let st1 := run pre st0 in
  let fuel := match getg st1 AX with
              | GInt n => N.to_nat (dowhile_iters n)
              | GPtr _ _ => O
              end in
  let st2 := run_loop fuel AX body st1 in
  run_ok pre st0 = true /\ run_loop_ok fuel AX body st1 = true /\
  writes_only 2 pre st0 = true /\ loop_writes_only 2 fuel AX body st1 = true /\
  membuf st2 0 = table64 c /\ membuf st2 1 = inb /\ length (membuf st2 2) = length outb.
Proof.
  intros c acc inb outb Hl H32 H64 st0 pre body st1 fuel st2.
  assert (Ht : (128 <= length (table64 c))%nat) by (apply Nat.eq_le_incl; reflexivity).
  destruct (GEN_slice_bounds acc (table64 c) inb outb fuel Ht Hl H32 H64)
    as (H1 & H2 & H3 & H4 & H5 & H6 & H7 & _).
  repeat split; assumption.
Qed.
Print Assumptions GEN_chunks_run_in_bounds.

(* (c) tight: a table entry shorter than 128 bytes, or in or out shorter than the
   32 * (in_len / 32) bytes announced in the frame, and the instrumented run faults *)
Theorem GEN_slice_tight : forall acc tb inb outb li lo fuel,
  1 <= li / 32 -> li < two64 -> (N.to_nat (li / 32) <= fuel)%nat ->
  (length tb < 128)%nat \/ lenN inb < 32 * (li / 32) \/ lenN outb < 32 * (li / 32) ->
  let st0 := slice_state tb inb outb li lo in
  run_ok (gen_slice_pre acc) st0 &&
  run_loop_ok fuel AX (gen_slice_body acc) (run (gen_slice_pre acc) st0) = false.
Proof. intros acc. exact (slice_tight _ _ (gen_check_slice acc) (gen_tcheck_slice acc)). Qed.
Print Assumptions GEN_slice_tight.

Theorem GEN_slice_exact : forall acc tb inb outb li lo fuel,
  (128 <= length tb)%nat -> 1 <= li / 32 -> li < two64 -> (N.to_nat (li / 32) <= fuel)%nat ->
  let st0 := slice_state tb inb outb li lo in
  run_ok (gen_slice_pre acc) st0 &&
  run_loop_ok fuel AX (gen_slice_body acc) (run (gen_slice_pre acc) st0) = true <->
  (32 * (li / 32) <= lenN inb /\ 32 * (li / 32) <= lenN outb).
Proof. intros acc. exact (slice_exact _ _ (gen_check_slice acc) (gen_tcheck_slice acc)). Qed.
Print Assumptions GEN_slice_exact.

(* the instrumented interpreter run on a concrete state of the generated programs (not vacuous,
   and it can fail): 64-byte slices pass, a 63-byte out faults *)
Example GEN_slice_run_direct :
  let inb := map (fun k => N.of_nat ((7 * k + 3) mod 256)) (seq 0 64) in
  let outb := map (fun k => N.of_nat ((11 * k + 5) mod 256)) (seq 0 64) in
  let ok acc ob := let st0 := slice_state (table64 0x1234) inb ob 64 64 in
                   run_ok (gen_slice_pre acc) st0 &&
                   run_loop_ok 2 AX (gen_slice_body acc) (run (gen_slice_pre acc) st0) in
  (ok false outb, ok true outb, ok false (firstn 63 outb), ok true (firstn 63 outb)) =
  (true, true, false, false).
Proof. vm_compute. reflexivity. Qed.
