(* C05/C06/C10: format constants of par2/*.go and par1/header.go - against GoparGen.GoArithGen, re-translated from the Go source by tools/gotocoq on every run *)
From Coq Require Import Lia ZifyN ZifyNat ZifyBool.
From Gopar Require Import Model.Base Model.GF16 Model.GoSem Model.Parallel Model.CRC Model.CLI.
From Gopar Require Import Proofs.GF16Facts Proofs.Poly64 Proofs.GF16Tables Proofs.CRCFacts.
From GoparGen Require Import GoLinkCommon GoArithGen.
Open Scope N_scope.
Set Default Timeout 120.

(* the format constants of the source (magic sequence, the five packet type strings as [16]byte arrays with
   Go's zero fill, the PAR1 identification string) are the model's *)
From Gopar Require Model.FS Model.GoPath Model.Par2 Model.Par1.
Theorem GEN_format_constants :
  bytes_par2_expectedMagic = Model.Par2.MAGIC /\
  bytes_par2_mainPacketType = Model.Par2.TYPE_MAIN /\
  bytes_par2_fileDescriptionPacketType = Model.Par2.TYPE_FDESC /\
  bytes_par2_ifscPacketType = Model.Par2.TYPE_IFSC /\
  bytes_par2_recoveryPacketType = Model.Par2.TYPE_RECV /\
  bytes_par2_creatorPacketType = Model.Par2.TYPE_CREATOR /\
  bytes_par1_expectedID = Model.Par1.PAR1_ID.
Proof. repeat split; vm_compute; reflexivity. Qed.
Print Assumptions GEN_format_constants.

