(* The scalar (non-SSSE3) assembly kernels, re-checked against the assembly source as it is NOW.
   GoparGen.ScalarGen is regenerated from /repo/gf2p16/slice_amd64.s by `tools/asm2coq.py <s> <out> scalar` on every
   run of the C09 check (one constructor of Model/ScalarAsm.v's `sinstr` per instruction; the routine is split at
   `loop:` and must close with `CMPQ R8, CX ; JLT $0, loop ; RET`).  Part 1: the generated lists ARE the programs of
   Model/ScalarAsm.v; part 2: the theorems of Proofs/ScalarAsmFacts.v restated for the generated programs - value
   AND memory safety (every load and store of the whole run inside its buffer, input unchanged). *)
From Coq Require Import List NArith. Import ListNotations.
From Gopar Require Import Model.Base Model.GF16 Model.Kernels Model.Ssse3 Model.ScalarAsm Proofs.ScalarAsmFacts.
From GoparGen Require Import ScalarGen.
Open Scope N_scope.

Lemma gen_mul_scalar_eq :
  gen_mulByteSliceLEUnsafe_pre = mulByteSliceLEUnsafe_pre /\ gen_mulByteSliceLEUnsafe_body = mulByteSliceLEUnsafe_body.
Proof. split; vm_compute; reflexivity. Qed.
Lemma gen_muladd_scalar_eq :
  gen_mulAndAddByteSliceLEUnsafe_pre = mulAndAddByteSliceLEUnsafe_pre /\
  gen_mulAndAddByteSliceLEUnsafe_body = mulAndAddByteSliceLEUnsafe_body.
Proof. split; vm_compute; reflexivity. Qed.

(* the run of the GENERATED routine: frame and fuel as Model/ScalarAsm.v's scalar_asm_run *)
Definition gen_scalar_run (c : N) (acc : bool) (inb outb : bytes) : soutcome :=
  let st0 := sinit [GPtr 0 0; GPtr 1 0; GInt (lenN inb); GInt (lenN inb);
                    GPtr 2 0; GInt (lenN outb); GInt (lenN outb)]
                   [table1024 c; inb; outb] in
  let pre := if acc then gen_mulAndAddByteSliceLEUnsafe_pre else gen_mulByteSliceLEUnsafe_pre in
  let body := if acc then gen_mulAndAddByteSliceLEUnsafe_body else gen_mulByteSliceLEUnsafe_body in
  match run pre st0 with
  | SOk st1 => run_dowhile (S (N.to_nat (lenN inb / 2))) body st1
  | o => o
  end.

Lemma gen_scalar_run_eq c acc inb outb : gen_scalar_run c acc inb outb = scalar_asm_run c acc inb outb.
Proof.
  unfold gen_scalar_run, scalar_asm_run.
  destruct gen_mul_scalar_eq as [-> ->]. destruct gen_muladd_scalar_eq as [-> ->]. reflexivity.
Qed.

(* VALUE AND MEMORY SAFETY of the scalar routines as the assembly has them now: for every constant and every pair of
   byte-valued buffers of equal even length >= 2 (the dispatcher never calls them on an empty slice) the run ends
   normally - no load or store of the whole execution leaves its buffer -, the table and the input buffer are
   unchanged, and the output buffer holds c*in[i] (xor the previous out[i]) on little-endian 16-bit words *)
Theorem GEN_scalar_value_and_safety : forall c acc inb outb,
  c < 65536 -> wf_bytes inb -> wf_bytes outb -> length inb = length outb ->
  Nat.even (length inb) = true -> (2 <= length inb)%nat -> lenN inb < two63 ->
  exists st, gen_scalar_run c acc inb outb = SOk st /\
             nth 0 (ss_m st) [] = table1024 c /\ nth 1 (ss_m st) [] = inb /\ length (ss_m st) = 3%nat /\
             nth 2 (ss_m st) [] = kspec acc c inb outb.
Proof.
  intros c acc inb outb Hc Wi Wo Hl He H2 H63. rewrite gen_scalar_run_eq.
  destruct (scalar_asm_input_unchanged c acc inb outb Hc Wi Wo Hl He H2 H63) as (st & E & T & I & L & V).
  exists st. repeat split; try assumption.
  pose proof (scalar_asm_value c acc inb outb Hc Wi Wo Hl He H2 H63) as K. rewrite V in K. injection K as K. exact K.
Qed.
Print Assumptions GEN_scalar_value_and_safety.

(* the do-while shape: on empty buffers the body runs once and its first load faults (the Go wrapper guards it) *)
Theorem GEN_scalar_empty_faults : forall c acc, gen_scalar_run c acc [] [] = SFault.
Proof. intros c acc. rewrite gen_scalar_run_eq. apply scalar_asm_run_empty_faults. Qed.
Print Assumptions GEN_scalar_empty_faults.
