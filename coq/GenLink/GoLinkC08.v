(* C08: gf2/poly64.go and gf2p16/t.go - against GoparGen.GoArithGen, re-translated from the Go source by tools/gotocoq on every run *)
From Coq Require Import Lia ZifyN ZifyNat ZifyBool.
From Gopar Require Import Model.Base Model.GF16 Model.GoSem Model.Parallel Model.CRC Model.CLI.
From Gopar Require Import Proofs.GF16Facts Proofs.Poly64 Proofs.GF16Tables Proofs.CRCFacts.
From GoparGen Require Import GoLinkCommon GoArithGen.
Open Scope N_scope.
Set Default Timeout 120.

(** * GL1: Poly64.Plus / Minus *)

Theorem GEN_Poly64_Plus : forall p q, gen_Poly64_Plus p q = Ret (N.lxor p q).
Proof. intros p q. reflexivity. Qed.
Print Assumptions GEN_Poly64_Plus.

Theorem GEN_Poly64_Minus : forall p q, gen_Poly64_Minus p q = Ret (N.lxor p q).
Proof. intros p q. reflexivity. Qed.
Print Assumptions GEN_Poly64_Minus.

(** * GL2: Poly64.Times *)

Lemma land1_odd q : negb (N.land q 1 =? 0) = N.odd q.
Proof. destruct q as [|[q|q|]]; reflexivity. Qed.

Lemma shiftr1_lt q f : q < 2 ^ N.of_nat (S f) -> N.shiftr q 1 < 2 ^ N.of_nat f.
Proof. intros H. rewrite <- N.div2_spec. apply div2_lt. exact H. Qed.

(* any loop whose body is one round of the shift/xor product computes p64_times_loop, and leaves through
   its break within m+1 rounds when q < 2^m *)
Lemma times_loop_link (body : N * N * N -> ctl (N * N * N) N) :
  (forall p q prod, body (p, q, prod) =
     if (p =? 0) || (q =? 0) then Brk (p, q, prod)
     else Next (trunc64 (N.shiftl p 1), N.shiftr q 1, if N.odd q then N.lxor prod p else prod)) ->
  forall (m k : nat) p q prod, q < 2 ^ N.of_nat m -> (m < k)%nat ->
    exists p' q', loop k body (p, q, prod) = Next (p', q', p64_times_loop m p q prod).
Proof.
  intros Hb. induction m as [|m IH]; intros k p q prod Hq Hk;
    (destruct k as [|k]; [lia|]); cbn [loop]; rewrite Hb.
  - assert (q = 0) by (change (2 ^ N.of_nat 0) with 1 in Hq; lia). subst q. rewrite N.eqb_refl, orb_true_r.
    exists p, 0. reflexivity.
  - cbn [p64_times_loop]. destruct ((p =? 0) || (q =? 0)).
    + exists p, q. reflexivity.
    + apply IH; [apply shiftr1_lt; exact Hq|lia].
Qed.

Theorem GEN_Poly64_Times : forall p q, B64 p -> B64 q -> gen_Poly64_Times p q = Ret (Poly64_Times p q).
Proof.
  intros p q Hp Hq. unfold gen_Poly64_Times, Poly64_Times. cbv zeta.
  match goal with
  | |- seq (loop ?fu ?b _) _ = _ =>
      destruct (times_loop_link b) with (m := 64%nat) (k := fu) (p := p) (q := q) (prod := 0)
        as (p' & q' & E)
  end.
  - intros p0 q0 prod0. cbv beta iota zeta.
    destruct (p0 =? 0); [reflexivity|]. destruct (q0 =? 0); [reflexivity|].
    cbn [negb andb orb]. rewrite land1_odd.
    destruct (N.odd q0); cbv beta iota zeta delta [seq]; unfold wshl; rewrite wrap64_trunc; reflexivity.
  - exact Hq.
  - fuel_ok.
  - rewrite E. reflexivity.
Qed.
Print Assumptions GEN_Poly64_Times.

(** * GL3: ilog2 *)

Lemma ilog2_loop_link (body : N * N -> ctl (N * N) N) :
  (forall n r, r + 1 < 2 ^ 64 ->
     body (n, r) = if N.shiftr n 1 =? 0 then Brk (N.shiftr n 1, r) else Next (N.shiftr n 1, r + 1)) ->
  forall (m k : nat) n r, n < 2 ^ N.of_nat m -> (m < k)%nat -> r + N.of_nat m + 1 < 2 ^ 64 ->
    exists n', loop k body (n, r) = Next (n', ilog2_loop m n r).
Proof.
  intros Hb. induction m as [|m IH]; intros k n r Hn Hk Hr;
    (destruct k as [|k]; [lia|]); cbn [loop]; rewrite Hb by lia.
  - assert (n = 0) by (change (2 ^ N.of_nat 0) with 1 in Hn; lia). subst n. cbn [N.shiftr N.eqb].
    exists 0. reflexivity.
  - cbn [ilog2_loop]. cbv zeta. destruct (N.shiftr n 1 =? 0).
    + exists (N.shiftr n 1). reflexivity.
    + apply IH; [apply shiftr1_lt; exact Hn|lia|lia].
Qed.

Theorem GEN_ilog2 : forall n, B64 n -> gen_ilog2 n = Ret (ilog2 n).
Proof.
  intros n Hn. unfold gen_ilog2, ilog2. cbv zeta.
  match goal with
  | |- seq (loop ?fu ?b _) _ = _ =>
      destruct (ilog2_loop_link b) with (m := 64%nat) (k := fu) (n := n) (r := 0) as (n' & E)
  end.
  - intros n0 r0 Hr0. cbv beta iota zeta.
    destruct (N.shiftr n0 1 =? 0); cbv beta iota zeta delta [seq]; [reflexivity|].
    unfold wadd. rewrite wrap_small by exact Hr0. reflexivity.
  - exact Hn.
  - fuel_ok.
  - reflexivity.
  - rewrite E. reflexivity.
Qed.
Print Assumptions GEN_ilog2.

(** * GL4: Poly64.Div *)

Lemma ilog2_lt64 r : 0 < r < 2 ^ 64 -> ilog2 r = N.log2 r /\ N.log2 r < 64.
Proof.
  intros Hr. split; [apply ilog2_spec; exact Hr|]. apply N.log2_lt_pow2; lia.
Qed.

Notation div_state := (N * N * N * N * N * N * N)%type (only parsing).
Definition div_qr (st : div_state) : N * N := let '(q, r, _, _, _, _, _) := st in (q, r).

(* any loop whose body is one round of the long division computes p64_div_loop; the degree of r drops
   every round, so it leaves through a break within f+1 rounds when r < 2^f *)
Lemma div_loop_link (body : div_state -> ctl div_state (N * N)) :
  (forall q r p p2 l a b, r < 2 ^ 64 ->
     body (q, r, p, p2, l, a, b) =
       if r =? 0 then Brk (q, r, p, p2, l, a, b)
       else if ilog2 r <? l then Brk (q, r, p, p2, l, ilog2 r, b)
       else Next (N.lxor q (wshl 64 1 (wsub 64 (ilog2 r) l)),
                  N.lxor r (wshl 64 p2 (wsub 64 (ilog2 r) l)),
                  p, p2, l, ilog2 r, wsub 64 (ilog2 r) l)) ->
  forall (f k : nat) q r p p2 a b,
    0 < p2 < 2 ^ 64 -> r < 2 ^ 64 -> r < 2 ^ N.of_nat f -> (f < k)%nat ->
    exists st, loop k body (q, r, p, p2, ilog2 p2, a, b) = Next st /\
               div_qr st = p64_div_loop (S f) p2 (ilog2 p2) q r.
Proof.
  intros Hb. induction f as [|f IH]; intros k q r p p2 a b Hp2 Hr64 Hr Hk;
    (destruct k as [|k]; [lia|]); cbn [loop]; rewrite Hb by exact Hr64.
  - assert (r = 0) by (change (2 ^ N.of_nat 0) with 1 in Hr; lia). subst r. rewrite N.eqb_refl.
    eexists. split; reflexivity.
  - remember (S f) as sf eqn:Esf. cbn [p64_div_loop]. cbv zeta. subst sf.
    destruct (N.eqb_spec r 0) as [Zr|Nr]; [eexists; split; reflexivity|].
    destruct (N.ltb_spec (ilog2 r) (ilog2 p2)) as [Lt|Ge]; [eexists; split; reflexivity|].
    destruct (ilog2_lt64 r) as [Er Lr]; [lia|].
    destruct (ilog2_lt64 p2) as [Ep Lp]; [lia|].
    rewrite wsub_small by lia. unfold wshl. rewrite !wrap64_trunc.
    apply IH; [exact Hp2| | |lia].
    + apply lxor_lt_pow2; [exact Hr64|apply trunc64_lt].
    + rewrite Er, Ep in *. set (dl := N.log2 r - N.log2 p2).
      assert (Hdnz : p2 <> 0) by lia.
      assert (Hsd : N.log2 (N.shiftl p2 dl) = N.log2 r).
      { rewrite log2_shiftl_nz by exact Hdnz. unfold dl. lia. }
      assert (Hsdnz : N.shiftl p2 dl <> 0).
      { rewrite N.shiftl_eq_0_iff. exact Hdnz. }
      assert (Hsd64 : N.shiftl p2 dl < 2 ^ 64).
      { apply N.log2_lt_pow2; [lia|]. rewrite Hsd. exact Lr. }
      rewrite (trunc64_id _ Hsd64).
      eapply N.lt_le_trans;
        [apply lxor_same_log2; [exact Nr|exact Hsdnz|symmetry; exact Hsd]|].
      apply N.pow_le_mono_r; [lia|].
      assert (N.log2 r < N.of_nat (S f)) by (apply N.log2_lt_pow2; lia). lia.
Qed.

Theorem GEN_Poly64_Div : forall p p2, B64 p -> B64 p2 ->
  gen_Poly64_Div p p2 = match Poly64_Div p p2 with Ok qr => Ret qr | _ => Pnc end.
Proof.
  intros p p2 Hp Hp2. unfold gen_Poly64_Div, Poly64_Div. cbv zeta.
  destruct (N.eqb_spec p2 0) as [Z|NZ]; [reflexivity|].
  rewrite seq_Next. cbv beta iota zeta. rewrite (GEN_ilog2 p2 Hp2), call_Ret. cbv beta iota zeta.
  match goal with
  | |- seq (loop ?fu ?bd (?q0, _, _, _, _, ?a0, ?b0)) _ = _ =>
      destruct (div_loop_link bd) with (f := 64%nat) (k := fu) (q := q0) (r := p) (p := p) (p2 := p2)
                                       (a := a0) (b := b0) as (st & E & Eqr)
  end.
  - intros q r p0 d l a b Hr. cbv beta iota zeta.
    destruct (r =? 0); cbn [negb]; [reflexivity|].
    rewrite (GEN_ilog2 r Hr). cbv beta iota zeta delta [call].
    destruct (ilog2 r <? l); cbv beta iota zeta delta [seq]; reflexivity.
  - lia.
  - exact Hp.
  - exact Hp.
  - fuel_ok.
  - rewrite E, seq_Next, <- Eqr.
    destruct st as [[[[[[q' r'] x1] x2] x3] x4] x5]. reflexivity.
Qed.
Print Assumptions GEN_Poly64_Div.

(** * GL5-GL8: the table arithmetic of gf2p16/t.go *)

(* the two Go arrays, as functions of the index *)
Definition logTab : N -> N := fun i => tget (logT the_tables) i.
Definition expTab : N -> N := texp.

(* Proofs/GF16Tables.v makes the tables opaque (they are 65535-entry maps); tlog is opened for this one
   syntactic unfolding and closed again *)
Transparent tlog.
Lemma logTab_tlog t : logTab (t - 1) = tlog t.
Proof. unfold logTab, tlog. reflexivity. Qed.
Opaque tlog.

Lemma wsub16_pred t : 0 < t < 65536 -> wsub 16 t 1 = t - 1.
Proof. intros H. apply wsub_small; [lia|exact (proj2 H)]. Qed.

(* logTable[t-1] for a nonzero 16-bit t: in range, the model's tlog, and an exponent < 65535 *)
Lemma aget_log {S R} t (k : N -> ctl S R) : t <> 0 -> t < 65536 ->
  aget logTab 65535 (wsub 16 t 1) k = k (tlog t).
Proof.
  intros Nt Ht. rewrite wsub16_pred by lia. rewrite aget_in by lia. rewrite logTab_tlog. reflexivity.
Qed.
Lemma tlog_lt t : t <> 0 -> t < 65536 -> tlog t < 65535.
Proof. intros Nt Ht. apply tlog_spec. lia. Qed.

(* expTable[z % 65535] for a non-negative Go int z *)
Lemma zidx_exp {S R} (z : Z) (k : N -> ctl S R) : (0 <= z)%Z ->
  zidx (Z.rem z 65535) (fun i => aget expTab 65535 i k) = k (texp (Z.to_N z mod 65535)).
Proof.
  intros Hz. unfold zidx.
  assert (Hr : (0 <= Z.rem z 65535)%Z) by (apply Z.rem_nonneg; lia).
  apply Z.ltb_ge in Hr. rewrite Hr.
  assert (E : Z.to_N (Z.rem z 65535) = Z.to_N z mod 65535).
  { rewrite Z.rem_mod_nonneg by lia. rewrite Z2N.inj_mod by lia. reflexivity. }
  rewrite E. rewrite aget_in by (apply N.mod_lt; lia). reflexivity.
Qed.

Theorem GEN_T_Times : forall t u, B16 t -> B16 u -> gen_T_Times expTab logTab t u = Ret (T_Times t u).
Proof.
  intros t u Ht Hu. unfold gen_T_Times, T_Times. cbv zeta.
  destruct (N.eqb_spec t 0) as [Zt|Nt]; [reflexivity|].
  destruct (N.eqb_spec u 0) as [Zu|Nu]; [reflexivity|].
  cbn [orb]. rewrite seq_Next. cbv beta iota zeta.
  rewrite (aget_log t) by assumption. cbv beta zeta.
  rewrite (aget_log u) by assumption. cbv beta zeta.
  rewrite zidx_exp by lia. change (ORDER - 1) with 65535.
  do 3 f_equal. lia.
Qed.
Print Assumptions GEN_T_Times.

Theorem GEN_T_Inverse : forall t, B16 t ->
  gen_T_Inverse expTab logTab t = match T_Inverse t with Ok v => Ret v | _ => Pnc end.
Proof.
  intros t Ht. unfold gen_T_Inverse, T_Inverse. cbv zeta.
  destruct (N.eqb_spec t 0) as [Zt|Nt]; [reflexivity|].
  rewrite seq_Next. cbv beta iota zeta.
  rewrite (aget_log t) by assumption. cbv beta zeta.
  pose proof (tlog_lt t Nt Ht) as Lt.
  rewrite zidx_exp by lia. change (ORDER - 1) with 65535.
  do 3 f_equal. lia.
Qed.
Print Assumptions GEN_T_Inverse.

Theorem GEN_T_Div : forall t u, B16 t -> B16 u ->
  gen_T_Div expTab logTab t u = match T_Div t u with Ok v => Ret v | _ => Pnc end.
Proof.
  intros t u Ht Hu. unfold gen_T_Div, T_Div. cbv zeta.
  destruct (N.eqb_spec u 0) as [Zu|Nu]; [reflexivity|].
  rewrite seq_Next. cbv beta iota zeta.
  destruct (N.eqb_spec t 0) as [Zt|Nt]; [reflexivity|].
  rewrite seq_Next. cbv beta iota zeta.
  rewrite (aget_log t) by assumption. cbv beta zeta.
  rewrite (aget_log u) by assumption. cbv beta zeta.
  pose proof (tlog_lt u Nu Hu) as Lu.
  rewrite zidx_exp by lia. change (ORDER - 1) with 65535.
  do 3 f_equal. lia.
Qed.
Print Assumptions GEN_T_Div.

(* the bound on p is not used: the product is taken modulo 2^64 on both sides *)
Theorem GEN_T_Pow : forall t p, B16 t -> B32 p -> gen_T_Pow expTab logTab t p = Ret (T_Pow t p).
Proof.
  intros t p Ht _. unfold gen_T_Pow, T_Pow. cbv zeta.
  destruct (N.eqb_spec t 0) as [Zt|Nt].
  - destruct (p =? 0); reflexivity.
  - rewrite seq_Next. cbv beta iota zeta.
    rewrite (aget_log t) by assumption. cbv beta zeta.
    rewrite aget_in by (apply N.mod_lt; lia).
    unfold wmul. rewrite wrap64_trunc. reflexivity.
Qed.
Print Assumptions GEN_T_Pow.

Theorem GEN_order : Z.to_N const_gf2p16_order = ORDER.
Proof. reflexivity. Qed.
Print Assumptions GEN_order.
