(* C11: gf2p16/matrix.go, func (Matrix) rowReduceForInverse - the Gauss-Jordan elimination GENERATED from the Go
   source (GoparGen.GoArithGen.gen_rowReduceForInverse, emitted by tools/gotocoq; semantics in Model/GoSem.v)
   against the hand-written model Model/Matrix.v (find_pivot / eliminate / echelon / reduce_above /
   row_reduce_pair), instantiated with the table multiplication T_Times and gf_inv of Model/GF16.v.

   One lemma per generated loop, for ANY loop body satisfying a one-step equation; the generated bodies are
   then shown to satisfy these equations by case analysis (every index guard is false on well-formed
   operands, the pivot handed to T.Inverse is a non-zero 16-bit value). *)
From Coq Require Import Lia ZifyN ZifyNat ZifyBool List. Import ListNotations.
From Gopar Require Import Model.Base Model.GF16 Model.GoSem Model.Matrix.
From Gopar Require Import Proofs.GF16Facts Proofs.GF16Tables Proofs.LinAlg Proofs.Matrix16.
From GoparGen Require Import GoLinkCommon GoArithGen GoLinkC08.
Open Scope N_scope.
Set Default Timeout 120.

(** * Well-formed operands *)

(* the premise of the theorems: r rows, c columns, 16-bit entries.  It is (convertible to) the predicate
   [LinAlg.wfm 65536] (= [wfm16]) of the linear-algebra development. *)
Definition wfm (r c : nat) (m : list (list N)) : Prop :=
  length m = r /\ Forall (fun row => length row = c /\ Forall (fun x => x < 65536) row) m.

Lemma wfm_wfm16 r c m : wfm r c m <-> wfm16 r c m.
Proof. split; intros H; exact H. Qed.

Notation st := (list (list N) * list (list N) * Z * N * Z * N * N)%type (only parsing).
Notation res := (bool * list (list N) * list (list N))%type (only parsing).

(** * The table product on 16-bit values: closure and the field laws (through T_Times = fmul) *)

Lemma TT_lt a b : a < 65536 -> b < 65536 -> T_Times a b < 65536.
Proof. intros Ha Hb. rewrite T_Times_spec by assumption. apply fmul_lt. Qed.
Lemma TT_comm a b : a < 65536 -> b < 65536 -> T_Times a b = T_Times b a.
Proof. intros Ha Hb. rewrite !T_Times_spec by assumption. apply fmul_comm; assumption. Qed.
Lemma TT_assoc a b c : a < 65536 -> b < 65536 -> c < 65536 ->
  T_Times (T_Times a b) c = T_Times a (T_Times b c).
Proof.
  intros Ha Hb Hc. rewrite (T_Times_spec a b), (T_Times_spec b c) by assumption.
  rewrite !T_Times_spec by (try assumption; apply fmul_lt). apply fmul_assoc; assumption.
Qed.
Lemma TT_lxor_r a b c : a < 65536 -> b < 65536 -> c < 65536 ->
  T_Times a (N.lxor b c) = N.lxor (T_Times a b) (T_Times a c).
Proof.
  intros Ha Hb Hc. rewrite !T_Times_spec by (try assumption; apply lxor_lt16; assumption). apply fmul_lxor_r.
Qed.
Lemma TT_1_l a : a < 65536 -> T_Times 1 a = a.
Proof. intros Ha. rewrite T_Times_spec by (try assumption; reflexivity). apply fmul_1_l. exact Ha. Qed.
Lemma TT_inv a : 0 < a < 65536 -> T_Times a (gf_inv a) = 1.
Proof. intros Ha. rewrite T_Times_spec by (try apply gf_inv_closed; lia). apply gf_mul_inv. exact Ha. Qed.

(* T.Inverse on a non-zero 16-bit value returns the model's gf_inv *)
Lemma T_Inverse_gf_inv a : 0 < a < 65536 -> T_Inverse a = Ok (gf_inv a).
Proof. intros Ha. unfold gf_inv. destruct (T_Inverse_spec a Ha) as (i & -> & _). reflexivity. Qed.

(** * The row operations keep the operands well formed *)

Lemma swap16 r c i j m : wfm16 r c m -> (i < r)%nat -> (j < r)%nat -> wfm16 r c (swap_rows i j m).
Proof. apply swap_wf. exact one_lt_B. Qed.
Lemma scale16 r c i a m : wfm16 r c m -> (i < r)%nat -> a < 65536 -> wfm16 r c (scale_row T_Times i a m).
Proof. apply scale_wf; [exact one_lt_B|exact TT_lt]. Qed.
Lemma asr16 r c d s a m : wfm16 r c m -> (d < r)%nat -> (s < r)%nat -> a < 65536 ->
  wfm16 r c (add_scaled_row T_Times d s a m).
Proof. apply addscaled_wf; [exact one_lt_B|exact lxor_lt16|exact TT_lt]. Qed.
Lemma ent16 r c m i j : wfm16 r c m -> ent m i j < 65536.
Proof. intros H. exact (ent_wf 65536 one_lt_B r c m i j H). Qed.

(* the column count the generated guards read: the length of the first row *)
Lemma hd_len r c m : wfm16 r c m -> (0 < r)%nat -> length (hd [] m) = c.
Proof.
  intros [Hl Hf] Hr. destruct m as [|x m]; [cbn in Hl; lia|]. cbn [hd].
  inversion Hf as [|? ? Hx _]; subst. exact (proj1 Hx).
Qed.

Lemma elim_wf r c i : forall cnt lo m n, wfm16 r r m -> wfm16 r c n -> (i < r)%nat -> (lo + cnt <= r)%nat ->
  wfm16 r r (fst (eliminate T_Times i lo cnt (m, n))) /\ wfm16 r c (snd (eliminate T_Times i lo cnt (m, n))).
Proof.
  induction cnt as [|cnt IH]; intros lo m n Wm Wn Hi Hlo; cbn [eliminate fst snd].
  - split; assumption.
  - destruct (negb (ent m lo i =? 0)).
    + apply IH; try lia; apply asr16; try assumption; try lia; eapply ent16; exact Wm.
    + apply IH; try assumption; lia.
Qed.

(* the pivot found by find_pivot: in range, and the entry moved to the diagonal by the exchange is non-zero *)
Lemma pivot_facts r m i p : wfm16 r r m -> (i < r)%nat -> find_pivot m i i (r - i) = Some p ->
  (i <= p < r)%nat /\ 0 < ent (swap_rows i p m) i i < 65536.
Proof.
  intros Wm Hi E. pose proof (find_pivot_spec 65536 one_lt_B m i (r - i) i) as S. rewrite E in S.
  destruct S as [Hp Nz]. split; [lia|].
  rewrite (ent_swap 65536 one_lt_B r r) by (try exact Wm; lia). rewrite Nat.eqb_refl.
  pose proof (ent16 r r m p i Wm). lia.
Qed.

(* one column of the first pass keeps the operands well formed *)
Lemma ech_step_wf r c m n i p : wfm16 r r m -> wfm16 r c n -> (i < r)%nat ->
  find_pivot m i i (r - i) = Some p ->
  let m1 := swap_rows i p m in
  let n1 := swap_rows i p n in
  let pinv := gf_inv (ent m1 i i) in
  let mn' := eliminate T_Times i (S i) (r - S i) (scale_row T_Times i pinv m1, scale_row T_Times i pinv n1) in
  wfm16 r r (fst mn') /\ wfm16 r c (snd mn').
Proof.
  intros Wm Wn Hi E. cbv zeta. destruct (pivot_facts r m i p Wm Hi E) as [Hp Hv].
  apply elim_wf; try lia; apply scale16; try lia; try (apply swap16; try assumption; lia);
    apply gf_inv_closed; exact Hv.
Qed.

(** * Small facts about the generated index arithmetic *)

Lemma Zltb_nat a b : (Z.of_nat a <? Z.of_nat b)%Z = (a <? b)%nat.
Proof. destruct (Nat.ltb_spec a b); lia. Qed.
Lemma Zadd1 j : (Z.of_nat j + 1)%Z = Z.of_nat (S j).
Proof. lia. Qed.
Lemma guard_ok {S R} (j len : nat) (k : ctl S R) : (j < len)%nat ->
  guard (orb (Z.of_nat j <? 0)%Z (Z.of_nat len <=? Z.of_nat j)%Z) k = k.
Proof.
  intros H. replace (orb (Z.of_nat j <? 0)%Z (Z.of_nat len <=? Z.of_nat j)%Z) with false by lia. reflexivity.
Qed.

(** * The loops, for any body satisfying the step equation *)

(* "for j := lo; j < hi; j++ { t := m.At(j,i); if t != 0 { addScaledRow(j,i,t) on both } }" is the model's
   [eliminate]; the fuel only has to exceed the number of rows still to be visited *)
Lemma elim_loop_link (r c i hi : nat) (pv pi : N) (body : st -> ctl st res) :
  (i < r)%nat -> (hi <= r)%nat ->
  (forall m n j t, wfm16 r r m -> wfm16 r c n -> (j <= hi)%nat ->
     body (m, n, Z.of_nat i, pv, Z.of_nat j, pi, t) =
       if (j <? hi)%nat then
         if negb (ent m j i =? 0)
         then Next (add_scaled_row T_Times j i (ent m j i) m, add_scaled_row T_Times j i (ent m j i) n,
                    Z.of_nat i, pv, Z.of_nat (S j), pi, ent m j i)
         else Next (m, n, Z.of_nat i, pv, Z.of_nat (S j), pi, ent m j i)
       else Brk (m, n, Z.of_nat i, pv, Z.of_nat j, pi, t)) ->
  forall cnt k lo m n t, (lo + cnt = hi)%nat -> (cnt < k)%nat -> wfm16 r r m -> wfm16 r c n ->
    exists t', loop k body (m, n, Z.of_nat i, pv, Z.of_nat lo, pi, t) =
      Next (fst (eliminate T_Times i lo cnt (m, n)), snd (eliminate T_Times i lo cnt (m, n)),
            Z.of_nat i, pv, Z.of_nat hi, pi, t').
Proof.
  intros Hi Hhi Hb. induction cnt as [|cnt IH]; intros k lo m n t Hlo Hk Wm Wn;
    (destruct k as [|k]; [lia|]); cbn [loop]; rewrite Hb by (try assumption; lia).
  - replace (lo <? hi)%nat with false by lia. replace lo with hi by lia. exists t. reflexivity.
  - replace (lo <? hi)%nat with true by lia. cbn [eliminate fst snd].
    destruct (negb (ent m lo i =? 0)).
    + apply IH; try lia; apply asr16; try assumption; try lia; eapply ent16; exact Wm.
    + apply IH; try assumption; lia.
Qed.

(* "pivot = 0; for j := i; j < rows; j++ { if m.At(j,i) != 0 { swap rows i, j of both; pivot = m.At(i,i);
   break } }" is the model's [find_pivot] followed by the exchange *)
Lemma pivot_loop_link (r c i : nat) (pi t : N) (body : st -> ctl st res) :
  (i < r)%nat ->
  (forall m n pv j, wfm16 r r m -> wfm16 r c n -> (i <= j <= r)%nat ->
     body (m, n, Z.of_nat i, pv, Z.of_nat j, pi, t) =
       if (j <? r)%nat then
         if negb (ent m j i =? 0)
         then Brk (swap_rows i j m, swap_rows i j n, Z.of_nat i, ent (swap_rows i j m) i i, Z.of_nat j, pi, t)
         else Next (m, n, Z.of_nat i, pv, Z.of_nat (S j), pi, t)
       else Brk (m, n, Z.of_nat i, pv, Z.of_nat j, pi, t)) ->
  forall cnt k j m n pv, (j + cnt = r)%nat -> (i <= j)%nat -> (cnt < k)%nat -> wfm16 r r m -> wfm16 r c n ->
    loop k body (m, n, Z.of_nat i, pv, Z.of_nat j, pi, t) =
      match find_pivot m i j cnt with
      | Some p => Next (swap_rows i p m, swap_rows i p n, Z.of_nat i, ent (swap_rows i p m) i i, Z.of_nat p, pi, t)
      | None => Next (m, n, Z.of_nat i, pv, Z.of_nat r, pi, t)
      end.
Proof.
  intros Hi Hb. induction cnt as [|cnt IH]; intros k j m n pv Hj Hij Hk Wm Wn;
    (destruct k as [|k]; [lia|]); cbn [loop]; rewrite Hb by (try assumption; lia).
  - replace (j <? r)%nat with false by lia. replace j with r by lia. reflexivity.
  - replace (j <? r)%nat with true by lia. cbn [find_pivot].
    destruct (negb (ent m j i =? 0)); [reflexivity|].
    apply IH; try assumption; lia.
Qed.

(* the first pass: the outer loop over the columns is the model's [echelon]; it returns (true, _, _) - the
   singular-matrix error - exactly when the model reports the error *)
Lemma echelon_loop_link (r c : nat) (body : st -> ctl st res) :
  (forall m n i pv j pi t, wfm16 r r m -> wfm16 r c n -> (i <= r)%nat ->
     if (i <? r)%nat then
       match find_pivot m i i (r - i) with
       | None => exists m' n', body (m, n, Z.of_nat i, pv, j, pi, t) = Ret (true, m', n')
       | Some p =>
           let m1 := swap_rows i p m in
           let n1 := swap_rows i p n in
           let pinv := gf_inv (ent m1 i i) in
           let mn' := eliminate T_Times i (S i) (r - S i)
                        (scale_row T_Times i pinv m1, scale_row T_Times i pinv n1) in
           exists pv' j' pi' t',
             body (m, n, Z.of_nat i, pv, j, pi, t) = Next (fst mn', snd mn', Z.of_nat (S i), pv', j', pi', t')
       end
     else body (m, n, Z.of_nat i, pv, j, pi, t) = Brk (m, n, Z.of_nat i, pv, j, pi, t)) ->
  forall fuel k i m n pv j pi t, (i + fuel = r)%nat -> (fuel < k)%nat -> wfm16 r r m -> wfm16 r c n ->
    match echelon T_Times gf_inv r i fuel (m, n) with
    | Ok mn' => wfm16 r r (fst mn') /\ wfm16 r c (snd mn') /\
                exists pv' j' pi' t',
                  loop k body (m, n, Z.of_nat i, pv, j, pi, t) = Next (fst mn', snd mn', Z.of_nat r, pv', j', pi', t')
    | Err _ => exists m' n', loop k body (m, n, Z.of_nat i, pv, j, pi, t) = Ret (true, m', n')
    | Panic _ => False
    end.
Proof.
  intros Hb. induction fuel as [|fuel IH]; intros k i m n pv j pi t Hi Hk Wm Wn;
    (destruct k as [|k]; [lia|]); cbn [loop echelon fst snd];
    pose proof (Hb m n i pv j pi t Wm Wn ltac:(lia)) as Hs.
  - replace (i <? r)%nat with false in Hs by lia. rewrite Hs. replace i with r by lia.
    split; [exact Wm|]. split; [exact Wn|]. exists pv, j, pi, t. reflexivity.
  - replace (i <? r)%nat with true in Hs by lia.
    destruct (find_pivot m i i (r - i)) as [p|] eqn:Ep.
    + pose proof (ech_step_wf r c m n i p Wm Wn ltac:(lia) Ep) as Ws. cbv zeta in Hs, Ws.
      destruct Hs as (pv' & j' & pi' & t' & Hs). destruct Ws as [Wm' Wn']. rewrite Hs.
      destruct (eliminate T_Times i (S i) (r - S i) _) as [m' n']. cbn [fst snd] in *.
      exact (IH k (S i) m' n' pv' j' pi' t' ltac:(lia) ltac:(lia) Wm' Wn').
    + destruct Hs as (m' & n' & Hs). rewrite Hs. exists m', n'. reflexivity.
Qed.

(* the second pass: the outer loop is the model's [reduce_above] *)
Lemma reduce_loop_link (r c : nat) (body : st -> ctl st res) :
  (forall m n i pv j pi t, wfm16 r r m -> wfm16 r c n -> (i <= r)%nat ->
     if (i <? r)%nat then
       exists pv' j' pi' t',
         body (m, n, Z.of_nat i, pv, j, pi, t) =
           Next (fst (eliminate T_Times i 0 i (m, n)), snd (eliminate T_Times i 0 i (m, n)),
                 Z.of_nat (S i), pv', j', pi', t')
     else body (m, n, Z.of_nat i, pv, j, pi, t) = Brk (m, n, Z.of_nat i, pv, j, pi, t)) ->
  forall fuel k i m n pv j pi t, (i + fuel = r)%nat -> (fuel < k)%nat -> wfm16 r r m -> wfm16 r c n ->
    exists pv' j' pi' t',
      loop k body (m, n, Z.of_nat i, pv, j, pi, t) =
        Next (fst (reduce_above T_Times i fuel (m, n)), snd (reduce_above T_Times i fuel (m, n)),
              Z.of_nat r, pv', j', pi', t').
Proof.
  intros Hb. induction fuel as [|fuel IH]; intros k i m n pv j pi t Hi Hk Wm Wn;
    (destruct k as [|k]; [lia|]); cbn [loop reduce_above fst snd];
    pose proof (Hb m n i pv j pi t Wm Wn ltac:(lia)) as Hs.
  - replace (i <? r)%nat with false in Hs by lia. rewrite Hs. replace i with r by lia.
    exists pv, j, pi, t. reflexivity.
  - replace (i <? r)%nat with true in Hs by lia.
    destruct Hs as (pv' & j' & pi' & t' & Hs). rewrite Hs.
    destruct (elim_wf r c i i 0%nat m n Wm Wn ltac:(lia) ltac:(lia)) as [Wm' Wn'].
    destruct (eliminate T_Times i 0 i (m, n)) as [m' n']. cbn [fst snd] in *.
    exact (IH k (S i) m' n' pv' j' pi' t' ltac:(lia) ltac:(lia) Wm' Wn').
Qed.

(** * The generated function: the two passes, each outer body shown to satisfy its step equation *)

(* [rows] = r; the fuel S (length m) of each of the five loops exceeds its iteration count (at most r);
   r = 0 needs no special treatment: both outer loops leave at once and no guard is evaluated *)
Lemma gen_run m n r c : wfm16 r r m -> wfm16 r c n ->
  match echelon T_Times gf_inv r 0 r (m, n) with
  | Ok mn1 => gen_rowReduceForInverse T_Times expTab logTab m n =
              Ret (false, fst (reduce_above T_Times 0 r mn1), snd (reduce_above T_Times 0 r mn1))
  | Err _ => exists m' n', gen_rowReduceForInverse T_Times expTab logTab m n = Ret (true, m', n')
  | Panic _ => False
  end.
Proof.
  intros Wm Wn. unfold gen_rowReduceForInverse. cbv zeta.
  match goal with |- context [seq (loop ?fu ?b ?s) ?k] => set (B1 := b); set (K1 := k) end.
  assert (S1 : forall m n i pv j pi t, wfm16 r r m -> wfm16 r c n -> (i <= r)%nat ->
     if (i <? r)%nat then
       match find_pivot m i i (r - i) with
       | None => exists m' n', B1 (m, n, Z.of_nat i, pv, j, pi, t) = Ret (true, m', n')
       | Some p =>
           let m1 := swap_rows i p m in
           let n1 := swap_rows i p n in
           let pinv := gf_inv (ent m1 i i) in
           let mn' := eliminate T_Times i (S i) (r - S i)
                        (scale_row T_Times i pinv m1, scale_row T_Times i pinv n1) in
           exists pv' j' pi' t',
             B1 (m, n, Z.of_nat i, pv, j, pi, t) = Next (fst mn', snd mn', Z.of_nat (S i), pv', j', pi', t')
       end
     else B1 (m, n, Z.of_nat i, pv, j, pi, t) = Brk (m, n, Z.of_nat i, pv, j, pi, t)).
  { clear. intros m n i pv j pi t Wm Wn Hi. pose proof (proj1 Wm) as Lm. pose proof (proj1 Wn) as Ln.
    unfold B1. cbv beta iota zeta. rewrite Zltb_nat, Lm.
    destruct (Nat.ltb_spec i r) as [Lt|Ge]; [|reflexivity].
    match goal with |- context [loop ?fu ?b _] => set (bP := b) end.
    assert (SP : forall m n pv j, wfm16 r r m -> wfm16 r c n -> (i <= j <= r)%nat ->
     bP (m, n, Z.of_nat i, pv, Z.of_nat j, pi, t) =
       if (j <? r)%nat then
         if negb (ent m j i =? 0)
         then Brk (swap_rows i j m, swap_rows i j n, Z.of_nat i, ent (swap_rows i j m) i i, Z.of_nat j, pi, t)
         else Next (m, n, Z.of_nat i, pv, Z.of_nat (S j), pi, t)
       else Brk (m, n, Z.of_nat i, pv, Z.of_nat j, pi, t)).
    { clear - Lt. intros m n pv j Wm Wn Hj. pose proof (proj1 Wm) as Lm. pose proof (proj1 Wn) as Ln.
      unfold bP. cbv beta iota zeta. rewrite !Nat2Z.id, Zltb_nat, Lm.
      destruct (Nat.ltb_spec j r) as [Ltj|Gej]; [|reflexivity].
      pose proof (hd_len r r m Wm ltac:(lia)) as Hh.
      rewrite !guard_ok by lia.
      destruct (negb (ent m j i =? 0)).
      - pose proof (swap16 r r i j m Wm Lt Ltj) as Wm1. pose proof (proj1 Wm1) as Lm1.
        pose proof (hd_len r r _ Wm1 ltac:(lia)) as Hh1.
        rewrite !guard_ok by lia. reflexivity.
      - cbn [seq]. rewrite Zadd1. reflexivity. }
    rewrite (pivot_loop_link r c i pi t bP Lt SP (r - i) (S r) i m n 0 ltac:(lia) ltac:(lia) ltac:(lia) Wm Wn).
    clearbody bP. clear SP.
    destruct (find_pivot m i i (r - i)) as [p|] eqn:Ep.
    - destruct (pivot_facts r m i p Wm Lt Ep) as [Hp Hv].
      cbn [seq]. cbv beta iota zeta.
      pose proof (swap16 r r i p m Wm Lt ltac:(lia)) as Wm1. pose proof (swap16 r c i p n Wn Lt ltac:(lia)) as Wn1.
      set (m1 := swap_rows i p m) in *. set (n1 := swap_rows i p n) in *. set (pvt := ent m1 i i) in *.
      replace (pvt =? 0) with false by lia. cbn [seq]. cbv beta iota.
      rewrite GEN_T_Inverse by lia. rewrite T_Inverse_gf_inv by exact Hv. rewrite call_Ret. cbv beta.
      pose proof (gf_inv_closed pvt Hv) as Hpi. set (pinv := gf_inv pvt) in *.
      rewrite !Nat2Z.id.
      pose proof (scale16 r r i pinv m1 Wm1 Lt Hpi) as Wm2. pose proof (scale16 r c i pinv n1 Wn1 Lt Hpi) as Wn2.
      pose proof (proj1 Wm1) as Lm1. pose proof (proj1 Wn1) as Ln1. pose proof (proj1 Wm2) as Lm2.
      rewrite !guard_ok by lia. rewrite Lm2, Zadd1.
      set (m2 := scale_row T_Times i pinv m1) in *. set (n2 := scale_row T_Times i pinv n1) in *.
      match goal with |- context [loop ?fu ?b _] => set (bE := b) end.
      assert (SE : forall m n j t, wfm16 r r m -> wfm16 r c n -> (j <= r)%nat ->
        bE (m, n, Z.of_nat i, pvt, Z.of_nat j, pinv, t) =
         if (j <? r)%nat then
           if negb (ent m j i =? 0)
           then Next (add_scaled_row T_Times j i (ent m j i) m, add_scaled_row T_Times j i (ent m j i) n,
                      Z.of_nat i, pvt, Z.of_nat (S j), pinv, ent m j i)
           else Next (m, n, Z.of_nat i, pvt, Z.of_nat (S j), pinv, ent m j i)
         else Brk (m, n, Z.of_nat i, pvt, Z.of_nat j, pinv, t)).
      { clear - Lt. intros ma na j ta Wma Wna Hj. pose proof (proj1 Wma) as Lma. pose proof (proj1 Wna) as Lna.
        unfold bE. cbv beta iota zeta. rewrite !Nat2Z.id, Zltb_nat, Lma.
        destruct (Nat.ltb_spec j r) as [Ltj|Gej]; [|reflexivity].
        pose proof (hd_len r r ma Wma ltac:(lia)) as Hh.
        rewrite !guard_ok by lia.
        destruct (negb (ent ma j i =? 0)); cbn [seq]; rewrite Zadd1; reflexivity. }
      destruct (elim_loop_link r c i r pvt pinv bE Lt ltac:(lia) SE (r - S i)%nat (S r) (S i) m2 n2 t
                  ltac:(lia) ltac:(lia) Wm2 Wn2) as (t' & EE).
      rewrite EE. cbn [seq]. cbv beta iota. rewrite Zadd1. do 4 eexists. reflexivity.
    - cbn [seq]. cbv beta iota. cbn [N.eqb seq]. exists m, n. reflexivity. }
  pose proof (proj1 Wm) as Lm.
  pose proof (echelon_loop_link r c B1 S1 r (S (length m)) 0%nat m n 0 0%Z 0 0 ltac:(lia) ltac:(lia) Wm Wn) as E1.
  clearbody B1. clear S1.
  change (Z.of_nat 0) with 0%Z in E1.
  destruct (echelon T_Times gf_inv r 0 r (m, n)) as [mn1|e|p]; [| |exact E1].
  2:{ destruct E1 as (m' & n' & E1). exists m', n'. rewrite E1. reflexivity. }
  destruct E1 as (Wm1 & Wn1 & pv1 & j1 & pi1 & t1 & E1). rewrite E1. cbn [seq]. unfold K1. clear K1 E1. cbv beta iota.
  match goal with |- context [seq (loop ?fu ?b ?s) ?k] => set (B2 := b) end.
  assert (S2 : forall m n i pv j pi t, wfm16 r r m -> wfm16 r c n -> (i <= r)%nat ->
     if (i <? r)%nat then
       exists pv' j' pi' t',
         B2 (m, n, Z.of_nat i, pv, j, pi, t) =
           Next (fst (eliminate T_Times i 0 i (m, n)), snd (eliminate T_Times i 0 i (m, n)),
                 Z.of_nat (S i), pv', j', pi', t')
     else B2 (m, n, Z.of_nat i, pv, j, pi, t) = Brk (m, n, Z.of_nat i, pv, j, pi, t)).
  { clear. intros m n i pv j pi t Wm Wn Hi. pose proof (proj1 Wm) as Lm. pose proof (proj1 Wn) as Ln.
    unfold B2. cbv beta iota zeta. rewrite Zltb_nat, Lm.
    destruct (Nat.ltb_spec i r) as [Lt|Ge]; [|reflexivity].
    match goal with |- context [loop ?fu ?b _] => set (bE := b) end.
    assert (SE : forall ma na ja ta, wfm16 r r ma -> wfm16 r c na -> (ja <= i)%nat ->
      bE (ma, na, Z.of_nat i, pv, Z.of_nat ja, pi, ta) =
       if (ja <? i)%nat then
         if negb (ent ma ja i =? 0)
         then Next (add_scaled_row T_Times ja i (ent ma ja i) ma, add_scaled_row T_Times ja i (ent ma ja i) na,
                    Z.of_nat i, pv, Z.of_nat (S ja), pi, ent ma ja i)
         else Next (ma, na, Z.of_nat i, pv, Z.of_nat (S ja), pi, ent ma ja i)
       else Brk (ma, na, Z.of_nat i, pv, Z.of_nat ja, pi, ta)).
    { clear - Lt. intros ma na ja ta Wma Wna Hj. pose proof (proj1 Wma) as Lma. pose proof (proj1 Wna) as Lna.
      unfold bE. cbv beta iota zeta. rewrite !Nat2Z.id, Zltb_nat.
      destruct (Nat.ltb_spec ja i) as [Ltj|Gej]; [|reflexivity].
      pose proof (hd_len r r ma Wma ltac:(lia)) as Hh.
      rewrite !guard_ok by lia.
      destruct (negb (ent ma ja i =? 0)); cbn [seq]; rewrite Zadd1; reflexivity. }
    destruct (elim_loop_link r c i i pv pi bE Lt ltac:(lia) SE i (S r) 0%nat m n t
                ltac:(lia) ltac:(lia) Wm Wn) as (t' & EE).
    change (Z.of_nat 0) with 0%Z in EE.
    rewrite EE. cbn [seq]. cbv beta iota. rewrite Zadd1. do 4 eexists. reflexivity. }
  destruct (reduce_loop_link r c B2 S2 r (S (length (fst mn1))) 0%nat (fst mn1) (snd mn1) pv1 j1 pi1 t1
              ltac:(lia) ltac:(rewrite (proj1 Wm1); lia) Wm1 Wn1) as (pv2 & j2 & pi2 & t2 & E2).
  change (Z.of_nat 0) with 0%Z in E2. rewrite E2. cbn [seq]. cbv beta iota.
  rewrite <- surjective_pairing. reflexivity.
Qed.

(** * GL12: the generated rowReduceForInverse is the model's row_reduce_pair *)

Theorem GEN_rowReduceForInverse : forall m n r c,
  wfm r r m -> wfm r c n ->
  match row_reduce_pair T_Times gf_inv m n with
  | Ok (m', n') => gen_rowReduceForInverse T_Times expTab logTab m n = Ret (false, m', n')
  | Err _ => exists m' n', gen_rowReduceForInverse T_Times expTab logTab m n = Ret (true, m', n')
  | Panic _ => False
  end.
Proof.
  intros m n r c Wm Wn. pose proof (gen_run m n r c Wm Wn) as G.
  unfold row_reduce_pair. rewrite (proj1 Wm).
  destruct (echelon T_Times gf_inv r 0 r (m, n)) as [mn1|e|p]; cbn [obind]; try exact G.
  destruct (reduce_above T_Times 0 r mn1) as [m' n']. exact G.
Qed.
Print Assumptions GEN_rowReduceForInverse.

(** * The model over the table product is the model over the specification product fmul *)

Lemma vscale_TT a v : a < 65536 -> Forall (fun x => x < 65536) v -> vscale T_Times a v = vscale fmul a v.
Proof.
  intros Ha Hv. unfold vscale. apply map_ext_in. intros x Hx. apply T_Times_spec; [exact Ha|].
  eapply Forall_forall in Hv; eauto.
Qed.
Lemma scale_TT r c i a m : wfm16 r c m -> (i < r)%nat -> a < 65536 ->
  scale_row T_Times i a m = scale_row fmul i a m.
Proof.
  intros Wm Hi Ha. unfold scale_row. f_equal. apply vscale_TT; [exact Ha|].
  exact (proj2 (wfm_nth 65536 one_lt_B r c m i Wm Hi)).
Qed.
Lemma asr_TT r c d s a m : wfm16 r c m -> (s < r)%nat -> a < 65536 ->
  add_scaled_row T_Times d s a m = add_scaled_row fmul d s a m.
Proof.
  intros Wm Hs Ha. unfold add_scaled_row. do 2 f_equal. apply vscale_TT; [exact Ha|].
  exact (proj2 (wfm_nth 65536 one_lt_B r c m s Wm Hs)).
Qed.
Lemma eliminate_TT r c i : forall cnt lo m n, wfm16 r r m -> wfm16 r c n -> (i < r)%nat -> (lo + cnt <= r)%nat ->
  eliminate T_Times i lo cnt (m, n) = eliminate fmul i lo cnt (m, n).
Proof.
  induction cnt as [|cnt IH]; intros lo m n Wm Wn Hi Hlo; cbn [eliminate fst snd]; [reflexivity|].
  pose proof (ent16 r r m lo i Wm) as He.
  destruct (negb (ent m lo i =? 0)).
  - rewrite <- (asr_TT r r), <- (asr_TT r c) by assumption.
    apply IH; try lia; apply asr16; try assumption; lia.
  - apply IH; try assumption; lia.
Qed.
Lemma echelon_TT r c : forall fuel i m n, wfm16 r r m -> wfm16 r c n -> (i + fuel = r)%nat ->
  echelon T_Times gf_inv r i fuel (m, n) = echelon fmul gf_inv r i fuel (m, n).
Proof.
  induction fuel as [|fuel IH]; intros i m n Wm Wn Hi; cbn [echelon fst snd]; [reflexivity|].
  destruct (find_pivot m i i (r - i)) as [p|] eqn:Ep; [|reflexivity]. cbv zeta.
  assert (Lt : (i < r)%nat) by lia.
  destruct (pivot_facts r m i p Wm Lt Ep) as [Hp Hv].
  pose proof (ech_step_wf r c m n i p Wm Wn Lt Ep) as Ws. cbv zeta in Ws.
  pose proof (swap16 r r i p m Wm Lt ltac:(lia)) as Wm1. pose proof (swap16 r c i p n Wn Lt ltac:(lia)) as Wn1.
  pose proof (gf_inv_closed _ Hv) as Hpi.
  rewrite <- (scale_TT r r), <- (scale_TT r c) by assumption.
  rewrite <- (eliminate_TT r c) by (try apply scale16; try assumption; lia).
  destruct (eliminate T_Times i (S i) (r - S i) _) as [m' n']. cbn [fst snd] in Ws.
  apply IH; try lia; apply Ws.
Qed.
Lemma reduce_above_TT r c : forall fuel i m n, wfm16 r r m -> wfm16 r c n -> (i + fuel = r)%nat ->
  reduce_above T_Times i fuel (m, n) = reduce_above fmul i fuel (m, n).
Proof.
  induction fuel as [|fuel IH]; intros i m n Wm Wn Hi; cbn [reduce_above]; [reflexivity|].
  rewrite <- (eliminate_TT r c) by (try assumption; lia).
  destruct (elim_wf r c i i 0%nat m n Wm Wn ltac:(lia) ltac:(lia)) as [Wm' Wn'].
  destruct (eliminate T_Times i 0 i (m, n)) as [m' n']. cbn [fst snd] in *.
  apply IH; try assumption; lia.
Qed.
Lemma echelon_wf r c : forall fuel i m n mn', wfm16 r r m -> wfm16 r c n -> (i + fuel = r)%nat ->
  echelon T_Times gf_inv r i fuel (m, n) = Ok mn' -> wfm16 r r (fst mn') /\ wfm16 r c (snd mn').
Proof.
  induction fuel as [|fuel IH]; intros i m n mn' Wm Wn Hi; cbn [echelon fst snd].
  - intros E. inversion E; subst. split; assumption.
  - destruct (find_pivot m i i (r - i)) as [p|] eqn:Ep; [|discriminate]. cbv zeta.
    pose proof (ech_step_wf r c m n i p Wm Wn ltac:(lia) Ep) as Ws. cbv zeta in Ws.
    destruct (eliminate T_Times i (S i) (r - S i) _) as [m' n']. cbn [fst snd] in Ws.
    apply IH; try lia; apply Ws.
Qed.
Lemma row_reduce_pair_TT r c m n : wfm16 r r m -> wfm16 r c n ->
  row_reduce_pair T_Times gf_inv m n = row_reduce_pair fmul gf_inv m n.
Proof.
  intros Wm Wn. unfold row_reduce_pair. rewrite (proj1 Wm).
  rewrite <- (echelon_TT r c) by (try assumption; lia).
  destruct (echelon T_Times gf_inv r 0 r (m, n)) as [[m1 n1]|e|p] eqn:E; cbn [obind]; try reflexivity.
  destruct (echelon_wf r c r 0%nat m n _ Wm Wn ltac:(lia) E) as [Wm1 Wn1].
  f_equal. apply (reduce_above_TT r c); try assumption; lia.
Qed.

(** * GL13: what a (false, m', n') result of the generated code means *)

(* the generated function returning err = nil yields the model's pair; the left part is the identity and
   the right part is THE solution X of m X = n (over the table product, which is the specification product
   fmul on 16-bit values); it is the result of the exported RowReduce16 = RowReduceForInverse fmul gf_inv of
   Model/RS16.v, about which Props/C11.v (C11_reduce) speaks *)
Theorem GEN_rowReduce_inverse_correct : forall m n r c m' n',
  wfm r r m -> wfm r c n ->
  gen_rowReduceForInverse T_Times expTab logTab m n = Ret (false, m', n') ->
  row_reduce_pair T_Times gf_inv m n = Ok (m', n') /\
  RS16.RowReduce16 m n = Ok n' /\
  m' = identity r /\ wfm r c n' /\ RS16.mmul16 c m n' = n /\
  (forall X, wfm r c X -> RS16.mmul16 c m X = n -> X = n').
Proof.
  intros m n r c m' n' Wm Wn G.
  pose proof (GEN_rowReduceForInverse m n r c Wm Wn) as L.
  pose proof (row_reduce_pair_TT r c m n Wm Wn) as ET.
  pose proof (row_reduce_pair_spec 65536 fmul gf_inv one_lt_B lxor_lt16 fmul_lt' fmul_comm fmul_assoc
                fmul_lxor_r' fmul_1_l gf_inv_closed gf_mul_inv r c m n Wm Wn) as Sp.
  assert (ER : RS16.RowReduce16 m n = do mn <- row_reduce_pair fmul gf_inv m n; Ok (snd mn)).
  { unfold RS16.RowReduce16, RowReduceForInverse.
    rewrite (is_square_wf 65536 one_lt_B r m Wm), (proj1 Wm), (proj1 Wn), Nat.eqb_refl. reflexivity. }
  rewrite <- ET in Sp, ER.
  destruct (row_reduce_pair T_Times gf_inv m n) as [[m1 n1]|e|p].
  - rewrite G in L. inversion L; subst m1 n1. cbn [fst snd obind] in *.
    destruct Sp as (S1 & S2 & S3 & S4).
    split; [reflexivity|]. split; [exact ER|]. split; [exact S1|]. split; [exact S2|]. split; [exact S3|exact S4].
  - destruct L as (m2 & n2 & L). rewrite G in L. discriminate L.
  - destruct L.
Qed.
Print Assumptions GEN_rowReduce_inverse_correct.

(** * Examples: a 3x3 system needing a row exchange, and a singular 2x2 *)

Example GEN_rowReduce_example :
  let m := [[0; 2; 3]; [1; 5; 6]; [7; 8; 0]] in
  let id3 := [[1; 0; 0]; [0; 1; 0]; [0; 0; 1]] in
  (exists m' n', row_reduce_pair T_Times gf_inv m id3 = Ok (m', n') /\
                 gen_rowReduceForInverse T_Times expTab logTab m id3 = Ret (false, m', n') /\ m' = id3)
  /\ row_reduce_pair T_Times gf_inv [[1; 2]; [2; 4]] [[1; 0]; [0; 1]] = Err ESingular
  /\ (exists m' n', gen_rowReduceForInverse T_Times expTab logTab [[1; 2]; [2; 4]] [[1; 0]; [0; 1]] = Ret (true, m', n')).
Proof.
  cbv zeta. split; [|split].
  - eexists. eexists. split; [vm_compute; reflexivity|]. split; vm_compute; reflexivity.
  - vm_compute. reflexivity.
  - eexists. eexists. vm_compute. reflexivity.
Qed.
