(* C12: rsec16/matrix.go calculateParallelParams - against GoparGen.GoArithGen, re-translated from the Go source by tools/gotocoq on every run *)
From Coq Require Import Lia ZifyN ZifyNat ZifyBool.
From Gopar Require Import Model.Base Model.GF16 Model.GoSem Model.Parallel Model.CRC Model.CLI.
From Gopar Require Import Proofs.GF16Facts Proofs.Poly64 Proofs.GF16Tables Proofs.CRCFacts.
From GoparGen Require Import GoLinkCommon GoArithGen.
Open Scope N_scope.
Set Default Timeout 120.

(** * GL9: calculateParallelParams *)

(* the complete behaviour of the generated function: Go panics on the three integer divisions by zero,
   otherwise it returns the model's pair *)
Theorem GEN_calculateParallelParams_total : forall total g minLen divisor : Z,
  gen_calculateParallelParams total g minLen divisor =
    if (g =? 0)%Z then Pnc
    else if (divisor =? 0)%Z then Pnc
    else if (fst (par_params total g minLen divisor) =? 0)%Z then Pnc
    else Ret (par_params total g minLen divisor).
Proof.
  intros total g minLen divisor. unfold gen_calculateParallelParams, par_params, guard. cbv zeta.
  destruct (g =? 0)%Z; [reflexivity|].
  destruct (_ <? minLen)%Z; rewrite seq_Next; cbv beta iota zeta;
    (destruct (divisor =? 0)%Z; [reflexivity|]);
    (destruct (Z.rem _ divisor =? 0)%Z; cbn [negb]; rewrite seq_Next; cbv beta iota zeta; cbn [fst]);
    match goal with |- context [if ?c then Pnc else _] => destruct c end; reflexivity.
Qed.
Print Assumptions GEN_calculateParallelParams_total.

Theorem GEN_calculateParallelParams : forall total g minLen divisor : Z,
  g <> 0%Z -> divisor <> 0%Z -> fst (par_params total g minLen divisor) <> 0%Z ->
  gen_calculateParallelParams total g minLen divisor = Ret (par_params total g minLen divisor).
Proof.
  intros total g minLen divisor Hg Hd Hp. rewrite GEN_calculateParallelParams_total.
  apply Z.eqb_neq in Hg, Hd, Hp. rewrite Hg, Hd, Hp. reflexivity.
Qed.
Print Assumptions GEN_calculateParallelParams.

(* exactly when it panics: numGoroutines = 0, or perGoroutineLengthDivisor = 0, or the rounded
   perGoroutineLength is 0 (Go: integer divide by zero) *)
Theorem GEN_calculateParallelParams_panics : forall total g minLen divisor : Z,
  g = 0%Z \/ divisor = 0%Z \/ fst (par_params total g minLen divisor) = 0%Z ->
  gen_calculateParallelParams total g minLen divisor = Pnc.
Proof.
  intros total g minLen divisor H. rewrite GEN_calculateParallelParams_total.
  destruct (Z.eqb_spec g 0) as [|Ng]; [reflexivity|].
  destruct (Z.eqb_spec divisor 0) as [|Nd]; [reflexivity|].
  destruct (Z.eqb_spec (fst (par_params total g minLen divisor)) 0) as [|Np]; [reflexivity|].
  destruct H as [H|[H|H]]; contradiction.
Qed.
Print Assumptions GEN_calculateParallelParams_panics.

