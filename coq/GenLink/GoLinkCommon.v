(* Link between the Gallina GENERATED from the Go sources (GoparGen.GoArithGen, emitted by tools/gotocoq from
   gf2/poly64.go, gf2p16/t.go, rsec16/matrix.go, par2/crc32.go, par2cmdline/exit_codes.go; semantics in
   Model/GoSem.v) and the hand-written model (Model/GF16.v, Model/Parallel.v, Model/CRC.v, Model/CLI.v).

   Every generated loop is handled through a lemma about [loop] for ANY body that satisfies a one-step
   equation (the "body spec"); the generated body is then shown to satisfy that equation by case analysis.
   So the proofs depend on the shape of the generated function (one loop, the state tuple, the final
   continuation) but not on the exact text of its body. *)
From Coq Require Import Lia ZifyN ZifyNat ZifyBool.
From Gopar Require Import Model.Base Model.GF16 Model.GoSem Model.Parallel Model.CRC Model.CLI.
From Gopar Require Import Proofs.GF16Facts Proofs.Poly64 Proofs.GF16Tables Proofs.CRCFacts.
Open Scope N_scope.
Set Default Timeout 120.

Notation B64 x := (x < 2 ^ 64) (only parsing).
Notation B32 x := (x < 2 ^ 32) (only parsing).
Notation B16 x := (x < 65536) (only parsing).
Notation B8 x := (x < 256) (only parsing).

(** * The wrap-around operators on values that do not wrap *)

Lemma wrap_small b x : x < 2 ^ b -> wrap b x = x.
Proof. intros H. unfold wrap. apply N.mod_small. exact H. Qed.

Lemma wrap64_trunc x : wrap 64 x = trunc64 x.
Proof. unfold wrap. symmetry. apply trunc64_mod. Qed.

Lemma wsub_small b x y : y <= x -> x < 2 ^ b -> wsub b x y = x - y.
Proof.
  intros Hyx Hx. unfold wsub, wrap.
  assert (Hy : y < 2 ^ b) by lia.
  rewrite (N.mod_small y) by exact Hy.
  replace (x + 2 ^ b - y) with ((x - y) + 1 * 2 ^ b) by lia.
  rewrite N.mod_add by lia. apply N.mod_small. lia.
Qed.

Lemma aget_in {S R} (arr : N -> N) (len i : N) (k : N -> ctl S R) :
  i < len -> aget arr len i k = k (arr i).
Proof. intros H. unfold aget. apply N.ltb_lt in H. rewrite H. reflexivity. Qed.

Lemma seq_Next {S R} (s : S) (k : S -> ctl S R) : seq (Next s) k = k s.
Proof. reflexivity. Qed.
Lemma call_Ret {S R S' A} (a : A) (k : A -> ctl S R) : call (Ret a : ctl S' A) k = k a.
Proof. reflexivity. Qed.

Lemma fuel_lt (m : nat) (n : N) : (Nat.ltb m (N.to_nat n)) = true -> (m < N.to_nat n)%nat.
Proof. apply Nat.ltb_lt. Qed.
Ltac fuel_ok := apply fuel_lt; vm_compute; reflexivity.

