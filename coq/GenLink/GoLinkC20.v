(* C20: par2cmdline/exit_codes.go - against GoparGen.GoArithGen, re-translated from the Go source by tools/gotocoq on every run *)
From Coq Require Import Lia ZifyN ZifyNat ZifyBool.
From Gopar Require Import Model.Base Model.GF16 Model.GoSem Model.Parallel Model.CRC Model.CLI.
From Gopar Require Import Proofs.GF16Facts Proofs.Poly64 Proofs.GF16Tables Proofs.CRCFacts.
From GoparGen Require Import GoLinkCommon GoArithGen.
Open Scope N_scope.
Set Default Timeout 120.

(** * GL11: constants *)

Theorem GEN_exit_codes :
  (Z.to_N const_par2cmdline_ExitSuccess, Z.to_N const_par2cmdline_ExitRepairPossible,
   Z.to_N const_par2cmdline_ExitRepairNotPossible, Z.to_N const_par2cmdline_ExitInvalidCommandLineArguments,
   Z.to_N const_par2cmdline_ExitFileIOError, Z.to_N const_par2cmdline_ExitLogicError)
  = (EXIT_OK, EXIT_REPAIR_POSSIBLE, EXIT_REPAIR_NOT_POSSIBLE, EXIT_USAGE, EXIT_FILEIO, EXIT_LOGIC).
Proof. reflexivity. Qed.
Print Assumptions GEN_exit_codes.

