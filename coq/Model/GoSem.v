(* Semantics prelude for the Gallina code emitted by tools/gotocoq (the Go -> Gallina translator).
   Unsigned Go integers of width b are N with explicit wrap-around; Go's int is Z (64-bit overflow of int is
   not modelled: the translated functions compute on small ints); / and % on int truncate (Z.quot, Z.rem).
   Control flow is a result type threaded through statement sequences; loops take explicit fuel and report
   its exhaustion as [Fuel], which no theorem treats as a normal result. *)
From Coq Require Import NArith ZArith List.
Import ListNotations.
Open Scope N_scope.

Definition wrap (b : N) (x : N) : N := x mod 2 ^ b.
Definition wadd (b x y : N) : N := wrap b (x + y).
Definition wsub (b x y : N) : N := wrap b (x + 2 ^ b - wrap b y).
Definition wmul (b x y : N) : N := wrap b (x * y).
Definition wshl (b x k : N) : N := wrap b (N.shiftl x k).
Definition wnot (b x : N) : N := 2 ^ b - 1 - wrap b x.
Definition z2u (b : N) (z : Z) : N := Z.to_N (z mod 2 ^ Z.of_N b).

Inductive ctl (S R : Type) : Type :=
| Next (s : S)      (* fell through with these values of the locals *)
| Brk (s : S)       (* break out of the innermost loop *)
| Ret (r : R)       (* return *)
| Pnc               (* a Go panic (explicit, index out of range, division by zero) *)
| Fuel              (* the model's loop fuel ran out: not a behaviour of the program *)
| Cnt (s : S).      (* continue: on to the post statement / the next round of the innermost loop *)
Arguments Next {S R} s.
Arguments Brk {S R} s.
Arguments Ret {S R} r.
Arguments Pnc {S R}.
Arguments Fuel {S R}.
Arguments Cnt {S R} s.

(* sequencing: continue with the locals after a statement that may break / return / panic *)
Definition seq {S R} (m : ctl S R) (k : S -> ctl S R) : ctl S R :=
  match m with
  | Next s => k s
  | Brk s => Brk s
  | Ret r => Ret r
  | Pnc => Pnc
  | Fuel => Fuel
  | Cnt s => Cnt s
  end.

(* the body of a loop with a post statement: `continue` falls through to the post statement *)
Definition catch_cnt {S R} (m : ctl S R) : ctl S R := match m with Cnt s => Next s | x => x end.

(* for { body }: run the body until it breaks (then fall through), returns or panics *)
Fixpoint loop {S R} (fuel : nat) (body : S -> ctl S R) (s : S) : ctl S R :=
  match fuel with
  | O => Fuel
  | Datatypes.S k =>
      match body s with
      | Next s' => loop k body s'
      | Brk s' => Next s'
      | Ret r => Ret r
      | Pnc => Pnc
      | Fuel => Fuel
      | Cnt s' => loop k body s'
      end
  end.

(* a call in expression position: only the callee's return value comes back *)
Definition call {S R S' A} (m : ctl S' A) (k : A -> ctl S R) : ctl S R :=
  match m with
  | Ret a => k a
  | Fuel => Fuel
  | _ => Pnc
  end.

(* indexing a global array of length len, given as a function of the index *)
Definition aget {S R} (arr : N -> N) (len i : N) (k : N -> ctl S R) : ctl S R :=
  if i <? len then k (arr i) else Pnc.
Definition zidx {S R} (i : Z) (k : N -> ctl S R) : ctl S R :=
  if (i <? 0)%Z then Pnc else k (Z.to_N i).

(* the value of a run that returned *)
Definition ret_of {S R} (d : R) (m : ctl S R) : R := match m with Ret r => r | _ => d end.

(* a run-time check that panics (division by zero) *)
Definition guard {S R} (bad : bool) (k : ctl S R) : ctl S R := if bad then Pnc else k.
