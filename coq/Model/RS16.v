(* rsec16: the GF(2^16) matrices gopar uses and the Reed-Solomon coder
   (coder.go, cauchy.go, vandermonde.go, the applyMatrix functions of matrix.go). *)
From Gopar Require Import Model.Base Model.GF16 Model.Matrix.
Open Scope N_scope.

(** * gf2p16.Matrix instantiated *)
Definition RowReduce16 := RowReduceForInverse fmul gf_inv.
Definition Inverse16 := Inverse fmul gf_inv.
Definition Times16 := Times fmul.
Definition mmul16 := mmul fmul.

(* Matrix.Times with its dimension panic *)
Definition Times16_checked (k cols : nat) (A X : list (list N)) : outcome (list (list N)) :=
  if negb (Nat.eqb (length X) k) then Panic PExplicit else Ok (Times16 cols A X).

(** * rsec16: constants, parity matrices *)

(* generators: 2^i for i = 0..65535 with i not divisible by 3, 5, 17, 257 (coder.go init) *)
Definition bad_exp (i : N) : bool :=
  (i mod 3 =? 0) || (i mod 5 =? 0) || (i mod 17 =? 0) || (i mod 257 =? 0).
Fixpoint gens (fuel : nat) (i : N) (count : nat) : list N :=
  match count with
  | O => []
  | S c' =>
      match fuel with
      | O => []
      | S f => if bad_exp i then gens f (i + 1) count else T_Pow 2 i :: gens f (i + 1) c'
      end
  end.
(* the whole table, as init() builds it, and its first `count` entries *)
Definition all_generators : list N := gens (N.to_nat 65536) 0 (N.to_nat 65536).
Definition generators_first (count : nat) : list N := firstn count all_generators.
Definition GENERATOR_COUNT : Z := 32768.

(* newVandermondeMatrix(parity, data, generators[j]) : a[i][j] = g_j ^ i *)
Definition vandermonde_pm (d p : nat) : list (list N) :=
  let gs := generators_first d in
  map (fun i => map (fun g => T_Pow g (N.of_nat i)) gs) (seq 0 p).
(* newCauchyMatrix(parity, data, x_i = d+i, y_j = j) : a[i][j] = 1/(x_i + y_j) *)
Definition cauchy_pm (d p : nat) : list (list N) :=
  map (fun i => map (fun j => gf_inv (N.lxor (N.of_nat (d + i)) (N.of_nat j))) (seq 0 d)) (seq 0 p).

Inductive ckind := Cauchy | PAR2Vandermonde.
Record coder := { c_data : nat; c_parity : nat; c_pm : list (list N) }.

Definition new_coder (k : ckind) (d p g : Z) : outcome coder :=
  if (d <=? 0)%Z then Panic PExplicit
  else if (p <=? 0)%Z then Panic PExplicit
  else if (g <=? 0)%Z then Panic PExplicit
  else
    let dn := Z.to_nat d in let pn := Z.to_nat p in
    match k with
    | Cauchy =>
        if (65535 <? d + p)%Z then Err EOther
        else Ok {| c_data := dn; c_parity := pn; c_pm := cauchy_pm dn pn |}
    | PAR2Vandermonde =>
        if (GENERATOR_COUNT <? d)%Z then Err EOther
        else if (65535 <? p)%Z then Err EOther
        else Ok {| c_data := dn; c_parity := pn; c_pm := vandermonde_pm dn pn |}
    end.

(** * GenerateParity / ReconstructData on shards of 16-bit words *)

Notation shard := (list N) (only parsing).

(* applyMatrix: out_i = xor_j m[i][j] * in_j *)
Definition apply_matrix (len : nat) (m : list (list N)) (ins : list shard) : list shard :=
  mmul16 len m ins.

Definition shard_len (l : list shard) : nat := length (hd [] l).

Definition gen_parity (c : coder) (data : list shard) : list shard :=
  apply_matrix (shard_len data) (c_pm c) data.

Fixpoint somes {A} (l : list (option A)) : list A :=
  match l with [] => [] | Some x :: r => x :: somes r | None :: r => somes r end.
Fixpoint count_none {A} (l : list (option A)) : nat :=
  match l with [] => O | Some _ :: r => count_none r | None :: r => S (count_none r) end.
(* the entries of v at the positions where l is Some / None *)
Fixpoint pick_some {A B} (l : list (option A)) (v : list B) : list B :=
  match l, v with
  | Some _ :: l', x :: v' => x :: pick_some l' v'
  | None :: l', _ :: v' => pick_some l' v'
  | _, _ => []
  end.
Fixpoint pick_none {A B} (l : list (option A)) (v : list B) : list B :=
  match l, v with
  | Some _ :: l', _ :: v' => pick_none l' v'
  | None :: l', x :: v' => x :: pick_none l' v'
  | _, _ => []
  end.
(* the first `need` available parity shards with their row numbers *)
Fixpoint used_parity {A} (need i : nat) (parity : list (option A)) : list (nat * A) :=
  match need, parity with
  | O, _ => []
  | _, [] => []
  | S n', Some s :: r => (i, s) :: used_parity n' (S i) r
  | S _, None :: r => used_parity need (S i) r
  end.
Fixpoint fill {A} (data : list (option A)) (rec : list A) : list A :=
  match data with
  | [] => []
  | Some x :: r => x :: fill r rec
  | None :: r => match rec with y :: rec' => y :: fill r rec' | [] => [] end
  end.

Definition unit_row (n i : nat) : list N := map (fun j => if Nat.eqb i j then 1 else 0) (seq 0 n).

Definition reconstruct (c : coder) (data parity : list (option shard)) : outcome (list shard) :=
  let input_d := somes data in
  let missing := count_none data in
  if Nat.eqb missing 0 then Ok input_d
  else
    let used := used_parity missing 0 parity in
    if Nat.ltb (length input_d + length used) (c_data c) then Err ENotEnoughParity
    else
      let q := length used in
      let m := map (fun ks : nat * shard => pick_none data (nth (fst ks) (c_pm c) [])) used in
      let n := map (fun iks : nat * (nat * shard) => pick_some data (nth (fst (snd iks)) (c_pm c) []) ++ unit_row q (fst iks))
                   (combine (seq 0 q) used) in
      do R <- RowReduce16 m n;
      let input := input_d ++ map (fun ks : nat * shard => snd ks) used in
      Ok (fill data (apply_matrix (shard_len input) R input)).

Definition erase {A} (keep : list bool) (l : list A) : list (option A) :=
  map (fun kx : bool * A => if fst kx then Some (snd kx) else None) (combine keep l).
