(* rsec16: the GF(2^16) matrices gopar uses and the Reed-Solomon coder
   (coder.go, cauchy.go, vandermonde.go, the applyMatrix functions of matrix.go). *)
From Gopar Require Import Model.Base Model.GF16 Model.Matrix.
Open Scope N_scope.

(** * gf2p16.Matrix instantiated *)
Definition RowReduce16 := RowReduceForInverse fmul gf_inv.
Definition Inverse16 := Inverse fmul gf_inv.
Definition Times16 := Times fmul.
Definition mmul16 := mmul fmul.

(* Matrix.Times with its dimension panic *)
Definition Times16_checked (k cols : nat) (A X : list (list N)) : outcome (list (list N)) :=
  if negb (Nat.eqb (length X) k) then Panic PExplicit else Ok (Times16 cols A X).
