(* Specification-side PAR 1.0: an independent parser and validator written from the PAR 1.0
   layout text (NOT from gopar's reader or writer), and the predicate `valid_par1_set` stating every
   clause of the first sentence of property C10 about the files Create wrote.

   Shared with the implementation model: only primitives - MD5 (a section variable), little-endian
   decoding (`le_decode`), and the SPECIFICATION side of GF(2^8) modulo 0x11D (`g8mul`: the reduced
   carry-less shift-and-add product; `g8pow`: iterated product).  NOT shared: `read_volume`,
   `read_entry`, `write_volume`, `write_entry`, `par1_encode` (the parity data is a direct double sum
   here), and the UTF-8 / UTF-16 codec of Model/Par1.v (file names are compared on the level of Unicode
   scalar values through a strict spec-side UTF-16LE decoder and a spec-side UTF-8 encoder).

   The layout (all integers little-endian):
     header, 0x60 bytes:
       0x00  8  "PAR\0\0\0\0\0"            0x08 4 version 0x00010000     0x0C 4 generating client (free)
       0x10 16  control hash = MD5 of the file from 0x20 to its end
       0x20 16  set hash = MD5 of the concatenated MD5s of the files saved in the parity set (status bit 0)
       0x30  8  volume number (0 = index)     0x38 8 number of files
       0x40  8  file list offset              0x48 8 file list size
       0x50  8  data offset                   0x58 8 data size
     file list entry:
       0x00  8  entry size (0x38 + name bytes) 0x08 8 status (bit 0: saved in the parity set)
       0x10  8  file size    0x18 16 MD5    0x28 16 MD5 of the first 16384 bytes    0x38 name, UTF-16LE
     parity volume v >= 1, byte k = sum over the saved files i = 1..n of i^(v-1) * file_i[k] in GF(2^8)
     modulo 0x11D, files zero-padded to the longest saved file. *)
From Gopar Require Import Model.Base Model.GF8.
Open Scope N_scope.

(** * Unicode: strict UTF-16LE decoding to scalar values, UTF-8 encoding of scalar values *)

(* bytes -> 16-bit code units; an odd number of bytes is not UTF-16 *)
Fixpoint s1_units (b : bytes) : option (list N) :=
  match b with
  | [] => Some []
  | lo :: r =>
    match r with
    | [] => None
    | hi :: r' => match s1_units r' with Some u => Some ((lo + 256 * hi) :: u) | None => None end
    end
  end.

(* code units -> Unicode scalar values; unpaired surrogates (and out-of-range units) are not UTF-16 *)
Fixpoint s1_scalars (u : list N) : option (list N) :=
  match u with
  | [] => Some []
  | a :: r =>
    if a <? 0xD800 then match s1_scalars r with Some l => Some (a :: l) | None => None end
    else if a <? 0xDC00 then
      (* high surrogate: a low surrogate must follow *)
      match r with
      | [] => None
      | c :: r' =>
        if (0xDC00 <=? c) && (c <? 0xE000)
        then match s1_scalars r' with
             | Some l => Some (((a - 0xD800) * 0x400 + (c - 0xDC00) + 0x10000) :: l)
             | None => None
             end
        else None
      end
    else if a <? 0xE000 then None                       (* low surrogate without a high one *)
    else if a <? 0x10000 then match s1_scalars r with Some l => Some (a :: l) | None => None end
    else None
  end.

Definition s1_utf16le_scalars (b : bytes) : option (list N) :=
  match s1_units b with Some u => s1_scalars u | None => None end.

(* UTF-8 (RFC 3629) of one scalar value *)
Definition s1_utf8_rune (r : N) : bytes :=
  if r <? 0x80 then [r]
  else if r <? 0x800 then [0xC0 + r / 64; 0x80 + r mod 64]
  else if r <? 0x10000 then [0xE0 + r / 4096; 0x80 + (r / 64) mod 64; 0x80 + r mod 64]
  else [0xF0 + r / 262144; 0x80 + (r / 4096) mod 64; 0x80 + (r / 64) mod 64; 0x80 + r mod 64].
Definition s1_utf8 (rs : list N) : bytes := flat_map s1_utf8_rune rs.

Fixpoint s1_beq (a b : bytes) : bool :=
  match a, b with
  | [], [] => true
  | x :: a', y :: b' => (x =? y) && s1_beq a' b'
  | _, _ => false
  end.

(* the UTF-16LE name field `raw` denotes the same scalar-value sequence as the UTF-8 string `name` *)
Definition s1_name_is (raw name : bytes) : bool :=
  match s1_utf16le_scalars raw with Some rs => s1_beq (s1_utf8 rs) name | None => false end.

Section Spec1.
  Variable md5 : bytes -> bytes.

  Definition s1_id : bytes := [80; 65; 82; 0; 0; 0; 0; 0].       (* "PAR\0\0\0\0\0" *)
  Definition s1_version : N := 0x00010000.

  Definition s1_slice (off len : nat) (b : bytes) : bytes := firstn len (skipn off b).
  Definition s1_u64 (off : nat) (b : bytes) : N := le_decode (s1_slice off 8 b).

  Record s1entry := { se_status : N; se_len : N; se_hash : bytes; se_h16 : bytes; se_name16 : bytes }.
  Definition se_saved (e : s1entry) : bool := N.odd (se_status e).

  Record s1vol := {
    sv_client : N; sv_sethash : bytes; sv_number : N; sv_count : N;
    sv_flo : N; sv_flb : N; sv_do : N; sv_db : N;         (* the four offset/size fields 0x40 .. 0x58 *)
    sv_entries : list s1entry;
    sv_data : bytes                                        (* the data area: comment or parity data *)
  }.

  (* exactly n entries tiling the file list area `fl` *)
  Fixpoint s1_entries (n : nat) (fl : bytes) : option (list s1entry) :=
    match n with
    | O => match fl with [] => Some [] | _ => None end
    | S n' =>
      if Nat.ltb (length fl) 56 then None
      else
        let es := s1_u64 0 fl in
        if (es <? 56) || (N.of_nat (length fl) <? es) then None
        else
          let k := N.to_nat es in
          match s1_entries n' (skipn k fl) with
          | Some r => Some ({| se_status := s1_u64 8 fl; se_len := s1_u64 16 fl;
                               se_hash := s1_slice 24 16 fl; se_h16 := s1_slice 40 16 fl;
                               se_name16 := s1_slice 56 (k - 56) fl |} :: r)
          | None => None
          end
    end.

  (* the set hash as a function of the file list: MD5 over the MD5s of the saved entries *)
  Definition s1_sethash_of (es : list s1entry) : bytes := md5 (concat (map se_hash (filter se_saved es))).

  (* ONE file.  The file list and the data area are located by the offset fields; they must lie inside
     the file, behind the header.  (Nothing is said about their order, about gaps, or about bytes behind
     them: the specification does not constrain that.) *)
  Definition s1_parse (b : bytes) : option s1vol :=
    if Nat.ltb (length b) 96 then None
    else if negb (s1_beq (s1_slice 0 8 b) s1_id) then None
    else if negb (le_decode (s1_slice 8 4 b) =? s1_version) then None
    else if negb (s1_beq (md5 (skipn 32 b)) (s1_slice 16 16 b)) then None
    else
      let len := N.of_nat (length b) in
      let count := s1_u64 56 b in
      let flo := s1_u64 64 b in let flb := s1_u64 72 b in
      let dof := s1_u64 80 b in let db := s1_u64 88 b in
      if (flo <? 96) || (len <? flo + flb) || (dof <? 96) || (len <? dof + db) || (flb <? 56 * count) then None
      else
        match s1_entries (N.to_nat count) (s1_slice (N.to_nat flo) (N.to_nat flb) b) with
        | None => None
        | Some es =>
          if negb (s1_beq (s1_slice 32 16 b) (s1_sethash_of es)) then None
          else Some {| sv_client := le_decode (s1_slice 12 4 b); sv_sethash := s1_slice 32 16 b;
                       sv_number := s1_u64 48 b; sv_count := count;
                       sv_flo := flo; sv_flb := flb; sv_do := dof; sv_db := db;
                       sv_entries := es; sv_data := s1_slice (N.to_nat dof) (N.to_nat db) b |}
        end.

  (* the layout gopar writes, and the only one its reader accepts (see Proofs/Par1SpecFacts.v): file
     list directly behind the header, data area directly behind the file list and up to the end of file *)
  Definition s1_contiguous (b : bytes) : bool :=
    match s1_parse b with
    | Some sv => (sv_flo sv =? 96) && (sv_do sv =? 96 + sv_flb sv) && (sv_do sv + sv_db sv =? N.of_nat (length b))
    | None => false
    end.

  (** * the set *)
  Record s1file := { sf_name : bytes (* UTF-8 *); sf_data : bytes; sf_status : N }.
  Definition sf_saved (f : s1file) : bool := N.odd (sf_status f).

  Definition s1_entry_valid (f : s1file) (e : s1entry) : bool :=
    (se_status e =? sf_status f)
    && (se_len e =? N.of_nat (length (sf_data f)))
    && s1_beq (se_hash e) (md5 (sf_data f))
    && s1_beq (se_h16 e) (md5 (firstn (N.to_nat 16384) (sf_data f)))
    && s1_name_is (se_name16 e) (sf_name f).

  Fixpoint s1_entries_valid (fs : list s1file) (es : list s1entry) : bool :=
    match fs, es with
    | [], [] => true
    | f :: fs', e :: es' => s1_entry_valid f e && s1_entries_valid fs' es'
    | _, _ => false
    end.

  Definition s1_longest (ds : list bytes) : nat := fold_right (fun d m => Nat.max (length d) m) 0%nat ds.

  (* byte k of parity volume v: files numbered from 1; `nth k d 0` is the zero padding *)
  Definition s1_parity_byte (ds : list bytes) (v k : nat) : N :=
    fold_right (fun i acc => N.lxor (g8mul (g8pow (N.of_nat i) (N.of_nat (v - 1))) (nth k (nth (i - 1) ds []) 0)) acc)
               0 (seq 1 (length ds)).
  Definition s1_parity (ds : list bytes) (v : nat) : bytes := map (s1_parity_byte ds v) (seq 0 (s1_longest ds)).

  Definition s1_saved_datas (files : list s1file) : list bytes := map sf_data (filter sf_saved files).

  (* file number v of the set (0 = index with the comment, v >= 1 = parity volume v) *)
  Definition s1_file_valid (files : list s1file) (comment : bytes) (v : nat) (out : bytes) : bool :=
    match s1_parse out with
    | None => false
    | Some sv =>
      (sv_number sv =? N.of_nat v)
      && (sv_count sv =? N.of_nat (length files))
      && s1_entries_valid files (sv_entries sv)
      && s1_beq (sv_sethash sv) (md5 (concat (map (fun f => md5 (sf_data f)) (filter sf_saved files))))
      && s1_beq (sv_data sv) (match v with O => comment | _ => s1_parity (s1_saved_datas files) v end)
    end.

  Definition s1_entry_eqb (a b : s1entry) : bool :=
    (se_status a =? se_status b) && (se_len a =? se_len b) && s1_beq (se_hash a) (se_hash b)
    && s1_beq (se_h16 a) (se_h16 b) && s1_beq (se_name16 a) (se_name16 b).
  Fixpoint s1_entries_eqb (a b : list s1entry) : bool :=
    match a, b with
    | [], [] => true
    | x :: a', y :: b' => s1_entry_eqb x y && s1_entries_eqb a' b'
    | _, _ => false
    end.
  Definition s1_list_of (b : bytes) : list s1entry := match s1_parse b with Some sv => sv_entries sv | None => [] end.

  (* a conformant set for (files, comment): 1 + nvol files, file 0 the index, file v volume v, identical
     file lists, at most 255 saved files when there is a parity volume (the constants 1..n are field elements) *)
  Definition s1_set_valid (files : list s1file) (comment : bytes) (nvol : nat) (outs : list bytes) : bool :=
    Nat.eqb (length outs) (S nvol)
    && forallb (fun vo : nat * bytes => s1_file_valid files comment (fst vo) (snd vo)) (combine (seq 0 (S nvol)) outs)
    && forallb (fun o => s1_entries_eqb (s1_list_of o) (s1_list_of (hd [] outs))) outs
    && (Nat.eqb nvol 0 || Nat.leb (length (filter sf_saved files)) 255).

  (* what Create writes for (names, datas): every file saved (status exactly 1), no comment, and the
     contiguous layout *)
  Definition valid_par1_set (names : list bytes) (datas : list bytes) (nvol : nat) (outs : list bytes) : bool :=
    Nat.eqb (length names) (length datas)
    && s1_set_valid (map (fun nd : bytes * bytes => {| sf_name := fst nd; sf_data := snd nd; sf_status := 1 |})
                         (combine names datas)) [] nvol outs
    && forallb s1_contiguous outs.
End Spec1.
