(* GF(2^8) modulo x^8+x^4+x^3+x^2+1 (0x11D), the field of PAR 1.0 and of
   klauspost/reedsolomon's galois tables, and the PAR1 Reed-Solomon code
   (reedsolomon.WithPAR1Matrix: identity on top of the transposed Vandermonde
   matrix (c+1)^r), with the library's Reconstruct / Verify semantics. *)
From Gopar Require Import Model.Base Model.Matrix.
Open Scope N_scope.

Definition xtime8 (a : N) : N := let d := 2 * a in if 256 <=? d then N.lxor d 0x11D else d.

Fixpoint g8mul_go (n : nat) (a b acc : N) : N :=
  match n with
  | O => acc
  | S n' => g8mul_go n' (xtime8 a) (b / 2) (if N.odd b then N.lxor acc a else acc)
  end.
(* the reduced carry-less product of two bytes *)
Definition g8mul (a b : N) : N := g8mul_go 8 a b 0.

Definition g8pow (a p : N) : N := N.iter p (g8mul a) 1.     (* a^0 = 1 also for a = 0, as galExp *)
Definition g8inv (a : N) : N := g8pow a 254.

(* buildMatrixPAR1: row r of the parity part, column c: (c+1)^r *)
Definition par1_pm (d p : nat) : list (list N) :=
  map (fun r => map (fun c => g8pow (N.of_nat (S c)) (N.of_nat r)) (seq 0 d)) (seq 0 p).

Definition mmul8 := mmul g8mul.
Definition Inverse8 := Inverse g8mul g8inv.

(* Encode: parity = PM * data (shards = lists of bytes of equal length) *)
Definition par1_encode (d p : nat) (data : list bytes) : list bytes :=
  mmul8 (length (hd [] data)) (par1_pm d p) data.

(* the encoding matrix rows: identity rows for data, parity rows below *)
Definition enc_row (d p i : nat) : list N :=
  if Nat.ltb i d then map (fun j => if Nat.eqb i j then 1 else 0) (seq 0 d)
  else nth (i - d) (par1_pm d p) [].

Fixpoint take_present {A} (need i : nat) (l : list (option A)) : list (nat * A) :=
  match need, l with
  | O, _ => []
  | _, [] => []
  | S n', Some s :: r => (i, s) :: take_present n' (S i) r
  | S _, None :: r => take_present need (S i) r
  end.

Definition count_present {A} (l : list (option A)) : nat :=
  length (filter (fun o => match o with Some _ => true | None => false end) l).

(* reedsolomon Reconstruct on data+parity shards, "missing" = None (zero length in the library):
   fills in the data shards (and the parity shards).  Errors: too few shards, singular. *)
Definition par1_reconstruct (d p : nat) (shards : list (option bytes)) : outcome (list bytes) :=
  if negb (Nat.eqb (length shards) (d + p)) then Err ENotEnoughParity
  else
    let n := count_present shards in
    if Nat.eqb n (d + p) then Ok (map (fun o => match o with Some s => s | None => [] end) shards)
    else if Nat.ltb n d then Err ENotEnoughParity
    else
      let valid := take_present d 0 shards in
      let sub := map (fun ks : nat * bytes => enc_row d p (fst ks)) valid in
      match Inverse8 sub with
      | Ok inv =>
          let size := length (snd (hd (O, []) valid)) in
          let data := mmul8 size inv (map (fun ks : nat * bytes => snd ks) valid) in
          (* all data shards, the given ones verbatim *)
          let alld := map (fun io : nat * option bytes => match snd io with Some s => s | None => nth (fst io) data [] end)
                          (combine (seq 0 d) (firstn d shards)) in
          let par := par1_encode d p alld in
          Ok (alld ++ map (fun io : nat * option bytes => match snd io with Some s => s | None => nth (fst io) par [] end)
                          (combine (seq 0 p) (skipn d shards)))
      | Err e => Err ESingular
      | Panic q => Panic q
      end.
