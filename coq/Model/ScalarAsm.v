(* An instruction-level model of the SCALAR assembly kernels of gf2p16
   (slice_amd64.s: mulByteSliceLEUnsafe, mulAndAddByteSliceLEUnsafe): a small
   machine with eight 64-bit general purpose registers, an argument frame and
   byte buffers, the semantics of the nine instructions the two routines use,
   and an instruction-by-instruction transcription of the routines.

   Conventions (as in Model/Ssse3.v).
   * Instructions are written in the Go (Plan 9) operand order  OP src, dst.
   * A register (and an argument word) holds an integer [GInt n] or a pointer
     [GPtr buf off] = buffer number + byte offset ([gval] of Model/Ssse3.v).
   * EVERY memory access is bounds-checked by the machine: a 16-bit load or
     store whose byte range [off + disp + 2*idx, +2) (the effective address is
     computed modulo 2^64, relative to the start of the buffer the base pointer
     refers to) does not lie inside that buffer ends the run in [SFault].  The
     real routines have no such checks; "the model run does not fault" is the
     statement that they never leave their buffers.
   * Operations the model gives no meaning to (integer arithmetic on a pointer,
     an index register holding a pointer, a base register holding an integer,
     a frame slot that does not exist) are [SFault] as well.
   Definitions only; proofs are in Proofs/ScalarAsmFacts.v. *)
From Gopar Require Import Model.Base Model.GF16 Model.Kernels Model.Ssse3.
Open Scope N_scope.

(** * The machine *)

Inductive sreg := SAX | SBX | SCX | SSI | SR8 | SR9 | SR10 | SR11.

Record sregs := mkRegs {
  r_ax : gval; r_bx : gval; r_cx : gval; r_si : gval;
  r_r8 : gval; r_r9 : gval; r_r10 : gval; r_r11 : gval
}.

Record sstate := mkSS {
  ss_r : sregs;         (* the general purpose registers *)
  ss_m : list bytes;    (* the buffers the pointers refer to *)
  ss_fp : list gval     (* the argument frame, one entry per 8 bytes of FP *)
}.

Definition getr (st : sstate) (r : sreg) : gval :=
  let g := ss_r st in
  match r with
  | SAX => r_ax g | SBX => r_bx g | SCX => r_cx g | SSI => r_si g
  | SR8 => r_r8 g | SR9 => r_r9 g | SR10 => r_r10 g | SR11 => r_r11 g
  end.

Definition setreg (r : sreg) (v : gval) (g : sregs) : sregs :=
  match r with
  | SAX  => mkRegs v (r_bx g) (r_cx g) (r_si g) (r_r8 g) (r_r9 g) (r_r10 g) (r_r11 g)
  | SBX  => mkRegs (r_ax g) v (r_cx g) (r_si g) (r_r8 g) (r_r9 g) (r_r10 g) (r_r11 g)
  | SCX  => mkRegs (r_ax g) (r_bx g) v (r_si g) (r_r8 g) (r_r9 g) (r_r10 g) (r_r11 g)
  | SSI  => mkRegs (r_ax g) (r_bx g) (r_cx g) v (r_r8 g) (r_r9 g) (r_r10 g) (r_r11 g)
  | SR8  => mkRegs (r_ax g) (r_bx g) (r_cx g) (r_si g) v (r_r9 g) (r_r10 g) (r_r11 g)
  | SR9  => mkRegs (r_ax g) (r_bx g) (r_cx g) (r_si g) (r_r8 g) v (r_r10 g) (r_r11 g)
  | SR10 => mkRegs (r_ax g) (r_bx g) (r_cx g) (r_si g) (r_r8 g) (r_r9 g) v (r_r11 g)
  | SR11 => mkRegs (r_ax g) (r_bx g) (r_cx g) (r_si g) (r_r8 g) (r_r9 g) (r_r10 g) v
  end.

Definition setr (r : sreg) (v : gval) (st : sstate) : sstate :=
  mkSS (setreg r v (ss_r st)) (ss_m st) (ss_fp st).

Definition setm (b : nat) (buf : bytes) (st : sstate) : sstate :=
  mkSS (ss_r st) (upd b buf (ss_m st)) (ss_fp st).

(* the result of a run: a state, a memory fault (or an operation without
   meaning), or the fuel of the loop construct used up *)
Inductive soutcome := SOk (st : sstate) | SFault | SOutOfFuel.

(* bounds-checked 16-bit little-endian load / store at byte offset a of a buffer *)
Definition ld16 (buf : bytes) (a : N) : option N :=
  if a + 2 <=? lenN buf
  then Some (nth (N.to_nat a) buf 0 + 256 * nth (S (N.to_nat a)) buf 0)
  else None.

Definition st16 (buf : bytes) (a w : N) : option bytes :=
  if a + 2 <=? lenN buf
  then Some (firstn (N.to_nat a) buf ++ [w mod 256; (w / 256) mod 256] ++ skipn (N.to_nat a + 2) buf)
  else None.

(* disp(base)(idx*2): the buffer and the byte offset in it *)
Definition ea (st : sstate) (disp : N) (base idx : sreg) : option (nat * N) :=
  match getr st base, getr st idx with
  | GPtr b o, GInt i => Some (b, (o + disp + 2 * i) mod two64)
  | _, _ => None
  end.

Definition two32 : N := 4294967296.
Definition two63 : N := 9223372036854775808.

Inductive sinstr :=
| SMOVQ_fp (off : N) (r : sreg)                     (* MOVQ name+off(FP), r *)
| SMOVQ_imm (v : N) (r : sreg)                      (* MOVQ $v, r *)
| SSHRQ (k : N) (r : sreg)                          (* SHRQ $k, r *)
| SMOVWLZX (disp : N) (base idx : sreg) (dst : sreg) (* MOVWLZX disp(base)(idx*2), dst *)
| SMOVBLZX (src dst : sreg)                         (* MOVBLZX srcB, dst *)
| SSHRW (k : N) (r : sreg)                          (* SHRW $k, r *)
| SXORL (src dst : sreg)                            (* XORL src, dst *)
| SMOVW_st (src : sreg) (disp : N) (base idx : sreg) (* MOVW src, disp(base)(idx*2) *)
| SINCQ (r : sreg).                                 (* INCQ r *)

Definition step (i : sinstr) (st : sstate) : soutcome :=
  match i with
  | SMOVQ_fp off r =>
      if off mod 8 =? 0 then
        match nth_error (ss_fp st) (N.to_nat (off / 8)) with
        | Some v => SOk (setr r v st)
        | None => SFault
        end
      else SFault
  | SMOVQ_imm v r => SOk (setr r (GInt (v mod two64)) st)
  | SSHRQ k r =>                          (* the count is taken modulo 64 *)
      match getr st r with
      | GInt v => SOk (setr r (GInt (N.shiftr v (k mod 64))) st)
      | GPtr _ _ => SFault
      end
  | SMOVWLZX disp base idx dst =>         (* 16-bit LE load, zero-extended to 64 bits *)
      match ea st disp base idx with
      | Some (b, a) =>
          match nth_error (ss_m st) b with
          | Some buf =>
              match ld16 buf a with
              | Some w => SOk (setr dst (GInt w) st)
              | None => SFault
              end
          | None => SFault
          end
      | None => SFault
      end
  | SMOVBLZX src dst =>                   (* low byte of src, zero-extended *)
      match getr st src with
      | GInt v => SOk (setr dst (GInt (v mod 256)) st)
      | GPtr _ _ => SFault
      end
  | SSHRW k r =>                          (* shifts the low 16 bits (count modulo 32); bits 16..63 unchanged *)
      match getr st r with
      | GInt v => let lo := v mod 65536 in
                  SOk (setr r (GInt (v - lo + N.shiftr lo (k mod 32))) st)
      | GPtr _ _ => SFault
      end
  | SXORL src dst =>                      (* 32-bit xor, the result zero-extended to 64 bits *)
      match getr st src, getr st dst with
      | GInt s, GInt d => SOk (setr dst (GInt (N.lxor (d mod two32) (s mod two32))) st)
      | _, _ => SFault
      end
  | SMOVW_st src disp base idx =>         (* 16-bit LE store of the low word of src *)
      match getr st src, ea st disp base idx with
      | GInt v, Some (b, a) =>
          match nth_error (ss_m st) b with
          | Some buf =>
              match st16 buf a (v mod 65536) with
              | Some buf' => SOk (setm b buf' st)
              | None => SFault
              end
          | None => SFault
          end
      | _, _ => SFault
      end
  | SINCQ r =>
      match getr st r with
      | GInt v => SOk (setr r (GInt ((v + 1) mod two64)) st)
      | GPtr _ _ => SFault
      end
  end.

Fixpoint run (p : list sinstr) (st : sstate) : soutcome :=
  match p with
  | [] => SOk st
  | i :: p' => match step i st with SOk st' => run p' st' | o => o end
  end.

(* the value of a 64-bit register as a two's complement integer *)
Definition signed64 (v : N) : Z :=
  let w := v mod two64 in
  if w <? two63 then Z.of_N w else (Z.of_N w - Z.of_N two64)%Z.
Definition slt64 (a b : N) : bool := (signed64 a <? signed64 b)%Z.

(* loop: body ; CMPQ R8, CX ; JLT loop   - a do-while: the body runs, then R8 and
   CX are compared as SIGNED 64-bit integers and the loop continues while
   R8 < CX.  [fuel] bounds the number of iterations. *)
Fixpoint run_dowhile (fuel : nat) (body : list sinstr) (st : sstate) : soutcome :=
  match fuel with
  | O => SOutOfFuel
  | S f =>
      match run body st with
      | SOk st' =>
          match getr st' SR8, getr st' SCX with
          | GInt a, GInt b => if slt64 a b then run_dowhile f body st' else SOk st'
          | _, _ => SFault
          end
      | o => o
      end
  end.

(** * slice_amd64.s, scalar part *)

(* func mulByteSliceLEUnsafe(cEntry *mulTableEntry, in, out []byte) *)
Definition mulByteSliceLEUnsafe_pre : list sinstr :=
  [ SMOVQ_fp 0 SAX;              (* MOVQ cEntry+0(FP), AX *)
    SMOVQ_fp 16 SCX;             (* MOVQ in_len+16(FP), CX *)
    SSHRQ 1 SCX;                 (* SHRQ $1, CX            CX = len(in)/2 *)
    SMOVQ_fp 32 SBX;             (* MOVQ out+32(FP), BX *)
    SMOVQ_fp 8 SSI;              (* MOVQ in+8(FP), SI *)
    SMOVQ_imm 0 SR8 ].           (* MOVQ $0, R8 *)

Definition mulByteSliceLEUnsafe_body : list sinstr :=
  [ SMOVWLZX 0 SSI SR8 SR10;     (* MOVWLZX (SI)(R8*2), R10      R10 = in[i] *)
    SMOVBLZX SR10 SR11;          (* MOVBLZX R10B, R11 *)
    SMOVWLZX 0 SAX SR11 SR11;    (* MOVWLZX (AX)(R11*2), R11     R11 = cEntry.s0[in[i]&0xff] *)
    SSHRW 8 SR10;                (* SHRW    $8, R10 *)
    SMOVWLZX 512 SAX SR10 SR10;  (* MOVWLZX 512(AX)(R10*2), R10  R10 = cEntry.s8[in[i]>>8] *)
    SXORL SR10 SR11;             (* XORL    R10, R11 *)
    SMOVW_st SR11 0 SBX SR8;     (* MOVW    R11, (BX)(R8*2)      out[i] = R10 ^ R11 *)
    SINCQ SR8 ].                 (* INCQ    R8 ;  CMPQ R8, CX ; JLT loop  is [run_dowhile] *)

(* func mulAndAddByteSliceLEUnsafe(cEntry *mulTableEntry, in, out []byte) *)
Definition mulAndAddByteSliceLEUnsafe_pre : list sinstr :=
  [ SMOVQ_fp 0 SAX;
    SMOVQ_fp 16 SCX;
    SSHRQ 1 SCX;
    SMOVQ_fp 32 SBX;
    SMOVQ_fp 8 SSI;
    SMOVQ_imm 0 SR8 ].

Definition mulAndAddByteSliceLEUnsafe_body : list sinstr :=
  [ SMOVWLZX 0 SBX SR8 SR9;      (* MOVWLZX (BX)(R8*2), R9       R9 = out[i] *)
    SMOVWLZX 0 SSI SR8 SR10;     (* MOVWLZX (SI)(R8*2), R10      R10 = in[i] *)
    SMOVBLZX SR10 SR11;          (* MOVBLZX R10B, R11 *)
    SMOVWLZX 0 SAX SR11 SR11;    (* MOVWLZX (AX)(R11*2), R11 *)
    SSHRW 8 SR10;                (* SHRW    $8, R10 *)
    SMOVWLZX 512 SAX SR10 SR10;  (* MOVWLZX 512(AX)(R10*2), R10 *)
    SXORL SR10 SR11;             (* XORL    R10, R11 *)
    SXORL SR11 SR9;              (* XORL    R11, R9 *)
    SMOVW_st SR9 0 SBX SR8;      (* MOVW    R9, (BX)(R8*2)       out[i] = R9 ^ R10 ^ R11 *)
    SINCQ SR8 ].                 (* INCQ    R8 *)

(** * Entry point *)

(* &mulTable[c]: struct { s0, s8 [256]T }, T = uint16, little-endian words:
   s0[j] = c*j, s8[j] = c*(j<<8) in GF(2^16); 1024 bytes *)
Definition idx256 : list N := map N.of_nat (seq 0 256).
Definition table1024 (c : N) : bytes :=
  le_bytes (map (fun j => fmul c j) idx256) ++
  le_bytes (map (fun j => fmul c (N.shiftl j 8)) idx256).

(* registers are not assumed to hold anything on entry; the model starts them at 0 *)
Definition sinit (args : list gval) (mem : list bytes) : sstate :=
  mkSS (mkRegs (GInt 0) (GInt 0) (GInt 0) (GInt 0) (GInt 0) (GInt 0) (GInt 0) (GInt 0)) mem args.

(* the argument frame is cEntry, in (ptr, len, cap), out (ptr, len, cap);
   buffer 0 = the table entry, 1 = in, 2 = out *)
Definition scalar_asm_run (c : N) (acc : bool) (inb outb : bytes) : soutcome :=
  let st0 := sinit [GPtr 0 0; GPtr 1 0; GInt (lenN inb); GInt (lenN inb);
                    GPtr 2 0; GInt (lenN outb); GInt (lenN outb)]
                   [table1024 c; inb; outb] in
  let pre := if acc then mulAndAddByteSliceLEUnsafe_pre else mulByteSliceLEUnsafe_pre in
  let body := if acc then mulAndAddByteSliceLEUnsafe_body else mulByteSliceLEUnsafe_body in
  match run pre st0 with
  | SOk st1 => run_dowhile (S (N.to_nat (lenN inb / 2))) body st1
  | o => o
  end.

(* out after mulByteSliceLEUnsafe / mulAndAddByteSliceLEUnsafe (&mulTable[c], in, out);
   None = the run faulted *)
Definition scalar_asm (c : N) (acc : bool) (inb outb : bytes) : option bytes :=
  match scalar_asm_run c acc inb outb with
  | SOk st => Some (nth 2 (ss_m st) [])
  | _ => None
  end.
