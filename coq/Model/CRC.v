(* par2/crc32.go and the slice scan of par2/decoder.go (fillShardInfos).

   CRC-32/IEEE is modelled concretely (reflected polynomial 0xEDB88320, bitwise
   register); hash/crc32's IEEETable[x] is the 8-fold shift of x.  The window
   follows newCRC32Window / update line by line. *)
From Gopar Require Import Model.Base.
Open Scope N_scope.

Definition CRCPOLY : N := 0xEDB88320.
Definition FFFF : N := 0xFFFFFFFF.

Definition shift1 (s : N) : N := N.lxor (N.shiftr s 1) (if N.odd s then CRCPOLY else 0).
Definition step8 (s : N) : N := shift1 (shift1 (shift1 (shift1 (shift1 (shift1 (shift1 (shift1 s))))))).
(* one byte into the register *)
Definition upd (s b : N) : N := step8 (N.lxor s b).
Definition raw (s : N) (a : bytes) : N := fold_left upd a s.
(* crc32.ChecksumIEEE *)
Definition crc32 (a : bytes) : N := N.lxor (raw FFFF a) FFFF.

(* crc32.IEEETable *)
Definition ieee_table (x : N) : N := step8 x.

(** * crc32Window *)
Record window := { w_size : nat; w_table : list N }.

(* crc(i..) ^ mask for one i, computed as the code does from baseTable and the parity of the bit count *)
Definition masked_entry (crc0 mask : N) (base : list N) (i : N) : N :=
  if i =? 0 then N.lxor crc0 mask
  else
    let '(crc, cnt) :=
      fold_left (fun (cc : N * nat) (j : nat) =>
                   if N.testbit i (N.of_nat j) then (N.lxor (fst cc) (nth j base 0), S (snd cc)) else cc)
                (seq 0 8) (0, O) in
    N.lxor (if Nat.even cnt then N.lxor crc crc0 else crc) mask.

Definition set_nth (i : nat) (x : N) (l : list N) : list N := firstn i l ++ x :: skipn (S i) l.

Definition win_new (n : Z) : outcome window :=
  if (n <? 4)%Z then Panic PExplicit
  else
    let sz := Z.to_nat n in
    let a := zeros (S sz) in
    let crc0 := crc32 a in
    let mask := crc32 (set_nth 4 0xff (set_nth 0 0xff a)) in
    let base := map (fun j => crc32 (set_nth 0 (2 ^ N.of_nat j) a)) (seq 0 8) in
    Ok {| w_size := sz; w_table := map (fun i => masked_entry crc0 mask base (N.of_nat i)) (seq 0 256) |}.

(* update(crc, oldLeader, newTrailer) *)
Definition win_update (w : window) (crc oldLeader newTrailer : N) : N :=
  let t := N.lxor crc FFFF in
  let t := N.lxor (ieee_table (N.lxor (t mod 256) newTrailer)) (t / 256) in
  let ext := N.lxor t FFFF in
  N.lxor ext (nth (N.to_nat oldLeader) (w_table w) 0).

(** * the slice scan *)
Section Scan.
  Variable md5 : bytes -> bytes.

  (* sliceAndPadByteArray(data, j, j+S) given rest = data[j:] *)
  Definition take_pad (S : nat) (rest : bytes) : bytes :=
    let s := firstn S rest in s ++ zeros (S - length s).

  (* checksumToLocation: (crc, md5) -> locations (file index, slice index), in registration order *)
  Definition location := (nat * nat)%type.
  Definition cstable := list ((N * bytes) * list location).

  Definition bytes_eqb (a b : bytes) : bool :=
    Nat.eqb (length a) (length b) && forallb (fun xy : N * N => fst xy =? snd xy) (combine a b).

  Fixpoint cs_lookup_key (t : cstable) (crc : N) (h : bytes) : list location :=
    match t with
    | [] => []
    | ((c, m), locs) :: t' => if (c =? crc) && bytes_eqb m h then locs else cs_lookup_key t' crc h
    end.
  Definition crc_present (t : cstable) (crc : N) : bool :=
    existsb (fun e : (N * bytes) * list location => fst (fst e) =? crc) t.
  (* get(crc, data): md5 only computed when the crc is present *)
  Definition cs_get (t : cstable) (crc : N) (slice : bytes) : list location :=
    if crc_present t crc then cs_lookup_key t crc (md5 slice) else [].

  Fixpoint cs_put (t : cstable) (crc : N) (h : bytes) (loc : location) : cstable :=
    match t with
    | [] => [((crc, h), [loc])]
    | ((c, m), locs) :: t' =>
        if (c =? crc) && bytes_eqb m h then ((c, m), locs ++ [loc]) :: t'
        else ((c, m), locs) :: cs_put t' crc h loc
    end.

  Record hit := { h_pos : nat; h_locs : list location; h_data : bytes }.

  (* fillShardInfos: rest = data[j:], prev = data[j-1] *)
  Fixpoint scan_go (fuel : nat) (S : nat) (w : window) (t : cstable)
           (j : nat) (prev : N) (rest : bytes) (justMissed : bool) (crc : N) : list hit * nat :=
    match fuel with
    | O => ([], O)
    | Datatypes.S fuel' =>
      match rest with
      | [] => ([], O)
      | b :: rest1 =>
        let slice := take_pad S rest in
        let crc' := if justMissed then win_update w crc prev (last slice 0) else crc32 slice in
        match cs_get t crc' slice with
        | [] => let '(hs, misses) := scan_go fuel' S w t (Datatypes.S j) b rest1 true crc' in (hs, Datatypes.S misses)
        | locs => let '(hs, misses) := scan_go fuel' S w t (j + S) (last (firstn S rest) 0) (skipn S rest) false crc' in
                  ({| h_pos := j; h_locs := locs; h_data := slice |} :: hs, misses)
        end
      end
    end.

  Definition scan (S : nat) (w : window) (t : cstable) (data : bytes) : list hit * nat :=
    scan_go (Datatypes.S (length data)) S w t 0 0 data false 0.

  (* the same scan with the checksum recomputed at every position (specification side) *)
  Fixpoint scan_spec_go (fuel : nat) (S : nat) (t : cstable) (j : nat) (rest : bytes) : list hit * nat :=
    match fuel with
    | O => ([], O)
    | Datatypes.S fuel' =>
      match rest with
      | [] => ([], O)
      | b :: rest1 =>
        let slice := take_pad S rest in
        match cs_get t (crc32 slice) slice with
        | [] => let '(hs, misses) := scan_spec_go fuel' S t (Datatypes.S j) rest1 in (hs, Datatypes.S misses)
        | locs => let '(hs, misses) := scan_spec_go fuel' S t (j + S) (skipn S rest) in
                  ({| h_pos := j; h_locs := locs; h_data := slice |} :: hs, misses)
        end
      end
    end.
  Definition scan_spec (S : nat) (t : cstable) (data : bytes) : list hit * nat :=
    scan_spec_go (Datatypes.S (length data)) S t 0 data.
End Scan.
