(* The bulk multiply kernels of gf2p16 (slice.go, slice_amd64.go, slice_amd64.s,
   t.go/t_amd64.go tables) at the level: which table entries are combined into
   which output word, how many elements each loop touches, and the Go dispatch. *)
From Gopar Require Import Model.Base Model.GF16.
Open Scope N_scope.

(** * tables *)

(* mulTable[c].s0[j], .s8[j]  (t.go init) *)
Definition mt_s0 (c j : N) : N := T_Times c j.
Definition mt_s8 (c j : N) : N := T_Times c (N.shiftl j 8).

(* mulTable64[c]: eight 16-entry byte tables (t_amd64.go platformInit) *)
Definition mt64 (c k j : N) : N := T_Times c (N.shiftl j (4 * k)).      (* k = 0..3 *)
Definition mt64_low (c k j : N) : N := N.land (mt64 c k j) 0xFF.         (* byte(t)      *)
Definition mt64_high (c k j : N) : N := N.land (N.shiftr (mt64 c k j) 8) 0xFF.  (* byte(t >> 8) *)

(** * per-word computations *)

(* slice.go / scalar assembly: cEntry.s0[lo] ^ cEntry.s8[hi] *)
Definition word_generic (c lo hi : N) : N := N.lxor (mt_s0 c lo) (mt_s8 c hi).

(* MUL_ALT_MAP_SSSE3_BYTE for one byte lane: four nibble look-ups xored *)
Definition ssse3_byte (tb : N -> N -> N) (lo hi : N) : N :=
  N.lxor (N.lxor (N.lxor (tb 0 (N.land lo 0xF)) (tb 1 (N.land (N.shiftr lo 4) 0xF)))
                 (tb 2 (N.land hi 0xF)))
         (tb 3 (N.land (N.shiftr hi 4) 0xF)).
(* the word that ALT_TO_STANDARD_MAP re-interleaves: outLow | outHigh << 8 *)
Definition word_ssse3 (c lo hi : N) : N :=
  ssse3_byte (mt64_low c) lo hi + 256 * ssse3_byte (mt64_high c) lo hi.

(** * element loops over little-endian byte buffers *)

Definition put_word (acc : bool) (w olo ohi : N) : N * N :=
  let o := if acc then N.lxor (olo + 256 * ohi) w else w in (o mod 256, o / 256).

(* process at most n words; the remaining bytes of out are left as they are *)
Fixpoint word_loop (f : N -> N -> N) (acc : bool) (n : nat) (inb outb : bytes) : bytes :=
  match n with
  | O => outb
  | S n' =>
      match inb, outb with
      | lo :: hi :: irest, olo :: ohi :: orest =>
          let '(a, b) := put_word acc (f lo hi) olo ohi in a :: b :: word_loop f acc n' irest orest
      | _, _ => outb
      end
  end.

Definition lenN {A} (l : list A) : N := N.of_nat (length l).

(* slice.go: for i := 0; i < len(in); i += 2 { in[i], in[i+1], out[i], out[i+1] }
   bounds-checked by Go: an odd length or a shorter out is an index panic *)
Definition kern_portable (c : N) (acc : bool) (inb outb : bytes) : outcome bytes :=
  if negb (N.even (lenN inb)) then Panic PIndex
  else if lenN outb <? lenN inb then Panic PIndex
  else Ok (word_loop (word_generic c) acc (length inb / 2) inb outb).

(* scalar assembly: CX = element count computed from the byte length, then a
   do-while loop (at least one iteration) over 16-bit elements with no bounds
   checks.  asm_count is the expression the assembly computes: SHRQ $1, CX. *)
Definition asm_count (len : N) : N := N.shiftr len 1.
(* the expression of the pinned commit: SHRW $1, CX shifts only the low 16 bits *)
Definition asm_count_legacy (len : N) : N :=
  N.lor (N.ldiff len 0xFFFF) (N.shiftr (N.land len 0xFFFF) 1).

Definition dowhile_iters (count : N) : N := if count =? 0 then 1 else count.

(* bytes touched in both buffers: [0, 2*iterations) *)
Definition asm_extent (count : N -> N) (len : N) : N := 2 * dowhile_iters (count len).

Definition kern_scalar_asm_with (count : N -> N) (c : N) (acc : bool) (inb outb : bytes) : outcome bytes :=
  let ext := asm_extent count (lenN inb) in
  if (lenN inb <? ext) || (lenN outb <? ext) then Panic PIndex      (* out-of-bounds access *)
  else Ok (word_loop (word_generic c) acc (N.to_nat (dowhile_iters (count (lenN inb)))) inb outb).
Definition kern_scalar_asm := kern_scalar_asm_with asm_count.

(* mulSliceSSSE3Unsafe / mulAndAddSliceSSSE3Unsafe: AX = len/32, do-while over
   32-byte chunks; every word of a chunk is computed from the same-index word *)
Definition ssse3_extent (len : N) : N := 32 * dowhile_iters (N.shiftr len 5).
Definition kern_ssse3 (c : N) (acc : bool) (inb outb : bytes) : outcome bytes :=
  let ext := ssse3_extent (lenN inb) in
  if (lenN inb <? ext) || (lenN outb <? ext) then Panic PIndex
  else Ok (word_loop (word_ssse3 c) acc (N.to_nat (16 * dowhile_iters (N.shiftr (lenN inb) 5))) inb outb).

(* slice_amd64.go mulByteSliceLE / mulAndAddByteSliceLE *)
Definition kern_dispatch (useSSSE3 : bool) (c : N) (acc : bool) (inb outb : bytes) : outcome bytes :=
  if negb (lenN outb =? lenN inb) then Panic PExplicit
  else if lenN inb =? 0 then Ok outb
  else
    let len := lenN inb in
    if useSSSE3 && (32 <=? len) then
      do o1 <- kern_ssse3 c acc inb outb;
      let start := len - len mod 32 in
      if start =? len then Ok o1
      else
        let s := N.to_nat start in
        do o2 <- kern_scalar_asm c acc (skipn s inb) (skipn s o1);
        Ok (firstn s o1 ++ o2)
    else kern_scalar_asm c acc inb outb.

Inductive kpath := Portable | ScalarAsm | Dispatch (useSSSE3 : bool).
Definition kernel (p : kpath) (acc : bool) (c : N) (inb outb : bytes) : outcome bytes :=
  match p with
  | Portable => kern_portable c acc inb outb
  | ScalarAsm => kern_scalar_asm c acc inb outb
  | Dispatch u => kern_dispatch u c acc inb outb
  end.

(** * specification: element-wise field multiplication on little-endian words *)

Fixpoint map2 {A B C} (f : A -> B -> C) (a : list A) (b : list B) : list C :=
  match a, b with x :: a', y :: b' => f x y :: map2 f a' b' | _, _ => [] end.

Definition kspec (acc : bool) (c : N) (inb outb : bytes) : bytes :=
  le_bytes (map2 (fun w o => if acc then N.lxor o (fmul c w) else fmul c w)
                 (le_words inb) (le_words outb)).

(* executable twin of kspec using the Horner product (hmul = fmul, proved) *)
Definition kspec_fast (acc : bool) (c : N) (inb outb : bytes) : bytes :=
  le_bytes (map2 (fun w o => if acc then N.lxor o (hmul c w) else hmul c w)
                 (le_words inb) (le_words outb)).
