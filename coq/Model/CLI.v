(* cmd/par/main.go: argument parsing (Go's flag package as used there), command and
   extension dispatch, and the mapping of library results to exit statuses. *)
From Gopar Require Import Model.Base Model.CRC Model.GoPath Model.FS Model.Par2 Model.Par1.
Open Scope N_scope.

Definition EXIT_OK : N := 0.
Definition EXIT_REPAIR_POSSIBLE : N := 1.
Definition EXIT_REPAIR_NOT_POSSIBLE : N := 2.
Definition EXIT_USAGE : N := 3.
Definition EXIT_FILEIO : N := 6.
Definition EXIT_LOGIC : N := 7.

Inductive fkind := FBool | FInt | FString.

(* strconv.ParseInt(s, 0, 64) as the flag package calls it for integer flags: optional sign; base prefix 0b / 0o / 0x
   (any case, only when at least one more character follows), a leading 0 alone means octal; '_' may separate digits
   (and follow a base prefix) and nothing else; digits must be below the base; the value must fit in int64. *)
Definition is_digit (c : N) : bool := (48 <=? c) && (c <=? 57).
Definition lower_c (c : N) : N := if (65 <=? c) && (c <=? 90) then c + 32 else c.
Definition digit_val (c : N) : option N :=
  if is_digit c then Some (c - 48)
  else let l := lower_c c in if (97 <=? l) && (l <=? 122) then Some (l - 97 + 10) else None.
Definition split_base (ds : list N) : N * list N :=
  match ds with
  | 48 :: c :: r =>
      if Nat.leb 3 (length ds)
      then (if lower_c c =? 98 then (2, r) else if lower_c c =? 111 then (8, r) else if lower_c c =? 120 then (16, r) else (8, c :: r))
      else (8, c :: r)
  | 48 :: r => (8, r)
  | _ => (10, ds)
  end.
(* underscoreOK of strconv: saw = 0 start ('^'), 1 digit (or base prefix), 2 underscore, 3 anything else *)
Fixpoint under_ok (hex : bool) (saw : N) (s : list N) : bool :=
  match s with
  | [] => negb (saw =? 2)
  | c :: r =>
      if is_digit c || (hex && (97 <=? lower_c c) && (lower_c c <=? 102)) then under_ok hex 1 r
      else if c =? 95 then (if saw =? 1 then under_ok hex 2 r else false)
      else if saw =? 2 then false
      else under_ok hex 3 r
  end.
Definition underscore_ok (ds : list N) : bool :=
  match ds with
  | 48 :: c :: r => if (lower_c c =? 98) || (lower_c c =? 111) || (lower_c c =? 120) then under_ok (lower_c c =? 120) 1 r else under_ok false 0 ds
  | _ => under_ok false 0 ds
  end.
Definition parse_int (s : list N) : option Z :=
  let '(neg, ds) := match s with
                    | 45 :: r => (true, r)
                    | 43 :: r => (false, r)
                    | _ => (false, s)
                    end in
  match ds with
  | [] => None
  | _ =>
    let '(base, body) := split_base ds in
    let acc := fold_left (fun (st : option Z) c =>
                 match st with
                 | None => None
                 | Some v => if c =? 95 then Some v
                             else match digit_val c with
                                  | Some d => if d <? base then Some (v * Z.of_N base + Z.of_N d)%Z else None
                                  | None => None
                                  end
                 end) body (Some 0%Z) in
    match acc with
    | None => None
    | Some v =>
        if existsb (fun c => c =? 95) ds && negb (underscore_ok ds) then None
        else if neg then (if (9223372036854775808 <? v)%Z then None else Some (- v)%Z)
        else (if (9223372036854775807 <? v)%Z then None else Some v)
    end
  end.

Definition parse_bool (s : list N) : option bool :=
  if existsb (str_eqb s) [[49]; [116]; [84]; [116; 114; 117; 101]; [84; 82; 85; 69]; [84; 114; 117; 101]] then Some true
  else if existsb (str_eqb s) [[48]; [102]; [70]; [102; 97; 108; 115; 101]; [70; 65; 76; 83; 69]; [70; 97; 108; 115; 101]] then Some false
  else None.

Fixpoint split_eq (s : list N) : list N * option (list N) :=
  match s with
  | [] => ([], None)
  | c :: r => if c =? 61 then ([], Some r) else let '(a, b) := split_eq r in (c :: a, b)
  end.

Fixpoint lookup_flag (spec : list (list N * fkind)) (name : list N) : option fkind :=
  match spec with [] => None | (n, k) :: r => if str_eqb n name then Some k else lookup_flag r name end.

(* flag.FlagSet.Parse: returns the flag values seen (last wins) and the remaining arguments, or None on error *)
Fixpoint parse_flags (fuel : nat) (spec : list (list N * fkind)) (args : list (list N)) (acc : list (list N * list N))
  : option (list (list N * list N) * list (list N)) :=
  match fuel with
  | O => None
  | S f =>
    match args with
    | [] => Some (acc, [])
    | a :: rest =>
      match a with
      | 45 :: a1 =>                                   (* starts with '-' *)
        match a1 with
        | [] => Some (acc, args)                       (* "-" is a non-flag argument *)
        | _ =>
          let body := match a1 with 45 :: a2 => a2 | _ => a1 end in
          match a1, body with
          | 45 :: _, [] => Some (acc, rest)            (* "--" terminates the flags *)
          | _, _ =>
            match body with
            | 45 :: _ => None                          (* "---x" bad flag syntax *)
            | 61 :: _ => None                          (* "-=x" bad flag syntax *)
            | _ =>
              let '(name, val) := split_eq body in
              match lookup_flag spec name with
              | None => None                           (* undefined flag (incl. -help) *)
              | Some FBool =>
                  match val with
                  | None => parse_flags f spec rest ((name, [116; 114; 117; 101]) :: acc)
                  | Some v => match parse_bool v with Some _ => parse_flags f spec rest ((name, v) :: acc) | None => None end
                  end
              | Some k =>
                  match val, rest with
                  | Some v, _ => if match k with FInt => match parse_int v with Some _ => true | None => false end | _ => true end
                                 then parse_flags f spec rest ((name, v) :: acc) else None
                  | None, v :: rest' => if match k with FInt => match parse_int v with Some _ => true | None => false end | _ => true end
                                        then parse_flags f spec rest' ((name, v) :: acc) else None
                  | None, [] => None                   (* flag needs an argument *)
                  end
              end
            end
          end
        end
      | _ => Some (acc, args)
      end
    end
  end.

Fixpoint flag_value (vals : list (list N * list N)) (name : list N) : option (list N) :=
  match vals with [] => None | (n, v) :: r => if str_eqb n name then Some v else flag_value r name end.

Definition lower (s : list N) : list N := map (fun c => if (65 <=? c) && (c <=? 90) then c + 32 else c) s.

Definition GLOBAL_FLAGS : list (list N * fkind) := [([104], FBool); ([99; 112; 117; 112; 114; 111; 102; 105; 108; 101], FString); ([103], FInt)].
Definition CREATE_FLAGS : list (list N * fkind) := [([115], FInt); ([99], FInt)].
Definition VERIFY_FLAGS : list (list N * fkind) := [([97], FBool)].
Definition REPAIR_FLAGS : list (list N * fkind) := [([100; 111; 117; 98; 108; 101; 99; 104; 101; 99; 107], FBool)].

Definition int_flag (vals : list (list N * list N)) (name : list N) (dflt : Z) : Z :=
  match flag_value vals name with Some v => match parse_int v with Some z => z | None => dflt end | None => dflt end.
Definition bool_flag (vals : list (list N * list N)) (name : list N) : bool :=
  match flag_value vals name with Some v => match parse_bool v with Some b => b | None => false end | None => false end.

Section CLI.
  Variable md5 : bytes -> bytes.

  Definition exit_of_checker (needed possible : bool) : N :=
    if needed then (if possible then EXIT_REPAIR_POSSIBLE else EXIT_REPAIR_NOT_POSSIBLE) else EXIT_OK.

  Definition exit_of_repair {A} (r : outcome A) : N :=
    match r with
    | Ok _ => EXIT_OK
    | Err ENotEnoughParity => EXIT_REPAIR_NOT_POSSIBLE
    | Err _ => EXIT_LOGIC
    | Panic _ => 2                                     (* a Go panic exits with status 2 *)
    end.

  (* the whole command; cwd is used by PAR2 Create (filepath.Abs) only *)
  Definition cli_run (cwd : list N) (args : list (list N)) (st : io) : N * io :=
    match parse_flags (S (length args)) GLOBAL_FLAGS args [] with
    | None => (EXIT_USAGE, st)
    | Some (gvals, rest) =>
      match rest with
      | [] => (EXIT_USAGE, st)
      | cmd :: cargs =>
        if bool_flag gvals [104] then (EXIT_OK, st)                     (* -h: usage, status 0 *)
        else
        let c := lower cmd in
        if str_eqb c [99] || str_eqb c [99; 114; 101; 97; 116; 101] then
          match parse_flags (S (length cargs)) CREATE_FLAGS cargs [] with
          | None => (EXIT_USAGE, st)
          | Some (vals, files) =>
            match files with
            | [] => (EXIT_USAGE, st)
            | [_] => (EXIT_USAGE, st)
            | par :: fpaths =>
              let e := ext par in
              if str_eqb e EXT_PAR then
                match par1_create md5 par fpaths (int_flag vals [99] 3) st with
                | (Ok _, st') => (EXIT_OK, st')
                | (Err _, st') => (EXIT_LOGIC, st')
                | (Panic _, st') => (2, st')
                end
              else if str_eqb e EXT_PAR2 then
                match par2_create md5 cwd par fpaths {| cp_slice := int_flag vals [115] 2000; cp_parity := int_flag vals [99] 3 |} st with
                | (Ok _, st') => (EXIT_OK, st')
                | (Err _, st') => (EXIT_FILEIO, st')
                | (Panic _, st') => (2, st')
                end
              else (EXIT_LOGIC, st)
            end
          end
        else if str_eqb c [118] || str_eqb c [118; 101; 114; 105; 102; 121] then
          match parse_flags (S (length cargs)) VERIFY_FLAGS cargs [] with
          | None => (EXIT_USAGE, st)
          | Some (vals, files) =>
            match files with
            | [] => (EXIT_USAGE, st)
            | par :: _ =>
              let e := ext par in
              if str_eqb e EXT_PAR then
                match par1_verify md5 par (bool_flag vals [97]) st with
                | (Ok (fc, _), st') => (exit_of_checker (negb (Nat.eqb (fc_unusable fc) 0)) (Nat.leb (fc_unusable fc) (fc_pusable fc)), st')
                | (Err _, st') => (EXIT_LOGIC, st')
                | (Panic _, st') => (2, st')
                end
              else if str_eqb e EXT_PAR2 then
                match par2_verify md5 par st with
                | (Ok c, st') => (exit_of_checker (repair_needed c) (repair_possible c), st')
                | (Err _, st') => (EXIT_LOGIC, st')
                | (Panic _, st') => (2, st')
                end
              else (EXIT_LOGIC, st)
            end
          end
        else if str_eqb c [114] || str_eqb c [114; 101; 112; 97; 105; 114] then
          match parse_flags (S (length cargs)) REPAIR_FLAGS cargs [] with
          | None => (EXIT_USAGE, st)
          | Some (vals, files) =>
            match files with
            | [] => (EXIT_USAGE, st)
            | par :: _ =>
              let e := ext par in
              let dbl := bool_flag vals [100; 111; 117; 98; 108; 101; 99; 104; 101; 99; 107] in
              if str_eqb e EXT_PAR then
                let '((r, _), st') := par1_repair md5 par dbl st in (exit_of_repair r, st')
              else if str_eqb e EXT_PAR2 then
                let '((r, _), st') := par2_repair md5 par dbl st in (exit_of_repair r, st')
              else (EXIT_LOGIC, st)
            end
          end
        else (EXIT_USAGE, st)
      end
    end.
End CLI.
