(* Semantics prelude, part 2, for the Gallina code emitted by tools/gotocoq: list-valued locals.

   A Go slice made by make([]T, n) and a local fixed-size array (var x [k]T), T an unsigned integer type, are
   lists of N.  The translator only lets such a value be indexed (lget), have one element assigned (lset),
   be passed to a whitelisted external function that neither keeps nor changes it, or be returned: a slice is
   never copied to a second variable, so the sharing of Go slices is not observable and a list is a faithful
   value.  Indexing outside the list is Go's "index out of range" panic (Pnc).  The definitions recurse on the
   list, so they compute on a list whose tail is a variable. *)
From Coq Require Import NArith ZArith List Lia.
From Gopar Require Import Model.GoSem.
Import ListNotations.
Open Scope N_scope.

(* make([]T, n): n zeros; a negative length panics.  (Go also panics when n elements exceed the address space:
   such lengths are outside the model, like the overflow of int.) *)
Definition mkzeros {S R} (n : Z) (k : list N -> ctl S R) : ctl S R :=
  if (n <? 0)%Z then Pnc else k (repeat 0 (Z.to_nat n)).

(* l with element i replaced by v; None when i is not an index of l *)
Fixpoint list_upd (l : list N) (i : nat) (v : N) : option (list N) :=
  match l, i with
  | [], _ => None
  | _ :: t, O => Some (v :: t)
  | x :: t, Datatypes.S i' => match list_upd t i' v with Some t' => Some (x :: t') | None => None end
  end.

(* x := l[i] *)
Definition lget {S R} (l : list N) (i : N) (k : N -> ctl S R) : ctl S R :=
  match nth_error l (N.to_nat i) with Some x => k x | None => Pnc end.

(* l[i] = v *)
Definition lset {S R} (l : list N) (i v : N) (k : list N -> ctl S R) : ctl S R :=
  match list_upd l (N.to_nat i) v with Some l' => k l' | None => Pnc end.

(** Characterisation *)

Lemma list_upd_in l : forall i v, (i < length l)%nat ->
  list_upd l i v = Some (firstn i l ++ v :: skipn (Datatypes.S i) l).
Proof.
  induction l as [|x t IH]; intros i v Hi; [cbn [length] in Hi; lia|].
  destruct i as [|i']; [reflexivity|].
  cbn [list_upd]. rewrite IH by (cbn [length] in Hi; lia). reflexivity.
Qed.

Lemma list_upd_out l : forall i v, (length l <= i)%nat -> list_upd l i v = None.
Proof.
  induction l as [|x t IH]; intros i v Hi; [reflexivity|].
  destruct i as [|i']; [cbn [length] in Hi; lia|].
  cbn [list_upd]. rewrite IH by (cbn [length] in Hi; lia). reflexivity.
Qed.

Lemma list_upd_length l : forall i v l', list_upd l i v = Some l' -> length l' = length l.
Proof.
  induction l as [|x t IH]; intros i v l' H; [discriminate|].
  destruct i as [|i']; cbn [list_upd] in H.
  - injection H as <-. reflexivity.
  - destruct (list_upd t i' v) as [t'|] eqn:E; [|discriminate].
    injection H as <-. cbn [length]. f_equal. eapply IH. exact E.
Qed.

Lemma mkzeros_nonneg {S R} (n : Z) (k : list N -> ctl S R) :
  (0 <= n)%Z -> mkzeros n k = k (repeat 0 (Z.to_nat n)).
Proof. intros H. unfold mkzeros. destruct (Z.ltb_spec n 0); [lia|reflexivity]. Qed.

Lemma mkzeros_neg {S R} (n : Z) (k : list N -> ctl S R) : (n < 0)%Z -> mkzeros n k = Pnc.
Proof. intros H. unfold mkzeros. destruct (Z.ltb_spec n 0); [reflexivity|lia]. Qed.

Lemma lget_in {S R} (l : list N) (i : N) (k : N -> ctl S R) :
  (N.to_nat i < length l)%nat -> lget l i k = k (nth (N.to_nat i) l 0).
Proof.
  intros H. unfold lget. destruct (nth_error l (N.to_nat i)) as [x|] eqn:E.
  - rewrite (nth_error_nth _ _ 0 E). reflexivity.
  - apply nth_error_None in E. lia.
Qed.

Lemma lget_out {S R} (l : list N) (i : N) (k : N -> ctl S R) :
  (length l <= N.to_nat i)%nat -> lget l i k = Pnc.
Proof. intros H. unfold lget. apply nth_error_None in H. rewrite H. reflexivity. Qed.

Lemma lset_in {S R} (l : list N) (i v : N) (k : list N -> ctl S R) :
  (N.to_nat i < length l)%nat ->
  lset l i v k = k (firstn (N.to_nat i) l ++ v :: skipn (Datatypes.S (N.to_nat i)) l).
Proof. intros H. unfold lset. rewrite list_upd_in by exact H. reflexivity. Qed.

Lemma lset_out {S R} (l : list N) (i v : N) (k : list N -> ctl S R) :
  (length l <= N.to_nat i)%nat -> lset l i v k = Pnc.
Proof. intros H. unfold lset. rewrite list_upd_out by exact H. reflexivity. Qed.
