(* Shared vocabulary of the gopar model: outcomes, byte helpers, bounded iteration. *)
From Coq Require Export List NArith ZArith Bool.
Export ListNotations.
Open Scope N_scope.

Inductive panicclass := PExplicit | PIndex | PSlice | PNil | PMake.
Inductive errclass :=
  ENotEnoughParity | ESingular | EMalformed | EHashMismatch | EIO | ENotExist | EUsage | EOther.

Inductive outcome (A : Type) : Type :=
| Ok (a : A)
| Err (e : errclass)
| Panic (p : panicclass).
Arguments Ok {A} a.
Arguments Err {A} e.
Arguments Panic {A} p.

Definition obind {A B} (x : outcome A) (f : A -> outcome B) : outcome B :=
  match x with Ok a => f a | Err e => Err e | Panic p => Panic p end.
Notation "'do' x <- e1 ; e2" := (obind e1 (fun x => e2))
  (at level 200, x pattern, e1 at level 100, e2 at level 200, right associativity).

Definition is_ok {A} (x : outcome A) : bool := match x with Ok _ => true | _ => false end.
Definition is_panic {A} (x : outcome A) : bool := match x with Panic _ => true | _ => false end.

(* Bounded universal quantification computed with logarithmic recursion depth
   (N.iter), so that 65535-element sweeps run inside vm_compute. *)
Definition forallN (n : N) (P : N -> bool) : bool :=
  fst (N.iter n (fun s : bool * N => (fst s && P (snd s), N.succ (snd s))) (true, 0)).

Definition bytes := list N.
Definition wf_byte (b : N) : Prop := b < 256.
Definition wf_bytes (l : bytes) : Prop := Forall wf_byte l.
Definition wf_word (w : N) : Prop := w < 65536.
Definition wf_words (l : list N) : Prop := Forall wf_word l.

Fixpoint xorl (a b : list N) : list N :=
  match a, b with
  | x :: a', y :: b' => N.lxor x y :: xorl a' b'
  | _, _ => []
  end.

Definition zeros (n : nat) : list N := repeat 0 n.

(* little-endian 16-bit words <-> bytes *)
Fixpoint le_words (b : bytes) : list N :=
  match b with
  | lo :: hi :: r => (lo + 256 * hi) :: le_words r
  | _ => []
  end.
Fixpoint le_bytes (w : list N) : bytes :=
  match w with
  | [] => []
  | x :: r => (x mod 256) :: (x / 256) :: le_bytes r
  end.

Fixpoint le_encode (n : nat) (v : N) : bytes :=
  match n with O => [] | S n' => (v mod 256) :: le_encode n' (v / 256) end.
Fixpoint le_decode (b : bytes) : N :=
  match b with [] => 0 | x :: r => x + 256 * le_decode r end.
