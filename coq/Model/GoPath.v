(* The fragment of Go's path / path/filepath (Unix) that gopar calls, on byte
   strings: Clean, IsAbs, Join, Dir, Base, Ext.  Clean is modelled component-
   wise (split on '/', stack of components); the correspondence check compares
   it with Go's byte-level implementation exhaustively over small alphabets. *)
From Gopar Require Import Model.Base.
Open Scope N_scope.

Definition SLASH : N := 47.
Definition DOT : N := 46.
Notation str := (list N) (only parsing).

Definition str_eqb (a b : list N) : bool :=
  Nat.eqb (length a) (length b) && forallb (fun xy : N * N => fst xy =? snd xy) (combine a b).

(* split on '/' : "a//b" -> ["a"; ""; "b"], "" -> [""] *)
Fixpoint split_slash (s : list N) : list (list N) :=
  match s with
  | [] => [[]]
  | c :: r =>
      if c =? SLASH then [] :: split_slash r
      else match split_slash r with
           | h :: t => (c :: h) :: t
           | [] => [[c]]
           end
  end.

Fixpoint join_slash (cs : list (list N)) : list N :=
  match cs with
  | [] => []
  | [c] => c
  | c :: r => c ++ SLASH :: join_slash r
  end.

Definition is_dot (c : list N) : bool := str_eqb c [DOT].
Definition is_dotdot (c : list N) : bool := str_eqb c [DOT; DOT].

Definition is_abs (s : list N) : bool := match s with c :: _ => c =? SLASH | [] => false end.

(* one component onto the stack (head = innermost component) *)
Definition clean_step (rooted : bool) (stack : list (list N)) (c : list N) : list (list N) :=
  match c with
  | [] => stack
  | _ =>
    if is_dot c then stack
    else if is_dotdot c then
      match stack with
      | top :: rest => if is_dotdot top then c :: stack else rest
      | [] => if rooted then [] else [c]
      end
    else c :: stack
  end.

Definition clean_stack (rooted : bool) (stack : list (list N)) (cs : list (list N)) : list (list N) :=
  fold_left (clean_step rooted) cs stack.

Definition render (rooted : bool) (stack : list (list N)) : list N :=
  match rooted, stack with
  | true, _ => SLASH :: join_slash (rev stack)
  | false, [] => [DOT]
  | false, _ => join_slash (rev stack)
  end.

(* path.Clean / filepath.Clean *)
Definition clean (s : list N) : list N :=
  match s with
  | [] => [DOT]
  | _ => let rooted := is_abs s in render rooted (clean_stack rooted [] (split_slash s))
  end.

(* filepath.Join(a, b) *)
Definition join2 (a b : list N) : list N :=
  match a, b with
  | [], [] => []
  | [], _ => clean b
  | _, [] => clean a
  | _, _ => clean (a ++ SLASH :: b)
  end.

(* index of the last '/' plus one (0 if none): length of the directory prefix *)
Fixpoint dir_prefix_len (s : list N) : nat :=
  match s with
  | [] => O
  | c :: r => let k := dir_prefix_len r in
              if Nat.eqb k 0 then (if c =? SLASH then 1%nat else 0%nat) else S k
  end.

(* filepath.Dir *)
Definition dir (s : list N) : list N := clean (firstn (dir_prefix_len s) s).

Fixpoint strip_trailing_slashes (r : list N) : list N :=   (* on the reversed string *)
  match r with c :: r' => if c =? SLASH then strip_trailing_slashes r' else r | [] => [] end.

(* filepath.Base / path.Base *)
Definition base (s : list N) : list N :=
  match s with
  | [] => [DOT]
  | _ =>
    let t := rev (strip_trailing_slashes (rev s)) in
    match t with
    | [] => [SLASH]
    | _ => skipn (dir_prefix_len t) t
    end
  end.

(* path.Ext: suffix starting at the last '.' of the last path element *)
Fixpoint ext_rev (r acc : list N) : list N :=       (* r = reversed string *)
  match r with
  | [] => []
  | c :: r' => if c =? SLASH then [] else if c =? DOT then c :: acc else ext_rev r' (c :: acc)
  end.
Definition ext (s : list N) : list N := ext_rev (rev s) [].

(* par2 checkFilename *)
Definition check_filename (name : list N) : outcome unit :=
  if is_abs name then Err EMalformed
  else match clean name with
       | c :: _ => if c =? DOT then Err EMalformed else Ok tt
       | [] => Panic PIndex
       end.

(* lexical containment: p (clean) lies strictly below directory d (clean) *)
Definition has_prefix (p d : list N) : bool := str_eqb (firstn (length d) p) d.
Definition within (d p : list N) : bool :=
  if str_eqb d [DOT] then negb (is_abs p) && negb (has_prefix p [DOT; DOT]) && negb (str_eqb p [DOT])
  else if str_eqb d [SLASH] then is_abs p && negb (str_eqb p [SLASH])
  else has_prefix p (d ++ [SLASH]).
