(* par1/: the PAR 1.0 volume format (header.go, file_entry.go, volume.go), Create
   (encoder.go, create.go) and the decoder (decoder.go, verify.go, repair.go) over
   the file-system model of FS.v.  MD5 is a section variable. *)
From Gopar Require Import Model.Base Model.Matrix Model.GF8 Model.CRC Model.GoPath Model.FS.
Open Scope N_scope.

(** * UTF-8 <-> code points <-> UTF-16LE, as Go's range-over-string, unicode/utf16 and utf8.EncodeRune *)
Definition RUNE_ERROR : N := 0xFFFD.

Definition is_cont (b : N) : bool := (128 <=? b) && (b <? 192).

(* one rune from the front of a UTF-8 byte string: (code point, bytes consumed); invalid -> (U+FFFD, 1) *)
Definition utf8_next (s : bytes) : N * nat :=
  match s with
  | [] => (RUNE_ERROR, 1%nat)
  | b0 :: r =>
    if b0 <? 128 then (b0, 1%nat)
    else if (194 <=? b0) && (b0 <? 224) then
      match r with
      | b1 :: _ => if is_cont b1 then ((b0 - 192) * 64 + (b1 - 128), 2%nat) else (RUNE_ERROR, 1%nat)
      | _ => (RUNE_ERROR, 1%nat)
      end
    else if (224 <=? b0) && (b0 <? 240) then
      match r with
      | b1 :: b2 :: _ =>
        let lo := if b0 =? 224 then 160 else 128 in
        let hi := if b0 =? 237 then 160 else 192 in
        if (lo <=? b1) && (b1 <? hi) && is_cont b2 then ((b0 - 224) * 4096 + (b1 - 128) * 64 + (b2 - 128), 3%nat)
        else (RUNE_ERROR, 1%nat)
      | _ => (RUNE_ERROR, 1%nat)
      end
    else if (240 <=? b0) && (b0 <? 245) then
      match r with
      | b1 :: b2 :: b3 :: _ =>
        let lo := if b0 =? 240 then 144 else 128 in
        let hi := if b0 =? 244 then 144 else 192 in
        if (lo <=? b1) && (b1 <? hi) && is_cont b2 && is_cont b3
        then ((b0 - 240) * 262144 + (b1 - 128) * 4096 + (b2 - 128) * 64 + (b3 - 128), 4%nat)
        else (RUNE_ERROR, 1%nat)
      | _ => (RUNE_ERROR, 1%nat)
      end
    else (RUNE_ERROR, 1%nat)
  end.

Fixpoint utf8_decode (fuel : nat) (s : bytes) : list N :=
  match fuel with
  | O => []
  | S f => match s with
           | [] => []
           | _ => let '(r, k) := utf8_next s in r :: utf8_decode f (skipn k s)
           end
  end.

(* utf8.EncodeRune: surrogates and out-of-range become U+FFFD *)
Definition utf8_encode_rune (r : N) : bytes :=
  let r := if ((0xD800 <=? r) && (r <? 0xE000)) || (0x10FFFF <? r) then RUNE_ERROR else r in
  if r <? 0x80 then [r]
  else if r <? 0x800 then [192 + r / 64; 128 + r mod 64]
  else if r <? 0x10000 then [224 + r / 4096; 128 + (r / 64) mod 64; 128 + r mod 64]
  else [240 + r / 262144; 128 + (r / 4096) mod 64; 128 + (r / 64) mod 64; 128 + r mod 64].

(* utf16.Encode *)
Definition utf16_encode_rune (r : N) : list N :=
  if ((0xD800 <=? r) && (r <? 0xE000)) || (0x10FFFF <? r) then [RUNE_ERROR]
  else if r <? 0x10000 then [r]
  else let r' := r - 0x10000 in [0xD800 + r' / 1024; 0xDC00 + r' mod 1024].

(* utf16.Decode *)
Fixpoint utf16_decode (u : list N) : list N :=
  match u with
  | [] => []
  | a :: r =>
    if (0xD800 <=? a) && (a <? 0xDC00) then
      match r with
      | b :: r' => if (0xDC00 <=? b) && (b <? 0xE000)
                   then ((a - 0xD800) * 1024 + (b - 0xDC00) + 0x10000) :: utf16_decode r'
                   else RUNE_ERROR :: utf16_decode r
      | [] => [RUNE_ERROR]
      end
    else if (0xDC00 <=? a) && (a <? 0xE000) then RUNE_ERROR :: utf16_decode r
    else a :: utf16_decode r
  end.

(* encodeUTF16LEString / decodeUTF16LEString on Go strings (UTF-8 bytes) *)
Definition encode_utf16le (s : bytes) : bytes :=
  flat_map (fun u => [u mod 256; u / 256]) (flat_map utf16_encode_rune (utf8_decode (length s) s)).
Definition decode_utf16le (b : bytes) : bytes :=
  flat_map utf8_encode_rune (utf16_decode (le_words b)).

Definition EXT_PAR : bytes := [46; 112; 97; 114].            (* ".par" *)
Definition PAR1_ID : bytes := [80; 65; 82; 0; 0; 0; 0; 0].
Definition PAR1_VERSION : N := 0x00010000.

Section Par1.
  Variable md5 : bytes -> bytes.

  Definition hash16k (d : bytes) : bytes := md5 (firstn (N.to_nat 16384) d).

  Record p1entry := { e_status : N; e_len : N; e_hash : bytes; e_h16 : bytes; e_name : bytes }.
  Definition saved (e : p1entry) : bool := N.odd (e_status e).

  Record p1vol := { v_sethash_stored : bytes; v_sethash : bytes; v_number : N; v_count : N; v_entries : list p1entry; v_data : bytes }.

  (* writeFileEntry *)
  Definition write_entry (e : p1entry) : bytes :=
    let nb := encode_utf16le (e_name e) in
    le_encode 8 (56 + N.of_nat (length nb)) ++ le_encode 8 (e_status e) ++ le_encode 8 (e_len e)
      ++ e_hash e ++ e_h16 e ++ nb.

  (* writeVolume *)
  Definition write_volume (sethash : bytes) (number : N) (entries : list p1entry) (data : bytes) : bytes :=
    let rest := flat_map write_entry entries ++ data in
    let flb := N.of_nat (length rest - length data) in
    let tail := sethash ++ le_encode 8 number ++ le_encode 8 (N.of_nat (length entries)) ++ le_encode 8 0x60
                ++ le_encode 8 flb ++ le_encode 8 (0x60 + flb) ++ le_encode 8 (N.of_nat (length data)) in
    PAR1_ID ++ le_encode 8 PAR1_VERSION ++ md5 (tail ++ rest) ++ tail ++ rest.

  (* readFileEntry from the remaining bytes: (entry, rest) *)
  Definition read_entry (buf : bytes) : outcome (p1entry * bytes) :=
    if Nat.ltb (length buf) 56 then Err EMalformed
    else
      let eb := le_decode (firstn 8 buf) in
      let rest := skipn 56 buf in
      let fnb := (eb + 2 ^ 64 - 56) mod 2 ^ 64 in            (* uint64 subtraction *)
      if (fnb =? 0) || negb (fnb mod 2 =? 0) then Err EMalformed
      else if N.of_nat (length rest) <? fnb then Err EMalformed
      else Ok ({| e_status := le_decode (firstn 8 (skipn 8 buf)); e_len := le_decode (firstn 8 (skipn 16 buf));
                  e_hash := firstn 16 (skipn 24 buf); e_h16 := firstn 16 (skipn 40 buf);
                  e_name := decode_utf16le (firstn (N.to_nat fnb) rest) |}, skipn (N.to_nat fnb) rest).

  Fixpoint read_entries (n : nat) (buf : bytes) : outcome (list p1entry * bytes) :=
    match n with
    | O => Ok ([], buf)
    | S n' => do er <- read_entry buf;
              do rr <- read_entries n' (snd er);
              Ok (fst er :: fst rr, snd rr)
    end.

  (* readVolume *)
  Definition read_volume (b : bytes) : outcome p1vol :=
    if Nat.ltb (length b) 96 then Err EMalformed
    else if negb (bytes_eqb (firstn 8 b) PAR1_ID) then Err EMalformed
    else if negb (le_decode (firstn 4 (skipn 8 b)) =? PAR1_VERSION) then Err EMalformed
    else if negb (le_decode (firstn 8 (skipn 64 b)) =? 0x60) then Err EMalformed
    else if negb (bytes_eqb (md5 (skipn 32 b)) (firstn 16 (skipn 16 b))) then Err EMalformed
    else
      let count := le_decode (firstn 8 (skipn 56 b)) in
      (* every entry takes more than its 56-byte header: a count the input cannot hold is rejected up front *)
      if N.of_nat (length b - 96) / 56 <? count then Err EMalformed
      else
        do er <- read_entries (N.to_nat count) (skipn 96 b);
        Ok {| v_sethash_stored := firstn 16 (skipn 32 b);
              v_sethash := md5 (flat_map (fun e => if saved e then e_hash e else []) (fst er));
              v_number := le_decode (firstn 8 (skipn 48 b)); v_count := count;
              v_entries := fst er; v_data := snd er |}.

  (** * Create *)
  Definition dec2w (n : N) : bytes :=
    let d := if n <? 10 then [48 + n] else if n <? 100 then [48 + n / 10; 48 + n mod 10]
             else [48 + n / 100; 48 + (n / 10) mod 10; 48 + n mod 10] in
    if Nat.ltb (length d) 2 then 48 :: d else d.
  Definition strip_ext (p : list N) : list N := firstn (length p - length (ext p)) p.
  Definition volume_path (indexPath : list N) (n : N) : list N := strip_ext indexPath ++ [46; 112] ++ dec2w n.

  Fixpoint has_dup (l : list (list N)) : bool :=
    match l with [] => false | x :: r => existsb (str_eqb x) r || has_dup r end.

  Fixpoint io_reads (paths : list (list N)) (st : io) : outcome (list bytes) * io :=
    match paths with
    | [] => (Ok [], st)
    | p :: r => match io_read p st with
                | (Ok d, st') => match io_reads r st' with
                                 | (Ok ds, st'') => (Ok (d :: ds), st'')
                                 | (Err e, st'') => (Err e, st'')
                                 | (Panic q, st'') => (Panic q, st'')
                                 end
                | (Err e, st') => (Err e, st')
                | (Panic q, st') => (Panic q, st')
                end
    end.
  Fixpoint io_writes (ws : list (list N * bytes)) (st : io) : outcome unit * io :=
    match ws with
    | [] => (Ok tt, st)
    | (p, d) :: r => match io_write p d st with
                     | (Ok _, st') => io_writes r st'
                     | (Err e, st') => (Err e, st')
                     | (Panic q, st') => (Panic q, st')
                     end
    end.

  Definition par1_outputs (parPath : list N) (nvol : nat) (names : list bytes) (datas : list bytes) : outcome (list (list N * bytes)) :=
    let size := fold_left (fun m d => Nat.max m (length d)) datas 0%nat in
    let nd := length datas in
    if Nat.ltb 256 (nd + nvol) then Err EOther
    else if Nat.eqb size 0 then Err EOther                      (* reedsolomon: no shard data *)
    else
      let padded := map (fun d => d ++ zeros (size - length d)) datas in
      let parity := par1_encode nd nvol padded in
      let entries := map (fun nd' : bytes * bytes =>
                            {| e_status := 1; e_len := N.of_nat (length (snd nd')); e_hash := md5 (snd nd');
                               e_h16 := hash16k (snd nd'); e_name := fst nd' |}) (combine names datas) in
      let sethash := md5 (flat_map (fun e => e_hash e) entries) in
      Ok ((strip_ext parPath ++ EXT_PAR, write_volume sethash 0 entries [])
          :: map (fun ip : nat * bytes => (volume_path parPath (N.of_nat (S (fst ip))), write_volume sethash (N.of_nat (S (fst ip))) entries (snd ip)))
                 (combine (seq 0 nvol) parity)).

  Definition par1_create (parPath : list N) (files : list (list N)) (nvol : Z) (st : io) : outcome unit * io :=
    if negb (str_eqb (ext parPath) EXT_PAR) then (Err EUsage, st)
    else match files with
    | [] => (Err EUsage, st)
    | _ =>
      let nv := if (nvol <=? 0)%Z then 3%nat else Z.to_nat nvol in
      let names := map base files in
      if has_dup names then (Err EUsage, st)
      else match io_reads files st with
           | (Ok datas, st1) =>
               match par1_outputs parPath nv names datas with
               | Ok outs =>
                   (* Encoder.Write: an input file that is the index file or a volume about to be written is refused
                      before the first write (paths compared after filepath.Clean) *)
                   if existsb (fun f => existsb (fun o : list N * bytes => str_eqb (clean f) (clean (fst o))) outs) files
                   then (Err EOther, st1)
                   else io_writes outs st1
               | Err e => (Err e, st1)
               | Panic q => (Panic q, st1)
               end
           | (Err e, st1) => (Err e, st1)
           | (Panic q, st1) => (Panic q, st1)
           end
    end.

  (** * the decoder *)
  Record p1state := {
    s_index : list N; s_vol : p1vol;
    s_saved : list p1entry;                 (* the entries saved in the volume set, in order *)
    s_data : list (option bytes);           (* per saved entry: the file's data when usable *)
    s_size : nat;                           (* shardByteCount *)
    s_parity : list (option bytes)          (* parityData[:maxI+1] *)
  }.

  Definition entry_path (indexPath : list N) (e : p1entry) : outcome (list N) :=
    if negb (str_eqb (base (e_name e)) (e_name e)) then Err EMalformed
    else Ok (join2 (dir indexPath) (e_name e)).

  (* LoadFileData over the saved entries *)
  Fixpoint load_data (indexPath : list N) (es : list p1entry) (st : io) : outcome (list (option bytes)) * io :=
    match es with
    | [] => (Ok [], st)
    | e :: r =>
        match entry_path indexPath e with
        | Ok p =>
            match io_read p st with
            | (Ok data, st1) =>
                let usable := bytes_eqb (hash16k data) (e_h16 e) && bytes_eqb (md5 data) (e_hash e) in
                match load_data indexPath r st1 with
                | (Ok ds, st2) => (Ok ((if usable then Some data else None) :: ds), st2)
                | (Err x, st2) => (Err x, st2)
                | (Panic q, st2) => (Panic q, st2)
                end
            | (Err ENotExist, st1) =>
                match load_data indexPath r st1 with
                | (Ok ds, st2) => (Ok (None :: ds), st2)
                | (Err x, st2) => (Err x, st2)
                | (Panic q, st2) => (Panic q, st2)
                end
            | (Err x, st1) => (Err x, st1)
            | (Panic q, st1) => (Panic q, st1)
            end
        | Err x => (Err x, st)
        | Panic q => (Panic q, st)
        end
    end.

  (* LoadParityData: volumes .p01 .. .pNN; returns (slot contents, shard size) *)
  Fixpoint load_vols (indexPath : list N) (sethash : bytes) (i : nat) (n : nat) (size : nat) (acc : list (option bytes)) (st : io)
    : outcome (list (option bytes) * nat) * io :=
    match n with
    | O => (Ok (acc, size), st)
    | S n' =>
        match io_read (volume_path indexPath (N.of_nat (S i))) st with
        | (Err ENotExist, st1) => load_vols indexPath sethash (S i) n' size (acc ++ [None]) st1
        | (Err x, st1) => (Err x, st1)
        | (Panic q, st1) => (Panic q, st1)
        | (Ok b, st1) =>
            match read_volume b with
            | Ok v =>
                (* a volume of another set (stale or foreign: other set hash, or a volume number that does not match
                   the file name) is unusable, like one that does not parse *)
                if negb (bytes_eqb (v_sethash_stored v) sethash) then load_vols indexPath sethash (S i) n' size (acc ++ [None]) st1
                else if negb (v_number v =? N.of_nat (S i)) then load_vols indexPath sethash (S i) n' size (acc ++ [None]) st1
                else if Nat.eqb (length (v_data v)) 0 then (Err EMalformed, st1)
                else if negb (Nat.eqb size 0) && negb (Nat.eqb (length (v_data v)) size) then (Err EMalformed, st1)
                else load_vols indexPath sethash (S i) n' (length (v_data v)) (acc ++ [Some (v_data v)]) st1
            | Err x =>
                (* a volume that does not parse (identification, version, truncated, control hash) is damaged:
                   it is unusable, like a missing one, and the others are still used *)
                load_vols indexPath sethash (S i) n' size (acc ++ [None]) st1
            | Panic q => (Panic q, st1)
            end
        end
    end.

  Fixpoint last_some_index (l : list (option bytes)) (i : nat) (acc : nat) : nat :=
    match l with
    | [] => acc
    | Some _ :: r => last_some_index r (S i) i
    | None :: r => last_some_index r (S i) acc
    end.

  Definition p1_load (indexPath : list N) (st : io) : outcome p1state * io :=
    if negb (str_eqb (ext indexPath) EXT_PAR) then (Err EUsage, st)
    else
    match io_read indexPath st with
    | (Ok b, st1) =>
        match read_volume b with
        | Ok v =>
            if negb (v_number v =? 0) then (Err EMalformed, st1)
            else
              let es := filter saved (v_entries v) in
              match load_data indexPath es st1 with
              | (Ok ds, st2) =>
                  match ds with
                  | [] => (Err EOther, st2)                   (* "no file data found" *)
                  | _ =>
                    (* only the entries saved in the volume set are shards and count against the limit of 256 *)
                    if 256 <=? N.of_nat (length es) then (Err EMalformed, st2)         (* no parity volume can exist *)
                    else
                      let maxv := N.to_nat (N.min (256 - N.of_nat (length es)) 99) in
                      match load_vols indexPath (v_sethash_stored v) 0 maxv 0 [] st2 with
                      | (Ok (slots, size), st3) =>
                          (Ok {| s_index := indexPath; s_vol := v; s_saved := es; s_data := ds; s_size := size;
                                 s_parity := firstn (S (last_some_index slots 0 0)) slots |}, st3)
                      | (Err x, st3) => (Err x, st3)
                      | (Panic q, st3) => (Panic q, st3)
                      end
                  end
              | (Err x, st2) => (Err x, st2)
              | (Panic q, st2) => (Panic q, st2)
              end
        | Err x => (Err x, st1)
        | Panic q => (Panic q, st1)
        end
    | (Err x, st1) => (Err x, st1)
    | (Panic q, st1) => (Panic q, st1)
    end.

  Record fcounts := { fc_usable : nat; fc_unusable : nat; fc_pusable : nat; fc_punusable : nat }.
  Definition count_none1 {A} (l : list (option A)) : nat := length (filter (fun o => match o with None => true | _ => false end) l).
  Definition file_counts (s : p1state) : fcounts :=
    {| fc_usable := count_present (s_data s); fc_unusable := count_none1 (s_data s);
       fc_pusable := count_present (s_parity s); fc_punusable := count_none1 (s_parity s) |}.

  (* buildShards: data padded to the shard size, then the parity slots; too-long data is an error *)
  Definition build_shards (s : p1state) : outcome (list (option bytes)) :=
    if existsb (fun o => match o with Some d => Nat.ltb (s_size s) (length d) | None => false end) (s_data s) then Err EMalformed
    else Ok (map (fun o => match o with Some d => Some (d ++ zeros (s_size s - length d)) | None => None end) (s_data s) ++ s_parity s).

  (* rs.Verify *)
  Definition rs_verify (d p : nat) (shards : list (option bytes)) : outcome bool :=
    if existsb (fun o => match o with None => true | Some x => Nat.eqb (length x) 0 end) shards then Err EOther
    else
      let all := map (fun o => match o with Some x => x | None => [] end) shards in
      let want := par1_encode d p (firstn d all) in
      Ok (forallb (fun ab : bytes * bytes => bytes_eqb (fst ab) (snd ab)) (combine want (skipn d all))).

  Definition par1_verify (indexPath : list N) (alldata : bool) (st : io) : outcome (fcounts * bool) * io :=
    match p1_load indexPath st with
    | (Ok s, st1) =>
        let c := file_counts s in
        if alldata && Nat.eqb (fc_unusable c) 0 && Nat.eqb (fc_punusable c) 0 then
          match build_shards s with
          | Ok sh => match rs_verify (length (s_data s)) (length (s_parity s)) sh with
                     | Ok ok => (Ok (c, ok), st1)
                     | Err x => (Err x, st1)
                     | Panic q => (Panic q, st1)
                     end
          | Err x => (Err x, st1)
          | Panic q => (Panic q, st1)
          end
        else (Ok (c, false), st1)
    | (Err x, st1) => (Err x, st1)
    | (Panic q, st1) => (Panic q, st1)
    end.

  (* the write-out phase of Repair *)
  Fixpoint p1_write_repaired (indexPath : list N) (todo : list (p1entry * (option bytes * bytes))) (done : list (list N)) (st : io)
    : (outcome unit * list (list N)) * io :=
    match todo with
    | [] => ((Ok tt, done), st)
    | (e, (Some _, _)) :: r => p1_write_repaired indexPath r done st
    | (e, (None, shard)) :: r =>
        if N.of_nat (length shard) <? e_len e then ((Err EMalformed, done), st)
        else
          let data := firstn (N.to_nat (e_len e)) shard in
          if negb (bytes_eqb (hash16k data) (e_h16 e)) then ((Err EHashMismatch, done), st)
          else if negb (bytes_eqb (md5 data) (e_hash e)) then ((Err EHashMismatch, done), st)
          else match entry_path indexPath e with
               | Ok p =>
                   match io_write p data st with
                   | (Ok _, st1) => p1_write_repaired indexPath r (done ++ [p]) st1
                   | (Err x, st1) => ((Err x, done), st1)
                   | (Panic q, st1) => ((Panic q, done), st1)
                   end
               | Err x => ((Err x, done), st)
               | Panic q => ((Panic q, done), st)
               end
    end.

  Definition par1_repair (indexPath : list N) (dbl : bool) (st : io) : (outcome unit * list (list N)) * io :=
    match p1_load indexPath st with
    | (Ok s, st1) =>
        let nd := length (s_data s) in
        let np := length (s_parity s) in
        if Nat.eqb (s_size s) 0 then
          (* no parity volume was loaded: nothing can be reconstructed *)
          (if Nat.eqb (count_none1 (s_data s)) 0 then ((Ok tt, []), st1) else ((Err ENotEnoughParity, []), st1))
        else if Nat.ltb 256 (nd + np) then ((Err EOther, []), st1)
        else
          match build_shards s with
          | Ok sh =>
              match par1_reconstruct nd np sh with
              | Ok full =>
                  let okdbl := if dbl then
                                 match rs_verify nd np (map Some full) with Ok b => Ok b | Err x => Err x | Panic q => Panic q end
                               else Ok true in
                  match okdbl with
                  | Ok true => p1_write_repaired indexPath (combine (s_saved s) (combine (s_data s) (firstn nd full))) [] st1
                  | Ok false => ((Err EOther, []), st1)
                  | Err x => ((Err x, []), st1)
                  | Panic q => ((Panic q, []), st1)
                  end
              | Err x => ((Err x, []), st1)
              | Panic q => ((Panic q, []), st1)
              end
          | Err x => ((Err x, []), st1)
          | Panic q => ((Panic q, []), st1)
          end
    | (Err x, st1) => ((Err x, []), st1)
    | (Panic q, st1) => ((Panic q, []), st1)
    end.
End Par1.
